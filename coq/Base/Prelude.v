(* Prelude: bytes, result type, small list utilities.  Definitions only + tiny lemmas. *)
From Coq Require Export String Ascii.
From Coq Require Export List NArith ZArith Bool Lia.
From Coq Require Import ZifyBool ZifyNat ZifyN.
Export ListNotations.
Open Scope N_scope.

(* A byte is an N below 256; byte strings are lists of them. *)
Definition byte := N.
Definition bytes := list N.

Inductive res (A : Type) : Type :=
| Ok (a : A)
| Err
| Panic.
Arguments Ok {A} a.
Arguments Err {A}.
Arguments Panic {A}.

Definition is_ok {A} (r : res A) : bool := match r with Ok _ => true | _ => false end.

Definition rbind {A B} (r : res A) (f : A -> res B) : res B :=
  match r with Ok a => f a | Err => Err | Panic => Panic end.
Notation "'do' x <- r ; k" := (rbind r (fun x => k)) (at level 200, x pattern, r at level 100, k at level 200).

(* result class used in correspondence: 0 ok, 1 err, 2 panic *)
Definition res_class {A} (r : res A) : N := match r with Ok _ => 0 | Err => 1 | Panic => 2 end.

Fixpoint beq_bytes (a b : bytes) : bool :=
  match a, b with
  | [], [] => true
  | x :: a', y :: b' => N.eqb x y && beq_bytes a' b'
  | _, _ => false
  end.

Lemma beq_bytes_eq a b : beq_bytes a b = true <-> a = b.
Proof.
  revert b; induction a as [|x a IH]; intros [|y b]; cbn; try (split; congruence).
  rewrite andb_true_iff, N.eqb_eq, IH. split; [intros [-> ->]; reflexivity | intros H; inversion H; auto].
Qed.

(* little-endian fixed-width encoding *)
Fixpoint le_bytes (n : nat) (v : N) : bytes :=
  match n with
  | O => []
  | S n' => (v mod 256) :: le_bytes n' (v / 256)
  end.
Definition le64 (v : N) : bytes := le_bytes 8 v.
Definition le32 (v : N) : bytes := le_bytes 4 v.

Fixpoint be_bytes (n : nat) (v : N) : bytes :=
  match n with
  | O => []
  | S n' => (v / 256 ^ N.of_nat n') mod 256 :: be_bytes n' v
  end.

Fixpoint le_val (b : bytes) : N :=
  match b with [] => 0 | x :: r => x + 256 * le_val r end.
Fixpoint be_val_acc (acc : N) (b : bytes) : N :=
  match b with [] => acc | x :: r => be_val_acc (acc * 256 + x) r end.
Definition be_val (b : bytes) : N := be_val_acc 0 b.

(* hex decoding of string literals used by generated case files *)
Definition hexval (c : ascii) : N :=
  let n := N_of_ascii c in
  if (48 <=? n) && (n <=? 57) then n - 48
  else if (97 <=? n) && (n <=? 102) then n - 87
  else if (65 <=? n) && (n <=? 70) then n - 55 else 0.
Fixpoint hx (s : string) : bytes :=
  match s with
  | String a (String b r) => (16 * hexval a + hexval b) :: hx r
  | _ => []
  end.

Fixpoint chunks (fuel : nat) (k : nat) (l : bytes) : list bytes :=
  match fuel with
  | O => []
  | S f => match l with [] => [] | _ => firstn k l :: chunks f k (skipn k l) end
  end.

Definition sumN (l : list N) : N := fold_right N.add 0 l.
Definition sumZ (l : list Z) : Z := fold_right Z.add 0%Z l.

Definition two64 : N := 18446744073709551616.
Definition two32 : N := 4294967296.
Definition wrap64 (v : N) : N := v mod two64.

Lemma le_bytes_length n v : length (le_bytes n v) = n.
Proof. revert v; induction n; intros; cbn; auto. Qed.

Lemma le_val_le_bytes n v : v < 256 ^ N.of_nat n -> le_val (le_bytes n v) = v.
Proof.
  revert v; induction n as [|n IH]; intros v Hv.
  - cbn in *. lia.
  - cbn [le_bytes le_val]. rewrite IH.
    + pose proof (N.div_mod v 256). lia.
    + rewrite Nat2N.inj_succ, N.pow_succ_r' in Hv.
      apply N.div_lt_upper_bound; lia.
Qed.

Lemma le_bytes_inj n v w : v < 256 ^ N.of_nat n -> w < 256 ^ N.of_nat n ->
  le_bytes n v = le_bytes n w -> v = w.
Proof. intros Hv Hw E. rewrite <- (le_val_le_bytes n v Hv), <- (le_val_le_bytes n w Hw), E. reflexivity. Qed.
