From Goat Require Import Base.Prelude Cases.Common.
(* application-level export / import: exported, fresh application initialised, validators returned by
   InitChain equal the exported ones, second export equal (modulo the one block the fresh chain must
   commit before it can export).  Model statement (LockingGenesis): import (export s) = s and the
   validators handed to CometBFT are the recorded set. *)
Inductive ecase := ECase (exported init_ok validators_equal second_export_equal : bool).
Definition e_model (c : ecase) : bool := true.
Definition e_observed (c : ecase) : bool := match c with ECase a b c d => a && b && c && d end.
Definition mismatches (start : N) (cs : list ecase) : list (N * bool) := mismatches_from e_model e_observed Bool.eqb start cs.
