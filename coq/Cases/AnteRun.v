From Goat Require Import Base.Prelude Model.Ante Cases.Common.
Local Open Scope N_scope.
(* case: mode code (0 check,1 recheck,2 prepare,3 process,4 finalize), height, tx, observed admitted *)
Definition acase : Type := (N * N * atx * bool)%type.
Definition mode_of (n : N) : mode := match n with 0 => MCheck | 1 => MReCheck | 2 => MPrepare | 3 => MProcess | _ => MFinalize end.
Definition a_model (c : acase) : bool := let '(m, h, t, _) := c in admitted (mode_of m) h t.
Definition a_observed (c : acase) : bool := let '(_, _, _, o) := c in o.
Definition mismatches (start : N) (cs : list acase) : list (N * bool) := mismatches_from a_model a_observed Bool.eqb start cs.
