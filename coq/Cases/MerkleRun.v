(* Correspondence runner for family "merkle": model = Merkle.verify over the executable
   double-SHA256; observed = what x/bitcoin/types.VerifyMerkelProof returned. *)
From Goat Require Import Base.Prelude Crypto.Sha256 Model.Merkle Cases.Common.

Definition mcase : Type := (bytes * bytes * bytes * N * bool)%type.
Definition m_model (c : mcase) : bool := let '(t, r, p, i, _) := c in verify sha256d t r p i.
Definition m_observed (c : mcase) : bool := let '(_, _, _, _, o) := c in o.
Definition mismatches (start : N) (cs : list mcase) : list (N * bool) :=
  mismatches_from m_model m_observed Bool.eqb start cs.
