From Goat Require Import Base.Prelude Cases.Common.
(* one case = one malformed input driven through the real application: did it fail, and are the
   module stores equal to those of the replica that never saw it?  The model's statement
   (failure_is_identity for the bridge, deliver for locking): a failed input changes nothing. *)
Inductive zcase := ZCase (failed stores_equal : bool).
Definition z_model (c : zcase) : bool := true.
Definition z_observed (c : zcase) : bool := match c with ZCase f e => implb f e end.
Definition mismatches (start : N) (cs : list zcase) : list (N * bool) := mismatches_from z_model z_observed Bool.eqb start cs.
