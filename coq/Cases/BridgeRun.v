(* Correspondence runner for family "bridge" (x/relayer + x/bitcoin keepers). *)
From stdpp Require Import gmap sorting.
From Goat Require Import Base.Prelude Crypto.Sha256 Gen.Consts Model.BtcParams Model.Bridge Cases.Common.
Local Open Scope N_scope.

Definition rdump : Type := (bytes * N * N)%type.                   (* receipt: txid, txout, amount *)
Definition wdump : Type := (N * (N * N * N * N * option rdump))%type.  (* id, (addr, amount, price, status, receipt) *)
Definition pdump : Type := (N * (list bytes * list (list N) * list N * N))%type.
Definition ddump : Type := (bytes * bytes * N * N * N)%type.        (* evm, txid, txout, amount, tax *)

Record bdump := mkBD {
  bd_rel : N * list N * N * Z * bool;          (* proposer, voters, epoch, last elected, accepted *)
  bd_seq : N;
  bd_voters : list (N * (N * N * N * N));      (* addr -> (key kind 0 hash/1 key, key id, status, height) *)
  bd_on : list N; bd_off : list N;
  bd_pubkeys : list (N * N);
  bd_randao : bytes;
  bd_params : N * N * N * N;
  bd_pubkey : option (N * N);
  bd_tip : N; bd_hashes : list (N * bytes);
  bd_deposited : list (N * N * N);
  bd_nonce : N;
  bd_wd : list wdump;
  bd_pid : N; bd_proc : list pdump;
  bd_cursor : N; bd_qdep : list ddump; bd_qpaid : list (N * rdump); bd_qrej : list N;
}.

Inductive brop := ROp (o : bop) | RDump (d : bdump) | RThr (table : list (N * N)).
(* observed: class, dequeued txs (kind 0 hash / 1 deposit / 2 paid / 3 reject, nonce, a, b, payload bytes, payload2) *)
Definition txdump : Type := (N * N * N * N * bytes * bytes)%type.
Definition bobs : Type := (N * list txdump)%type.

Record binit := mkBI {
  bi_proposer : N; bi_voters : list N; bi_epoch : N; bi_last : Z; bi_accepted : bool; bi_seq : N;
  bi_voter : list (N * (N * N));             (* addr -> (key id (activated, real key), height) *)
  bi_pubkeys : list (N * N);
  bi_randao : bytes;
  bi_rparams : Z * Z;
  bi_accounts : list N;
  bi_book : list (N * bytes);
  bi_params : N * N * N * N;
  bi_magic : bytes;
  bi_pubkey : option btckey;
  bi_tip : N; bi_hashes : list (N * bytes);
  bi_chain : bytes;
}.

Definition bcase : Type := (list bool * binit * list (brop * bobs))%type.

Definition init_bstate (i : binit) : bstate :=
  let '(c, m, r, k) := bi_params i in
  mkBS (bi_proposer i) (bi_voters i) (bi_epoch i) (bi_last i) (bi_accepted i) (bi_seq i)
       (list_to_map (map (fun '(a, (k, h)) => (a, mkVoter (VKKey k) 4 h)) (bi_voter i)))
       [] [] (list_to_set (bi_pubkeys i)) (bi_randao i) (mkRP (fst (bi_rparams i)) (snd (bi_rparams i)))
       (list_to_set (bi_accounts i)) (list_to_map (bi_book i))
       (mkBP c m r k) (bi_magic i) (bi_pubkey i) (bi_tip i) (list_to_map (bi_hashes i))
       ∅ 0 ∅ 0 ∅ (bi_tip i) [] [] [] 0 [] [].

Definition rdump_of (r : receipt) : rdump := (rc_txid r, rc_txout r, rc_amount r).
Definition vk_dump (k : vkey) : N * N := match k with VKHash i => (0, i) | VKKey i => (1, i) end.

Definition bcomp_ok (c : N) (s : bstate) (d : bdump) : bool :=
  match c with
  | 0 => bool_decide ((r_proposer s, r_voters s, r_epoch s, r_last s, r_accepted s) = bd_rel d)
  | 1 => bool_decide (r_seq s = bd_seq d) && beq_bytes (r_randao s) (bd_randao d)
  | 2 => bool_decide (((fun v => (fst (vk_dump (vt_key v)), snd (vk_dump (vt_key v)), vt_status v, vt_height v)) <$> r_voter s)
                      = list_to_map (bd_voters d))
         && bool_decide (r_on s = bd_on d) && bool_decide (r_off s = bd_off d)
  | 3 => bool_decide (r_pubkeys s = list_to_set (bd_pubkeys d))
         && bool_decide ((key_id <$> b_pubkey s) = bd_pubkey d)
  | 4 => bool_decide ((bp_conf (b_params s), bp_min (b_params s), bp_rate (b_params s), bp_cap (b_params s)) = bd_params d)
  | 5 => bool_decide (b_tip s = bd_tip d) && bool_decide (b_hashes s = list_to_map (bd_hashes d))
  | 6 => bool_decide (b_deposited s = list_to_map (map (fun '(t, o, a) => ((t, o), a)) (bd_deposited d)))
  | 7 => bool_decide (((fun w => (w_addr w, w_amount w, w_price w, w_status w, rdump_of <$> w_receipt w)) <$> b_wd s)
                      = list_to_map (bd_wd d))
  | 8 => bool_decide (b_pid s = bd_pid d)
         && bool_decide (((fun p => (p_txids p, p_outputs p, p_ids p, p_fee p)) <$> b_proc s) = list_to_map (bd_proc d))
  | 9 => bool_decide (b_nonce s = bd_nonce d) && bool_decide (b_cursor s = bd_cursor d)
         && bool_decide (map (fun x => (d_evm x, d_txid x, d_txout x, d_amount x, d_tax x)) (b_qdep s) = bd_qdep d)
         && bool_decide (map (fun '(i, r) => (i, rdump_of r)) (b_qpaid s) = bd_qpaid d)
         && bool_decide (b_qrej s = bd_qrej d)
  | _ => true
  end.

Fixpoint bfirst_bad (mask : list bool) (c : N) (s : bstate) (d : bdump) : option N :=
  match mask with
  | [] => None
  | b :: r => if b && negb (bcomp_ok c s d) then Some c else bfirst_bad r (c + 1) s d
  end.

Definition btx_dump (t : btx) : txdump :=
  match t with
  | TxHash n h => (0, n, 0, 0, h, [])
  | TxDeposit n x => (1, n, d_txout x, d_amount x, d_txid x, d_evm x ++ le64 (d_tax x))
  | TxPaid n id r => (2, n, id, rc_amount r, rc_txid r, le64 (rc_txout r))
  | TxReject n id => (3, n, id, 0, [], [])
  end.

(* 12: the group invariant of Proofs/BridgeGroup (C16) and 13: the notice invariant of Proofs/BridgeNotices
   (C05), evaluated on every dumped model state: the hypotheses of the reachable-state theorems hold on the
   exercised histories, starting with the initial state *)
Fixpoint nodupb (l : list N) : bool :=
  match l with [] => true | x :: r => negb (existsb (N.eqb x) r) && nodupb r end.
Definition statusb (s : bstate) (a : N) (ok : N -> bool) : bool :=
  match r_voter s !! a with Some v => ok (vt_status v) | None => false end.
Definition ginvb (s : bstate) : bool :=
  let ms := r_proposer s :: r_voters s in
  nodupb (ms ++ r_on s) && forallb (fun a => statusb s a (fun st => (st =? 4) || (st =? 3))) ms
  && forallb (fun a => statusb s a (fun st => st =? 2)) (r_on s)
  && (1 <=? length (filter (fun a => negb (existsb (N.eqb a) (r_off s))) ms))%nat.
(* 15: the queue invariant of Proofs/BridgeQueueInv (C18): the boarding queues are exactly the records with
   status 2 / 3 *)
Definition qinvb (s : bstate) : bool :=
  nodupb (r_on s) && nodupb (r_off s)
  && forallb (fun a => statusb s a (fun st => st =? 2)) (r_on s)
  && forallb (fun a => statusb s a (fun st => st =? 3)) (r_off s)
  && forallb (fun av => let '(a, v) := av in
                if vt_status v =? 2 then existsb (N.eqb a) (r_on s)
                else if vt_status v =? 3 then existsb (N.eqb a) (r_off s) else true) (map_to_list (r_voter s)).
Definition wstat (s : bstate) (id : N) : N := match b_wd s !! id with Some w => w_status w | None => 0 end.
Definition noticesb (s : bstate) : bool :=
  nodupb (g_paid s) && nodupb (g_refund s)
  && forallb (fun id => wstat s id =? 5) (g_paid s) && forallb (fun id => wstat s id =? 4) (g_refund s)
  && forallb (fun kv => let '(id, w) := kv in
                if w_status w =? 5 then existsb (N.eqb id) (g_paid s)
                else if w_status w =? 4 then existsb (N.eqb id) (g_refund s) else true) (map_to_list (b_wd s)).

Definition bstep (chain : bytes) (mask : list bool) (s : bstate) (o : brop) (ob : bobs) : bstate * option N :=
  let '(cls, txs) := ob in
  match o with
  | ROp k =>
    let '(s', (c, t)) := bk_step sha256 chain s k in
    (s', if nth 10 mask false && negb (c =? cls) then Some 10
         else if nth 11 mask false && negb (bool_decide (map btx_dump t = txs)) then Some 11
         else None)
  | RDump d => (s, match bfirst_bad (firstn 10 mask) 0 s d with
                    | Some c => Some c
                    | None => if nth 2 mask false && negb (ginvb s) then Some 12
                              else if nth 7 mask false && negb (noticesb s) then Some 13
                              else if nth 2 mask false && negb (qinvb s) then Some 15 else None
                    end)
  (* what the real Relayer.Threshold() answered for these group sizes *)
  | RThr t => (s, if nth 0 mask false && negb (forallb (fun nt => threshold (fst nt) =? snd nt) t) then Some 14 else None)
  end.

Fixpoint brun (chain : bytes) (mask : list bool) (s : bstate) (i : N) (ops : list (brop * bobs)) : option (N * N) :=
  match ops with
  | [] => None
  | (o, ob) :: r =>
    let '(s', bad) := bstep chain mask s o ob in
    match bad with
    | Some c => Some (i, c)
    | None => brun chain mask s' (i + 1) r
    end
  end.

Definition b_model (c : bcase) : option (N * N) :=
  let '(mask, i, ops) := c in brun (bi_chain i) mask (init_bstate i) 0 ops.
Definition b_observed (c : bcase) : option (N * N) := None.
Definition opt_eqb (a b : option (N * N)) : bool := match a, b with None, None => true | _, _ => false end.
Definition mismatches (start : N) (cs : list bcase) : list (N * option (N * N)) :=
  mismatches_from b_model b_observed opt_eqb start cs.
