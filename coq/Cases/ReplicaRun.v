From Goat Require Import Base.Prelude Cases.Common.
From stdpp Require Import gmap.
(* one case = one history; per block the validator updates reported by the three replicas
   (public key id, power), in the order each replica emitted them *)
Inductive rcase := RCase (blocks : list (list (N * N) * list (N * N) * list (N * N))).
(* "the same set of validator updates": equal as sets and no update lost or duplicated *)
Definition upd_same (a b : list (N * N)) : bool :=
  bool_decide (list_to_set a =@{gset (N * N)} list_to_set b) && (length a =? length b)%nat.
Definition r_model (c : rcase) : list bool :=
  match c with RCase bs => map (fun _ => true) bs end.
Definition r_observed (c : rcase) : list bool :=
  match c with RCase bs => map (fun '(a, b, c) => upd_same a b && upd_same a c) bs end.
Definition r_eqb (x y : list bool) : bool := bool_decide (x = y).
Definition mismatches (start : N) (cs : list rcase) : list (N * list bool) := mismatches_from r_model r_observed r_eqb start cs.
