From Goat Require Import Base.Prelude Model.GoatBlock Cases.Common.
Inductive fcase :=
| FPrepare (fc : eans) (pid ge : bool) (got : bool)
| FProcess (np : eans) (accepted : bool)
| FFinal (np fc : eans) (committed advanced : bool).
Definition f_model (c : fcase) : bool * bool :=
  match c with
  | FPrepare fc pid ge _ => (prepare_ok fc pid ge, false)
  | FProcess np _ => (check_ok np, false)
  | FFinal np fc _ _ => commit_and_head true np fc
  end.
Definition f_observed (c : fcase) : bool * bool :=
  match c with FPrepare _ _ _ g => (g, false) | FProcess _ a => (a, false) | FFinal _ _ c a => (c, a) end.
Definition f_eqb (x y : bool * bool) : bool := Bool.eqb (fst x) (fst y) && Bool.eqb (snd x) (snd y).
Definition mismatches (start : N) (cs : list fcase) : list (N * (bool * bool)) := mismatches_from f_model f_observed f_eqb start cs.
