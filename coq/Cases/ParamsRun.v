(* Correspondence runner for family "params": ProcessBridgeRequest parameter updates. *)
From Goat Require Import Base.Prelude Model.BtcParams Cases.Common.

Definition ptuple : Type := (N * N * N * N)%type.               (* conf, min, rate, cap *)
(* initial parameters, request lists, probes of genesis validation; observed: parameters after every list, then
   for every probe (a,b,c,0): a = Params.Validate accepts, b = GenesisState.Validate of a genesis with a relayer key accepts,
   c = the module's InitGenesis at a non-zero height does not panic (first probe of a case only, else 2) *)
Definition pcase : Type := (ptuple * list (list (N * N) * list N * list N) * list ptuple * list ptuple)%type.
Definition to_bp (t : ptuple) : bparams := let '(c, m, r, k) := t in mkBP c m r k.
Definition of_bp (p : bparams) : ptuple := (bp_conf p, bp_min p, bp_rate p, bp_cap p).
Fixpoint p_scan (p : bparams) (h : list (list (N * N) * list N * list N)) : list ptuple :=
  match h with
  | [] => []
  | (t, c, m) :: r => let p' := apply_preqs p (mkPR t c m) in of_bp p' :: p_scan p' r
  end.
Definition p_model (c : pcase) : list ptuple :=
  let '(i, h, probes, _) := c in
  let vb t := if params_validate (to_bp t) then 1 else 0 in
  p_scan (to_bp i) h ++
  match probes with
  | [] => []
  | t0 :: rest => (vb t0, vb t0, vb t0, 0) :: map (fun t => (vb t, vb t, 2, 0)) rest
  end.
Definition p_observed (c : pcase) : list ptuple := let '(_, _, _, o) := c in o.
Definition ptuple_eqb (a b : ptuple) : bool :=
  let '(a1, a2, a3, a4) := a in let '(b1, b2, b3, b4) := b in
  (a1 =? b1) && (a2 =? b2) && (a3 =? b3) && (a4 =? b4).
Fixpoint list_eqb {A} (e : A -> A -> bool) (x y : list A) : bool :=
  match x, y with
  | [], [] => true
  | a :: x', b :: y' => e a b && list_eqb e x' y'
  | _, _ => false
  end.
Definition mismatches (start : N) (cs : list pcase) : list (N * list ptuple) :=
  mismatches_from p_model p_observed (list_eqb ptuple_eqb) start cs.
