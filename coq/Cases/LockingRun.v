(* Correspondence runner for family "locking": replays the operation history the real keeper
   executed on the model and compares, op by op, result classes, outputs and state dumps.
   A case evaluates to None when everything selected by the mask agrees, else to
   Some (op index, component id) of the first disagreement. *)
From stdpp Require Import gmap sorting.
From Goat Require Import Base.Prelude Gen.Consts Model.Locking Model.LockingGenesis Cases.Common.
From Goat Require Proofs.LockingPending.
Local Open Scope Z_scope.

Definition vdump : Type := (N * (N * N * list (N * Z) * Z * Z * N * Z * Z * Z))%type.
  (* addr, (pubkey, power, holdings, reward, gas_reward, status code, offset, missed, jailed) *)
Definition udump : Type := (N * N * N * Z)%type.     (* id, token, recipient, amount *)
Definition rdump : Type := (N * N * Z * Z)%type.     (* id, recipient, goat, gas *)

Record sdump := mkSD {
  d_vals : list vdump;
  d_index : list (N * N * Z);
  d_rank : list (N * N);
  d_set : list (N * N);
  d_toks : list (N * (N * Z));
  d_thr : list (N * Z);
  d_slashed : list (N * Z);
  d_pool : Z * Z * Z;
  d_unlockq : list (Z * list udump);
  d_qr : list rdump;
  d_qu : list udump;
  d_nonce : N;
  d_accounts : list N;   (* only the watched addresses that have an auth account *)
}.

Inductive lop :=
| LOp (o : lkop)
| LDump (d : sdump).

(* observed: result class, end-block updates (validator, power), dequeued txs (kind 0 reward / 1 unlock, nonce, id, recipient, x, y) *)
Definition lobs : Type := (N * list (N * N) * list (N * N * N * N * Z * Z))%type.

Record linit := mkLI {
  i_params : lparams;
  i_pool : Z * Z * Z;
  i_accounts : list N;
}.

Definition lcase : Type := (list bool * linit * list (lop * lobs))%type.

Definition init_state (i : linit) : lstate :=
  let '(rem, goat, gas) := i_pool i in
  empty_lstate (i_params i) rem goat gas (list_to_set (i_accounts i)).

(* ---- comparison helpers ---- *)
Definition udump_of (u : unlock) : udump := (u_id u, u_token u, u_recipient u, u_amount u).
Definition rdump_of (r : reward) : rdump := (r_id r, r_recipient r, r_goat r, r_gas r).
Definition vmap_of (l : list vdump) : gmap N (N * N * gmap N Z * Z * Z * N * Z * Z * Z) :=
  list_to_map (map (fun '(a, (pk, p, h, r, g, st, o, m, j)) => (a, (pk, p, (list_to_map h : gmap N Z), r, g, st, o, m, j))) l).
Definition vmap_model (s : lstate) : gmap N (N * N * gmap N Z * Z * Z * N * Z * Z * Z) :=
  (fun v => (v_pubkey v, v_power v, v_hold v, v_reward v, v_gas v, status_code (v_status v), v_offset v, v_missed v, v_jailed v)) <$> l_val s.

Definition proj_vals (c : N) (x : N * N * gmap N Z * Z * Z * N * Z * Z * Z) : (N * N * gmap N Z * Z * Z * N * Z * Z * Z) :=
  let '(pk, p, h, r, g, st, o, m, j) := x in
  match c with
  | 0%N => (pk, p, ∅, 0, 0, st, 0, 0, 0)
  | 1%N => (0%N, 0%N, h, 0, 0, 0%N, 0, 0, 0)
  | 2%N => (0%N, 0%N, ∅, r, g, 0%N, 0, 0, 0)
  | _ => (0%N, 0%N, ∅, 0, 0, 0%N, o, m, j)
  end.

Definition comp_ok (c : N) (s : lstate) (d : sdump) : bool :=
  match c with
  | 0%N | 1%N | 2%N | 3%N => bool_decide (proj_vals c <$> vmap_model s = proj_vals c <$> vmap_of (d_vals d))
  | 4%N => bool_decide (l_index s = list_to_map (map (fun '(t, a, z) => ((t, a), z)) (d_index d)))
  | 5%N => bool_decide (l_rank s = list_to_set (d_rank d))
  | 6%N => bool_decide (l_set s = list_to_map (d_set d))
  | 7%N => bool_decide (((fun t => (t_weight t, t_thr t)) <$> l_tok s) = list_to_map (d_toks d))
           && bool_decide (l_thr s = list_to_map (d_thr d))
  | 8%N => bool_decide (l_slashed s = list_to_map (d_slashed d))
  | 9%N => bool_decide ((l_remain s, l_goat s, l_gasp s) = d_pool d)
  | 10%N => bool_decide ((map udump_of <$> l_unlockq s) = list_to_map (d_unlockq d))
  | 11%N => bool_decide (map rdump_of (l_q_rewards s) = d_qr d) && bool_decide (map udump_of (l_q_unlocks s) = d_qu d)
            && bool_decide (l_nonce s = d_nonce d)
  | _ => true
  end.

Fixpoint first_bad (mask : list bool) (c : N) (s : lstate) (d : sdump) : option N :=
  match mask with
  | [] => None
  | b :: r => if b && negb (comp_ok c s d) then Some c else first_bad r (c + 1)%N s d
  end.

Definition mask_at (mask : list bool) (i : nat) : bool := nth i mask false.

Definition ltx_dump (t : ltx) : N * N * N * N * Z * Z :=
  match t with
  | TxReward n r => (0%N, n, r_id r, r_recipient r, r_goat r, r_gas r)
  | TxUnlock n u => (1%N, n, u_id u, u_recipient u, Z.of_N (u_token u), u_amount u)
  end.

Definition set_of_updates (l : list (N * N)) : gset (N * N) := list_to_set l.

(* run one op; returns new state and the first disagreeing component (if any) *)
Definition step (mask : list bool) (s : lstate) (o : lop) (ob : lobs) : lstate * option N :=
  let '(cls, ups, txs) := ob in
  match o with
  | LOp k =>
    let '(s', (c, u, t)) := lk_step s k in
    (s', if mask_at mask 12 && negb (c =? cls)%N then Some 12%N
         else if mask_at mask 13 && negb (bool_decide (set_of_updates u = set_of_updates ups) && (length u =? length ups)%nat) then Some 13%N
         else if mask_at mask 14 && negb (bool_decide (map ltx_dump t = txs)) then Some 14%N
         (* 16: after a successful EndBlocker the recorded set is the active validators (C18 / C13 invariant) *)
         else if mask_at mask 15 && (c =? 0)%N && (match k with KEnd => true | _ => false end) && negb (set_okb s') then Some 16%N
         else None)
  | LDump d => (s, match first_bad (firstn 12 mask) 0%N s d with
                   | Some c => Some c
                   (* 15: ranking / per-token index / threshold list agree with their sources on every reached state *)
                   | None => if mask_at mask 15 && negb (derived_okb s) then Some 15%N else None
                   end)
  end.

Fixpoint run (mask : list bool) (s : lstate) (i : N) (ops : list (lop * lobs)) : option (N * N) :=
  match ops with
  | [] => None
  | (o, ob) :: r =>
    let '(s', bad) := step mask s o ob in
    match bad with
    | Some c => Some (i, c)
    | None => run mask s' (i + 1)%N r
    end
  end.

(* 17: the hypotheses of the reachable-state theorems (C13 / C18) hold of this history: unsigned lock
   amounts, slash fractions within [0, 1] *)
Definition wf_opb (o : lop) : bool :=
  match o with
  | LOp (KReq _ _ q) => forallb (fun r : N * N * Z => 0 <=? snd r) (q_locks q)
  | _ => true
  end.
(* block structure (Proofs/LockingPending.phase_step) *)
Fixpoint wf_histb (ph : option Z) (ops : list (lop * lobs)) : bool :=
  match ops with
  | [] => true
  | (LOp k, _) :: r => match LockingPending.phase_step ph k with Some ph' => wf_histb ph' r | None => false end
  | (LDump _, _) :: r => wf_histb ph r
  end.
Definition wf_caseb (i : linit) (ops : list (lop * lobs)) : bool :=
  (0 <=? lp_jail_dur (i_params i)) && wf_histb None ops &&
  (0 <=? lp_slash_down (i_params i)) && (lp_slash_down (i_params i) <=? one18) &&
  (0 <=? lp_slash_double (i_params i)) && (lp_slash_double (i_params i) <=? one18) &&
  forallb (fun x => wf_opb (fst x)) ops.
Definition l_model (c : lcase) : option (N * N) :=
  let '(mask, i, ops) := c in
  if mask_at mask 15 && negb (wf_caseb i ops) then Some (0%N, 17%N) else run mask (init_state i) 0%N ops.
Definition l_observed (c : lcase) : option (N * N) := None.
Definition opt_eqb (a b : option (N * N)) : bool :=
  match a, b with None, None => true | _, _ => false end.
Definition mismatches (start : N) (cs : list lcase) : list (N * option (N * N)) :=
  mismatches_from l_model l_observed opt_eqb start cs.
