From Goat Require Import Base.Prelude Crypto.Sha256 Gen.Consts Cases.Common.
From Goat Require Export Model.Address.
Local Open Scope N_scope.
Inductive acase :=
| ADeposit (net : N) (k : rkey) (magic evm : bytes) (version : N) (h160 tweak : bytes) (obs : option (bytes * bytes))
| AVerify0 (k : rkey) (evm txout tweak : bytes) (obs : bool)
| AVerify1 (k : rkey) (magic evm t0 t1 h160 : bytes) (obs : bool)
| ADecode (net : N) (s : bytes) (obs : option bytes).

Definition net_of (i : N) : netparams :=
  match nth_error c_networks (N.to_nat i) with
  | Some (_, hrp, pkh, sh) => mkNet hrp pkh sh
  | None => mkNet [] 0 0
  end.
Definition out := (N * bytes * bytes)%type.
Definition a_model (c : acase) : out :=
  match c with
  | ADeposit net k magic evm ver h160 tweak _ =>
    let enc := encode_address sha256d in
    if ver =? 0 then
      match deposit_address_v0 sha256 (fun _ _ => tweak) k evm (net_of net) with
      | Ok a => (1, enc a, []) | _ => (0, [], []) end
    else
      match deposit_address_v1 (fun _ => h160) k magic evm (net_of net) with
      | Ok (a, s) => (1, enc a, s) | _ => (0, [], []) end
  | AVerify0 k evm txout tweak _ => (if verify_deposit_script_v0 sha256 (fun _ _ => tweak) k evm txout then 1 else 0, [], [])
  | AVerify1 k magic evm t0 t1 h160 _ => (if verify_deposit_script_v1 (fun _ => h160) k magic evm t0 t1 then 1 else 0, [], [])
  | ADecode net s _ =>
    match decode_btc_address sha256d c_segwit_hrps (net_of net) s with
    | Ok script => (1, script, []) | _ => (0, [], []) end
  end.
Definition a_observed (c : acase) : out :=
  match c with
  | ADeposit _ _ _ _ _ _ _ (Some (a, s)) => (1, a, s)
  | ADeposit _ _ _ _ _ _ _ None => (0, [], [])
  | AVerify0 _ _ _ _ b | AVerify1 _ _ _ _ _ _ b => (if b then 1 else 0, [], [])
  | ADecode _ _ (Some s) => (1, s, [])
  | ADecode _ _ None => (0, [], [])
  end.
Definition a_eqb (x y : out) : bool :=
  let '(a, b, c) := x in let '(a', b', c') := y in (a =? a') && beq_bytes b b' && beq_bytes c c'.
Definition mismatches (start : N) (cs : list acase) : list (N * out) := mismatches_from a_model a_observed a_eqb start cs.
