(* Correspondence runner for family "chain" (C09): histories of finalised consensus blocks on the real
   application; after every block the committed head / beacon root and what the engine was told are compared
   with the chain-level model. *)
From Goat Require Import Base.Prelude Model.GoatBlock Model.GoatChain Cases.Common.
Local Open Scope N_scope.

(* per block: committed head (hash, parent, number), beacon root, the newPayload call (head hash, number), the
   forkchoiceUpdated call (head, safe, finalized) *)
Definition cobs : Type := (bytes * bytes * N * bytes * option (bytes * N) * option (bytes * bytes * bytes))%type.
(* initial head (hash, parent, number), initial beacon root, blocks with what was observed after each *)
Definition ccase : Type := (bytes * bytes * N * bytes * list (cblock * cobs))%type.

Definition predict (s : cstate) (b : cblock) : cstate * cobs :=
  let s' := cstep s b in
  let t := told s b in
  (s', (h_hash (c_head s'), h_parent (c_head s'), h_number (c_head s'), c_beacon s',
        Some (h_hash t, h_number t),
        if notify_ok (b_np b) then Some (h_hash t, h_parent t, h_parent t) else None)).
Fixpoint predict_all (s : cstate) (bs : list (cblock * cobs)) : list cobs :=
  match bs with [] => [] | (b, _) :: r => let '(s', o) := predict s b in o :: predict_all s' r end.
Definition c_model (c : ccase) : list cobs :=
  let '(h, p, n, beacon, bs) := c in predict_all (mkCS (mkHead h p n) beacon) bs.
Definition c_observed (c : ccase) : list cobs := let '(_, _, _, _, bs) := c in map snd bs.

Definition onp_eqb (a b : option (bytes * N)) : bool :=
  match a, b with Some (x, n), Some (y, m) => beq_bytes x y && (n =? m) | None, None => true | _, _ => false end.
Definition ofc_eqb (a b : option (bytes * bytes * bytes)) : bool :=
  match a, b with Some (x1, x2, x3), Some (y1, y2, y3) => beq_bytes x1 y1 && beq_bytes x2 y2 && beq_bytes x3 y3 | None, None => true | _, _ => false end.
Definition cobs_eqb (a b : cobs) : bool :=
  let '(a1, a2, a3, a4, a5, a6) := a in let '(b1, b2, b3, b4, b5, b6) := b in
  beq_bytes a1 b1 && beq_bytes a2 b2 && (a3 =? b3) && beq_bytes a4 b4 && onp_eqb a5 b5 && ofc_eqb a6 b6.
Fixpoint cl_eqb (x y : list cobs) : bool :=
  match x, y with [], [] => true | a :: x', b :: y' => cobs_eqb a b && cl_eqb x' y' | _, _ => false end.
Definition mismatches (start : N) (cs : list ccase) : list (N * list cobs) := mismatches_from c_model c_observed cl_eqb start cs.
