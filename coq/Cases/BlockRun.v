From Goat Require Import Base.Prelude Model.GoatBlock Cases.Common.
Definition gcase : Type := (list ptx * pfacts * bool * option bool)%type.
Definition g_model (c : gcase) : bool * option bool :=
  let '(txs, f, _, m) := c in (process txs f, match m with Some _ => Some (new_eth_block_ok f) | None => None end).
Definition g_observed (c : gcase) : bool * option bool := let '(_, _, a, m) := c in (a, m).
Definition g_eqb (x y : bool * option bool) : bool :=
  Bool.eqb (fst x) (fst y) && match snd x, snd y with Some a, Some b => Bool.eqb a b | None, None => true | _, _ => false end.
Definition mismatches (start : N) (cs : list gcase) : list (N * (bool * option bool)) := mismatches_from g_model g_observed g_eqb start cs.
