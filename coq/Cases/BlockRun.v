From Goat Require Import Base.Prelude Model.GoatBlock Cases.Common.
(* a case: the proposal's transactions, the facts about the payload, ProcessProposal's verdict, the result of the
   block message when finalised, and - when the proposal carries a payload - the real inputs of VerifyDequeue: the
   system transactions the two modules' dequeue functions return on the committed state, the payload's extra
   data and its transactions.  The dequeue fact is then COMPUTED by the model's verify_dequeue from those
   bytes; the fact the harness asserts from the way it built the mutation must agree with it. *)
Definition dq : Type := (list bytes * bytes * list bytes)%type.
Definition gcase : Type := (list ptx * pfacts * bool * option bool * option dq)%type.
Definition with_dequeue (f : pfacts) (b : bool) : pfacts :=
  mkPF (f_proposer_is_cons f) (f_recipient_is_proposer f) (f_timestamp_ok f) (f_parent_ok f) (f_number_ok f)
       (f_requests_decodable f) (f_gas_requests f) (f_beacon_ok f) b (f_engine_valid f) (f_blob_gas_zero f) (f_sub_requests_ok f).
Definition g_facts (c : gcase) : pfacts :=
  let '(_, f, _, _, d) := c in
  match d with Some (due, extra, txs) => with_dequeue f (verify_dequeue due extra txs) | None => f end.
(* third component: the asserted fact equals the computed one *)
Definition g_model (c : gcase) : bool * option bool * bool :=
  let '(txs, f, _, m, d) := c in
  let f' := g_facts c in
  (process txs f', match m with Some _ => Some (new_eth_block_ok f') | None => None end,
   match d with Some _ => Bool.eqb (f_dequeue_ok f) (f_dequeue_ok f') | None => true end).
Definition g_observed (c : gcase) : bool * option bool * bool := let '(_, _, a, m, _) := c in (a, m, true).
Definition g_eqb (x y : bool * option bool * bool) : bool :=
  let '(x1, x2, x3) := x in let '(y1, y2, y3) := y in
  Bool.eqb x1 y1 && match x2, y2 with Some a, Some b => Bool.eqb a b | None, None => true | _, _ => false end && Bool.eqb x3 y3.
Definition mismatches (start : N) (cs : list gcase) : list (N * (bool * option bool * bool)) := mismatches_from g_model g_observed g_eqb start cs.
