(* Generic comparison loop used by the generated case files: returns, for every case whose
   observed (implementation) output differs from the model's output, its global index and
   the model's output. *)
From Goat Require Import Base.Prelude.

Section Mis.
Context {C O : Type} (model : C -> O) (observed : C -> O) (eqb : O -> O -> bool).
Fixpoint mismatches_from (i : N) (cs : list C) : list (N * O) :=
  match cs with
  | [] => []
  | c :: r =>
    let m := model c in
    if eqb m (observed c) then mismatches_from (i + 1) r
    else (i, m) :: mismatches_from (i + 1) r
  end.
End Mis.
