(* C12 - rewards are conserved and follow the emission schedule. *)
From stdpp Require Import gmap.
From Goat Require Import Base.Prelude Model.Locking Proofs.LockingRewards.
Local Open Scope Z_scope.

(* All reward value is accounted for at every point of every history: what was present at
   genesis + granted funds + reported gas fees = undistributed pools + validators' unclaimed
   rewards + claimed payouts. *)
Theorem C12_conservation : forall c (ops : list lkop) (s : lstate),
  reward_ok c s -> reward_ok c (lk_run s ops).
Proof. intros c ops s. exact (lk_run_reward c ops s). Qed.
Print Assumptions C12_conservation.

Theorem C12_conservation_from_genesis : forall p remain goat gas accounts ops,
  reward_ok (remain + goat + gas) (lk_run (empty_lstate p remain goat gas accounts) ops).
Proof. intros. apply lk_run_reward, empty_reward. Qed.
Print Assumptions C12_conservation_from_genesis.

(* emission: each execution block moves min(remaining grant, scheduled reward) into distribution;
   the scheduled reward is the initial reward halved once per elapsed halving interval *)
Theorem C12_emission : forall s h g grants s',
  update_reward_pool s h [g] grants = Ok s' ->
  let avail := l_remain s + sumZ grants in
  let r := Z.min avail (block_reward (l_params s) h) in
  l_goat s' = l_goat s + r /\ l_remain s' = avail - r /\ l_gasp s' = l_gasp s + Z.max g 0.
Proof. exact update_reward_pool_spec. Qed.
Print Assumptions C12_emission.

Theorem C12_halving : forall p h, 0 < lp_halving p -> 0 <= h ->
  block_reward p h = lp_initial_reward p / 2 ^ (h / lp_halving p).
Proof. exact block_reward_spec. Qed.
Print Assumptions C12_halving.

(* distribution: shares are floor(pool * floor(p*1e18/total) / 1e18); together they never exceed
   the pool, so only rounding dust is carried over and no pool goes negative *)
Theorem C12_distribution_bound : forall pool total ps,
  0 <= pool -> 0 < total -> Forall (fun p => 0 <= p) ps -> sumZ ps = total ->
  0 <= shares_total pool total ps <= pool.
Proof. exact shares_le_pool. Qed.
Print Assumptions C12_distribution_bound.

Theorem C12_distribution : forall votes s gas goat total rg rr s' g r,
  distribute s gas goat total rg rr votes = Ok (s', g, r) ->
  g = rg - shares_total gas total (map snd votes) /\ r = rr - shares_total goat total (map snd votes) /\
  l_params s' = l_params s /\ l_remain s' = l_remain s.
Proof. exact distribute_rem. Qed.
Print Assumptions C12_distribution.

(* a claim pays out exactly the accrued amounts once and resets them *)
Theorem C12_claim_once : forall s id a rc s' v,
  claim_one s (id, a, rc) = Ok s' -> l_val s !! a = Some v ->
  l_q_rewards s' = l_q_rewards s ++ [mkReward id rc (v_reward v) (v_gas v)] /\
  l_val s' !! a = Some (with_rewards v 0 0) /\
  forall b, b <> a -> l_val s' !! b = l_val s !! b.
Proof. exact claim_one_spec. Qed.
Print Assumptions C12_claim_once.

(* no pool or accrued reward is ever negative, for every history whose grants and voting powers
   are non-negative (they are unsigned on the wire) *)
Theorem C12_nonneg : forall ops s, Forall wf_lkop ops -> 0 <= lp_initial_reward (l_params s) ->
  rew_nonneg s -> rew_nonneg (lk_run s ops).
Proof. exact lk_run_nonneg. Qed.
Print Assumptions C12_nonneg.

(* The rounding mode matters: with the half-even rounded fraction the code used before the repair
   ("fix: truncate the voting-power fraction"), reward 2378234400000000000 and powers 33/45/30
   give shares that exceed the pool by one. *)
Definition frac_half_even (p total : Z) : Z :=
  let q := p * one18 * one18 / total in
  let d := q / one18 in let rm := q mod one18 in
  if (2 * rm <? one18) then d else if (2 * rm >? one18) then d + 1 else if Z.even d then d else d + 1.
Example C12_unfixed_refuted :
  let pool := 2378234400000000000 in
  sumZ (map (fun p => share_of pool (frac_half_even p 108)) [33; 45; 30]) = pool + 1 /\
  shares_total pool 108 [33; 45; 30] <= pool.
Proof. vm_compute. split; [reflexivity | discriminate]. Qed.
