(* C05 - withdrawals reach exactly one terminal outcome, paid within the user's terms. *)
From stdpp Require Import gmap.
From Goat Require Import Base.Prelude Model.Bridge Proofs.BridgeWithdrawals.
Local Open Scope N_scope.

(* status: 0 absent, 1 pending, 2 processing, 3 cancel requested, 4 cancelled (refunded), 5 paid.
   Every operation moves every withdrawal id along at most two consecutive allowed edges (a request
   list may create a withdrawal and register its cancel request at once), given that withdrawal ids
   in requests are fresh (they are assigned by the bridge contract's counter). *)
Theorem C05_edges : forall (H : bytes -> bytes) (chain : bytes) s o,
  fresh_op s o -> forall id, path (wd_status s id) (wd_status (fst (bk_step H chain s o)) id).
Proof. exact bk_step_edges. Qed.
Print Assumptions C05_edges.

Theorem C05_paid_terminal : forall a, edge 5 a -> a = 5.
Proof. exact terminal_paid. Qed.
Theorem C05_cancelled_terminal : forall a, edge 4 a -> a = 4.
Proof. exact terminal_cancelled. Qed.
Print Assumptions C05_paid_terminal.

(* paid and cancelled are terminal and mutually exclusive over every continuation of the history *)
Theorem C05_terminal_forever : forall (H : bytes -> bytes) (chain : bytes) ops s id,
  (forall s0 o, fresh_op s0 o) ->
  (wd_status s id = 5 \/ wd_status s id = 4) -> wd_status (bk_run H chain s ops) id = wd_status s id.
Proof. exact terminal_forever. Qed.
Print Assumptions C05_terminal_forever.

(* the terms under which a withdrawal becomes processing: it was pending or cancel-requested, the
   matching output pays exactly its decoded address script, no more than the requested amount, at a
   fee not above max price x size; the recorded receipt names that output *)
Theorem C05_processing_terms : forall (H : bytes -> bytes) ids s txid fee len idx outs vals s' vals',
  process_loop s txid fee len idx ids outs vals = Ok (s', vals') ->
  forall k wid, nth_error ids k = Some wid ->
  exists w0 w', b_wd s !! wid = Some w0 /\ (w_status w0 = 1 \/ w_status w0 = 3) /\
    b_wd s' !! wid = Some w' /\ w_status w' = 2 /\
    let out := nth (N.to_nat (idx + N.of_nat k)) outs (0, []) in
    w_receipt w' = Some (mkRcpt txid (idx + N.of_nat k) (fst out)) /\
    w_script w0 = Some (snd out) /\ fst out <= w_amount w0 /\ fee <= w_price w0 * len /\
    w_amount w' = w_amount w0 /\ w_script w' = w_script w0 /\ w_price w' = w_price w0.
Proof. exact process_loop_terms. Qed.
Print Assumptions C05_processing_terms.

(* exactly one terminal notice: in every state reached by a history (withdrawal ids in request lists fresh),
   the "paid" log holds exactly the withdrawals whose status is paid, the "refund" log exactly the cancelled
   ones (rejected at request time or cancelled by approval), and neither log has a duplicate.  Together with
   C05_terminal_forever: a withdrawal is told paid or refund at most once and never both. *)
From Goat Require Import Proofs.BridgeNotices.
Theorem C05_exactly_one_notice : forall (H : bytes -> bytes) (chain : bytes) ops s,
  (forall s0 o, fresh_op s0 o) ->
  List.NoDup (g_paid s) /\ List.NoDup (g_refund s) /\
    (forall id, In id (g_paid s) <-> wd_status s id = 5) /\ (forall id, In id (g_refund s) <-> wd_status s id = 4) ->
  let s' := bk_run H chain s ops in
  List.NoDup (g_paid s') /\ List.NoDup (g_refund s') /\
    (forall id, In id (g_paid s') <-> wd_status s' id = 5) /\ (forall id, In id (g_refund s') <-> wd_status s' id = 4).
Proof. intros H chain ops s Hf Hn. exact (notices_reachable H chain ops s Hf Hn). Qed.
Print Assumptions C05_exactly_one_notice.

Theorem C05_notice_step : forall (H : bytes -> bytes) (chain : bytes) s o,
  fresh_op s o -> notices_ok s -> notices_ok (fst (bk_step H chain s o)).
Proof. exact bk_step_notices. Qed.
Print Assumptions C05_notice_step.
