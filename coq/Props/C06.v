(* C06 - consensus-to-execution hand-over is exactly-once, ordered and gap-free. *)
From stdpp Require Import gmap.
From Goat Require Import Base.Prelude Gen.Consts Model.Bridge Model.Locking Proofs.BridgeQueue Proofs.LockingQueue.
Local Open Scope N_scope.

(* one hand-over of the bridge module: at most one block hash (the next height after the cursor), then
   the first <= 8 queued deposits, then <= 8 paid + refunded notices, numbered with consecutive nonces
   starting at the stored nonce; exactly what is taken leaves the queues (queue = taken ++ rest), the
   rest keeps its order, the nonce advances by the number of transactions; nothing is persisted when
   nothing is due *)
Theorem C06_bridge_handover : forall s s' txs, dequeue_btc s = Ok (s', txs) ->
  let nd := N.to_nat c_MaxDeposit in let nw := N.to_nat c_MaxWithdrawal in
  exists t1 cur,
    (t1 = [] /\ cur = b_cursor s \/
     exists h, b_cursor s < b_tip s /\ b_hashes s !! (b_cursor s + 1) = Some h /\ t1 = [TxHash (b_nonce s) h] /\ cur = b_cursor s + 1) /\
    let ds := firstn nd (b_qdep s) in let ps := firstn nw (b_qpaid s) in
    let rs := firstn (nw - length ps) (b_qrej s) in
    let n1 := b_nonce s + N.of_nat (length t1) in
    let n2 := n1 + N.of_nat (length ds) in let n3 := n2 + N.of_nat (length ps) in
    txs = t1 ++ Bridge.number_from TxDeposit n1 ds ++ Bridge.number_from (fun n '(id, r) => TxPaid n id r) n2 ps ++ Bridge.number_from TxReject n3 rs /\
    (txs = [] -> s' = s) /\
    (txs <> [] ->
      b_nonce s' = b_nonce s + N.of_nat (length txs) /\ b_cursor s' = cur /\
      b_qdep s = ds ++ b_qdep s' /\ b_qpaid s = ps ++ b_qpaid s' /\ b_qrej s = rs ++ b_qrej s') /\
    (length t1 <= 1 /\ length ds <= nd /\ length ps + length rs <= nw)%nat.
Proof. exact dequeue_spec. Qed.
Print Assumptions C06_bridge_handover.

Theorem C06_nonces_consecutive : forall {A} (f : N -> A -> btx), (forall n x, btx_nonce (f n x) = n) ->
  forall l n, map btx_nonce (Bridge.number_from f n l) = map (fun i => n + N.of_nat i) (seq 0 (length l)).
Proof. intros A f Hf l n. apply number_from_nonces. exact Hf. Qed.
Print Assumptions C06_nonces_consecutive.

(* voted Bitcoin block hashes: for every history, the voted heights are exactly lo..tip (gap-free),
   the hand-over cursor stays between lo and tip, a stored (height, hash) never changes *)
Theorem C06_hashes_append_only : forall (H : bytes -> bytes) (chain : bytes) lo ops s, chain_ok lo s ->
  chain_ok lo (bk_run H chain s ops) /\
  (forall h x, b_hashes s !! h = Some x -> b_hashes (bk_run H chain s ops) !! h = Some x).
Proof. exact chain_history. Qed.
Print Assumptions C06_hashes_append_only.

Theorem C06_handover_total : forall lo s, chain_ok lo s -> exists s' t, dequeue_btc s = Ok (s', t).
Proof. exact (dequeue_total (fun x => x) []). Qed.
Print Assumptions C06_handover_total.

(* locking module: <= 16 rewards then <= 16 matured unlocks, FIFO, consecutive nonces *)
Theorem C06_locking_handover : forall s,
  let cap := N.to_nat c_MaxLockingTx in
  let rs := firstn cap (l_q_rewards s) in let us := firstn cap (l_q_unlocks s) in
  let s' := fst (dequeue_txs s) in let txs := snd (dequeue_txs s) in
  txs = Locking.number_from TxReward (l_nonce s) rs ++ Locking.number_from TxUnlock (l_nonce s + N.of_nat (length rs))%N us /\
  l_q_rewards s = rs ++ l_q_rewards s' /\ l_q_unlocks s = us ++ l_q_unlocks s' /\
  l_nonce s' = (l_nonce s + N.of_nat (length txs))%N /\
  (length rs <= cap /\ length us <= cap)%nat /\
  l_unlockq s' = l_unlockq s /\ l_val s' = l_val s.
Proof. exact dequeue_txs_spec. Qed.
Print Assumptions C06_locking_handover.

(* ---- exactly-once, in order, over whole histories (bridge module) ---- *)
From Goat Require Import Proofs.BridgeHandover.
(* the hand-over step removes from the front of the three queues exactly what it delivers *)
Theorem C06_dequeue_delivers_prefix s s' txs : dequeue_btc s = Ok (s', txs) ->
  b_qdep s = del_dep txs ++ b_qdep s' /\ b_qpaid s = del_paid txs ++ b_qpaid s' /\ b_qrej s = del_rej txs ++ b_qrej s'.
Proof. exact (dequeue_delivers_prefix s s' txs). Qed.
Print Assumptions C06_dequeue_delivers_prefix.

(* every other operation only appends to them and delivers nothing *)
Theorem C06_other_operations_only_append (H : bytes -> bytes) (chain : bytes) s o : o <> BDequeue ->
  appends s (fst (bk_step H chain s o)) /\ snd (snd (bk_step H chain s o)) = [].
Proof. exact (step_appends H chain s o). Qed.
Print Assumptions C06_other_operations_only_append.

(* hence, for EVERY history: what has been delivered so far followed by what is still queued is what was queued
   initially followed by what the operations appended, in that order - nothing dropped, duplicated, invented or
   reordered, in each of the three queues *)
Theorem C06_handover_conservation (H : bytes -> bytes) (chain : bytes) ops s :
  let '(s', txs) := collect H chain s ops in
  (exists a, del_dep txs ++ b_qdep s' = b_qdep s ++ a) /\
  (exists a, del_paid txs ++ b_qpaid s' = b_qpaid s ++ a) /\
  (exists a, del_rej txs ++ b_qrej s' = b_qrej s ++ a).
Proof. exact (handover_conservation H chain ops s). Qed.
Print Assumptions C06_handover_conservation.

(* ---- the same for the locking module's two hand-over queues (claimed rewards, matured unlocks) ---- *)
From Goat Require Import Model.Locking Proofs.LockingHandover.
Theorem C06_locking_dequeue_delivers_prefix s :
  l_q_rewards s = del_rw (snd (dequeue_txs s)) ++ l_q_rewards (fst (dequeue_txs s)) /\
  l_q_unlocks s = del_ul (snd (dequeue_txs s)) ++ l_q_unlocks (fst (dequeue_txs s)).
Proof. exact (LockingHandover.dequeue_delivers_prefix s). Qed.
Print Assumptions C06_locking_dequeue_delivers_prefix.

Theorem C06_locking_other_operations_only_append s o : o <> KDequeue ->
  (exists a, l_q_rewards (fst (lk_step s o)) = l_q_rewards s ++ a) /\ (exists a, l_q_unlocks (fst (lk_step s o)) = l_q_unlocks s ++ a) /\
  snd (snd (lk_step s o)) = [].
Proof. exact (LockingHandover.step_appends s o). Qed.
Print Assumptions C06_locking_other_operations_only_append.

(* every history of block operations: delivered ++ still queued = initially queued ++ appended, in order: each
   claimed reward and each matured unlock is handed over exactly once, first-in-first-out *)
Theorem C06_locking_handover_conservation ops s :
  let '(s', txs) := lcollect s ops in
  (exists a, del_rw txs ++ l_q_rewards s' = l_q_rewards s ++ a) /\
  (exists a, del_ul txs ++ l_q_unlocks s' = l_q_unlocks s ++ a).
Proof. exact (locking_handover_conservation ops s). Qed.
Print Assumptions C06_locking_handover_conservation.
