(* C09: the execution head advances only by valid child blocks; engine faults commit nothing. *)
From Goat Require Import Base.Prelude Model.GoatBlock Proofs.GoatBlockProofs.

(* the head moves only if the block message succeeded (hence every check of new_eth_block_ok held)
   and the block is committed *)
Theorem C09_head_moves_only_on_success msg_ok np fc :
  snd (commit_and_head msg_ok np fc) = true -> msg_ok = true /\ fst (commit_and_head msg_ok np fc) = true.
Proof. exact (head_moves_only_on_success msg_ok np fc). Qed.
Print Assumptions C09_head_moves_only_on_success.

Theorem C09_message_needs_valid_child f : new_eth_block_ok f = true ->
  f_proposer_is_cons f = true /\ f_parent_ok f = true /\ f_number_ok f = true /\ f_blob_gas_zero f = true /\ f_beacon_ok f = true.
Proof. unfold new_eth_block_ok. rewrite !andb_true_iff. tauto. Qed.
Print Assumptions C09_message_needs_valid_child.

(* error / INVALID at either end-of-block engine call: block not committed, head unchanged *)
Theorem C09_fault_commits_nothing msg_ok np fc :
  (np = AError \/ np = AInvalid \/ fc = AError \/ fc = AInvalid) -> commit_and_head msg_ok np fc = (false, false).
Proof. exact (fault_commits_nothing msg_ok np fc). Qed.
Print Assumptions C09_fault_commits_nothing.

Theorem C09_syncing_tolerated msg_ok :
  commit_and_head msg_ok ASyncing ASyncing = (true, msg_ok) /\ commit_and_head msg_ok AAccepted AValid = (true, msg_ok).
Proof. exact (syncing_is_tolerated_at_notification msg_ok). Qed.
Print Assumptions C09_syncing_tolerated.

Theorem C09_proposing_needs_valid fc pid ge : prepare_ok fc pid ge = true -> fc = AValid /\ pid = true /\ ge = false.
Proof. exact (proposing_needs_valid fc pid ge). Qed.
Print Assumptions C09_proposing_needs_valid.

Theorem C09_checking_needs_valid np : check_ok np = true -> np = AValid.
Proof. exact (checking_needs_valid np). Qed.
Print Assumptions C09_checking_needs_valid.
