(* C09: the execution head advances only by valid child blocks; engine faults commit nothing. *)
From Goat Require Import Base.Prelude Model.GoatBlock Proofs.GoatBlockProofs.

(* the head moves only if the block message succeeded (hence every check of new_eth_block_ok held)
   and the block is committed *)
Theorem C09_head_moves_only_on_success msg_ok np fc :
  snd (commit_and_head msg_ok np fc) = true -> msg_ok = true /\ fst (commit_and_head msg_ok np fc) = true.
Proof. exact (head_moves_only_on_success msg_ok np fc). Qed.
Print Assumptions C09_head_moves_only_on_success.

Theorem C09_message_needs_valid_child f : new_eth_block_ok f = true ->
  f_proposer_is_cons f = true /\ f_parent_ok f = true /\ f_number_ok f = true /\ f_blob_gas_zero f = true /\ f_beacon_ok f = true.
Proof. unfold new_eth_block_ok. rewrite !andb_true_iff. tauto. Qed.
Print Assumptions C09_message_needs_valid_child.

(* error / INVALID at either end-of-block engine call: block not committed, head unchanged *)
Theorem C09_fault_commits_nothing msg_ok np fc :
  (np = AError \/ np = AInvalid \/ fc = AError \/ fc = AInvalid) -> commit_and_head msg_ok np fc = (false, false).
Proof. exact (fault_commits_nothing msg_ok np fc). Qed.
Print Assumptions C09_fault_commits_nothing.

Theorem C09_syncing_tolerated msg_ok :
  commit_and_head msg_ok ASyncing ASyncing = (true, msg_ok) /\ commit_and_head msg_ok AAccepted AValid = (true, msg_ok).
Proof. exact (syncing_is_tolerated_at_notification msg_ok). Qed.
Print Assumptions C09_syncing_tolerated.

Theorem C09_proposing_needs_valid fc pid ge : prepare_ok fc pid ge = true -> fc = AValid /\ pid = true /\ ge = false.
Proof. exact (proposing_needs_valid fc pid ge). Qed.
Print Assumptions C09_proposing_needs_valid.

Theorem C09_checking_needs_valid np : check_ok np = true -> np = AValid.
Proof. exact (checking_needs_valid np). Qed.
Print Assumptions C09_checking_needs_valid.

(* ---- over whole histories of finalised consensus blocks (chain-level model, Model/GoatChain.v) ---- *)
From Goat Require Import Model.GoatChain Proofs.GoatChainProofs.

(* the recorded head changes only when a block is finalised whose payload is a direct child of the current head
   (parent hash, number + 1), proposed by that block's consensus proposer, with no blob gas, carrying the recorded
   beacon root, and whose end-of-block notification did not fail; it then becomes that payload and the beacon root
   becomes the finalising block's hash *)
Theorem C09_head_changes_only_by_child s b :
  c_head (cstep s b) <> c_head s ->
  child_ok s b = true /\ b_rest_ok b = true /\ finalized_ok (b_np b) (b_fc b) = true /\
  c_head (cstep s b) = head_of b /\ c_beacon (cstep s b) = b_cons_hash b.
Proof. exact (head_changes_only_by_child s b). Qed.
Print Assumptions C09_head_changes_only_by_child.

Theorem C09_child_means s b : child_ok s b = true ->
  b_parent b = h_hash (c_head s) /\ b_number b = (h_number (c_head s) + 1)%N /\ b_blob b = 0%N /\
  b_beacon b = c_beacon s /\ b_proposer_ok b = true.
Proof. exact (child_ok_spec s b). Qed.
Print Assumptions C09_child_means.

(* an error or INVALID answer at either end-of-block call: nothing of the block persists *)
Theorem C09_fault_leaves_state s b : finalized_ok (b_np b) (b_fc b) = false -> cstep s b = s.
Proof. exact (fault_commits_nothing s b). Qed.
Print Assumptions C09_fault_leaves_state.

(* retrying the block after the fault cleared gives the same result as a fault-free run *)
Theorem C09_retry_after_fault s b np fc :
  finalized_ok np fc = false -> cstep (cstep s (with_answers b np fc)) b = cstep s b.
Proof. exact (retry_after_fault s b np fc). Qed.
Print Assumptions C09_retry_after_fault.

(* the engine is told the head recorded at the end of the block, which is the committed head *)
Theorem C09_engine_told_recorded_head s b : finalized_ok (b_np b) (b_fc b) = true -> told s b = c_head (cstep s b).
Proof. exact (told_is_recorded s b). Qed.
Print Assumptions C09_engine_told_recorded_head.

(* every history: the recorded heads form a chain (each equals its predecessor or is its direct child), the head
   number never decreases and grows by at most one per block, and blocks that failed on an engine fault leave no
   trace in the result *)
Theorem C09_heads_form_a_chain bs s : chain_from (c_head s) (heads s bs).
Proof. exact (heads_form_a_chain bs s). Qed.
Print Assumptions C09_heads_form_a_chain.

Theorem C09_number_monotone bs s :
  (h_number (c_head s) <= h_number (c_head (crun s bs)) <= h_number (c_head s) + N.of_nat (length bs))%N.
Proof. exact (number_monotone bs s). Qed.
Print Assumptions C09_number_monotone.

Theorem C09_faulted_blocks_leave_no_trace bs s :
  crun s bs = crun s (filter (fun b => finalized_ok (b_np b) (b_fc b)) bs).
Proof. exact (faulted_blocks_leave_no_trace bs s). Qed.
Print Assumptions C09_faulted_blocks_leave_no_trace.

(* non-vacuity: a child block advances the head, a non-child does not, a faulted child does not *)
Example C09_chain_example :
  let s := mkCS (mkHead [1] [0] 5) [9] in
  let good := mkCB [2] [1] 6 0 [9] [7] true true AValid ASyncing in
  let stranger := mkCB [3] [8] 6 0 [9] [7] true true AValid AValid in
  c_head (cstep s good) = mkHead [2] [1] 6 /\ c_beacon (cstep s good) = [7] /\
  cstep s stranger = s /\ cstep s (with_answers good AValid AInvalid) = s.
Proof. vm_compute. repeat split; reflexivity. Qed.
