(* C07: state transition is deterministic across replicas, re-execution and restart.
   The model's transition functions are Gallina functions of (state, block); what can break
   determinism in the Go code is what a function cannot express: map iteration order, goroutine
   scheduling, clocks, randomness, process-local caches.  Gen/Sites.v lists every such site of the
   consensus-path packages (regenerated from the source on each run). *)
From Goat Require Import Base.Prelude Model.Locking Model.Bridge Gen.Sites Proofs.Determinism.
From Coq Require Import Permutation.

(* every site is either outside the state transition (proposal building/checking, start-up, CLI,
   reset-before-use pool) or a map-ordered loop with an order-insensitivity theorem below *)
Theorem C07_sites_covered : bad_sites = [].
Proof. vm_compute. reflexivity. Qed.
Print Assumptions C07_sites_covered.

(* the removal loop of the locking EndBlocker: any iteration order of the leftover set gives the
   same state, the same success/failure, and the same updates up to order *)
Theorem C07_removal_order_irrelevant l1 l2 :
  Permutation l1 l2 -> List.NoDup l1 ->
  forall s u, same_outcome (end_remove s u l1) (end_remove s u l2).
Proof. exact (end_remove_perm l1 l2). Qed.
Print Assumptions C07_removal_order_irrelevant.

(* Lock handles validators in first-seen request order, a function of the request list alone *)
Theorem C07_lock_order_is_first_seen reqs :
  map fst (agg_reqs [] reqs) = first_seen (map (fun x => fst (fst x)) reqs).
Proof. exact (lock_order_is_first_seen reqs). Qed.
Print Assumptions C07_lock_order_is_first_seen.

(* ... and it has to be: the amount of work done before a failing member (hence the gas of the
   failed transaction) depends on the order, so ranging over a map there is a violation *)
Theorem C07_lock_map_order_matters :
  exists s now l1 l2, Permutation l1 l2 /\ List.NoDup (map fst l1) /\ lock_work s now l1 <> lock_work s now l2.
Proof. exact lock_map_order_matters. Qed.
Print Assumptions C07_lock_map_order_matters.

(* re-execution and restart: a run is a function of (state, operations) alone, so a replica that stops after
   any prefix of the history and resumes from the state it committed reaches the state of one that never
   stopped (the committed state is all that is carried across: C18 proves export/import preserves it) *)
Theorem C07_locking_restart_anywhere s ops1 ops2 :
  lk_run s (ops1 ++ ops2) = lk_run (lk_run s ops1) ops2.
Proof. unfold lk_run. apply fold_left_app. Qed.
Print Assumptions C07_locking_restart_anywhere.

Theorem C07_bridge_restart_anywhere H chain_id s ops1 ops2 :
  Bridge.bk_run H chain_id s (ops1 ++ ops2) = Bridge.bk_run H chain_id (Bridge.bk_run H chain_id s ops1) ops2.
Proof. unfold Bridge.bk_run. apply fold_left_app. Qed.
Print Assumptions C07_bridge_restart_anywhere.
