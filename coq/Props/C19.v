(* C19: no input can crash the node or halt block processing; failures change nothing.
   Model level: every entry point of the bridge and locking models returns Ok / Err / Panic (the two
   panic sites of the code inside message handlers are modelled), and a non-Ok outcome leaves the
   state exactly as it was.  The application boundary (recovery per transaction, goroutines of the
   proposal handlers) is exercised by the fuzz family on the real application. *)
From stdpp Require Import gmap.
From Goat Require Import Base.Prelude Model.Locking Model.Bridge Proofs.BridgeSeq Proofs.Robustness.

Section C19.
Variable H : bytes -> bytes.
Variable chain_id : bytes.

Theorem C19_bridge_failure_changes_nothing s o :
  fst (snd (bk_step H chain_id s o)) <> 0%N -> fst (bk_step H chain_id s o) = s.
Proof. exact (failure_is_identity H chain_id s o). Qed.
End C19.
Print Assumptions C19_bridge_failure_changes_nothing.

Theorem C19_locking_failure_changes_nothing s o :
  fst (fst (snd (lk_step s o))) <> 0%N -> fst (lk_step s o) = s.
Proof. exact (lk_failure_is_identity s o). Qed.
Print Assumptions C19_locking_failure_changes_nothing.

Theorem C19_handover_total s : fst (fst (snd (lk_step s KDequeue))) = 0%N.
Proof. exact (lk_dequeue_total s). Qed.
Print Assumptions C19_handover_total.
