(* C19: no input can crash the node or halt block processing; failures change nothing.
   Model level: every entry point of the bridge and locking models returns Ok / Err / Panic (the two
   panic sites of the code inside message handlers are modelled), and a non-Ok outcome leaves the
   state exactly as it was.  The application boundary (recovery per transaction, goroutines of the
   proposal handlers) is exercised by the fuzz family on the real application. *)
From stdpp Require Import gmap.
From Goat Require Import Base.Prelude Model.Locking Model.Bridge Proofs.BridgeSeq Proofs.Robustness.

Section C19.
Variable H : bytes -> bytes.
Variable chain_id : bytes.

Theorem C19_bridge_failure_changes_nothing s o :
  fst (snd (bk_step H chain_id s o)) <> 0%N -> fst (bk_step H chain_id s o) = s.
Proof. exact (failure_is_identity H chain_id s o). Qed.

(* a failed bridge / relayer operation hands nothing over to the execution layer either *)
Theorem C19_bridge_failure_emits_nothing s o :
  fst (snd (bk_step H chain_id s o)) <> 0%N -> snd (snd (bk_step H chain_id s o)) = [].
Proof. exact (bk_failure_emits_nothing H chain_id s o). Qed.

(* over whole histories: the operations that failed along a run can be erased - the run reaches the very same
   state from its successful operations alone, and each of those succeeds again when replayed *)
Theorem C19_bridge_failed_ops_erasable ops s :
  bk_run H chain_id s ops = bk_run H chain_id s (bk_succ H chain_id s ops) /\
  bk_all_ok H chain_id s (bk_succ H chain_id s ops) = true.
Proof. exact (bk_failed_ops_erasable H chain_id ops s). Qed.
End C19.
Print Assumptions C19_bridge_failure_changes_nothing.
Print Assumptions C19_bridge_failure_emits_nothing.
Print Assumptions C19_bridge_failed_ops_erasable.

Theorem C19_locking_failure_changes_nothing s o :
  fst (fst (snd (lk_step s o))) <> 0%N -> fst (lk_step s o) = s.
Proof. exact (lk_failure_is_identity s o). Qed.
Print Assumptions C19_locking_failure_changes_nothing.

Theorem C19_handover_total s : fst (fst (snd (lk_step s KDequeue))) = 0%N.
Proof. exact (lk_dequeue_total s). Qed.
Print Assumptions C19_handover_total.

(* a failed locking operation emits no validator update and hands over no transaction *)
Theorem C19_locking_failure_emits_nothing s o :
  fst (fst (snd (lk_step s o))) <> 0%N -> snd (fst (snd (lk_step s o))) = [] /\ snd (snd (lk_step s o)) = [].
Proof. exact (lk_failure_emits_nothing s o). Qed.
Print Assumptions C19_locking_failure_emits_nothing.

Theorem C19_locking_failed_ops_erasable ops s :
  lk_run s ops = lk_run s (lk_succ s ops) /\ lk_all_ok s (lk_succ s ops) = true.
Proof. exact (lk_failed_ops_erasable ops s). Qed.
Print Assumptions C19_locking_failed_ops_erasable.
