(* C13 - validator set is the top-K by power; every update is acceptable to CometBFT.  (partial, see DESIGN.md) *)
From stdpp Require Import gmap.
From Goat Require Import Base.Prelude Model.Locking Proofs.LockingEndBlock.
Local Open Scope Z_scope.

(* On every state whose power ranking is well formed (each entry = a pending/active validator with
   exactly that positive power, one entry per validator) and whose recorded set only names existing,
   non-pending validators, the end-of-block logic never fails, and the validator updates it reports
   are exactly the changes that turn the old recorded set into the new one when applied the way the
   consensus engine applies them (power 0 = removal): no zero-power addition, no removal of a
   non-member, no duplicate address; every member of the new set has positive power. *)
Theorem C13_refines : forall s, rank_wf s -> set_wf s ->
  exists s' ups, end_block s = Ok (s', ups) /\
    l_set s' = apply_ups (l_set s) ups /\
    NoDup (map fst ups) /\
    (forall a p, In (a, p) ups -> (p = 0%N -> is_Some (l_set s !! a)) /\ (p <> 0%N -> In a (map snd (rank_desc s)))) /\
    (forall a p, l_set s' !! a = Some p -> (0 < p)%N \/ l_set s !! a = Some p).
Proof. exact end_block_refines. Qed.
Print Assumptions C13_refines.

(* the walk over the ranking: at most max-validators additions/changes, applied in ranking order *)
Theorem C13_walk : forall r s last ups count s' last' ups',
  end_walk s last ups count r = Ok (s', last', ups') ->
  ranked_ok s r -> NoDup (map snd r) ->
  exists new,
    ups' = ups ++ new /\
    l_set s' = apply_ups (l_set s) new /\
    (forall a p, In (a, p) new -> (0 < p)%N /\ In a (map snd r) /\ last' !! a = None) /\
    NoDup (map fst new) /\
    (forall a p, last' !! a = Some p -> last !! a = Some p) /\
    (forall a, is_Some (l_val s !! a) <-> is_Some (l_val s' !! a)) /\
    (forall a p, l_set s' !! a = Some p -> In (a, p) new \/ (l_set s !! a = Some p /\ ~ In a (map fst new))) /\
    (Z.of_nat (length new) <= Z.max 0 (lp_max_validators (l_params s) - count)) /\
    l_params s' = l_params s.
Proof. exact end_walk_refines. Qed.
Print Assumptions C13_walk.

(* the pre-repair behaviour: a ranking entry with power 0 makes the walk report a zero-power addition *)
Example C13_unfixed_refuted :
  let v := mkVal 7 0 ∅ 0 0 Pending 0 0 0 in
  let s := mkLS (mkLP 1 1 1 5 3 1 1 1 1 1) {[ 9%N := v ]} ∅ {[ (0%N, 9%N) ]} ∅ ∅ ∅ ∅ 0 0 0 ∅ [] [] 0%N ∅ ∅ ∅ 0 0 0 in
  exists s', end_block s = Ok (s', [(9%N, 0%N)]).
Proof. vm_compute. eexists. reflexivity. Qed.

(* ---- for every reachable state ---- *)
From Goat Require Import Proofs.LockingDerived Proofs.LockingDerivedLink Proofs.LockingActive.

(* histories: any list of block operations (begin-block with any votes / evidence, any request list with
   unsigned lock amounts, end-block, hand-over, account creation) from the empty state, slash fractions in
   [0,1].  In every state they reach the ranking is well formed and the recorded set names existing
   validators, so - as long as no pending validator is still recorded in the set (see DESIGN.md: a jailed
   validator cannot be unjailed in the block that jailed it) - EndBlocker cannot fail and its updates are
   exactly the acceptable changes. *)
Theorem C13_reachable_ranking p rem goat gas acc ops :
  0 <= lp_slash_down p <= one18 -> 0 <= lp_slash_double p <= one18 -> Forall wf_op ops ->
  let s := lk_run (empty_lstate p rem goat gas acc) ops in
  rank_wf s /\ (forall a q, l_set s !! a = Some q -> is_Some (l_val s !! a)) /\
  (forall q a, (q, a) ∈ l_rank s <-> exists v, l_val s !! a = Some v /\ in_ranking_status (v_status v) = true /\ v_power v = q /\ (0 < q)%N).
Proof.
  intros H1 H2 W s. destruct (reachable_all p rem goat gas acc ops H1 H2 W) as [D [A M]].
  split; [apply rank_spec_rank_wf, (di_rank _ D)|]. split; [exact M|]. exact (di_rank _ D).
Qed.
Print Assumptions C13_reachable_ranking.

Theorem C13_reachable_refines p rem goat gas acc ops :
  0 <= lp_slash_down p <= one18 -> 0 <= lp_slash_double p <= one18 -> Forall wf_op ops ->
  let s := lk_run (empty_lstate p rem goat gas acc) ops in
  (forall a v, l_val s !! a = Some v -> v_status v = Pending -> l_set s !! a = None) ->
  exists s' ups, end_block s = Ok (s', ups) /\
    l_set s' = apply_ups (l_set s) ups /\
    NoDup (map fst ups) /\
    (forall a q, In (a, q) ups -> (q = 0%N -> is_Some (l_set s !! a)) /\ (q <> 0%N -> In a (map snd (rank_desc s)))) /\
    (forall a q, l_set s' !! a = Some q -> (0 < q)%N \/ l_set s !! a = Some q) /\
    (* ... and the new recorded set is exactly the active validators with their power *)
    (forall a, l_set s' !! a = (l_val s' !! a) ≫= (fun v => match v_status v with Active => Some (v_power v) | _ => None end)).
Proof.
  intros H1 H2 W s Hp. destruct (reachable_all p rem goat gas acc ops H1 H2 W) as [D [A M]]. fold s in D, A, M.
  destruct (end_block_refines s (rank_spec_rank_wf s (di_rank _ D)) (conj M Hp)) as (s' & ups & E & R).
  exists s', ups. split; [exact E|]. destruct R as (R1 & R2 & R3 & R4).
  split; [exact R1|]. split; [exact R2|]. split; [exact R3|]. split; [exact R4|].
  eapply end_block_set_spec; [apply (di_rank _ D)|exact A|exact E].
Qed.
Print Assumptions C13_reachable_refines.

(* ---- block-structured histories: no hypothesis left ---- *)
From Goat Require Import Proofs.LockingPending.

(* A history is a sequence of blocks: BeginBlocker at the block time, request lists carrying that same
   time, EndBlocker; hand-over and account creation anywhere (wf_hist).  Slash fractions in [0,1], jail
   duration non-negative (Params.Validate).  Then in EVERY state such a history reaches EndBlocker
   succeeds, the updates it reports are exactly the changes CometBFT accepts, and the new recorded set is
   exactly the Active validators with their power. *)
Theorem C13_complete p rem goat gas acc ops :
  0 <= lp_slash_down p <= one18 -> 0 <= lp_slash_double p <= one18 -> 0 <= lp_jail_dur p ->
  wf_hist None ops ->
  let s := lk_run (empty_lstate p rem goat gas acc) ops in
  exists s' ups, end_block s = Ok (s', ups) /\
    l_set s' = apply_ups (l_set s) ups /\
    NoDup (map fst ups) /\
    (forall a q, In (a, q) ups -> (q = 0%N -> is_Some (l_set s !! a)) /\ (q <> 0%N -> In a (map snd (rank_desc s)))) /\
    (forall a q, l_set s' !! a = Some q -> (0 < q)%N \/ l_set s !! a = Some q) /\
    (forall a, l_set s' !! a = (l_val s' !! a) ≫= (fun v => match v_status v with Active => Some (v_power v) | _ => None end)).
Proof.
  intros H1 H2 H3 W s. destruct (reachable_binv p rem goat gas acc ops H1 H2 H3 W) as (ph & D & S & J & A & I). fold s in D, S, J, A, I.
  assert (Hwf : set_wf s) by (split; [apply A|apply I]).
  destruct (end_block_refines s (rank_spec_rank_wf s (di_rank _ D)) Hwf) as (s' & ups & E & R).
  exists s', ups. split; [exact E|]. destruct R as (R1 & R2 & R3 & R4).
  split; [exact R1|]. split; [exact R2|]. split; [exact R3|]. split; [exact R4|].
  eapply end_block_set_spec; [apply (di_rank _ D)|apply A|exact E].
Qed.
Print Assumptions C13_complete.

(* ---- the validator set is the top-K ---- *)
(* the ranking list is sorted highest power first ... *)
From Coq Require Import Sorting.Sorted.
Theorem C13_ranking_sorted s : Sorted (flip rank_le) (rank_desc s).
Proof. exact (rank_desc_sorted s). Qed.
Print Assumptions C13_ranking_sorted.

(* ... and after EndBlocker, in every state a block-structured history reaches, the Active validators are
   exactly the first max-validators entries of that list *)
Theorem C13_top_k p rem goat gas acc ops s' ups :
  0 <= lp_slash_down p <= one18 -> 0 <= lp_slash_double p <= one18 -> Forall wf_op ops ->
  let s := lk_run (empty_lstate p rem goat gas acc) ops in
  end_block s = Ok (s', ups) ->
  forall a, (exists v, l_val s' !! a = Some v /\ v_status v = Active) <->
            In a (map snd (firstn (Z.to_nat (lp_max_validators (l_params s))) (rank_desc s))).
Proof.
  intros H1 H2 W s E. destruct (reachable_all p rem goat gas acc ops H1 H2 W) as [D [A M]].
  eapply end_block_top_k; [apply (di_rank _ D)|exact A|exact E].
Qed.
Print Assumptions C13_top_k.
