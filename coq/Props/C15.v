(* C15 - unlocked funds are released only after the unlock or exit delay, once.  (partial: step-level
   theorems; their composition over histories is checked by the implementation-side delay monitor) *)
From stdpp Require Import gmap sorting.
From Goat Require Import Base.Prelude Gen.Consts Model.Locking Proofs.LockingUnlock Proofs.LockingQueue Proofs.LockingLedger.
Local Open Scope Z_scope.

(* an unlock requested at block time `now` is queued under the key now + unlock duration, or
   now + exit duration when the validator is exiting (already inactive / tombstoned, or its remaining
   holding drops below the token threshold); an exiting validator leaves the candidate set at once:
   power 0, status inactive, its ranking entry and all its per-token index entries removed; its
   remaining holdings stay on record (they are what later unlocks release, C11_unlock_amount) *)
Theorem C15_delay_and_exit : forall s now id a rc t req s' v tk,
  unlock_one s now id a rc t req = Ok s' -> l_val s !! a = Some v -> l_tok s !! t = Some tk ->
  let have := amount_of (v_hold v) t in
  let amt := if have <? req then have else req in
  let exiting := is_exiting v tk (have - amt) in
  let when := now + (if exiting then lp_exit_dur (l_params s) else lp_unlock_dur (l_params s)) in
  l_unlockq s' = <[when := default [] (l_unlockq s !! when) ++ [mkUnlock id t rc amt]]> (l_unlockq s) /\
  l_q_unlocks s' = l_q_unlocks s /\ l_params s' = l_params s /\
  exists v', l_val s' !! a = Some v' /\
    (exiting = true ->
       v_power v' = 0%N /\ (v_power v, a) ∉ l_rank s' /\
       v_status v' = match v_status v with Active | Pending | Downgrade => Inactive | x => x end /\
       (forall t', is_Some (v_hold v !! t') -> l_index s' !! (t', a) = None)).
Proof. exact unlock_one_when. Qed.
Print Assumptions C15_delay_and_exit.

(* only matured entries (key <= block time) are released, in ascending key order, exactly once
   (they are deleted from the time-keyed queue as they are appended to the hand-over queue) *)
Theorem C15_release_mature_only : forall s now,
  let ks := filter (fun k => k <=? now) (keys_sorted (l_unlockq s)) in
  let s' := dequeue_mature s now in
  l_q_unlocks s' = l_q_unlocks s ++ flat_map (fun k => default [] (l_unlockq s !! k)) ks /\
  l_unlockq s' = fold_left (fun m k => delete k m) ks (l_unlockq s) /\
  Forall (fun k => k <= now) ks /\ l_val s' = l_val s /\ l_params s' = l_params s /\ l_q_rewards s' = l_q_rewards s.
Proof. exact dequeue_mature_spec. Qed.
Print Assumptions C15_release_mature_only.

Theorem C15_maturity_order : forall (m : gmap Z (list unlock)), Sorted Z.le (keys_sorted m).
Proof. exact keys_sorted_sorted. Qed.
Print Assumptions C15_maturity_order.

(* hand-over: first-in-first-out, at most 16 per execution block, each entry leaves the queue as it is
   handed over (queue = taken ++ rest) *)
Theorem C15_handover_fifo : forall s,
  let cap := N.to_nat c_MaxLockingTx in
  let rs := firstn cap (l_q_rewards s) in let us := firstn cap (l_q_unlocks s) in
  let s' := fst (dequeue_txs s) in let txs := snd (dequeue_txs s) in
  txs = Locking.number_from TxReward (l_nonce s) rs ++ Locking.number_from TxUnlock (l_nonce s + N.of_nat (length rs))%N us /\
  l_q_rewards s = rs ++ l_q_rewards s' /\ l_q_unlocks s = us ++ l_q_unlocks s' /\
  l_nonce s' = (l_nonce s + N.of_nat (length txs))%N /\
  (length rs <= cap /\ length us <= cap)%nat /\
  l_unlockq s' = l_unlockq s /\ l_val s' = l_val s.
Proof. exact dequeue_txs_spec. Qed.
Print Assumptions C15_handover_fifo.

(* ---- over whole histories ---- *)
From Goat Require Import Proofs.LockingQueueHistory.
(* EVERY operation of EVERY history moves the two queues in one of three ways only: a request list appends
   entries under  block time + unlock duration  or  block time + exit duration; BeginBlocker moves exactly
   the entries whose key is <= the block time to the hand-over queue; the hand-over step takes a prefix of at
   most 16.  Nothing else touches them.  Hence an entry queued at time t under key k = t + duration leaves
   the time-keyed queue only in a BeginBlocker whose block time is >= k: never before its delay has passed,
   and once (it is deleted as it is released). *)
Theorem C15_queue_evolution : forall s o,
  let s' := fst (lk_step s o) in
  match o with
  | KBegin now _ _ _ _ =>
      s' = s \/
      (let ks := filter (fun k => k <=? now) (keys_sorted (l_unlockq s)) in
       l_q_unlocks s' = l_q_unlocks s ++ flat_map (fun k => default [] (l_unlockq s !! k)) ks /\
       l_unlockq s' = fold_left (fun m k => delete k m) ks (l_unlockq s) /\ Forall (fun k => k <= now) ks)
  | KReq now _ _ => appended now (l_params s) (l_unlockq s) (l_unlockq s') /\ l_q_unlocks s' = l_q_unlocks s
  | KEnd | KAccount _ => l_unlockq s' = l_unlockq s /\ l_q_unlocks s' = l_q_unlocks s
  | KDequeue => l_unlockq s' = l_unlockq s /\ exists taken, l_q_unlocks s = taken ++ l_q_unlocks s' /\ (length taken <= N.to_nat c_MaxLockingTx)%nat
  end.
Proof. exact queue_evolution. Qed.
Print Assumptions C15_queue_evolution.

(* after the BeginBlocker of block time t every entry still queued has a key later than t, and the request
   lists of that block keep it so (durations positive): nothing that is due stays behind, nothing is due early *)
Theorem C15_nothing_due_stays : forall s now h lim votes evs s',
  begin_block s now h lim votes evs = Ok s' -> keys_after now (l_unlockq s').
Proof. exact begin_leaves_later_keys. Qed.
Print Assumptions C15_nothing_due_stays.

Theorem C15_requests_queue_later : forall s now h q s',
  0 < lp_unlock_dur (l_params s) -> 0 < lp_exit_dur (l_params s) ->
  process_requests s now h q = Ok s' -> keys_after now (l_unlockq s) -> keys_after now (l_unlockq s').
Proof. exact requests_keep_later_keys. Qed.
Print Assumptions C15_requests_queue_later.
