(* C15 - unlocked funds are released only after the unlock or exit delay, once.  (partial: step-level
   theorems; their composition over histories is checked by the implementation-side delay monitor) *)
From stdpp Require Import gmap sorting.
From Goat Require Import Base.Prelude Gen.Consts Model.Locking Proofs.LockingUnlock Proofs.LockingQueue Proofs.LockingLedger.
Local Open Scope Z_scope.

(* an unlock requested at block time `now` is queued under the key now + unlock duration, or
   now + exit duration when the validator is exiting (already inactive / tombstoned, or its remaining
   holding drops below the token threshold); an exiting validator leaves the candidate set at once:
   power 0, status inactive, its ranking entry and all its per-token index entries removed; its
   remaining holdings stay on record (they are what later unlocks release, C11_unlock_amount) *)
Theorem C15_delay_and_exit : forall s now id a rc t req s' v tk,
  unlock_one s now id a rc t req = Ok s' -> l_val s !! a = Some v -> l_tok s !! t = Some tk ->
  let have := amount_of (v_hold v) t in
  let amt := if have <? req then have else req in
  let exiting := is_exiting v tk (have - amt) in
  let when := now + (if exiting then lp_exit_dur (l_params s) else lp_unlock_dur (l_params s)) in
  l_unlockq s' = <[when := default [] (l_unlockq s !! when) ++ [mkUnlock id t rc amt]]> (l_unlockq s) /\
  l_q_unlocks s' = l_q_unlocks s /\ l_params s' = l_params s /\
  exists v', l_val s' !! a = Some v' /\
    (exiting = true ->
       v_power v' = 0%N /\ (v_power v, a) ∉ l_rank s' /\
       v_status v' = match v_status v with Active | Pending | Downgrade => Inactive | x => x end /\
       (forall t', is_Some (v_hold v !! t') -> l_index s' !! (t', a) = None)).
Proof. exact unlock_one_when. Qed.
Print Assumptions C15_delay_and_exit.

(* only matured entries (key <= block time) are released, in ascending key order, exactly once
   (they are deleted from the time-keyed queue as they are appended to the hand-over queue) *)
Theorem C15_release_mature_only : forall s now,
  let ks := filter (fun k => k <=? now) (keys_sorted (l_unlockq s)) in
  let s' := dequeue_mature s now in
  l_q_unlocks s' = l_q_unlocks s ++ flat_map (fun k => default [] (l_unlockq s !! k)) ks /\
  l_unlockq s' = fold_left (fun m k => delete k m) ks (l_unlockq s) /\
  Forall (fun k => k <= now) ks /\ l_val s' = l_val s /\ l_params s' = l_params s /\ l_q_rewards s' = l_q_rewards s.
Proof. exact dequeue_mature_spec. Qed.
Print Assumptions C15_release_mature_only.

Theorem C15_maturity_order : forall (m : gmap Z (list unlock)), Sorted Z.le (keys_sorted m).
Proof. exact keys_sorted_sorted. Qed.
Print Assumptions C15_maturity_order.

(* hand-over: first-in-first-out, at most 16 per execution block, each entry leaves the queue as it is
   handed over (queue = taken ++ rest) *)
Theorem C15_handover_fifo : forall s,
  let cap := N.to_nat c_MaxLockingTx in
  let rs := firstn cap (l_q_rewards s) in let us := firstn cap (l_q_unlocks s) in
  let s' := fst (dequeue_txs s) in let txs := snd (dequeue_txs s) in
  txs = Locking.number_from TxReward (l_nonce s) rs ++ Locking.number_from TxUnlock (l_nonce s + N.of_nat (length rs))%N us /\
  l_q_rewards s = rs ++ l_q_rewards s' /\ l_q_unlocks s = us ++ l_q_unlocks s' /\
  l_nonce s' = (l_nonce s + N.of_nat (length txs))%N /\
  (length rs <= cap /\ length us <= cap)%nat /\
  l_unlockq s' = l_unlockq s /\ l_val s' = l_val s.
Proof. exact dequeue_txs_spec. Qed.
Print Assumptions C15_handover_fifo.
