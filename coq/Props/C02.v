(* C02 - a vote is single-use: the sequence advances exactly once per accepted proposal. *)
From stdpp Require Import gmap.
From Goat Require Import Base.Prelude Model.Bridge Proofs.BridgeSeq.
Local Open Scope N_scope.

(* one step: the sequence (and the ghost count of accepted voted proposals) grows by one exactly
   when a voted operation is accepted and is untouched by every other operation - non-voted relayer
   messages, elections, membership changes, bridge requests, hand-over, failed operations *)
Theorem C02_step : forall (H : bytes -> bytes) (chain : bytes) s o,
  let '(s', (cls, _)) := bk_step H chain s o in
  sq s' = if is_voted o && (cls =? 0) then (r_seq s + 1, g_accepted_votes s + 1) else sq s.
Proof. exact bk_step_seq. Qed.
Print Assumptions C02_step.

(* every history: final sequence = initial sequence + number of accepted voted proposals *)
Theorem C02_seq_counts : forall (H : bytes -> bytes) (chain : bytes) ops s,
  r_seq (bk_run H chain s ops) = r_seq s + accepted_count H chain s ops /\
  g_accepted_votes (bk_run H chain s ops) = g_accepted_votes s + accepted_count H chain s ops.
Proof. exact seq_counts. Qed.
Print Assumptions C02_seq_counts.

(* a vote is accepted only for the current sequence, epoch and proposer ... *)
Theorem C02_needs_current_context : forall (H : bytes -> bytes) (chain : bytes) s p v m d s1 q,
  verify_proposal H chain s p v m d = Ok (s1, q) ->
  vo_seq v = r_seq s /\ vo_epoch v = r_epoch s /\ p = r_proposer s.
Proof. exact verify_needs_seq. Qed.
Print Assumptions C02_needs_current_context.

(* ... hence single use: after a vote for sequence q was accepted, no continuation of the history
   ever accepts a vote for sequence q again (verbatim replay or re-targeted) *)
Theorem C02_no_replay : forall (H : bytes -> bytes) (chain : bytes) s o ops o2,
  is_voted o = true -> fst (snd (bk_step H chain s o)) = 0 ->
  is_voted o2 = true ->
  let s2 := bk_run H chain (fst (bk_step H chain s o)) ops in
  (exists p v m d, vote_of H o2 = Some (p, Some v, m, d) /\ vo_seq v = r_seq s) ->
  fst (snd (bk_step H chain s2 o2)) <> 0.
Proof. exact no_replay. Qed.
Print Assumptions C02_no_replay.

(* a rejected or failed operation leaves sequence, randomness accumulator, accepted flag and all
   bridge state exactly as they were (the whole state is returned unchanged) *)
Theorem C02_failure_is_identity : forall (H : bytes -> bytes) (chain : bytes) s o,
  fst (snd (bk_step H chain s o)) <> 0 -> fst (bk_step H chain s o) = s.
Proof. exact failure_is_identity. Qed.
Print Assumptions C02_failure_is_identity.

(* the signed document binds the whole context: chain, sequence, epoch, action, proposer, payload.  Two
   contexts sign the same document only if they are equal, or the hash collides on two different
   concatenations (exhibited); chain identifiers of which one is a proper prefix of the other are excluded
   (the fields are concatenated without separators); method names are the regenerated c_methods, proved
   prefix-free; proposer addresses of one chain have one length. *)
From Goat Require Import Proofs.SignDoc Model.Bridge.
Theorem C02_sign_doc_binds : forall (H : bytes -> bytes) c s e m p d c' s' e' m' p' d',
  ~ proper_prefix c c' -> ~ proper_prefix c' c ->
  (s < two64)%N -> (s' < two64)%N -> (e < two64)%N -> (e' < two64)%N ->
  In m method_bytes -> In m' method_bytes -> length p = length p' ->
  vote_sign_doc H c m p s e d = vote_sign_doc H c' m' p' s' e' d' ->
  (c = c' /\ s = s' /\ e = e' /\ m = m' /\ p = p' /\ d = d') \/
  (exists x y, x <> y /\ H x = H y).
Proof. exact sign_doc_binds. Qed.
Print Assumptions C02_sign_doc_binds.
