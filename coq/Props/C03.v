(* C03 - deposits: SPV-proven, script-bound, matured, credited at most once, value-exact. *)
From stdpp Require Import gmap.
From Goat Require Import Base.Prelude Gen.Consts Model.Merkle Model.BtcParams Model.Bridge
  Proofs.MerkleProofs Proofs.BridgeDeposits.
Local Open Scope N_scope.

(* everything an accepted deposit guarantees (H = SHA-256 abstract; H2 = double hash) *)
Theorem C03_accept_sound : forall (H : bytes -> bytes) s headers d rc,
  verify_deposit H s headers d = Ok rc ->
  exists k bh hdr outs,
    dp_key d = Some k /\ key_id k ∈ r_pubkeys s /\
    b_hashes s !! dp_height d = Some bh /\
    length hdr = 80%nat /\ Bridge.H2 H hdr = bh /\
    (dp_txindex d = 0 -> dp_height d + c_CoinbaseMaturity <= b_tip s) /\
    dp_parsed d = Some outs /\ dp_vout d < N.of_nat (length outs) /\
    b_deposited s !! (be_val (Bridge.H2 H (dp_tx d)), dp_vout d) = None /\
    let value := fst (nth (N.to_nat (dp_vout d)) outs (0, [])) in
    bp_min (b_params s) <= value /\
    script_ok H s d k outs = true /\
    verify (Bridge.H2 H) (Bridge.H2 H (dp_tx d)) (header_root hdr) (dp_proof d) (dp_txindex d) = true /\
    d_txid rc = Bridge.H2 H (dp_tx d) /\ d_txout rc = dp_vout d /\ d_evm rc = dp_evm d /\
    d_tax rc = tax_of (b_params s) value /\ d_amount rc = value - d_tax rc.
Proof. exact verify_deposit_sound. Qed.
Print Assumptions C03_accept_sound.

(* tax formula: min(cap, floor(v/10000)*rate), uncapped when cap = 0, none up to 10000 sat *)
Theorem C03_tax_formula : forall p v,
  tax_of p v = if (0 <? bp_rate p) && (c_MaxTaxBP <? v)
               then (let t := v / c_MaxTaxBP * bp_rate p in if (0 <? bp_cap p) && (bp_cap p <? t) then bp_cap p else t)
               else 0.
Proof. reflexivity. Qed.
Print Assumptions C03_tax_formula.

Theorem C03_value_exact : forall (H : bytes -> bytes) s headers d rc,
  params_safe (b_params s) -> verify_deposit H s headers d = Ok rc ->
  d_tax rc < d_amount rc + d_tax rc /\ 0 < d_amount rc.
Proof. exact verify_deposit_value. Qed.
Print Assumptions C03_value_exact.

(* each (txid, output index) is credited at most once in the lifetime of the chain: the list of
   all credits made along ANY history of operations has no duplicates *)
Theorem C03_once : forall (H : bytes -> bytes) (chain : bytes) ops s,
  NoDup (history_credits H chain s ops) /\
  (forall k, In k (history_credits H chain s ops) -> b_deposited s !! k = None).
Proof. exact credits_once. Qed.
Print Assumptions C03_once.

(* position binding of the SPV proof (from C04): the credited txid really sits at the claimed
   position of the block's tree - so the first (coinbase) transaction cannot be presented under a
   non-zero position to dodge the maturity rule - or a double-SHA256 collision is exhibited *)
Theorem C03_position_binding : forall (H : bytes -> bytes),
  (forall x, length (H x) = 32%nat) ->
  forall txid proof index d t,
  complete d t -> (length proof / 32 = d)%nat ->
  verify (Bridge.H2 H) txid (hash (Bridge.H2 H) t) proof index = true ->
  leaf_at (Bridge.H2 H) t d index = txid \/ Collision (Bridge.H2 H).
Proof. intros H HL. apply verify_full_depth. intros x. apply HL. Qed.
Print Assumptions C03_position_binding.
