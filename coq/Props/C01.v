(* C01 - voted relayer proposals need a genuine two-thirds quorum. *)
From stdpp Require Import gmap.
From Goat Require Import Base.Prelude Model.Bridge Proofs.BridgeVotes Proofs.BridgeSeq.
Local Open Scope N_scope.

Theorem C01_threshold_ceil : forall n, 3 * threshold n >= 2 * (n + 1) /\ 2 * (n + 1) > 3 * (threshold n - 1).
Proof. exact threshold_ceil. Qed.
Print Assumptions C01_threshold_ceil.

(* What acceptance of a vote guarantees, for EVERY state, bitmap (any length, any bits), signature
   description, action and payload: current proposer/sequence/epoch; the keys verified are the
   proposer's plus exactly one key per marked bit, each of a distinct-position current voter; the
   aggregate verifies over the sign-doc of exactly this chain, sequence, epoch, action, proposer,
   payload; proposer + marked voters reach ceil(2(n+1)/3). *)
Theorem C01_quorum : forall (H : bytes -> bytes) (chain : bytes) s proposer v method data s' seq,
  verify_proposal H chain s proposer v method data = Ok (s', seq) ->
  proposer = r_proposer s /\ vo_seq v = r_seq s /\ vo_epoch v = r_epoch s /\ seq = r_seq s /\
  s' = set_accepted s true /\
  exists pv ks,
    r_voter s !! r_proposer s = Some pv /\
    let S := marked_voters (vo_bitmap v) 0 (r_voters s) in
    Forall2 (fun a k => exists vt, r_voter s !! a = Some vt /\ vt_key vt = k) S ks /\
    sublist S (r_voters s) /\
    N.of_nat (length S) = bitmap_count (vo_bitmap v) /\
    agg_verify (vt_key pv :: ks)
      (vote_sign_doc H chain method (default [] (r_book s !! r_proposer s)) (r_seq s) (r_epoch s) data) (vo_sig v) = true /\
    1 + N.of_nat (length S) >= threshold (N.of_nat (length (r_voters s))).
Proof. exact verify_proposal_sound. Qed.
Print Assumptions C01_quorum.

(* marks cannot stand in for signatures: an accepted vote has no bit at or beyond the group size *)
Theorem C01_marks_denote_voters : forall (H : bytes -> bytes) (chain : bytes) s proposer v method data s' seq,
  verify_proposal H chain s proposer v method data = Ok (s', seq) ->
  forall i, N.of_nat (length (r_voters s)) <= i -> bitmap_contains (vo_bitmap v) i = false.
Proof. exact accepted_marks_denote_voters. Qed.
Print Assumptions C01_marks_denote_voters.

(* every accepted voted operation (new block hashes, new key, process / replace withdrawal,
   consolidation) carries a vote that passed this verification over ITS OWN method and payload *)
Theorem C01_effect_needs_quorum : forall (H : bytes -> bytes) (chain : bytes) s o,
  is_voted o = true -> fst (snd (bk_step H chain s o)) = 0 ->
  exists p v m d s1 q, vote_of H o = Some (p, Some v, m, d) /\ verify_proposal H chain s p v m d = Ok (s1, q).
Proof. exact accepted_needs_verified_vote. Qed.
Print Assumptions C01_effect_needs_quorum.

(* a proposal that is not accepted changes no state at all *)
Theorem C01_no_quorum_no_effect : forall (H : bytes -> bytes) (chain : bytes) s o,
  fst (snd (bk_step H chain s o)) <> 0 -> fst (bk_step H chain s o) = s.
Proof. exact failure_is_identity. Qed.
Print Assumptions C01_no_quorum_no_effect.

(* the code before the repair counted marks beyond the voter list: with 3 voters, bits 64 and 65 and
   no voter key the count check passed; the repaired model rejects (collected keys <> popcount) *)
Example C01_unfixed_refuted :
  let bm := repeat 0 8 ++ [3] ++ repeat 0 7 in
  bitmap_count bm = 2 /\ (bitmap_count bm + 1 <? threshold 3) = false /\ (3 <? bitmap_count bm) = false /\
  marked_voters bm 0 [1; 2; 3] = [].
Proof. vm_compute. auto. Qed.
