(* C04 — Merkle inclusion proofs are sound and position-binding.
   Only statements; every proof is `exact <lemma>` into Proofs/MerkleProofs.v. *)
From Goat Require Import Base.Prelude Crypto.Sha256 Model.Merkle Proofs.MerkleProofs.

(* Exact characterisation of what verification accepts (for ANY node hash H2). *)
Theorem C04_spec : forall (H2 : bytes -> bytes) txid root proof index,
  verify H2 txid root proof index = true <->
  length txid = 32%nat /\ length root = 32%nat /\ (length proof mod 32 = 0)%nat /\
  fst (fold_path H2 txid (path_of proof) index) = root /\
  index < 2 ^ N.of_nat (length proof / 32).
Proof. exact verify_spec. Qed.
Print Assumptions C04_spec.

(* Position binding: an accepted (leaf, position, path) names the node that really sits
   at that position of the tree that produced the root - or a hash collision is exhibited. *)
Theorem C04_binding : forall (H2 : bytes -> bytes),
  (forall x, length (H2 x) = 32%nat) ->
  forall txid proof index d t,
  complete d t -> (length proof / 32 <= d)%nat ->
  verify H2 txid (hash H2 t) proof index = true ->
  hash H2 (subtree t (length proof / 32) index) = txid \/ Collision H2.
Proof. exact verify_binding. Qed.
Print Assumptions C04_binding.

Theorem C04_leaf_only_where_it_is : forall (H2 : bytes -> bytes),
  (forall x, length (H2 x) = 32%nat) ->
  forall txid proof index d t,
  complete d t -> (length proof / 32 = d)%nat ->
  verify H2 txid (hash H2 t) proof index = true ->
  leaf_at H2 t d index = txid \/ Collision H2.
Proof. exact verify_full_depth. Qed.
Print Assumptions C04_leaf_only_where_it_is.

(* the first transaction of a block cannot be presented under another position unless the
   leaf at that position is the same txid *)
Theorem C04_coinbase_only_at_zero : forall (H2 : bytes -> bytes),
  (forall x, length (H2 x) = 32%nat) ->
  forall proof index d t,
  complete d t -> (length proof / 32 = d)%nat ->
  verify H2 (leaf_at H2 t d 0) (hash H2 t) proof index = true ->
  leaf_at H2 t d index = leaf_at H2 t d 0 \/ Collision H2.
Proof. exact first_leaf_only_at_zero. Qed.
Print Assumptions C04_coinbase_only_at_zero.

(* completeness: genuine proofs are accepted at their true position *)
Theorem C04_complete : forall (H2 : bytes -> bytes),
  (forall x, length (H2 x) = 32%nat) ->
  forall d t i, complete d t -> i < 2 ^ N.of_nat d ->
  verify H2 (leaf_at H2 t d i) (hash H2 t) (concat (proof_of H2 t d i)) i = true.
Proof. exact genuine_proof_accepted. Qed.
Print Assumptions C04_complete.

(* Non-vacuity: a concrete two-leaf tree under the real double-SHA256. *)
Definition ex_l0 : bytes := sha256d (hx "00").
Definition ex_l1 : bytes := sha256d (hx "01").
Definition ex_t : tree := Node (Leaf ex_l0) (Leaf ex_l1).
Example C04_example_accepts :
  verify sha256d ex_l0 (hash sha256d ex_t) ex_l1 0 = true /\
  verify sha256d ex_l1 (hash sha256d ex_t) ex_l0 1 = true /\
  verify sha256d ex_l0 (hash sha256d ex_t) ex_l1 1 = false.
Proof. vm_compute. auto. Qed.

(* The code BEFORE the repair (no residual-index test) violated C04_spec: leaf 0 of this
   tree was accepted under positions 2, 4 and 2^31.  The repaired function rejects them. *)
Example C04_unfixed_refuted :
  verify_unfixed sha256d ex_l0 (hash sha256d ex_t) ex_l1 2 = true /\
  verify_unfixed sha256d ex_l0 (hash sha256d ex_t) ex_l1 4 = true /\
  verify_unfixed sha256d ex_l0 (hash sha256d ex_t) ex_l1 2147483648 = true /\
  verify sha256d ex_l0 (hash sha256d ex_t) ex_l1 2 = false /\
  verify sha256d ex_l0 (hash sha256d ex_t) ex_l1 2147483648 = false.
Proof. vm_compute. repeat split. Qed.
