(* C16 - relayer group stays well-formed; members join by proof, elections are timely.  (partial: see below) *)
From stdpp Require Import gmap.
From Goat Require Import Base.Prelude Model.Bridge Proofs.BridgeFrames Proofs.BridgeRelayer.
Local Open Scope N_scope.

(* joining: only by a registration from the current proposer carrying both possession proofs over the
   sign-doc of this chain / epoch / proposer / registration height / address / registered key hash;
   the registered key must hash to the registered hash; the group itself is not touched, so the new
   voter takes part in quorums only from the next election *)
Theorem C16_join_needs_proofs : forall (H : bytes -> bytes) (chain : bytes) s prop lok addr araw k kraw txp blsp s',
  new_voter H chain s prop lok addr araw k kraw txp blsp = Ok s' ->
  lok = true /\ prop = r_proposer s /\
  exists vt, r_voter s !! addr = Some vt /\ vt_status vt = 1 /\ vt_key vt = VKHash k /\
    let doc := vote_sign_doc H chain m_newvoter (default [] (r_book s !! prop)) 0 (r_epoch s)
                 (le64 (vt_height vt) ++ araw ++ kraw) in
    txp = Some (addr, doc) /\ blsp = Some (k, doc) /\
    r_proposer s' = r_proposer s /\ r_voters s' = r_voters s /\ r_epoch s' = r_epoch s /\
    exists vt', r_voter s' !! addr = Some vt' /\ vt_key vt' = VKKey k /\
      ((vt_status vt' = 2 /\ r_on s' = r_on s ++ [addr] /\ r_off s' = r_off s) \/
       (vt_status vt' = 3 /\ r_off s' = r_off s ++ [addr] /\ r_on s' = r_on s)).
Proof. exact new_voter_sound. Qed.
Print Assumptions C16_join_needs_proofs.

(* elections occur exactly when due and increment the epoch by exactly one *)
Theorem C16_election_iff : forall (H : bytes -> bytes) s now s', relayer_end_block H s now = Ok s' ->
  if election_due s now then r_epoch s' = r_epoch s + 1 /\ r_last s' = now else s' = s.
Proof. exact end_block_election. Qed.
Print Assumptions C16_election_iff.

(* proposer, voters, epoch, voter records and boarding queues change only through add/remove request
   lists, registrations and elections *)
Theorem C16_membership_frame : forall (H : bytes -> bytes) (chain : bytes) s o,
  match o with BRelayerReq _ _ _ | BNewVoter _ _ _ _ _ _ _ _ | BEnd _ => True
  | _ => grp (fst (bk_step H chain s o)) = grp s end.
Proof. exact membership_frame. Qed.
Print Assumptions C16_membership_frame.

(* add / remove requests never change the member list or the epoch (they only queue) *)
Theorem C16_requests_only_queue : forall s h adds rms,
  let s' := process_relayer_request s h adds rms in
  r_proposer s' = r_proposer s /\ r_voters s' = r_voters s /\ r_epoch s' = r_epoch s.
Proof. exact relayer_request_members. Qed.
Print Assumptions C16_requests_only_queue.

(* removals that would empty the group are ignored: the number of queued removals never exceeds the
   number of voters, so proposer + voters always keep one member that is not queued for removal *)
Theorem C16_removals_never_empty : forall s h adds rms,
  let s' := process_relayer_request s h adds rms in
  (length (r_off s) <= length (r_voters s))%nat -> (length (r_off s') <= length (r_voters s'))%nat.
Proof. exact (removals_never_empty (fun x => x) []). Qed.
Print Assumptions C16_removals_never_empty.

(* ---- the group invariant, for every reachable state ---- *)
From Goat Require Import Proofs.BridgeGroup.
(* ginv: proposer, voters and queued joiners are pairwise distinct (in particular the proposer is not a
   voter); every member has an activated or off-boarding record; every queued joiner has an on-boarding
   record; at least one member is not queued for removal.  It is preserved by EVERY operation
   (C16_group_step), hence holds in every state reachable from a well-formed group (C16_group_reachable),
   and in such a state the end-of-block election step cannot fail (C16_election_total: an error there
   would halt the chain). *)
Theorem C16_group_step : forall (H : bytes -> bytes) (chain : bytes) s o, ginv s -> ginv (fst (bk_step H chain s o)).
Proof. exact bk_step_ginv. Qed.
Print Assumptions C16_group_step.

Theorem C16_group_reachable : forall (H : bytes -> bytes) (chain : bytes) ops s, ginv s -> ginv (bk_run H chain s ops).
Proof. exact ginv_reachable. Qed.
Print Assumptions C16_group_reachable.

Theorem C16_election_total : forall (H : bytes -> bytes) s now, ginv s ->
  exists s', relayer_end_block H s now = Ok s' /\ ginv s'.
Proof. intros H s now. exact (election_total H [] s now). Qed.
Print Assumptions C16_election_total.

(* non-vacuity: a group of a proposer and two activated voters is well-formed *)
Example C16_group_example :
  let vt : gmap N voter := {[ 1 := mkVoter (VKKey 11) 4 0; 2 := mkVoter (VKKey 12) 4 0; 3 := mkVoter (VKKey 13) 4 0 ]} in
  forall s, r_proposer s = 1 -> r_voters s = [2; 3] -> r_on s = [] -> r_off s = [] -> r_voter s = vt -> ginv s.
Proof.
  intros vt s Ep Ev Eo Ef Et. constructor.
  - unfold members. rewrite Ep, Ev, Eo. repeat constructor; cbn; intuition discriminate.
  - intros a Ha. unfold members in Ha. rewrite Ep, Ev in Ha. unfold status_of. rewrite Et.
    destruct Ha as [<-|[<-|[<-|[]]]]; left; reflexivity.
  - rewrite Eo. intros a [].
  - unfold nfree, members. rewrite Ep, Ev, Ef. cbn. lia.
Qed.
