(* C14 - downtime jails and slashes once; double-signing tombstones for good. *)
From stdpp Require Import gmap.
From Goat Require Import Base.Prelude Model.Locking Proofs.LockingPunish.
Local Open Scope Z_scope.

(* What exactly happens to an ACTIVE validator on a vote record: when the missed counter reaches
   the maximum it is demoted (Downgrade), loses all voting power, is jailed until now + jail
   duration and every holding is reduced by the downtime slash; otherwise nothing but the
   signing window moves.  Accrued rewards are never touched. *)
Theorem C14_downtime_step : forall s now a absent v s',
  l_val s !! a = Some v -> v_status v = Active -> handle_vote s now a absent = Ok s' ->
  exists v', l_val s' !! a = Some v' /\
  (if missed_after v absent >=? lp_max_missed (l_params s) then
     v_status v' = Downgrade /\ v_power v' = 0%N /\ v_jailed v' = now + lp_jail_dur (l_params s) /\
     (forall t, amount_of (v_hold v') t =
                match v_hold v !! t with
                | Some x => x - slash_amount x (lp_slash_down (l_params s))
                | None => 0 end)
   else v_status v' = Active /\ v_power v' = v_power v /\ v_hold v' = v_hold v) /\
  (v_reward v' = v_reward v /\ v_gas v' = v_gas v).
Proof. exact handle_vote_active. Qed.
Print Assumptions C14_downtime_step.

(* "exactly once": a validator that is not active (already demoted, tombstoned, inactive or only
   pending) is not counted for downtime at all - the state is returned unchanged *)
Theorem C14_inactive_not_counted : forall s now a absent v,
  l_val s !! a = Some v -> v_status v <> Active -> handle_vote s now a absent = Ok s.
Proof. exact handle_vote_not_active. Qed.
Print Assumptions C14_inactive_not_counted.

Theorem C14_slash_bounded : forall x frac, 0 <= x -> 0 <= frac <= one18 -> 0 <= slash_amount x frac <= x.
Proof. exact slash_amount_bound. Qed.
Print Assumptions C14_slash_bounded.

(* evidence older than BOTH age limits is ignored *)
Theorem C14_stale_evidence_ignored : forall s now h max_dur max_blocks a et eh counted,
  now - et > max_dur -> h - eh > max_blocks ->
  handle_evidence s now h (Some (max_dur, max_blocks)) (a, et, eh, counted) = Ok s.
Proof. exact handle_evidence_stale. Qed.
Print Assumptions C14_stale_evidence_ignored.

(* unexpired double-sign / light-client-attack evidence slashes by the double-sign fraction and tombstones *)
Theorem C14_evidence_tombstones : forall s now h lim a et eh v s',
  evidence_expired now h lim et eh = false -> l_val s !! a = Some v -> v_status v <> Tombstoned ->
  handle_evidence s now h lim (a, et, eh, true) = Ok s' ->
  exists v', l_val s' !! a = Some v' /\ v_status v' = Tombstoned /\ v_power v' = 0%N /\
  (forall t, amount_of (v_hold v') t =
             match v_hold v !! t with Some x => x - slash_amount x (lp_slash_double (l_params s)) | None => 0 end).
Proof. exact handle_evidence_tombstones. Qed.
Print Assumptions C14_evidence_tombstones.

(* permanence: from any state where a validator is tombstoned, after ANY continuation (locks,
   unlocks, weight/threshold changes, votes, evidence, end-blocks, claims ...) it is still tombstoned *)
Theorem C14_tombstone_forever : forall ops s a v,
  l_val s !! a = Some v -> v_status v = Tombstoned ->
  exists v', l_val (lk_run s ops) !! a = Some v' /\ v_status v' = Tombstoned.
Proof. exact tombstone_forever. Qed.
Print Assumptions C14_tombstone_forever.

(* a tombstoned validator has no voting power in any reachable state, and is not a member of the recorded
   validator set after any EndBlocker - whatever was locked to it in between *)
From Goat Require Import Proofs.LockingDerived Proofs.LockingDerivedLink Proofs.LockingActive Proofs.LockingTomb.
Theorem C14_tombstoned_no_power : forall p rem goat gas acc ops,
  0 <= lp_slash_down p <= one18 -> 0 <= lp_slash_double p <= one18 -> Forall wf_op ops ->
  forall a v, l_val (lk_run (empty_lstate p rem goat gas acc) ops) !! a = Some v -> v_status v = Tombstoned -> v_power v = 0%N.
Proof. intros p rem goat gas acc ops H1 H2 W. exact (reachable_zinv p rem goat gas acc ops H1 H2 W). Qed.
Print Assumptions C14_tombstoned_no_power.

Theorem C14_tombstoned_never_member : forall p rem goat gas acc ops s' ups,
  0 <= lp_slash_down p <= one18 -> 0 <= lp_slash_double p <= one18 -> Forall wf_op ops ->
  end_block (lk_run (empty_lstate p rem goat gas acc) ops) = Ok (s', ups) ->
  forall a v, l_val s' !! a = Some v -> v_status v = Tombstoned -> l_set s' !! a = None.
Proof.
  intros p rem goat gas acc ops s' ups H1 H2 W E a v Ev St.
  destruct (reachable_all p rem goat gas acc ops H1 H2 W) as [D [A M]].
  pose proof (end_block_set_spec _ _ _ (di_rank _ D) A E a) as Hs. rewrite Hs, Ev. cbn. rewrite St. reflexivity.
Qed.
Print Assumptions C14_tombstoned_never_member.
