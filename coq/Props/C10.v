(* C10 - only relayer-proposer bridge/relayer messages and the block message can run. *)
From Goat Require Import Base.Prelude Model.Ante Proofs.AnteProofs Gen.Registry.
Local Open Scope N_scope.

(* what admission guarantees, in every mode, for every transaction shape *)
Theorem C10_admitted : forall md h t, admitted md h t = true ->
  a_memo_len t = 0 /\ a_nsigners t = 1 /\ (a_timeout t = 0 \/ h <= a_timeout t) /\ a_sig_ok t = true /\
  forall m, In m (a_msgs t) ->
    (is_relayer_module_msg (m_name m) = true /\ m_by_proposer m = true) \/
    (m_name m = eth_block_msg /\ (md = MProcess \/ md = MFinalize) /\ a_timeout t = h).
Proof. exact admitted_sound. Qed.
Print Assumptions C10_admitted.

(* and the converse: admission demands nothing more, so the characterisation above is exact *)
Theorem C10_admitted_exactly : forall md h t,
  a_memo_len t = 0 -> a_nsigners t = 1 -> (a_timeout t = 0 \/ h <= a_timeout t) -> a_sig_ok t = true ->
  (forall m, In m (a_msgs t) ->
    (is_relayer_module_msg (m_name m) = true /\ m_by_proposer m = true) \/
    (m_name m = eth_block_msg /\ (md = MProcess \/ md = MFinalize) /\ a_timeout t = h)) ->
  admitted md h t = true.
Proof. exact admitted_complete. Qed.
Print Assumptions C10_admitted_exactly.

(* the execution-block message never enters the mempool (check, recheck, prepare) *)
Theorem C10_mempool_excludes_block_msg : forall md h t m, (md = MCheck \/ md = MReCheck \/ md = MPrepare) ->
  In m (a_msgs t) -> m_name m = eth_block_msg -> admitted md h t = false.
Proof. exact mempool_excludes_block_msg. Qed.
Print Assumptions C10_mempool_excludes_block_msg.

(* a message of any other module is never admitted, whatever the mode, signer, memo or timeout *)
Theorem C10_other_modules_rejected : forall md h t m, In m (a_msgs t) -> classify (m_name m) = CNever -> admitted md h t = false.
Proof. exact never_class_rejected. Qed.
Print Assumptions C10_other_modules_rejected.

(* the registry obligation, re-checked on every run against the list GENERATED from the application's
   interface registry: every registered message type is one of the eleven known bridge / relayer /
   block messages, or falls in the never-admitted class (account and consensus-parameter
   administration included) *)
Definition known_goat_msgs : list string :=
  ["goat.bitcoin.v1.MsgApproveCancellation"; "goat.bitcoin.v1.MsgFinalizeWithdrawal"; "goat.bitcoin.v1.MsgNewBlockHashes";
   "goat.bitcoin.v1.MsgNewConsolidation"; "goat.bitcoin.v1.MsgNewDeposits"; "goat.bitcoin.v1.MsgNewPubkey";
   "goat.bitcoin.v1.MsgProcessWithdrawal"; "goat.bitcoin.v1.MsgReplaceWithdrawal";
   "goat.relayer.v1.MsgAcceptProposerRequest"; "goat.relayer.v1.MsgNewVoterRequest"; "goat.goat.v1.MsgNewEthBlock"]%string.
Definition registry_ok (n : string) : bool :=
  existsb (String.eqb n) known_goat_msgs || match classify n with CNever => true | _ => false end.
Theorem C10_registry : forallb registry_ok registered_msgs = true.
Proof. vm_compute. reflexivity. Qed.
Print Assumptions C10_registry.

Example C10_example :
  admitted MCheck 7 (mkTx 0 1 0 [mkMsg "goat.bitcoin.v1.MsgNewDeposits" true] true) = true /\
  admitted MFinalize 7 (mkTx 0 1 7 [mkMsg "goat.goat.v1.MsgNewEthBlock" false] true) = true /\
  admitted MFinalize 7 (mkTx 0 1 0 [mkMsg "cosmos.auth.v1beta1.MsgUpdateParams" true] true) = false.
Proof. vm_compute. auto. Qed.
