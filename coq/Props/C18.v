(* C18: exported state re-imports to an equivalent, invariant-respecting state (locking module, the
   only module whose InitGenesis rebuilds derived collections and hands validators to CometBFT). *)
From stdpp Require Import gmap.
From Goat Require Import Base.Prelude Model.Locking Model.LockingGenesis Proofs.LockingGenesisProofs.
Local Open Scope Z_scope.

(* for every state whose derived collections agree with their sources (checked on every reached state
   by the correspondence run, components 15 / 16), export then import reproduces the state; only
   zero-valued slashed totals (which read as zero either way) are dropped *)
Theorem C18_import_export s :
  derived_ok s -> set_ok s -> reimported s = set_slashed s (nonzero_slashed (l_slashed s)).
Proof. exact (import_export s). Qed.
Print Assumptions C18_import_export.

Theorem C18_import_export_exact s :
  derived_ok s -> set_ok s -> (forall k v, l_slashed s !! k = Some v -> v <> 0) -> reimported s = s.
Proof. exact (import_export_exact s). Qed.
Print Assumptions C18_import_export_exact.

(* a second export is identical to the first, for EVERY state *)
Theorem C18_second_export_identical s : lk_export (reimported s) = lk_export s.
Proof. exact (second_export_identical s). Qed.
Print Assumptions C18_second_export_identical.

(* the initial validator set equals the exported active set *)
Theorem C18_initial_validators s a p :
  set_ok s -> ((a, p) ∈ import_validators (lk_export s) <-> l_set s !! a = Some p).
Proof. exact (initial_validators_are_recorded_set s a p). Qed.
Print Assumptions C18_initial_validators.

(* whatever was exported, the rebuilt indices satisfy the running chain's invariants *)
Theorem C18_reimported_consistent s : derived_ok (reimported s) /\ set_ok (reimported s).
Proof. exact (reimported_is_consistent s). Qed.
Print Assumptions C18_reimported_consistent.

(* ---- for every reachable state ---- *)
From Goat Require Import Proofs.LockingDerived Proofs.LockingDerivedLink Proofs.LockingActive.

(* every state reached by a history of block operations has consistent derived collections ... *)
Theorem C18_reachable_derived p rem goat gas acc ops :
  0 <= lp_slash_down p <= one18 -> 0 <= lp_slash_double p <= one18 -> Forall wf_op ops ->
  derived_ok (lk_run (empty_lstate p rem goat gas acc) ops).
Proof. exact (reachable_derived_ok p rem goat gas acc ops). Qed.
Print Assumptions C18_reachable_derived.

(* ... so at every block boundary (the state after a successful EndBlocker, which is where a node exports)
   export followed by InitGenesis reproduces the state, and the validators handed to CometBFT are the
   recorded set *)
Theorem C18_reachable_round_trip p rem goat gas acc ops s' ups :
  0 <= lp_slash_down p <= one18 -> 0 <= lp_slash_double p <= one18 -> Forall wf_op ops ->
  end_block (lk_run (empty_lstate p rem goat gas acc) ops) = Ok (s', ups) ->
  reimported s' = set_slashed s' (nonzero_slashed (l_slashed s')) /\
  (forall a q, (a, q) ∈ import_validators (lk_export s') <-> l_set s' !! a = Some q).
Proof.
  intros H1 H2 W E.
  assert (S : set_ok s') by (eapply reachable_set_ok; eauto).
  destruct (reachable_all p rem goat gas acc ops H1 H2 W) as [D _].
  assert (D' : derived_ok s') by (apply dinv_derived_ok; eapply end_block_inv; eauto).
  split; [apply import_export; assumption|]. intros a q. apply initial_validators_are_recorded_set. exact S.
Qed.
Print Assumptions C18_reachable_round_trip.

(* ---- relayer module: what InitGenesis rebuilds from the exported voter records ---- *)
From Goat Require Import Model.Bridge Proofs.BridgeGroup Proofs.BridgeQueueInv.
From Coq Require Import Permutation.

(* in every state reached by bridge / relayer operations the boarding queues hold exactly the records in
   status ON_BOARDING / OFF_BOARDING, without repetition ... *)
Theorem C18_relayer_queues_reachable : forall (H : bytes -> bytes) (chain : bytes) ops s, qinv s -> qinv (bk_run H chain s ops).
Proof. exact qinv_reachable. Qed.
Print Assumptions C18_relayer_queues_reachable.

(* ... so the queues InitGenesis rebuilds from the exported records (records in key order, filtered by
   status: x/relayer/module/genesis.go) are the exported state's queues up to order ... *)
Theorem C18_relayer_queues_rebuilt s :
  qinv s ->
  and (Permutation (rebuild_queue 2%N (map_to_list (r_voter s))) (r_on s))
      (Permutation (rebuild_queue 3%N (map_to_list (r_voter s))) (r_off s)).
Proof. exact (rebuilt_queues_are_permutations s). Qed.
Print Assumptions C18_relayer_queues_rebuilt.

(* ... and none of InitGenesis's structural panics (proposer or a listed voter without a record, duplicate
   voter, proposer listed as voter) can fire on a state satisfying the group invariant (C16_group_reachable) *)
Theorem C18_relayer_import_accepts s :
  ginv s ->
  is_Some (r_voter s !! r_proposer s) /\
  (forall a, In a (r_voters s) -> is_Some (r_voter s !! a)) /\
  List.NoDup (r_voters s) /\ ~ In (r_proposer s) (r_voters s).
Proof. exact (relayer_import_accepts s). Qed.
Print Assumptions C18_relayer_import_accepts.

(* non-vacuity: a state with one queued joiner and one queued leaver satisfies the queue invariant *)
Example C18_queue_example :
  let vt : gmap N voter := {[ 1%N := mkVoter (VKKey 11) 4 0; 3%N := mkVoter (VKKey 13) 3 0; 5%N := mkVoter (VKKey 15) 2 0 ]} in
  forall s, r_on s = [5%N] -> r_off s = [3%N] -> r_voter s = vt -> qinv s.
Proof.
  intros vt s Eo Ef Et.
  assert (L : forall a, status_of s a = if (a =? 1)%N then Some 4%N else if (a =? 3)%N then Some 3%N else if (a =? 5)%N then Some 2%N else None).
  { intros a. unfold status_of. rewrite Et. unfold vt.
    destruct (N.eqb_spec a 1) as [->|N1]; [reflexivity|].
    destruct (N.eqb_spec a 3) as [->|N3]; [reflexivity|].
    destruct (N.eqb_spec a 5) as [->|N5]; [reflexivity|].
    rewrite !lookup_insert_ne by congruence. rewrite lookup_singleton_ne by congruence. reflexivity. }
  constructor; rewrite ?Eo, ?Ef.
  - intros a. rewrite L. cbn [In]. destruct (N.eqb_spec a 1) as [->|]; [split; [intros [|[]]|]; discriminate|].
    destruct (N.eqb_spec a 3) as [->|]; [split; [intros [|[]]|]; discriminate|].
    destruct (N.eqb_spec a 5) as [->|]; [split; auto|]. split; [intros [|[]]; congruence|discriminate].
  - intros a. rewrite L. cbn [In]. destruct (N.eqb_spec a 1) as [->|]; [split; [intros [|[]]|]; discriminate|].
    destruct (N.eqb_spec a 3) as [->|]; [split; auto|].
    destruct (N.eqb_spec a 5) as [->|]; [split; [intros [|[]]|]; discriminate|]. split; [intros [|[]]; congruence|discriminate].
  - repeat constructor. intros [].
  - repeat constructor. intros [].
Qed.
