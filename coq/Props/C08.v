(* C08: honest proposals are always accepted; accepted proposals are well-formed; building and
   checking proposals is free of data races. *)
From Goat Require Import Base.Prelude Gen.Consts Gen.Footprint Model.GoatBlock Proofs.GoatBlockProofs Proofs.Conc.
Local Open Scope N_scope.

(* accepted => exactly one block message, first and alone in its tx, at most 16 txs, every tx passes
   the ante chain, author = consensus proposer = fee recipient, child of the recorded head, recorded
   beacon root, one gas request, exactly the due system transactions, engine VALID *)
Theorem C08_accept_sound txs f : process txs f = true ->
  exists t0 rest, txs = t0 :: rest /\ (length txs <= N.to_nat c_maxTxLen)%nat /\
    t_nmsgs t0 = 1 /\ t_first_is_block t0 = true /\ t_payload_present t0 = true /\
    Forall (fun t => t_runs t = true) txs /\ Forall (fun t => t_has_block_msg t = false) rest /\
    f_proposer_is_cons f = true /\ f_recipient_is_proposer f = true /\ f_timestamp_ok f = true /\
    f_parent_ok f = true /\ f_number_ok f = true /\ f_requests_decodable f = true /\ f_gas_requests f = 1 /\
    f_beacon_ok f = true /\ f_dequeue_ok f = true /\ f_engine_valid f = true.
Proof. exact (process_sound txs f). Qed.
Print Assumptions C08_accept_sound.

Theorem C08_honest_accepted t0 rest f :
  t_nmsgs t0 = 1 -> t_first_is_block t0 = true -> t_payload_present t0 = true -> t_runs t0 = true ->
  Forall (fun t => t_runs t = true /\ t_has_block_msg t = false) rest ->
  (length (t0 :: rest) <= N.to_nat c_maxTxLen)%nat ->
  verify_eth_block f = true -> f_blob_gas_zero f = true -> f_sub_requests_ok f = true ->
  process (t0 :: rest) f = true /\ new_eth_block_ok f = true.
Proof. exact (honest_accepted t0 rest f). Qed.
Print Assumptions C08_honest_accepted.

Theorem C08_due_system_txs_exact due extra txs : verify_dequeue due extra txs = true ->
  length extra = 33%nat /\ hd 0 extra = N.of_nat (length due) /\ firstn (length due) txs = due.
Proof. exact (verify_dequeue_exact due extra txs). Qed.
Print Assumptions C08_due_system_txs_exact.

(* no data race between the two goroutines of verifyEthBlockProposal (shared: msg, payload) *)
Theorem C08_verify_race_free :
  forall x y, In x (accesses 1 verify_reads_1 verify_writes_1) -> In y (accesses 2 verify_reads_2 verify_writes_2) -> ~ conflict x y.
Proof. apply race_free_sound. vm_compute. reflexivity. Qed.
Print Assumptions C08_verify_race_free.

(* ... nor between the two goroutines of PrepareProposalHandler (shared: the handler's variables) *)
Theorem C08_prepare_race_free :
  forall x y, In x (accesses 1 prepare_reads_1 prepare_writes_1) -> In y (accesses 2 prepare_reads_2 prepare_writes_2) -> ~ conflict x y.
Proof. apply race_free_sound. vm_compute. reflexivity. Qed.
Print Assumptions C08_prepare_race_free.
