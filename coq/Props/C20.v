(* C20 - bridge parameters set from the execution layer stay within safe bounds. *)
From Goat Require Import Base.Prelude Gen.Consts Model.BtcParams Proofs.BtcParamsProofs.

(* every history of request lists keeps: rate < 10000 bp, min deposit >= dust limit, depth >= 1 *)
Theorem C20_bounds : forall (h : list preqs) p,
  params_safe p -> params_safe (fold_left apply_preqs h p).
Proof. exact history_safe. Qed.
Print Assumptions C20_bounds.

(* a minimum-deposit request that takes effect sets a value strictly above the dust limit *)
Theorem C20_min_strict : forall p s,
  bp_min (apply_min p s) <> bp_min p -> c_DustTxoutAmount < bp_min (apply_min p s).
Proof. exact apply_min_strict. Qed.
Print Assumptions C20_min_strict.

(* consequences for every deposit value admitted by the minimum: tax below value, credited
   amount positive, value above the 546-satoshi dust limit *)
Theorem C20_consequences : forall p v, params_safe p -> bp_min p <= v ->
  tax_of p v < v /\ 0 < v - tax_of p v /\ 546 < v.
Proof. exact safe_consequences. Qed.
Print Assumptions C20_consequences.

Theorem C20_history_consequences : forall (h : list preqs) p v,
  params_safe p -> bp_min (fold_left apply_preqs h p) <= v ->
  tax_of (fold_left apply_preqs h p) v < v /\ 0 < v - tax_of (fold_left apply_preqs h p) v /\ 546 < v.
Proof. intros h p v Hp. exact (safe_consequences _ v (history_safe h p Hp)). Qed.
Print Assumptions C20_history_consequences.

Theorem C20_no_uint64_wrap : forall p v, bp_rate p < c_MaxTaxBP -> v < two64 ->
  v / c_MaxTaxBP * bp_rate p < two64.
Proof. exact tax_no_wrap. Qed.
Print Assumptions C20_no_uint64_wrap.

(* non-vacuity: the default parameters are safe, and an adversarial history stays safe *)
Example C20_example :
  params_safe (mkBP 1 10000 0 0) /\
  fold_left apply_preqs [mkPR [(10000, 5); (9999, 0)] [0; 7] [1000; 1001; 18446744073709551615]] (mkBP 1 10000 0 0)
  = mkBP 7 18446744073709551615 9999 0.
Proof. split; [unfold params_safe, c_MaxTaxBP, c_DustTxoutAmount; cbn; lia | vm_compute; reflexivity]. Qed.

(* the initial parameters come from a genesis file accepted by Params.Validate (modelled by params_validate,
   compared with the real function on boundary tuples by the params family): such parameters are safe in the
   sense above except that the rate may be exactly 100 %; in every case the tax of a deposit never exceeds
   its value *)
From Coq Require Import ZifyBool ZifyN.
Theorem C20_genesis_validation p :
  params_validate p = true ->
  bp_rate p <= c_MaxTaxBP /\ c_DustTxoutAmount <= bp_min p /\ 1 <= bp_conf p /\
  (bp_rate p <> c_MaxTaxBP -> params_safe p) /\ forall v, tax_of p v <= v.
Proof.
  unfold params_validate, params_safe, c_MaxTaxBP, c_DustTxoutAmount. intros Hv.
  assert (H1 : 1000 <= bp_min p /\ 1 <= bp_conf p /\ bp_rate p <= 10000).
  { destruct (0 <? bp_rate p) eqn:E; lia. }
  destruct H1 as (Hm & Hc & Hr). repeat split; try lia.
  intros v. unfold tax_of, c_MaxTaxBP.
  destruct ((0 <? bp_rate p) && (10000 <? v)); [|lia].
  assert (Ht : v / 10000 * bp_rate p <= v).
  { transitivity (v / 10000 * 10000); [apply N.mul_le_mono_l; exact Hr|]. rewrite N.mul_comm. apply N.mul_div_le. discriminate. }
  destruct ((0 <? bp_cap p) && (bp_cap p <? v / 10000 * bp_rate p)) eqn:Ec; [|exact Ht].
  apply andb_true_iff in Ec. destruct Ec as [_ Ec]. apply N.ltb_lt in Ec. lia.
Qed.
Print Assumptions C20_genesis_validation.
