(* C11 - locked funds are conserved: locked = held + slashed + released. *)
From stdpp Require Import gmap.
From Goat Require Import Base.Prelude Model.Locking Proofs.LockingLedger.
Local Open Scope Z_scope.

(* For every history of blocks (begin-block with arbitrary votes and evidence, arbitrary
   execution-layer request lists - failing ones are rolled back -, end-block, hand-over,
   account creation) and every token: total ever locked = sum of validators' holdings +
   slashed + released through unlocks. *)
Theorem C11_conservation : forall (ops : list lkop) (s : lstate),
  ledger_ok s -> ledger_ok (lk_run s ops).
Proof. exact lk_run_ledger. Qed.
Print Assumptions C11_conservation.

Theorem C11_conservation_from_genesis : forall p remain goat gas accounts ops,
  ledger_ok (lk_run (empty_lstate p remain goat gas accounts) ops).
Proof. exact lk_run_ledger_empty. Qed.
Print Assumptions C11_conservation_from_genesis.

(* one unlock releases exactly min(requested, held): never more than requested nor than held *)
Theorem C11_unlock_amount : forall s now id a rc t req s' v,
  unlock_one s now id a rc t req = Ok s' -> l_val s !! a = Some v ->
  let amt := unlock_amount (amount_of (v_hold v) t) req in
  g_released s' = zmap_add (g_released s) t amt /\
  (exists v', l_val s' !! a = Some v' /\ amount_of (v_hold v') t = amount_of (v_hold v) t - amt) /\
  (exists when, l_unlockq s' !! when = Some (default [] (l_unlockq s !! when) ++ [mkUnlock id t rc amt])).
Proof. exact unlock_one_amount. Qed.
Print Assumptions C11_unlock_amount.

Theorem C11_unlock_bounded : forall have req, 0 <= have -> 0 <= req ->
  0 <= unlock_amount have req /\ unlock_amount have req <= req /\ unlock_amount have req <= have.
Proof. exact unlock_amount_bound. Qed.
Print Assumptions C11_unlock_bounded.

(* every recorded holding of every validator is strictly positive in every reachable state (no negative or
   zero entries: what is unlocked or slashed never exceeds what is held) *)
From Goat Require Import Proofs.LockingDerived.
Theorem C11_holdings_positive : forall p rem goat gas acc ops,
  0 <= lp_slash_down p <= one18 -> 0 <= lp_slash_double p <= one18 -> Forall wf_op ops ->
  forall a v t x, l_val (lk_run (empty_lstate p rem goat gas acc) ops) !! a = Some v -> v_hold v !! t = Some x -> 0 < x.
Proof. intros p rem goat gas acc ops H1 H2 W. apply di_pos. apply reachable_dinv; assumption. Qed.
Print Assumptions C11_holdings_positive.
