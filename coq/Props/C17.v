(* C17: deposit addresses handed out are exactly what deposit checking accepts; withdrawal
   addresses decode to standard scripts of the configured network only.
   sha256 / hash160 / the taproot tweak are arbitrary functions with the stated output lengths;
   "for no other" is concluded up to an explicitly exhibited collision of them. *)
From Goat Require Import Base.Prelude Model.Address Proofs.AddressProofs.
Local Open Scope N_scope.

Section C17.
Variable sha256d sha256 hash160 : bytes -> bytes.
Variable taproot_tweak : bytes -> bytes -> bytes.
Hypothesis sha256_len : forall m, length (sha256 m) = 32%nat.
Hypothesis hash160_len : forall m, length (hash160 m) = 20%nat.
Hypothesis tweak_len : forall p e, length (taproot_tweak p e) = 32%nat.

Theorem C17_handed_out_v0_accepted k evm net a :
  deposit_address_v0 sha256 taproot_tweak k evm net = Ok a ->
  verify_deposit_script_v0 sha256 taproot_tweak k evm (pay_to_addr a) = true.
Proof. exact (handed_out_v0_accepted sha256 taproot_tweak sha256_len tweak_len k evm net a). Qed.

Theorem C17_handed_out_v1_accepted k magic evm net a script :
  deposit_address_v1 hash160 k magic evm net = Ok (a, script) ->
  verify_deposit_script_v1 hash160 k magic evm (pay_to_addr a) script = true.
Proof. exact (handed_out_v1_accepted hash160 hash160_len k magic evm net a script). Qed.

Theorem C17_v0_for_no_other k evm net a k' evm' :
  deposit_address_v0 sha256 taproot_tweak k evm net = Ok a ->
  verify_deposit_script_v0 sha256 taproot_tweak k' evm' (pay_to_addr a) = true ->
  (k' = k /\ evm' = evm) \/ collision sha256 \/
  (exists p p' ok ok', k = KSchnorr p ok /\ k' = KSchnorr p' ok' /\ taproot_tweak p' evm' = taproot_tweak p evm).
Proof. exact (v0_binding sha256 taproot_tweak k evm net a k' evm'). Qed.

Theorem C17_v1_for_no_other k magic evm net a script k' magic' evm' :
  deposit_address_v1 hash160 k magic evm net = Ok (a, script) ->
  verify_deposit_script_v1 hash160 k' magic' evm' (pay_to_addr a) script = true ->
  exists p p', k = KSecp p /\ k' = KSecp p' /\ hash160 p' = hash160 p /\ magic' = magic /\ evm' = evm.
Proof. exact (v1_binding hash160 k magic evm net a script k' magic' evm'). Qed.

Theorem C17_v1_only_ecdsa p ok magic evm net t0 t1 :
  deposit_address_v1 hash160 (KSchnorr p ok) magic evm net = Err /\
  verify_deposit_script_v1 hash160 (KSchnorr p ok) magic evm t0 t1 = false.
Proof. exact (v1_only_ecdsa hash160 p ok magic evm net t0 t1). Qed.

Theorem C17_decode_standard hrps net s script :
  decode_btc_address sha256d hrps net s = Ok script ->
  standard_script script /\
  exists a, decode_address sha256d hrps net s = Ok a /\ is_for_net net a = true /\ script = pay_to_addr a.
Proof. exact (decode_gives_standard_script sha256d hrps net s script). Qed.

Theorem C17_never_p2pk hrps net s script key :
  decode_btc_address sha256d hrps net s = Ok script ->
  (length key = 33%nat \/ length key = 65%nat) -> script <> push key ++ [172].
Proof. exact (decode_never_p2pk sha256d hrps net s script key). Qed.

Theorem C17_decode_respects_network hrps net s script :
  decode_btc_address sha256d hrps net s = Ok script ->
  exists a, decode_address sha256d hrps net s = Ok a /\
    match a with
    | APubKeyHash _ id => id = n_pkh net
    | AScriptHash _ id => id = n_sh net
    | AWitnessPubKeyHash _ hrp | AWitnessScriptHash _ hrp | ATaproot _ hrp => hrp = n_hrp net
    end.
Proof. exact (decode_respects_network sha256d hrps net s script). Qed.
End C17.

Print Assumptions C17_handed_out_v0_accepted.
Print Assumptions C17_handed_out_v1_accepted.
Print Assumptions C17_v0_for_no_other.
Print Assumptions C17_v1_for_no_other.
Print Assumptions C17_v1_only_ecdsa.
Print Assumptions C17_decode_standard.
Print Assumptions C17_never_p2pk.
Print Assumptions C17_decode_respects_network.

(* non-vacuity: a concrete deposit address of each kind exists and is accepted *)
Example C17_example :
  let sha := fun _ : bytes => repeat 7 32 in
  let tw := fun _ _ : bytes => repeat 9 32 in
  let net := mkNet [98; 99] 0 5 in
  exists a b, deposit_address_v0 sha tw (KSecp (2 :: repeat 1 32)) (repeat 3 20) net = Ok a /\
              deposit_address_v0 sha tw (KSchnorr (repeat 1 32) true) (repeat 3 20) net = Ok b.
Proof. cbn. eexists _, _. split; reflexivity. Qed.

(* ---- string layer: bech32 / bech32m ---- *)
From Goat Require Import Proofs.Bech32.
(* every string the bech32 / bech32m encoder produces (lower-case printable human-readable part, 5-bit data,
   at most 90 characters) decodes back to exactly that human-readable part, data and checksum flavour: the
   checksum algebra (linearity of the generator over GF(2)) and the character layer are proved, for all inputs *)
Theorem C17_bech32_round_trip hrp data v :
  hrp_ok hrp -> Forall (fun d => (d < 32)%N) data -> (length hrp + 1 + length data + 6 <= 90)%nat ->
  bech32_decode (bech32_encode hrp data v) = Some (hrp, data, v).
Proof. exact (bech32_round_trip hrp data v). Qed.
Print Assumptions C17_bech32_round_trip.

Theorem C17_checksum_verifies (c0 K : N) : (K < 2 ^ 30)%N ->
  let p := N.lxor (fold_left pm_step [0; 0; 0; 0; 0; 0]%N c0) K in
  fold_left pm_step (checksum_symbols p) c0 = K.
Proof. exact (checksum_verifies c0 K). Qed.
Print Assumptions C17_checksum_verifies.

(* ---- regrouping layer and whole segwit address strings ---- *)
From Goat Require Import Proofs.Regroup.
(* 8-bit -> 5-bit regrouping with padding followed by 5-bit -> 8-bit without padding (bech32.ConvertBits both
   ways) returns the byte string, for byte strings of any length; the one-byte step of the pair of streaming
   automata is checked exhaustively over its finite domain, the statement for all lengths is by induction *)
Theorem C17_regroup_round_trip p :
  Forall (fun v => (v < 256)%N) p ->
  conv58 (conv85 p 0 0) 0 0 = Some p /\ Forall (fun g => (g < 32)%N) (conv85 p 0 0).
Proof. exact (regroup_round_trip p). Qed.
Print Assumptions C17_regroup_round_trip.

(* the string btcutil builds for (witness version, program) decodes back to exactly that pair under the
   conditions decodeSegWitAddress imposes *)
Theorem C17_segwit_round_trip hrp ver p v :
  hrp_ok hrp -> (ver <= 16)%N -> Forall (fun x => (x < 256)%N) p ->
  (2 <= length p <= 40)%nat ->
  (ver = 0%N -> (length p = 20 \/ length p = 32)%nat /\ v = V0) ->
  (ver = 1%N -> v = VM) ->
  (length hrp + 1 + S (length (conv85 p 0 0)) + 6 <= 90)%nat ->
  decode_segwit (bech32_encode hrp (ver :: conv85 p 0 0) v) = Some (ver, p).
Proof. exact (segwit_round_trip hrp ver p v). Qed.
Print Assumptions C17_segwit_round_trip.

(* every standard segwit address (P2WPKH, P2WSH, P2TR: the kinds of every deposit address handed out) of a
   configured network survives encode -> DecodeAddress, for every program and human-readable part *)
Theorem C17_segwit_address_round_trip (sha256d : bytes -> bytes) hrps net a :
  segwit_addr_ok a -> Forall (fun x => (x < 256)%N) (addr_prog a) ->
  hrp_ok (addr_hrp a) -> (2 <= length (addr_hrp a) <= 20)%nat -> in_list (addr_hrp a) hrps = true ->
  decode_address sha256d hrps net (encode_address sha256d a) = Ok a.
Proof. exact (segwit_address_round_trip sha256d hrps net a). Qed.
Print Assumptions C17_segwit_address_round_trip.

(* non-vacuity: the theorem applies to a P2WSH address of every configured network prefix *)
Example C17_round_trip_example :
  forall sha256d, decode_address sha256d [[98; 99]; [116; 98]; [98; 99; 114; 116]] (mkNet [98; 99] 0 5)
     (encode_address sha256d (AWitnessScriptHash (repeat 7%N 32) [98; 99])) = Ok (AWitnessScriptHash (repeat 7%N 32) [98; 99]).
Proof.
  intros sha256d. apply segwit_address_round_trip.
  - reflexivity.
  - apply Forall_forall. intros x Hx. apply repeat_spec in Hx. subst. reflexivity.
  - split; [discriminate|]. repeat constructor.
  - cbn. lia.
  - reflexivity.
Qed.

(* ---- base58check (legacy P2PKH / P2SH addresses) and withdrawal-address decoding ---- *)
From Goat Require Import Proofs.Base58.
(* the base58check string of (payload, version byte) decodes back to exactly that pair, for every payload: digit
   expansion in a base is canonical and evaluates back to the number, leading zero bytes map to leading '1's *)
Theorem C17_base58check_round_trip (sha256d : bytes -> bytes) payload version :
  Forall (fun x => (x < 256)%N) payload -> (version < 256)%N ->
  (forall m, (4 <= length (sha256d m))%nat /\ Forall (fun x => (x < 256)%N) (sha256d m)) ->
  check_decode sha256d (check_encode sha256d payload version) = Some (payload, version).
Proof. exact (base58check_round_trip sha256d payload version). Qed.
Print Assumptions C17_base58check_round_trip.

Theorem C17_legacy_address_round_trip (sha256d : bytes -> bytes) hrps net a :
  (forall m, (4 <= length (sha256d m))%nat /\ Forall (fun x => (x < 256)%N) (sha256d m)) ->
  match a with APubKeyHash h id => id = n_pkh net | AScriptHash h id => id = n_sh net | _ => False end ->
  n_pkh net <> n_sh net -> (n_pkh net < 256)%N -> (n_sh net < 256)%N ->
  length (addr_prog_legacy a) = 20%nat -> Forall (fun x => (x < 256)%N) (addr_prog_legacy a) ->
  let s := encode_address sha256d a in
  not_read_as_segwit hrps s -> length s <> 130%nat -> length s <> 66%nat ->
  decode_address sha256d hrps net s = Ok a.
Proof. exact (legacy_address_round_trip sha256d hrps net a). Qed.
Print Assumptions C17_legacy_address_round_trip.

(* withdrawal addresses: the string of every standard segwit address of the configured network is decoded by
   DecodeBtcAddress to exactly the output script it encodes *)
Theorem C17_segwit_withdrawal_decodes (sha256d : bytes -> bytes) hrps net a :
  segwit_addr_ok a -> Forall (fun x => (x < 256)%N) (addr_prog a) -> addr_hrp a = n_hrp net ->
  hrp_ok (n_hrp net) -> (2 <= length (n_hrp net) <= 20)%nat -> in_list (n_hrp net) hrps = true ->
  decode_btc_address sha256d hrps net (encode_address sha256d a) = Ok (pay_to_addr a).
Proof.
  intros Hok Hp Eh Hh Hl Hin. unfold decode_btc_address, rbind.
  rewrite (segwit_address_round_trip sha256d hrps net a Hok Hp); try (rewrite Eh; assumption).
  assert (is_for_net net a = true) as ->; [|reflexivity].
  destruct a; cbn in Hok; try contradiction; cbn in Eh; cbn [is_for_net]; rewrite Eh; apply beq_bytes_refl.
Qed.
Print Assumptions C17_segwit_withdrawal_decodes.

(* and so is that of every legacy address of the configured network (for strings the segwit reading does not claim) *)
Theorem C17_legacy_withdrawal_decodes (sha256d : bytes -> bytes) hrps net a :
  (forall m, (4 <= length (sha256d m))%nat /\ Forall (fun x => (x < 256)%N) (sha256d m)) ->
  match a with APubKeyHash h id => id = n_pkh net | AScriptHash h id => id = n_sh net | _ => False end ->
  n_pkh net <> n_sh net -> (n_pkh net < 256)%N -> (n_sh net < 256)%N ->
  length (addr_prog_legacy a) = 20%nat -> Forall (fun x => (x < 256)%N) (addr_prog_legacy a) ->
  let s := encode_address sha256d a in
  not_read_as_segwit hrps s -> length s <> 130%nat -> length s <> 66%nat ->
  decode_btc_address sha256d hrps net s = Ok (pay_to_addr a).
Proof.
  intros Hsha Hid Hne Hp Hs Hl Hb s Hseg H130 H66. unfold decode_btc_address, rbind. subst s.
  rewrite (legacy_address_round_trip sha256d hrps net a Hsha Hid Hne Hp Hs Hl Hb Hseg H130 H66).
  assert (is_for_net net a = true) as ->; [|reflexivity].
  destruct a; try contradiction; cbn [is_for_net]; subst; apply N.eqb_refl.
Qed.
Print Assumptions C17_legacy_withdrawal_decodes.

(* non-vacuity of the legacy statement: a regtest-style P2PKH address (version 111) under a stand-in checksum *)
Example C17_legacy_example :
  let sha := fun _ : bytes => [1; 2; 3; 4]%N in
  let net := mkNet [98; 99; 114; 116] 111 196 in
  decode_btc_address sha [[98; 99; 114; 116]] net (encode_address sha (APubKeyHash (repeat 7%N 20) 111))
  = Ok (pay_to_addr (APubKeyHash (repeat 7%N 20) 111)).
Proof. vm_compute. reflexivity. Qed.
