(* Executable SHA-256 on byte lists, using Coq's primitive 63-bit integers for speed under
   vm_compute.  Used ONLY by the correspondence check (byte-exact comparison with crypto/sha256
   in the Go code).  No theorem depends on its definition: theorems are stated over an
   abstract hash function in Sections. *)
From Coq Require Import Uint63 List NArith ZArith.
From Goat Require Import Base.Prelude.
Import ListNotations.
Open Scope uint63_scope.

Definition m32 : int := 0xFFFFFFFF.
Definition rotr (x : int) (n : int) : int := ((x >> n) lor (x << (32 - n))) land m32.
Definition shr (x n : int) : int := x >> n.
Definition add32 (a b : int) : int := (a + b) land m32.

Definition Kc : list int :=
 [0x428a2f98;0x71374491;0xb5c0fbcf;0xe9b5dba5;0x3956c25b;0x59f111f1;0x923f82a4;0xab1c5ed5;
  0xd807aa98;0x12835b01;0x243185be;0x550c7dc3;0x72be5d74;0x80deb1fe;0x9bdc06a7;0xc19bf174;
  0xe49b69c1;0xefbe4786;0x0fc19dc6;0x240ca1cc;0x2de92c6f;0x4a7484aa;0x5cb0a9dc;0x76f988da;
  0x983e5152;0xa831c66d;0xb00327c8;0xbf597fc7;0xc6e00bf3;0xd5a79147;0x06ca6351;0x14292967;
  0x27b70a85;0x2e1b2138;0x4d2c6dfc;0x53380d13;0x650a7354;0x766a0abb;0x81c2c92e;0x92722c85;
  0xa2bfe8a1;0xa81a664b;0xc24b8b70;0xc76c51a3;0xd192e819;0xd6990624;0xf40e3585;0x106aa070;
  0x19a4c116;0x1e376c08;0x2748774c;0x34b0bcb5;0x391c0cb3;0x4ed8aa4a;0x5b9cca4f;0x682e6ff3;
  0x748f82ee;0x78a5636f;0x84c87814;0x8cc70208;0x90befffa;0xa4506ceb;0xbef9a3f7;0xc67178f2].

Definition H0 : list int :=
 [0x6a09e667;0xbb67ae85;0x3c6ef372;0xa54ff53a;0x510e527f;0x9b05688c;0x1f83d9ab;0x5be0cd19].

Definition bsig0 x := (rotr x 2) lxor (rotr x 13) lxor (rotr x 22).
Definition bsig1 x := (rotr x 6) lxor (rotr x 11) lxor (rotr x 25).
Definition ssig0 x := (rotr x 7) lxor (rotr x 18) lxor (shr x 3).
Definition ssig1 x := (rotr x 17) lxor (rotr x 19) lxor (shr x 10).
Definition ch x y z := (x land y) lxor ((m32 lxor x) land z).
Definition maj x y z := (x land y) lxor (x land z) lxor (y land z).

(* message schedule: w is kept reversed (most recent first) *)
Fixpoint extend (n : nat) (w : list int) : list int :=
  match n with
  | O => w
  | S n' =>
    let w2 := nth 1 w 0 in let w7 := nth 6 w 0 in
    let w15 := nth 14 w 0 in let w16 := nth 15 w 0 in
    extend n' (add32 (add32 (ssig1 w2) w7) (add32 (ssig0 w15) w16) :: w)
  end.

Definition round (st : list int) (kw : int * int) : list int :=
  match st with
  | [a;b;c;d;e;f;g;h] =>
    let t1 := add32 (add32 (add32 h (bsig1 e)) (add32 (ch e f g) (fst kw))) (snd kw) in
    let t2 := add32 (bsig0 a) (maj a b c) in
    [add32 t1 t2; a; b; c; add32 d t1; e; f; g]
  | _ => st
  end.

Definition compress (st : list int) (block : list int) : list int :=
  let w := rev (extend 48 (rev block)) in
  let st' := fold_left round (combine Kc w) st in
  map (fun p => add32 (fst p) (snd p)) (combine st st').

Definition int_of_byte (b : N) : int := Uint63.of_Z (Z.of_N b).
Definition byte_of_int (i : int) : N := Z.to_N (Uint63.to_Z i).

Fixpoint words (fuel : nat) (l : list int) : list int :=
  match fuel with
  | O => []
  | S f => match l with
           | a :: b :: c :: d :: r => ((a << 24) lor (b << 16) lor (c << 8) lor d) :: words f r
           | _ => []
           end
  end.

Fixpoint blocks (fuel : nat) (st : list int) (ws : list int) : list int :=
  match fuel with
  | O => st
  | S f => match ws with
           | [] => st
           | _ => blocks f (compress st (firstn 16 ws)) (skipn 16 ws)
           end
  end.

Definition pad (msg : bytes) : bytes :=
  let len := N.of_nat (length msg) in
  let zeros := N.to_nat ((119 - (len mod 64)) mod 64) in
  (msg ++ [128%N] ++ repeat 0%N zeros ++ be_bytes 8 (len * 8))%list.

Definition word_bytes (w : int) : bytes :=
  [byte_of_int ((w >> 24) land 0xFF); byte_of_int ((w >> 16) land 0xFF);
   byte_of_int ((w >> 8) land 0xFF); byte_of_int (w land 0xFF)].

Definition sha256 (msg : bytes) : bytes :=
  let p := map int_of_byte (pad msg) in
  let n := length p in
  let ws := words n p in
  flat_map word_bytes (blocks n H0 ws).

Definition sha256d (msg : bytes) : bytes := sha256 (sha256 msg).
