(* C19 at model level: a failing operation of the locking module leaves the state exactly as it was;
   where the model can panic at all. *)
From stdpp Require Import gmap.
From Goat Require Import Base.Prelude Model.Locking.

Theorem lk_failure_is_identity s o :
  fst (fst (snd (lk_step s o))) <> 0%N -> fst (lk_step s o) = s.
Proof.
  destruct o; cbn [lk_step]; unfold deliver.
  - destruct (begin_block _ _ _ _ _ _) as [x| |]; cbn; congruence.
  - destruct (process_requests _ _ _ _) as [x| |]; cbn; congruence.
  - destruct (end_block s) as [[x u]| |]; cbn; congruence.
  - destruct (dequeue_txs s) as [x t]; cbn; congruence.
  - cbn. congruence.
Qed.

(* the hand-over of queued transactions and account creation never fail *)
Theorem lk_dequeue_total s : fst (fst (snd (lk_step s KDequeue))) = 0%N.
Proof. cbn [lk_step]. destruct (dequeue_txs s); reflexivity. Qed.
