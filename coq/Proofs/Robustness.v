(* C19 at model level: a failing operation of the locking module leaves the state exactly as it was;
   where the model can panic at all. *)
From stdpp Require Import gmap.
From Goat Require Import Base.Prelude Model.Locking Model.Bridge Proofs.BridgeSeq.

Theorem lk_failure_is_identity s o :
  fst (fst (snd (lk_step s o))) <> 0%N -> fst (lk_step s o) = s.
Proof.
  destruct o; cbn [lk_step]; unfold deliver.
  - destruct (begin_block _ _ _ _ _ _) as [x| |]; cbn; congruence.
  - destruct (process_requests _ _ _ _) as [x| |]; cbn; congruence.
  - destruct (end_block s) as [[x u]| |]; cbn; congruence.
  - destruct (dequeue_txs s) as [x t]; cbn; congruence.
  - cbn. congruence.
Qed.

(* the hand-over of queued transactions and account creation never fail *)
Theorem lk_dequeue_total s : fst (fst (snd (lk_step s KDequeue))) = 0%N.
Proof. cbn [lk_step]. destruct (dequeue_txs s); reflexivity. Qed.

(* History level: along any run, the operations that failed can be erased - the run reaches the very
   same state from the successful operations alone, each of which succeeds again when replayed. *)
Fixpoint lk_succ (s : lstate) (ops : list lkop) : list lkop :=
  match ops with
  | [] => []
  | o :: r => if N.eqb (fst (fst (snd (lk_step s o)))) 0 then o :: lk_succ (fst (lk_step s o)) r else lk_succ s r
  end.

Fixpoint lk_all_ok (s : lstate) (ops : list lkop) : bool :=
  match ops with
  | [] => true
  | o :: r => N.eqb (fst (fst (snd (lk_step s o)))) 0 && lk_all_ok (fst (lk_step s o)) r
  end.

Theorem lk_failed_ops_erasable ops : forall s,
  lk_run s ops = lk_run s (lk_succ s ops) /\ lk_all_ok s (lk_succ s ops) = true.
Proof.
  induction ops as [|o r IH]; intros s; [split; reflexivity|].
  cbn [lk_succ]. destruct (N.eqb_spec (fst (fst (snd (lk_step s o)))) 0) as [E|E].
  - destruct (IH (fst (lk_step s o))) as [IH1 IH2]. split.
    + unfold lk_run in *. cbn [fold_left]. exact IH1.
    + cbn [lk_all_ok]. rewrite IH2. apply N.eqb_eq in E. rewrite E. reflexivity.
  - destruct (IH s) as [IH1 IH2]. split; [|exact IH2].
    unfold lk_run in *. cbn [fold_left]. rewrite (lk_failure_is_identity s o E). exact IH1.
Qed.

(* the outputs (validator updates, handed-over transactions) of a failed operation are empty *)
Theorem lk_failure_emits_nothing s o :
  fst (fst (snd (lk_step s o))) <> 0%N -> snd (fst (snd (lk_step s o))) = [] /\ snd (snd (lk_step s o)) = [].
Proof.
  destruct o; cbn [lk_step]; unfold deliver.
  - destruct (begin_block _ _ _ _ _ _) as [x| |]; cbn; auto.
  - destruct (process_requests _ _ _ _) as [x| |]; cbn; auto.
  - destruct (end_block s) as [[x u]| |]; cbn; auto; congruence.
  - destruct (dequeue_txs s) as [x t]; cbn; congruence.
  - cbn. congruence.
Qed.

(* The same for the bridge / relayer model. *)
Section BridgeRobust.
Variable H : bytes -> bytes.
Variable chain_id : bytes.

Fixpoint bk_succ (s : bstate) (ops : list bop) : list bop :=
  match ops with
  | [] => []
  | o :: r => if N.eqb (fst (snd (bk_step H chain_id s o))) 0
              then o :: bk_succ (fst (bk_step H chain_id s o)) r else bk_succ s r
  end.

Fixpoint bk_all_ok (s : bstate) (ops : list bop) : bool :=
  match ops with
  | [] => true
  | o :: r => N.eqb (fst (snd (bk_step H chain_id s o))) 0 && bk_all_ok (fst (bk_step H chain_id s o)) r
  end.

Theorem bk_failed_ops_erasable ops : forall s,
  bk_run H chain_id s ops = bk_run H chain_id s (bk_succ s ops) /\ bk_all_ok s (bk_succ s ops) = true.
Proof.
  induction ops as [|o r IH]; intros s; [split; reflexivity|].
  cbn [bk_succ]. destruct (N.eqb_spec (fst (snd (bk_step H chain_id s o))) 0) as [E|E].
  - destruct (IH (fst (bk_step H chain_id s o))) as [IH1 IH2]. split.
    + unfold bk_run in *. cbn [fold_left]. exact IH1.
    + cbn [bk_all_ok]. rewrite IH2. apply N.eqb_eq in E. rewrite E. reflexivity.
  - destruct (IH s) as [IH1 IH2]. split; [|exact IH2].
    unfold bk_run in *. cbn [fold_left]. rewrite (failure_is_identity H chain_id s o E). exact IH1.
Qed.

(* a failed operation hands nothing over to the execution layer *)
Theorem bk_failure_emits_nothing s o :
  fst (snd (bk_step H chain_id s o)) <> 0%N -> snd (snd (bk_step H chain_id s o)) = [].
Proof.
  destruct o; cbn [bk_step]; unfold deliver_b;
    try (match goal with |- context [match ?r with Ok _ => _ | Err => _ | Panic => _ end] => destruct r as [x| |] end; cbn; congruence).
  - destruct (dequeue_btc s) as [[s' t]| |]; cbn; congruence.
  - cbn. congruence.
Qed.
End BridgeRobust.
