(* C17: base58check (legacy P2PKH / P2SH withdrawal addresses): the string the encoder produces for a payload
   and a version byte decodes back to exactly that payload and version, for every payload.
   Positional number systems in an arbitrary base B > 1: the digit expansion computed with enough fuel is the
   canonical one (no leading zero, all digits below B), evaluating it gives the number back, and the canonical
   expansion of the value of a canonical digit string is that string. *)
From Goat Require Import Base.Prelude Model.Address Proofs.Bech32.
From Coq Require Import ZifyBool ZifyN ZifyNat.
Local Open Scope N_scope.
Ltac Zify.zify_post_hook ::= Z.div_mod_to_equations.

(* ---------------------------------------------------------------- digits in base B *)
Fixpoint dig (B : N) (fuel : nat) (v : N) (acc : list N) : list N :=
  match fuel with
  | O => acc
  | S f => if v =? 0 then acc else dig B f (v / B) ((v mod B) :: acc)
  end.
Fixpoint val (B : N) (acc : N) (l : list N) : N :=
  match l with [] => acc | x :: r => val B (acc * B + x) r end.

Lemma dig_acc B fuel : forall v acc, dig B fuel v acc = dig B fuel v [] ++ acc.
Proof.
  induction fuel as [|f IH]; intros v acc; cbn [dig]; [reflexivity|].
  destruct (v =? 0); [reflexivity|]. rewrite (IH (v / B) [v mod B]), (IH (v / B) (v mod B :: acc)), <- app_assoc. reflexivity.
Qed.
Lemma val_app B l : forall acc r, val B acc (l ++ r) = val B (val B acc l) r.
Proof. induction l as [|x l IH]; intros acc r; cbn [app val]; [reflexivity|apply IH]. Qed.
Lemma val_snoc B l d acc : val B acc (l ++ [d]) = val B acc l * B + d.
Proof. rewrite val_app. reflexivity. Qed.

Lemma pow_succ B (f : nat) : B ^ N.of_nat (S f) = B * B ^ N.of_nat f.
Proof. rewrite Nat2N.inj_succ, N.pow_succ_r'. reflexivity. Qed.

Lemma div_lt_pow B f v : 1 < B -> v < B ^ N.of_nat (S f) -> v / B < B ^ N.of_nat f.
Proof. intros HB Hv. rewrite pow_succ in Hv. apply N.div_lt_upper_bound; lia. Qed.

(* evaluating the expansion gives the number back *)
Lemma val_dig B : 1 < B -> forall fuel v, v < B ^ N.of_nat fuel -> val B 0 (dig B fuel v []) = v.
Proof.
  intros HB. induction fuel as [|f IH]; intros v Hv.
  - cbn in Hv. cbn. lia.
  - cbn [dig]. destruct (N.eqb_spec v 0) as [->|Hn]; [reflexivity|].
    rewrite dig_acc, val_snoc, IH by (apply div_lt_pow; assumption).
    pose proof (N.div_mod v B). lia.
Qed.
Lemma dig_small B : 1 < B -> forall fuel v, Forall (fun d => d < B) (dig B fuel v []).
Proof.
  intros HB. induction fuel as [|f IH]; intros v; cbn [dig]; [constructor|].
  destruct (v =? 0); [constructor|]. rewrite dig_acc. apply Forall_app. split; [apply IH|].
  constructor; [apply N.mod_lt; lia|constructor].
Qed.
Lemma dig_zero B fuel : dig B fuel 0 [] = [].
Proof. destruct fuel; reflexivity. Qed.
(* the expansion of a non-zero number is not empty and does not start with a zero digit *)
Lemma dig_head B : 1 < B -> forall fuel v, v <> 0 -> v < B ^ N.of_nat fuel ->
  exists d r, dig B fuel v [] = d :: r /\ d <> 0.
Proof.
  intros HB. induction fuel as [|f IH]; intros v Hn Hv.
  - cbn in Hv. lia.
  - cbn [dig]. destruct (N.eqb_spec v 0) as [E|_]; [contradiction|]. rewrite dig_acc.
    destruct (N.eq_dec (v / B) 0) as [E0|N0].
    + rewrite E0, dig_zero. cbn [app]. exists (v mod B), []. split; [reflexivity|].
      pose proof (N.div_mod v B). lia.
    + destruct (IH (v / B) N0 (div_lt_pow B f v HB Hv)) as (d & r & E & Hd). rewrite E. cbn [app].
      exists d, (r ++ [v mod B]). split; [reflexivity|exact Hd].
Qed.

Lemma val_lt B : 1 < B -> forall l acc, Forall (fun d => d < B) l -> val B acc l < (acc + 1) * B ^ N.of_nat (length l).
Proof.
  intros HB. induction l as [|x l IH]; intros acc Hl; cbn [val length].
  - cbn. lia.
  - inversion Hl as [|? ? Hx Hl']; subst. specialize (IH (acc * B + x) Hl'). rewrite pow_succ.
    assert (acc * B + x + 1 <= (acc + 1) * B) by lia.
    assert (0 < B ^ N.of_nat (length l)) by (apply N.neq_0_lt_0, N.pow_nonzero; lia). nia.
Qed.
Lemma val_zeros B z : forall l acc, val B acc (repeat 0 z ++ l) = val B (acc * B ^ N.of_nat z) l.
Proof.
  induction z as [|z IH]; intros l acc; cbn [repeat app val].
  - cbn. f_equal. lia.
  - rewrite IH, pow_succ. f_equal. lia.
Qed.
Lemma val_lower_gen B : forall l d, B ^ N.of_nat (length l) * d <= val B d l.
Proof.
  induction l as [|x l IH]; intros d; cbn [val length].
  - change (N.of_nat 0) with 0. rewrite N.pow_0_r. lia.
  - rewrite pow_succ. specialize (IH (d * B + x)).
    eapply N.le_trans; [|exact IH]. rewrite N.mul_add_distr_l.
    replace (B * B ^ N.of_nat (length l) * d) with (B ^ N.of_nat (length l) * (d * B)) by ring. apply N.le_add_r.
Qed.
Lemma val_lower B : 1 < B -> forall l d, d <> 0 -> B ^ N.of_nat (length l) <= val B d l.
Proof. intros HB l d Hd. pose proof (val_lower_gen B l d). nia. Qed.

(* the canonical expansion of the value of a canonical digit string is that string *)
Lemma dig_val B : 1 < B -> forall l, Forall (fun d => d < B) l -> (l = [] \/ hd 0 l <> 0) ->
  forall fuel, val B 0 l < B ^ N.of_nat fuel -> dig B fuel (val B 0 l) [] = l.
Proof.
  intros HB. induction l as [|d l IH] using rev_ind; intros Hl Hh fuel Hv.
  - cbn. apply dig_zero.
  - apply Forall_app in Hl. destruct Hl as [Hl Hd]. inversion Hd as [|? ? Hd' _]; subst.
    rewrite val_snoc in *.
    assert (Hne : val B 0 l * B + d <> 0).
    { destruct l as [|x l'].
      - cbn in *. destruct Hh as [Hh|Hh]; [discriminate|]. cbn in Hh. lia.
      - cbn [app hd] in Hh. destruct Hh as [Hh|Hh]; [discriminate|].
        cbn [val]. assert (0 * B + x = x) as -> by lia.
        pose proof (val_lower B HB l' x Hh). assert (0 < B ^ N.of_nat (length l')) by (apply N.neq_0_lt_0, N.pow_nonzero; lia). nia. }
    destruct fuel as [|f]; [cbn in Hv; lia|].
    cbn [dig]. destruct (N.eqb_spec (val B 0 l * B + d) 0) as [E|_]; [contradiction|].
    assert (Hq : (val B 0 l * B + d) / B = val B 0 l) by (symmetry; apply N.div_unique with d; lia).
    assert (Hr : (val B 0 l * B + d) mod B = d) by (symmetry; apply N.mod_unique with (val B 0 l); lia).
    rewrite Hq, Hr, dig_acc. f_equal. apply IH.
    + exact Hl.
    + destruct l as [|x l']; [left; reflexivity|right]. cbn [app hd] in Hh. destruct Hh as [Hh|Hh]; [discriminate|exact Hh].
    + rewrite pow_succ in Hv. nia.
Qed.

(* ---------------------------------------------------------------- the model's functions are these *)
Lemma be_bytes_dig fuel : forall v acc, be_bytes_of fuel v acc = dig 256 fuel v acc.
Proof. induction fuel as [|f IH]; intros v acc; cbn [be_bytes_of dig]; [reflexivity|]. destruct (v =? 0); [reflexivity|apply IH]. Qed.
Lemma be_val_val l : be_val l = val 256 0 l.
Proof. unfold be_val. generalize 0. induction l as [|x l IH]; intros a; cbn [be_val_acc val]; [reflexivity|apply IH]. Qed.

Definition b58_char (d : N) : N := nth (N.to_nat d) b58_alphabet 0.
Fixpoint b58_digits (fuel : nat) (v : N) (acc : bytes) : bytes :=
  match fuel with O => acc | S f => if v =? 0 then acc else b58_digits f (v / 58) (b58_char (v mod 58) :: acc) end.
Lemma b58_digits_dig fuel : forall v acc, b58_digits fuel v acc = map b58_char (dig 58 fuel v []) ++ acc.
Proof.
  induction fuel as [|f IH]; intros v acc; cbn [b58_digits dig]; [reflexivity|].
  destruct (v =? 0); [reflexivity|]. rewrite IH, (dig_acc 58 f (v / 58) [v mod 58]), map_app, <- app_assoc. reflexivity.
Qed.

Lemma lt58_cases (P : N -> Prop) : (forall d, In d (map N.of_nat (seq 0 58)) -> P d) -> forall d, d < 58 -> P d.
Proof.
  intros H d Hd. apply H. apply in_map_iff. exists (N.to_nat d). split; [lia|]. apply in_seq. lia.
Qed.
Lemma b58_char_props d : d < 58 ->
  index_of (b58_char d) b58_alphabet 0 = Some d /\ ((b58_char d =? 49) = true <-> d = 0).
Proof.
  revert d. apply lt58_cases. intros d Hd. cbn in Hd.
  repeat (destruct Hd as [<-|Hd]; [vm_compute; split; [reflexivity|split; intros E; (reflexivity || discriminate E)]|]). destruct Hd.
Qed.

Lemma map_repeat_char z : map b58_char (repeat 0 z) = repeat 49 z.
Proof. induction z as [|z IH]; cbn [repeat map]; [reflexivity|]. rewrite IH. reflexivity. Qed.
Lemma count_leading_repeat c z l : count_leading c (repeat c z ++ l) = (z + count_leading c l)%nat.
Proof. induction z as [|z IH]; cbn [repeat app count_leading]; [reflexivity|]. rewrite N.eqb_refl, IH. reflexivity. Qed.

(* a byte string is its leading zeros followed by a string that does not start with zero *)
Lemma split_leading l : exists r, l = repeat 0 (count_leading 0 l) ++ r /\ (r = [] \/ hd 0 r <> 0).
Proof.
  induction l as [|x l IH]; cbn [count_leading].
  - exists []. split; [reflexivity|left; reflexivity].
  - destruct (N.eqb_spec x 0) as [->|Hx].
    + destruct IH as (r & E & Hr). exists r. split; [cbn [repeat app]; f_equal; exact E|exact Hr].
    + exists (x :: l). split; [reflexivity|right; exact Hx].
Qed.

Lemma pow_le_mono_base a b (n : nat) : a <= b -> a ^ N.of_nat n <= b ^ N.of_nat n.
Proof. intros H. apply N.pow_le_mono_l. exact H. Qed.
Lemma pow256_le_pow58 (n : nat) : 256 ^ N.of_nat n <= 58 ^ N.of_nat (2 * n).
Proof.
  replace (N.of_nat (2 * n)) with (2 * N.of_nat n) by lia. rewrite N.pow_mul_r.
  apply N.pow_le_mono_l. vm_compute. discriminate.
Qed.

(* ---------------------------------------------------------------- base58 *)
Section B58.
Variable sha256d : bytes -> bytes.

Definition b58_encode (full : bytes) : bytes :=
  repeat 49 (count_leading 0 full) ++ b58_digits (2 * length full) (be_val full) [].

Lemma check_encode_unfold payload version :
  check_encode sha256d payload version = b58_encode ((version :: payload) ++ firstn 4 (sha256d (version :: payload))).
Proof. reflexivity. Qed.

Theorem base58_round_trip full : Forall (fun x => x < 256) full -> base58_decode (b58_encode full) = full.
Proof.
  intros Hb. destruct (split_leading full) as (rest & Efull & Hrest).
  set (z := count_leading 0 full) in *.
  assert (Hbr : Forall (fun x => x < 256) rest) by (rewrite Efull in Hb; apply Forall_app in Hb; apply Hb).
  assert (Llen : length full = (z + length rest)%nat).
  { pose proof (f_equal (@length N) Efull) as L. rewrite app_length, repeat_length in L. exact L. }
  set (v := be_val full).
  assert (Ev : v = val 256 0 rest).
  { unfold v. rewrite be_val_val, Efull, val_zeros. f_equal. }
  assert (Hv256 : v < 256 ^ N.of_nat (length rest)).
  { rewrite Ev. pose proof (val_lt 256 ltac:(lia) rest 0 Hbr). lia. }
  assert (Hvfuel : v < 58 ^ N.of_nat (2 * length full)).
  { eapply N.lt_le_trans; [exact Hv256|]. eapply N.le_trans; [|apply pow256_le_pow58].
    apply N.pow_le_mono_r; [lia|]. lia. }
  set (D := dig 58 (2 * length full) v []).
  assert (HD : Forall (fun d => d < 58) D) by (apply dig_small; lia).
  assert (EvD : val 58 0 D = v) by (apply val_dig; [lia|exact Hvfuel]).
  unfold b58_encode. fold z v. rewrite b58_digits_dig, app_nil_r. fold D.
  set (s := repeat 49 z ++ map b58_char D).
  assert (Es : s = map b58_char (repeat 0 z ++ D)).
  { unfold s. rewrite map_app, map_repeat_char. reflexivity. }
  unfold base58_decode.
  assert (map_opt (fun c => index_of c b58_alphabet 0) s = Some (repeat 0 z ++ D)) as ->.
  { rewrite Es. apply map_opt_map. apply Forall_app. split.
    - apply List.Forall_forall. intros x Hx. apply repeat_spec in Hx. rewrite Hx. reflexivity.
    - eapply Forall_impl; [|exact HD]. intros d Hd. apply (b58_char_props d Hd). }
  (* the value *)
  assert (fold_left (fun a d => a * 58 + d) (repeat 0 z ++ D) 0 = v) as ->.
  { assert (G : forall l a, fold_left (fun a d => a * 58 + d) l a = val 58 a l).
    { induction l as [|x l IH]; intros a; cbn [fold_left val]; [reflexivity|apply IH]. }
    rewrite G, val_zeros. assert (0 * 58 ^ N.of_nat z = 0) as -> by lia. exact EvD. }
  (* leading ones *)
  assert (count_leading 49 s = z) as ->.
  { unfold s. rewrite count_leading_repeat.
    assert (count_leading 49 (map b58_char D) = 0%nat) as -> ; [|lia].
    destruct (N.eq_dec v 0) as [E0|N0].
    - unfold D. rewrite E0, dig_zero. reflexivity.
    - destruct (dig_head 58 ltac:(lia) (2 * length full) v N0 Hvfuel) as (d & r & E & Hd). fold D in E. rewrite E. cbn [map count_leading].
      assert (Hd58 : d < 58) by (rewrite E in HD; inversion HD; assumption).
      destruct (b58_char d =? 49) eqn:Ec; [|reflexivity]. apply (b58_char_props d Hd58) in Ec. contradiction. }
  (* the bytes *)
  rewrite be_bytes_dig.
  assert (Hfuel2 : val 256 0 rest < 256 ^ N.of_nat (length s)).
  { rewrite <- Ev. eapply N.lt_le_trans; [|apply N.pow_le_mono_r with (b := N.of_nat (length D)); [lia|]].
    - rewrite <- EvD. pose proof (val_lt 58 ltac:(lia) D 0 HD). eapply N.lt_le_trans; [apply H|].
      assert ((0 + 1) * 58 ^ N.of_nat (length D) = 58 ^ N.of_nat (length D)) as -> by lia.
      apply N.pow_le_mono_l. lia.
    - unfold s. rewrite app_length, map_length. lia. }
  rewrite Ev, (dig_val 256 ltac:(lia) rest Hbr Hrest _ Hfuel2). symmetry. exact Efull.
Qed.

(* base58check: payload and version byte come back *)
Theorem base58check_round_trip payload version :
  Forall (fun x => x < 256) payload -> version < 256 ->
  (forall m, (4 <= length (sha256d m))%nat /\ Forall (fun x => x < 256) (sha256d m)) ->
  check_decode sha256d (check_encode sha256d payload version) = Some (payload, version).
Proof.
  intros Hp Hv Hsha. rewrite check_encode_unfold.
  set (body := version :: payload). set (chk := firstn 4 (sha256d body)).
  destruct (Hsha body) as [Hl4 Hb4].
  assert (Lc : length chk = 4%nat) by (unfold chk; rewrite firstn_length; lia).
  assert (Hfull : Forall (fun x => x < 256) (body ++ chk)).
  { apply Forall_app. split; [constructor; assumption|]. unfold chk. rewrite <- (firstn_skipn 4 (sha256d body)) in Hb4. apply Forall_app in Hb4. apply Hb4. }
  unfold check_decode. rewrite (base58_round_trip (body ++ chk) Hfull).
  assert (Ll : length (body ++ chk) = (length body + 4)%nat) by (rewrite app_length, Lc; reflexivity).
  rewrite Ll.
  assert ((length body + 4 <? 5)%nat = false) as -> by (apply Nat.ltb_ge; unfold body; cbn [length]; lia).
  replace (length body + 4 - 4)%nat with (length body) by lia.
  rewrite firstn_app, firstn_all, Nat.sub_diag, firstn_O, app_nil_r.
  rewrite skipn_app, skipn_all, Nat.sub_diag. change (skipn 0 chk) with chk. change ([] ++ chk) with chk.
  change (firstn 4 (sha256d body)) with chk.
  assert (beq_bytes chk chk = true) as -> by (apply beq_bytes_eq; reflexivity).
  reflexivity.
Qed.
End B58.

(* ---------------------------------------------------------------- legacy address strings *)
Definition addr_prog_legacy (a : addr) : bytes :=
  match a with APubKeyHash p _ | AScriptHash p _ | AWitnessPubKeyHash p _ | AWitnessScriptHash p _ | ATaproot p _ => p end.
(* DecodeAddress first tries the segwit reading of a string (text before the last '1', lower-cased, being a known
   human-readable part); a base58 string can contain '1', so the statement is for strings that reading does not
   claim.  (Mainnet / testnet legacy addresses start with 1, 3, m, n or 2; no configured prefix does.) *)
Definition not_read_as_segwit (hrps : list bytes) (s : bytes) : Prop :=
  match last_index 49 s 0 None with
  | Some one => (1 <? one)%nat && in_list (map to_lower (firstn one s)) hrps = false
  | None => True
  end.

Theorem legacy_address_round_trip (sha256d : bytes -> bytes) hrps net a :
  (forall m, (4 <= length (sha256d m))%nat /\ Forall (fun x => x < 256) (sha256d m)) ->
  match a with
  | APubKeyHash h id => id = n_pkh net
  | AScriptHash h id => id = n_sh net
  | _ => False
  end ->
  n_pkh net <> n_sh net -> n_pkh net < 256 -> n_sh net < 256 ->
  length (addr_prog_legacy a) = 20%nat -> Forall (fun x => x < 256) (addr_prog_legacy a) ->
  let s := encode_address sha256d a in
  not_read_as_segwit hrps s -> length s <> 130%nat -> length s <> 66%nat ->
  decode_address sha256d hrps net s = Ok a.
Proof.
  intros Hsha Hid Hne Hp Hs Hl Hb s Hseg H130 H66.
  unfold decode_address. fold s.
  assert (Eseg : match last_index 49 s 0 None with
                 | Some one => if (1 <? one)%nat && in_list (map to_lower (firstn one s)) hrps then Some one else None
                 | None => None end = None).
  { unfold not_read_as_segwit in Hseg. destruct (last_index 49 s 0 None) as [one|]; [rewrite Hseg|]; reflexivity. }
  rewrite Eseg.
  assert (((length s =? 130)%nat || (length s =? 66)%nat) = false) as ->.
  { apply orb_false_iff. split; apply Nat.eqb_neq; assumption. }
  destruct a as [h id|h id| | |]; try contradiction; cbn [addr_prog_legacy] in Hl, Hb; subst id; unfold s, encode_address.
  - rewrite (base58check_round_trip sha256d h (n_pkh net) Hb Hp Hsha). rewrite Hl. cbn [Nat.eqb].
    rewrite N.eqb_refl. destruct (N.eqb_spec (n_pkh net) (n_sh net)) as [E|_]; [contradiction|]. reflexivity.
  - rewrite (base58check_round_trip sha256d h (n_sh net) Hb Hs Hsha). rewrite Hl. cbn [Nat.eqb].
    rewrite N.eqb_refl. destruct (N.eqb_spec (n_sh net) (n_pkh net)) as [E|_]; [symmetry in E; contradiction|]. reflexivity.
Qed.
