(* C13: the end-of-block validator-set update never fails on a well-formed ranking and reports exactly
   the changes that turn the old recorded set into the new one, each acceptable to CometBFT. *)
From stdpp Require Import gmap sorting.
From Goat Require Import Base.Prelude Gen.Consts Model.Locking.
From Coq Require Import ZifyBool ZifyN.
Local Open Scope Z_scope.

(* the consensus engine's view: apply a batch of (validator, power) changes; power 0 = removal *)
Definition apply_ups (m : gmap N N) (ups : list (N * N)) : gmap N N :=
  fold_left (fun m '(a, p) => if (p =? 0)%N then delete a m else <[a := p]> m) ups m.

Lemma apply_ups_app m u1 u2 : apply_ups m (u1 ++ u2) = apply_ups (apply_ups m u1) u2.
Proof. unfold apply_ups. apply fold_left_app. Qed.

(* entries of the ranking list r describe validators of s: power as ranked, positive, status pending/active *)
Definition ranked_ok (s : lstate) (r : list (N * N)) : Prop :=
  forall p a, In (p, a) r -> exists v, l_val s !! a = Some v /\ v_power v = p /\ (0 < p)%N /\ in_ranking_status (v_status v) = true.

Lemma end_walk_refines r : forall s last ups count s' last' ups',
  end_walk s last ups count r = Ok (s', last', ups') ->
  ranked_ok s r -> NoDup (map snd r) ->
  exists new,
    ups' = ups ++ new /\
    l_set s' = apply_ups (l_set s) new /\
    (forall a p, In (a, p) new -> (0 < p)%N /\ In a (map snd r) /\ last' !! a = None) /\
    NoDup (map fst new) /\
    (forall a p, last' !! a = Some p -> last !! a = Some p) /\
    (forall a, is_Some (l_val s !! a) <-> is_Some (l_val s' !! a)) /\
    (forall a p, l_set s' !! a = Some p -> In (a, p) new \/ (l_set s !! a = Some p /\ ~ In a (map fst new))) /\
    (Z.of_nat (length new) <= Z.max 0 (lp_max_validators (l_params s) - count)) /\
    l_params s' = l_params s.
Proof.
  induction r as [|[p a] r IH]; intros s last ups count s' last' ups' Hw Hok ND; cbn [end_walk] in Hw.
  - inversion Hw; subst. exists []. rewrite app_nil_r. cbn.
    repeat split; auto; try lia; try tauto; try constructor.
  - destruct (count >=? lp_max_validators (l_params s)) eqn:Ecut.
    { inversion Hw; subst. exists []. rewrite app_nil_r. cbn. repeat split; auto; try lia; try tauto; try constructor. }
    inversion ND as [|? ? Hnin ND']; subst.
    destruct (Hok p a (or_introl eq_refl)) as (v & Ev & Hp & Hpos & Hst).
    rewrite Ev in Hw.
    assert (Hok_rest : forall s1, (forall b, b <> a -> l_val s1 !! b = l_val s !! b) -> ranked_ok s1 r).
    { intros s1 Hsame q b Hin. assert (b <> a) as Hne. { intros ->. apply Hnin. apply in_map_iff. exists (q, a). auto. }
      rewrite (Hsame b Hne). apply Hok. right. exact Hin. }
    destruct (v_status v) eqn:Est; try discriminate Hst.
    + (* Pending: joins *)
      destruct (last !! a) eqn:El; [discriminate Hw|].
      match type of Hw with end_walk ?s1 _ _ _ _ = _ =>
        assert (Hok1 : ranked_ok s1 r) by (apply Hok_rest; intros b Hb; cbn; apply lookup_insert_ne; congruence) end.
      destruct (IH _ _ _ _ _ _ _ Hw Hok1 ND') as (new & -> & Hset & Hnew & NDn & Hsub & Hdom & Hmem & Hlen & Hpar).
      cbn [l_set l_val set_set set_val l_params] in *.
      exists ((a, v_power v) :: new). rewrite <- app_assoc. split; [reflexivity|].
      assert (Hnz : (v_power v =? 0)%N = false) by lia.
      split. { cbn [apply_ups fold_left]. rewrite Hnz. exact Hset. }
      assert (Hla : last' !! a = None). { destruct (last' !! a) eqn:E; [|reflexivity]. rewrite (Hsub _ _ E) in El. discriminate. }
      split. { intros b q [E|Hin]; [inversion E; subst; split; [lia|]; split; [left; reflexivity | exact Hla]|].
               destruct (Hnew b q Hin) as (A & B & C). split; [exact A|]. split; [right; exact B | exact C]. }
      split. { cbn [map fst]. constructor; [|exact NDn]. intros Hin. apply in_map_iff in Hin. destruct Hin as ([b q] & Hb & Hin). cbn in Hb; subst b.
               destruct (Hnew a q Hin) as (_ & B & _). tauto. }
      split; [exact Hsub|].
      split. { intros b. rewrite <- Hdom. destruct (decide (b = a)) as [->|Hne]; [rewrite lookup_insert, Ev; split; eauto | rewrite lookup_insert_ne by congruence; tauto]. }
      split. { intros b q Hb. destruct (Hmem b q Hb) as [Hin|[Hs Hn]]; [left; right; exact Hin|].
               destruct (decide (b = a)) as [->|Hne].
               - rewrite lookup_insert in Hs. inversion Hs; subst. left. left. reflexivity.
               - rewrite lookup_insert_ne in Hs by congruence. right. split; [exact Hs|]. cbn. intros [E|E]; [congruence | tauto]. }
      split; [cbn [length]; lia | exact Hpar].
    + (* Active *)
      destruct (default 0%N (last !! a) =? v_power v)%N eqn:Esame.
      * match type of Hw with end_walk ?s1 _ _ _ _ = _ =>
          assert (Hok1 : ranked_ok s1 r) by (apply Hok_rest; intros; reflexivity) end.
        destruct (IH _ _ _ _ _ _ _ Hw Hok1 ND') as (new & -> & Hset & Hnew & NDn & Hsub & Hdom & Hmem & Hlen & Hpar).
        exists new. split; [reflexivity|]. split; [exact Hset|].
        split. { intros b q Hin. destruct (Hnew b q Hin) as (A & B & C). split; [exact A|]. split; [right; exact B | exact C]. }
        split; [exact NDn|].
        split. { intros b q Hb. specialize (Hsub b q Hb). destruct (decide (b = a)) as [->|Hne]; [rewrite lookup_delete in Hsub; discriminate | rewrite lookup_delete_ne in Hsub by congruence; exact Hsub]. }
        split; [exact Hdom|]. split; [exact Hmem|]. split; [lia | exact Hpar].
      * match type of Hw with end_walk ?s1 _ _ _ _ = _ =>
          assert (Hok1 : ranked_ok s1 r) by (apply Hok_rest; intros; reflexivity) end.
        destruct (IH _ _ _ _ _ _ _ Hw Hok1 ND') as (new & -> & Hset & Hnew & NDn & Hsub & Hdom & Hmem & Hlen & Hpar).
        cbn [l_set l_val set_set l_params] in *.
        exists ((a, v_power v) :: new). rewrite <- app_assoc. split; [reflexivity|].
        assert (Hnz : (v_power v =? 0)%N = false) by lia.
        split. { cbn [apply_ups fold_left]. rewrite Hnz. exact Hset. }
        assert (Hla : last' !! a = None). { destruct (last' !! a) eqn:E; [|reflexivity]. specialize (Hsub _ _ E). rewrite lookup_delete in Hsub. discriminate. }
        split. { intros b q [E|Hin]; [inversion E; subst; split; [lia|]; split; [left; reflexivity | exact Hla]|].
                 destruct (Hnew b q Hin) as (A & B & C). split; [exact A|]. split; [right; exact B | exact C]. }
        split. { cbn [map fst]. constructor; [|exact NDn]. intros Hin. apply in_map_iff in Hin. destruct Hin as ([b q] & Hb & Hin). cbn in Hb; subst b.
                 destruct (Hnew a q Hin) as (_ & B & _). tauto. }
        split. { intros b q Hb. specialize (Hsub b q Hb). destruct (decide (b = a)) as [->|Hne]; [rewrite lookup_delete in Hsub; discriminate | rewrite lookup_delete_ne in Hsub by congruence; exact Hsub]. }
        split; [exact Hdom|].
        split. { intros b q Hb. destruct (Hmem b q Hb) as [Hin|[Hs Hn]]; [left; right; exact Hin|].
                 destruct (decide (b = a)) as [->|Hne].
                 - rewrite lookup_insert in Hs. inversion Hs; subst. left. left. reflexivity.
                 - rewrite lookup_insert_ne in Hs by congruence. right. split; [exact Hs|]. cbn. intros [E|E]; [congruence | tauto]. }
        split; [cbn [length]; lia | exact Hpar].
Qed.

Lemma end_remove_refines l : forall s ups s' ups',
  end_remove s ups l = Ok (s', ups') ->
  exists rm, ups' = ups ++ rm /\ rm = map (fun a => (a, 0%N)) l /\ l_set s' = apply_ups (l_set s) rm.
Proof.
  induction l as [|a r IH]; intros s ups s' ups' Hr; cbn [end_remove] in Hr.
  - inversion Hr; subst. exists []. rewrite app_nil_r. auto.
  - destruct (l_val s !! a) as [v|]; [|discriminate Hr].
    apply IH in Hr. destruct Hr as (rm & -> & -> & Hset).
    exists ((a, 0%N) :: map (fun a0 => (a0, 0%N)) r). rewrite <- app_assoc. split; [reflexivity|]. split; [reflexivity|].
    cbn [apply_ups fold_left]. rewrite Hset. cbn. destruct (bool_decide (v_status v = Active)); reflexivity.
Qed.

Lemma end_remove_total l : forall s ups, (forall a, In a l -> is_Some (l_val s !! a)) ->
  exists s' ups', end_remove s ups l = Ok (s', ups').
Proof.
  induction l as [|a r IH]; intros s ups Hex; cbn [end_remove]; [eauto|].
  destruct (Hex a (or_introl eq_refl)) as [v Ev]. rewrite Ev.
  apply IH. intros b Hb. destruct (Hex b (or_intror Hb)) as [w Ew].
  destruct (bool_decide (v_status v = Active)); cbn;
    [destruct (decide (b = a)) as [->|Hne]; [rewrite lookup_insert; eauto | rewrite lookup_insert_ne by congruence; eauto] | eauto].
Qed.

Lemma end_walk_total r : forall s last ups count,
  ranked_ok s r -> NoDup (map snd r) ->
  (forall a v, In a (map snd r) -> l_val s !! a = Some v -> v_status v = Pending -> last !! a = None) ->
  exists x, end_walk s last ups count r = Ok x.
Proof.
  induction r as [|[p a] r IH]; intros s last ups count Hok ND Hpend; cbn [end_walk]; [eauto|].
  destruct (count >=? _); [eauto|].
  inversion ND as [|? ? Hnin ND']; subst.
  destruct (Hok p a (or_introl eq_refl)) as (v & Ev & Hp & Hpos & Hst). rewrite Ev.
  assert (Hok_rest : forall s1, (forall b, b <> a -> l_val s1 !! b = l_val s !! b) -> ranked_ok s1 r).
  { intros s1 Hsame q b Hin. assert (b <> a) as Hne. { intros ->. apply Hnin. apply in_map_iff. exists (q, a). auto. }
    rewrite (Hsame b Hne). apply Hok. right. exact Hin. }
  destruct (v_status v) eqn:Est; try discriminate Hst.
  - rewrite (Hpend a v (or_introl eq_refl) Ev Est).
    apply IH; [apply Hok_rest; intros b Hb; cbn; apply lookup_insert_ne; congruence | exact ND' |].
    intros b w Hin Hb Hs. cbn in Hb. assert (b <> a) by (intros ->; tauto).
    rewrite lookup_insert_ne in Hb by congruence. eapply Hpend; eauto. right. exact Hin.
  - destruct (default 0%N (last !! a) =? v_power v)%N.
    + apply IH; [apply Hok_rest; intros; reflexivity | exact ND' |].
      intros b w Hin Hb Hs. assert (b <> a) by (intros ->; tauto). rewrite lookup_delete_ne by congruence. eapply Hpend; eauto. right. exact Hin.
    + apply IH; [apply Hok_rest; intros; reflexivity | exact ND' |].
      intros b w Hin Hb Hs. cbn in Hb. assert (b <> a) by (intros ->; tauto). rewrite lookup_delete_ne by congruence. eapply Hpend; eauto. right. exact Hin.
Qed.

(* well-formedness of the ranking at the end of a block *)
Definition rank_wf (s : lstate) : Prop :=
  ranked_ok s (rank_desc s) /\ NoDup (map snd (rank_desc s)).
Definition set_wf (s : lstate) : Prop :=
  (forall a p, l_set s !! a = Some p -> is_Some (l_val s !! a)) /\
  (forall a v, l_val s !! a = Some v -> v_status v = Pending -> l_set s !! a = None).

(* C13: end_block never fails; the reported changes applied to the old recorded set give the new one;
   no zero-power addition, no removal of a non-member, no duplicate address; at most max-validators additions *)
Theorem end_block_refines s : rank_wf s -> set_wf s ->
  exists s' ups, end_block s = Ok (s', ups) /\
    l_set s' = apply_ups (l_set s) ups /\
    NoDup (map fst ups) /\
    (forall a p, In (a, p) ups -> (p = 0%N -> is_Some (l_set s !! a)) /\ (p <> 0%N -> In a (map snd (rank_desc s)))) /\
    (forall a p, l_set s' !! a = Some p -> (0 < p)%N \/ l_set s !! a = Some p).
Proof.
  intros [Hok ND] [Hex Hpend]. unfold end_block.
  destruct (end_walk_total (rank_desc s) s (l_set s) [] 0 Hok ND) as [[[s1 rest] u1] Hw].
  { intros a v _ Ev Hs. eapply Hpend; eauto. }
  rewrite Hw. cbn [rbind].
  destruct (end_walk_refines _ _ _ _ _ _ _ _ Hw Hok ND) as (new & Hu & Hset & Hnew & NDn & Hsub & Hdom & Hmem & Hlen & Hpar).
  cbn [app] in Hu. subst u1.
  destruct (end_remove_total (map fst (map_to_list rest)) s1 new) as (s2 & u2 & Hr).
  { intros a Hin. apply in_map_iff in Hin. destruct Hin as ([b q] & Hb & Hin). cbn in Hb; subst b.
    apply elem_of_list_In, elem_of_map_to_list in Hin. apply Hdom. eapply Hex. eapply Hsub; eauto. }
  rewrite Hr. exists s2, u2. split; [reflexivity|].
  destruct (end_remove_refines _ _ _ _ _ Hr) as (rm & -> & Hrm & Hset2).
  split. { rewrite apply_ups_app, <- Hset. exact Hset2. }
  assert (Hrm_in : forall a, In a (map fst rm) -> is_Some (rest !! a)).
  { intros a Hin. subst rm. rewrite map_map in Hin. cbn in Hin. rewrite map_id in Hin.
    apply in_map_iff in Hin. destruct Hin as ([b q] & Hb & Hin). cbn in Hb; subst b.
    apply elem_of_list_In, elem_of_map_to_list in Hin. eauto. }
  split.
  { rewrite map_app. assert (NDr : NoDup (map fst rm)).
    { subst rm. rewrite map_map. cbn. rewrite map_id. apply NoDup_ListNoDup, NoDup_fst_map_to_list. }
    revert NDn NDr Hrm_in Hnew. generalize (map fst rm). clear. intros l2 ND1 ND2 Hin2 Hnew.
    induction new as [|[a p] new IH]; cbn [map fst app]; [exact ND2|].
    inversion ND1; subst. constructor.
    - intros Hin. apply in_app_or in Hin. destruct Hin as [Hin|Hin]; [tauto|].
      destruct (Hin2 a Hin) as [x Hx]. destruct (Hnew a p (or_introl eq_refl)) as (_ & _ & Hn). congruence.
    - apply IH; auto. intros b q Hb. apply Hnew. right. exact Hb. }
  split.
  { intros a p Hin. apply in_app_or in Hin. destruct Hin as [Hin|Hin].
    - destruct (Hnew a p Hin) as (A & B & _). split; [intros ->; lia | intros _; exact B].
    - subst rm. apply in_map_iff in Hin. destruct Hin as (b & Hb & Hin). inversion Hb; subst. split; [|congruence].
      intros _. apply in_map_iff in Hin. destruct Hin as ([b q] & Hb2 & Hin). cbn in Hb2; subst b.
      apply elem_of_list_In, elem_of_map_to_list in Hin. exists q. eapply Hsub; eauto. }
  { intros a p Ha. assert (Hs1 : l_set s1 !! a = Some p).
    { rewrite Hset2 in Ha. clear - Ha Hrm. subst rm. revert Ha. generalize (l_set s1). induction (map fst (map_to_list rest)) as [|b l IH]; intros m Ha; cbn in *; [exact Ha|].
      apply IH in Ha. destruct (decide (a = b)) as [->|Hne]; [rewrite lookup_delete in Ha; discriminate | rewrite lookup_delete_ne in Ha by congruence; exact Ha]. }
    destruct (Hmem a p Hs1) as [Hin|[Hs _]]; [left; destruct (Hnew a p Hin) as (A & _); exact A | right; exact Hs]. }
Qed.
