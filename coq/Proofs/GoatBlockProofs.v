From Goat Require Import Base.Prelude Gen.Consts Model.GoatBlock.
From Coq Require Import ZifyBool ZifyN ZifyNat.
Local Open Scope N_scope.

Theorem process_sound txs f : process txs f = true ->
  exists t0 rest, txs = t0 :: rest /\ (length txs <= N.to_nat c_maxTxLen)%nat /\
    t_nmsgs t0 = 1 /\ t_first_is_block t0 = true /\ t_payload_present t0 = true /\
    Forall (fun t => t_runs t = true) txs /\ Forall (fun t => t_has_block_msg t = false) rest /\
    f_proposer_is_cons f = true /\ f_recipient_is_proposer f = true /\ f_timestamp_ok f = true /\
    f_parent_ok f = true /\ f_number_ok f = true /\ f_requests_decodable f = true /\ f_gas_requests f = 1 /\
    f_beacon_ok f = true /\ f_dequeue_ok f = true /\ f_engine_valid f = true.
Proof.
  destruct txs as [|t0 rest]; [discriminate|]. unfold process, verify_eth_block.
  rewrite !andb_true_iff. intros ((((((A & B) & C) & D) & E) & F) & G).
  destruct F as (((((((((F1 & F2) & F3) & F4) & F5) & F6) & F7) & F8) & F9) & F10).
  exists t0, rest. split; [reflexivity|]. split; [lia|]. split; [lia|].
  repeat split; auto; try lia.
  - apply Forall_forall. intros x Hx. rewrite forallb_forall in B. auto.
  - apply Forall_forall. intros x Hx. rewrite forallb_forall in G. specialize (G x Hx). destruct (t_has_block_msg x); [discriminate | reflexivity].
Qed.

(* the honest proposal: one block message first and alone, every selected tx runs, at most 16 txs,
   all payload facts hold (well-behaved engine) => accepted, and the block message succeeds when finalised *)
Theorem honest_accepted t0 rest f :
  t_nmsgs t0 = 1 -> t_first_is_block t0 = true -> t_payload_present t0 = true -> t_runs t0 = true ->
  Forall (fun t => t_runs t = true /\ t_has_block_msg t = false) rest ->
  (length (t0 :: rest) <= N.to_nat c_maxTxLen)%nat ->
  verify_eth_block f = true -> f_blob_gas_zero f = true -> f_sub_requests_ok f = true ->
  process (t0 :: rest) f = true /\ new_eth_block_ok f = true.
Proof.
  intros A B C D E F G H I. split.
  - unfold process. rewrite A, B, C, G. cbn [forallb]. rewrite D.
    assert (forallb t_runs rest = true) as ->. { apply forallb_forall. intros x Hx. rewrite Forall_forall in E. apply (E x Hx). }
    assert (forallb (fun t => negb (t_has_block_msg t)) rest = true) as ->.
    { apply forallb_forall. intros x Hx. rewrite Forall_forall in E. destruct (E x Hx) as [_ ->]. reflexivity. }
    unfold c_maxTxLen in *. cbn in *. rewrite !andb_true_r. lia.
  - unfold verify_eth_block in G. unfold new_eth_block_ok. rewrite !andb_true_iff in G.
    destruct G as (((((((((G1 & G2) & G3) & G4) & G5) & G6) & G7) & G8) & G9) & G10).
    rewrite G1, G2, G4, G5, G6, G8, G9, H, I. reflexivity.
Qed.

(* C09: the head moves only when the block message succeeded AND the block is committed; a fault
   (error / INVALID) on either end-of-block engine call means nothing is committed *)
Theorem head_moves_only_on_success msg_ok np fc :
  snd (commit_and_head msg_ok np fc) = true -> msg_ok = true /\ fst (commit_and_head msg_ok np fc) = true.
Proof. unfold commit_and_head. cbn. rewrite andb_true_iff. tauto. Qed.

Theorem fault_commits_nothing msg_ok np fc :
  (np = AError \/ np = AInvalid \/ fc = AError \/ fc = AInvalid) -> commit_and_head msg_ok np fc = (false, false).
Proof. unfold commit_and_head, finalized_ok. intros [H|[H|[H|H]]]; subst; cbn; rewrite ?andb_false_r; reflexivity. Qed.

Theorem syncing_is_tolerated_at_notification msg_ok :
  commit_and_head msg_ok ASyncing ASyncing = (true, msg_ok) /\ commit_and_head msg_ok AAccepted AValid = (true, msg_ok).
Proof. split; reflexivity. Qed.

Theorem proposing_needs_valid fc pid ge : prepare_ok fc pid ge = true -> fc = AValid /\ pid = true /\ ge = false.
Proof. unfold prepare_ok. destruct fc; try discriminate. rewrite andb_true_iff, negb_true_iff. tauto. Qed.
Theorem checking_needs_valid np : check_ok np = true -> np = AValid.
Proof. destruct np; try discriminate; reflexivity. Qed.

(* verify_dequeue is exact: accepted iff extra is 33 bytes, announces exactly the due count and the leading
   transactions are byte-for-byte the due ones *)
Theorem verify_dequeue_exact due extra txs : verify_dequeue due extra txs = true ->
  length extra = 33%nat /\ hd 0 extra = N.of_nat (length due) /\ firstn (length due) txs = due.
Proof.
  unfold verify_dequeue. rewrite !andb_true_iff. intros ((((A & B) & C) & D) & E).
  split; [lia|]. split; [lia|].
  assert (Hlen : (length due <= length txs)%nat) by lia. clear A B C D.
  revert txs Hlen E. induction due as [|d r IH]; intros txs Hlen E; [reflexivity|].
  destruct txs as [|t ts]; [cbn in Hlen; lia|]. cbn in *. apply andb_true_iff in E. destruct E as [E1 E2].
  apply beq_bytes_eq in E1. subst. f_equal. apply IH; [lia | exact E2].
Qed.
