(* Data-race freedom of the two goroutine pairs of the proposal handlers, from the read/write
   footprints extracted from the Go source (Gen/Footprint.v, regenerated on every run).
   A data race is a pair of accesses to the same location from different goroutines, at least one
   of them a write, not ordered by happens-before.  The two goroutines of each pair are started by
   errgroup.Go and joined by Wait, so accesses of different goroutines are unordered and accesses
   before Go / after Wait are ordered with both: race freedom is exactly disjointness of each
   goroutine's writes from the other's reads and writes. *)
From Goat Require Import Base.Prelude Gen.Footprint.
From Coq Require Import String.

Record access := mkAcc { a_thread : nat; a_loc : string; a_write : bool }.
Definition conflict (x y : access) : Prop :=
  a_thread x <> a_thread y /\ a_loc x = a_loc y /\ (a_write x = true \/ a_write y = true).

Definition accesses (t : nat) (reads writes : list string) : list access :=
  map (fun l => mkAcc t l false) reads ++ map (fun l => mkAcc t l true) writes.

Definition mem (x : string) (l : list string) : bool := existsb (String.eqb x) l.
Definition disjointb (a b : list string) : bool := forallb (fun x => negb (mem x b)) a.
Definition race_free (r1 w1 r2 w2 : list string) : bool :=
  disjointb w1 r2 && disjointb w1 w2 && disjointb w2 r1.

Lemma mem_in x l : mem x l = true <-> In x l.
Proof.
  unfold mem. rewrite existsb_exists. split.
  - intros (y & Hy & E). apply String.eqb_eq in E. subst. exact Hy.
  - intros H. exists x. split; [exact H | apply String.eqb_refl].
Qed.
Lemma disjointb_spec a b : disjointb a b = true -> forall x, In x a -> In x b -> False.
Proof.
  unfold disjointb. rewrite forallb_forall. intros H x Ha Hb.
  specialize (H x Ha). apply mem_in in Hb. rewrite Hb in H. discriminate.
Qed.

(* any interleaving of the two goroutines' accesses contains exactly the accesses of both, so it is
   enough to quantify over pairs of accesses *)
Theorem race_free_sound r1 w1 r2 w2 :
  race_free r1 w1 r2 w2 = true ->
  forall x y, In x (accesses 1 r1 w1) -> In y (accesses 2 r2 w2) -> ~ conflict x y.
Proof.
  unfold race_free. rewrite !andb_true_iff. intros [[D1 D2] D3] x y Hx Hy (_ & Hl & Hw).
  unfold accesses in *. rewrite in_app_iff, !in_map_iff in Hx, Hy.
  destruct Hx as [(lx & <- & Hx)|(lx & <- & Hx)], Hy as [(ly & <- & Hy)|(ly & <- & Hy)]; cbn in *; subst.
  - destruct Hw; discriminate.
  - eapply disjointb_spec; [exact D3| |]; eauto.
  - eapply disjointb_spec; [exact D1| |]; eauto.
  - eapply disjointb_spec; [exact D2| |]; eauto.
Qed.

Definition conflicts (r1 w1 r2 w2 : list string) : list string :=
  filter (fun x => mem x r2 || mem x w2) w1 ++ filter (fun x => mem x r1) w2.
