(* C15 over histories: the time-keyed unlock queue and the hand-over queue evolve ONLY by
     - request lists appending entries under the key  block time + unlock duration  or  block time + exit duration,
     - BeginBlocker moving the entries whose key is <= the block time to the hand-over queue (ascending key),
     - the hand-over step taking a prefix of the hand-over queue.
   Every operation of every history is one of these moves (queue_evolution); as an invariant over
   block-structured histories: inside the block begun at time t every queued key is greater than t, and
   an entry released at time t had a key <= t. *)
From stdpp Require Import gmap sorting.
From Goat Require Import Base.Prelude Gen.Consts Model.Locking Proofs.LockingUnlock Proofs.LockingQueue Proofs.LockingDerived.
From Coq Require Import ZifyBool ZifyN ZifyNat.
Local Open Scope Z_scope.

Definition qs (s : lstate) : gmap Z (list unlock) * list unlock := (l_unlockq s, l_q_unlocks s).

Ltac rap := unfold rank_add_pos; repeat match goal with |- context [if (0 <? ?p)%N then _ else _] => destruct (0 <? p)%N end; reflexivity.

(* ---- operations that do not touch the two queues ---- *)
Lemma q_fold {B} (f : lstate -> B -> res lstate) (l : list B) :
  (forall s b s', f s b = Ok s' -> qs s' = qs s) -> forall s s', fold_res f l s = Ok s' -> qs s' = qs s.
Proof.
  intros Hf. induction l as [|b r IH]; intros s s'; cbn [fold_res]; [intros [= <-]; reflexivity|].
  destruct (f s b) as [s1| |] eqn:E; cbn [rbind]; try discriminate. intros H. rewrite (IH _ _ H). eapply Hf; eauto.
Qed.
Lemma q_create s c d k s' : create_validator s c d k = Ok s' -> qs s' = qs s.
Proof.
  unfold create_validator. destruct (negb _); [discriminate|]. destruct (l_val s !! d); [intros [= <-]; reflexivity|].
  intros [= <-]. destruct (bool_decide _); reflexivity.
Qed.
Lemma q_create_all reqs : forall s s', create_all s reqs = Ok s' -> qs s' = qs s.
Proof.
  induction reqs as [|[[c d] k] r IH]; intros s s'; cbn [create_all]; [intros [= <-]; reflexivity|].
  destruct (create_validator s c d k) as [s1| |] eqn:E; cbn [rbind]; try discriminate.
  intros H. rewrite (IH _ _ H). eapply q_create; eauto.
Qed.
Lemma q_lock_one s now a coins s' : lock_one s now a coins = Ok s' -> qs s' = qs s.
Proof.
  unfold lock_one. destruct (l_val s !! a) as [v|]; [|discriminate].
  destruct (v_status v).
  - destruct (lock_power _ _ _); cbn [rbind]; try discriminate. intros [= <-]. unfold qs. rap.
  - destruct (lock_power _ _ _); cbn [rbind]; try discriminate. intros [= <-]. unfold qs. rap.
  - intros [= <-]. reflexivity.
  - destruct (_ && _).
    + destruct (lock_power _ _ _); cbn [rbind]; try discriminate. intros [= <-]. unfold qs. rap.
    + intros [= <-]. reflexivity.
  - intros [= <-]. reflexivity.
Qed.
Lemma q_lock_each now l : forall s s', lock_each s now l = Ok s' -> qs s' = qs s.
Proof.
  induction l as [|[a cs] r IH]; intros s s'; cbn [lock_each]; [intros [= <-]; reflexivity|].
  destruct (lock_one s now a _) as [s1| |] eqn:E; cbn [rbind]; try discriminate.
  intros H. rewrite (IH _ _ H). eapply q_lock_one; eauto.
Qed.
Lemma q_weight_walk prev cur es : forall s s', weight_walk s prev cur es = Ok s' -> qs s' = qs s.
Proof.
  induction es as [|[a amt] r IH]; intros s s'; cbn [weight_walk]; [intros [= <-]; reflexivity|].
  destruct (l_val s !! a) as [v|]; [|discriminate].
  destruct (negb (fits64 _)); [destruct (prev <? cur)%N; discriminate|].
  intros H. rewrite (IH _ _ H). unfold qs. rap.
Qed.
Lemma q_update_weight s t w s' : update_weight s t w = Ok s' -> qs s' = qs s.
Proof.
  unfold update_weight. destruct (_ =? _)%N; cbn [rbind]; [intros [= <-]; reflexivity|].
  destruct (weight_walk _ _ _ _) as [s1| |] eqn:W; cbn [rbind]; try discriminate.
  intros [= <-]. change (qs (set_tok s1 _)) with (qs s1). eapply q_weight_walk; eauto.
Qed.
Lemma q_update_threshold s t th s' : update_threshold s t th = Ok s' -> qs s' = qs s.
Proof. unfold update_threshold. destruct (l_tok s !! t); [|discriminate]. destruct (_ =? _); intros [= <-]; reflexivity. Qed.
Lemma q_update_tokens s ws ths s' : update_tokens s ws ths = Ok s' -> qs s' = qs s.
Proof.
  unfold update_tokens. destruct (fold_res _ ws s) as [s1| |] eqn:E; cbn [rbind]; try discriminate.
  intros H. rewrite (q_fold (fun s '(t, th) => update_threshold s t th) ths) with (s := s1) (s' := s'); [| |exact H].
  - eapply (q_fold (fun s '(t, w) => update_weight s t w)); [|exact E]. intros x [t w] y. apply q_update_weight.
  - intros x [t th] y. apply q_update_threshold.
Qed.
Lemma q_claim s r s' : claim_one s r = Ok s' -> qs s' = qs s.
Proof. destruct r as [[id a] rc]. unfold claim_one. destruct (l_val s !! a); [|discriminate]. intros [= <-]. reflexivity. Qed.
Lemma q_pool s h gas grants s' : update_reward_pool s h gas grants = Ok s' -> qs s' = qs s.
Proof. unfold update_reward_pool. destruct gas as [|g [|]]; try discriminate. intros [= <-]. reflexivity. Qed.
Lemma q_distribute gas goat total votes : forall s remg remr s' g r,
  distribute s gas goat total remg remr votes = Ok (s', g, r) -> qs s' = qs s.
Proof.
  induction votes as [|[a p] vs IH]; intros s remg remr s' g r; cbn [distribute]; [intros [= <- _ _]; reflexivity|].
  destruct (l_val s !! a) as [v|]; [|discriminate]. intros H. rewrite (IH _ _ _ _ _ _ H). reflexivity.
Qed.
Lemma q_distribute_reward s h votes s' : distribute_reward s h votes = Ok s' -> qs s' = qs s.
Proof.
  unfold distribute_reward. destruct (h <? 2); [intros [= <-]; reflexivity|].
  destruct (_ =? 0); [discriminate|].
  destruct (distribute _ _ _ _ _ _ _) as [[[s1 g] r]| |] eqn:E; cbn [rbind]; try discriminate.
  intros [= <-]. change (qs (set_pool s1 _ _ _ _ _)) with (qs s1). eapply q_distribute; eauto.
Qed.
Lemma q_slash a frac l : forall acc, qs (fst (fold_left (slash_step a frac) l acc)) = qs (fst acc).
Proof. induction l as [|x l IH]; intros acc; cbn [fold_left]; [reflexivity|]. rewrite IH. reflexivity. Qed.
Lemma q_handle_vote s now a absent s' : handle_vote s now a absent = Ok s' -> qs s' = qs s.
Proof.
  unfold handle_vote. destruct (l_val s !! a) as [v|]; [|discriminate].
  destruct (negb _); [intros [= <-]; reflexivity|].
  destruct (_ >=? lp_window _); cbn zeta; destruct (_ >=? lp_max_missed _); try (intros [= <-]; reflexivity).
  all: unfold slash_holdings; match goal with |- context [fold_left ?f ?l ?acc] => pose proof (q_slash a (lp_slash_down (l_params s)) l acc) as P; destruct (fold_left f l acc) as [s2 h'] end;
       intros [= <-]; cbn in *; exact P.
Qed.
Lemma q_handle_evidence s now h lim e s' : handle_evidence s now h lim e = Ok s' -> qs s' = qs s.
Proof.
  destruct e as [[[a et] eh] counted]. unfold handle_evidence.
  destruct (negb counted); [intros [= <-]; reflexivity|].
  destruct (evidence_expired _ _ _ _ _); [intros [= <-]; reflexivity|].
  destruct (l_val s !! a) as [v|]; [|discriminate].
  destruct (bool_decide _); [intros [= <-]; reflexivity|].
  unfold slash_holdings; match goal with |- context [fold_left ?f ?l ?acc] => pose proof (q_slash a (lp_slash_double (l_params s)) l acc) as P; destruct (fold_left f l acc) as [s2 h'] end.
  intros [= <-]; cbn in *; exact P.
Qed.
Lemma q_end_walk r : forall s last ups count s' last' ups', end_walk s last ups count r = Ok (s', last', ups') -> qs s' = qs s.
Proof.
  induction r as [|[p a] r IH]; intros s last ups count s' last' ups'; cbn [end_walk]; [intros [= <- _ _]; reflexivity|].
  destruct (count >=? _); [intros [= <- _ _]; reflexivity|].
  destruct (l_val s !! a) as [v|]; [|discriminate]. destruct (v_status v); try discriminate.
  - destruct (last !! a); [discriminate|]. intros H. rewrite (IH _ _ _ _ _ _ _ H). reflexivity.
  - destruct (_ =? _)%N; intros H; rewrite (IH _ _ _ _ _ _ _ H); reflexivity.
Qed.
Lemma q_end_remove l : forall s ups s' ups', end_remove s ups l = Ok (s', ups') -> qs s' = qs s.
Proof.
  induction l as [|a l IH]; intros s ups s' ups'; cbn [end_remove]; [intros [= <- _]; reflexivity|].
  destruct (l_val s !! a) as [v|]; [|discriminate]. intros H. rewrite (IH _ _ _ _ H). destruct (bool_decide _); reflexivity.
Qed.
Lemma q_end_block s s' ups : end_block s = Ok (s', ups) -> qs s' = qs s.
Proof.
  unfold end_block. destruct (end_walk _ _ _ _ _) as [[[s1 rest] u1]| |] eqn:W; cbn [rbind]; try discriminate.
  intros H. rewrite (q_end_remove _ _ _ _ _ H). eapply q_end_walk; eauto.
Qed.

(* ---- the unlock requests of one list: appends only, under now + unlock / exit duration ---- *)
Definition appended (now : Z) (p : lparams) (q q' : gmap Z (list unlock)) : Prop :=
  forall k, exists added, default [] (q' !! k) = default [] (q !! k) ++ added /\
    (added <> [] -> k = now + lp_unlock_dur p \/ k = now + lp_exit_dur p).

Lemma appended_refl now p q : appended now p q q.
Proof. intros k. exists []. split; [rewrite app_nil_r; reflexivity|congruence]. Qed.
Lemma appended_trans now p q1 q2 q3 : appended now p q1 q2 -> appended now p q2 q3 -> appended now p q1 q3.
Proof.
  intros H1 H2 k. destruct (H1 k) as (a1 & E1 & K1), (H2 k) as (a2 & E2 & K2). exists (a1 ++ a2).
  split; [rewrite E2, E1, app_assoc; reflexivity|]. intros Hne. destruct a1; [destruct a2; [cbn in Hne; congruence|apply K2; discriminate]|apply K1; discriminate].
Qed.

Lemma unlock_one_appends s now id a rc t req s' :
  unlock_one s now id a rc t req = Ok s' ->
  appended now (l_params s) (l_unlockq s) (l_unlockq s') /\ l_q_unlocks s' = l_q_unlocks s /\ l_params s' = l_params s.
Proof.
  intros H. assert (H' := H). unfold unlock_one in H'.
  destruct (l_val s !! a) as [v|] eqn:E; [|discriminate]. cbn [l_tok rank_remove set_rank] in H'.
  destruct (l_tok s !! t) as [tk|] eqn:Et; [|discriminate]. clear H'.
  destruct (unlock_one_when s now id a rc t req s' v tk H E Et) as (Q & U & P & _). cbv zeta in Q.
  split; [|split; assumption]. rewrite Q. intros k.
  match type of Q with _ = <[?w := _]> _ => set (when := w) in * end.
  destruct (decide (k = when)) as [->|Hne].
  - rewrite lookup_insert. cbn. eexists. split; [reflexivity|]. intros _.
    subst when. destruct (is_exiting _ _ _); auto.
  - rewrite lookup_insert_ne by congruence. exists []. split; [rewrite app_nil_r; reflexivity|congruence].
Qed.
Lemma unlock_all_appends now reqs : forall s s', unlock_all s now reqs = Ok s' ->
  appended now (l_params s) (l_unlockq s) (l_unlockq s') /\ l_q_unlocks s' = l_q_unlocks s /\ l_params s' = l_params s.
Proof.
  induction reqs as [|[[[[id a] rc] t] amt] r IH]; intros s s'; cbn [unlock_all].
  - intros [= <-]. split; [apply appended_refl|auto].
  - destruct (unlock_one s now id a rc t amt) as [s1| |] eqn:E; cbn [rbind]; try discriminate. intros H.
    destruct (unlock_one_appends _ _ _ _ _ _ _ _ E) as (A1 & U1 & P1). destruct (IH _ _ H) as (A2 & U2 & P2).
    split; [eapply appended_trans; [exact A1|rewrite <- P1; exact A2]|]. split; congruence.
Qed.

Lemma qs_eq s s' : qs s' = qs s -> l_unlockq s' = l_unlockq s /\ l_q_unlocks s' = l_q_unlocks s.
Proof. unfold qs. intros [= -> ->]. auto. Qed.

Theorem requests_evolution s now h q s' : process_requests s now h q = Ok s' ->
  appended now (l_params s) (l_unlockq s) (l_unlockq s') /\ l_q_unlocks s' = l_q_unlocks s.
Proof.
  unfold process_requests.
  destruct (update_reward_pool _ _ _ _) as [s1| |] eqn:E1; cbn [rbind]; try discriminate.
  destruct (update_tokens _ _ _) as [s2| |] eqn:E2; cbn [rbind]; try discriminate.
  destruct (create_all _ _) as [s3| |] eqn:E3; cbn [rbind]; try discriminate.
  destruct (lock_all _ _ _) as [s4| |] eqn:E4; cbn [rbind]; try discriminate.
  destruct (unlock_all _ _ _) as [s5| |] eqn:E5; cbn [rbind]; try discriminate.
  intros H.
  destruct (qs_eq _ _ (q_fold claim_one _ q_claim _ _ H)) as [C1 C2].
  destruct (unlock_all_appends _ _ _ _ E5) as (A & U & P).
  unfold lock_all in E4.
  assert (Q4 : qs s4 = qs s).
  { rewrite (q_lock_each _ _ _ _ E4), (q_create_all _ _ _ E3), (q_update_tokens _ _ _ _ E2). eapply q_pool; eauto. }
  assert (P4 : l_params s4 = l_params s).
  { rewrite (par_lock_each _ _ _ _ E4), (par_create_all _ _ _ E3), (par_update_tokens _ _ _ _ E2). eapply par_pool; eauto. }
  destruct (qs_eq _ _ Q4) as [Q41 Q42]. rewrite C1, C2, U, Q42. rewrite Q41, P4 in A. auto.
Qed.

(* ---- BeginBlocker: only matured entries are released ---- *)
Theorem begin_evolution s now h lim votes evs s' : begin_block s now h lim votes evs = Ok s' ->
  let ks := filter (fun k => k <=? now) (keys_sorted (l_unlockq s)) in
  l_q_unlocks s' = l_q_unlocks s ++ flat_map (fun k => default [] (l_unlockq s !! k)) ks /\
  l_unlockq s' = fold_left (fun m k => delete k m) ks (l_unlockq s) /\ Forall (fun k => k <= now) ks.
Proof.
  unfold begin_block. destruct (distribute_reward _ _ _) as [s1| |] eqn:E1; cbn [rbind]; try discriminate.
  destruct (fold_res _ votes _) as [s3| |] eqn:E3; cbn [rbind]; try discriminate.
  intros H. cbv zeta.
  destruct (qs_eq _ _ (q_fold (fun s e => handle_evidence s now h lim e) evs (fun x e y => q_handle_evidence x now h lim e y) _ _ H)) as [A1 A2].
  assert (B : qs s3 = qs (dequeue_mature s1 now)).
  { eapply (q_fold (fun s '(a, _, f) => handle_vote s now a f)); [|exact E3]. intros x [[a p] f] y. apply q_handle_vote. }
  destruct (qs_eq _ _ B) as [B1 B2]. destruct (qs_eq _ _ (q_distribute_reward _ _ _ _ E1)) as [D1 D2].
  destruct (dequeue_mature_spec s1 now) as (M1 & M2 & M3 & _). cbv zeta in M1, M2, M3.
  rewrite A1, A2, B1, B2, M1, M2, D1, D2. rewrite D1 in M3. auto.
Qed.

(* ---- every operation is one of the allowed moves ---- *)
Theorem queue_evolution s o :
  let s' := fst (lk_step s o) in
  match o with
  | KBegin now _ _ _ _ =>
      s' = s \/
      (let ks := filter (fun k => k <=? now) (keys_sorted (l_unlockq s)) in
       l_q_unlocks s' = l_q_unlocks s ++ flat_map (fun k => default [] (l_unlockq s !! k)) ks /\
       l_unlockq s' = fold_left (fun m k => delete k m) ks (l_unlockq s) /\ Forall (fun k => k <= now) ks)
  | KReq now _ _ => appended now (l_params s) (l_unlockq s) (l_unlockq s') /\ l_q_unlocks s' = l_q_unlocks s
  | KEnd | KAccount _ => l_unlockq s' = l_unlockq s /\ l_q_unlocks s' = l_q_unlocks s
  | KDequeue => l_unlockq s' = l_unlockq s /\ exists taken, l_q_unlocks s = taken ++ l_q_unlocks s' /\ (length taken <= N.to_nat c_MaxLockingTx)%nat
  end.
Proof.
  cbv zeta. destruct o; cbn [lk_step]; unfold deliver.
  - destruct (begin_block _ _ _ _ _ _) as [x| |] eqn:E; cbn; [right; eapply begin_evolution; eauto|left; reflexivity|left; reflexivity].
  - destruct (process_requests _ _ _ _) as [x| |] eqn:E; cbn; [eapply requests_evolution; eauto| |]; (split; [apply appended_refl|reflexivity]).
  - destruct (end_block s) as [[x u]| |] eqn:E; cbn; [apply qs_eq; eapply q_end_block; eauto| |]; auto.
  - destruct (dequeue_txs_spec s) as (_ & _ & Hu & _ & (_ & Hl) & Hq & _). cbv zeta in *.
    destruct (dequeue_txs s) as [x t]. cbn in *. split; [exact Hq|]. eexists. split; [exact Hu|exact Hl].
  - cbn. auto.
Qed.

(* ---- invariant over block-structured histories: inside the block begun at time t, every key still queued
   is later than t (so whatever is in the hand-over queue matured at or before the block that released it) ---- *)
Definition keys_after (t : Z) (q : gmap Z (list unlock)) : Prop := forall k us, q !! k = Some us -> us <> [] -> t < k.

Lemma fold_delete_lookup (ks : list Z) : forall (m : gmap Z (list unlock)) k,
  fold_left (fun m k => delete k m) ks m !! k = if bool_decide (k ∈ ks) then None else m !! k.
Proof.
  induction ks as [|k0 ks IH]; intros m k; cbn [fold_left].
  - rewrite bool_decide_eq_false_2; [reflexivity|]. intros H. inversion H.
  - rewrite IH. destruct (decide (k ∈ ks)) as [Hin|Hout].
    + rewrite !bool_decide_eq_true_2; [reflexivity|right; exact Hin|exact Hin].
    + rewrite (bool_decide_eq_false_2 _ Hout). destruct (decide (k = k0)) as [->|Hne].
      * rewrite lookup_delete. rewrite bool_decide_eq_true_2; [reflexivity|left].
      * rewrite lookup_delete_ne by congruence. rewrite bool_decide_eq_false_2; [reflexivity|]. intros H. inversion H; subst; tauto.
Qed.

Theorem begin_leaves_later_keys s now h lim votes evs s' :
  begin_block s now h lim votes evs = Ok s' -> keys_after now (l_unlockq s').
Proof.
  intros H. destruct (begin_evolution _ _ _ _ _ _ _ H) as (_ & Q & _). cbv zeta in Q. rewrite Q.
  intros k us Hk Hne. rewrite fold_delete_lookup in Hk.
  destruct (decide (k ∈ filter (fun k => k <=? now) (keys_sorted (l_unlockq s)))) as [Hin|Hout].
  - rewrite bool_decide_eq_true_2 in Hk by exact Hin. discriminate.
  - rewrite bool_decide_eq_false_2 in Hk by exact Hout.
    destruct (k <=? now) eqn:Le; [|lia]. exfalso. apply Hout.
    apply elem_of_list_In, filter_In. split; [|exact Le].
    unfold keys_sorted. apply elem_of_list_In. rewrite merge_sort_Permutation.
    apply elem_of_list_In, in_map_iff. exists (k, us). split; [reflexivity|]. apply elem_of_list_In, elem_of_map_to_list. exact Hk.
Qed.

Theorem requests_keep_later_keys s now h q s' :
  0 < lp_unlock_dur (l_params s) -> 0 < lp_exit_dur (l_params s) ->
  process_requests s now h q = Ok s' -> keys_after now (l_unlockq s) -> keys_after now (l_unlockq s').
Proof.
  intros Hu He H K. destruct (requests_evolution _ _ _ _ _ H) as (A & _).
  intros k us Hk Hne. destruct (A k) as (added & E & Hadd). rewrite Hk in E. cbn in E.
  destruct added as [|x added].
  - rewrite app_nil_r in E. destruct (l_unlockq s !! k) as [us0|] eqn:E0; cbn in E; [|congruence]. subst us0. eapply K; eauto.
  - destruct (Hadd ltac:(discriminate)) as [->| ->]; lia.
Qed.
