(* C05: every withdrawal gets exactly one terminal notice.  The execution layer is told "paid" (with the
   receipt) exactly for the withdrawals whose status is paid, "refund" exactly for the cancelled ones, and
   never twice: the two notice logs have no duplicates and are characterised by the statuses. *)
From stdpp Require Import gmap sorting.
From Goat Require Import Base.Prelude Gen.Consts Model.Merkle Model.BtcParams Model.Bridge Proofs.BridgeSeq Proofs.BridgeFrames
  Proofs.BridgeWithdrawals.
Local Open Scope N_scope.

Definition notices_ok (s : bstate) : Prop :=
  List.NoDup (g_paid s) /\ List.NoDup (g_refund s) /\
  (forall id, In id (g_paid s) <-> wd_status s id = 5) /\
  (forall id, In id (g_refund s) <-> wd_status s id = 4).

Lemma nodup_app_disjoint {A} (a b : list A) :
  List.NoDup a -> List.NoDup b -> (forall x, In x a -> In x b -> False) -> List.NoDup (a ++ b).
Proof.
  induction a as [|x a IH]; intros Na Nb D; cbn; [exact Nb|]. inversion Na; subst. constructor.
  - intros Hin. apply in_app_or in Hin. destruct Hin as [Hin|Hin]; [tauto|]. apply (D x); [left; reflexivity|exact Hin].
  - apply IH; auto. intros y Ha Hb. apply (D y); [right; exact Ha|exact Hb].
Qed.

(* the notice logs grow by [ids], which all move from status [from] to the terminal status [to] *)
Lemma notices_extend (log : list N) (ids : list N) (st st' : N -> N) (tgt from : N) :
  List.NoDup log -> (forall id, In id log <-> st id = tgt) ->
  List.NoDup ids -> (forall id, In id ids -> st id = from /\ st' id = tgt) ->
  (forall id, ~ In id ids -> (st' id = tgt <-> st id = tgt)) -> from <> tgt ->
  List.NoDup (log ++ ids) /\ (forall id, In id (log ++ ids) <-> st' id = tgt).
Proof.
  intros N1 H1 N2 Hin Hout Hne. split.
  - apply nodup_app_disjoint; auto. intros x Hl Hi. apply H1 in Hl. destruct (Hin x Hi) as [Hf _]. congruence.
  - intros id. rewrite in_app_iff. destruct (in_dec N.eq_dec id ids) as [Hi|Hn].
    + destruct (Hin id Hi) as [_ Ht]. tauto.
    + pose proof (Hout id Hn). pose proof (H1 id). tauto.
Qed.
(* a log that does not grow while the statuses it describes keep their terminal / non-terminal nature *)
Lemma notices_keep (log : list N) (st st' : N -> N) (tgt : N) :
  (forall id, In id log <-> st id = tgt) -> (forall id, st' id = tgt <-> st id = tgt) ->
  forall id, In id log <-> st' id = tgt.
Proof. intros H1 H2 id. rewrite H1, H2. reflexivity. Qed.

Section Notices.
Variable H : bytes -> bytes.
Variable chain_id : bytes.

Lemma finalize_loop_paid ids : forall s txid idx vals paid s' paid',
  finalize_loop s txid idx ids vals paid = Ok (s', paid') ->
  map fst paid' = map fst paid ++ ids /\ List.NoDup ids /\
  (forall id, In id ids -> wd_status s id = 2 /\ wd_status s' id = 5) /\
  (forall id, ~ In id ids -> wd_status s' id = wd_status s id).
Proof.
  induction ids as [|i r IH]; intros s txid idx vals paid s' paid' Hl; cbn in Hl.
  - inversion Hl; subst. rewrite app_nil_r. split; [reflexivity|]. split; [constructor|]. split; [intros id []|auto].
  - destruct (b_wd s !! i) as [w|] eqn:Ew; [|discriminate Hl].
    destruct (negb (w_status w =? 2)) eqn:Es; [discriminate Hl|].
    destruct (w_receipt w) as [rc|]; [|discriminate Hl].
    apply IH in Hl. destruct Hl as (M & ND & Hin & Hout).
    assert (Si : wd_status s i = 2) by (unfold wd_status; rewrite Ew; lia).
    assert (Hni : ~ In i r).
    { intros Hi. destruct (Hin i Hi) as [H2 _]. rewrite status_insert in H2. destruct (decide (i = i)); [cbn in H2; lia|congruence]. }
    split; [rewrite M, map_app, <- app_assoc; reflexivity|]. split; [constructor; assumption|]. split.
    + intros id [<-|Hi].
      * split; [exact Si|]. rewrite (Hout i Hni), status_insert. destruct (decide (i = i)); [reflexivity|congruence].
      * destruct (Hin id Hi) as [H2 H5]. split; [|exact H5]. rewrite status_insert in H2.
        destruct (decide (id = i)) as [->|]; [tauto|exact H2].
    + intros id Hn. assert (id <> i) by (intros ->; apply Hn; left; reflexivity).
      rewrite Hout by (intros Hi; apply Hn; right; exact Hi). rewrite status_insert. destruct (decide (id = i)); [congruence|reflexivity].
Qed.

Lemma cancel_loop_spec ids : forall s s', cancel_loop s ids = Ok s' ->
  List.NoDup ids /\ (forall id, In id ids -> wd_status s id = 3 /\ wd_status s' id = 4) /\
  (forall id, ~ In id ids -> wd_status s' id = wd_status s id).
Proof.
  induction ids as [|i r IH]; intros s s' Hl; cbn in Hl.
  - inversion Hl; subst. split; [constructor|]. split; [intros id []|auto].
  - destruct (b_wd s !! i) as [w|] eqn:Ew; [|discriminate Hl].
    destruct (negb (w_status w =? 3)) eqn:Es; [discriminate Hl|].
    apply IH in Hl. destruct Hl as (ND & Hin & Hout).
    assert (Si : wd_status s i = 3) by (unfold wd_status; rewrite Ew; lia).
    assert (Hni : ~ In i r).
    { intros Hi. destruct (Hin i Hi) as [H2 _]. rewrite status_insert in H2. destruct (decide (i = i)); [cbn in H2; lia|congruence]. }
    split; [constructor; assumption|]. split.
    + intros id [<-|Hi].
      * split; [exact Si|]. rewrite (Hout i Hni), status_insert. destruct (decide (i = i)); [reflexivity|congruence].
      * destruct (Hin id Hi) as [H2 H5]. split; [|exact H5]. rewrite status_insert in H2.
        destruct (decide (id = i)) as [->|]; [tauto|exact H2].
    + intros id Hn. assert (id <> i) by (intros ->; apply Hn; left; reflexivity).
      rewrite Hout by (intros Hi; apply Hn; right; exact Hi). rewrite status_insert. destruct (decide (id = i)); [congruence|reflexivity].
Qed.

Definition wid (r : N * N * N * N * option bytes) : N := let '(id, _, _, _, _) := r in id.
Definition rejected_of (l : list (N * N * N * N * option bytes)) : list N :=
  map (fun '(id, _, _, _, _) => id) (filter (fun '(_, _, _, _, sc) => negb (bool_decide (is_Some sc))) l).

Lemma withdraw_fold_spec l : forall s,
  List.NoDup (map (fun '(id, _, _, _, _) => id) l) ->
  (forall id, In id (map (fun '(id, _, _, _, _) => id) l) -> b_wd s !! id = None) ->
  List.NoDup (rejected_of l) /\
  (forall id, In id (rejected_of l) -> wd_status s id = 0 /\ wd_status (fold_left bridge_withdraw l s) id = 4) /\
  (forall id, ~ In id (rejected_of l) -> (wd_status (fold_left bridge_withdraw l s) id = wd_status s id \/ (wd_status s id = 0 /\ wd_status (fold_left bridge_withdraw l s) id = 1))).
Proof.
  induction l as [|[[[[i a] p] ad] sc] r IH]; intros s ND Hf; cbn [fold_left map] in *.
  - split; [constructor|]. split; [intros id []|auto].
  - inversion ND as [|? ? Hnin ND']; subst.
    set (s1 := bridge_withdraw s (i, a, p, ad, sc)).
    assert (Hf' : forall id0, In id0 (map (fun '(id1, _, _, _, _) => id1) r) -> b_wd s1 !! id0 = None).
    { intros id0 Hin. subst s1. unfold bridge_withdraw. cbn. rewrite lookup_insert_ne; [apply Hf; right; exact Hin|]. intros ->. apply Hnin. exact Hin. }
    destruct (IH s1 ND' Hf') as (NDr & Hin & Hout). clear IH.
    assert (S0 : wd_status s i = 0) by (unfold wd_status; rewrite (Hf i (or_introl eq_refl)); reflexivity).
    assert (S1 : forall id, wd_status s1 id = if decide (id = i) then (match sc with Some _ => 1 | None => 4 end) else wd_status s id).
    { intros id. subst s1. unfold bridge_withdraw. rewrite status_insert. destruct (decide (id = i)); reflexivity. }
    assert (Hir : ~ In i (rejected_of r)).
    { intros Hi. apply Hnin. unfold rejected_of in Hi. apply in_map_iff in Hi. destruct Hi as (x & Hx & Hfx).
      apply filter_In in Hfx. destruct Hfx as [Hfx _]. apply in_map_iff. exists x. split; [exact Hx|exact Hfx]. }
    (* i is not touched by the rest *)
    assert (Hkeep : wd_status (fold_left bridge_withdraw r s1) i = wd_status s1 i).
    { destruct (Hout i Hir) as [E|[E _]]; [exact E|]. rewrite S1 in E. destruct (decide (i = i)); [|congruence]. destruct sc; discriminate. }
    clearbody s1. unfold rejected_of in *. cbn [filter]. destruct sc as [b|]; cbn [negb bool_decide decide_rel]; cbn.
    + (* valid address: not rejected *)
      split; [exact NDr|]. split.
      * intros id Hi. destruct (Hin id Hi) as [H0 H4]. rewrite S1 in H0. destruct (decide (id = i)); [discriminate|]. auto.
      * intros id Hn. destruct (decide (id = i)) as [->|Hne].
        -- right. split; [exact S0|]. rewrite Hkeep, S1. destruct (decide (i = i)); [reflexivity|congruence].
        -- destruct (Hout id Hn) as [E|[E0 E1]]; rewrite S1 in *; destruct (decide (id = i)); try congruence; auto.
    + (* rejected *)
      split; [constructor; assumption|]. split.
      * intros id [<-|Hi].
        -- split; [exact S0|]. rewrite Hkeep, S1. destruct (decide (i = i)); [reflexivity|congruence].
        -- destruct (Hin id Hi) as [H0 H4]. rewrite S1 in H0. destruct (decide (id = i)); [discriminate|]. auto.
      * intros id Hn. assert (id <> i) by (intros ->; apply Hn; left; reflexivity).
        assert (Hn' : ~ In id (map (fun '(id0, _, _, _, _) => id0) (filter (fun '(_, _, _, _, sc) => negb (bool_decide (is_Some sc))) r)))
          by (intros Hi; apply Hn; right; exact Hi).
        destruct (Hout id Hn') as [E|[E0 E1]]; rewrite S1 in *; destruct (decide (id = i)); try congruence; auto.
Qed.

Lemma ntc_rbf s r s' : bridge_rbf s r = Ok s' -> ntc s' = ntc s.
Proof.
  destruct r as [i p]. unfold bridge_rbf. destruct (b_wd s !! i) as [w|]; [|discriminate].
  destruct (_ || _); intros [= <-]; reflexivity.
Qed.
Lemma ntc_cancel1 s i s' : bridge_cancel1 s i = Ok s' -> ntc s' = ntc s.
Proof.
  unfold bridge_cancel1. destruct (b_wd s !! i) as [w|]; [|discriminate].
  destruct (_ =? _); intros [= <-]; reflexivity.
Qed.

Theorem bk_step_notices s o : fresh_op s o -> notices_ok s -> notices_ok (fst (bk_step H chain_id s o)).
Proof.
  intros Hfresh (N1 & N2 & P & R).
  pose proof (wdp_frame H chain_id s o) as Hf. pose proof (ntc_frame H chain_id s o) as Hn.
  assert (Keep : forall s', ntc s' = ntc s -> (forall id, wd_status s' id = 5 <-> wd_status s id = 5) ->
                 (forall id, wd_status s' id = 4 <-> wd_status s id = 4) -> notices_ok s').
  { intros s' En K5 K4. unfold ntc in En. injection En as E1 E2. unfold notices_ok. rewrite E1, E2.
    split; [exact N1|]. split; [exact N2|]. split; [apply (notices_keep _ _ _ _ P K5)|apply (notices_keep _ _ _ _ R K4)]. }
  destruct o as [? ? ? ?|? ? ?|? ? ?|prop v tx parsed ids fee|prop v pid tx parsed fee|prop pid txid height txindex proof header|prop ids|? ? ? ?|q| |? ? ?|? ? ? ? ? ? ? ?|? ? ?|?];
    try (apply Keep; [exact Hn|intros id|intros id];
         (unfold wdp in Hf; match type of Hf with (?a, _, _) = _ => assert (Hw : a = b_wd s) by congruence end;
          rewrite (status_same_wd _ _ Hw); reflexivity)); clear Hf; cbn [bk_step] in *.
  - (* process: 1 / 3 -> 2 *)
    destruct (process_withdrawal H chain_id s prop v tx parsed ids fee) as [s'| |] eqn:E; cbn; try (apply Keep; [reflexivity|reflexivity|reflexivity]).
    assert (St : forall id, rel_loop 1 3 2 (wd_status s id) (wd_status s' id)).
    { intros id. unfold process_withdrawal, rbind in E. des E.
      match goal with Hv : verify_proposal _ _ _ _ _ _ _ = Ok (?b, _) |- _ =>
        pose proof (wdp_verify_proposal H chain_id _ _ _ _ _ _ _ Hv) as Hw; unfold wdp in Hw; match type of Hw with (?a, _, _) = (?b, _, _) => assert (Hw1 : a = b) by congruence end end.
      match goal with Hd : process_loop _ _ _ _ _ _ _ _ = Ok _ |- _ => pose proof (process_loop_status H _ _ _ _ _ _ _ _ _ _ Hd id) as Hp end.
      inversion E; subst. rewrite (status_same_wd _ _ Hw1) in Hp. exact Hp. }
    apply Keep; [exact Hn|intros id|intros id]; destruct (St id) as [->|(A & B & _)]; try reflexivity; destruct A; lia.
  - (* replace: no status change *)
    destruct (replace_withdrawal H chain_id s prop v pid tx parsed fee) as [s'| |] eqn:E; cbn; try (apply Keep; [reflexivity|reflexivity|reflexivity]).
    assert (St : forall id, wd_status s' id = wd_status s id).
    { intros id. unfold replace_withdrawal, rbind in E. des E.
      match goal with Hv : verify_proposal _ _ _ _ _ _ _ = Ok (?b, _) |- _ =>
        pose proof (wdp_verify_proposal H chain_id _ _ _ _ _ _ _ Hv) as Hw; unfold wdp in Hw; match type of Hw with (?a, _, _) = (?b, _, _) => assert (Hw1 : a = b) by congruence end end.
      match goal with Hd : replace_loop _ _ _ _ _ _ _ _ = Ok _ |- _ => pose proof (replace_loop_status H _ _ _ _ _ _ _ _ _ _ Hd id) as Hp end.
      inversion E; subst. rewrite (status_same_wd _ _ Hw1) in Hp. exact Hp. }
    apply Keep; [exact Hn|intros id|intros id]; rewrite St; reflexivity.
  - (* finalize: the ids of the processing entry go 2 -> 5 and are appended to the paid log *)
    destruct (finalize_withdrawal H s prop pid txid height txindex proof header) as [s'| |] eqn:E; cbn; try exact (conj N1 (conj N2 (conj P R))).
    unfold finalize_withdrawal, rbind in E. des E.
    match goal with Hv : verify_non_proposal _ _ = Ok ?b |- _ =>
      pose proof (wdp_verify_non_proposal _ _ _ Hv) as Hw; unfold wdp in Hw; match type of Hw with (?a, _, _) = (?b, _, _) => assert (Hw1 : a = b) by congruence end;
      pose proof (ntc_verify_non_proposal _ _ _ Hv) as Hnt; unfold ntc in Hnt; injection Hnt as Hp1 Hp2 end.
    match goal with Hd : finalize_loop ?b txid 0 ?idl ?vals [] = Ok (?b2, ?paid) |- _ =>
      destruct (finalize_loop_paid _ _ _ _ _ _ _ _ Hd) as (M & NDi & Hin & Hout);
      pose proof (ntc_finalize_loop _ _ _ _ _ _ _ _ Hd) as Hnl; unfold ntc in Hnl; injection Hnl as Hq1 Hq2 end.
    inversion E; subst. cbn in M. unfold notices_ok. cbn [g_paid g_refund set_queue set_wd].
    match goal with |- context [g_paid ?b2 ++ map fst ?paid] => rewrite M, Hq1, Hp1 end.
    match goal with |- context [List.NoDup (g_refund ?b2)] => rewrite Hq2, Hp2 end.
    match goal with Hd : finalize_loop ?b _ _ ?idl _ _ = Ok (?b2, _) |- _ =>
      destruct (notices_extend (g_paid s) idl (wd_status s) (wd_status b2) 5 2 N1 P NDi) as [A1 A2];
      [intros id Hi; rewrite <- (status_same_wd _ _ Hw1); apply Hin; exact Hi
      |intros id Hi; rewrite <- (status_same_wd _ _ Hw1); rewrite (Hout id Hi); reflexivity|lia|] end.
    split; [exact A1|]. split; [exact N2|]. split; [exact A2|].
    intros id. rewrite R.
    match goal with Hd : finalize_loop ?b _ _ ?idl _ _ = Ok (?b2, _) |- _ =>
      change (wd_status (set_wd _ _ _ _) id) with (wd_status b2 id);
      destruct (in_dec N.eq_dec id idl) as [Hi|Hni];
      [destruct (Hin id Hi) as [H2 H5]; rewrite (status_same_wd _ _ Hw1) in H2; rewrite H2, H5; split; intros; lia
      |rewrite (Hout id Hni), (status_same_wd _ _ Hw1); reflexivity] end.
  - (* cancel: the ids go 3 -> 4 and are appended to the refund log *)
    destruct (approve_cancellation s prop ids) as [s'| |] eqn:E; cbn; try exact (conj N1 (conj N2 (conj P R))).
    unfold approve_cancellation, rbind in E. des E.
    match goal with Hv : verify_non_proposal _ _ = Ok ?b |- _ =>
      pose proof (wdp_verify_non_proposal _ _ _ Hv) as Hw; unfold wdp in Hw; match type of Hw with (?a, _, _) = (?b, _, _) => assert (Hw1 : a = b) by congruence end;
      pose proof (ntc_verify_non_proposal _ _ _ Hv) as Hnt; unfold ntc in Hnt; injection Hnt as Hp1 Hp2 end.
    match goal with Hd : cancel_loop ?b ids = Ok ?b2 |- _ =>
      destruct (cancel_loop_spec _ _ _ Hd) as (NDi & Hin & Hout);
      pose proof (ntc_cancel_loop _ _ _ Hd) as Hnl; unfold ntc in Hnl; injection Hnl as Hq1 Hq2 end.
    inversion E; subst. unfold notices_ok. cbn [g_paid g_refund set_queue].
    rewrite Hq1, Hp1, Hq2, Hp2.
    match goal with Hd : cancel_loop ?b ids = Ok ?b2 |- _ =>
      destruct (notices_extend (g_refund s) ids (wd_status s) (wd_status b2) 4 3 N2 R NDi) as [A1 A2];
      [intros id Hi; rewrite <- (status_same_wd _ _ Hw1); apply Hin; exact Hi
      |intros id Hi; rewrite <- (status_same_wd _ _ Hw1); rewrite (Hout id Hi); reflexivity|lia|] end.
    split; [exact N1|]. split; [exact A1|]. split; [|exact A2].
    intros id. rewrite P.
    match goal with Hd : cancel_loop ?b ids = Ok ?b2 |- _ =>
      change (wd_status (set_queue _ _ _ _ _ _ _ _) id) with (wd_status b2 id);
      destruct (in_dec N.eq_dec id ids) as [Hi|Hni];
      [destruct (Hin id Hi) as [H2 H5]; rewrite (status_same_wd _ _ Hw1) in H2; rewrite H2, H5; split; intros; lia
      |rewrite (Hout id Hni), (status_same_wd _ _ Hw1); reflexivity] end.
  - (* request list: new withdrawals (absent -> pending / cancelled), fee bumps, cancel requests (1 -> 3) *)
    destruct (process_bridge_request s q) as [s'| |] eqn:E; cbn; try exact (conj N1 (conj N2 (conj P R))).
    unfold process_bridge_request, rbind in E.
    destruct (fold_res bridge_rbf _ _) as [s3| |] eqn:E3; try discriminate E.
    destruct (fold_res bridge_cancel1 _ _) as [s4| |] eqn:E4; try discriminate E.
    inversion E; subst. clear E.
    destruct Hfresh as [ND Hfr].
    destruct (withdraw_fold_spec _ s ND Hfr) as (NDr & Hin & Hout).
    set (s1 := fold_left bridge_withdraw (br_withdraws q) s) in *.
    fold (rejected_of (br_withdraws q)) in E3.
    set (rej := rejected_of (br_withdraws q)) in *.
    assert (N34 : ntc s4 = (g_paid s1, g_refund s1 ++ rej)).
    { rewrite (ntc_fold_res _ ntc_cancel1 _ _ _ E4), (ntc_fold_res _ ntc_rbf _ _ _ E3). reflexivity. }
    assert (N1s : ntc s1 = ntc s) by (subst s1; apply ntc_fold_left; intros x [[[[? ?] ?] ?] ?]; reflexivity).
    unfold ntc in N34, N1s. injection N34 as Q1 Q2. injection N1s as Q3 Q4.
    assert (St4 : forall id, rel_loop 1 1 3 (wd_status s1 id) (wd_status s4 id)).
    { intros id. pose proof (cancel1_status H _ _ _ E4 id) as H4. pose proof (rbf_status _ _ _ E3 id) as H3. rewrite H3 in H4. exact H4. }
    unfold notices_ok. cbn [g_paid g_refund set_bparams].
    change (g_paid (set_bparams s4 _)) with (g_paid s4). change (g_refund (set_bparams s4 _)) with (g_refund s4).
    rewrite Q1, Q2, Q3, Q4.
    assert (W : forall id, wd_status (set_bparams s4 (apply_preqs (b_params s4) (br_params q))) id = wd_status s4 id) by reflexivity.
    destruct (notices_extend (g_refund s) rej (wd_status s) (wd_status s4) 4 0 N2 R NDr) as [A1 A2].
    { intros id Hi. destruct (Hin id Hi) as [H0 H4]. split; [exact H0|]. destruct (St4 id) as [->|(A & B & _)]; [exact H4|destruct A; lia]. }
    { intros id Hi. destruct (Hout id Hi) as [Eq|[E0 E1]]; destruct (St4 id) as [Er|(A & B & C)];
        try (rewrite Er); try (rewrite Eq); try reflexivity; try (rewrite B; split; intros; try lia; destruct A; lia); try (rewrite E1, E0; split; intros; lia). }
    { lia. }
    (* the case "not rejected but changed" needs care: statuses 0->1->3 are not terminal; handled pointwise below *)
    split; [exact N1|]. split; [exact A1|]. split.
    + intros id. rewrite W, P. destruct (in_dec N.eq_dec id rej) as [Hi|Hni].
      * destruct (Hin id Hi) as [H0 H4]. destruct (St4 id) as [Er|(A & B & C)]; [rewrite Er, H4, H0; split; intros; lia|destruct A; lia].
      * destruct (Hout id Hni) as [Eq|[E0 E1]]; destruct (St4 id) as [Er|(A & B & C)]; try (rewrite Er); try (rewrite Eq); try reflexivity;
          try (rewrite B; split; intros; try lia; destruct A; lia); try (rewrite E1, E0; split; intros; lia).
    + intros id. rewrite W. exact (A2 id).
Qed.

Theorem notices_reachable ops : forall s,
  (forall s0 o, fresh_op s0 o) -> notices_ok s -> notices_ok (bk_run H chain_id s ops).
Proof.
  unfold bk_run. induction ops as [|o r IH]; intros s Hf Hn; cbn [fold_left]; [exact Hn|].
  apply IH; [exact Hf|]. apply bk_step_notices; [apply Hf|exact Hn].
Qed.
End Notices.
