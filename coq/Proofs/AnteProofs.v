From Goat Require Import Base.Prelude Model.Ante.
From Coq Require Import ZifyBool ZifyN.
Local Open Scope N_scope.

Lemma forallb_In {A} (f : A -> bool) l : forallb f l = true -> forall x, In x l -> f x = true.
Proof. intros H x Hx. rewrite forallb_forall in H. auto. Qed.

(* C10_admitted *)
Theorem admitted_sound md h t : admitted md h t = true ->
  a_memo_len t = 0 /\ a_nsigners t = 1 /\ (a_timeout t = 0 \/ h <= a_timeout t) /\ a_sig_ok t = true /\
  forall m, In m (a_msgs t) ->
    (is_relayer_module_msg (m_name m) = true /\ m_by_proposer m = true) \/
    (m_name m = eth_block_msg /\ (md = MProcess \/ md = MFinalize) /\ a_timeout t = h).
Proof.
  unfold admitted, guard. rewrite !andb_true_iff, orb_true_iff. intros ((((A & B) & C) & D) & E).
  repeat split; try lia; auto. intros m Hm. pose proof (forallb_In _ _ D m Hm) as Hk.
  unfold msg_ok in Hk. destruct md; try (left; unfold relayer_tx_only in Hk; apply andb_true_iff in Hk; exact Hk).
  - destruct (String.eqb (m_name m) eth_block_msg) eqn:Ee.
    + right. apply String.eqb_eq in Ee. repeat split; auto. lia.
    + left. unfold relayer_tx_only in Hk. apply andb_true_iff in Hk. exact Hk.
  - destruct (String.eqb (m_name m) eth_block_msg) eqn:Ee.
    + right. apply String.eqb_eq in Ee. repeat split; auto. lia.
    + left. unfold relayer_tx_only in Hk. apply andb_true_iff in Hk. exact Hk.
Qed.

(* the execution-block message is never admitted to the mempool *)
Theorem mempool_excludes_block_msg md h t m : (md = MCheck \/ md = MReCheck \/ md = MPrepare) ->
  In m (a_msgs t) -> m_name m = eth_block_msg -> admitted md h t = false.
Proof.
  intros Hmd Hin Hn. destruct (admitted md h t) eqn:E; [|reflexivity]. exfalso.
  apply admitted_sound in E. destruct E as (_ & _ & _ & _ & Hall). destruct (Hall m Hin) as [[Hr _]|(_ & Hm & _)].
  - rewrite Hn in Hr. vm_compute in Hr. discriminate.
  - destruct Hmd as [Hx|[Hx|Hx]]; subst md; destruct Hm; discriminate.
Qed.

(* a message that is neither bridge, relayer nor the block message is never admitted in any mode *)
Theorem never_class_rejected md h t m : In m (a_msgs t) -> classify (m_name m) = CNever -> admitted md h t = false.
Proof.
  intros Hin Hc. destruct (admitted md h t) eqn:E; [|reflexivity]. exfalso.
  apply admitted_sound in E. destruct E as (_ & _ & _ & _ & Hall). unfold classify in Hc.
  destruct (Hall m Hin) as [[Hr _]|(Hn & _)].
  - unfold is_relayer_module_msg in Hr. destruct (String.eqb (m_name m) eth_block_msg); [discriminate|].
    destruct (has_prefix "goat.bitcoin." (m_name m)); [discriminate|]. destruct (has_prefix "goat.relayer." (m_name m)); discriminate.
  - rewrite Hn in Hc. vm_compute in Hc. discriminate.
Qed.

(* converse of admitted_sound: the guard demands nothing beyond the listed conditions, so the
   characterisation is exact (an honest relayer transaction / block transaction is never turned away) *)
Theorem admitted_complete md h t :
  a_memo_len t = 0 -> a_nsigners t = 1 -> (a_timeout t = 0 \/ h <= a_timeout t) -> a_sig_ok t = true ->
  (forall m, In m (a_msgs t) ->
    (is_relayer_module_msg (m_name m) = true /\ m_by_proposer m = true) \/
    (m_name m = eth_block_msg /\ (md = MProcess \/ md = MFinalize) /\ a_timeout t = h)) ->
  admitted md h t = true.
Proof.
  intros A B C D E. unfold admitted, guard. rewrite D.
  assert (F : forallb (msg_ok md h t) (a_msgs t) = true).
  { apply forallb_forall. intros m Hm. specialize (E m Hm). unfold msg_ok, relayer_tx_only.
    assert (G : String.eqb (m_name m) eth_block_msg = true -> is_relayer_module_msg (m_name m) = false).
    { intros He. apply String.eqb_eq in He. rewrite He. vm_compute. reflexivity. }
    destruct E as [[E1 E2]|(E1 & E2 & E3)].
    - rewrite E1, E2. destruct md; try reflexivity;
        (destruct (String.eqb (m_name m) eth_block_msg); [specialize (G eq_refl); congruence|reflexivity]).
    - destruct E2 as [E2|E2]; subst md; rewrite E1; rewrite String.eqb_refl; lia. }
  rewrite F. lia.
Qed.
