(* C01 / C02: what an accepted voted proposal guarantees; sequence accounting. *)
From stdpp Require Import gmap sorting.
From Goat Require Import Base.Prelude Gen.Consts Model.Merkle Model.BtcParams Model.Bridge.
From Coq Require Import ZifyBool ZifyNat ZifyN.
Local Open Scope N_scope.
Ltac Zify.zify_post_hook ::= Z.div_mod_to_equations.

(* ---------- threshold ---------- *)
Lemma threshold_ceil n : 3 * threshold n >= 2 * (n + 1) /\ 2 * (n + 1) > 3 * (threshold n - 1).
Proof. unfold threshold. lia. Qed.

(* ---------- bitmap: popcount = number of marked positions ---------- *)
Definition marked (bm : bytes) (lo : N) (cnt : nat) : list N :=
  filter (fun i => bitmap_contains bm i) (map N.of_nat (seq (N.to_nat lo) cnt)).

Lemma popcount_byte_bits b : popcount_byte b = N.of_nat (length (filter (fun i => N.testbit b i) [0;1;2;3;4;5;6;7])).
Proof.
  unfold popcount_byte. cbn [filter].
  destruct (N.testbit b 0), (N.testbit b 1), (N.testbit b 2), (N.testbit b 3),
           (N.testbit b 4), (N.testbit b 5), (N.testbit b 6), (N.testbit b 7); reflexivity.
Qed.

Lemma bitmap_contains_beyond0 bm i : N.of_nat (length bm) * 8 <= i -> bitmap_contains bm i = false.
Proof.
  intros Hi. unfold bitmap_contains. rewrite nth_overflow; [apply N.bits_0|].
  assert (N.of_nat (length bm) <= i / 8) by (apply N.div_le_lower_bound; lia). lia.
Qed.

Lemma contains_cons b r i : bitmap_contains (b :: r) i = if i <? 8 then N.testbit b i else bitmap_contains r (i - 8).
Proof.
  unfold bitmap_contains. destruct (i <? 8) eqn:E.
  - assert (i / 8 = 0) as -> by (apply N.div_small; lia). cbn [N.to_nat nth].
    assert (i mod 8 = i) as -> by (apply N.mod_small; lia). reflexivity.
  - assert (N.to_nat (i / 8) = S (N.to_nat ((i - 8) / 8))) as -> by lia. cbn [nth].
    assert ((i - 8) mod 8 = i mod 8) as -> by lia. reflexivity.
Qed.

Lemma filter_map_length {A B} (f : B -> bool) (g : A -> B) l :
  length (filter f (map g l)) = length (filter (fun x => f (g x)) l).
Proof. induction l as [|x l IH]; cbn; [reflexivity|]. destruct (f (g x)); cbn; rewrite IH; reflexivity. Qed.

Lemma filter_ext_length {A} (f g : A -> bool) l : (forall x, In x l -> f x = g x) ->
  length (filter f l) = length (filter g l).
Proof.
  induction l as [|x l IH]; intros Hx; cbn; [reflexivity|].
  rewrite (Hx x (or_introl eq_refl)). destruct (g x); cbn; rewrite IH; auto; intros; apply Hx; right; auto.
Qed.

Lemma seq_shift8 k n : seq (8 + k) n = map (fun x => (8 + x)%nat) (seq k n).
Proof.
  revert k. induction n as [|n IHn]; intros k; cbn [seq map]; [reflexivity|].
  f_equal. replace (S (8 + k)) with (8 + S k)%nat by lia. apply IHn.
Qed.

Lemma count_marked bm : bitmap_count bm = N.of_nat (length (marked bm 0 (8 * length bm))).
Proof.
  induction bm as [|b r IH]; [reflexivity|].
  unfold bitmap_count in *. cbn [map sumN fold_right]. fold (sumN (map popcount_byte r)). rewrite IH.
  unfold marked. change (N.to_nat 0) with 0%nat.
  replace (8 * length (b :: r))%nat with (8 + 8 * length r)%nat by (cbn [length]; lia).
  rewrite seq_app, map_app, filter_app, app_length, Nat2N.inj_add. f_equal.
  - rewrite popcount_byte_bits. f_equal.
  - f_equal. change (0 + 8)%nat with 8%nat.
    change (seq 8 (8 * length r)) with (seq (8 + 0) (8 * length r)). rewrite (seq_shift8 0 (8 * length r)).
    rewrite map_map, !filter_map_length. apply filter_ext_length.
    intros x _. rewrite contains_cons.
    assert (N.of_nat (8 + x) <? 8 = false) as -> by lia. f_equal. lia.
Qed.

Lemma filter_nil_all {A} (f : A -> bool) l : filter f l = [] -> forall x, In x l -> f x = false.
Proof.
  induction l as [|y l IH]; cbn; intros Hf x Hx; [tauto|].
  destruct (f y) eqn:E; [discriminate|]. destruct Hx as [<-|Hx]; auto.
Qed.

(* if the number of marked positions below n equals the popcount, no bit at or above n is set *)
Lemma no_marks_beyond bm n :
  N.of_nat (length (marked bm 0 n)) = bitmap_count bm ->
  forall i, N.of_nat n <= i -> bitmap_contains bm i = false.
Proof.
  intros Hc i Hi. rewrite count_marked in Hc. apply Nat2N.inj in Hc.
  destruct (Nat.le_gt_cases (8 * length bm) n) as [Hle|Hlt].
  - apply bitmap_contains_beyond0. lia.
  - destruct (N.le_gt_cases (N.of_nat (length bm) * 8) i) as [Hb|Hb]; [apply bitmap_contains_beyond0; lia|].
    unfold marked in Hc. change (N.to_nat 0) with 0%nat in Hc.
    replace (8 * length bm)%nat with (n + (8 * length bm - n))%nat in Hc by lia.
    rewrite seq_app, map_app, filter_app, app_length in Hc.
    assert (Hz : filter (fun i => bitmap_contains bm i) (map N.of_nat (seq (0 + n) (8 * length bm - n))) = []).
    { apply length_zero_iff_nil. lia. }
    apply (filter_nil_all _ _ Hz). apply in_map_iff. exists (N.to_nat i). split; [lia|].
    apply in_seq. lia.
Qed.

Section Votes.
Variable H : bytes -> bytes.
Variable chain_id : bytes.
Notation verify_proposal := (verify_proposal H chain_id).
Notation vote_sign_doc := (vote_sign_doc H chain_id).

(* keys collected = keys of the voters at marked positions below the group size *)
Fixpoint marked_voters (bm : bytes) (i : N) (voters : list N) : list N :=
  match voters with
  | [] => []
  | a :: r => if bitmap_contains bm i then a :: marked_voters bm (i + 1) r else marked_voters bm (i + 1) r
  end.

Lemma collect_keys_spec s bm : forall voters i ks,
  collect_keys s bm i voters = Ok ks ->
  Forall2 (fun a k => exists vt, r_voter s !! a = Some vt /\ vt_key vt = k) (marked_voters bm i voters) ks.
Proof.
  induction voters as [|a r IH]; intros i ks Hc; cbn in *.
  - inversion Hc. constructor.
  - destruct (bitmap_contains bm i).
    + destruct (r_voter s !! a) as [vt|] eqn:E; [|discriminate].
      destruct (collect_keys s bm (i + 1) r) as [ks'| |] eqn:E2; cbn in Hc; try discriminate.
      inversion Hc; subst. constructor; [eauto | apply IH; auto].
    + apply IH; auto.
Qed.

Lemma marked_voters_sub bm : forall voters i, sublist (marked_voters bm i voters) voters.
Proof.
  induction voters as [|a r IH]; intros i; cbn; [constructor|].
  destruct (bitmap_contains bm i); [apply sublist_skip | apply sublist_cons]; apply IH.
Qed.

Lemma marked_voters_length bm : forall voters i,
  length (marked_voters bm i voters) = length (marked bm i (length voters)).
Proof.
  induction voters as [|a r IH]; intros i; cbn [marked_voters length]; [reflexivity|].
  unfold marked. cbn [seq map filter]. rewrite N2Nat.id.
  specialize (IH (i + 1)). unfold marked in IH.
  replace (N.to_nat (i + 1)) with (S (N.to_nat i)) in IH by lia.
  destruct (bitmap_contains bm i); cbn [length]; rewrite IH; reflexivity.
Qed.

(* What acceptance guarantees (C01_quorum) *)
Theorem verify_proposal_sound s proposer v method data s' seq :
  verify_proposal s proposer v method data = Ok (s', seq) ->
  proposer = r_proposer s /\ vo_seq v = r_seq s /\ vo_epoch v = r_epoch s /\ seq = r_seq s /\
  s' = set_accepted s true /\
  exists pv ks,
    r_voter s !! r_proposer s = Some pv /\
    let S := marked_voters (vo_bitmap v) 0 (r_voters s) in
    (* the keys used are those of distinct-position current voters, one per marked bit *)
    Forall2 (fun a k => exists vt, r_voter s !! a = Some vt /\ vt_key vt = k) S ks /\
    sublist S (r_voters s) /\
    N.of_nat (length S) = bitmap_count (vo_bitmap v) /\
    (* the aggregate verifies over exactly this action, payload, chain, epoch, sequence, proposer *)
    agg_verify (vt_key pv :: ks)
      (vote_sign_doc method (default [] (r_book s !! r_proposer s)) (r_seq s) (r_epoch s) data) (vo_sig v) = true /\
    (* proposer plus those voters reach the two-thirds threshold *)
    1 + N.of_nat (length S) >= threshold (N.of_nat (length (r_voters s))).
Proof.
  unfold Bridge.verify_proposal. intros Hv.
  destruct (negb (proposer =? r_proposer s)) eqn:E1; [discriminate|].
  destruct (negb (vo_seq v =? r_seq s)) eqn:E2; [discriminate|].
  destruct (negb (vo_epoch v =? r_epoch s)) eqn:E3; [discriminate|].
  destruct (negb (N.of_nat (length (vo_bitmap v)) mod 8 =? 0)) eqn:E4; [discriminate|].
  destruct ((bitmap_count (vo_bitmap v) + 1 <? threshold (N.of_nat (length (r_voters s))))
            || (N.of_nat (length (r_voters s)) <? bitmap_count (vo_bitmap v))) eqn:E5; [discriminate|].
  destruct (r_voter s !! r_proposer s) as [pv|] eqn:Ep; [|discriminate].
  destruct (collect_keys s (vo_bitmap v) 0 (r_voters s)) as [ks| |] eqn:Ek; cbn in Hv; try discriminate.
  destruct (negb (N.of_nat (length ks) =? bitmap_count (vo_bitmap v))) eqn:E6; [discriminate|].
  destruct (negb (agg_verify _ _ _)) eqn:E7; [discriminate|].
  inversion Hv; subst; clear Hv.
  pose proof (collect_keys_spec _ _ _ _ _ Ek) as HF.
  assert (Hlen : length (marked_voters (vo_bitmap v) 0 (r_voters s)) = length ks) by (eapply Forall2_length; eauto).
  repeat split; try lia.
  exists pv, ks. cbv zeta. repeat split; auto.
  - apply marked_voters_sub.
  - rewrite Hlen. lia.
  - destruct (agg_verify _ _ _); [reflexivity | discriminate].
  - rewrite Hlen. lia.
Qed.

(* marks cannot stand in for signatures: an accepted vote has no bit set at or beyond the group size *)
Theorem accepted_marks_denote_voters s proposer v method data s' seq :
  verify_proposal s proposer v method data = Ok (s', seq) ->
  forall i, N.of_nat (length (r_voters s)) <= i -> bitmap_contains (vo_bitmap v) i = false.
Proof.
  intros Hv. apply verify_proposal_sound in Hv.
  destruct Hv as (_ & _ & _ & _ & _ & pv & ks & _ & _ & _ & Hcnt & _).
  cbv zeta in Hcnt. rewrite marked_voters_length in Hcnt.
  apply no_marks_beyond. exact Hcnt.
Qed.

End Votes.
