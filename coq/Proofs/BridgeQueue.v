(* C06 (bitcoin side): hand-over is FIFO, capped, consecutively numbered; voted hashes are gap-free and append-only. *)
From stdpp Require Import gmap sorting.
From Goat Require Import Base.Prelude Gen.Consts Model.Merkle Model.BtcParams Model.Bridge Proofs.BridgeSeq Proofs.BridgeFrames.
From Coq Require Import ZifyBool ZifyNat ZifyN.
Local Open Scope N_scope.

Definition btx_nonce (t : btx) : N :=
  match t with TxHash n _ | TxDeposit n _ | TxPaid n _ _ | TxReject n _ => n end.

Lemma number_from_nonces {A} (f : N -> A -> btx) (Hf : forall n x, btx_nonce (f n x) = n) l : forall n,
  map btx_nonce (number_from f n l) = map (fun i => n + N.of_nat i) (seq 0 (length l)).
Proof.
  induction l as [|x r IH]; intros n; cbn [number_from map length seq]; [reflexivity|].
  rewrite Hf, IH, <- seq_shift, map_map. f_equal; [lia|]. apply map_ext. intros i. lia.
Qed.

Lemma number_from_length {A} (f : N -> A -> btx) l : forall n, length (number_from f n l) = length l.
Proof. induction l; intros; cbn; auto. Qed.

(* exact shape of one hand-over *)
Theorem dequeue_spec s s' txs : dequeue_btc s = Ok (s', txs) ->
  let nd := N.to_nat c_MaxDeposit in let nw := N.to_nat c_MaxWithdrawal in
  exists t1 cur,
    (t1 = [] /\ cur = b_cursor s \/
     exists h, b_cursor s < b_tip s /\ b_hashes s !! (b_cursor s + 1) = Some h /\ t1 = [TxHash (b_nonce s) h] /\ cur = b_cursor s + 1) /\
    let ds := firstn nd (b_qdep s) in let ps := firstn nw (b_qpaid s) in
    let rs := firstn (nw - length ps) (b_qrej s) in
    let n1 := b_nonce s + N.of_nat (length t1) in
    let n2 := n1 + N.of_nat (length ds) in let n3 := n2 + N.of_nat (length ps) in
    txs = t1 ++ number_from TxDeposit n1 ds ++ number_from (fun n '(id, r) => TxPaid n id r) n2 ps ++ number_from TxReject n3 rs /\
    (txs = [] -> s' = s) /\
    (txs <> [] ->
      b_nonce s' = b_nonce s + N.of_nat (length txs) /\ b_cursor s' = cur /\
      b_qdep s = ds ++ b_qdep s' /\ b_qpaid s = ps ++ b_qpaid s' /\ b_qrej s = rs ++ b_qrej s') /\
    (length t1 <= 1 /\ length ds <= nd /\ length ps + length rs <= nw)%nat.
Proof.
  unfold dequeue_btc. intros Hd. cbv zeta. cbv zeta in Hd.
  remember (N.to_nat c_MaxDeposit) as nd eqn:End. remember (N.to_nat c_MaxWithdrawal) as nw eqn:Enw. clear End Enw.
  destruct (b_cursor s <? b_tip s) eqn:Ec.
  - destruct (b_hashes s !! (b_cursor s + 1)) as [h|] eqn:Eh; [|discriminate Hd].
    cbn [negb] in Hd. cbv iota beta in Hd.
    apply N.ltb_lt in Ec.
    exists [TxHash (b_nonce s) h], (b_cursor s + 1). split; [right; exists h; split; [exact Ec|]; split; [reflexivity|]; split; reflexivity|].
    match type of Hd with (match ?x with _ => _ end) = _ => destruct x eqn:Et; [discriminate Et|] end.
    inversion Hd; subst; clear Hd. cbn [b_nonce b_cursor b_qdep b_qpaid b_qrej set_queue].
    split; [reflexivity|]. split; [intros Hx; rewrite <- Et in Hx; discriminate Hx|]. split.
    + intros _. rewrite <- Et. rewrite !app_length, !number_from_length. cbn [length].
      rewrite !firstn_skipn. repeat split; try reflexivity; lia.
    + cbn [length]. rewrite !firstn_length. repeat split; lia.
  - cbv iota beta in Hd.
    exists [], (b_cursor s). split; [left; auto|].
    match type of Hd with (match ?x with _ => _ end) = _ => destruct x eqn:Et end.
    + inversion Hd; subst; clear Hd. cbn [app length] in *.
      split; [reflexivity|]. split; [reflexivity|]. split; [intros Hx; congruence|].
      rewrite !firstn_length. repeat split; lia.
    + inversion Hd; subst; clear Hd. cbn [b_nonce b_cursor b_qdep b_qpaid b_qrej set_queue app length] in *.
      split; [reflexivity|]. split; [intros Hx; discriminate Hx|]. split.
      * intros _. apply (f_equal (@length btx)) in Et. rewrite !app_length, !number_from_length in Et. cbn [length] in Et.
        rewrite !firstn_skipn. repeat split; try reflexivity; lia.
      * rewrite !firstn_length. repeat split; lia.
Qed.

(* ---------- voted block hashes: gap-free, append-only ---------- *)
Definition chain_ok (lo : N) (s : bstate) : Prop :=
  lo <= b_tip s /\ lo <= b_cursor s <= b_tip s /\ forall h, is_Some (b_hashes s !! h) <-> lo <= h <= b_tip s.

Lemma hashes_fold hashes : forall (t : N) (m : gmap N bytes),
  let '(t', m') := fold_left (fun '(t, m) (h : bytes) => (t + 1, <[t + 1 := h]> m)) hashes (t, m) in
  t' = t + N.of_nat (length hashes) /\
  (forall h, h <= t -> m' !! h = m !! h) /\
  (forall h, is_Some (m' !! h) <-> is_Some (m !! h) \/ t < h <= t').
Proof.
  induction hashes as [|x r IH]; intros t m; cbn [fold_left length].
  - split; [lia|]. split; [auto|]. intros h. split; [auto|]. intros [A|A]; [auto|lia].
  - specialize (IH (t + 1) (<[t + 1 := x]> m)).
    destruct (fold_left _ r (t + 1, <[t + 1 := x]> m)) as [t' m']. destruct IH as (A & B & C).
    split; [lia|]. split.
    + intros h Hh. rewrite B by lia. apply lookup_insert_ne. lia.
    + intros h. rewrite C. destruct (decide (h = t + 1)) as [->|Hne].
      * rewrite lookup_insert. split; [intros _; right; lia | intros _; left; eauto].
      * rewrite lookup_insert_ne by congruence. split; intros [D|D]; auto; right; lia.
Qed.

Section Chain.
Variable H : bytes -> bytes.
Variable chain_id : bytes.

Theorem chain_step lo s o : chain_ok lo s ->
  chain_ok lo (fst (bk_step H chain_id s o)) /\
  (forall h x, b_hashes s !! h = Some x -> b_hashes (fst (bk_step H chain_id s o)) !! h = Some x) /\
  b_tip s <= b_tip (fst (bk_step H chain_id s o)).
Proof.
  intros (Hlo & Hcur & Hdom).
  pose proof (chp_frame H chain_id s o) as Hf. pose proof (cup_frame H chain_id s o) as Hq.
  assert (Hsame : forall s', b_tip s' = b_tip s -> b_hashes s' = b_hashes s -> lo <= b_cursor s' <= b_tip s ->
             chain_ok lo s' /\ (forall h x, b_hashes s !! h = Some x -> b_hashes s' !! h = Some x) /\ b_tip s <= b_tip s').
  { intros s' E1 E2 E3. unfold chain_ok. rewrite E1, E2. split; [split; [exact Hlo|]; split; [exact E3|exact Hdom]|]. split; [auto|lia]. }
  destruct o as [prop v start hashes|? ? ?|? ? ?|? ? ? ? ? ?|? ? ? ? ? ?|? ? ? ? ? ? ?|? ?|? ? ? ?|?| |? ? ?|? ? ? ? ? ? ? ?|? ? ?|?];
    try (match type of Hf with _ = _ => idtac end; match type of Hq with _ = _ => idtac end;
         unfold chp in Hf; unfold cup in Hq; apply Hsame; [congruence | congruence |];
         match goal with |- _ <= b_cursor ?x <= _ => replace (b_cursor x) with (b_cursor s) by congruence end; exact Hcur).
  - (* new block hashes *)
    clear Hf Hq. cbn [bk_step].
    destruct (new_block_hashes H chain_id s prop v start hashes) as [s'| |] eqn:E; cbn [deliver_b fst];
      try solve [apply Hsame; auto].
    unfold new_block_hashes, rbind in E. des E.
    match goal with Hv : verify_proposal _ _ _ _ _ _ _ = Ok (?b, _) |- _ =>
      pose proof (chp_verify_proposal H chain_id _ _ _ _ _ _ _ Hv) as Hc; unfold chp in Hc;
      pose proof (cup_verify_proposal H chain_id _ _ _ _ _ _ _ Hv) as Hqq; unfold cup in Hqq;
      assert (Ht : b_tip b = b_tip s) by congruence; assert (Hh : b_hashes b = b_hashes s) by congruence;
      assert (Hc2 : b_cursor b = b_cursor s) by congruence end.
    pose proof (hashes_fold hashes (b_tip b) (b_hashes b)) as Hfold.
    destruct (fold_left _ hashes (b_tip b, b_hashes b)) as [t' m'] eqn:Efold.
    destruct Hfold as (A & B & C). inversion E; subst; clear E.
    cbn [b_tip b_cursor b_hashes finish_vote set_seq_randao set_chain]. rewrite Ht, Hh, Hc2 in *.
    split; [|split].
    + unfold chain_ok. cbn [b_tip b_cursor b_hashes finish_vote set_seq_randao set_chain]. rewrite ?Ht, ?Hh, ?Hc2. split; [lia|]. split; [lia|].
      intros h. rewrite C, Hdom. lia.
    + intros h x Hx. rewrite B; [exact Hx|]. pose proof (proj1 (Hdom h) (ex_intro _ x Hx)). lia.
    + lia.
  - (* dequeue: cursor moves by at most one, towards the tip *)
    clear Hq. cbn [bk_step].
    destruct (dequeue_btc s) as [[s' t]| |] eqn:E; cbn [fst]; try solve [apply Hsame; auto].
    pose proof (chp_frame H chain_id s BDequeue) as Hc. cbn [bk_step] in Hc. rewrite E in Hc. cbn [fst] in Hc. unfold chp in Hc.
    apply dequeue_spec in E. cbv zeta in E. destruct E as (t1 & cur & Hcase & Htx & Hnil & Hcons & _).
    assert (Hcu : lo <= b_cursor s' <= b_tip s).
    { destruct t as [|x t].
      - rewrite (Hnil eq_refl). exact Hcur.
      - destruct (Hcons ltac:(discriminate)) as (_ & Hcu & _). rewrite Hcu.
        destruct Hcase as [[_ ->]|(h & Hlt & _ & _ & ->)]; lia. }
    apply Hsame; [congruence | congruence | exact Hcu].
Qed.

Theorem chain_history lo ops : forall s, chain_ok lo s ->
  chain_ok lo (bk_run H chain_id s ops) /\
  (forall h x, b_hashes s !! h = Some x -> b_hashes (bk_run H chain_id s ops) !! h = Some x).
Proof.
  unfold bk_run. induction ops as [|o r IH]; intros s Hs; cbn [fold_left]; [auto|].
  destruct (chain_step lo s o Hs) as (A & B & _). destruct (IH _ A) as (C & D). split; auto.
Qed.

(* hand-over of block hashes never fails on a gap-free chain *)
Theorem dequeue_total lo s : chain_ok lo s -> exists s' t, dequeue_btc s = Ok (s', t).
Proof.
  intros (Hlo & Hcur & Hdom). unfold dequeue_btc.
  destruct (b_cursor s <? b_tip s) eqn:Ec.
  - destruct (proj2 (Hdom (b_cursor s + 1)) ltac:(lia)) as [h Hh]. rewrite Hh. cbn [negb]. cbv iota beta.
    match goal with |- context [match ?x with [] => _ | _ => _ end] => destruct x end; eauto.
  - cbv iota beta. match goal with |- context [match ?x with [] => _ | _ => _ end] => destruct x end; eauto.
Qed.

End Chain.
