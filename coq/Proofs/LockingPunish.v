(* C14: downtime / double-sign punishment: step characterisations and tombstone permanence. *)
From stdpp Require Import gmap sorting.
From Goat Require Import Base.Prelude Gen.Consts Model.Locking Proofs.LockingLedger Proofs.LockingRewards.
Local Open Scope Z_scope.

Definition tomb_pt (m m' : gmap N validator) : Prop :=
  forall a v, m !! a = Some v -> v_status v = Tombstoned ->
  exists v', m' !! a = Some v' /\ v_status v' = Tombstoned.

Lemma tomb_pt_refl m : tomb_pt m m.
Proof. intros a v H T. eauto. Qed.
Lemma tomb_pt_trans m1 m2 m3 : tomb_pt m1 m2 -> tomb_pt m2 m3 -> tomb_pt m1 m3.
Proof. intros A B a v H T. destruct (A a v H T) as (v' & H' & T'). eapply B; eauto. Qed.

Lemma rew_pt_tomb m m' : rew_pt m m' -> tomb_pt m m'.
Proof.
  intros [P D] a v H T. destruct (D a v H) as [v' H']. exists v'. split; [exact H'|].
  specialize (P a v' H'). rewrite H in P. destruct P as (_ & _ & K). auto.
Qed.

Lemma rew_same_tomb s s' : rew_same s s' -> tomb_pt (l_val s) (l_val s').
Proof. intros (_ & _ & _ & _ & _ & _ & _ & P & _). apply rew_pt_tomb, P. Qed.

Lemma tomb_pt_insert m a v v' : m !! a = Some v -> (v_status v = Tombstoned -> v_status v' = Tombstoned) ->
  tomb_pt m (<[a := v']> m).
Proof.
  intros Ev K b w Hb T. destruct (decide (b = a)) as [->|Hne].
  - exists v'. rewrite lookup_insert. split; [reflexivity|]. apply K. congruence.
  - exists w. rewrite lookup_insert_ne by congruence. auto.
Qed.

Lemma claim_one_tomb s r s' : claim_one s r = Ok s' -> tomb_pt (l_val s) (l_val s').
Proof.
  destruct r as [[id a] rc]. unfold claim_one. destruct (l_val s !! a) as [v|] eqn:Ev; [|discriminate].
  intros H; inversion H; subst. cbn. eapply tomb_pt_insert; eauto.
Qed.

Lemma distribute_tomb votes : forall s gas goat total rg rr s' g r,
  distribute s gas goat total rg rr votes = Ok (s', g, r) -> tomb_pt (l_val s) (l_val s').
Proof.
  induction votes as [|[a p] vs IH]; intros s gas goat total rg rr s' g r H; cbn in H.
  - inversion H; apply tomb_pt_refl.
  - destruct (l_val s !! a) as [v|] eqn:Ev; [|discriminate].
    eapply tomb_pt_trans; [|eapply IH; eauto]. cbn. eapply tomb_pt_insert; eauto.
Qed.

Lemma fold_res_tomb {B} (f : lstate -> B -> res lstate) (Hf : forall s b s', f s b = Ok s' -> tomb_pt (l_val s) (l_val s')) :
  forall l s s', fold_res f l s = Ok s' -> tomb_pt (l_val s) (l_val s').
Proof.
  induction l as [|b r IH]; intros s s' H; cbn in H.
  - inversion H; apply tomb_pt_refl.
  - destruct (f s b) eqn:E; cbn in H; try discriminate.
    eapply tomb_pt_trans; [eapply Hf; eauto | eapply IH; eauto].
Qed.

Lemma lk_step_tomb s o : tomb_pt (l_val s) (l_val (fst (lk_step s o))).
Proof.
  destruct o as [now h lim votes evs|now h q| | |a]; cbn [lk_step].
  - destruct (begin_block s now h lim votes evs) as [s'| |] eqn:E; cbn; try apply tomb_pt_refl.
    unfold begin_block in E.
    destruct (distribute_reward s h _) as [s1| |] eqn:E1; cbn in E; try discriminate.
    destruct (fold_res _ votes _) as [s3| |] eqn:E3; cbn in E; try discriminate.
    assert (T1 : tomb_pt (l_val s) (l_val s1)).
    { unfold distribute_reward in E1. destruct (h <? 2); [inversion E1; apply tomb_pt_refl|].
      destruct (sumZ _ =? 0); [discriminate|].
      destruct (distribute _ _ _ _ _ _ _) as [[[s2 g] r]| |] eqn:Ed; cbn in E1; try discriminate.
      inversion E1; subst. cbn. eapply distribute_tomb; eauto. }
    eapply tomb_pt_trans; [exact T1|].
    eapply tomb_pt_trans; [apply rew_same_tomb, dequeue_mature_rs|].
    eapply tomb_pt_trans.
    + eapply (fold_res_tomb (fun s '(a, _, f) => handle_vote s now a f)); [|exact E3].
      intros ? [[? ?] ?] ? Hx. apply rew_same_tomb. eapply handle_vote_rs; exact Hx.
    + eapply (fold_res_tomb (fun s e => handle_evidence s now h lim e)); [|exact E].
      intros ? ? ? Hx. apply rew_same_tomb. eapply handle_evidence_rs; exact Hx.
  - destruct (process_requests s now h q) as [s'| |] eqn:E; cbn; try apply tomb_pt_refl.
    unfold process_requests in E.
    destruct (update_reward_pool _ _ _ _) as [s1| |] eqn:E1; cbn in E; try discriminate.
    destruct (update_tokens _ _ _) as [s2| |] eqn:E2; cbn in E; try discriminate.
    destruct (create_all _ _) as [s3| |] eqn:E3; cbn in E; try discriminate.
    destruct (lock_all _ _ _) as [s4| |] eqn:E4; cbn in E; try discriminate.
    destruct (unlock_all _ _ _) as [s5| |] eqn:E5; cbn in E; try discriminate.
    assert (T1 : tomb_pt (l_val s) (l_val s1)).
    { unfold update_reward_pool in E1. destruct (q_gas q) as [|g [|]]; try discriminate. inversion E1; subst. apply tomb_pt_refl. }
    eapply tomb_pt_trans; [exact T1|].
    eapply tomb_pt_trans; [apply rew_same_tomb; eapply update_tokens_rs; eauto|].
    eapply tomb_pt_trans; [apply rew_same_tomb; eapply create_all_rs; eauto|].
    eapply tomb_pt_trans; [apply rew_same_tomb; eapply lock_each_rs; eauto|].
    eapply tomb_pt_trans; [apply rew_same_tomb; eapply unlock_all_rs; eauto|].
    eapply (fold_res_tomb claim_one); [apply claim_one_tomb | exact E].
  - destruct (end_block s) as [[s' u]| |] eqn:E; cbn; try apply tomb_pt_refl.
    unfold end_block in E.
    destruct (end_walk _ _ _ _ _) as [[[s1 rest] u1]| |] eqn:Ew; cbn in E; try discriminate.
    eapply tomb_pt_trans; [apply rew_same_tomb; eapply end_walk_rs; eauto|].
    apply rew_same_tomb; eapply end_remove_rs; eauto.
  - unfold dequeue_txs. destruct (l_q_rewards s), (l_q_unlocks s); cbn; apply tomb_pt_refl.
  - cbn. apply tomb_pt_refl.
Qed.

Theorem tombstone_forever ops : forall s a v, l_val s !! a = Some v -> v_status v = Tombstoned ->
  exists v', l_val (lk_run s ops) !! a = Some v' /\ v_status v' = Tombstoned.
Proof.
  unfold lk_run. induction ops as [|o r IH]; intros s a v H T; cbn [fold_left]; [eauto|].
  destruct (lk_step_tomb s o a v H T) as (v' & H' & T'). eapply IH; eauto.
Qed.

(* ---------- step characterisations ---------- *)
(* a vote record for a validator that is not active changes nothing *)
Lemma handle_vote_not_active s now a absent v :
  l_val s !! a = Some v -> v_status v <> Active -> handle_vote s now a absent = Ok s.
Proof.
  intros Ev Hn. unfold handle_vote. rewrite Ev.
  rewrite bool_decide_eq_false_2 by exact Hn. reflexivity.
Qed.

(* holdings after a slash, per token *)
Fixpoint found_net (frac : Z) (l : list (N * Z)) (t : N) : Z :=
  match l with
  | [] => 0
  | (t', x) :: r => if decide (t' = t) then x - slash_amount x frac else found_net frac r t
  end.

Lemma found_net_notin frac l t : t ∉ map fst l -> found_net frac l t = 0.
Proof.
  induction l as [|[t' x] r IH]; cbn; intros H; [reflexivity|].
  apply not_elem_of_cons in H. destruct H as [H1 H2].
  destruct (decide (t' = t)); [congruence|]. apply IH; exact H2.
Qed.

Lemma found_net_in frac l t x : base.NoDup (map fst l) -> (t, x) ∈ l -> found_net frac l t = x - slash_amount x frac.
Proof.
  induction l as [|[t' x'] r IH]; cbn; intros ND H; [inversion H|].
  inversion ND as [|? ? Hnin ND']; subst.
  apply elem_of_cons in H. destruct H as [H|H].
  - inversion H; subst. destruct (decide (t' = t')); congruence.
  - destruct (decide (t' = t)) as [->|]; [|apply IH; auto].
    exfalso. apply Hnin. apply elem_of_list_fmap. exists (t, x). auto.
Qed.

Lemma slash_fold_hold frac a l : base.NoDup (map fst l) -> forall acc,
  (forall t x, (t, x) ∈ l -> snd acc !! t = None) ->
  forall t, amount_of (snd (fold_left (slash_step a frac) l acc)) t = amount_of (snd acc) t + found_net frac l t.
Proof.
  induction l as [|[t0 x0] r IH]; intros ND acc Hfresh t; cbn [fold_left found_net]; [lia|].
  inversion ND as [|? ? Hnin ND']; subst.
  rewrite (IH ND' (slash_step a frac acc (t0, x0))).
  - unfold slash_step at 1. cbn [fst snd]. rewrite amount_of_put.
    destruct (decide (t0 = t)) as [->|Hne].
    + destruct (decide (t = t)); [|congruence]. rewrite (found_net_notin frac r t) by exact Hnin.
      unfold amount_of. rewrite (Hfresh t x0); [cbn; lia|left].
    + destruct (decide (t = t0)); [congruence|]. reflexivity.
  - intros t1 x Hin. unfold slash_step. cbn [snd fst]. unfold put_amount. destruct (_ =? 0).
    + destruct (decide (t1 = t0)) as [->|]; [apply lookup_delete|]. rewrite lookup_delete_ne by congruence. eapply Hfresh; right; eauto.
    + destruct (decide (t1 = t0)) as [->|].
      * exfalso. apply Hnin. apply elem_of_list_fmap. exists (t0, x). auto.
      * rewrite lookup_insert_ne by congruence. eapply Hfresh; right; eauto.
Qed.

Lemma slash_holdings_hold s a h frac t :
  amount_of (snd (slash_holdings s a h frac)) t =
  match h !! t with Some x => x - slash_amount x frac | None => 0 end.
Proof.
  unfold slash_holdings.
  rewrite (slash_fold_hold frac a (map_to_list h) (NoDup_fst_map_to_list h) (s, ∅)) by (intros; apply lookup_empty).
  cbn [snd]. unfold amount_of at 1. rewrite lookup_empty. cbn.
  destruct (h !! t) as [x|] eqn:Ex.
  - apply found_net_in; [apply NoDup_fst_map_to_list | apply elem_of_map_to_list; exact Ex].
  - apply found_net_notin. intros Hin. apply elem_of_list_fmap in Hin. destruct Hin as ([t' x] & Ht & Hin). cbn in Ht. subst t'.
    apply elem_of_map_to_list in Hin. congruence.
Qed.

(* downtime: what exactly happens to an active validator *)
Definition missed_after (v : validator) (absent : bool) : Z := if absent then v_missed v + 1 else v_missed v.

Lemma handle_vote_active s now a absent v s' :
  l_val s !! a = Some v -> v_status v = Active -> handle_vote s now a absent = Ok s' ->
  exists v', l_val s' !! a = Some v' /\
  (if missed_after v absent >=? lp_max_missed (l_params s) then
     v_status v' = Downgrade /\ v_power v' = 0%N /\ v_jailed v' = now + lp_jail_dur (l_params s) /\
     (forall t, amount_of (v_hold v') t =
                match v_hold v !! t with
                | Some x => x - slash_amount x (lp_slash_down (l_params s))
                | None => 0 end)
   else v_status v' = Active /\ v_power v' = v_power v /\ v_hold v' = v_hold v) /\
  (v_reward v' = v_reward v /\ v_gas v' = v_gas v).
Proof.
  intros Ev Ha. unfold handle_vote. rewrite Ev. rewrite bool_decide_eq_true_2 by exact Ha. cbn [negb].
  fold (missed_after v absent).
  match goal with |- context [let '(_, _) := ?c in _] => destruct c as [off missed] end.
  destruct (missed_after v absent >=? lp_max_missed (l_params s)) eqn:Ed.
  - pose proof (slash_holdings_hold (rank_remove s (v_power v) a) a (v_hold v) (lp_slash_down (l_params s))) as Hh.
    destruct (slash_holdings _ a (v_hold v) _) as [s2 h2] eqn:Es. cbn [snd] in Hh.
    intros H; inversion H; subst; clear H. eexists. cbn. rewrite lookup_insert. split; [reflexivity|]. cbn.
    split; [|auto]. repeat split. exact Hh.
  - intros H; inversion H; subst; clear H. eexists. cbn. rewrite lookup_insert. split; [reflexivity|]. cbn. rewrite Ha. auto.
Qed.

(* slash = floor(a*f/1e18), or everything when that is zero; never more than the holding *)
Lemma slash_amount_bound x frac : 0 <= x -> 0 <= frac <= one18 -> 0 <= slash_amount x frac <= x.
Proof.
  intros Hx Hf. unfold slash_amount.
  assert (H18 : 0 < one18) by (unfold one18; lia).
  assert (0 <= x * frac / one18) by (apply Z.div_pos; nia).
  assert (x * frac / one18 <= x) by (apply Z.div_le_upper_bound; nia).
  destruct (x * frac / one18 =? 0); lia.
Qed.

(* stale evidence (older than BOTH limits) is ignored; so is evidence of an uncounted kind *)
Lemma handle_evidence_stale s now h max_dur max_blocks a et eh counted :
  now - et > max_dur -> h - eh > max_blocks ->
  handle_evidence s now h (Some (max_dur, max_blocks)) (a, et, eh, counted) = Ok s.
Proof.
  intros H1 H2. unfold handle_evidence. destruct (negb counted); [reflexivity|].
  unfold evidence_expired. assert (now - et >? max_dur = true) as -> by lia. assert (h - eh >? max_blocks = true) as -> by lia.
  reflexivity.
Qed.

(* counted, unexpired evidence against a known, not yet tombstoned validator tombstones it *)
Lemma handle_evidence_tombstones s now h lim a et eh v s' :
  evidence_expired now h lim et eh = false -> l_val s !! a = Some v -> v_status v <> Tombstoned ->
  handle_evidence s now h lim (a, et, eh, true) = Ok s' ->
  exists v', l_val s' !! a = Some v' /\ v_status v' = Tombstoned /\ v_power v' = 0%N /\
  (forall t, amount_of (v_hold v') t =
             match v_hold v !! t with Some x => x - slash_amount x (lp_slash_double (l_params s)) | None => 0 end).
Proof.
  intros Hexp Ev Hn. unfold handle_evidence. cbn [negb]. rewrite Hexp, Ev.
  rewrite bool_decide_eq_false_2 by exact Hn.
  pose proof (slash_holdings_hold (rank_remove s (v_power v) a) a (v_hold v) (lp_slash_double (l_params s))) as Hh.
  destruct (slash_holdings _ a (v_hold v) _) as [s2 h2] eqn:Es. cbn [snd] in Hh.
  intros H; inversion H; subst; clear H. eexists. cbn. rewrite lookup_insert. split; [reflexivity|]. cbn. auto.
Qed.
