(* C18 (locking module): export then import reproduces the state, a second export is identical, the
   validators handed to CometBFT are the recorded active set. *)
From stdpp Require Import gmap.
From Goat Require Import Base.Prelude Model.Locking Model.LockingGenesis.
Local Open Scope Z_scope.

Definition nonzero_slashed (m : gmap N Z) : gmap N Z := base.filter (fun kv : N * Z => snd kv <> 0) m.

Lemma nonzero_slashed_idem m : nonzero_slashed (nonzero_slashed m) = nonzero_slashed m.
Proof.
  unfold nonzero_slashed. apply map_filter_id.
  intros k v H. apply map_filter_lookup_Some in H. apply H.
Qed.

(* the state InitGenesis builds from the export of s *)
Definition reimported (s : lstate) : lstate :=
  lk_import (lk_export s) (l_accounts s) (g_locked s) (g_released s) (g_granted s) (g_gas_in s) (g_claimed s).

Theorem import_export s :
  derived_ok s -> set_ok s ->
  reimported s = set_slashed s (nonzero_slashed (l_slashed s)).
Proof.
  unfold derived_ok, set_ok. destruct s as [pa va ix rk st tk th sl rm go gs uq qr qu no ac gl gr gg gi gc].
  cbn [l_rank l_val l_index l_thr l_tok l_set]. intros (Hr & Hi & Ht) Hs. subst.
  unfold reimported, lk_import, lk_export, set_slashed, nonzero_slashed.
  cbn [lg_params lg_validators lg_tokens lg_slashed lg_nonce lg_q_rewards lg_q_unlocks lg_pool lg_unlockq
       l_params l_val l_index l_rank l_set l_tok l_thr l_slashed l_remain l_goat l_gasp l_unlockq l_q_rewards
       l_q_unlocks l_nonce l_accounts g_locked g_released g_granted g_gas_in g_claimed].
  rewrite !list_to_map_to_list. reflexivity.
Qed.

Corollary import_export_exact s :
  derived_ok s -> set_ok s -> (forall k v, l_slashed s !! k = Some v -> v <> 0) -> reimported s = s.
Proof.
  intros D S Z. rewrite import_export by assumption.
  assert (nonzero_slashed (l_slashed s) = l_slashed s) as ->.
  { unfold nonzero_slashed. apply map_filter_id. intros k v H. cbn. eauto. }
  destruct s; reflexivity.
Qed.

(* a second export is identical to the first - for every state, whatever its derived collections *)
Theorem second_export_identical s : lk_export (reimported s) = lk_export s.
Proof.
  unfold reimported, lk_import, lk_export.
  cbn [lg_params lg_validators lg_tokens lg_slashed lg_nonce lg_q_rewards lg_q_unlocks lg_pool lg_unlockq
       l_params l_val l_index l_rank l_set l_tok l_thr l_slashed l_remain l_goat l_gasp l_unlockq l_q_rewards
       l_q_unlocks l_nonce l_accounts g_locked g_released g_granted g_gas_in g_claimed].
  rewrite !list_to_map_to_list.
  fold (nonzero_slashed (l_slashed s)). rewrite nonzero_slashed_idem. reflexivity.
Qed.

(* the validators InitGenesis returns are exactly the recorded set *)
Theorem initial_validators_are_recorded_set s a p :
  set_ok s -> ((a, p) ∈ import_validators (lk_export s) <-> l_set s !! a = Some p).
Proof.
  intros Hs. unfold set_ok in Hs. rewrite Hs. unfold import_validators, lk_export, rebuild_set.
  cbn [lg_validators].
  rewrite elem_of_list_omap, lookup_omap. split.
  - intros ((a', v) & Hin & Hf). apply elem_of_map_to_list in Hin. cbn in Hf.
    destruct (v_status v) eqn:E; try discriminate. injection Hf as <- <-.
    rewrite Hin. cbn. rewrite E. reflexivity.
  - destruct (l_val s !! a) as [v|] eqn:E; cbn; [|discriminate].
    destruct (v_status v) eqn:Es; try discriminate. intros [= <-].
    exists (a, v). split; [apply elem_of_map_to_list; exact E|]. cbn. rewrite Es. reflexivity.
Qed.

(* the rebuilt collections satisfy the invariants the running chain maintains: by construction *)
Theorem reimported_is_consistent s : derived_ok (reimported s) /\ set_ok (reimported s).
Proof.
  unfold reimported, lk_import, derived_ok, set_ok.
  destruct (lg_pool (lk_export s)) as [[rem goat] gas].
  cbn [l_rank l_val l_index l_thr l_tok l_set]. auto.
Qed.
