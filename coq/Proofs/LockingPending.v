(* The last hypothesis of the C13 refinement: no Pending validator is recorded in the validator set.
   It needs the block structure of a history: a validator jailed by BeginBlocker at block time t stays
   in the recorded set until EndBlocker, and cannot be unjailed (Downgrade -> Pending) by a request
   list of the same block because unjailing needs t > jailed-until = t + jail duration. *)
From stdpp Require Import gmap.
From Goat Require Import Base.Prelude Model.Locking Proofs.LockingDerived Proofs.LockingDerivedLink Proofs.LockingActive
  Proofs.LockingEndBlock.
From Coq Require Import ZifyBool ZifyN ZifyNat.
Local Open Scope Z_scope.

(* phase: None = block boundary, Some t = inside the block whose BeginBlocker ran at time t *)
Definition pinv (ph : option Z) (s : lstate) : Prop :=
  (forall a v, l_val s !! a = Some v -> v_status v = Pending -> l_set s !! a = None) /\
  (forall a v, l_val s !! a = Some v -> v_status v = Downgrade -> is_Some (l_set s !! a) ->
     match ph with None => False | Some t => t <= v_jailed v end).

Lemma pinv_upd ph s a v' s' :
  pinv ph s -> l_val s' = <[a := v']> (l_val s) -> l_set s' = l_set s ->
  (v_status v' = Pending -> l_set s !! a = None) ->
  (v_status v' = Downgrade -> is_Some (l_set s !! a) -> match ph with None => False | Some t => t <= v_jailed v' end) ->
  pinv ph s'.
Proof.
  intros [P Q] Ev Es HP HQ. split.
  - intros b w Eb St. rewrite Es. rewrite Ev in Eb. destruct (decide (b = a)) as [->|Hne].
    + rewrite lookup_insert in Eb. injection Eb as Heq. subst w. exact (HP St).
    + rewrite lookup_insert_ne in Eb by congruence. exact (P b w Eb St).
  - intros b w Eb St. rewrite Es. rewrite Ev in Eb. destruct (decide (b = a)) as [->|Hne].
    + rewrite lookup_insert in Eb. injection Eb as Heq. subst w. exact (HQ St).
    + rewrite lookup_insert_ne in Eb by congruence. exact (Q b w Eb St).
Qed.
(* the record keeps its status and jail time *)
Lemma pinv_keep ph s a v v' s' :
  pinv ph s -> l_val s !! a = Some v -> l_val s' = <[a := v']> (l_val s) -> l_set s' = l_set s ->
  v_status v' = v_status v -> v_jailed v' = v_jailed v -> pinv ph s'.
Proof.
  intros I E Ev Es St J. destruct I as [P Q]. eapply (pinv_upd ph s a v'); [split; assumption|exact Ev|exact Es| |].
  - rewrite St. intros H. eapply P; eauto.
  - rewrite St, J. intros H. eapply Q; eauto.
Qed.
(* the record gets a status that is neither Pending nor Downgrade *)
Lemma pinv_other ph s a v' s' :
  pinv ph s -> v_status v' <> Pending -> v_status v' <> Downgrade ->
  l_val s' = <[a := v']> (l_val s) -> l_set s' = l_set s -> pinv ph s'.
Proof. intros I N1 N2 Ev Es. eapply (pinv_upd ph s a v'); eauto; intros H; congruence. Qed.
Lemma pinv_same ph s s' : l_val s' = l_val s -> l_set s' = l_set s -> pinv ph s -> pinv ph s'.
Proof. intros Ev Es [P Q]. split; intros b w; rewrite ?Ev, ?Es; [apply P|apply Q]. Qed.

Ltac rap := unfold rank_add_pos; repeat match goal with |- context [if (0 <? ?p)%N then _ else _] => destruct (0 <? p)%N end; reflexivity.

Lemma pen_fold {B} ph (f : lstate -> B -> res lstate) (l : list B) (J : lstate -> Prop) :
  (forall s b s', J s -> pinv ph s -> f s b = Ok s' -> pinv ph s' /\ J s') ->
  forall s s', J s -> pinv ph s -> fold_res f l s = Ok s' -> pinv ph s' /\ J s'.
Proof.
  intros Hf. induction l as [|b r IH]; intros s s' Js I; cbn [fold_res]; [intros [= <-]; auto|].
  destruct (f s b) as [s1| |] eqn:E; cbn [rbind]; try discriminate. intros H.
  destruct (Hf _ _ _ Js I E) as [I1 J1]. eapply IH; eauto.
Qed.

(* ---- request list ---- *)
Lemma pen_create ph s c d k s' : set_members s -> pinv ph s -> create_validator s c d k = Ok s' -> pinv ph s'.
Proof.
  intros M I. unfold create_validator. destruct (negb _); [discriminate|].
  destruct (l_val s !! d) as [v|] eqn:E; [intros [= <-]; exact I|]. intros [= <-].
  assert (Hn : l_set s !! d = None).
  { destruct (l_set s !! d) as [q|] eqn:Es; [|reflexivity]. destruct (M d q Es) as [w Hw]. congruence. }
  destruct (bool_decide (d ∈ l_accounts s)); (eapply (pinv_upd ph s d); [exact I|reflexivity|reflexivity|intros _; exact Hn|cbn; discriminate]).
Qed.
Definition time_ok (ph : option Z) (now : Z) : Prop := match ph with Some t => now = t | None => True end.

Lemma pen_lock_one ph s now a coins s' : pinv ph s -> time_ok ph now -> lock_one s now a coins = Ok s' -> pinv ph s'.
Proof.
  intros I Ht. unfold lock_one. destruct (l_val s !! a) as [v|] eqn:E; [|discriminate].
  destruct (v_status v) eqn:St.
  - destruct (lock_power _ _ _); cbn [rbind]; try discriminate. intros [= <-].
    eapply (pinv_keep _ s a v); [exact I|exact E|rap|rap|cbn; reflexivity|reflexivity].
  - destruct (lock_power _ _ _); cbn [rbind]; try discriminate. intros [= <-].
    eapply (pinv_keep _ s a v); [exact I|exact E|rap|rap|cbn; reflexivity|reflexivity].
  - intros [= <-]. eapply (pinv_keep _ s a v); [exact I|exact E|reflexivity|reflexivity|reflexivity|reflexivity].
  - destruct ((now >? v_jailed v) && _) eqn:Un.
    + destruct (lock_power _ _ _); cbn [rbind]; try discriminate. intros [= <-].
      apply andb_true_iff in Un. destruct Un as [Un _].
      eapply (pinv_upd _ s a); [exact I|rap|rap| |cbn; discriminate].
      intros _. destruct (l_set s !! a) as [q|] eqn:Es; [|reflexivity].
      exfalso. destruct I as [_ Q]. specialize (Q a v E St (ex_intro _ q Es)).
      destruct ph as [t|]; [|exact Q]. cbn in Ht. subst now. lia.
    + intros [= <-]. eapply (pinv_keep _ s a v); [exact I|exact E|reflexivity|reflexivity|reflexivity|reflexivity].
  - intros [= <-]. eapply (pinv_keep _ s a v); [exact I|exact E|reflexivity|reflexivity|reflexivity|reflexivity].
Qed.
Lemma pen_lock_each ph now l : forall s s', pinv ph s -> time_ok ph now -> lock_each s now l = Ok s' -> pinv ph s'.
Proof.
  induction l as [|[a cs] r IH]; intros s s' I T; cbn [lock_each]; [intros [= <-]; exact I|].
  destruct (lock_one s now a _) as [s1| |] eqn:E; cbn [rbind]; try discriminate.
  intros H. eapply IH; [|exact T|exact H]. eapply pen_lock_one; eauto.
Qed.
Lemma pen_unlock_one ph s now id a rc t req s' : pinv ph s -> unlock_one s now id a rc t req = Ok s' -> pinv ph s'.
Proof.
  intros I. unfold unlock_one. destruct (l_val s !! a) as [v|] eqn:E; [|discriminate].
  cbn [l_tok rank_remove set_rank]. destruct (l_tok s !! t) as [tk|]; [|discriminate].
  destruct (_ && negb (fits64 _)); [discriminate|].
  destruct (_ || _).
  - intros [= <-]. eapply (pinv_other _ s a); [exact I| | |reflexivity|reflexivity]; cbn; destruct (v_status v); discriminate.
  - destruct (in_ranking_status _); intros [= <-]; (eapply (pinv_keep _ s a v); [exact I|exact E|rap|rap|reflexivity|reflexivity]).
Qed.
Lemma pen_unlock_all ph now reqs : forall s s', pinv ph s -> unlock_all s now reqs = Ok s' -> pinv ph s'.
Proof.
  induction reqs as [|[[[[id a] rc] t] amt] r IH]; intros s s' I; cbn [unlock_all]; [intros [= <-]; exact I|].
  destruct (unlock_one s now id a rc t amt) as [s1| |] eqn:E; cbn [rbind]; try discriminate.
  intros H. eapply IH; [|exact H]. eapply pen_unlock_one; eauto.
Qed.
Lemma pen_weight_walk ph prev cur es : forall s s', pinv ph s -> weight_walk s prev cur es = Ok s' -> pinv ph s'.
Proof.
  induction es as [|[a amt] r IH]; intros s s' I; cbn [weight_walk]; [intros [= <-]; exact I|].
  destruct (l_val s !! a) as [v|] eqn:E; [|discriminate].
  destruct (negb (fits64 _)); [destruct (prev <? cur)%N; discriminate|].
  intros H. eapply IH; [|exact H]. eapply (pinv_keep _ s a v); [exact I|exact E|rap|rap|reflexivity|reflexivity].
Qed.
Lemma pen_simple_fold {B} ph (f : lstate -> B -> res lstate) (l : list B) :
  (forall s b s', pinv ph s -> f s b = Ok s' -> pinv ph s') -> forall s s', pinv ph s -> fold_res f l s = Ok s' -> pinv ph s'.
Proof.
  intros Hf. induction l as [|b r IH]; intros s s' I; cbn [fold_res]; [intros [= <-]; exact I|].
  destruct (f s b) as [s1| |] eqn:E; cbn [rbind]; try discriminate. intros H. eapply IH; [|exact H]. eapply Hf; eauto.
Qed.
Lemma pen_update_weight ph s t w s' : pinv ph s -> update_weight s t w = Ok s' -> pinv ph s'.
Proof.
  intros I. unfold update_weight. destruct (_ =? _)%N; cbn [rbind]; [intros [= <-]; eapply pinv_same; [| |exact I]; reflexivity|].
  destruct (weight_walk _ _ _ _) as [s1| |] eqn:W; cbn [rbind]; try discriminate.
  intros [= <-]. eapply pinv_same; [| |eapply pen_weight_walk; eauto]; reflexivity.
Qed.
Lemma pen_update_threshold ph s t th s' : pinv ph s -> update_threshold s t th = Ok s' -> pinv ph s'.
Proof.
  intros I. unfold update_threshold. destruct (l_tok s !! t); [|discriminate].
  destruct (_ =? _); intros [= <-]; [exact I|]. eapply pinv_same; [| |exact I]; reflexivity.
Qed.
Lemma pen_update_tokens ph s ws ths s' : pinv ph s -> update_tokens s ws ths = Ok s' -> pinv ph s'.
Proof.
  intros I. unfold update_tokens. destruct (fold_res _ ws s) as [s1| |] eqn:E; cbn [rbind]; try discriminate.
  intros H. eapply (pen_simple_fold ph (fun s '(t, th) => update_threshold s t th)); [| |exact H].
  - intros x [t th] y. apply pen_update_threshold.
  - eapply (pen_simple_fold ph (fun s '(t, w) => update_weight s t w)); [|exact I|exact E]. intros x [t w] y. apply pen_update_weight.
Qed.
Lemma pen_claim ph s r s' : pinv ph s -> claim_one s r = Ok s' -> pinv ph s'.
Proof.
  intros I. destruct r as [[id a] rc]. unfold claim_one. destruct (l_val s !! a) as [v|] eqn:E; [|discriminate].
  intros [= <-]. eapply (pinv_keep _ s a v); [exact I|exact E|reflexivity|reflexivity|reflexivity|reflexivity].
Qed.
Lemma pen_pool ph s h gas grants s' : pinv ph s -> update_reward_pool s h gas grants = Ok s' -> pinv ph s'.
Proof.
  intros I. unfold update_reward_pool. destruct gas as [|g [|]]; try discriminate.
  intros [= <-]. eapply pinv_same; [| |exact I]; reflexivity.
Qed.
Lemma pen_create_all ph reqs : forall s s', ainv s -> pinv ph s -> create_all s reqs = Ok s' -> pinv ph s' /\ ainv s'.
Proof.
  induction reqs as [|[[c d] k] r IH]; intros s s' A I; cbn [create_all]; [intros [= <-]; auto|].
  destruct (create_validator s c d k) as [s1| |] eqn:E; cbn [rbind]; try discriminate.
  intros H. eapply IH; [| |exact H]; [eapply act_create; eauto|]. eapply pen_create; [apply A|exact I|exact E].
Qed.
Lemma pen_requests ph s now h q s' : ainv s -> pinv ph s -> time_ok ph now -> process_requests s now h q = Ok s' -> pinv ph s'.
Proof.
  intros A I T. unfold process_requests.
  destruct (update_reward_pool _ _ _ _) as [s1| |] eqn:E1; cbn [rbind]; try discriminate.
  destruct (update_tokens _ _ _) as [s2| |] eqn:E2; cbn [rbind]; try discriminate.
  destruct (create_all _ _) as [s3| |] eqn:E3; cbn [rbind]; try discriminate.
  destruct (lock_all _ _ _) as [s4| |] eqn:E4; cbn [rbind]; try discriminate.
  destruct (unlock_all _ _ _) as [s5| |] eqn:E5; cbn [rbind]; try discriminate.
  intros H. eapply (pen_simple_fold ph claim_one); [intros x r y; apply pen_claim| |exact H].
  eapply pen_unlock_all; [|exact E5]. unfold lock_all in E4. eapply pen_lock_each; [|exact T|exact E4].
  assert (A2 : ainv s2) by (eapply act_update_tokens; [|exact E2]; eapply act_pool; eauto).
  assert (I2 : pinv ph s2) by (eapply pen_update_tokens; [|exact E2]; eapply pen_pool; eauto).
  destruct (pen_create_all ph _ _ _ A2 I2 E3) as [I3 _]. exact I3.
Qed.

(* ---- BeginBlocker at time t, from a block boundary ---- *)
Lemma pen_distribute ph gas goat total votes : forall s remg remr s' g r,
  pinv ph s -> distribute s gas goat total remg remr votes = Ok (s', g, r) -> pinv ph s'.
Proof.
  induction votes as [|[a p] vs IH]; intros s remg remr s' g r I; cbn [distribute]; [intros [= <- _ _]; exact I|].
  destruct (l_val s !! a) as [v|] eqn:E; [|discriminate]. intros H. eapply IH; [|exact H].
  eapply (pinv_keep _ s a v); [exact I|exact E|reflexivity|reflexivity|reflexivity|reflexivity].
Qed.
Lemma pen_distribute_reward ph s h votes s' : pinv ph s -> distribute_reward s h votes = Ok s' -> pinv ph s'.
Proof.
  intros I. unfold distribute_reward. destruct (h <? 2); [intros [= <-]; exact I|].
  destruct (_ =? 0); [discriminate|].
  destruct (distribute _ _ _ _ _ _ _) as [[[s1 g] r]| |] eqn:E; cbn [rbind]; try discriminate.
  intros [= <-]. eapply pinv_same; [| |eapply pen_distribute; eauto]; reflexivity.
Qed.
Lemma pen_dequeue_mature ph s now : pinv ph s -> pinv ph (dequeue_mature s now).
Proof. intros I. unfold dequeue_mature. destruct (filter _ _); [exact I|]. eapply pinv_same; [| |exact I]; reflexivity. Qed.

Lemma pen_punish ph s a v frac (mk : validator -> gmap N Z -> validator) s' :
  pinv ph s -> l_val s !! a = Some v ->
  (forall h, v_status (mk v h) <> Pending) ->
  (forall h, v_status (mk v h) = Downgrade -> match ph with None => False | Some t => t <= v_jailed (mk v h) end) ->
  (let '(s2, h') := slash_holdings (rank_remove s (v_power v) a) a (v_hold v) frac in
   set_val s2 (<[a := mk v h']> (l_val s2))) = s' -> pinv ph s'.
Proof.
  intros I E K1 K2. unfold slash_holdings.
  destruct (slash_fold a frac (map_to_list (v_hold v)) (rank_remove s (v_power v) a, ∅)) as (E1 & _).
  pose proof (set_slash a frac (map_to_list (v_hold v)) (rank_remove s (v_power v) a, ∅)) as E2.
  cbn zeta in *. destruct (fold_left _ _ _) as [s2 h'] eqn:F. cbn [fst snd] in *. intros <-.
  eapply (pinv_upd ph s a); [exact I|cbn; rewrite E1; reflexivity|cbn; rewrite E2; reflexivity| |].
  - intros H. destruct (K1 h' H).
  - intros H _. apply (K2 h' H).
Qed.
Lemma pen_handle_vote t s a absent s' :
  0 <= lp_jail_dur (l_params s) -> pinv (Some t) s -> handle_vote s t a absent = Ok s' -> pinv (Some t) s'.
Proof.
  intros J I. unfold handle_vote. destruct (l_val s !! a) as [v|] eqn:E; [|discriminate].
  destruct (negb (bool_decide (v_status v = Active))) eqn:Bd; [intros [= <-]; exact I|].
  set (missed := if absent then v_missed v + 1 else v_missed v).
  destruct (v_offset v + 1 >=? lp_window (l_params s)); cbn zeta.
  - destruct (missed >=? lp_max_missed (l_params s)).
    + intros H. eapply (pen_punish (Some t) s a v (lp_slash_down (l_params s)) (fun v h => with_jailed (with_power (with_status (with_hold (with_signing v 0 0) h) Downgrade) 0%N) (t + lp_jail_dur (l_params s))) s' I E); [cbn; discriminate|cbn; intros; lia|].
      destruct (slash_holdings _ _ _ _) as [s2 h']. injection H as <-. reflexivity.
    + intros [= <-]. eapply (pinv_keep _ s a v (with_signing v 0 0)); [exact I|exact E|reflexivity|reflexivity|reflexivity|reflexivity].
  - destruct (missed >=? lp_max_missed (l_params s)).
    + intros H. eapply (pen_punish (Some t) s a v (lp_slash_down (l_params s)) (fun v h => with_jailed (with_power (with_status (with_hold (with_signing v (v_offset v + 1) missed) h) Downgrade) 0%N) (t + lp_jail_dur (l_params s))) s' I E); [cbn; discriminate|cbn; intros; lia|].
      destruct (slash_holdings _ _ _ _) as [s2 h']. injection H as <-. reflexivity.
    + intros [= <-]. eapply (pinv_keep _ s a v (with_signing v (v_offset v + 1) missed)); [exact I|exact E|reflexivity|reflexivity|reflexivity|reflexivity].
Qed.
Lemma pen_handle_evidence ph s now h lim e s' : pinv ph s -> handle_evidence s now h lim e = Ok s' -> pinv ph s'.
Proof.
  intros I. destruct e as [[[a et] eh] counted]. unfold handle_evidence.
  destruct (negb counted); [intros [= <-]; exact I|].
  destruct (evidence_expired _ _ _ _ _); [intros [= <-]; exact I|].
  destruct (l_val s !! a) as [v|] eqn:E; [|discriminate].
  destruct (bool_decide _); [intros [= <-]; exact I|].
  intros H. eapply (pen_punish ph s a v (lp_slash_double (l_params s)) (fun v h => with_power (with_status (with_hold v h) Tombstoned) 0%N) s' I E); [cbn; discriminate|cbn; discriminate|].
  destruct (slash_holdings _ _ _ _) as [s2 h']. injection H as <-. reflexivity.
Qed.
Lemma pinv_enter t s : pinv None s -> pinv (Some t) s.
Proof. intros [P Q]. split; [exact P|]. intros a v E St H. destruct (Q a v E St H). Qed.

Lemma pen_begin t s h lim votes evs s' :
  0 <= lp_jail_dur (l_params s) -> pinv None s -> begin_block s t h lim votes evs = Ok s' -> pinv (Some t) s'.
Proof.
  intros J I. apply (pinv_enter t) in I. unfold begin_block.
  destruct (distribute_reward _ _ _) as [s1| |] eqn:E1; cbn [rbind]; try discriminate.
  destruct (fold_res _ votes _) as [s3| |] eqn:E3; cbn [rbind]; try discriminate.
  intros H. eapply (pen_simple_fold (Some t) (fun s e => handle_evidence s t h lim e)); [intros x e y; apply pen_handle_evidence| |exact H].
  assert (I1 : pinv (Some t) (dequeue_mature s1 t)) by (apply pen_dequeue_mature; eapply pen_distribute_reward; eauto).
  assert (P1 : l_params (dequeue_mature s1 t) = l_params s) by (rewrite par_dequeue_mature; eapply par_distribute_reward; eauto).
  revert I1 P1 E3. generalize (dequeue_mature s1 t). clear -J.
  induction votes as [|[[a p] f] r IH]; intros x I1 P1; cbn [fold_res]; [intros [= <-]; exact I1|].
  destruct (handle_vote x t a f) as [y| |] eqn:E; cbn [rbind]; try discriminate.
  apply IH; [eapply pen_handle_vote; [rewrite P1; exact J|exact I1|exact E]|]. rewrite (par_handle_vote _ _ _ _ _ E). exact P1.
Qed.

(* ---- histories with block structure ---- *)
Definition phase_step (ph : option Z) (o : lkop) : option (option Z) :=
  match o, ph with
  | KBegin t _ _ _ _, None => Some (Some t)
  | KBegin _ _ _ _ _, Some _ => None
  | KReq t _ _, Some t' => if t =? t' then Some ph else None
  | KReq _ _ _, None => Some None
  | KEnd, _ => Some None
  | _, _ => Some ph
  end.
Fixpoint wf_hist (ph : option Z) (ops : list lkop) : Prop :=
  match ops with
  | [] => True
  | o :: r => wf_op o /\ match phase_step ph o with Some ph' => wf_hist ph' r | None => False end
  end.

Definition binv (ph : option Z) (s : lstate) : Prop :=
  dinv s /\ slash_ok s /\ 0 <= lp_jail_dur (l_params s) /\ ainv s /\ pinv ph s.

Lemma set_spec_pinv s : set_spec s -> pinv None s.
Proof.
  intros H. split.
  - intros a v E St. rewrite H, E. cbn. rewrite St. reflexivity.
  - intros a v E St [q Hq]. rewrite H, E in Hq. cbn in Hq. rewrite St in Hq. discriminate.
Qed.

Theorem lk_step_binv ph s o ph' :
  binv ph s -> wf_op o -> phase_step ph o = Some ph' -> binv ph' (fst (lk_step s o)).
Proof.
  intros (D & S & J & A & I) W Hp.
  destruct (lk_step_inv s o D S W) as [D' S'].
  assert (A' := lk_step_ainv s o D A).
  assert (J' : 0 <= lp_jail_dur (l_params (fst (lk_step s o)))) by (rewrite par_step; exact J).
  split; [exact D'|]. split; [exact S'|]. split; [exact J'|]. split; [exact A'|].
  destruct o.
  - (* KBegin *)
    destruct ph as [t0|]; cbn [phase_step] in Hp; [discriminate|]. injection Hp as Hp. subst ph'.
    cbn [lk_step]. unfold deliver.
    destruct (begin_block s now height limits votes evs) as [x| |] eqn:E; cbn.
    + eapply pen_begin; [exact J|exact I|exact E].
    + apply pinv_enter; exact I.
    + apply pinv_enter; exact I.
  - (* KReq *)
    assert (T : time_ok ph now /\ ph' = ph).
    { destruct ph as [t|]; cbn [phase_step] in Hp; [|injection Hp as Hp; subst ph'; split; [exact Logic.I|reflexivity]].
      destruct (now =? t) eqn:Et; [|discriminate]. injection Hp as Hp. subst ph'. split; [cbn; lia|reflexivity]. }
    destruct T as [T ->]. cbn [lk_step]. unfold deliver.
    destruct (process_requests s now height q) as [x| |] eqn:E; cbn; try exact I. eapply pen_requests; [exact A|exact I|exact T|exact E].
  - (* KEnd *)
    assert (ph' = None) by (destruct ph; cbn [phase_step] in Hp; congruence). subst ph'.
    assert (Hwf : set_wf s).
    { split; [apply A|]. destruct I as [P _]. exact P. }
    destruct (end_block_refines s (rank_spec_rank_wf s (di_rank _ D)) Hwf) as (s' & ups & E & _).
    cbn [lk_step]. rewrite E. cbn. apply set_spec_pinv. eapply end_block_set_spec; [apply (di_rank _ D)|apply A|exact E].
  - (* KDequeue *)
    assert (ph' = ph) by (destruct ph; cbn [phase_step] in Hp; congruence). subst ph'.
    cbn [lk_step]. unfold dequeue_txs. destruct (l_q_rewards s), (l_q_unlocks s); cbn; try exact I; (eapply pinv_same; [| |exact I]; reflexivity).
  - (* KAccount *)
    assert (ph' = ph) by (destruct ph; cbn [phase_step] in Hp; congruence). subst ph'.
    cbn. eapply pinv_same; [| |exact I]; reflexivity.
Qed.

(* EndBlocker never fails in a block-structured history, and everything C13 states holds *)
Theorem reachable_binv p rem goat gas acc ops :
  0 <= lp_slash_down p <= one18 -> 0 <= lp_slash_double p <= one18 -> 0 <= lp_jail_dur p ->
  wf_hist None ops -> exists ph, binv ph (lk_run (empty_lstate p rem goat gas acc) ops).
Proof.
  intros H1 H2 H3. unfold lk_run.
  assert (G : forall ops ph s, binv ph s -> wf_hist ph ops -> exists ph', binv ph' (fold_left (fun s o => fst (lk_step s o)) ops s)).
  { induction ops0 as [|o r IH]; intros ph s B W; cbn [fold_left]; [eauto|].
    destruct W as [Wo Wr]. destruct (phase_step ph o) as [ph'|] eqn:Hp; [|destruct Wr].
    eapply IH; [|exact Wr]. eapply lk_step_binv; eauto. }
  intros W. eapply G; [|exact W].
  split; [apply dinv_empty|]. split; [split; assumption|]. split; [exact H3|].
  split; [split; [intros a v E; cbn in E; rewrite lookup_empty in E; discriminate|intros a q E; cbn in E; rewrite lookup_empty in E; discriminate]|].
  split; [intros a v E; cbn in E; rewrite lookup_empty in E; discriminate|intros a v E; cbn in E; rewrite lookup_empty in E; discriminate].
Qed.
