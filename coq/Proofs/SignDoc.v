(* C02 / C01: the document a vote signs binds chain, sequence, epoch, action, proposer and payload.
   VoteSignDoc hashes the plain concatenation  chain ++ LE64(seq) ++ LE64(epoch) ++ method ++ proposer ++ data;
   the concatenation is injective because the sequence / epoch fields have fixed width, the method names
   (regenerated from the source, Gen/Consts.c_methods) form a prefix-free set, and proposer addresses of one
   chain have one length.  Two different contexts therefore sign different documents unless the hash
   collides - or the two chain identifiers are such that one is a proper prefix of the other. *)
From Goat Require Import Base.Prelude Gen.Consts Model.Bridge.
From Coq Require Import ZifyBool ZifyN ZifyNat.
Local Open Scope N_scope.

Lemma app_eq_cases {A} (a b c d : list A) : a ++ b = c ++ d -> (exists x, a = c ++ x) \/ (exists x, c = a ++ x).
Proof.
  revert c. induction a as [|h a IH]; intros c H.
  - right. exists c. reflexivity.
  - destruct c as [|h' c]; [left; exists (h :: a); reflexivity|].
    cbn in H. injection H as -> H. destruct (IH c H) as [[x ->]|[x ->]]; [left|right]; exists x; reflexivity.
Qed.
Lemma app_inj_len {A} (a a' b b' : list A) : length a = length a' -> a ++ b = a' ++ b' -> a = a' /\ b = b'.
Proof.
  revert a'. induction a as [|x a IH]; intros [|y a'] L H; cbn in *; try discriminate; [auto|].
  injection H as -> H. destruct (IH a' (eq_add_S _ _ L) H) as [-> ->]. auto.
Qed.

Fixpoint is_prefix (a b : bytes) : bool :=
  match a, b with
  | [], _ => true
  | x :: a', y :: b' => (x =? y) && is_prefix a' b'
  | _ :: _, [] => false
  end.
Lemma is_prefix_app a x : is_prefix a (a ++ x) = true.
Proof. induction a as [|h a IH]; cbn; [reflexivity|]. rewrite N.eqb_refl. exact IH. Qed.

Definition method_bytes : list bytes := map bytes_of_string c_methods.
(* no method name is a prefix of another one *)
Definition prefix_free (l : list bytes) : bool :=
  forallb (fun m => forallb (fun m' => negb (is_prefix m m') || beq_bytes m m') l) l.
Lemma methods_prefix_free : prefix_free method_bytes = true.
Proof. vm_compute. reflexivity. Qed.

Lemma beq_bytes_true a : forall b, beq_bytes a b = true -> a = b.
Proof.
  induction a as [|x r IH]; intros [|y s]; cbn; try discriminate; [reflexivity|].
  rewrite andb_true_iff. intros [E H]. apply N.eqb_eq in E. subst. f_equal. apply IH. exact H.
Qed.

Lemma method_boundary m m' r r' :
  In m method_bytes -> In m' method_bytes -> m ++ r = m' ++ r' -> m = m' /\ r = r'.
Proof.
  intros Hm Hm' H. pose proof methods_prefix_free as PF. unfold prefix_free in PF.
  rewrite forallb_forall in PF.
  assert (E : m = m').
  { destruct (app_eq_cases _ _ _ _ H) as [[x Hx]|[x Hx]].
    - specialize (PF m' Hm'). rewrite forallb_forall in PF. specialize (PF m Hm).
      rewrite Hx, is_prefix_app in PF. cbn in PF. apply beq_bytes_true in PF. congruence.
    - specialize (PF m Hm). rewrite forallb_forall in PF. specialize (PF m' Hm').
      rewrite Hx, is_prefix_app in PF. cbn in PF. apply beq_bytes_true in PF. congruence. }
  subst m'. split; [reflexivity|]. eapply app_inv_head; eauto.
Qed.

Definition proper_prefix (a b : bytes) : Prop := exists x, x <> [] /\ b = a ++ x.

Definition sign_pre (chain : bytes) (seq epoch : N) (method proposer data : bytes) : bytes :=
  chain ++ le64 seq ++ le64 epoch ++ method ++ proposer ++ data.

Theorem sign_pre_injective c s e m p d c' s' e' m' p' d' :
  ~ proper_prefix c c' -> ~ proper_prefix c' c ->
  s < two64 -> s' < two64 -> e < two64 -> e' < two64 ->
  In m method_bytes -> In m' method_bytes -> length p = length p' ->
  sign_pre c s e m p d = sign_pre c' s' e' m' p' d' ->
  c = c' /\ s = s' /\ e = e' /\ m = m' /\ p = p' /\ d = d'.
Proof.
  intros N1 N2 Hs Hs' He He' Hm Hm' Lp H. unfold sign_pre in H.
  assert (Ec : c = c').
  { destruct (app_eq_cases _ _ _ _ H) as [[x Hx]|[x Hx]]; destruct x as [|h x]; try (rewrite app_nil_r in Hx; congruence).
    - exfalso. apply N2. exists (h :: x). split; [discriminate|exact Hx].
    - exfalso. apply N1. exists (h :: x). split; [discriminate|exact Hx]. }
  subst c'. apply app_inv_head in H.
  apply app_inj_len in H; [|unfold le64; rewrite !le_bytes_length; reflexivity]. destruct H as [Es H].
  apply app_inj_len in H; [|unfold le64; rewrite !le_bytes_length; reflexivity]. destruct H as [Ee H].
  apply method_boundary in H; [|assumption|assumption]. destruct H as [Em H].
  apply app_inj_len in H; [|exact Lp]. destruct H as [Ep Ed].
  assert (B : 256 ^ N.of_nat 8 = two64) by reflexivity.
  repeat split; auto.
  - unfold le64 in Es. apply (le_bytes_inj 8); rewrite ?B; assumption.
  - unfold le64 in Ee. apply (le_bytes_inj 8); rewrite ?B; assumption.
Qed.

(* with the hash: two contexts produce the same signed document only if they are the same context, or the
   hash collides on the two (different) concatenations *)
Section Doc.
Variable H : bytes -> bytes.
Theorem sign_doc_binds c s e m p d c' s' e' m' p' d' :
  ~ proper_prefix c c' -> ~ proper_prefix c' c ->
  s < two64 -> s' < two64 -> e < two64 -> e' < two64 ->
  In m method_bytes -> In m' method_bytes -> length p = length p' ->
  vote_sign_doc H c m p s e d = vote_sign_doc H c' m' p' s' e' d' ->
  (c = c' /\ s = s' /\ e = e' /\ m = m' /\ p = p' /\ d = d') \/
  (exists x y, x <> y /\ H x = H y).
Proof.
  intros N1 N2 Hs Hs' He He' Hm Hm' Lp E. unfold vote_sign_doc in E.
  destruct (list_eq_dec N.eq_dec (sign_pre c s e m p d) (sign_pre c' s' e' m' p' d')) as [Heq|Hne].
  - left. eapply sign_pre_injective; eauto.
  - right. exists (sign_pre c s e m p d), (sign_pre c' s' e' m' p' d'). split; [exact Hne|exact E].
Qed.
End Doc.
