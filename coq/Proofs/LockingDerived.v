(* The derived collections of the locking module (power ranking, per-token locking index, threshold
   list) agree with their sources in EVERY reachable state: pointwise specifications, their
   preservation by every operation of the model, and the link to the rebuild functions of
   Model/LockingGenesis.v.  Used by C13 (ranking well-formed) and C18 (export / import). *)
From stdpp Require Import gmap.
From Goat Require Import Base.Prelude Model.Locking.
From Coq Require Import ZifyBool ZifyN ZifyNat.
Local Open Scope Z_scope.

Definition ranked (v : validator) : bool := in_ranking_status (v_status v).

Definition rank_spec (s : lstate) : Prop :=
  forall p a, (p, a) ∈ l_rank s <->
    exists v, l_val s !! a = Some v /\ ranked v = true /\ v_power v = p /\ (0 < p)%N.
Definition index_spec (s : lstate) : Prop :=
  forall t a, l_index s !! (t, a) = (l_val s !! a) ≫= (fun v => if ranked v then v_hold v !! t else None).
Definition thr_spec (s : lstate) : Prop :=
  forall t, l_thr s !! t = (l_tok s !! t) ≫= (fun tk => if t_thr tk =? 0 then None else Some (t_thr tk)).
Definition hold_pos (s : lstate) : Prop :=
  forall a v t x, l_val s !! a = Some v -> v_hold v !! t = Some x -> 0 < x.

Record dinv (s : lstate) : Prop := mkDinv {
  di_rank : rank_spec s; di_index : index_spec s; di_thr : thr_spec s; di_pos : hold_pos s;
}.

(* ---------------------------------------------------------------- generic one-validator updates *)
(* the ranking after validator a was replaced by v' *)
Lemma rank_update (s : lstate) (a : N) (v' : validator) (R : gset (N * N)) :
  rank_spec s ->
  (forall p b, (p, b) ∈ R <->
     (b <> a /\ (p, b) ∈ l_rank s) \/ (b = a /\ ranked v' = true /\ v_power v' = p /\ (0 < p)%N)) ->
  forall s', l_val s' = <[a := v']> (l_val s) -> l_rank s' = R -> rank_spec s'.
Proof.
  intros Hs HR s' Hv Hr p b. rewrite Hr, HR, Hv. split.
  - intros [[Hne Hin]|(-> & Hk & Hp & Hpos)].
    + apply Hs in Hin. destruct Hin as (v & E & K). exists v. rewrite lookup_insert_ne by congruence. auto.
    + exists v'. rewrite lookup_insert. auto.
  - intros (v & E & Hk & Hp & Hpos). destruct (decide (b = a)) as [->|Hne].
    + rewrite lookup_insert in E. injection E as <-. right. auto.
    + rewrite lookup_insert_ne in E by congruence. left. split; [exact Hne|]. apply Hs. exists v. auto.
Qed.

(* entries of the ranking that belong to a are determined by a's record *)
Lemma rank_entry_of s a p v : rank_spec s -> l_val s !! a = Some v -> (p, a) ∈ l_rank s -> p = v_power v.
Proof. intros Hs E Hin. apply Hs in Hin. destruct Hin as (w & E' & _ & <- & _). congruence. Qed.
Lemma rank_no_entry s a p : rank_spec s -> l_val s !! a = None -> (p, a) ∉ l_rank s.
Proof. intros Hs E Hin. apply Hs in Hin. destruct Hin as (w & E' & _). congruence. Qed.
Lemma rank_unranked s a p v : rank_spec s -> l_val s !! a = Some v -> ranked v = false -> (p, a) ∉ l_rank s.
Proof. intros Hs E K Hin. apply Hs in Hin. destruct Hin as (w & E' & K' & _). congruence. Qed.

(* remove the old entry, add the new one when positive: the shape used by lock / unlock / weight update *)
Lemma rank_replace s a v v' :
  rank_spec s -> l_val s !! a = Some v -> ranked v' = true ->
  forall s', l_val s' = <[a := v']> (l_val s) ->
  l_rank s' = (if (0 <? v_power v')%N then {[ (v_power v', a) ]} ∪ (l_rank s ∖ {[ (v_power v, a) ]}) else l_rank s ∖ {[ (v_power v, a) ]}) ->
  rank_spec s'.
Proof.
  intros Hs E K s' Hv Hr. eapply rank_update; [exact Hs| |exact Hv|exact Hr].
  intros p b. destruct (0 <? v_power v')%N eqn:Pos.
  - rewrite elem_of_union, elem_of_singleton, elem_of_difference, elem_of_singleton. split.
    + intros [Heq|[Hin Hne]].
      * injection Heq as -> ->. right. repeat split; auto. lia.
      * destruct (decide (b = a)) as [->|Hb]; [|left; auto].
        exfalso. apply Hne. f_equal. eapply rank_entry_of; eauto.
    + intros [[Hb Hin]|(-> & _ & <- & _)]; [right; split; [exact Hin|congruence] | left; reflexivity].
  - rewrite elem_of_difference, elem_of_singleton. split.
    + intros [Hin Hne]. destruct (decide (b = a)) as [->|Hb]; [|left; auto].
      exfalso. apply Hne. f_equal. eapply rank_entry_of; eauto.
    + intros [[Hb Hin]|(-> & _ & <- & Hpos)]; [split; [exact Hin|congruence] | lia].
Qed.

(* remove the entry, the validator stops being ranked *)
Lemma rank_drop s a v v' :
  rank_spec s -> l_val s !! a = Some v -> ranked v' = false ->
  forall s', l_val s' = <[a := v']> (l_val s) -> l_rank s' = l_rank s ∖ {[ (v_power v, a) ]} -> rank_spec s'.
Proof.
  intros Hs E K s' Hv Hr. eapply rank_update; [exact Hs| |exact Hv|exact Hr].
  intros p b. rewrite elem_of_difference, elem_of_singleton. split.
  - intros [Hin Hne]. destruct (decide (b = a)) as [->|Hb]; [|left; auto].
    exfalso. apply Hne. f_equal. eapply rank_entry_of; eauto.
  - intros [[Hb Hin]|(-> & K' & _)]; [split; [exact Hin|congruence] | congruence].
Qed.

(* the record changes but neither power nor rankedness: the ranking stays *)
Lemma rank_same s a v v' :
  rank_spec s -> l_val s !! a = Some v -> ranked v' = ranked v -> v_power v' = v_power v ->
  forall s', l_val s' = <[a := v']> (l_val s) -> l_rank s' = l_rank s -> rank_spec s'.
Proof.
  intros Hs E K P s' Hv Hr. eapply rank_update; [exact Hs| |exact Hv|exact Hr].
  intros p b. split.
  - intros Hin. destruct (decide (b = a)) as [->|Hb]; [|left; auto].
    right. apply Hs in Hin. destruct Hin as (w & E' & K' & P' & Pos). assert (w = v) by congruence. subst w.
    repeat split; congruence.
  - intros [[Hb Hin]|(-> & K' & P' & Pos)]; [exact Hin|]. apply Hs. exists v. repeat split; congruence.
Qed.

(* a new validator that is not ranked or has no power *)
Lemma rank_new s a v' :
  rank_spec s -> l_val s !! a = None -> (ranked v' = false \/ v_power v' = 0%N) ->
  forall s', l_val s' = <[a := v']> (l_val s) -> l_rank s' = l_rank s -> rank_spec s'.
Proof.
  intros Hs E K s' Hv Hr. eapply rank_update; [exact Hs| |exact Hv|exact Hr].
  intros p b. split.
  - intros Hin. destruct (decide (b = a)) as [->|Hb]; [|left; auto].
    exfalso. eapply rank_no_entry; eauto.
  - intros [[Hb Hin]|(-> & K' & P' & Pos)]; [exact Hin|]. destruct K as [K|K]; [congruence|lia].
Qed.

(* the index after validator a was replaced by v' *)
Lemma index_update (s : lstate) (a : N) (v' : validator) (I : gmap (N * N) Z) :
  index_spec s ->
  (forall t, I !! (t, a) = if ranked v' then v_hold v' !! t else None) ->
  (forall t b, b <> a -> I !! (t, b) = l_index s !! (t, b)) ->
  forall s', l_val s' = <[a := v']> (l_val s) -> l_index s' = I -> index_spec s'.
Proof.
  intros Hs Ha Hb s' Hv Hi t b. rewrite Hi, Hv. destruct (decide (b = a)) as [->|Hne].
  - rewrite lookup_insert. cbn. apply Ha.
  - rewrite lookup_insert_ne by congruence. rewrite Hb by exact Hne. apply Hs.
Qed.

Lemma hold_pos_update s a v' :
  hold_pos s -> (forall t x, v_hold v' !! t = Some x -> 0 < x) ->
  forall s', l_val s' = <[a := v']> (l_val s) -> hold_pos s'.
Proof.
  intros Hs Hv s' E b w t x Hb Hx. rewrite E in Hb. destruct (decide (b = a)) as [->|Hne].
  - rewrite lookup_insert in Hb. injection Hb as <-. eauto.
  - rewrite lookup_insert_ne in Hb by congruence. eauto.
Qed.

(* ---------------------------------------------------------------- folds over the index *)
Lemma index_set_all_lookup toks : forall idx a h t b,
  index_set_all idx a h toks !! (t, b) =
  if bool_decide (b = a /\ t ∈ toks) then Some (amount_of h t) else idx !! (t, b).
Proof.
  unfold index_set_all. induction toks as [|t0 toks IH]; intros idx a h t b; cbn [fold_left].
  - rewrite bool_decide_eq_false_2; [reflexivity|]. intros [_ H]. inversion H.
  - rewrite IH. destruct (decide (b = a /\ t ∈ toks)) as [H|H].
    + rewrite !bool_decide_eq_true_2; [reflexivity| |exact H]. destruct H. split; [auto|right; auto].
    + rewrite (bool_decide_eq_false_2 _ H). destruct (decide (b = a /\ t = t0)) as [[-> ->]|H2].
      * rewrite lookup_insert. rewrite bool_decide_eq_true_2; [reflexivity|]. split; [auto|left].
      * rewrite lookup_insert_ne by (intros [= -> ->]; tauto).
        rewrite bool_decide_eq_false_2; [reflexivity|]. intros [-> Hin]. inversion Hin; subst; tauto.
Qed.

Lemma index_remove_all_lookup toks : forall idx a t b,
  index_remove_all idx a toks !! (t, b) = if bool_decide (b = a /\ t ∈ toks) then None else idx !! (t, b).
Proof.
  unfold index_remove_all. induction toks as [|t0 toks IH]; intros idx a t b; cbn [fold_left].
  - rewrite bool_decide_eq_false_2; [reflexivity|]. intros [_ H]. inversion H.
  - rewrite IH. destruct (decide (b = a /\ t ∈ toks)) as [H|H].
    + rewrite !bool_decide_eq_true_2; [reflexivity| |exact H]. destruct H. split; [auto|right; auto].
    + rewrite (bool_decide_eq_false_2 _ H). destruct (decide (b = a /\ t = t0)) as [[-> ->]|H2].
      * rewrite lookup_delete. rewrite bool_decide_eq_true_2; [reflexivity|]. split; [auto|left].
      * rewrite lookup_delete_ne by (intros [= -> ->]; tauto).
        rewrite bool_decide_eq_false_2; [reflexivity|]. intros [-> Hin]. inversion Hin; subst; tauto.
Qed.

(* ---------------------------------------------------------------- holdings arithmetic *)
Lemma put_amount_lookup h t x u :
  put_amount h t x !! u = if decide (u = t) then (if x =? 0 then None else Some x) else h !! u.
Proof.
  unfold put_amount. destruct (x =? 0) eqn:E; destruct (decide (u = t)) as [->|Hne].
  - apply lookup_delete.
  - apply lookup_delete_ne. congruence.
  - apply lookup_insert.
  - apply lookup_insert_ne. congruence.
Qed.

Definition pos_map (h : gmap N Z) : Prop := forall t x, h !! t = Some x -> 0 < x.

Lemma add_amounts_spec coins : forall h,
  pos_map h -> Forall (fun c : N * Z => 0 < snd c) coins ->
  let h' := fold_left (fun h '(t, amt) => add_amount h t amt) coins h in
  pos_map h' /\ (forall t, t ∉ map fst coins -> h' !! t = h !! t) /\
  (forall t, t ∈ map fst coins -> exists x, h' !! t = Some x /\ amount_of h' t = x).
Proof.
  induction coins as [|[t0 a0] coins IH]; intros h Hp Hc; cbn [fold_left map fst].
  - split; [exact Hp|]. split; [reflexivity|]. intros t H. inversion H.
  - inversion Hc as [|? ? Ha Hc']; subst. cbn in Ha.
    assert (Hp1 : pos_map (add_amount h t0 a0)).
    { intros t x. unfold add_amount. rewrite put_amount_lookup. destruct (decide (t = t0)) as [->|Hne].
      - unfold amount_of. destruct (h !! t0) as [y|] eqn:E; cbn.
        + specialize (Hp _ _ E). destruct (y + a0 =? 0) eqn:Z0; [discriminate|]. intros [= <-]. lia.
        + destruct (0 + a0 =? 0) eqn:Z0; [discriminate|]. intros [= <-]. lia.
      - apply Hp. }
    destruct (IH _ Hp1 Hc') as (P & Out & In). split; [exact P|]. split.
    + intros t Hn. rewrite Out by (intros H; apply Hn; right; exact H).
      unfold add_amount. rewrite put_amount_lookup. destruct (decide (t = t0)) as [->|Hne]; [|reflexivity].
      exfalso. apply Hn. left.
    + intros t Hin. destruct (decide (t ∈ map fst coins)) as [H|H]; [apply In; exact H|].
      inversion Hin; subst; [|tauto].
      rewrite Out by exact H. unfold add_amount. rewrite put_amount_lookup.
      destruct (decide (t0 = t0)); [|congruence].
      assert (0 < amount_of h t0 + a0).
      { unfold amount_of. destruct (h !! t0) as [y|] eqn:E; cbn; [specialize (Hp _ _ E)|]; lia. }
      destruct (amount_of h t0 + a0 =? 0) eqn:Z0; [lia|]. eexists. split; [reflexivity|].
      unfold amount_of at 1. rewrite Out by exact H. unfold add_amount. rewrite put_amount_lookup.
      destruct (decide (t0 = t0)); [|congruence]. rewrite Z0. reflexivity.
Qed.

(* ---------------------------------------------------------------- small transport lemmas *)
Lemma thr_same s s' : l_thr s' = l_thr s -> l_tok s' = l_tok s -> thr_spec s -> thr_spec s'.
Proof. intros E1 E2 H t. rewrite E1, E2. apply H. Qed.
Lemma rank_spec_same s s' : l_val s' = l_val s -> l_rank s' = l_rank s -> rank_spec s -> rank_spec s'.
Proof. intros E1 E2 H p a. rewrite E1, E2. apply H. Qed.
Lemma index_spec_same s s' : l_val s' = l_val s -> l_index s' = l_index s -> index_spec s -> index_spec s'.
Proof. intros E1 E2 H t a. rewrite E1, E2. apply H. Qed.
Lemma hold_pos_same s s' : l_val s' = l_val s -> hold_pos s -> hold_pos s'.
Proof. intros E H a v t x. rewrite E. apply H. Qed.
Lemma dinv_same s s' :
  l_val s' = l_val s -> l_rank s' = l_rank s -> l_index s' = l_index s -> l_thr s' = l_thr s -> l_tok s' = l_tok s ->
  dinv s -> dinv s'.
Proof.
  intros E1 E2 E3 E4 E5 [A B C D]. constructor;
    [eapply rank_spec_same | eapply index_spec_same | eapply thr_same | eapply hold_pos_same]; eauto.
Qed.

(* an unranked validator becomes ranked *)
Lemma rank_enter s a v v' :
  rank_spec s -> l_val s !! a = Some v -> ranked v = false -> ranked v' = true ->
  forall s', l_val s' = <[a := v']> (l_val s) ->
  l_rank s' = (if (0 <? v_power v')%N then {[ (v_power v', a) ]} ∪ l_rank s else l_rank s) ->
  rank_spec s'.
Proof.
  intros Hs E K K' s' Hv Hr. eapply rank_update; [exact Hs| |exact Hv|exact Hr].
  intros p b. destruct (0 <? v_power v')%N eqn:Pos.
  - rewrite elem_of_union, elem_of_singleton. split.
    + intros [Heq|Hin].
      * injection Heq as -> ->. right. repeat split; auto. lia.
      * destruct (decide (b = a)) as [->|Hb]; [|left; auto]. exfalso. eapply rank_unranked; eauto.
    + intros [[Hb Hin]|(-> & _ & <- & _)]; [right; exact Hin | left; reflexivity].
  - split.
    + intros Hin. destruct (decide (b = a)) as [->|Hb]; [|left; auto]. exfalso. eapply rank_unranked; eauto.
    + intros [[Hb Hin]|(-> & _ & <- & Hpos)]; [exact Hin | lia].
Qed.

Lemma index_of_ranked s a v t : index_spec s -> l_val s !! a = Some v -> ranked v = true -> l_index s !! (t, a) = v_hold v !! t.
Proof. intros H E K. rewrite H, E. cbn. rewrite K. reflexivity. Qed.
Lemma index_of_unranked s a v t : index_spec s -> l_val s !! a = Some v -> ranked v = false -> l_index s !! (t, a) = None.
Proof. intros H E K. rewrite H, E. cbn. rewrite K. reflexivity. Qed.

Lemma elem_of_map_fst_map_to_list (h : gmap N Z) t : t ∈ map fst (map_to_list h) <-> is_Some (h !! t).
Proof.
  rewrite elem_of_list_In, in_map_iff. split.
  - intros ([t' x] & <- & Hin). apply elem_of_list_In, elem_of_map_to_list in Hin. eauto.
  - intros [x Hx]. exists (t, x). split; [reflexivity|]. apply elem_of_list_In, elem_of_map_to_list. exact Hx.
Qed.

(* ---------------------------------------------------------------- create *)
Lemma create_validator_inv s c d k s' : dinv s -> create_validator s c d k = Ok s' -> dinv s'.
Proof.
  intros [A B C D]. unfold create_validator. destruct (negb _); [discriminate|].
  destruct (l_val s !! d) as [v|] eqn:E; [intros [= <-]; constructor; assumption|].
  intros [= <-].
  set (v := mkVal k 0 ∅ 0 0 (if bool_decide (d ∈ l_accounts s) then Inactive else Pending) 0 0 0).
  set (s1 := if bool_decide (d ∈ l_accounts s) then s else set_accounts s ({[d]} ∪ l_accounts s)).
  assert (E1 : l_val s1 = l_val s) by (subst s1; destruct (bool_decide _); reflexivity).
  assert (E2 : l_rank s1 = l_rank s) by (subst s1; destruct (bool_decide _); reflexivity).
  assert (E3 : l_index s1 = l_index s) by (subst s1; destruct (bool_decide _); reflexivity).
  assert (E4 : l_thr s1 = l_thr s) by (subst s1; destruct (bool_decide _); reflexivity).
  assert (E5 : l_tok s1 = l_tok s) by (subst s1; destruct (bool_decide _); reflexivity).
  clearbody s1. constructor.
  - eapply (rank_new s d v A E); [right; reflexivity| |]; cbn; congruence.
  - eapply (index_update s d v (l_index s) B); cbn; try congruence.
    intros t. rewrite (B t d), E. cbn. destruct (ranked v); [rewrite lookup_empty|]; reflexivity.
  - eapply thr_same; [| |exact C]; cbn; congruence.
  - eapply (hold_pos_update s d v D); [|cbn; rewrite E1; reflexivity].
    intros t x. cbn. rewrite lookup_empty. discriminate.
Qed.

Lemma create_all_inv reqs : forall s s', dinv s -> create_all s reqs = Ok s' -> dinv s'.
Proof.
  induction reqs as [|[[c d] k] r IH]; intros s s' I; cbn [create_all]; [intros [= <-]; exact I|].
  destruct (create_validator s c d k) as [s1| |] eqn:E; cbn; try discriminate.
  intros H. eapply IH; [|exact H]. eapply create_validator_inv; eauto.
Qed.

(* ---------------------------------------------------------------- lock *)
Lemma lock_one_inv s now a coins s' :
  dinv s -> Forall (fun c : N * Z => 0 < snd c) coins -> lock_one s now a coins = Ok s' -> dinv s'.
Proof.
  intros [A B C D] Hc. unfold lock_one. destruct (l_val s !! a) as [v|] eqn:E; [|discriminate].
  set (h' := fold_left (fun h '(t, amt) => add_amount h t amt) coins (v_hold v)).
  set (gl := fold_left _ coins (g_locked s)).
  assert (Hpos : pos_map (v_hold v)) by (intros t x; apply (D a v t x E)).
  destruct (add_amounts_spec coins (v_hold v) Hpos Hc) as (P' & Out & In). fold h' in P', Out, In.
  destruct (v_status v) eqn:St.
  - (* Pending *)
    destruct (lock_power _ coins (v_power v)) as [p'| |]; cbn [rbind]; try discriminate. intros [= <-].
    set (v' := with_power (with_hold v h') p').
    assert (K' : ranked v' = true) by (unfold ranked; cbn; rewrite St; reflexivity).
    assert (K : ranked v = true) by (unfold ranked; rewrite St; reflexivity).
    constructor.
    + eapply (rank_replace s a v v' A E K'); [unfold rank_add_pos; destruct (0 <? p')%N; reflexivity|].
      unfold rank_add_pos. cbn. destruct (0 <? p')%N; reflexivity.
    + eapply (index_update s a v' (index_set_all (l_index s) a h' (map fst coins)) B); [| |unfold rank_add_pos; destruct (0 <? p')%N; reflexivity|unfold rank_add_pos; destruct (0 <? p')%N; reflexivity].
      * intros t. rewrite K'. cbn [v_hold v' with_power with_hold]. rewrite index_set_all_lookup.
        destruct (decide (t ∈ map fst coins)) as [Hin|Hout].
        -- rewrite bool_decide_eq_true_2 by auto. destruct (In t Hin) as (x & -> & ->). reflexivity.
        -- rewrite bool_decide_eq_false_2 by tauto. cbn. rewrite (index_of_ranked s a v t B E K). symmetry. apply Out. exact Hout.
      * intros t b Hb. rewrite index_set_all_lookup. rewrite bool_decide_eq_false_2 by tauto. reflexivity.
    + eapply thr_same; [| |exact C]; unfold rank_add_pos; destruct (0 <? p')%N; reflexivity.
    + eapply (hold_pos_update s a v' D); [exact P'|]. unfold rank_add_pos; destruct (0 <? p')%N; reflexivity.
  - (* Active *)
    destruct (lock_power _ coins (v_power v)) as [p'| |]; cbn [rbind]; try discriminate. intros [= <-].
    set (v' := with_power (with_hold v h') p').
    assert (K' : ranked v' = true) by (unfold ranked; cbn; rewrite St; reflexivity).
    assert (K : ranked v = true) by (unfold ranked; rewrite St; reflexivity).
    constructor.
    + eapply (rank_replace s a v v' A E K'); [unfold rank_add_pos; destruct (0 <? p')%N; reflexivity|].
      unfold rank_add_pos. cbn. destruct (0 <? p')%N; reflexivity.
    + eapply (index_update s a v' (index_set_all (l_index s) a h' (map fst coins)) B); [| |unfold rank_add_pos; destruct (0 <? p')%N; reflexivity|unfold rank_add_pos; destruct (0 <? p')%N; reflexivity].
      * intros t. rewrite K'. cbn [v_hold v' with_power with_hold]. rewrite index_set_all_lookup.
        destruct (decide (t ∈ map fst coins)) as [Hin|Hout].
        -- rewrite bool_decide_eq_true_2 by auto. destruct (In t Hin) as (x & -> & ->). reflexivity.
        -- rewrite bool_decide_eq_false_2 by tauto. cbn. rewrite (index_of_ranked s a v t B E K). symmetry. apply Out. exact Hout.
      * intros t b Hb. rewrite index_set_all_lookup. rewrite bool_decide_eq_false_2 by tauto. reflexivity.
    + eapply thr_same; [| |exact C]; unfold rank_add_pos; destruct (0 <? p')%N; reflexivity.
    + eapply (hold_pos_update s a v' D); [exact P'|]. unfold rank_add_pos; destruct (0 <? p')%N; reflexivity.
  - (* Tombstoned *)
    intros [= <-]. set (v' := with_hold v h').
    assert (K : ranked v = false) by (unfold ranked; rewrite St; reflexivity).
    constructor.
    + eapply (rank_same s a v v' A E); reflexivity.
    + eapply (index_update s a v' (l_index s) B); try reflexivity.
      intros t. unfold ranked. cbn. rewrite St. cbn. apply (index_of_unranked s a v t B E K).
    + eapply thr_same; [| |exact C]; reflexivity.
    + eapply (hold_pos_update s a v' D); [exact P'|reflexivity].
  - (* Downgrade *)
    assert (K : ranked v = false) by (unfold ranked; rewrite St; reflexivity).
    destruct ((now >? v_jailed v) && thresholds_met _ h').
    + destruct (lock_power _ (map_to_list h') (v_power v)) as [p'| |]; cbn [rbind]; try discriminate. intros [= <-].
      set (v' := with_power (with_status (with_hold v h') Pending) p').
      assert (K' : ranked v' = true) by reflexivity.
      constructor.
      * eapply (rank_enter s a v v' A E K K'); unfold rank_add_pos; cbn; destruct (0 <? p')%N; reflexivity.
      * eapply (index_update s a v' (index_set_all (l_index s) a h' (map fst (map_to_list h'))) B); [| |unfold rank_add_pos; destruct (0 <? p')%N; reflexivity|unfold rank_add_pos; destruct (0 <? p')%N; reflexivity].
        -- intros t. rewrite K'. cbn [v_hold v' with_power with_hold with_status]. rewrite index_set_all_lookup.
           destruct (h' !! t) as [x|] eqn:Ht.
           ++ rewrite bool_decide_eq_true_2; [unfold amount_of; rewrite Ht; reflexivity|]. split; [reflexivity|]. apply elem_of_map_fst_map_to_list. eauto.
           ++ rewrite bool_decide_eq_false_2. { cbn. apply (index_of_unranked s a v t B E K). }
              intros [_ Hin]. apply elem_of_map_fst_map_to_list in Hin. destruct Hin as [x Hx]. congruence.
        -- intros t b Hb. rewrite index_set_all_lookup. rewrite bool_decide_eq_false_2 by tauto. reflexivity.
      * eapply thr_same; [| |exact C]; unfold rank_add_pos; destruct (0 <? p')%N; reflexivity.
      * eapply (hold_pos_update s a v' D); [exact P'|]. unfold rank_add_pos; destruct (0 <? p')%N; reflexivity.
    + intros [= <-]. set (v' := with_hold v h').
      constructor.
      * eapply (rank_same s a v v' A E); reflexivity.
      * eapply (index_update s a v' (l_index s) B); try reflexivity.
        intros t. unfold ranked. cbn. rewrite St. cbn. apply (index_of_unranked s a v t B E K).
      * eapply thr_same; [| |exact C]; reflexivity.
      * eapply (hold_pos_update s a v' D); [exact P'|reflexivity].
  - (* Inactive *)
    intros [= <-]. set (v' := with_hold v h').
    assert (K : ranked v = false) by (unfold ranked; rewrite St; reflexivity).
    constructor.
    + eapply (rank_same s a v v' A E); reflexivity.
    + eapply (index_update s a v' (l_index s) B); try reflexivity.
      intros t. unfold ranked. cbn. rewrite St. cbn. apply (index_of_unranked s a v t B E K).
    + eapply thr_same; [| |exact C]; reflexivity.
    + eapply (hold_pos_update s a v' D); [exact P'|reflexivity].
Qed.

Definition nonneg_coins (cs : list (N * Z)) : Prop := Forall (fun c : N * Z => 0 <= snd c) cs.

Lemma agg_add_nonneg l t amt : nonneg_coins l -> 0 <= amt -> nonneg_coins (agg_add l t amt).
Proof.
  unfold nonneg_coins. induction l as [|[t' a'] r IH]; intros Hl Ha; cbn [agg_add].
  - constructor; [exact Ha|constructor].
  - inversion Hl as [|? ? H1 H2]; subst. cbn in H1. destruct (t' =? t)%N; constructor; cbn; auto; lia.
Qed.

Lemma agg_reqs_nonneg reqs : forall acc,
  Forall (fun x : N * list (N * Z) => nonneg_coins (snd x)) acc ->
  Forall (fun r : N * N * Z => 0 <= snd r) reqs ->
  Forall (fun x : N * list (N * Z) => nonneg_coins (snd x)) (agg_reqs acc reqs).
Proof.
  induction reqs as [|[[a t] amt] r IH]; intros acc Hacc Hr; cbn [agg_reqs]; [exact Hacc|].
  inversion Hr as [|? ? Ha Hr']; subst. cbn in Ha. apply IH; [|exact Hr'].
  clear IH Hr Hr'. induction acc as [|[a' cs] acc IHa].
  - constructor; [|constructor]. cbn. constructor; [exact Ha|constructor].
  - inversion Hacc as [|? ? H1 H2]; subst. cbn in H1. destruct (a' =? a)%N.
    + constructor; [cbn; apply agg_add_nonneg; assumption|exact H2].
    + constructor; [exact H1|apply IHa; exact H2].
Qed.

Lemma nonzero_coins_pos cs : nonneg_coins cs -> Forall (fun c : N * Z => 0 < snd c) (nonzero_coins cs).
Proof.
  unfold nonneg_coins, nonzero_coins. induction cs as [|[t x] r IH]; intros H; cbn [filter]; [constructor|].
  inversion H as [|? ? H1 H2]; subst. cbn in H1. destruct (x =? 0) eqn:E; cbn [negb].
  - apply IH. exact H2.
  - constructor; [cbn; lia|apply IH; exact H2].
Qed.

Lemma lock_each_inv now l : forall s s',
  dinv s -> Forall (fun x : N * list (N * Z) => nonneg_coins (snd x)) l -> lock_each s now l = Ok s' -> dinv s'.
Proof.
  induction l as [|[a cs] r IH]; intros s s' I Hl; cbn [lock_each]; [intros [= <-]; exact I|].
  inversion Hl as [|? ? H1 H2]; subst. cbn in H1.
  destruct (lock_one s now a (nonzero_coins cs)) as [s1| |] eqn:E; cbn [rbind]; try discriminate.
  intros H. eapply IH; [|exact H2|exact H]. eapply lock_one_inv; [exact I| |exact E]. apply nonzero_coins_pos. exact H1.
Qed.

Lemma lock_all_inv s now reqs s' :
  dinv s -> Forall (fun r : N * N * Z => 0 <= snd r) reqs -> lock_all s now reqs = Ok s' -> dinv s'.
Proof.
  intros I Hr. unfold lock_all. apply lock_each_inv; [exact I|]. apply agg_reqs_nonneg; [constructor|exact Hr].
Qed.

(* ---------------------------------------------------------------- unlock *)
Lemma amount_of_nonneg h t : pos_map h -> 0 <= amount_of h t.
Proof. intros P. unfold amount_of. destruct (h !! t) as [x|] eqn:E; cbn; [specialize (P _ _ E)|]; lia. Qed.

Lemma put_amount_pos h t x : pos_map h -> 0 <= x -> pos_map (put_amount h t x).
Proof.
  intros P Hx u y. rewrite put_amount_lookup. destruct (decide (u = t)); [|apply P].
  destruct (x =? 0) eqn:E; [discriminate|]. intros [= <-]. lia.
Qed.

Lemma unlock_one_inv s now id a rc t req s' : dinv s -> unlock_one s now id a rc t req = Ok s' -> dinv s'.
Proof.
  intros [A B C D]. unfold unlock_one. destruct (l_val s !! a) as [v|] eqn:E; [|discriminate].
  cbn [l_tok rank_remove set_rank]. destruct (l_tok s !! t) as [tk|]; [|discriminate].
  assert (Hpos : pos_map (v_hold v)) by (intros u x; apply (D a v u x E)).
  set (have := amount_of (v_hold v) t).
  set (amt := if have <? req then have else req).
  set (remaining := have - amt).
  assert (Hrem : 0 <= remaining).
  { pose proof (amount_of_nonneg (v_hold v) t Hpos). subst remaining amt. fold have in H. destruct (have <? req) eqn:L; lia. }
  set (h' := put_amount (v_hold v) t remaining).
  assert (P' : pos_map h') by (apply put_amount_pos; assumption).
  set (exiting := (match v_status v with Inactive | Tombstoned => true | _ => false end || (remaining <? t_thr tk))).
  set (reduce := negb (amt =? 0) && (0 <? t_weight tk)%N && negb exiting && in_ranking_status (v_status v)).
  destruct (reduce && negb (fits64 (power_of (t_weight tk) amt))); [discriminate|].
  set (p1 := if reduce then sub_power (v_power v) (power_of (t_weight tk) amt) else v_power v).
  destruct exiting eqn:Ex.
  - intros [= <-].
    set (st' := match v_status v with Active | Pending | Downgrade => Inactive | x => x end).
    set (v' := with_hold (with_status (with_power v 0%N) st') h').
    assert (K' : ranked v' = false) by (unfold ranked, v', st'; cbn; destruct (v_status v); reflexivity).
    constructor.
    + eapply (rank_drop s a v v' A E K'); reflexivity.
    + eapply (index_update s a v' (index_remove_all (l_index s) a (map fst (map_to_list (v_hold v)))) B); try reflexivity.
      * intros u. rewrite K'. rewrite index_remove_all_lookup.
        destruct (decide (u ∈ map fst (map_to_list (v_hold v)))) as [Hin|Hout].
        -- rewrite bool_decide_eq_true_2 by auto. reflexivity.
        -- rewrite bool_decide_eq_false_2 by tauto. rewrite (B u a), E. cbn.
           destruct (ranked v); [|reflexivity]. destruct (v_hold v !! u) eqn:Hu; [|reflexivity].
           exfalso. apply Hout. apply elem_of_map_fst_map_to_list. eauto.
      * intros u b Hb. rewrite index_remove_all_lookup. rewrite bool_decide_eq_false_2 by tauto. reflexivity.
    + eapply thr_same; [| |exact C]; reflexivity.
    + eapply (hold_pos_update s a v' D); [exact P'|reflexivity].
  - destruct (in_ranking_status (v_status v)) eqn:K.
    + intros [= <-]. set (v' := with_hold (with_power v p1) h').
      assert (K' : ranked v' = true) by exact K.
      constructor.
      * eapply (rank_replace s a v v' A E K'); unfold rank_add_pos; cbn; destruct (0 <? p1)%N; reflexivity.
      * eapply (index_update s a v' (if remaining =? 0 then delete (t, a) (l_index s) else <[(t, a) := remaining]> (l_index s)) B).
        -- intros u. rewrite K'. cbn [v_hold v' with_hold]. unfold h'. rewrite put_amount_lookup.
           destruct (decide (u = t)) as [->|Hne].
           ++ destruct (remaining =? 0); [apply lookup_delete|apply lookup_insert].
           ++ rewrite <- (index_of_ranked s a v u B E K).
              destruct (remaining =? 0); [apply lookup_delete_ne|apply lookup_insert_ne]; congruence.
        -- intros u b Hb. destruct (remaining =? 0); [apply lookup_delete_ne|apply lookup_insert_ne]; congruence.
        -- unfold rank_add_pos; destruct (0 <? p1)%N; reflexivity.
        -- unfold rank_add_pos; destruct (0 <? p1)%N; reflexivity.
      * eapply thr_same; [| |exact C]; unfold rank_add_pos; destruct (0 <? p1)%N; reflexivity.
      * eapply (hold_pos_update s a v' D); [exact P'|]. unfold rank_add_pos; destruct (0 <? p1)%N; reflexivity.
    + intros [= <-]. set (v' := with_hold (with_power v p1) h').
      assert (K' : ranked v' = false) by exact K.
      constructor.
      * eapply (rank_drop s a v v' A E K'); reflexivity.
      * eapply (index_update s a v' (l_index s) B); try reflexivity.
        intros u. rewrite K'. apply (index_of_unranked s a v u B E K).
      * eapply thr_same; [| |exact C]; reflexivity.
      * eapply (hold_pos_update s a v' D); [exact P'|reflexivity].
Qed.

Lemma unlock_all_inv now reqs : forall s s', dinv s -> unlock_all s now reqs = Ok s' -> dinv s'.
Proof.
  induction reqs as [|[[[[id a] rc] t] amt] r IH]; intros s s' I; cbn [unlock_all]; [intros [= <-]; exact I|].
  destruct (unlock_one s now id a rc t amt) as [s1| |] eqn:E; cbn [rbind]; try discriminate.
  intros H. eapply IH; [|exact H]. eapply unlock_one_inv; eauto.
Qed.

(* ---------------------------------------------------------------- token weights and thresholds *)
Lemma index_entries_ranked s t a amt :
  index_spec s -> In (a, amt) (index_entries s t) -> exists v, l_val s !! a = Some v /\ ranked v = true.
Proof.
  intros B. unfold index_entries. rewrite in_map_iff. intros ([[t' b] x] & Heq & Hin). injection Heq as -> ->.
  apply filter_In in Hin. destruct Hin as [Hin _]. apply elem_of_list_In, elem_of_map_to_list in Hin.
  rewrite (B t' a) in Hin. destruct (l_val s !! a) as [v|]; [|discriminate]. cbn in Hin.
  exists v. split; [reflexivity|]. destruct (ranked v); [reflexivity|discriminate].
Qed.

Lemma weight_walk_inv prev cur es : forall s s',
  dinv s -> (forall a amt, In (a, amt) es -> exists v, l_val s !! a = Some v /\ ranked v = true) ->
  weight_walk s prev cur es = Ok s' -> dinv s' /\ l_tok s' = l_tok s /\ l_thr s' = l_thr s.
Proof.
  induction es as [|[a amt] r IH]; intros s s' I Hes; cbn [weight_walk]; [intros [= <-]; auto|].
  destruct (Hes a amt (or_introl eq_refl)) as (v & E & K). rewrite E.
  set (d := if (prev <? cur)%N then power_of (cur - prev) amt else power_of (prev - cur) amt).
  destruct (negb (fits64 d)); [destruct (prev <? cur)%N; discriminate|].
  set (p' := if (prev <? cur)%N then add_power (v_power v) d else sub_power (v_power v) d).
  set (v' := with_power v p').
  match goal with |- weight_walk ?x _ _ _ = _ -> _ => set (s2 := x) end.
  assert (E2 : l_val s2 = <[a := v']> (l_val s)) by (subst s2; unfold rank_add_pos; destruct (0 <? p')%N; reflexivity).
  destruct I as [A B C D].
  assert (I2 : dinv s2).
  { constructor.
    - eapply (rank_replace s a v v' A E K); [exact E2|]. subst s2. unfold rank_add_pos. cbn. destruct (0 <? p')%N; reflexivity.
    - eapply (index_update s a v' (l_index s) B); [| |exact E2|subst s2; unfold rank_add_pos; destruct (0 <? p')%N; reflexivity]; [|reflexivity].
      intros u. change (ranked v') with (ranked v). rewrite K. cbn. apply (index_of_ranked s a v u B E K).
    - eapply thr_same; [| |exact C]; subst s2; unfold rank_add_pos; destruct (0 <? p')%N; reflexivity.
    - eapply (hold_pos_update s a v' D); [|exact E2]. intros u x. apply (D a v u x E). }
  intros H. destruct (IH s2 s' I2) as (I' & T1 & T2); [|exact H|].
  - intros b x Hin. destruct (Hes b x (or_intror Hin)) as (w & Ew & Kw).
    rewrite E2. destruct (decide (b = a)) as [->|Hne].
    + rewrite lookup_insert. exists v'. split; [reflexivity|exact K].
    + rewrite lookup_insert_ne by congruence. eauto.
  - split; [exact I'|]. rewrite T1, T2. subst s2. unfold rank_add_pos. destruct (0 <? p')%N; auto.
Qed.

Lemma update_weight_inv s t w s' : dinv s -> update_weight s t w = Ok s' -> dinv s'.
Proof.
  intros I. unfold update_weight.
  set (tk := default (mkTok w 0) (l_tok s !! t)).
  destruct (t_weight tk =? w)%N.
  - cbn [rbind]. intros [= <-]. destruct I as [A B C D]. constructor.
    + eapply rank_spec_same; [| |exact A]; reflexivity.
    + eapply index_spec_same; [| |exact B]; reflexivity.
    + intros u. cbn [l_thr l_tok set_tok]. destruct (decide (u = t)) as [->|Hne].
      * rewrite lookup_insert. cbn. rewrite (C t). subst tk. destruct (l_tok s !! t); reflexivity.
      * rewrite lookup_insert_ne by congruence. apply C.
    + eapply hold_pos_same; [|exact D]. reflexivity.
  - destruct (weight_walk s (t_weight tk) w (index_entries s t)) as [s1| |] eqn:W; cbn [rbind]; try discriminate.
    intros [= <-]. destruct (weight_walk_inv _ _ _ _ _ I (fun a amt => index_entries_ranked s t a amt (di_index s I)) W) as ([A B C D] & T1 & T2).
    constructor.
    + eapply rank_spec_same; [| |exact A]; reflexivity.
    + eapply index_spec_same; [| |exact B]; reflexivity.
    + intros u. cbn [l_thr l_tok set_tok]. rewrite T2. destruct (decide (u = t)) as [->|Hne].
      * rewrite lookup_insert. cbn. rewrite (di_thr s I t). subst tk. destruct (l_tok s !! t); reflexivity.
      * rewrite lookup_insert_ne by congruence. rewrite T1. apply (di_thr s I).
    + eapply hold_pos_same; [|exact D]. reflexivity.
Qed.

Lemma update_threshold_inv s t thr s' : dinv s -> update_threshold s t thr = Ok s' -> dinv s'.
Proof.
  intros [A B C D]. unfold update_threshold. destruct (l_tok s !! t) as [tk|] eqn:E; [|discriminate].
  destruct (thr =? t_thr tk); intros [= <-]; [constructor; assumption|].
  constructor.
  - eapply rank_spec_same; [| |exact A]; reflexivity.
  - eapply index_spec_same; [| |exact B]; reflexivity.
  - intros u. cbn [l_thr l_tok set_tok set_thr]. rewrite put_amount_lookup. destruct (decide (u = t)) as [->|Hne].
    + rewrite lookup_insert. reflexivity.
    + rewrite lookup_insert_ne by congruence. apply C.
  - eapply hold_pos_same; [|exact D]. reflexivity.
Qed.

Lemma fold_res_inv {B} (f : lstate -> B -> res lstate) (l : list B) :
  (forall s b s', dinv s -> f s b = Ok s' -> dinv s') -> forall s s', dinv s -> fold_res f l s = Ok s' -> dinv s'.
Proof.
  intros Hf. induction l as [|b r IH]; intros s s' I; cbn [fold_res]; [intros [= <-]; exact I|].
  destruct (f s b) as [s1| |] eqn:E; cbn [rbind]; try discriminate. intros H. eapply IH; [|exact H]. eapply Hf; eauto.
Qed.

Lemma update_tokens_inv s ws ths s' : dinv s -> update_tokens s ws ths = Ok s' -> dinv s'.
Proof.
  intros I. unfold update_tokens.
  destruct (fold_res _ ws s) as [s1| |] eqn:E; cbn [rbind]; try discriminate.
  intros H. eapply (fold_res_inv (fun s '(t, th) => update_threshold s t th)); [| |exact H].
  - intros x [t th] y. apply update_threshold_inv.
  - eapply (fold_res_inv (fun s '(t, w) => update_weight s t w)); [| exact I|exact E].
    intros x [t w] y. apply update_weight_inv.
Qed.

(* ---------------------------------------------------------------- updates that touch neither power, status nor holdings *)
Lemma dinv_neutral s a v v' s' :
  dinv s -> l_val s !! a = Some v -> ranked v' = ranked v -> v_power v' = v_power v -> v_hold v' = v_hold v ->
  l_val s' = <[a := v']> (l_val s) -> l_rank s' = l_rank s -> l_index s' = l_index s -> l_thr s' = l_thr s -> l_tok s' = l_tok s ->
  dinv s'.
Proof.
  intros [A B C D] E K P H Ev Er Ei Et Ek.
  constructor.
  - eapply (rank_same s a v v' A E K P); assumption.
  - eapply (index_update s a v' (l_index s) B); [| |exact Ev|exact Ei]; [|reflexivity].
    intros t. rewrite K, H. rewrite (B t a), E. reflexivity.
  - eapply thr_same; [exact Et|exact Ek|exact C].
  - eapply (hold_pos_update s a v' D); [|exact Ev]. rewrite H. intros t x. apply (D a v t x E).
Qed.

Lemma claim_one_inv s r s' : dinv s -> claim_one s r = Ok s' -> dinv s'.
Proof.
  intros I. destruct r as [[id a] rc]. unfold claim_one. destruct (l_val s !! a) as [v|] eqn:E; [|discriminate].
  intros [= <-]. eapply (dinv_neutral s a v (with_rewards v 0 0) _ I E); reflexivity.
Qed.

Lemma update_reward_pool_inv s h gas grants s' : dinv s -> update_reward_pool s h gas grants = Ok s' -> dinv s'.
Proof.
  intros I. unfold update_reward_pool. destruct gas as [|g [|]]; try discriminate.
  intros [= <-]. eapply dinv_same; [| | | | |exact I]; reflexivity.
Qed.

Lemma distribute_inv gas goat total votes : forall s remg remr s' g r,
  dinv s -> distribute s gas goat total remg remr votes = Ok (s', g, r) -> dinv s'.
Proof.
  induction votes as [|[a p] vs IH]; intros s remg remr s' g r I; cbn [distribute]; [intros [= <- _ _]; exact I|].
  destruct (l_val s !! a) as [v|] eqn:E; [|discriminate].
  intros H. eapply IH; [|exact H].
  match type of H with distribute (set_val _ (<[_ := ?w]> _)) _ _ _ _ _ _ = _ => eapply (dinv_neutral s a v w _ I E); reflexivity end.
Qed.

Lemma distribute_reward_inv s h votes s' : dinv s -> distribute_reward s h votes = Ok s' -> dinv s'.
Proof.
  intros I. unfold distribute_reward. destruct (h <? 2); [intros [= <-]; exact I|].
  destruct (_ =? 0); [discriminate|].
  destruct (distribute _ _ _ _ _ _ _) as [[[s1 g] r]| |] eqn:E; cbn [rbind]; try discriminate.
  intros [= <-]. eapply dinv_same; [| | | | |eapply distribute_inv; eauto]; reflexivity.
Qed.

Lemma dequeue_mature_inv s now : dinv s -> dinv (dequeue_mature s now).
Proof.
  intros I. unfold dequeue_mature. destruct (filter _ _); [exact I|].
  eapply dinv_same; [| | | | |exact I]; reflexivity.
Qed.

(* ---------------------------------------------------------------- slashing *)
Lemma slash_amount_bounds x frac : 0 < x -> 0 <= frac <= one18 -> 0 <= x - slash_amount x frac.
Proof.
  intros Hx Hf. unfold slash_amount.
  assert (0 <= x * frac / one18 <= x).
  { split; [apply Z.div_pos; [nia|reflexivity]|]. apply Z.div_le_upper_bound; [reflexivity|]. unfold one18 in *. nia. }
  destruct (x * frac / one18 =? 0); lia.
Qed.

Lemma slash_fold a frac l : forall acc,
  let r := fold_left (slash_step a frac) l acc in
  l_val (fst r) = l_val (fst acc) /\ l_rank (fst r) = l_rank (fst acc) /\ l_tok (fst r) = l_tok (fst acc) /\
  l_thr (fst r) = l_thr (fst acc) /\
  (forall t b, l_index (fst r) !! (t, b) = if bool_decide (b = a /\ t ∈ map fst l) then None else l_index (fst acc) !! (t, b)) /\
  (0 <= frac <= one18 -> pos_map (snd acc) -> Forall (fun c : N * Z => 0 < snd c) l -> pos_map (snd r)).
Proof.
  induction l as [|[t0 x] l IH]; intros acc; cbn [fold_left].
  - repeat split; auto. intros t b. rewrite bool_decide_eq_false_2; [reflexivity|]. intros [_ H]. inversion H.
  - destruct (IH (slash_step a frac acc (t0, x))) as (E1 & E2 & E3 & E4 & E5 & E6). cbn zeta in *.
    repeat split; try (etransitivity; [eassumption|reflexivity]).
    + intros t b. rewrite E5. cbn [slash_step fst snd l_index set_index set_slashed map].
      destruct (decide (b = a /\ t ∈ map fst l)) as [H|H].
      * rewrite !bool_decide_eq_true_2; [reflexivity| |exact H]. destruct H; split; [auto|right; auto].
      * rewrite (bool_decide_eq_false_2 _ H). destruct (decide (b = a /\ t = t0)) as [[-> ->]|H2].
        -- rewrite lookup_delete. rewrite bool_decide_eq_true_2; [reflexivity|]. split; [auto|left].
        -- rewrite lookup_delete_ne by (intros [= -> ->]; tauto).
           rewrite bool_decide_eq_false_2; [reflexivity|]. intros [-> Hin]. inversion Hin; subst; tauto.
    + intros Hf Hp Hl. inversion Hl as [|? ? Hx Hl']; subst. cbn in Hx. apply E6; [exact Hf| |exact Hl'].
      cbn [slash_step snd fst]. apply put_amount_pos; [exact Hp|]. apply slash_amount_bounds; assumption.
Qed.

Definition slash_ok (s : lstate) : Prop :=
  0 <= lp_slash_down (l_params s) <= one18 /\ 0 <= lp_slash_double (l_params s) <= one18.

Lemma pos_map_list (h : gmap N Z) : pos_map h -> Forall (fun c : N * Z => 0 < snd c) (map_to_list h).
Proof.
  intros P. apply List.Forall_forall. intros [t x] Hin. apply elem_of_list_In, elem_of_map_to_list in Hin. cbn. eauto.
Qed.

(* the validator is taken out of the ranking, slashed and given a non-ranked status *)
Lemma punish_inv s a v frac (mk : validator -> gmap N Z -> validator) s' :
  dinv s -> 0 <= frac <= one18 -> l_val s !! a = Some v ->
  (forall h, ranked (mk v h) = false) -> (forall h, v_hold (mk v h) = h) ->
  (let '(s2, h') := slash_holdings (rank_remove s (v_power v) a) a (v_hold v) frac in
   set_val s2 (<[a := mk v h']> (l_val s2))) = s' ->
  dinv s'.
Proof.
  intros [A B C D] Hf E K' Hh. unfold slash_holdings.
  destruct (slash_fold a frac (map_to_list (v_hold v)) (rank_remove s (v_power v) a, ∅)) as (E1 & E2 & E3 & E4 & E5 & E6).
  cbn zeta in *. destruct (fold_left _ _ _) as [s2 h'] eqn:F. cbn [fst snd] in *. intros <-.
  assert (P' : pos_map h').
  { apply E6; [exact Hf|intros t x; rewrite lookup_empty; discriminate|]. apply pos_map_list. intros t x. apply (D a v t x E). }
  constructor.
  - eapply (rank_drop s a v (mk v h') A E (K' h')); cbn; [rewrite E1|rewrite E2]; reflexivity.
  - eapply (index_update s a (mk v h') (l_index s2) B); [| |cbn; rewrite E1; reflexivity|reflexivity].
    + intros t. rewrite K'. rewrite E5. destruct (decide (t ∈ map fst (map_to_list (v_hold v)))) as [Hin|Hout].
      * rewrite bool_decide_eq_true_2 by auto. reflexivity.
      * rewrite bool_decide_eq_false_2 by tauto. cbn. rewrite (B t a), E. cbn. destruct (ranked v); [|reflexivity].
        destruct (v_hold v !! t) eqn:Hu; [|reflexivity]. exfalso. apply Hout. apply elem_of_map_fst_map_to_list. eauto.
    + intros t b Hb. rewrite E5. rewrite bool_decide_eq_false_2 by tauto. reflexivity.
  - eapply thr_same; [cbn; rewrite E4; reflexivity|cbn; rewrite E3; reflexivity|exact C].
  - eapply (hold_pos_update s a (mk v h') D); [rewrite Hh; exact P'|cbn; rewrite E1; reflexivity].
Qed.

Lemma handle_vote_inv s now a absent s' : dinv s -> slash_ok s -> handle_vote s now a absent = Ok s' -> dinv s'.
Proof.
  intros I [Hd _]. unfold handle_vote. destruct (l_val s !! a) as [v|] eqn:E; [|discriminate].
  destruct (negb _); [intros [= <-]; exact I|].
  set (missed := if absent then v_missed v + 1 else v_missed v).
  destruct (v_offset v + 1 >=? lp_window (l_params s)); cbn zeta.
  - destruct (missed >=? lp_max_missed (l_params s)).
    + intros H. eapply (punish_inv s a v _ (fun v h => with_jailed (with_power (with_status (with_hold (with_signing v 0 0) h) Downgrade) 0%N) (now + lp_jail_dur (l_params s))) s' I Hd E); [reflexivity|reflexivity|].
      destruct (slash_holdings _ _ _ _) as [s2 h']. injection H as <-. reflexivity.
    + intros [= <-]. eapply (dinv_neutral s a v (with_signing v 0 0) _ I E); reflexivity.
  - destruct (missed >=? lp_max_missed (l_params s)).
    + intros H. eapply (punish_inv s a v _ (fun v h => with_jailed (with_power (with_status (with_hold (with_signing v (v_offset v + 1) missed) h) Downgrade) 0%N) (now + lp_jail_dur (l_params s))) s' I Hd E); [reflexivity|reflexivity|].
      destruct (slash_holdings _ _ _ _) as [s2 h']. injection H as <-. reflexivity.
    + intros [= <-]. eapply (dinv_neutral s a v (with_signing v (v_offset v + 1) missed) _ I E); reflexivity.
Qed.

Lemma handle_evidence_inv s now h lim e s' : dinv s -> slash_ok s -> handle_evidence s now h lim e = Ok s' -> dinv s'.
Proof.
  intros I [_ Hd]. destruct e as [[[a et] eh] counted]. unfold handle_evidence.
  destruct (negb counted); [intros [= <-]; exact I|].
  destruct (evidence_expired _ _ _ _ _); [intros [= <-]; exact I|].
  destruct (l_val s !! a) as [v|] eqn:E; [|discriminate].
  destruct (bool_decide _); [intros [= <-]; exact I|].
  intros H. eapply (punish_inv s a v _ (fun v h => with_power (with_status (with_hold v h) Tombstoned) 0%N) s' I Hd E); [reflexivity|reflexivity|].
  destruct (slash_holdings _ _ _ _) as [s2 h']. injection H as <-. reflexivity.
Qed.

(* ---------------------------------------------------------------- block hooks *)

Lemma end_walk_inv r : forall s last ups count s' last' ups',
  dinv s -> end_walk s last ups count r = Ok (s', last', ups') -> dinv s'.
Proof.
  induction r as [|[p a] r IH]; intros s last ups count s' last' ups' I; cbn [end_walk]; [intros [= <- _ _]; exact I|].
  destruct (count >=? _); [intros [= <- _ _]; exact I|].
  destruct (l_val s !! a) as [v|] eqn:E; [|discriminate].
  destruct (v_status v) eqn:St; try discriminate.
  - destruct (last !! a); [discriminate|]. intros H. eapply IH; [|exact H].
    eapply (dinv_neutral s a v (with_signing (with_status v Active) 0 0) _ I E); try reflexivity.
    unfold ranked. cbn. rewrite St. reflexivity.
  - destruct (_ =? _)%N; intros H; (eapply IH; [|exact H]); [exact I|].
    eapply dinv_same; [| | | | |exact I]; reflexivity.
Qed.

Lemma end_remove_inv l : forall s ups s' ups', dinv s -> end_remove s ups l = Ok (s', ups') -> dinv s'.
Proof.
  induction l as [|a l IH]; intros s ups s' ups' I; cbn [end_remove]; [intros [= <- _]; exact I|].
  destruct (l_val s !! a) as [v|] eqn:E; [|discriminate].
  intros H. eapply IH; [|exact H].
  destruct (bool_decide (v_status v = Active)) eqn:Bd.
  - apply bool_decide_eq_true_1 in Bd.
    eapply dinv_same with (s := set_val s (<[a := with_status v Pending]> (l_val s))); try reflexivity.
    eapply (dinv_neutral s a v (with_status v Pending) _ I E); try reflexivity.
    unfold ranked. cbn. rewrite Bd. reflexivity.
  - eapply dinv_same; [| | | | |exact I]; reflexivity.
Qed.

Lemma end_block_inv s s' ups : dinv s -> end_block s = Ok (s', ups) -> dinv s'.
Proof.
  intros I. unfold end_block.
  destruct (end_walk s (l_set s) [] 0 (rank_desc s)) as [[[s1 rest] u1]| |] eqn:W; cbn [rbind]; try discriminate.
  intros H. eapply end_remove_inv; [|exact H]. eapply end_walk_inv; eauto.
Qed.

Lemma dequeue_txs_inv s : dinv s -> dinv (fst (dequeue_txs s)).
Proof.
  intros I. unfold dequeue_txs. destruct (l_q_rewards s), (l_q_unlocks s); cbn [fst]; try exact I;
    (eapply dinv_same; [| | | | |exact I]; reflexivity).
Qed.

(* ---------------------------------------------------------------- the parameters never change *)
Ltac par_simple := intros; repeat match goal with
  | H : context [match ?x with _ => _ end] |- _ => destruct x eqn:?; try discriminate
  | H : Ok _ = Ok _ |- _ => injection H as <-
  end; try reflexivity.

Lemma par_create s c d k s' : create_validator s c d k = Ok s' -> l_params s' = l_params s.
Proof. unfold create_validator. intros H. par_simple. Qed.
Lemma par_create_all reqs : forall s s', create_all s reqs = Ok s' -> l_params s' = l_params s.
Proof.
  induction reqs as [|[[c d] k] r IH]; intros s s'; cbn [create_all]; [intros [= <-]; reflexivity|].
  destruct (create_validator s c d k) as [s1| |] eqn:E; cbn [rbind]; try discriminate.
  intros H. rewrite (IH _ _ H). eapply par_create; eauto.
Qed.
Lemma par_lock_one s now a coins s' : lock_one s now a coins = Ok s' -> l_params s' = l_params s.
Proof.
  unfold lock_one. destruct (l_val s !! a) as [v|]; [|discriminate].
  destruct (v_status v).
  - destruct (lock_power _ _ _); cbn [rbind]; try discriminate. intros [= <-]. unfold rank_add_pos. destruct (0 <? _)%N; reflexivity.
  - destruct (lock_power _ _ _); cbn [rbind]; try discriminate. intros [= <-]. unfold rank_add_pos. destruct (0 <? _)%N; reflexivity.
  - intros [= <-]. reflexivity.
  - destruct (_ && _).
    + destruct (lock_power _ _ _); cbn [rbind]; try discriminate. intros [= <-]. unfold rank_add_pos. destruct (0 <? _)%N; reflexivity.
    + intros [= <-]. reflexivity.
  - intros [= <-]. reflexivity.
Qed.
Lemma par_lock_each now l : forall s s', lock_each s now l = Ok s' -> l_params s' = l_params s.
Proof.
  induction l as [|[a cs] r IH]; intros s s'; cbn [lock_each]; [intros [= <-]; reflexivity|].
  destruct (lock_one s now a _) as [s1| |] eqn:E; cbn [rbind]; try discriminate.
  intros H. rewrite (IH _ _ H). eapply par_lock_one; eauto.
Qed.
Lemma par_unlock_one s now id a rc t req s' : unlock_one s now id a rc t req = Ok s' -> l_params s' = l_params s.
Proof.
  unfold unlock_one. destruct (l_val s !! a) as [v|]; [|discriminate].
  cbn [l_tok rank_remove set_rank]. destruct (l_tok s !! t) as [tk|]; [|discriminate].
  destruct (_ && negb (fits64 _)); [discriminate|].
  destruct (_ || _).
  - intros [= <-]. reflexivity.
  - destruct (in_ranking_status _); intros [= <-]; [unfold rank_add_pos; destruct (0 <? _)%N|]; reflexivity.
Qed.
Lemma par_unlock_all now reqs : forall s s', unlock_all s now reqs = Ok s' -> l_params s' = l_params s.
Proof.
  induction reqs as [|[[[[id a] rc] t] amt] r IH]; intros s s'; cbn [unlock_all]; [intros [= <-]; reflexivity|].
  destruct (unlock_one s now id a rc t amt) as [s1| |] eqn:E; cbn [rbind]; try discriminate.
  intros H. rewrite (IH _ _ H). eapply par_unlock_one; eauto.
Qed.
Lemma par_weight_walk prev cur es : forall s s', weight_walk s prev cur es = Ok s' -> l_params s' = l_params s.
Proof.
  induction es as [|[a amt] r IH]; intros s s'; cbn [weight_walk]; [intros [= <-]; reflexivity|].
  destruct (l_val s !! a) as [v|]; [|discriminate].
  destruct (negb (fits64 _)); [destruct (prev <? cur)%N; discriminate|].
  intros H. rewrite (IH _ _ H). unfold rank_add_pos. destruct (0 <? _)%N; reflexivity.
Qed.
Lemma par_fold_res {B} (f : lstate -> B -> res lstate) (l : list B) :
  (forall s b s', f s b = Ok s' -> l_params s' = l_params s) -> forall s s', fold_res f l s = Ok s' -> l_params s' = l_params s.
Proof.
  intros Hf. induction l as [|b r IH]; intros s s'; cbn [fold_res]; [intros [= <-]; reflexivity|].
  destruct (f s b) as [s1| |] eqn:E; cbn [rbind]; try discriminate. intros H. rewrite (IH _ _ H). eapply Hf; eauto.
Qed.
Lemma par_update_weight s t w s' : update_weight s t w = Ok s' -> l_params s' = l_params s.
Proof.
  unfold update_weight. destruct (_ =? _)%N; cbn [rbind]; [intros [= <-]; reflexivity|].
  destruct (weight_walk _ _ _ _) as [s1| |] eqn:W; cbn [rbind]; try discriminate.
  intros [= <-]. cbn. eapply par_weight_walk; eauto.
Qed.
Lemma par_update_threshold s t th s' : update_threshold s t th = Ok s' -> l_params s' = l_params s.
Proof. unfold update_threshold. intros H. par_simple. Qed.
Lemma par_update_tokens s ws ths s' : update_tokens s ws ths = Ok s' -> l_params s' = l_params s.
Proof.
  unfold update_tokens. destruct (fold_res _ ws s) as [s1| |] eqn:E; cbn [rbind]; try discriminate.
  intros H. rewrite (par_fold_res (fun s '(t, th) => update_threshold s t th) ths) with (s := s1) (s' := s'); [| |exact H].
  - eapply (par_fold_res (fun s '(t, w) => update_weight s t w)); [|exact E]. intros x [t w] y. apply par_update_weight.
  - intros x [t th] y. apply par_update_threshold.
Qed.
Lemma par_claim s r s' : claim_one s r = Ok s' -> l_params s' = l_params s.
Proof. destruct r as [[id a] rc]. unfold claim_one. intros H. par_simple. Qed.
Lemma par_pool s h gas grants s' : update_reward_pool s h gas grants = Ok s' -> l_params s' = l_params s.
Proof. unfold update_reward_pool. intros H. par_simple. Qed.
Lemma par_requests s now h q s' : process_requests s now h q = Ok s' -> l_params s' = l_params s.
Proof.
  unfold process_requests.
  destruct (update_reward_pool _ _ _ _) as [s1| |] eqn:E1; cbn [rbind]; try discriminate.
  destruct (update_tokens _ _ _) as [s2| |] eqn:E2; cbn [rbind]; try discriminate.
  destruct (create_all _ _) as [s3| |] eqn:E3; cbn [rbind]; try discriminate.
  destruct (lock_all _ _ _) as [s4| |] eqn:E4; cbn [rbind]; try discriminate.
  destruct (unlock_all _ _ _) as [s5| |] eqn:E5; cbn [rbind]; try discriminate.
  intros H. rewrite (par_fold_res claim_one _ par_claim _ _ H), (par_unlock_all _ _ _ _ E5).
  unfold lock_all in E4. rewrite (par_lock_each _ _ _ _ E4), (par_create_all _ _ _ E3), (par_update_tokens _ _ _ _ E2).
  eapply par_pool; eauto.
Qed.

Lemma par_distribute gas goat total votes : forall s remg remr s' g r,
  distribute s gas goat total remg remr votes = Ok (s', g, r) -> l_params s' = l_params s.
Proof.
  induction votes as [|[a p] vs IH]; intros s remg remr s' g r; cbn [distribute]; [intros [= <- _ _]; reflexivity|].
  destruct (l_val s !! a) as [v|]; [|discriminate]. intros H. rewrite (IH _ _ _ _ _ _ H). reflexivity.
Qed.
Lemma par_distribute_reward s h votes s' : distribute_reward s h votes = Ok s' -> l_params s' = l_params s.
Proof.
  unfold distribute_reward. destruct (h <? 2); [intros [= <-]; reflexivity|].
  destruct (_ =? 0); [discriminate|].
  destruct (distribute _ _ _ _ _ _ _) as [[[s1 g] r]| |] eqn:E; cbn [rbind]; try discriminate.
  intros [= <-]. cbn. eapply par_distribute; eauto.
Qed.
Lemma par_dequeue_mature s now : l_params (dequeue_mature s now) = l_params s.
Proof. unfold dequeue_mature. destruct (filter _ _); reflexivity. Qed.
Lemma par_slash a frac l : forall acc, l_params (fst (fold_left (slash_step a frac) l acc)) = l_params (fst acc).
Proof. induction l as [|x l IH]; intros acc; cbn [fold_left]; [reflexivity|]. rewrite IH. reflexivity. Qed.
Lemma par_handle_vote s now a absent s' : handle_vote s now a absent = Ok s' -> l_params s' = l_params s.
Proof.
  unfold handle_vote. destruct (l_val s !! a) as [v|]; [|discriminate].
  destruct (negb _); [intros [= <-]; reflexivity|].
  destruct (_ >=? lp_window _); cbn zeta; destruct (_ >=? lp_max_missed _); try (intros [= <-]; reflexivity).
  all: unfold slash_holdings; match goal with |- context [fold_left ?f ?l ?acc] => pose proof (par_slash a (lp_slash_down (l_params s)) l acc) as P; destruct (fold_left f l acc) as [s2 h'] end;
       intros [= <-]; cbn in *; exact P.
Qed.
Lemma par_handle_evidence s now h lim e s' : handle_evidence s now h lim e = Ok s' -> l_params s' = l_params s.
Proof.
  destruct e as [[[a et] eh] counted]. unfold handle_evidence.
  destruct (negb counted); [intros [= <-]; reflexivity|].
  destruct (evidence_expired _ _ _ _ _); [intros [= <-]; reflexivity|].
  destruct (l_val s !! a) as [v|]; [|discriminate].
  destruct (bool_decide _); [intros [= <-]; reflexivity|].
  unfold slash_holdings; match goal with |- context [fold_left ?f ?l ?acc] => pose proof (par_slash a (lp_slash_double (l_params s)) l acc) as P; destruct (fold_left f l acc) as [s2 h'] end.
  intros [= <-]; cbn in *; exact P.
Qed.
Lemma par_begin s now h lim votes evs s' : begin_block s now h lim votes evs = Ok s' -> l_params s' = l_params s.
Proof.
  unfold begin_block. destruct (distribute_reward _ _ _) as [s1| |] eqn:E1; cbn [rbind]; try discriminate.
  destruct (fold_res _ votes _) as [s3| |] eqn:E3; cbn [rbind]; try discriminate.
  intros H.
  rewrite (par_fold_res (fun s e => handle_evidence s now h lim e) evs) with (s := s3) (s' := s'); [| |exact H].
  - rewrite (par_fold_res (fun s '(a, _, f) => handle_vote s now a f) votes) with (s := dequeue_mature s1 now) (s' := s3); [| |exact E3].
    + rewrite par_dequeue_mature. eapply par_distribute_reward; eauto.
    + intros x [[a p] f] y. apply par_handle_vote.
  - intros x e y. apply par_handle_evidence.
Qed.
Lemma par_end_walk r : forall s last ups count s' last' ups',
  end_walk s last ups count r = Ok (s', last', ups') -> l_params s' = l_params s.
Proof.
  induction r as [|[p a] r IH]; intros s last ups count s' last' ups'; cbn [end_walk]; [intros [= <- _ _]; reflexivity|].
  destruct (count >=? _); [intros [= <- _ _]; reflexivity|].
  destruct (l_val s !! a) as [v|]; [|discriminate].
  destruct (v_status v); try discriminate.
  - destruct (last !! a); [discriminate|]. intros H. rewrite (IH _ _ _ _ _ _ _ H). reflexivity.
  - destruct (_ =? _)%N; intros H; rewrite (IH _ _ _ _ _ _ _ H); reflexivity.
Qed.
Lemma par_end_remove l : forall s ups s' ups', end_remove s ups l = Ok (s', ups') -> l_params s' = l_params s.
Proof.
  induction l as [|a l IH]; intros s ups s' ups'; cbn [end_remove]; [intros [= <- _]; reflexivity|].
  destruct (l_val s !! a) as [v|]; [|discriminate].
  intros H. rewrite (IH _ _ _ _ H). destruct (bool_decide _); reflexivity.
Qed.
Lemma par_end_block s s' ups : end_block s = Ok (s', ups) -> l_params s' = l_params s.
Proof.
  unfold end_block. destruct (end_walk _ _ _ _ _) as [[[s1 rest] u1]| |] eqn:W; cbn [rbind]; try discriminate.
  intros H. rewrite (par_end_remove _ _ _ _ _ H). eapply par_end_walk; eauto.
Qed.
Lemma par_step s o : l_params (fst (lk_step s o)) = l_params s.
Proof.
  destruct o; cbn [lk_step]; unfold deliver.
  - destruct (begin_block _ _ _ _ _ _) as [x| |] eqn:E; cbn; try reflexivity. eapply par_begin; eauto.
  - destruct (process_requests _ _ _ _) as [x| |] eqn:E; cbn; try reflexivity. eapply par_requests; eauto.
  - destruct (end_block s) as [[x u]| |] eqn:E; cbn; try reflexivity. eapply par_end_block; eauto.
  - unfold dequeue_txs. destruct (l_q_rewards s), (l_q_unlocks s); reflexivity.
  - reflexivity.
Qed.

(* ---------------------------------------------------------------- every operation preserves the invariant *)
Lemma slash_ok_same s s' : l_params s' = l_params s -> slash_ok s -> slash_ok s'.
Proof. unfold slash_ok. intros ->. auto. Qed.

Lemma begin_block_inv s now h lim votes evs s' :
  dinv s -> slash_ok s -> begin_block s now h lim votes evs = Ok s' -> dinv s'.
Proof.
  intros I S. unfold begin_block. destruct (distribute_reward _ _ _) as [s1| |] eqn:E1; cbn [rbind]; try discriminate.
  destruct (fold_res _ votes _) as [s3| |] eqn:E3; cbn [rbind]; try discriminate.
  intros H.
  assert (I1 : dinv (dequeue_mature s1 now)) by (apply dequeue_mature_inv; eapply distribute_reward_inv; eauto).
  assert (S1 : slash_ok (dequeue_mature s1 now)).
  { eapply slash_ok_same; [|exact S]. rewrite par_dequeue_mature. eapply par_distribute_reward; eauto. }
  (* votes *)
  assert (I3 : dinv s3 /\ slash_ok s3).
  { revert I1 S1 E3. generalize (dequeue_mature s1 now). clear. induction votes as [|[[a p] f] r IH]; intros x I1 S1; cbn [fold_res]; [intros [= <-]; auto|].
    destruct (handle_vote x now a f) as [y| |] eqn:E; cbn [rbind]; try discriminate.
    apply IH; [eapply handle_vote_inv; eauto|]. eapply slash_ok_same; [eapply par_handle_vote; eauto|exact S1]. }
  destruct I3 as [I3 S3]. revert I3 S3 H. generalize s3. clear. induction evs as [|e r IH]; intros x I S; cbn [fold_res]; [intros [= <-]; exact I|].
  destruct (handle_evidence x now h lim e) as [y| |] eqn:E; cbn [rbind]; try discriminate.
  apply IH; [eapply handle_evidence_inv; eauto|]. eapply slash_ok_same; [eapply par_handle_evidence; eauto|exact S].
Qed.

(* request lists carry unsigned amounts *)
Definition wf_op (o : lkop) : Prop :=
  match o with
  | KReq _ _ q => Forall (fun r : N * N * Z => 0 <= snd r) (q_locks q)
  | _ => True
  end.

Lemma process_requests_inv s now h q s' :
  dinv s -> Forall (fun r : N * N * Z => 0 <= snd r) (q_locks q) -> process_requests s now h q = Ok s' -> dinv s'.
Proof.
  intros I Hq. unfold process_requests.
  destruct (update_reward_pool _ _ _ _) as [s1| |] eqn:E1; cbn [rbind]; try discriminate.
  destruct (update_tokens _ _ _) as [s2| |] eqn:E2; cbn [rbind]; try discriminate.
  destruct (create_all _ _) as [s3| |] eqn:E3; cbn [rbind]; try discriminate.
  destruct (lock_all _ _ _) as [s4| |] eqn:E4; cbn [rbind]; try discriminate.
  destruct (unlock_all _ _ _) as [s5| |] eqn:E5; cbn [rbind]; try discriminate.
  intros H. eapply (fold_res_inv claim_one); [intros x r y; apply claim_one_inv| |exact H].
  eapply unlock_all_inv; [|exact E5]. eapply lock_all_inv; [|exact Hq|exact E4].
  eapply create_all_inv; [|exact E3]. eapply update_tokens_inv; [|exact E2]. eapply update_reward_pool_inv; eauto.
Qed.

Theorem lk_step_inv s o : dinv s -> slash_ok s -> wf_op o -> dinv (fst (lk_step s o)) /\ slash_ok (fst (lk_step s o)).
Proof.
  intros I S W. split; [|eapply slash_ok_same; [apply par_step|exact S]].
  destruct o; cbn [lk_step]; unfold deliver.
  - destruct (begin_block _ _ _ _ _ _) as [x| |] eqn:E; cbn; try exact I. eapply begin_block_inv; eauto.
  - destruct (process_requests _ _ _ _) as [x| |] eqn:E; cbn; try exact I. eapply process_requests_inv; eauto.
  - destruct (end_block s) as [[x u]| |] eqn:E; cbn; try exact I. eapply end_block_inv; eauto.
  - pose proof (dequeue_txs_inv s I) as D. destruct (dequeue_txs s) as [x t]. exact D.
  - cbn. eapply dinv_same; [| | | | |exact I]; reflexivity.
Qed.

Lemma dinv_empty p rem goat gas acc : dinv (empty_lstate p rem goat gas acc).
Proof.
  constructor.
  - intros q a. cbn. split; [intros H; apply elem_of_empty in H; destruct H|]. intros (v & E & _). rewrite lookup_empty in E. discriminate.
  - intros t a. cbn. rewrite !lookup_empty. reflexivity.
  - intros t. cbn. rewrite !lookup_empty. reflexivity.
  - intros a v t x E. cbn in E. rewrite lookup_empty in E. discriminate.
Qed.

(* every state reachable from the empty state by well-formed operations *)
Theorem reachable_dinv p rem goat gas acc ops :
  0 <= lp_slash_down p <= one18 -> 0 <= lp_slash_double p <= one18 -> Forall wf_op ops ->
  dinv (lk_run (empty_lstate p rem goat gas acc) ops).
Proof.
  intros H1 H2 W. unfold lk_run.
  assert (G : forall s, dinv s -> slash_ok s -> dinv (fold_left (fun s o => fst (lk_step s o)) ops s)).
  { induction W as [|o r Ho Hr IH]; intros s I S; cbn [fold_left]; [exact I|].
    destruct (lk_step_inv s o I S Ho) as [I' S']. apply IH; assumption. }
  apply G; [apply dinv_empty|]. split; assumption.
Qed.
