(* C06 over whole histories, bridge module: the three hand-over queues (credited deposits, paid withdrawals,
   refunded withdrawals) are first-in-first-out conveyors.  Every operation other than the hand-over step only
   appends to them; the hand-over step removes a prefix and that prefix is exactly what it delivers.  Hence for
   every history:   delivered so far ++ still queued  =  initially queued ++ everything appended, in order:
   nothing is dropped, duplicated, invented or reordered. *)
From stdpp Require Import gmap.
From Goat Require Import Base.Prelude Gen.Consts Model.Merkle Model.BtcParams Model.Bridge Proofs.BridgeSeq Proofs.BridgeFrames Proofs.BridgeQueue.
Local Open Scope N_scope.

(* what a list of hand-over transactions delivers, by kind *)
Definition del_dep (txs : list btx) : list deprcpt := flat_map (fun t => match t with TxDeposit _ d => [d] | _ => [] end) txs.
Definition del_paid (txs : list btx) : list (N * receipt) := flat_map (fun t => match t with TxPaid _ id r => [(id, r)] | _ => [] end) txs.
Definition del_rej (txs : list btx) : list N := flat_map (fun t => match t with TxReject _ id => [id] | _ => [] end) txs.

Lemma del_dep_app a b : del_dep (a ++ b) = del_dep a ++ del_dep b.
Proof. apply flat_map_app. Qed.
Lemma del_paid_app a b : del_paid (a ++ b) = del_paid a ++ del_paid b.
Proof. apply flat_map_app. Qed.
Lemma del_rej_app a b : del_rej (a ++ b) = del_rej a ++ del_rej b.
Proof. apply flat_map_app. Qed.

Lemma del_number_dep l : forall n, del_dep (number_from TxDeposit n l) = l /\ del_paid (number_from TxDeposit n l) = [] /\ del_rej (number_from TxDeposit n l) = [].
Proof.
  induction l as [|x l IH]; intros n; cbn; [auto|]. destruct (IH (n + 1)) as (A & B & C).
  unfold del_dep, del_paid, del_rej in *. cbn. rewrite A, B, C. auto.
Qed.
Lemma del_number_paid l : forall n,
  del_dep (number_from (fun n '(id, r) => TxPaid n id r) n l) = [] /\
  del_paid (number_from (fun n '(id, r) => TxPaid n id r) n l) = l /\
  del_rej (number_from (fun n '(id, r) => TxPaid n id r) n l) = [].
Proof.
  induction l as [|[id r] l IH]; intros n; cbn; [auto|]. destruct (IH (n + 1)) as (A & B & C).
  unfold del_dep, del_paid, del_rej in *. cbn. rewrite A, B, C. auto.
Qed.
Lemma del_number_rej l : forall n,
  del_dep (number_from TxReject n l) = [] /\ del_paid (number_from TxReject n l) = [] /\ del_rej (number_from TxReject n l) = l.
Proof.
  induction l as [|x l IH]; intros n; cbn; [auto|]. destruct (IH (n + 1)) as (A & B & C).
  unfold del_dep, del_paid, del_rej in *. cbn. rewrite A, B, C. auto.
Qed.

Lemma bop_eq_dequeue o : o = BDequeue \/ o <> BDequeue.
Proof. destruct o; (left; reflexivity) || (right; discriminate). Qed.

Section HO.
Variable H : bytes -> bytes.
Variable chain_id : bytes.

(* the hand-over step removes exactly what it delivers, from the front *)
Theorem dequeue_delivers_prefix s s' txs : dequeue_btc s = Ok (s', txs) ->
  b_qdep s = del_dep txs ++ b_qdep s' /\ b_qpaid s = del_paid txs ++ b_qpaid s' /\ b_qrej s = del_rej txs ++ b_qrej s'.
Proof.
  intros Hd. destruct (dequeue_spec s s' txs Hd) as (t1 & cur & Ht1 & Htx & Hnil & Hne & _).
  assert (Dt1 : del_dep t1 = [] /\ del_paid t1 = [] /\ del_rej t1 = []).
  { destruct Ht1 as [[-> _]|(h & _ & _ & -> & _)]; cbn; auto. }
  destruct Dt1 as (D1 & D2 & D3).
  set (ds := firstn (N.to_nat c_MaxDeposit) (b_qdep s)) in *.
  set (ps := firstn (N.to_nat c_MaxWithdrawal) (b_qpaid s)) in *.
  set (rs := firstn (N.to_nat c_MaxWithdrawal - length ps) (b_qrej s)) in *.
  assert (Dd : del_dep txs = ds /\ del_paid txs = ps /\ del_rej txs = rs).
  { rewrite Htx. rewrite !del_dep_app, !del_paid_app, !del_rej_app, D1, D2, D3.
    destruct (del_number_dep ds (b_nonce s + N.of_nat (length t1))) as (A1 & A2 & A3).
    destruct (del_number_paid ps (b_nonce s + N.of_nat (length t1) + N.of_nat (length ds))) as (B1 & B2 & B3).
    destruct (del_number_rej rs (b_nonce s + N.of_nat (length t1) + N.of_nat (length ds) + N.of_nat (length ps))) as (C1 & C2 & C3).
    rewrite A1, A2, A3, B1, B2, B3, C1, C2, C3. cbn [app]. rewrite !app_nil_r. auto. }
  destruct Dd as (E1 & E2 & E3).
  destruct txs as [|t txs'].
  - rewrite (Hnil eq_refl). cbn. auto.
  - destruct (Hne ltac:(discriminate)) as (_ & _ & Q1 & Q2 & Q3). rewrite E1, E2, E3. auto.
Qed.

(* every other operation only appends *)
Definition appends (s s' : bstate) : Prop :=
  (exists a, b_qdep s' = b_qdep s ++ a) /\ (exists a, b_qpaid s' = b_qpaid s ++ a) /\ (exists a, b_qrej s' = b_qrej s ++ a).
Lemma appends_refl s : appends s s.
Proof. repeat split; exists []; rewrite app_nil_r; reflexivity. Qed.
Lemma appends_qp s s' : qp s' = qp s -> appends s s'.
Proof. unfold qp. intros E. injection E as _ _ E1 E2 E3. repeat split; exists []; rewrite app_nil_r; assumption. Qed.

Lemma qp_bridge_withdraw s r : qp (bridge_withdraw s r) = qp s.
Proof. destruct r as [[[[id amt] price] addr] sc]. reflexivity. Qed.
Lemma qp_bridge_rbf s r s' : bridge_rbf s r = Ok s' -> qp s' = qp s.
Proof. destruct r as [id price]. unfold bridge_rbf. intros E. des E; inversion E; reflexivity. Qed.
Lemma qp_bridge_cancel1 s id s' : bridge_cancel1 s id = Ok s' -> qp s' = qp s.
Proof. unfold bridge_cancel1. intros E. des E; inversion E; reflexivity. Qed.

Theorem step_appends s o : o <> BDequeue -> appends s (fst (bk_step H chain_id s o)) /\ snd (snd (bk_step H chain_id s o)) = [].
Proof.
  intros Hno. pose proof (qp_frame H chain_id s o) as Hf.
  destruct o; try (split; [apply appends_qp; exact Hf|]); try contradiction; cbn [bk_step];
    try (match goal with |- snd (snd (deliver_b _ ?r)) = [] => destruct r; reflexivity end); try reflexivity.
  - (* deposits: the receipts of the accepted deposits are appended to the deposit queue *)
    destruct (new_deposits H s prop headers ds) as [s'| |] eqn:E; cbn; try (split; [apply appends_refl|reflexivity]).
    split; [|reflexivity]. unfold new_deposits, rbind in E. des E.
    match goal with Hv : verify_non_proposal _ _ = Ok _ |- _ => apply qp_verify_non_proposal in Hv; rename Hv into Hq1 end.
    match goal with Hl : deposits_loop _ _ _ _ _ = Ok _ |- _ => apply (qp_deposits_loop H) in Hl; rename Hl into Hq2 end.
    inversion E; subst. unfold qp in *. injection Hq1 as _ _ A1 A2 A3. injection Hq2 as _ _ B1 B2 B3.
    repeat split; cbn [b_qdep b_qpaid b_qrej set_queue].
    + eexists. rewrite B1, A1. reflexivity.
    + exists []. rewrite app_nil_r, B2, A2. reflexivity.
    + exists []. rewrite app_nil_r, B3, A3. reflexivity.
  - (* finalisation: the paid withdrawals are appended to the paid queue *)
    destruct (finalize_withdrawal H s prop pid txid height txindex proof header) as [s'| |] eqn:E; cbn; try (split; [apply appends_refl|reflexivity]).
    split; [|reflexivity]. unfold finalize_withdrawal, rbind in E. des E.
    match goal with Hv : verify_non_proposal _ _ = Ok _ |- _ => apply qp_verify_non_proposal in Hv; rename Hv into Hq1 end.
    match goal with Hl : finalize_loop _ _ _ _ _ _ = Ok _ |- _ => apply qp_finalize_loop in Hl; rename Hl into Hq2 end.
    inversion E; subst. unfold qp in *. injection Hq1 as _ _ A1 A2 A3. injection Hq2 as _ _ B1 B2 B3.
    repeat split; cbn [b_qdep b_qpaid b_qrej set_queue set_wd].
    + exists []. rewrite app_nil_r, B1, A1. reflexivity.
    + eexists. rewrite B2, A2. reflexivity.
    + exists []. rewrite app_nil_r, B3, A3. reflexivity.
  - (* approved cancellations: their ids are appended to the refund queue *)
    destruct (approve_cancellation s prop ids) as [s'| |] eqn:E; cbn; try (split; [apply appends_refl|reflexivity]).
    split; [|reflexivity]. unfold approve_cancellation, rbind in E. des E.
    match goal with Hv : verify_non_proposal _ _ = Ok _ |- _ => apply qp_verify_non_proposal in Hv; rename Hv into Hq1 end.
    match goal with Hl : cancel_loop _ _ = Ok _ |- _ => apply qp_cancel_loop in Hl; rename Hl into Hq2 end.
    inversion E; subst. unfold qp in *. injection Hq1 as _ _ A1 A2 A3. injection Hq2 as _ _ B1 B2 B3.
    repeat split; cbn [b_qdep b_qpaid b_qrej set_queue].
    + exists []. rewrite app_nil_r, B1, A1. reflexivity.
    + exists []. rewrite app_nil_r, B2, A2. reflexivity.
    + eexists. rewrite B3, A3. reflexivity.
  - (* execution-layer requests: withdrawals to undecodable addresses are appended to the refund queue *)
    destruct (process_bridge_request s q) as [s'| |] eqn:E; cbn; try (split; [apply appends_refl|reflexivity]).
    split; [|reflexivity]. unfold process_bridge_request, rbind in E. cbv zeta in E.
    set (s1 := fold_left bridge_withdraw (br_withdraws q) s) in *.
    assert (Q1 : qp s1 = qp s) by (apply qp_fold_left; intros; apply qp_bridge_withdraw).
    match type of E with context [fold_res bridge_rbf _ ?x] => set (s2 := x) in * end.
    destruct (fold_res bridge_rbf (br_rbfs q) s2) as [s3| |] eqn:E3; try discriminate E.
    destruct (fold_res bridge_cancel1 (br_cancels q) s3) as [s4| |] eqn:E4; try discriminate E.
    apply (qp_fold_res bridge_rbf qp_bridge_rbf) in E3. apply (qp_fold_res bridge_cancel1 qp_bridge_cancel1) in E4.
    inversion E; subst s'. unfold qp in *. injection Q1 as _ _ A1 A2 A3. injection E3 as _ _ B1 B2 B3. injection E4 as _ _ C1 C2 C3.
    subst s2. cbn [b_qdep b_qpaid b_qrej set_queue] in *. unfold set_bparams. cbn [b_qdep b_qpaid b_qrej].
    repeat split.
    + exists []. rewrite app_nil_r, C1, B1, A1. reflexivity.
    + exists []. rewrite app_nil_r, C2, B2, A2. reflexivity.
    + eexists. rewrite C3, B3, A3. reflexivity.
Qed.

(* ---------------------------------------------------------------- histories *)
(* run a history, collecting what the hand-over steps deliver *)
Fixpoint collect (s : bstate) (ops : list bop) : bstate * list btx :=
  match ops with
  | [] => (s, [])
  | o :: r => let '(s1, (_, t)) := bk_step H chain_id s o in let '(s2, ts) := collect s1 r in (s2, t ++ ts)
  end.

Theorem handover_conservation ops : forall s,
  let '(s', txs) := collect s ops in
  (exists a, del_dep txs ++ b_qdep s' = b_qdep s ++ a) /\
  (exists a, del_paid txs ++ b_qpaid s' = b_qpaid s ++ a) /\
  (exists a, del_rej txs ++ b_qrej s' = b_qrej s ++ a).
Proof.
  induction ops as [|o r IH]; intros s; cbn [collect].
  - cbn. repeat split; exists []; rewrite app_nil_r; reflexivity.
  - destruct (bk_step H chain_id s o) as [s1 [c t]] eqn:Es.
    specialize (IH s1). destruct (collect s1 r) as [s2 ts].
    destruct IH as ((a1 & I1) & (a2 & I2) & (a3 & I3)).
    assert (Hstep : (exists b, del_dep t ++ b_qdep s1 = b_qdep s ++ b) /\ (exists b, del_paid t ++ b_qpaid s1 = b_qpaid s ++ b) /\
                    (exists b, del_rej t ++ b_qrej s1 = b_qrej s ++ b)).
    { destruct (bop_eq_dequeue o) as [->|Hno].
      - cbn [bk_step] in Es. destruct (dequeue_btc s) as [[s1' t']| |] eqn:Ed.
        + inversion Es; subst. destruct (dequeue_delivers_prefix s s1 t Ed) as (D1 & D2 & D3).
          repeat split; exists []; rewrite app_nil_r; symmetry; assumption.
        + inversion Es; subst. cbn. repeat split; exists []; rewrite app_nil_r; reflexivity.
        + inversion Es; subst. cbn. repeat split; exists []; rewrite app_nil_r; reflexivity.
      - destruct (step_appends s o Hno) as [((b1 & B1) & (b2 & B2) & (b3 & B3)) Ht]. rewrite Es in *. cbn [fst snd] in *. subst t.
        cbn. repeat split; eexists; eassumption. }
    destruct Hstep as ((b1 & S1) & (b2 & S2) & (b3 & S3)).
    rewrite del_dep_app, del_paid_app, del_rej_app. repeat split.
    + exists (b1 ++ a1). rewrite <- app_assoc, I1, app_assoc, S1, <- app_assoc. reflexivity.
    + exists (b2 ++ a2). rewrite <- app_assoc, I2, app_assoc, S2, <- app_assoc. reflexivity.
    + exists (b3 ++ a3). rewrite <- app_assoc, I3, app_assoc, S3, <- app_assoc. reflexivity.
Qed.
End HO.
