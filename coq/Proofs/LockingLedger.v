(* C11: conservation of locked funds.  ledger_ok is preserved by every operation of the model. *)
From stdpp Require Import gmap sorting.
From Goat Require Import Base.Prelude Gen.Consts Model.Locking.
Local Open Scope Z_scope.

(* ---------- total holdings over all validators ---------- *)
Definition total_hold (m : gmap N validator) (t : N) : Z :=
  map_fold (fun _ v acc => amount_of (v_hold v) t + acc) 0 m.

Lemma total_hold_empty t : total_hold ∅ t = 0.
Proof. reflexivity. Qed.

Lemma total_hold_insert_new m a v t : m !! a = None ->
  total_hold (<[a := v]> m) t = amount_of (v_hold v) t + total_hold m t.
Proof.
  intros H. unfold total_hold. rewrite map_fold_insert_L; auto. intros; lia.
Qed.

Lemma total_hold_insert m a v v' t : m !! a = Some v ->
  total_hold (<[a := v']> m) t = total_hold m t - amount_of (v_hold v) t + amount_of (v_hold v') t.
Proof.
  intros H.
  rewrite <- (insert_delete m a v H) at 2.
  rewrite <- (insert_delete_insert m a v').
  rewrite !total_hold_insert_new by apply lookup_delete. lia.
Qed.

(* ---------- amount algebra ---------- *)
Lemma amount_of_put h t a t' : amount_of (put_amount h t a) t' = if decide (t' = t) then a else amount_of h t'.
Proof.
  unfold amount_of, put_amount. destruct (a =? 0) eqn:E.
  - destruct (decide (t' = t)) as [->|Hne].
    + rewrite lookup_delete. cbn. lia.
    + rewrite lookup_delete_ne by congruence. reflexivity.
  - destruct (decide (t' = t)) as [->|Hne].
    + rewrite lookup_insert. reflexivity.
    + rewrite lookup_insert_ne by congruence. reflexivity.
Qed.

Lemma amount_of_add h t a t' : amount_of (add_amount h t a) t' = amount_of h t' + (if decide (t' = t) then a else 0).
Proof. unfold add_amount. rewrite amount_of_put. destruct (decide (t' = t)) as [->|]; lia. Qed.

Lemma amount_of_zmap_add m k a t : amount_of (zmap_add m k a) t = amount_of m t + (if decide (t = k) then a else 0).
Proof.
  unfold amount_of, zmap_add. destruct (decide (t = k)) as [->|Hne].
  - rewrite lookup_insert. reflexivity.
  - rewrite lookup_insert_ne by congruence. lia.
Qed.

Definition coins_sum (coins : list (N * Z)) (t : N) : Z :=
  fold_right (fun '(t', a) acc => (if decide (t = t') then a else 0) + acc) 0 coins.

Lemma coins_sum_cons t' a r t : coins_sum ((t', a) :: r) t = (if decide (t = t') then a else 0) + coins_sum r t.
Proof. reflexivity. Qed.

Lemma fold_add_amount coins : forall h t,
  amount_of (fold_left (fun h '(t, amt) => add_amount h t amt) coins h) t = amount_of h t + coins_sum coins t.
Proof.
  induction coins as [|[t' a] r IH]; intros h t; [cbn; lia|]. cbn [fold_left]. rewrite coins_sum_cons.
  rewrite IH, amount_of_add. destruct (decide (t = t')); lia.
Qed.

Lemma fold_zmap_add coins : forall g t,
  amount_of (fold_left (fun g '(t, amt) => zmap_add g t amt) coins g) t = amount_of g t + coins_sum coins t.
Proof.
  induction coins as [|[t' a] r IH]; intros g t; [cbn; lia|]. cbn [fold_left]. rewrite coins_sum_cons.
  rewrite IH, amount_of_zmap_add. destruct (decide (t = t')); lia.
Qed.

(* ---------- the ledger invariant ---------- *)
Definition ledger_ok (s : lstate) : Prop :=
  forall t, amount_of (g_locked s) t =
            total_hold (l_val s) t + amount_of (l_slashed s) t + amount_of (g_released s) t.

(* "frame": an operation that leaves the four ledger components alone *)
Definition ledger_same (s s' : lstate) : Prop :=
  l_val s' = l_val s /\ l_slashed s' = l_slashed s /\ g_locked s' = g_locked s /\ g_released s' = g_released s.

Lemma ledger_same_ok s s' : ledger_same s s' -> ledger_ok s -> ledger_ok s'.
Proof. intros (A & B & C & D) H t. rewrite A, B, C, D. apply H. Qed.

(* an operation that only rewrites validator records without changing any holdings *)
Definition holds_same (s s' : lstate) : Prop :=
  (forall t, total_hold (l_val s') t = total_hold (l_val s) t) /\
  l_slashed s' = l_slashed s /\ g_locked s' = g_locked s /\ g_released s' = g_released s.

Lemma holds_same_ok s s' : holds_same s s' -> ledger_ok s -> ledger_ok s'.
Proof. intros (A & B & C & D) H t. rewrite A, B, C, D. apply H. Qed.

Lemma holds_same_refl s : holds_same s s.
Proof. repeat split. Qed.

Lemma holds_same_trans s1 s2 s3 : holds_same s1 s2 -> holds_same s2 s3 -> holds_same s1 s3.
Proof.
  intros (A & B & C & D) (A' & B' & C' & D'). split; [|repeat split; congruence].
  intros t. rewrite A', A. reflexivity.
Qed.

Lemma insert_same_hold m a v v' t : m !! a = Some v -> v_hold v' = v_hold v ->
  total_hold (<[a := v']> m) t = total_hold m t.
Proof. intros H E. rewrite (total_hold_insert m a v v' t H), E. lia. Qed.

(* ---------- create ---------- *)
Lemma create_validator_hs s c d k s' : create_validator s c d k = Ok s' -> holds_same s s'.
Proof.
  unfold create_validator. destruct (negb (c =? d)%N); [discriminate|].
  destruct (l_val s !! d) eqn:E; intros H; inversion H; subst; [apply holds_same_refl|].
  destruct (bool_decide (d ∈ l_accounts s)); repeat split; cbn; intros;
    rewrite total_hold_insert_new by assumption; cbn; unfold amount_of; rewrite lookup_empty; cbn; lia.
Qed.

Lemma create_all_hs reqs : forall s s', create_all s reqs = Ok s' -> holds_same s s'.
Proof.
  induction reqs as [|[[c d] k] r IH]; intros s s' H; cbn in H.
  - inversion H; apply holds_same_refl.
  - destruct (create_validator s c d k) eqn:E; cbn in H; try discriminate.
    eapply holds_same_trans; [eapply create_validator_hs; eauto | eapply IH; eauto].
Qed.

(* ---------- lock ---------- *)
Lemma lock_one_ledger s now a coins s' : lock_one s now a coins = Ok s' -> ledger_ok s -> ledger_ok s'.
Proof.
  unfold lock_one. destruct (l_val s !! a) as [v|] eqn:Ev; [|discriminate].
  set (h' := fold_left (fun h '(t, amt) => add_amount h t amt) coins (v_hold v)).
  set (gl := fold_left (fun g '(t, amt) => zmap_add g t amt) coins (g_locked s)).
  intros H L.
  assert (Key : forall s'' v', l_val s'' = <[a := v']> (l_val s) -> v_hold v' = h' -> l_slashed s'' = l_slashed s ->
                 g_locked s'' = gl -> g_released s'' = g_released s -> ledger_ok s'').
  { intros s'' v' A Hh B C D t. rewrite A, B, C, D.
    rewrite (total_hold_insert _ a v v' t Ev), Hh. unfold h', gl.
    rewrite fold_add_amount, fold_zmap_add. specialize (L t). lia. }
  destruct (v_status v).
  - (* Pending *)
    destruct (lock_power _ coins (v_power v)) as [p'| |] eqn:Ep; cbn in H; try discriminate.
    inversion H; subst. unfold rank_add_pos. destruct (0 <? p')%N; eapply Key; reflexivity.
  - destruct (lock_power _ coins (v_power v)) as [p'| |] eqn:Ep; cbn in H; try discriminate.
    inversion H; subst. unfold rank_add_pos. destruct (0 <? p')%N; eapply Key; reflexivity.
  - inversion H; subst. eapply Key; reflexivity.
  - destruct ((now >? v_jailed v) && thresholds_met _ h').
    + destruct (lock_power _ _ (v_power v)) as [p'| |] eqn:Ep; cbn in H; try discriminate.
      inversion H; subst. unfold rank_add_pos. destruct (0 <? p')%N; eapply Key; reflexivity.
    + inversion H; subst. eapply Key; reflexivity.
  - inversion H; subst. eapply Key; reflexivity.
Qed.

Lemma lock_each_ledger l : forall s now s', lock_each s now l = Ok s' -> ledger_ok s -> ledger_ok s'.
Proof.
  induction l as [|[a cs] r IH]; intros s now s' H L; cbn in H.
  - inversion H; subst; exact L.
  - destruct (lock_one s now a (nonzero_coins cs)) eqn:E; cbn in H; try discriminate.
    eapply IH; eauto. eapply lock_one_ledger; eauto.
Qed.

(* ---------- unlock ---------- *)
Lemma unlock_one_ledger s now id a rc t req s' :
  unlock_one s now id a rc t req = Ok s' -> ledger_ok s -> ledger_ok s'.
Proof.
  unfold unlock_one. destruct (l_val s !! a) as [v|] eqn:Ev; [|discriminate].
  cbn [l_tok rank_remove set_rank].
  destruct (l_tok s !! t) as [tk|] eqn:Et; [|discriminate].
  set (have := amount_of (v_hold v) t).
  set (amt := if have <? req then have else req).
  set (h' := put_amount (v_hold v) t (have - amt)).
  intros H L.
  assert (Key : forall s'' v', l_val s'' = <[a := v']> (l_val s) -> v_hold v' = h' -> l_slashed s'' = l_slashed s ->
                 g_locked s'' = g_locked s -> g_released s'' = zmap_add (g_released s) t amt -> ledger_ok s'').
  { intros s'' v' A Hh B C D t0. rewrite A, B, C, D.
    rewrite (total_hold_insert _ a v v' t0 Ev), Hh. unfold h'.
    rewrite amount_of_put, amount_of_zmap_add. specialize (L t0).
    destruct (decide (t0 = t)) as [->|]; fold have; lia. }
  match type of H with (if ?c then _ else _) = _ => destruct c; [discriminate|] end.
  match type of H with context [if ?c then _ else _] => destruct c eqn:Eexit end.
  - inversion H; subst. eapply Key; reflexivity.
  - destruct (in_ranking_status (v_status v)); inversion H; subst.
    + unfold rank_add_pos. match goal with |- context [if ?c then _ else _] => destruct c end; eapply Key; reflexivity.
    + eapply Key; reflexivity.
Qed.

Lemma unlock_all_ledger reqs : forall s now s', unlock_all s now reqs = Ok s' -> ledger_ok s -> ledger_ok s'.
Proof.
  induction reqs as [|[[[[id a] rc] t] amt] r IH]; intros s now s' H L; cbn in H.
  - inversion H; subst; exact L.
  - destruct (unlock_one s now id a rc t amt) eqn:E; cbn in H; try discriminate.
    eapply IH; eauto. eapply unlock_one_ledger; eauto.
Qed.

(* a single unlock releases min(requested, held): never more than requested nor than held *)
Definition unlock_amount (have req : Z) : Z := if have <? req then have else req.
Lemma unlock_amount_bound have req : 0 <= have -> 0 <= req ->
  0 <= unlock_amount have req /\ unlock_amount have req <= req /\ unlock_amount have req <= have.
Proof. unfold unlock_amount. destruct (have <? req) eqn:E; lia. Qed.

(* ---------- token updates ---------- *)
Lemma weight_walk_hs es : forall s prev cur s', weight_walk s prev cur es = Ok s' -> holds_same s s'.
Proof.
  induction es as [|[a amt] r IH]; intros s prev cur s' H; cbn in H.
  - inversion H; apply holds_same_refl.
  - destruct (l_val s !! a) as [v|] eqn:Ev; [|discriminate].
    match type of H with (if ?c then _ else _) = _ => destruct c; [destruct (prev <? cur)%N; discriminate|] end.
    eapply holds_same_trans; [|eapply IH; eauto].
    unfold rank_add_pos. match goal with |- context [if ?c then _ else _] => destruct c end;
      repeat split; cbn; intros; eapply insert_same_hold; eauto.
Qed.

Lemma update_weight_hs s t w s' : update_weight s t w = Ok s' -> holds_same s s'.
Proof.
  unfold update_weight. intros H.
  destruct (t_weight (default (mkTok w 0) (l_tok s !! t)) =? w)%N.
  - cbn in H. inversion H; subst. repeat split.
  - destruct (weight_walk _ _ _ _) eqn:E; cbn in H; try discriminate. inversion H; subst.
    apply weight_walk_hs in E. destruct E as (A & B & C & D). repeat split; cbn; auto.
Qed.

Lemma update_threshold_hs s t th s' : update_threshold s t th = Ok s' -> holds_same s s'.
Proof.
  unfold update_threshold. destruct (l_tok s !! t); [|discriminate].
  destruct (th =? t_thr t0); intros H; inversion H; subst; repeat split.
Qed.

Lemma fold_res_hs {B} (f : lstate -> B -> res lstate) (Hf : forall s b s', f s b = Ok s' -> holds_same s s') :
  forall l s s', fold_res f l s = Ok s' -> holds_same s s'.
Proof.
  induction l as [|b r IH]; intros s s' H; cbn in H.
  - inversion H; apply holds_same_refl.
  - destruct (f s b) eqn:E; cbn in H; try discriminate.
    eapply holds_same_trans; [eapply Hf; eauto | eapply IH; eauto].
Qed.

Lemma update_tokens_hs s ws ths s' : update_tokens s ws ths = Ok s' -> holds_same s s'.
Proof.
  unfold update_tokens. intros H.
  destruct (fold_res _ ws s) eqn:E; cbn in H; try discriminate.
  eapply holds_same_trans.
  - eapply (fold_res_hs (fun s '(t, w) => update_weight s t w)); [|exact E].
    intros ? [? ?] ? ?; eapply update_weight_hs; eauto.
  - eapply (fold_res_hs (fun s '(t, th) => update_threshold s t th)); [|exact H].
    intros ? [? ?] ? ?; eapply update_threshold_hs; eauto.
Qed.

(* ---------- claim / reward pool / distribution ---------- *)
Lemma claim_one_hs s r s' : claim_one s r = Ok s' -> holds_same s s'.
Proof.
  destruct r as [[id a] rc]. unfold claim_one. destruct (l_val s !! a) as [v|] eqn:Ev; [|discriminate].
  intros H; inversion H; subst. repeat split; cbn. intros. eapply insert_same_hold; eauto.
Qed.

Lemma update_reward_pool_hs s h gas grants s' : update_reward_pool s h gas grants = Ok s' -> holds_same s s'.
Proof.
  unfold update_reward_pool. destruct gas as [|g [|]]; try discriminate.
  intros H; inversion H; subst. repeat split.
Qed.

Lemma distribute_hs votes : forall s gas goat total rg rr s' g r,
  distribute s gas goat total rg rr votes = Ok (s', g, r) -> holds_same s s'.
Proof.
  induction votes as [|[a p] vs IH]; intros s gas goat total rg rr s' g r H; cbn in H.
  - inversion H; apply holds_same_refl.
  - destruct (l_val s !! a) as [v|] eqn:Ev; [|discriminate].
    eapply holds_same_trans; [|eapply IH; eauto].
    repeat split; cbn. intros. eapply insert_same_hold; eauto.
Qed.

Lemma distribute_reward_hs s h votes s' : distribute_reward s h votes = Ok s' -> holds_same s s'.
Proof.
  unfold distribute_reward. destruct (h <? 2); [intros H; inversion H; apply holds_same_refl|].
  destruct (sumZ (map snd votes) =? 0); [discriminate|].
  destruct (distribute _ _ _ _ _ _ _) as [[[s1 g] r]| |] eqn:E; cbn; try discriminate.
  intros H; inversion H; subst. apply distribute_hs in E. destruct E as (A & B & C & D).
  repeat split; cbn; auto.
Qed.

Lemma dequeue_mature_hs s now : holds_same s (dequeue_mature s now).
Proof. unfold dequeue_mature. destruct (filter _ _); repeat split. Qed.

(* ---------- slashing ---------- *)
Definition slashed_part (h : gmap N Z) (frac : Z) (t : N) : Z :=
  match h !! t with Some a => slash_amount a frac | None => 0 end.

Fixpoint found_amount (l : list (N * Z)) (t : N) : Z :=
  match l with
  | [] => 0
  | (t', x) :: r => if decide (t' = t) then x else found_amount r t
  end.

Lemma found_amount_notin l t : t ∉ map fst l -> found_amount l t = 0.
Proof.
  induction l as [|[t' x] r IH]; cbn; intros H; [reflexivity|].
  apply not_elem_of_cons in H. destruct H as [H1 H2].
  destruct (decide (t' = t)); [congruence|]. apply IH; exact H2.
Qed.

Lemma found_amount_in l t x : base.NoDup (map fst l) -> (t, x) ∈ l -> found_amount l t = x.
Proof.
  induction l as [|[t' x'] r IH]; cbn; intros ND H; [inversion H|].
  inversion ND as [|? ? Hnin ND']; subst.
  apply elem_of_cons in H. destruct H as [H|H].
  - inversion H; subst. destruct (decide (t' = t')); congruence.
  - destruct (decide (t' = t)) as [->|]; [|apply IH; auto].
    exfalso. apply Hnin. apply elem_of_list_fmap. exists (t, x). auto.
Qed.

Lemma slash_fold frac a l : base.NoDup (map fst l) -> forall acc,
  (forall t x, (t, x) ∈ l -> snd acc !! t = None) ->
  let res := fold_left (slash_step a frac) l acc in
  l_val (fst res) = l_val (fst acc) /\ g_locked (fst res) = g_locked (fst acc) /\ g_released (fst res) = g_released (fst acc) /\
  forall t, amount_of (l_slashed (fst res)) t + amount_of (snd res) t =
            amount_of (l_slashed (fst acc)) t + amount_of (snd acc) t + found_amount l t.
Proof.
  induction l as [|[t0 x0] r IH]; intros ND acc Hfresh; cbn [fold_left].
  - repeat split. intros t. cbn. lia.
  - inversion ND as [|? ? Hnin ND']; subst.
    specialize (IH ND' (slash_step a frac acc (t0, x0))).
    destruct IH as (A & B & C & D).
    { intros t x Hin. unfold slash_step. cbn [snd fst]. unfold put_amount. destruct (_ =? 0).
      - destruct (decide (t = t0)) as [->|]; [apply lookup_delete|]. rewrite lookup_delete_ne by congruence. eapply Hfresh; right; eauto.
      - destruct (decide (t = t0)) as [->|].
        + exfalso. apply Hnin. apply elem_of_list_fmap. exists (t0, x). auto.
        + rewrite lookup_insert_ne by congruence. eapply Hfresh; right; eauto. }
    cbv zeta. rewrite A, B, C. repeat split.
    intros t. rewrite D. unfold slash_step at 1 2. cbn [fst snd l_slashed set_slashed set_index].
    rewrite amount_of_zmap_add, amount_of_put.
    cbn [found_amount]. destruct (decide (t0 = t)) as [->|Hne].
    + destruct (decide (t = t)); [|congruence].
      rewrite (found_amount_notin r t) by exact Hnin.
      assert (amount_of (snd acc) t = 0) as ->. { unfold amount_of. rewrite (Hfresh t x0); [reflexivity|left]. }
      lia.
    + destruct (decide (t = t0)); [congruence|]. lia.
Qed.

Lemma slash_holdings_ledger s a h frac s2 h2 :
  slash_holdings s a h frac = (s2, h2) ->
  l_val s2 = l_val s /\ g_locked s2 = g_locked s /\ g_released s2 = g_released s /\
  forall t, amount_of (l_slashed s2) t + amount_of h2 t = amount_of (l_slashed s) t + amount_of h t.
Proof.
  unfold slash_holdings. intros H.
  pose proof (slash_fold frac a (map_to_list h) (NoDup_fst_map_to_list h) (s, ∅)) as K.
  cbv zeta in K. rewrite H in K. cbn [fst snd] in K.
  destruct K as (A & B & C & D); [intros; apply lookup_empty|].
  repeat split; auto. intros t. rewrite D.
  assert (amount_of (∅ : gmap N Z) t = 0) as -> by (unfold amount_of; rewrite lookup_empty; reflexivity).
  destruct (h !! t) as [x|] eqn:Ex.
  - rewrite (found_amount_in _ t x (NoDup_fst_map_to_list h)) by (apply elem_of_map_to_list; exact Ex).
    unfold amount_of at 3. rewrite Ex. cbn. lia.
  - rewrite found_amount_notin.
    + unfold amount_of at 3. rewrite Ex. cbn. lia.
    + intros Hin. apply elem_of_list_fmap in Hin. destruct Hin as ([t' x] & Ht & Hin). cbn in Ht. subst t'.
      apply elem_of_map_to_list in Hin. congruence.
Qed.

Lemma slashed_validator_ledger s a v frac s2 h2 (f : validator -> validator) :
  l_val s !! a = Some v ->
  slash_holdings (rank_remove s (v_power v) a) a (v_hold v) frac = (s2, h2) ->
  (forall x, v_hold (f x) = v_hold x) ->
  forall v1, v_hold v1 = h2 ->
  ledger_ok s -> ledger_ok (set_val s2 (<[a := f v1]> (l_val s2))).
Proof.
  intros Ev Hs Hf v1 Hv1 L t.
  apply slash_holdings_ledger in Hs. destruct Hs as (A & B & C & D). cbn in A, B, C, D.
  cbn [l_val l_slashed g_locked g_released set_val]. rewrite A, B, C.
  rewrite (total_hold_insert _ a v _ t Ev), Hf, Hv1. specialize (D t). specialize (L t). lia.
Qed.

Lemma handle_vote_ledger s now a absent s' : handle_vote s now a absent = Ok s' -> ledger_ok s -> ledger_ok s'.
Proof.
  unfold handle_vote. destruct (l_val s !! a) as [v|] eqn:Ev; [|discriminate].
  destruct (negb (bool_decide (v_status v = Active))); [intros H; inversion H; subst; auto|].
  match goal with |- context [let '(_, _) := ?c in _] => destruct c as [off missed] end.
  destruct (_ >=? _).
  - destruct (slash_holdings _ a (v_hold v) _) as [s2 h2] eqn:Es.
    intros H L; inversion H; subst.
    eapply (slashed_validator_ledger s a v _ s2 h2
             (fun x => with_jailed (with_power (with_status x Downgrade) 0%N) (now + lp_jail_dur (l_params s)))); eauto.
  - intros H L; inversion H; subst. eapply holds_same_ok; [|exact L].
    repeat split; cbn. intros. eapply insert_same_hold; eauto.
Qed.

Lemma handle_evidence_ledger s now h lim e s' : handle_evidence s now h lim e = Ok s' -> ledger_ok s -> ledger_ok s'.
Proof.
  destruct e as [[[a et] eh] counted]. unfold handle_evidence.
  destruct (negb counted); [intros H; inversion H; subst; auto|].
  destruct (evidence_expired _ _ _ _ _); [intros H; inversion H; subst; auto|].
  destruct (l_val s !! a) as [v|] eqn:Ev; [|discriminate].
  destruct (bool_decide (v_status v = Tombstoned)); [intros H; inversion H; subst; auto|].
  destruct (slash_holdings _ a (v_hold v) _) as [s2 h2] eqn:Es.
  intros H L; inversion H; subst.
  eapply (slashed_validator_ledger s a v _ s2 h2 (fun x => with_power (with_status x Tombstoned) 0%N)); eauto.
Qed.

Lemma fold_res_ledger {B} (f : lstate -> B -> res lstate) (Hf : forall s b s', f s b = Ok s' -> ledger_ok s -> ledger_ok s') :
  forall l s s', fold_res f l s = Ok s' -> ledger_ok s -> ledger_ok s'.
Proof.
  induction l as [|b r IH]; intros s s' H L; cbn in H.
  - inversion H; subst; auto.
  - destruct (f s b) eqn:E; cbn in H; try discriminate. eapply IH; eauto.
Qed.

(* ---------- block-level operations ---------- *)
Theorem begin_block_ledger s now h lim votes evs s' :
  begin_block s now h lim votes evs = Ok s' -> ledger_ok s -> ledger_ok s'.
Proof.
  unfold begin_block. intros H L.
  destruct (distribute_reward s h _) as [s1| |] eqn:E1; cbn in H; try discriminate.
  destruct (fold_res _ votes _) as [s3| |] eqn:E3; cbn in H; try discriminate.
  eapply (fold_res_ledger (fun s e => handle_evidence s now h lim e)); [|exact H|].
  { intros; eapply handle_evidence_ledger; eauto. }
  eapply (fold_res_ledger (fun s '(a, _, f) => handle_vote s now a f)); [|exact E3|].
  { intros ? [[? ?] ?] ? ? ?; eapply handle_vote_ledger; eauto. }
  eapply holds_same_ok; [apply dequeue_mature_hs|].
  eapply holds_same_ok; [eapply distribute_reward_hs; eauto|]. exact L.
Qed.

Theorem process_requests_ledger s now h q s' :
  process_requests s now h q = Ok s' -> ledger_ok s -> ledger_ok s'.
Proof.
  unfold process_requests. intros H L.
  destruct (update_reward_pool _ _ _ _) as [s1| |] eqn:E1; cbn in H; try discriminate.
  destruct (update_tokens _ _ _) as [s2| |] eqn:E2; cbn in H; try discriminate.
  destruct (create_all _ _) as [s3| |] eqn:E3; cbn in H; try discriminate.
  destruct (lock_all _ _ _) as [s4| |] eqn:E4; cbn in H; try discriminate.
  destruct (unlock_all _ _ _) as [s5| |] eqn:E5; cbn in H; try discriminate.
  eapply holds_same_ok; [eapply (fold_res_hs claim_one); [apply claim_one_hs | exact H]|].
  eapply unlock_all_ledger; eauto.
  eapply lock_each_ledger; eauto.
  eapply holds_same_ok; [eapply create_all_hs; eauto|].
  eapply holds_same_ok; [eapply update_tokens_hs; eauto|].
  eapply holds_same_ok; [eapply update_reward_pool_hs; eauto|]. exact L.
Qed.

Lemma end_walk_hs r : forall s last ups count s' last' ups',
  end_walk s last ups count r = Ok (s', last', ups') -> holds_same s s'.
Proof.
  induction r as [|[p a] r IH]; intros s last ups count s' last' ups' H; cbn in H.
  - inversion H; apply holds_same_refl.
  - destruct (count >=? _); [inversion H; apply holds_same_refl|].
    destruct (l_val s !! a) as [v|] eqn:Ev; [|discriminate].
    destruct (v_status v); try discriminate.
    + destruct (last !! a); [discriminate|].
      eapply holds_same_trans; [|eapply IH; eauto].
      repeat split; cbn. intros. eapply insert_same_hold; eauto.
    + destruct (default 0%N (last !! a) =? v_power v)%N;
        (eapply holds_same_trans; [|eapply IH; eauto]); repeat split.
Qed.

Lemma end_remove_hs l : forall s ups s' ups', end_remove s ups l = Ok (s', ups') -> holds_same s s'.
Proof.
  induction l as [|a r IH]; intros s ups s' ups' H; cbn in H.
  - inversion H; apply holds_same_refl.
  - destruct (l_val s !! a) as [v|] eqn:Ev; [|discriminate].
    eapply holds_same_trans; [|eapply IH; eauto].
    destruct (bool_decide (v_status v = Active)); repeat split; cbn.
    intros. eapply insert_same_hold; eauto.
Qed.

Theorem end_block_ledger s s' ups : end_block s = Ok (s', ups) -> ledger_ok s -> ledger_ok s'.
Proof.
  unfold end_block. intros H L.
  destruct (end_walk _ _ _ _ _) as [[[s1 rest] u1]| |] eqn:E; cbn in H; try discriminate.
  eapply holds_same_ok; [eapply end_remove_hs; eauto|].
  eapply holds_same_ok; [eapply end_walk_hs; eauto|]. exact L.
Qed.

Theorem dequeue_txs_ledger s : ledger_ok s -> ledger_ok (fst (dequeue_txs s)).
Proof.
  unfold dequeue_txs. intros L. destruct (l_q_rewards s), (l_q_unlocks s); cbn; auto.
Qed.

(* ---------- whole histories ---------- *)
Lemma lk_step_ledger s o : ledger_ok s -> ledger_ok (fst (lk_step s o)).
Proof.
  intros L. destruct o as [now h lim votes evs|now h q| | |a]; cbn [lk_step].
  - destruct (begin_block s now h lim votes evs) eqn:E; cbn; auto. eapply begin_block_ledger; eauto.
  - destruct (process_requests s now h q) eqn:E; cbn; auto. eapply process_requests_ledger; eauto.
  - destruct (end_block s) as [[s' u]| |] eqn:E; cbn; auto. eapply end_block_ledger; eauto.
  - pose proof (dequeue_txs_ledger s L). destruct (dequeue_txs s); exact H.
  - cbn. exact L.
Qed.

Theorem lk_run_ledger ops : forall s, ledger_ok s -> ledger_ok (lk_run s ops).
Proof.
  unfold lk_run. induction ops as [|o r IH]; intros s L; cbn [fold_left]; auto.
  apply IH, lk_step_ledger, L.
Qed.

Lemma empty_ledger p rem goat gas acc : ledger_ok (empty_lstate p rem goat gas acc).
Proof. intros t. cbn. unfold amount_of. rewrite !lookup_empty. reflexivity. Qed.

Theorem lk_run_ledger_empty p rem goat gas acc ops : ledger_ok (lk_run (empty_lstate p rem goat gas acc) ops).
Proof. apply lk_run_ledger, empty_ledger. Qed.

Theorem unlock_one_amount s now id a rc t req s' v :
  unlock_one s now id a rc t req = Ok s' -> l_val s !! a = Some v ->
  let amt := unlock_amount (amount_of (v_hold v) t) req in
  g_released s' = zmap_add (g_released s) t amt /\
  (exists v', l_val s' !! a = Some v' /\ amount_of (v_hold v') t = amount_of (v_hold v) t - amt) /\
  (exists when, l_unlockq s' !! when = Some (default [] (l_unlockq s !! when) ++ [mkUnlock id t rc amt])).
Proof.
  unfold unlock_one. intros H Ev. rewrite Ev in H. cbn [l_tok rank_remove set_rank] in H.
  destruct (l_tok s !! t) as [tk|] eqn:Et; [|discriminate].
  cbv zeta. fold (unlock_amount (amount_of (v_hold v) t) req) in *.
  set (amt := unlock_amount (amount_of (v_hold v) t) req) in *.
  match type of H with (if ?c then _ else _) = _ => destruct c; [discriminate|] end.
  match type of H with context [if ?c then _ else _] => destruct c eqn:Eexit end.
  - inversion H; subst; clear H. cbn. split; [reflexivity|]. split.
    + eexists. rewrite lookup_insert. split; [reflexivity|]. cbn. rewrite amount_of_put. destruct (decide (t = t)); [lia|congruence].
    + eexists. rewrite lookup_insert. reflexivity.
  - destruct (in_ranking_status (v_status v)); inversion H; subst; clear H.
    + unfold rank_add_pos. match goal with |- context [if ?c then _ else _] => destruct c end; cbn;
        (split; [reflexivity|]; split;
         [eexists; rewrite lookup_insert; split; [reflexivity|]; cbn; rewrite amount_of_put; destruct (decide (t = t)); [lia|congruence]
         | eexists; rewrite lookup_insert; reflexivity]).
    + cbn. split; [reflexivity|]. split.
      * eexists. rewrite lookup_insert. split; [reflexivity|]. cbn. rewrite amount_of_put. destruct (decide (t = t)); [lia|congruence].
      * eexists. rewrite lookup_insert. reflexivity.
Qed.
