(* C17: the 8-bit <-> 5-bit regrouping of segwit addresses (bech32.ConvertBits): regrouping a byte string
   to 5-bit symbols with padding and back without padding gives the byte string, for every byte string.
   With the string-layer theorem of Proofs/Bech32 this makes the segwit address codec a proved round trip.

   Method: both directions are streaming automata with a small pending-bits state.  One byte of input moves
   the pair of states to a pair of states; that single step ranges over a finite domain (5 phases x 256
   pending-bit patterns x 256 byte values) and is checked exhaustively by evaluation; the theorem for strings
   of any length is the induction over that step. *)
From Goat Require Import Base.Prelude Model.Address Proofs.Bech32.
From Coq Require Import ZifyBool ZifyN ZifyNat.
Local Open Scope N_scope.
Ltac Zify.zify_post_hook ::= Z.div_mod_to_equations.

(* ---------------------------------------------------------------- one step of either automaton *)
Definition step85 (b m v : N) : list N * N * N :=
  let acc := N.lor (N.shiftl b 8) v in
  let nb := m + 8 in
  if 10 <=? nb then ([N.shiftr acc (nb - 5); N.land (N.shiftr acc (nb - 10)) 31], N.land acc (N.ones (nb - 10)), nb - 10)
  else ([N.shiftr acc (nb - 5)], N.land acc (N.ones (nb - 5)), nb - 5).
Lemma conv85_cons v r b m : conv85 (v :: r) b m = let '(gs, b', m') := step85 b m v in gs ++ conv85 r b' m'.
Proof. unfold step85. cbn [conv85]. destruct (10 <=? m + 8); reflexivity. Qed.

Definition step58 (a n g : N) : option N * N * N :=
  let acc := N.lor (N.shiftl a 5) g in
  let nb := n + 5 in
  if 8 <=? nb then (Some (N.shiftr acc (nb - 8)), N.land acc (N.ones (nb - 8)), nb - 8) else (None, acc, nb).
Definition push_opt (o : option N) (l : list N) : list N := match o with Some x => x :: l | None => l end.
Lemma conv58_cons g r a n :
  conv58 (g :: r) a n = let '(o, a', n') := step58 a n g in option_map (push_opt o) (conv58 r a' n').
Proof.
  unfold step58. cbn [conv58]. destruct (8 <=? n + 5).
  - destruct (conv58 r _ _); reflexivity.
  - destruct (conv58 r _ _); reflexivity.
Qed.

Fixpoint feed58 (gs : list N) (a n : N) : list N * N * N :=
  match gs with
  | [] => ([], a, n)
  | g :: r => let '(o, a', n') := step58 a n g in let '(outs, a'', n'') := feed58 r a' n' in (push_opt o outs, a'', n'')
  end.
Lemma conv58_app gs : forall r a n,
  conv58 (gs ++ r) a n = let '(outs, a', n') := feed58 gs a n in option_map (app outs) (conv58 r a' n').
Proof.
  induction gs as [|g gs IH]; intros r a n.
  - cbn [app feed58]. destruct (conv58 r a n); reflexivity.
  - cbn [app feed58]. rewrite conv58_cons. destruct (step58 a n g) as [[o a'] n']. rewrite IH.
    destruct (feed58 gs a' n') as [[outs a''] n'']. destruct (conv58 r a'' n''); [|reflexivity]. cbn. destruct o; reflexivity.
Qed.

(* ---------------------------------------------------------------- the joint state *)
(* a: bits pending in the 5->8 decoder (n of them); b: bits pending in the 8->5 encoder (m of them).
   Between bytes either nothing is pending, or the n + m = 8 pending bits are one input byte, split. *)
Definition validb (a n b m : N) : bool := (m <? 5) && (n =? (8 - m) mod 8) && (a <? 2 ^ n) && (b <? 2 ^ m).
Definition pending (a b m : N) : list N := if m =? 0 then [] else [a * 2 ^ m + b].

Fixpoint list_eqb (x y : list N) : bool :=
  match x, y with [] , [] => true | p :: x, q :: y => (p =? q) && list_eqb x y | _, _ => false end.
Lemma list_eqb_eq x : forall y, list_eqb x y = true -> x = y.
Proof.
  induction x as [|p x IH]; intros [|q y] E; cbn in E; try discriminate; [reflexivity|].
  apply andb_true_iff in E. destruct E as [E1 E2]. apply N.eqb_eq in E1. subst. f_equal. apply IH. exact E2.
Qed.

Definition chk_step (a n b m v : N) : bool :=
  let '(gs, b', m') := step85 b m v in
  let '(outs, a', n') := feed58 gs a n in
  validb a' n' b' m' && list_eqb (outs ++ pending a' b' m') (pending a b m ++ [v]) && forallb (fun g => g <? 32) gs.
Definition chk_end (a n b m : N) : bool :=
  match conv58 (conv85 [] b m) a n with Some o => list_eqb o (pending a b m) | None => false end
  && forallb (fun g => g <? 32) (conv85 [] b m).

(* the finite domain: phase m, the n + m pending bits as one number ab, a byte v *)
Definition range256 : list N := map N.of_nat (seq 0 256).
Lemma in_range256 x : x < 256 -> In x range256.
Proof.
  intros Hx. unfold range256. apply in_map_iff. exists (N.to_nat x). split; [lia|]. apply in_seq. lia.
Qed.
Definition split_a (ab m : N) : N := ab / 2 ^ m.
Definition split_b (ab m : N) : N := ab mod 2 ^ m.
Definition sweep : bool :=
  forallb (fun m => forallb (fun ab =>
     let a := split_a ab m in let b := split_b ab m in let n := (8 - m) mod 8 in
     negb (validb a n b m) ||
     (chk_end a n b m && forallb (fun v => chk_step a n b m v) range256)) range256) [0; 1; 2; 3; 4].
Lemma sweep_ok : sweep = true.
Proof. vm_compute. reflexivity. Qed.

Lemma valid_cases a n b m : validb a n b m = true ->
  (m = 0 \/ m = 1 \/ m = 2 \/ m = 3 \/ m = 4) /\ n = (8 - m) mod 8 /\ a < 2 ^ n /\ b < 2 ^ m.
Proof.
  unfold validb. intros Hv. apply andb_true_iff in Hv. destruct Hv as [Hv Hb]. apply andb_true_iff in Hv. destruct Hv as [Hv Ha].
  apply andb_true_iff in Hv. destruct Hv as [Hm Hn]. apply N.ltb_lt in Hm, Ha, Hb. apply N.eqb_eq in Hn.
  repeat split; try assumption. lia.
Qed.

Lemma sweep_inst a n b m : validb a n b m = true ->
  chk_end a n b m = true /\ forall v, v < 256 -> chk_step a n b m v = true.
Proof.
  intros Hv. pose proof (valid_cases a n b m Hv) as (Hm & Hn & Ha & Hb).
  pose proof sweep_ok as S. unfold sweep in S. rewrite forallb_forall in S.
  assert (Hin : In m [0; 1; 2; 3; 4]) by (cbn; intuition).
  specialize (S m Hin). rewrite forallb_forall in S.
  set (ab := a * 2 ^ m + b).
  assert (Ea : split_a ab m = a /\ split_b ab m = b /\ ab < 256).
  { unfold split_a, split_b, ab. destruct Hm as [-> | [-> | [-> | [-> | ->]]]]; subst n;
      [change ((8 - 0) mod 8) with 0 in * | change ((8 - 1) mod 8) with 7 in * | change ((8 - 2) mod 8) with 6 in *
       | change ((8 - 3) mod 8) with 5 in * | change ((8 - 4) mod 8) with 4 in *];
      [change (2 ^ 0) with 1 in * | change (2 ^ 7) with 128 in *; change (2 ^ 1) with 2 in * | change (2 ^ 6) with 64 in *; change (2 ^ 2) with 4 in *
       | change (2 ^ 5) with 32 in *; change (2 ^ 3) with 8 in * | change (2 ^ 4) with 16 in *]; lia. }
  destruct Ea as (Ea & Eb & Hab).
  specialize (S ab (in_range256 ab Hab)). cbv zeta in S. rewrite Ea, Eb, <- Hn, Hv in S. cbn [negb orb] in S.
  apply andb_true_iff in S. destruct S as [S1 S2]. split; [exact S1|].
  intros v Hvv. rewrite forallb_forall in S2. apply S2. apply in_range256. exact Hvv.
Qed.

(* ---------------------------------------------------------------- strings of any length *)
Lemma regroup_general l : forall a n b m,
  validb a n b m = true -> Forall (fun v => v < 256) l ->
  conv58 (conv85 l b m) a n = Some (pending a b m ++ l) /\ Forall (fun g => g < 32) (conv85 l b m).
Proof.
  induction l as [|v r IH]; intros a n b m Hv Hl.
  - destruct (sweep_inst a n b m Hv) as [He _]. unfold chk_end in He. apply andb_true_iff in He. destruct He as [He1 He2].
    split.
    + destruct (conv58 (conv85 [] b m) a n) as [o|]; [|discriminate]. apply list_eqb_eq in He1. rewrite He1, app_nil_r. reflexivity.
    + apply List.Forall_forall. intros g Hg. rewrite forallb_forall in He2. apply N.ltb_lt. apply He2. exact Hg.
  - inversion Hl as [|? ? Hvv Hr]; subst.
    destruct (sweep_inst a n b m Hv) as [_ Hs]. specialize (Hs v Hvv). unfold chk_step in Hs.
    rewrite conv85_cons. destruct (step85 b m v) as [[gs b'] m'].
    rewrite conv58_app. destruct (feed58 gs a n) as [[outs a'] n'].
    apply andb_true_iff in Hs. destruct Hs as [Hs Hg]. apply andb_true_iff in Hs. destruct Hs as [Hv' He].
    destruct (IH a' n' b' m' Hv' Hr) as [IH1 IH2]. rewrite IH1. cbn [option_map]. split.
    + f_equal. rewrite app_assoc. apply list_eqb_eq in He. rewrite He. rewrite <- app_assoc. reflexivity.
    + apply Forall_app. split; [|exact IH2]. apply List.Forall_forall. intros g Hgin. rewrite forallb_forall in Hg.
      apply N.ltb_lt. apply Hg. exact Hgin.
Qed.

Theorem regroup_round_trip p :
  Forall (fun v => v < 256) p -> conv58 (conv85 p 0 0) 0 0 = Some p /\ Forall (fun g => g < 32) (conv85 p 0 0).
Proof. intros Hp. exact (regroup_general p 0 0 0 0 eq_refl Hp). Qed.

(* ---------------------------------------------------------------- the segwit address codec *)
(* witness version ver (0..16), program p: the string btcutil produces decodes back to (ver, p), under exactly
   the conditions decodeSegWitAddress imposes (program length 2..40, 20 or 32 for version 0, bech32 for
   version 0 and bech32m for version 1) *)
Theorem segwit_round_trip hrp ver p v :
  hrp_ok hrp -> ver <= 16 -> Forall (fun x => x < 256) p ->
  (2 <= length p <= 40)%nat ->
  (ver = 0 -> (length p = 20 \/ length p = 32)%nat /\ v = V0) ->
  (ver = 1 -> v = VM) ->
  (length hrp + 1 + S (length (conv85 p 0 0)) + 6 <= 90)%nat ->
  decode_segwit (bech32_encode hrp (ver :: conv85 p 0 0) v) = Some (ver, p).
Proof.
  intros Hh Hver Hp Hlen H0 H1 Hsz.
  destruct (regroup_round_trip p Hp) as [Hrt Hsm].
  unfold decode_segwit. rewrite (bech32_round_trip hrp (ver :: conv85 p 0 0) v Hh).
  2: { constructor; [lia|exact Hsm]. }
  2: { cbn [length]. exact Hsz. }
  destruct (16 <? ver) eqn:E16; [apply N.ltb_lt in E16; lia|].
  rewrite Hrt.
  destruct ((length p <? 2)%nat || (40 <? length p)%nat) eqn:El.
  { apply orb_true_iff in El. destruct El as [El|El]; apply Nat.ltb_lt in El; lia. }
  destruct (N.eqb_spec ver 0) as [E0|N0].
  - destruct (H0 E0) as [Hl ->]. cbn [andb negb].
    assert (Hb : ((length p =? 20)%nat || (length p =? 32)%nat) = true).
    { apply orb_true_iff. destruct Hl as [Hl|Hl]; [left|right]; apply Nat.eqb_eq; exact Hl. }
    rewrite Hb. cbn [negb]. destruct (N.eqb_spec ver 1) as [E1|_]; [lia|]. reflexivity.
  - cbn [andb]. destruct (N.eqb_spec ver 1) as [E1|N1].
    + rewrite (H1 E1). reflexivity.
    + reflexivity.
Qed.

(* number of symbols: ceil(8 * bytes / 5) *)
Lemma conv85_length l : forall b m, m < 5 ->
  length (conv85 l b m) = N.to_nat ((8 * N.of_nat (length l) + m + 4) / 5).
Proof.
  induction l as [|v r IH]; intros b m Hm.
  - cbn [conv85 length]. destruct (N.ltb_spec 0 m); cbn [length]; lia.
  - cbn [conv85]. destruct (N.leb_spec 10 (m + 8)); cbn [length]; rewrite IH by lia; cbn [length]; lia.
Qed.

(* ---------------------------------------------------------------- whole address strings *)
(* shape of an encoded string: the human-readable part, the separator (which is the last '1'), symbols *)
Lemma encode_shape hrp data v :
  hrp_ok hrp -> Forall (fun d => d < 32) data ->
  last_index 49 (bech32_encode hrp data v) 0 None = Some (length hrp) /\
  firstn (length hrp) (bech32_encode hrp data v) = hrp.
Proof.
  intros [Hne Hh] Hd.
  assert (Hup : Forall (fun c => is_upper c = false) hrp) by (eapply Forall_impl; [|exact Hh]; intros c [_ Hc]; exact Hc).
  unfold bech32_encode. rewrite (to_lower_id_list hrp Hup).
  set (p := N.lxor _ _). set (syms := data ++ checksum_symbols p).
  assert (Hs : Forall (fun d => d < 32) syms) by (apply Forall_app; split; [exact Hd|apply checksum_symbols_small]).
  change (map (fun d => nth (N.to_nat d) b32_charset 0) syms) with (map sym_char syms).
  set (cs := map sym_char syms).
  assert (Hcs : Forall (fun c => (c =? 49) = false) cs).
  { subst cs. apply List.Forall_forall. intros c Hc. apply in_map_iff in Hc. destruct Hc as (d & <- & Hin).
    rewrite List.Forall_forall in Hs. destruct (sym_char_props d (Hs d Hin)) as (_ & _ & _ & C). exact C. }
  split.
  - rewrite last_index_app. cbn [app last_index]. rewrite N.eqb_refl. rewrite last_index_absent by exact Hcs. f_equal; lia.
  - rewrite firstn_app, firstn_all, Nat.sub_diag. cbn. apply app_nil_r.
Qed.

Definition segwit_addr_ok (a : addr) : Prop :=
  match a with
  | AWitnessPubKeyHash p _ => length p = 20%nat
  | AWitnessScriptHash p _ | ATaproot p _ => length p = 32%nat
  | _ => False
  end.
Definition addr_prog (a : addr) : bytes :=
  match a with APubKeyHash p _ | AScriptHash p _ | AWitnessPubKeyHash p _ | AWitnessScriptHash p _ | ATaproot p _ => p end.
Definition addr_hrp (a : addr) : bytes :=
  match a with AWitnessPubKeyHash _ h | AWitnessScriptHash _ h | ATaproot _ h => h | _ => [] end.

(* the string of every standard segwit address (P2WPKH, P2WSH, P2TR) of a configured network decodes back
   to that address *)
Theorem segwit_address_round_trip (sha256d : bytes -> bytes) hrps net a :
  segwit_addr_ok a -> Forall (fun x => x < 256) (addr_prog a) ->
  hrp_ok (addr_hrp a) -> (2 <= length (addr_hrp a) <= 20)%nat -> in_list (addr_hrp a) hrps = true ->
  decode_address sha256d hrps net (encode_address sha256d a) = Ok a.
Proof.
  intros Hok Hp Hh Hl Hin.
  assert (Hup : Forall (fun c => is_upper c = false) (addr_hrp a)).
  { destruct Hh as [_ Hh]. eapply Forall_impl; [|exact Hh]. intros c [_ Hc]. exact Hc. }
  destruct (regroup_round_trip (addr_prog a) Hp) as [_ Hsm].
  assert (Hlen85 : forall p, (length p = 20 -> length (conv85 p 0 0) = 32)%nat /\ (length p = 32 -> length (conv85 p 0 0) = 52)%nat).
  { intros p. split; intros E; rewrite (conv85_length p 0 0) by lia; rewrite E; reflexivity. }
  destruct a as [| |p hrp|p hrp|p hrp]; cbn in Hok; try contradiction; cbn [addr_prog addr_hrp] in *; unfold decode_address, encode_address.
  - assert (Hd : Forall (fun d => d < 32) (0 :: conv85 p 0 0)) by (constructor; [lia|exact Hsm]).
    destruct (encode_shape hrp (0 :: conv85 p 0 0) V0 Hh Hd) as [E1 E2].
    assert (RT : decode_segwit (bech32_encode hrp (0 :: conv85 p 0 0) V0) = Some (0, p)).
    { apply segwit_round_trip; [exact Hh|lia|exact Hp|lia|intros _; split; [left; exact Hok|reflexivity]|intros E; discriminate E|rewrite (proj1 (Hlen85 p) Hok); lia]. }
    rewrite E1. cbv beta iota zeta. rewrite !E2, !(to_lower_id_list hrp Hup), Hin.
    assert ((1 <? length hrp)%nat = true) as -> by (apply Nat.ltb_lt; lia). cbn [andb].
    rewrite RT. cbn [N.eqb Pos.eqb orb negb]. rewrite Hok. cbv beta iota zeta. rewrite ?E2, ?(to_lower_id_list hrp Hup). reflexivity.
  - assert (Hd : Forall (fun d => d < 32) (0 :: conv85 p 0 0)) by (constructor; [lia|exact Hsm]).
    destruct (encode_shape hrp (0 :: conv85 p 0 0) V0 Hh Hd) as [E1 E2].
    assert (RT : decode_segwit (bech32_encode hrp (0 :: conv85 p 0 0) V0) = Some (0, p)).
    { apply segwit_round_trip; [exact Hh|lia|exact Hp|lia|intros _; split; [right; exact Hok|reflexivity]|intros E; discriminate E|rewrite (proj2 (Hlen85 p) Hok); lia]. }
    rewrite E1. cbv beta iota zeta. rewrite !E2, !(to_lower_id_list hrp Hup), Hin.
    assert ((1 <? length hrp)%nat = true) as -> by (apply Nat.ltb_lt; lia). cbn [andb].
    rewrite RT. cbn [N.eqb Pos.eqb orb negb]. rewrite Hok. cbv beta iota zeta. rewrite ?E2, ?(to_lower_id_list hrp Hup). reflexivity.
  - assert (Hd : Forall (fun d => d < 32) (1 :: conv85 p 0 0)) by (constructor; [lia|exact Hsm]).
    destruct (encode_shape hrp (1 :: conv85 p 0 0) VM Hh Hd) as [E1 E2].
    assert (RT : decode_segwit (bech32_encode hrp (1 :: conv85 p 0 0) VM) = Some (1, p)).
    { apply segwit_round_trip; [exact Hh|lia|exact Hp|lia|intros E; discriminate E|intros _; reflexivity|rewrite (proj2 (Hlen85 p) Hok); lia]. }
    rewrite E1. cbv beta iota zeta. rewrite !E2, !(to_lower_id_list hrp Hup), Hin.
    assert ((1 <? length hrp)%nat = true) as -> by (apply Nat.ltb_lt; lia). cbn [andb].
    rewrite RT. cbn [N.eqb Pos.eqb orb negb]. rewrite Hok. cbv beta iota zeta. rewrite ?E2, ?(to_lower_id_list hrp Hup). reflexivity.
Qed.
