(* C07: order-insensitivity of the one map-ordered loop that remains on the consensus path (the
   removal loop of the locking EndBlocker), a witness that the work done by Lock is NOT
   order-insensitive (so it must not range over a map), and the audit of the generated site list. *)
From Goat Require Import Base.Prelude Model.Locking Gen.Sites.
From Coq Require Import Permutation.
From stdpp Require Import gmap.

(* ---------------------------------------------------------------- removal loop *)
Definition remove_one (s : lstate) (a : N) : option lstate :=
  match l_val s !! a with
  | None => None
  | Some v =>
    let s1 := if bool_decide (v_status v = Active)
              then set_val s (<[a := with_status v Pending]> (l_val s)) else s in
    Some (set_set s1 (delete a (l_set s1)))
  end.

Lemma end_remove_step s ups a r :
  end_remove s ups (a :: r) =
  match remove_one s a with None => Err | Some s' => end_remove s' (ups ++ [(a, 0%N)]) r end.
Proof. cbn [end_remove]. unfold remove_one. destruct (l_val s !! a); reflexivity. Qed.

Lemma lstate_eq (s t : lstate) :
  l_params s = l_params t -> l_val s = l_val t -> l_index s = l_index t -> l_rank s = l_rank t ->
  l_set s = l_set t -> l_tok s = l_tok t -> l_thr s = l_thr t -> l_slashed s = l_slashed t ->
  l_remain s = l_remain t -> l_goat s = l_goat t -> l_gasp s = l_gasp t ->
  l_unlockq s = l_unlockq t -> l_q_rewards s = l_q_rewards t -> l_q_unlocks s = l_q_unlocks t ->
  l_nonce s = l_nonce t -> l_accounts s = l_accounts t ->
  g_locked s = g_locked t -> g_released s = g_released t -> g_granted s = g_granted t ->
  g_gas_in s = g_gas_in t -> g_claimed s = g_claimed t -> s = t.
Proof. destruct s, t; cbn; intros; subst; reflexivity. Qed.

Lemma remove_one_val s a s' b :
  remove_one s a = Some s' -> a <> b -> l_val s' !! b = l_val s !! b.
Proof.
  unfold remove_one. destruct (l_val s !! a) as [v|] eqn:E; [|discriminate].
  intros [= <-] Hab. destruct (bool_decide _); cbn; [rewrite lookup_insert_ne by exact Hab|]; reflexivity.
Qed.

Lemma remove_one_comm s a b s1 s2 :
  a <> b -> remove_one s a = Some s1 -> remove_one s1 b = Some s2 ->
  exists t1, remove_one s b = Some t1 /\ remove_one t1 a = Some s2.
Proof.
  intros Hab H1 H2.
  assert (Hb : l_val s1 !! b = l_val s !! b) by (eapply remove_one_val; eauto).
  unfold remove_one in *.
  destruct (l_val s !! a) as [va|] eqn:Ea; [|discriminate].
  injection H1 as <-.
  destruct (l_val s !! b) as [vb|] eqn:Eb.
  2:{ rewrite Hb in H2. discriminate. }
  rewrite Hb in H2. injection H2 as <-.
  eexists; split; [reflexivity|].
  assert (Ha' : forall m : gmap N validator, m !! a = Some va -> (<[b := with_status vb Pending]> m) !! a = Some va)
    by (intros m Hm; rewrite lookup_insert_ne by congruence; exact Hm).
  destruct (bool_decide (v_status va = Active)) eqn:Da, (bool_decide (v_status vb = Active)) eqn:Db; cbn;
    rewrite ?Ha', ?Ea by assumption; cbn; rewrite ?Da; cbn; f_equal;
    apply lstate_eq; cbn; try reflexivity;
    rewrite ?(insert_commute _ a b) by exact Hab; rewrite ?(delete_commute _ a b); reflexivity.
Qed.

Lemma remove_one_fail_comm s a b s1 :
  a <> b -> remove_one s a = Some s1 -> remove_one s1 b = None -> remove_one s b = None.
Proof.
  intros Hab H1 H2. assert (Hb := remove_one_val _ _ _ b H1 Hab).
  unfold remove_one in *. rewrite Hb in H2. destruct (l_val s !! b); [discriminate|reflexivity].
Qed.

Lemma remove_one_fail_keep s a b t1 :
  a <> b -> remove_one s a = None -> remove_one s b = Some t1 -> remove_one t1 a = None.
Proof.
  intros Hab H1 H2. assert (Hb := remove_one_val _ _ _ a H2 (not_eq_sym Hab)).
  unfold remove_one in *. rewrite Hb. destruct (l_val s !! a); [discriminate|reflexivity].
Qed.

(* outcome of the whole loop up to the order of the emitted updates *)
Definition same_outcome (x y : res (lstate * list (N * N))) : Prop :=
  match x, y with
  | Ok (s1, u1), Ok (s2, u2) => s1 = s2 /\ Permutation u1 u2
  | Err, Err => True
  | Panic, Panic => True
  | _, _ => False
  end.

Lemma same_outcome_refl x : same_outcome x x.
Proof. destruct x as [[s u]| |]; cbn; auto. Qed.
Lemma same_outcome_trans x y z : same_outcome x y -> same_outcome y z -> same_outcome x z.
Proof.
  destruct x as [[s1 u1]| |], y as [[s2 u2]| |], z as [[s3 u3]| |]; cbn; try tauto.
  intros [-> P1] [-> P2]. split; [reflexivity|]. eapply perm_trans; eauto.
Qed.

Lemma end_remove_ups_perm l : forall s u1 u2,
  Permutation u1 u2 -> same_outcome (end_remove s u1 l) (end_remove s u2 l).
Proof.
  induction l as [|a l IH]; intros s u1 u2 P.
  - cbn. auto.
  - rewrite !end_remove_step. destruct (remove_one s a); [|exact I].
    apply IH. apply Permutation_app_tail. exact P.
Qed.

Lemma end_remove_never_panics l : forall s u, end_remove s u l <> Panic.
Proof.
  induction l as [|a l IH]; intros s u; [discriminate|].
  rewrite end_remove_step. destruct (remove_one s a); [apply IH|discriminate].
Qed.

Theorem end_remove_perm l1 l2 :
  Permutation l1 l2 -> List.NoDup l1 ->
  forall s u, same_outcome (end_remove s u l1) (end_remove s u l2).
Proof.
  induction 1 as [|a l1 l2 P IH|a b l|l1 l2 l3 P1 IH1 P2 IH2]; intros ND s u.
  - apply same_outcome_refl.
  - rewrite !end_remove_step. destruct (remove_one s a); [|exact I].
    apply IH. inversion ND; assumption.
  - (* swap: y = a, x = b in the library's statement: (a :: b :: l) ~ (b :: a :: l) *)
    assert (Hab : a <> b).
    { inversion ND as [|? ? Hn _]; subst. intros ->. apply Hn. left. reflexivity. }
    rewrite !end_remove_step.
    destruct (remove_one s a) as [s1|] eqn:Ea.
    + rewrite end_remove_step.
      destruct (remove_one s1 b) as [s2|] eqn:Eb.
      * destruct (remove_one_comm _ _ _ _ _ Hab Ea Eb) as (t1 & Hb & Ha). rewrite Hb.
        rewrite end_remove_step, Ha.
        apply end_remove_ups_perm. rewrite <- !app_assoc. apply Permutation_app_head. apply perm_swap.
      * rewrite (remove_one_fail_comm _ _ _ _ Hab Ea Eb). exact I.
    + destruct (remove_one s b) as [t1|] eqn:Eb; [|exact I].
      rewrite end_remove_step, (remove_one_fail_keep _ _ _ _ Hab Ea Eb). exact I.
  - eapply same_outcome_trans; [apply IH1; exact ND|].
    apply IH2. eapply Coq.Sorting.Permutation.Permutation_NoDup; eauto.
Qed.

(* ---------------------------------------------------------------- Lock: work is order-sensitive *)
(* number of per-validator lock calls completed before the first failure: the gas charged to the
   failing transaction grows with it *)
Fixpoint lock_work (s : lstate) (now : Z) (l : list (N * list (N * Z))) : nat :=
  match l with
  | [] => 0
  | (a, cs) :: r =>
    match lock_one s now a (nonzero_coins cs) with
    | Ok s' => S (lock_work s' now r)
    | _ => 0
    end
  end.

Definition demo_val : validator := mkVal 7 5 ∅ 0 0 Active 0 0 0.
Definition demo_state : lstate :=
  set_tok (set_val (empty_lstate (mkLP 0 0 0 4 0 0 0 0 0 0) 0 0 0 ∅) {[ 1%N := demo_val ]})
          {[ 0%N := mkTok 1 0 ]}.

(* ---------------------------------------------------------------- site audit *)
Local Open Scope string_scope.
(* sites allowed to stay: proposal building/checking (not part of the state transition), process
   start-up, key generation of the CLI, and the hash-object pool (a cache whose objects are reset
   before use).  Map-ordered loops need an order-insensitivity theorem (justified_mapranges). *)
Definition outside_transition : list (string * string) :=
  [ ("x/goat/keeper/abci.go", "PrepareProposalHandler");
    ("x/goat/keeper/abci.go", "createEthBlockProposal");
    ("x/goat/keeper/abci.go", "verifyEthBlockProposal");
    ("app/provider.go", "ProvideEngineClient");
    ("pkg/crypto/blst.go", "GenPrivKey");
    ("pkg/crypto/hash.go", "<package var>") ].
Definition justified_mapranges : list (string * string) :=
  [ ("x/locking/keeper/abci.go", "EndBlocker") ].   (* end_remove_perm *)

Definition pair_in (p : string * string) (l : list (string * string)) : bool :=
  existsb (fun q => String.eqb (fst p) (fst q) && String.eqb (snd p) (snd q)) l.
Definition site_ok (x : string * string * string) : bool :=
  let '(f, fn, kind) := x in
  if String.eqb kind "maprange" then pair_in (f, fn) justified_mapranges
  else pair_in (f, fn) outside_transition.
Definition bad_sites : list (string * string * string) := filter (fun x => negb (site_ok x)) sites.

(* ---------------------------------------------------------------- Lock processes in first-seen order *)
Definition first_seen_step (acc : list N) (a : N) : list N :=
  if existsb (N.eqb a) acc then acc else acc ++ [a].
Definition first_seen (l : list N) : list N := fold_left first_seen_step l [].

Lemma agg_reqs_order reqs : forall acc,
  map fst (agg_reqs acc reqs) = fold_left first_seen_step (map (fun x => fst (fst x)) reqs) (map fst acc).
Proof.
  induction reqs as [|[[a t] amt] r IH]; intros acc; [reflexivity|].
  cbn [agg_reqs map fold_left fst]. rewrite IH. f_equal.
  unfold first_seen_step. clear IH.
  induction acc as [|[a' cs] acc IHa]; [reflexivity|].
  cbn [map fst existsb].
  destruct (N.eqb_spec a' a) as [->|Hne].
  - rewrite N.eqb_refl. reflexivity.
  - assert (Hf : (a =? a')%N = false) by (apply N.eqb_neq; congruence).
    rewrite Hf. cbn [orb map fst]. rewrite IHa.
    destruct (existsb (N.eqb a) (map fst acc)); reflexivity.
Qed.

Theorem lock_order_is_first_seen reqs :
  map fst (agg_reqs [] reqs) = first_seen (map (fun x => fst (fst x)) reqs).
Proof. apply agg_reqs_order. Qed.

Theorem lock_map_order_matters :
  exists s now l1 l2, Permutation l1 l2 /\ List.NoDup (map fst l1) /\ lock_work s now l1 <> lock_work s now l2.
Proof.
  exists demo_state, 0%Z, [(1%N, [(0%N, one18)]); (2%N, [(0%N, one18)])], [(2%N, [(0%N, one18)]); (1%N, [(0%N, one18)])].
  split; [apply perm_swap|]. split.
  - repeat constructor; cbn; intuition discriminate.
  - vm_compute. discriminate.
Qed.
