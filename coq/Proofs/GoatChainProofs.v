(* C09 over whole histories of consensus blocks. *)
From Goat Require Import Base.Prelude Model.GoatBlock Model.GoatChain.
From Coq Require Import ZifyBool ZifyN.
Local Open Scope N_scope.

(* one block: either nothing changes, or the block message succeeded on a valid child and the notification did
   not fail, and then head and beacon root are exactly the payload and the finalising block's hash *)
Theorem cstep_cases s b :
  cstep s b = s \/
  (msg_ok s b = true /\ finalized_ok (b_np b) (b_fc b) = true /\
   c_head (cstep s b) = head_of b /\ c_beacon (cstep s b) = b_cons_hash b).
Proof.
  unfold cstep, after_msg. destruct (finalized_ok _ _) eqn:F; [|left; reflexivity].
  destruct (msg_ok s b) eqn:M; [right; repeat split; reflexivity|left; reflexivity].
Qed.

Theorem child_ok_spec s b : child_ok s b = true ->
  b_parent b = h_hash (c_head s) /\ b_number b = h_number (c_head s) + 1 /\ b_blob b = 0 /\
  b_beacon b = c_beacon s /\ b_proposer_ok b = true.
Proof.
  unfold child_ok. rewrite !andb_true_iff. intros ((((A & B) & C) & D) & E).
  apply beq_bytes_eq in A, D. apply N.eqb_eq in B, C. auto.
Qed.

(* the head changes only by a direct child proposed by the block's proposer, without blob gas, carrying the
   recorded beacon root *)
Theorem head_changes_only_by_child s b :
  c_head (cstep s b) <> c_head s ->
  child_ok s b = true /\ b_rest_ok b = true /\ finalized_ok (b_np b) (b_fc b) = true /\
  c_head (cstep s b) = head_of b /\ c_beacon (cstep s b) = b_cons_hash b.
Proof.
  intros Hne. destruct (cstep_cases s b) as [E|(M & F & H1 & H2)]; [rewrite E in Hne; congruence|].
  unfold msg_ok in M. apply andb_true_iff in M. destruct M as [M1 M2]. auto.
Qed.

Theorem fault_commits_nothing s b : finalized_ok (b_np b) (b_fc b) = false -> cstep s b = s.
Proof. unfold cstep. intros ->. reflexivity. Qed.

Lemma cstep_answers s b np fc : finalized_ok np fc = true -> cstep s (with_answers b np fc) = after_msg s b.
Proof. unfold cstep, with_answers, after_msg, msg_ok, child_ok. cbn. intros ->. reflexivity. Qed.

(* a block that failed on an engine fault, retried after the fault cleared, gives what a fault-free run gives *)
Theorem retry_after_fault s b np fc :
  finalized_ok np fc = false ->
  cstep (cstep s (with_answers b np fc)) b = cstep s b.
Proof. intros F. rewrite (fault_commits_nothing s (with_answers b np fc)) by exact F. reflexivity. Qed.

(* the engine is told exactly the head recorded at the end of the block's transactions; when the block commits
   that is the committed head *)
Theorem told_is_recorded s b : finalized_ok (b_np b) (b_fc b) = true -> told s b = c_head (cstep s b).
Proof. unfold told, cstep. intros ->. reflexivity. Qed.

(* ---------------------------------------------------------------- histories *)
Definition linked (h1 h2 : ehead) : Prop := h2 = h1 \/ (h_parent h2 = h_hash h1 /\ h_number h2 = h_number h1 + 1).

Lemma cstep_linked s b : linked (c_head s) (c_head (cstep s b)).
Proof.
  destruct (cstep_cases s b) as [E|(M & _ & H1 & _)]; [left; rewrite E; reflexivity|].
  right. unfold msg_ok in M. apply andb_true_iff in M. destruct M as [M _].
  apply child_ok_spec in M. destruct M as (A & B & _). rewrite H1. cbn. auto.
Qed.

Fixpoint chain_from (h : ehead) (l : list ehead) : Prop :=
  match l with [] => True | x :: r => linked h x /\ chain_from x r end.

(* over any history the recorded heads form a chain: each one equals its predecessor or is its direct child *)
Theorem heads_form_a_chain bs : forall s, chain_from (c_head s) (heads s bs).
Proof.
  induction bs as [|b r IH]; intros s; cbn [heads chain_from]; [exact I|].
  split; [apply cstep_linked|apply IH].
Qed.

(* the head number never decreases and grows by at most one per block *)
Theorem number_monotone bs : forall s,
  h_number (c_head s) <= h_number (c_head (crun s bs)) <= h_number (c_head s) + N.of_nat (length bs).
Proof.
  unfold crun. induction bs as [|b r IH]; intros s; cbn [fold_left length]; [lia|].
  specialize (IH (cstep s b)). destruct (cstep_linked s b) as [E|[_ E]]; rewrite E in IH; lia.
Qed.

(* blocks whose notification failed can be removed from a history without changing its result *)
Theorem faulted_blocks_leave_no_trace bs : forall s,
  crun s bs = crun s (filter (fun b => finalized_ok (b_np b) (b_fc b)) bs).
Proof.
  unfold crun. induction bs as [|b r IH]; intros s; cbn [fold_left filter]; [reflexivity|].
  destruct (finalized_ok (b_np b) (b_fc b)) eqn:F; cbn [fold_left].
  - apply IH.
  - rewrite (fault_commits_nothing s b F). apply IH.
Qed.
