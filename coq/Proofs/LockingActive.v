(* Two simple invariants about the recorded validator set between EndBlockers: every Active validator
   is a member (only EndBlocker activates and only EndBlocker removes), every member has a record. *)
From stdpp Require Import gmap.
From Goat Require Import Base.Prelude Model.Locking Proofs.LockingDerived Proofs.LockingDerivedLink.
Local Open Scope Z_scope.

Definition set_members (s : lstate) : Prop := forall a p, l_set s !! a = Some p -> is_Some (l_val s !! a).
Definition ainv (s : lstate) : Prop := active_in_set s /\ set_members s.

Lemma ainv_upd s a v' s' :
  ainv s -> l_val s' = <[a := v']> (l_val s) -> l_set s' = l_set s ->
  (v_status v' = Active -> exists v, l_val s !! a = Some v /\ v_status v = Active) -> ainv s'.
Proof.
  intros [A M] Ev Es H. split.
  - intros b w Eb St. rewrite Es. rewrite Ev in Eb. destruct (decide (b = a)) as [->|Hne].
    + rewrite lookup_insert in Eb. injection Eb as <-. destruct (H St) as (v & E & Sv). eapply A; eauto.
    + rewrite lookup_insert_ne in Eb by congruence. eapply A; eauto.
  - intros b p Hb. rewrite Es in Hb. rewrite Ev. destruct (decide (b = a)) as [->|Hne].
    + rewrite lookup_insert. eauto.
    + rewrite lookup_insert_ne by congruence. eapply M; eauto.
Qed.
Lemma ainv_same s s' : l_val s' = l_val s -> l_set s' = l_set s -> ainv s -> ainv s'.
Proof. intros Ev Es [A M]. split; intros b x; rewrite ?Ev, ?Es; [apply A|apply M]. Qed.

Ltac rap := unfold rank_add_pos; repeat match goal with |- context [if (0 <? ?p)%N then _ else _] => destruct (0 <? p)%N end; reflexivity.

Lemma act_create s c d k s' : ainv s -> create_validator s c d k = Ok s' -> ainv s'.
Proof.
  intros I. unfold create_validator. destruct (negb _); [discriminate|].
  destruct (l_val s !! d) as [v|] eqn:E; [intros [= <-]; exact I|]. intros [= <-].
  destruct (bool_decide (d ∈ l_accounts s)); (eapply ainv_upd; [exact I|reflexivity|reflexivity|cbn; discriminate]).
Qed.
Lemma act_fold {B} (f : lstate -> B -> res lstate) (l : list B) :
  (forall s b s', ainv s -> f s b = Ok s' -> ainv s') -> forall s s', ainv s -> fold_res f l s = Ok s' -> ainv s'.
Proof.
  intros Hf. induction l as [|b r IH]; intros s s' I; cbn [fold_res]; [intros [= <-]; exact I|].
  destruct (f s b) as [s1| |] eqn:E; cbn [rbind]; try discriminate. intros H. eapply IH; [|exact H]. eapply Hf; eauto.
Qed.
Lemma act_create_all reqs : forall s s', ainv s -> create_all s reqs = Ok s' -> ainv s'.
Proof.
  induction reqs as [|[[c d] k] r IH]; intros s s' I; cbn [create_all]; [intros [= <-]; exact I|].
  destruct (create_validator s c d k) as [s1| |] eqn:E; cbn [rbind]; try discriminate.
  intros H. eapply IH; [|exact H]. eapply act_create; eauto.
Qed.
Lemma act_lock_one s now a coins s' : ainv s -> lock_one s now a coins = Ok s' -> ainv s'.
Proof.
  intros I. unfold lock_one. destruct (l_val s !! a) as [v|] eqn:E; [|discriminate].
  destruct (v_status v) eqn:St.
  - destruct (lock_power _ _ _); cbn [rbind]; try discriminate. intros [= <-].
    eapply (ainv_upd s a); [exact I|rap|rap|cbn; rewrite St; discriminate].
  - destruct (lock_power _ _ _); cbn [rbind]; try discriminate. intros [= <-].
    eapply (ainv_upd s a); [exact I|rap|rap|eauto].
  - intros [= <-]. eapply (ainv_upd s a); [exact I|reflexivity|reflexivity|cbn; rewrite St; discriminate].
  - destruct (_ && _).
    + destruct (lock_power _ _ _); cbn [rbind]; try discriminate. intros [= <-].
      eapply (ainv_upd s a); [exact I|rap|rap|cbn; discriminate].
    + intros [= <-]. eapply (ainv_upd s a); [exact I|reflexivity|reflexivity|cbn; rewrite St; discriminate].
  - intros [= <-]. eapply (ainv_upd s a); [exact I|reflexivity|reflexivity|cbn; rewrite St; discriminate].
Qed.
Lemma act_lock_each now l : forall s s', ainv s -> lock_each s now l = Ok s' -> ainv s'.
Proof.
  induction l as [|[a cs] r IH]; intros s s' I; cbn [lock_each]; [intros [= <-]; exact I|].
  destruct (lock_one s now a _) as [s1| |] eqn:E; cbn [rbind]; try discriminate.
  intros H. eapply IH; [|exact H]. eapply act_lock_one; eauto.
Qed.
Lemma act_unlock_one s now id a rc t req s' : ainv s -> unlock_one s now id a rc t req = Ok s' -> ainv s'.
Proof.
  intros I. unfold unlock_one. destruct (l_val s !! a) as [v|] eqn:E; [|discriminate].
  cbn [l_tok rank_remove set_rank]. destruct (l_tok s !! t) as [tk|]; [|discriminate].
  destruct (_ && negb (fits64 _)); [discriminate|].
  destruct (_ || _).
  - intros [= <-]. eapply (ainv_upd s a); [exact I|reflexivity|reflexivity|]. cbn. destruct (v_status v); discriminate.
  - destruct (in_ranking_status _); intros [= <-]; (eapply (ainv_upd s a); [exact I|rap|rap|cbn; eauto]).
Qed.
Lemma act_unlock_all now reqs : forall s s', ainv s -> unlock_all s now reqs = Ok s' -> ainv s'.
Proof.
  induction reqs as [|[[[[id a] rc] t] amt] r IH]; intros s s' I; cbn [unlock_all]; [intros [= <-]; exact I|].
  destruct (unlock_one s now id a rc t amt) as [s1| |] eqn:E; cbn [rbind]; try discriminate.
  intros H. eapply IH; [|exact H]. eapply act_unlock_one; eauto.
Qed.
Lemma act_weight_walk prev cur es : forall s s', ainv s -> weight_walk s prev cur es = Ok s' -> ainv s'.
Proof.
  induction es as [|[a amt] r IH]; intros s s' I; cbn [weight_walk]; [intros [= <-]; exact I|].
  destruct (l_val s !! a) as [v|] eqn:E; [|discriminate].
  destruct (negb (fits64 _)); [destruct (prev <? cur)%N; discriminate|].
  intros H. eapply IH; [|exact H]. eapply (ainv_upd s a); [exact I|rap|rap|cbn; eauto].
Qed.
Lemma act_update_weight s t w s' : ainv s -> update_weight s t w = Ok s' -> ainv s'.
Proof.
  intros I. unfold update_weight. destruct (_ =? _)%N; cbn [rbind]; [intros [= <-]; eapply ainv_same; [| |exact I]; reflexivity|].
  destruct (weight_walk _ _ _ _) as [s1| |] eqn:W; cbn [rbind]; try discriminate.
  intros [= <-]. eapply ainv_same; [| |eapply act_weight_walk; eauto]; reflexivity.
Qed.
Lemma act_update_threshold s t th s' : ainv s -> update_threshold s t th = Ok s' -> ainv s'.
Proof.
  intros I. unfold update_threshold. destruct (l_tok s !! t); [|discriminate].
  destruct (_ =? _); intros [= <-]; [exact I|]. eapply ainv_same; [| |exact I]; reflexivity.
Qed.
Lemma act_update_tokens s ws ths s' : ainv s -> update_tokens s ws ths = Ok s' -> ainv s'.
Proof.
  intros I. unfold update_tokens. destruct (fold_res _ ws s) as [s1| |] eqn:E; cbn [rbind]; try discriminate.
  intros H. eapply (act_fold (fun s '(t, th) => update_threshold s t th)); [| |exact H].
  - intros x [t th] y. apply act_update_threshold.
  - eapply (act_fold (fun s '(t, w) => update_weight s t w)); [|exact I|exact E]. intros x [t w] y. apply act_update_weight.
Qed.
Lemma act_claim s r s' : ainv s -> claim_one s r = Ok s' -> ainv s'.
Proof.
  intros I. destruct r as [[id a] rc]. unfold claim_one. destruct (l_val s !! a) as [v|] eqn:E; [|discriminate].
  intros [= <-]. eapply (ainv_upd s a); [exact I|reflexivity|reflexivity|cbn; eauto].
Qed.
Lemma act_pool s h gas grants s' : ainv s -> update_reward_pool s h gas grants = Ok s' -> ainv s'.
Proof.
  intros I. unfold update_reward_pool. destruct gas as [|g [|]]; try discriminate.
  intros [= <-]. eapply ainv_same; [| |exact I]; reflexivity.
Qed.
Lemma act_requests s now h q s' : ainv s -> process_requests s now h q = Ok s' -> ainv s'.
Proof.
  intros I. unfold process_requests.
  destruct (update_reward_pool _ _ _ _) as [s1| |] eqn:E1; cbn [rbind]; try discriminate.
  destruct (update_tokens _ _ _) as [s2| |] eqn:E2; cbn [rbind]; try discriminate.
  destruct (create_all _ _) as [s3| |] eqn:E3; cbn [rbind]; try discriminate.
  destruct (lock_all _ _ _) as [s4| |] eqn:E4; cbn [rbind]; try discriminate.
  destruct (unlock_all _ _ _) as [s5| |] eqn:E5; cbn [rbind]; try discriminate.
  intros H. eapply (act_fold claim_one); [intros x r y; apply act_claim| |exact H].
  eapply act_unlock_all; [|exact E5]. unfold lock_all in E4. eapply act_lock_each; [|exact E4].
  eapply act_create_all; [|exact E3]. eapply act_update_tokens; [|exact E2]. eapply act_pool; eauto.
Qed.
Lemma act_distribute gas goat total votes : forall s remg remr s' g r,
  ainv s -> distribute s gas goat total remg remr votes = Ok (s', g, r) -> ainv s'.
Proof.
  induction votes as [|[a p] vs IH]; intros s remg remr s' g r I; cbn [distribute]; [intros [= <- _ _]; exact I|].
  destruct (l_val s !! a) as [v|] eqn:E; [|discriminate]. intros H. eapply IH; [|exact H].
  eapply (ainv_upd s a); [exact I|reflexivity|reflexivity|cbn; eauto].
Qed.
Lemma act_distribute_reward s h votes s' : ainv s -> distribute_reward s h votes = Ok s' -> ainv s'.
Proof.
  intros I. unfold distribute_reward. destruct (h <? 2); [intros [= <-]; exact I|].
  destruct (_ =? 0); [discriminate|].
  destruct (distribute _ _ _ _ _ _ _) as [[[s1 g] r]| |] eqn:E; cbn [rbind]; try discriminate.
  intros [= <-]. eapply ainv_same; [| |eapply act_distribute; eauto]; reflexivity.
Qed.
Lemma set_slash a frac l : forall acc, l_set (fst (fold_left (slash_step a frac) l acc)) = l_set (fst acc).
Proof. induction l as [|x l IH]; intros acc; cbn [fold_left]; [reflexivity|]. rewrite IH. reflexivity. Qed.
Lemma act_punish s a v frac (mk : validator -> gmap N Z -> validator) s' :
  ainv s -> l_val s !! a = Some v -> (forall h, v_status (mk v h) <> Active) ->
  (let '(s2, h') := slash_holdings (rank_remove s (v_power v) a) a (v_hold v) frac in
   set_val s2 (<[a := mk v h']> (l_val s2))) = s' -> ainv s'.
Proof.
  intros I E K. unfold slash_holdings.
  destruct (slash_fold a frac (map_to_list (v_hold v)) (rank_remove s (v_power v) a, ∅)) as (E1 & _).
  pose proof (set_slash a frac (map_to_list (v_hold v)) (rank_remove s (v_power v) a, ∅)) as E2.
  cbn zeta in *. destruct (fold_left _ _ _) as [s2 h'] eqn:F. cbn [fst snd] in *. intros <-.
  eapply (ainv_upd s a); [exact I|cbn; rewrite E1; reflexivity|cbn; rewrite E2; reflexivity|]. intros H. destruct (K h' H).
Qed.
Lemma act_handle_vote s now a absent s' : ainv s -> handle_vote s now a absent = Ok s' -> ainv s'.
Proof.
  intros I. unfold handle_vote. destruct (l_val s !! a) as [v|] eqn:E; [|discriminate].
  destruct (negb (bool_decide (v_status v = Active))) eqn:Bd; [intros [= <-]; exact I|].
  apply negb_false_iff, bool_decide_eq_true_1 in Bd.
  set (missed := if absent then v_missed v + 1 else v_missed v).
  destruct (v_offset v + 1 >=? lp_window (l_params s)); cbn zeta.
  - destruct (missed >=? lp_max_missed (l_params s)).
    + intros H. eapply (act_punish s a v (lp_slash_down (l_params s)) (fun v h => with_jailed (with_power (with_status (with_hold (with_signing v 0 0) h) Downgrade) 0%N) (now + lp_jail_dur (l_params s))) s' I E); [cbn; discriminate|].
      destruct (slash_holdings _ _ _ _) as [s2 h']. injection H as <-. reflexivity.
    + intros [= <-]. eapply (ainv_upd s a (with_signing v 0 0)); [exact I|reflexivity|reflexivity|cbn; eauto].
  - destruct (missed >=? lp_max_missed (l_params s)).
    + intros H. eapply (act_punish s a v (lp_slash_down (l_params s)) (fun v h => with_jailed (with_power (with_status (with_hold (with_signing v (v_offset v + 1) missed) h) Downgrade) 0%N) (now + lp_jail_dur (l_params s))) s' I E); [cbn; discriminate|].
      destruct (slash_holdings _ _ _ _) as [s2 h']. injection H as <-. reflexivity.
    + intros [= <-]. eapply (ainv_upd s a (with_signing v (v_offset v + 1) missed)); [exact I|reflexivity|reflexivity|cbn; eauto].
Qed.
Lemma act_handle_evidence s now h lim e s' : ainv s -> handle_evidence s now h lim e = Ok s' -> ainv s'.
Proof.
  intros I. destruct e as [[[a et] eh] counted]. unfold handle_evidence.
  destruct (negb counted); [intros [= <-]; exact I|].
  destruct (evidence_expired _ _ _ _ _); [intros [= <-]; exact I|].
  destruct (l_val s !! a) as [v|] eqn:E; [|discriminate].
  destruct (bool_decide _); [intros [= <-]; exact I|].
  intros H. eapply (act_punish s a v (lp_slash_double (l_params s)) (fun v h => with_power (with_status (with_hold v h) Tombstoned) 0%N) s' I E); [cbn; discriminate|].
  destruct (slash_holdings _ _ _ _) as [s2 h']. injection H as <-. reflexivity.
Qed.
Lemma act_dequeue_mature s now : ainv s -> ainv (dequeue_mature s now).
Proof. intros I. unfold dequeue_mature. destruct (filter _ _); [exact I|]. eapply ainv_same; [| |exact I]; reflexivity. Qed.
Lemma act_begin s now h lim votes evs s' : ainv s -> begin_block s now h lim votes evs = Ok s' -> ainv s'.
Proof.
  intros I. unfold begin_block. destruct (distribute_reward _ _ _) as [s1| |] eqn:E1; cbn [rbind]; try discriminate.
  destruct (fold_res _ votes _) as [s3| |] eqn:E3; cbn [rbind]; try discriminate.
  intros H. eapply (act_fold (fun s e => handle_evidence s now h lim e)); [intros x e y; apply act_handle_evidence| |exact H].
  eapply (act_fold (fun s '(a, _, f) => handle_vote s now a f)); [| |exact E3].
  - intros x [[a p] f] y. apply act_handle_vote.
  - apply act_dequeue_mature. eapply act_distribute_reward; eauto.
Qed.

(* after a successful EndBlocker the invariant holds again, from the exact characterisation of the set *)
Lemma set_spec_ainv s : set_spec s -> ainv s.
Proof.
  intros H. split.
  - intros a v E St. rewrite H, E. cbn. rewrite St. eauto.
  - intros a p Hp. rewrite H in Hp. destruct (l_val s !! a); [eauto|discriminate].
Qed.

Theorem lk_step_ainv s o : dinv s -> ainv s -> ainv (fst (lk_step s o)).
Proof.
  intros D I. destruct o; cbn [lk_step]; unfold deliver.
  - destruct (begin_block _ _ _ _ _ _) as [x| |] eqn:E; cbn; try exact I. eapply act_begin; eauto.
  - destruct (process_requests _ _ _ _) as [x| |] eqn:E; cbn; try exact I. eapply act_requests; eauto.
  - destruct (end_block s) as [[x u]| |] eqn:E; cbn; try exact I.
    apply set_spec_ainv. eapply end_block_set_spec; [apply (di_rank s D)|apply I|exact E].
  - unfold dequeue_txs. destruct (l_q_rewards s), (l_q_unlocks s); cbn; try exact I; (eapply ainv_same; [| |exact I]; reflexivity).
  - cbn. eapply ainv_same; [| |exact I]; reflexivity.
Qed.

(* all together, for every history of well-formed operations from the empty state *)
Theorem reachable_all p rem goat gas acc ops :
  0 <= lp_slash_down p <= one18 -> 0 <= lp_slash_double p <= one18 -> Forall wf_op ops ->
  let s := lk_run (empty_lstate p rem goat gas acc) ops in dinv s /\ ainv s.
Proof.
  intros H1 H2 W. unfold lk_run.
  assert (G : forall s, dinv s -> slash_ok s -> ainv s ->
            dinv (fold_left (fun s o => fst (lk_step s o)) ops s) /\ ainv (fold_left (fun s o => fst (lk_step s o)) ops s)).
  { induction W as [|o r Ho Hr IH]; intros s D S A; cbn [fold_left]; [auto|].
    destruct (lk_step_inv s o D S Ho) as [D' S']. apply IH; [assumption|assumption|]. apply lk_step_ainv; assumption. }
  apply G; [apply dinv_empty|split; assumption|].
  split; [intros a v E; cbn in E; rewrite lookup_empty in E; discriminate|intros a q E; cbn in E; rewrite lookup_empty in E; discriminate].
Qed.

(* C18: in every reachable state in which the last operation was a successful EndBlocker, the recorded set is
   exactly the active validators *)
Theorem reachable_set_ok p rem goat gas acc ops s' ups :
  0 <= lp_slash_down p <= one18 -> 0 <= lp_slash_double p <= one18 -> Forall wf_op ops ->
  end_block (lk_run (empty_lstate p rem goat gas acc) ops) = Ok (s', ups) -> Model.LockingGenesis.set_ok s'.
Proof.
  intros H1 H2 W E. destruct (reachable_all p rem goat gas acc ops H1 H2 W) as [D [A M]].
  apply set_spec_set_ok. eapply end_block_set_spec; [apply (di_rank _ D)|exact A|exact E].
Qed.
