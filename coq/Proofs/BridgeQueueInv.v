(* C18, relayer module: the boarding queues are determined (up to order) by the voter records, in every
   reachable state; so InitGenesis, which rebuilds them from the exported records, reproduces them up to
   order.  on-boarding queue = records with status 2, off-boarding queue = records with status 3. *)
From stdpp Require Import gmap sorting.
From Goat Require Import Base.Prelude Gen.Consts Model.Merkle Model.BtcParams Model.Bridge Proofs.BridgeSeq Proofs.BridgeFrames
  Proofs.BridgeRelayer Proofs.BridgeGroup.
From Coq Require Import ZifyBool ZifyNat ZifyN Permutation.
Local Open Scope N_scope.

Record qinv (s : bstate) : Prop := mkQ {
  q_on : forall a, In a (r_on s) <-> status_of s a = Some 2;
  q_off : forall a, In a (r_off s) <-> status_of s a = Some 3;
  q_nd_on : List.NoDup (r_on s);
  q_nd_off : List.NoDup (r_off s);
}.

Section Q.
Variable H : bytes -> bytes.
Variable chain_id : bytes.

Lemma qinv_grp s s' : grp s' = grp s -> qinv s -> qinv s'.
Proof.
  unfold grp. intros E [A B C D]. injection E as E1 E2 E3 E4 E5 E6 E7.
  constructor; unfold status_of in *; rewrite ?E5, ?E6, ?E7; assumption.
Qed.

Lemma relayer_add_qinv s h r : qinv s -> qinv (relayer_add s h r).
Proof.
  intros [A B C D]. destruct r as [[b str] kh]. unfold relayer_add. destruct (r_voter s !! b) as [v|] eqn:E; [constructor; assumption|].
  assert (Sb : status_of s b = None) by (unfold status_of; rewrite E; reflexivity).
  constructor; cbn [r_on r_off set_voters]; try assumption.
  - intros a. rewrite A. unfold status_of. cbn [r_voter set_voters]. destruct (decide (a = b)) as [->|Hne].
    + rewrite lookup_insert, E. cbn. split; discriminate.
    + rewrite lookup_insert_ne by congruence. reflexivity.
  - intros a. rewrite B. unfold status_of. cbn [r_voter set_voters]. destruct (decide (a = b)) as [->|Hne].
    + rewrite lookup_insert, E. cbn. split; discriminate.
    + rewrite lookup_insert_ne by congruence. reflexivity.
Qed.

(* a record moves to status 3 and joins the removal queue *)
Lemma to_off_qinv s a vt vt' :
  qinv s -> r_voter s !! a = Some vt -> vt_status vt <> 3 -> vt_status vt <> 2 -> vt_status vt' = 3 ->
  qinv (set_voters s (<[a := vt']> (r_voter s)) (r_on s) (r_off s ++ [a]) (r_accounts s) (r_book s)).
Proof.
  intros [A B C D] E N3 N2 S3. constructor; cbn [r_on r_off set_voters].
  - intros b. rewrite A. unfold status_of. cbn [r_voter set_voters]. destruct (decide (b = a)) as [->|Hne].
    + rewrite lookup_insert, E. cbn. split; intros [= X]; congruence.
    + rewrite lookup_insert_ne by congruence. reflexivity.
  - intros b. rewrite in_app_iff, B. unfold status_of. cbn [r_voter set_voters In]. destruct (decide (b = a)) as [->|Hne].
    + rewrite lookup_insert, E. cbn. split; [intros _; congruence|auto].
    + rewrite lookup_insert_ne by congruence. split; [intros [X|[X|[]]]; [exact X|congruence]|auto].
  - exact C.
  - apply nodup_snoc; [exact D|]. intros Hin. apply B in Hin. unfold status_of in Hin. rewrite E in Hin. cbn in Hin. congruence.
Qed.
Lemma to_on_qinv s a vt vt' accs :
  qinv s -> r_voter s !! a = Some vt -> vt_status vt <> 3 -> vt_status vt <> 2 -> vt_status vt' = 2 ->
  qinv (set_voters s (<[a := vt']> (r_voter s)) (r_on s ++ [a]) (r_off s) accs (r_book s)).
Proof.
  intros [A B C D] E N3 N2 S2. constructor; cbn [r_on r_off set_voters].
  - intros b. rewrite in_app_iff, A. unfold status_of. cbn [r_voter set_voters In]. destruct (decide (b = a)) as [->|Hne].
    + rewrite lookup_insert, E. cbn. split; [intros _; congruence|auto].
    + rewrite lookup_insert_ne by congruence. split; [intros [X|[X|[]]]; [exact X|congruence]|auto].
  - intros b. rewrite B. unfold status_of. cbn [r_voter set_voters]. destruct (decide (b = a)) as [->|Hne].
    + rewrite lookup_insert, E. cbn. split; intros [= X]; congruence.
    + rewrite lookup_insert_ne by congruence. reflexivity.
  - apply nodup_snoc; [exact C|]. intros Hin. apply A in Hin. unfold status_of in Hin. rewrite E in Hin. cbn in Hin. congruence.
  - exact D.
Qed.

Lemma relayer_removes_qinv l : forall s active, qinv s -> qinv (relayer_removes s active l).
Proof.
  induction l as [|a r IH]; intros s active Q; cbn [relayer_removes]; [exact Q|].
  destruct (r_voter s !! a) as [vt|] eqn:Ea; [|apply IH; exact Q].
  destruct (negb (vt_status vt =? 4)) eqn:St; [apply IH; exact Q|].
  destruct (active - 1 <? 1)%Z; [exact Q|].
  apply negb_false_iff, N.eqb_eq in St. apply IH. eapply to_off_qinv; eauto; lia.
Qed.
Theorem relayer_request_qinv s h adds rms : qinv s -> qinv (process_relayer_request s h adds rms).
Proof.
  intros Q. unfold process_relayer_request.
  assert (Q1 : qinv (fold_left (fun s r => relayer_add s h r) adds s)).
  { revert s Q. induction adds as [|r l IH]; intros s Q; cbn [fold_left]; [exact Q|]. apply IH. apply relayer_add_qinv. exact Q. }
  destruct rms; [exact Q1|]. apply relayer_removes_qinv. exact Q1.
Qed.

Theorem new_voter_qinv s prop lok addr araw k kraw txp blsp s' :
  qinv s -> new_voter H chain_id s prop lok addr araw k kraw txp blsp = Ok s' -> qinv s'.
Proof.
  intros Q Hn. unfold new_voter, rbind in Hn.
  destruct lok; [|discriminate Hn]. cbn [negb] in Hn.
  destruct (verify_non_proposal s prop) as [s1| |] eqn:Ev; try discriminate Hn.
  assert (Q1 : qinv s1).
  { unfold verify_non_proposal in Ev. destruct (negb _); [discriminate|]. injection Ev as <-. eapply qinv_grp; [|exact Q]. reflexivity. }
  destruct (r_voter s1 !! addr) as [vt|] eqn:Evt; [|discriminate Hn].
  destruct (negb (vt_status vt =? 1)) eqn:Es; [discriminate Hn|]. apply negb_false_iff, N.eqb_eq in Es.
  destruct (negb (bool_decide _)); [discriminate Hn|].
  destruct txp as [[ts tm]|]; [|discriminate Hn]. destruct (negb _); [discriminate Hn|].
  destruct blsp as [[bs bm]|]; [|discriminate Hn]. destruct (negb _); [discriminate Hn|].
  destruct (bool_decide (addr ∈ r_accounts s1)); injection Hn as <-.
  - eapply to_off_qinv; eauto; lia.
  - eapply to_on_qinv; eauto; lia.
Qed.

(* the election empties both queues, activates the joiners and deletes the leavers: no record is left in
   status 2 or 3 *)
Theorem election_qinv s now s' : qinv s -> relayer_end_block H s now = Ok s' -> qinv s'.
Proof.
  intros Q. unfold relayer_end_block. cbv zeta.
  destruct (_ && _); [intros [= <-]; exact Q|].
  destruct (negb (forallb _ (r_on s))); [discriminate|].
  set (vt1 := fold_left _ (r_on s) (r_voter s)).
  assert (Evt1 : vt1 = fold_left activate (r_on s) (r_voter s)) by reflexivity.
  set (vt2 := fold_left (fun m a => delete a m) (r_off s) vt1).
  destruct Q as [A B C D].
  (* statuses after the queue processing *)
  assert (Hst : forall a, vt_status <$> (vt2 !! a) <> Some 2 /\ vt_status <$> (vt2 !! a) <> Some 3).
  { intros a. unfold vt2. rewrite delete_fold. destruct (mem a (r_off s)) eqn:Mo; [split; discriminate|].
    rewrite Evt1, activate_fold. destruct (mem a (r_on s)) eqn:Mn.
    - destruct (r_voter s !! a); cbn; split; discriminate.
    - apply mem_false in Mo, Mn. split; intros E.
      + apply Mn. apply A. exact E.
      + apply Mo. apply B. exact E. }
  assert (Qreset : forall s2, r_voter s2 = vt2 -> r_on s2 = [] -> r_off s2 = [] -> qinv s2).
  { intros s2 E1 E2 E3. constructor; rewrite ?E2, ?E3; try constructor.
    - intros []. - intros E. unfold status_of in E. rewrite E1 in E. exact (proj1 (Hst a) E).
    - intros []. - intros E. unfold status_of in E. rewrite E1 in E. exact (proj2 (Hst a) E). }
  assert (Qframe : forall s2, r_voter s2 = r_voter s -> r_on s2 = r_on s -> r_off s2 = r_off s -> qinv s2).
  { intros s2 E1 E2 E3. constructor; unfold status_of; rewrite ?E1, ?E2, ?E3; assumption. }
  clearbody vt2. clear Evt1. clearbody vt1.
  destruct (negb (length (r_off s) =? 0)%nat) eqn:Offb; destruct (negb (length (r_on s) =? 0)%nat) eqn:Onb;
    destruct (existsb (N.eqb (r_proposer s)) (r_off s)) eqn:Rem; cbn [andb orb negb];
    repeat match goal with |- context[match ?x with _ => _ end] => destruct x end;
    try discriminate; intros [= <-]; first [apply Qreset; reflexivity | apply Qframe; reflexivity].
Qed.

Theorem bk_step_qinv s o : qinv s -> qinv (fst (bk_step H chain_id s o)).
Proof.
  intros Q. pose proof (grp_frame H chain_id s o) as Hf.
  destruct o; try (apply (qinv_grp s); [exact Hf|exact Q]); clear Hf; cbn [bk_step].
  - cbn. apply relayer_request_qinv. exact Q.
  - destruct (new_voter H chain_id s prop lengths_ok addr addr_raw k khash_raw txproof blsproof) as [s'| |] eqn:E; cbn; try exact Q.
    eapply new_voter_qinv; eauto.
  - destruct (relayer_end_block H s now) as [s'| |] eqn:E; cbn; try exact Q. eapply election_qinv; eauto.
Qed.
Theorem qinv_reachable ops : forall s, qinv s -> qinv (bk_run H chain_id s ops).
Proof.
  unfold bk_run. induction ops as [|o r IH]; intros s Q; cbn [fold_left]; [exact Q|]. apply IH. apply bk_step_qinv. exact Q.
Qed.
End Q.

(* ---------------------------------------------------------------- InitGenesis rebuilds the queues from the records *)
(* voters: the exported voter records in the order of the export (ascending address key) *)
Definition rebuild_queue (st : N) (voters : list (N * voter)) : list N :=
  map fst (filter (fun av => vt_status (snd av) =? st) voters).

Theorem rebuilt_queues_are_permutations s :
  qinv s ->
  Permutation (rebuild_queue 2 (map_to_list (r_voter s))) (r_on s) /\
  Permutation (rebuild_queue 3 (map_to_list (r_voter s))) (r_off s).
Proof.
  intros [A B C D].
  assert (G : forall st q, List.NoDup q -> (forall a, In a q <-> status_of s a = Some st) ->
              Permutation (rebuild_queue st (map_to_list (r_voter s))) q).
  { intros st q ND Hq. apply NoDup_Permutation; [| exact ND |].
    - unfold rebuild_queue. apply NoDup_ListNoDup.
      assert (NDk := NoDup_fst_map_to_list (r_voter s)).
      revert NDk. generalize (map_to_list (r_voter s)). intros l NDk.
      induction l as [|[a v] l IH]; cbn; [constructor|]. inversion NDk; subst.
      destruct (vt_status v =? st); cbn; [constructor; [|apply IH; assumption]|apply IH; assumption].
      intros Hin. apply H1. apply elem_of_list_In in Hin. apply elem_of_list_In. apply in_map_iff in Hin.
      destruct Hin as ([b w] & Eb & Hin). cbn in Eb. subst b. apply filter_In in Hin. apply in_map_iff. exists (a, w). split; [reflexivity|apply Hin].
    - intros a. rewrite Hq. unfold rebuild_queue, status_of. rewrite in_map_iff. split.
      + intros ([b v] & Eb & Hin). cbn in Eb. subst b. apply filter_In in Hin. destruct Hin as [Hin Hs].
        apply elem_of_list_In, elem_of_map_to_list in Hin. rewrite Hin. cbn. cbn in Hs. apply N.eqb_eq in Hs. congruence.
      + destruct (r_voter s !! a) as [v|] eqn:E; cbn; [|discriminate]. intros [= Hs].
        exists (a, v). split; [reflexivity|]. apply filter_In. split; [apply elem_of_list_In, elem_of_map_to_list; exact E|].
        cbn. apply N.eqb_eq. exact Hs. }
  split; [apply G; assumption|apply G; assumption].
Qed.

(* the structural conditions under which the relayer InitGenesis panics (genesis.go: proposer missing from the
   voter records, a listed voter missing from them, a duplicate in the voter list, the proposer listed as a
   voter) never hold of an exported reachable state *)
Theorem relayer_import_accepts s :
  ginv s ->
  is_Some (r_voter s !! r_proposer s) /\
  (forall a, In a (r_voters s) -> is_Some (r_voter s !! a)) /\
  List.NoDup (r_voters s) /\ ~ In (r_proposer s) (r_voters s).
Proof.
  intros [A B C D].
  assert (Hrec : forall a, In a (members s) -> is_Some (r_voter s !! a)).
  { intros a Ha. destruct (B a Ha) as [E|E]; unfold status_of in E; destruct (r_voter s !! a); eauto; discriminate. }
  apply nodup_app_left in A. unfold members in *. inversion A; subst.
  repeat split; try assumption.
  - apply Hrec. left. reflexivity.
  - intros a Ha. apply Hrec. right. exact Ha.
Qed.
