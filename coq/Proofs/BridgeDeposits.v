(* C03: what an accepted deposit guarantees; each (txid, vout) is credited at most once. *)
From stdpp Require Import gmap sorting.
From Goat Require Import Base.Prelude Gen.Consts Model.Merkle Model.BtcParams Model.Bridge Proofs.BridgeSeq Proofs.BridgeFrames
  Proofs.BtcParamsProofs.
Local Open Scope N_scope.

Section Deposits.
Variable H : bytes -> bytes.
Variable chain_id : bytes.
Notation H2 := (Bridge.H2 H).

Definition script_ok (s : bstate) (d : deposit) (k : btckey) (outs : list (N * bytes)) : bool :=
  match dp_version d with
  | 0 => verify_script_v0 H k (dp_evm d) (dp_tweak d) (snd (nth (N.to_nat (dp_vout d)) outs (0, [])))
  | 1 => (dp_vout d =? 0) && (2 <=? N.of_nat (length outs))
         && verify_script_v1 k (b_magic s) (dp_evm d) (snd (nth (N.to_nat (dp_vout d)) outs (0, []))) (snd (nth 1 outs (0, [])))
  | _ => false
  end.

Theorem verify_deposit_sound s headers d rc :
  verify_deposit H s headers d = Ok rc ->
  exists k bh hdr outs,
    dp_key d = Some k /\ key_id k ∈ r_pubkeys s /\                      (* registered relayer key *)
    b_hashes s !! dp_height d = Some bh /\                             (* a voted block hash ... *)
    length hdr = 80%nat /\ H2 hdr = bh /\                              (* ... of this 80-byte header *)
    (dp_txindex d = 0 -> dp_height d + c_CoinbaseMaturity <= b_tip s) /\   (* coinbase maturity *)
    dp_parsed d = Some outs /\ dp_vout d < N.of_nat (length outs) /\
    b_deposited s !! (be_val (H2 (dp_tx d)), dp_vout d) = None /\      (* not credited before *)
    let value := fst (nth (N.to_nat (dp_vout d)) outs (0, [])) in
    bp_min (b_params s) <= value /\
    script_ok s d k outs = true /\                                     (* script commits to key and EVM address *)
    verify H2 (H2 (dp_tx d)) (header_root hdr) (dp_proof d) (dp_txindex d) = true /\   (* SPV *)
    d_txid rc = H2 (dp_tx d) /\ d_txout rc = dp_vout d /\ d_evm rc = dp_evm d /\
    d_tax rc = tax_of (b_params s) value /\ d_amount rc = value - d_tax rc.
Proof.
  unfold verify_deposit. intros Hv. cbv zeta in Hv.
  destruct (dp_key d) as [k|] eqn:Ek; [|discriminate Hv].
  destruct (negb (bool_decide (key_id k ∈ r_pubkeys s))) eqn:E1; [discriminate Hv|].
  destruct (b_hashes s !! dp_height d) as [bh|] eqn:Eh; [|discriminate Hv].
  destruct ((dp_txindex d =? 0) && (b_tip s <? dp_height d + c_CoinbaseMaturity)) eqn:E2; [discriminate Hv|].
  remember (find_header headers (dp_height d)) as hdr eqn:Ehdr.
  destruct (negb (N.of_nat (length hdr) =? c_RawBtcHeaderSize)) eqn:E3; [discriminate Hv|].
  destruct (negb (beq_bytes bh (H2 hdr))) eqn:E4; [discriminate Hv|].
  destruct (dp_parsed d) as [outs|] eqn:Ep; [|discriminate Hv].
  destruct (N.of_nat (length outs) <=? dp_vout d) eqn:E5; [discriminate Hv|].
  destruct (bool_decide (is_Some (b_deposited s !! (be_val (H2 (dp_tx d)), dp_vout d)))) eqn:E6; [discriminate Hv|].
  destruct (nth (N.to_nat (dp_vout d)) outs (0, [])) as [value script] eqn:En.
  destruct (value <? bp_min (b_params s)) eqn:E7; [discriminate Hv|].
  match type of Hv with (if negb ?c then _ else _) = _ => destruct c eqn:E8; [|discriminate Hv] end.
  destruct (negb (verify H2 (H2 (dp_tx d)) (header_root hdr) (dp_proof d) (dp_txindex d))) eqn:E9; [discriminate Hv|].
  inversion Hv; subst; clear Hv. cbn.
  exists k, bh, (find_header headers (dp_height d)), outs.
  apply negb_false_iff in E1, E3, E4, E9. apply bool_decide_eq_true in E1. apply beq_bytes_eq in E4.
  apply bool_decide_eq_false in E6.
  unfold c_RawBtcHeaderSize in E3. cbv zeta. rewrite En. cbn [fst snd d_txid d_txout d_evm d_tax d_amount].
  split; [reflexivity|]. split; [exact E1|]. split; [reflexivity|]. split; [lia|]. split; [symmetry; exact E4|].
  split. { intros Hz. rewrite Hz in E2. cbn in E2. lia. }
  split; [reflexivity|]. split; [lia|].
  split. { destruct (b_deposited s !! _) eqn:Ed; [exfalso; apply E6; eauto | reflexivity]. }
  split; [lia|]. split. { unfold script_ok. rewrite En. cbn [snd]. exact E8. }
  split; [exact E9|]. repeat split.
Qed.

(* the consequences of C20 apply to every accepted deposit under safe parameters *)
Corollary verify_deposit_value s headers d rc :
  params_safe (b_params s) -> verify_deposit H s headers d = Ok rc ->
  d_tax rc < d_amount rc + d_tax rc /\ 0 < d_amount rc.
Proof.
  intros Hs Hv. apply verify_deposit_sound in Hv.
  destruct Hv as (k & bh & hdr & outs & _ & _ & _ & _ & _ & _ & _ & _ & _ & Hrest).
  cbv zeta in Hrest. destruct Hrest as (Hmin & _ & _ & _ & _ & _ & Htax & Hamt).
  pose proof (safe_consequences (b_params s) _ Hs Hmin) as (A & B & _). lia.
Qed.

(* ---------- once ---------- *)
Definition rkey (rc : deprcpt) : N * N := (be_val (d_txid rc), d_txout rc).

Lemma deposits_loop_once ds : forall s hs acc s' rcs,
  deposits_loop H s hs ds acc = Ok (s', rcs) ->
  exists new, rcs = acc ++ new /\ NoDup (map rkey new) /\
    (forall k, In k (map rkey new) -> b_deposited s !! k = None /\ is_Some (b_deposited s' !! k)) /\
    (forall k, is_Some (b_deposited s !! k) -> is_Some (b_deposited s' !! k)).
Proof.
  induction ds as [|d r IH]; intros s hs acc s' rcs Hl; cbn in Hl.
  - inversion Hl; subst. exists []. rewrite app_nil_r.
    split; [reflexivity|]. split; [cbn; constructor|]. split; [intros kk []|auto].
  - destruct (negb (deposit_validate d)); [discriminate Hl|].
    destruct (verify_deposit H s hs d) as [rc| |] eqn:Ev; cbn in Hl; try discriminate Hl.
    apply IH in Hl. destruct Hl as (new & -> & ND & Hnew & Hmono). cbn [b_deposited set_deposited] in *.
    apply verify_deposit_sound in Ev.
    destruct Ev as (k & bh & hdr & outs & _ & _ & _ & _ & _ & _ & _ & _ & Hfresh & Hrest).
    cbv zeta in Hrest. destruct Hrest as (_ & _ & _ & Htx & Hout & _).
    fold (rkey rc) in Hnew, Hmono.
    assert (Hk : rkey rc = (be_val (H2 (dp_tx d)), dp_vout d)) by (unfold rkey; rewrite Htx, Hout; reflexivity).
    rewrite <- Hk in Hfresh.
    exists (rc :: new). rewrite <- app_assoc. split; [reflexivity|]. split; [|split].
    + cbn [map]. constructor; [|exact ND]. intros Hin. destruct (Hnew _ Hin) as [Hn _].
      rewrite lookup_insert in Hn. discriminate.
    + intros k0 [<-|Hin].
      * split; [exact Hfresh|]. apply Hmono. rewrite lookup_insert. eauto.
      * destruct (Hnew _ Hin) as [Hn Hs]. split; [|exact Hs].
        destruct (decide (k0 = rkey rc)) as [->|Hne]; [rewrite lookup_insert in Hn; discriminate|].
        rewrite lookup_insert_ne in Hn by congruence. exact Hn.
    + intros k0 Hs0. apply Hmono. destruct (decide (k0 = rkey rc)) as [->|Hne].
      * rewrite lookup_insert. eauto.
      * rewrite lookup_insert_ne by congruence. exact Hs0.
Qed.

(* credits made by one operation *)
Definition op_credits (s : bstate) (o : bop) : list (N * N) :=
  match o with
  | BDeposits p hs ds =>
    match new_deposits H s p hs ds with
    | Ok s' => map rkey (skipn (length (b_qdep s)) (b_qdep s'))
    | _ => []
    end
  | _ => []
  end.

Fixpoint history_credits (s : bstate) (ops : list bop) : list (N * N) :=
  match ops with
  | [] => []
  | o :: r => op_credits s o ++ history_credits (fst (bk_step H chain_id s o)) r
  end.

Lemma step_credits s o :
  NoDup (op_credits s o) /\
  (forall k, In k (op_credits s o) -> b_deposited s !! k = None /\ is_Some (b_deposited (fst (bk_step H chain_id s o)) !! k)) /\
  (forall k, is_Some (b_deposited s !! k) -> is_Some (b_deposited (fst (bk_step H chain_id s o)) !! k)).
Proof.
  pose proof (dp_frame H chain_id s o) as Hf.
  destruct o as [? ? ? ?|? ? ?|p0 hs0 ds0|? ? ? ? ? ?|? ? ? ? ? ?|? ? ? ? ? ? ?|? ?|? ? ? ?|?| |? ? ?|? ? ? ? ? ? ? ?|? ? ?|?];
    try (unfold dp in Hf; rewrite Hf; cbn [op_credits]; split; [constructor|]; split; [intros kk []|auto]).
  cbn [bk_step op_credits]. clear Hf.
  destruct (new_deposits H s p0 hs0 ds0) as [s'| |] eqn:E; cbn [deliver_b fst];
    try (split; [constructor|]; split; [intros kk []|auto]).
  unfold new_deposits, rbind in E. des E.
  match goal with Hv : verify_non_proposal _ _ = Ok ?b |- _ => pose proof (dp_verify_non_proposal _ _ _ Hv) as Hd0; unfold dp in Hd0;
    assert (Hq0 : b_qdep b = b_qdep s) by (unfold verify_non_proposal in Hv; des Hv; inversion Hv; reflexivity) end.
  match goal with Hd : deposits_loop _ ?b1 _ _ _ = Ok (?b2, ?l) |- _ =>
    assert (Hq1 : b_qdep b2 = b_qdep b1) by (pose proof (qp_deposits_loop H _ _ _ _ _ _ Hd) as Hq; unfold qp in Hq; congruence);
    apply deposits_loop_once in Hd; destruct Hd as (new & Hnew & ND & Hk & Hmono) end.
  inversion E; subst; clear E. cbn [b_qdep set_queue b_deposited].
  rewrite Hq1, Hq0. cbn [app] in *.
  rewrite skipn_app, skipn_all, Nat.sub_diag. cbn [app skipn]. rewrite <- Hd0.
  repeat split; auto; apply Hk; auto.
Qed.

Lemma nodup_app {A} (l1 l2 : list A) : NoDup l1 -> NoDup l2 -> (forall x, In x l1 -> ~ In x l2) -> NoDup (l1 ++ l2).
Proof.
  induction 1 as [|x l Hx ND IH]; intros N2 Hd; cbn; [exact N2|].
  constructor.
  - intros Hin. apply in_app_or in Hin. destruct Hin as [Hin|Hin]; [tauto|]. apply (Hd x); [left; reflexivity | exact Hin].
  - apply IH; auto. intros y Hy. apply Hd. right. exact Hy.
Qed.

Theorem credits_once ops : forall s,
  NoDup (history_credits s ops) /\
  (forall k, In k (history_credits s ops) -> b_deposited s !! k = None).
Proof.
  induction ops as [|o r IH]; intros s; cbn [history_credits]; [split; [constructor | intros k []]|].
  destruct (step_credits s o) as (ND & Hk & Hmono).
  destruct (IH (fst (bk_step H chain_id s o))) as (ND' & Hk').
  split.
  - apply nodup_app; auto.
    intros k Hin Hin'. destruct (Hk k Hin) as [_ [x Hx]].
    rewrite (Hk' k Hin') in Hx. discriminate.
  - intros k Hin. apply in_app_or in Hin. destruct Hin as [Hin|Hin]; [apply Hk; exact Hin|].
    specialize (Hk' k Hin). destruct (b_deposited s !! k) eqn:E; [|reflexivity].
    destruct (Hmono k ltac:(eauto)) as [x Hx]. congruence.
Qed.

End Deposits.
