(* C17: deposit addresses handed out are exactly what deposit checking accepts; shape of decoded
   withdrawal addresses. *)
From Goat Require Import Base.Prelude Model.Address.
From Coq Require Import ZifyBool ZifyN ZifyNat.
Local Open Scope N_scope.

Lemma beq_bytes_refl b : beq_bytes b b = true.
Proof. induction b as [|x r IH]; cbn; [reflexivity|]. rewrite N.eqb_refl. exact IH. Qed.
Lemma beq_bytes_eq a : forall b, beq_bytes a b = true -> a = b.
Proof.
  induction a as [|x r IH]; intros [|y s]; cbn; try discriminate; [reflexivity|].
  rewrite andb_true_iff. intros [E H]. apply N.eqb_eq in E. subst. f_equal. apply IH. exact H.
Qed.

Section AddrProofs.
Variable sha256d sha256 hash160 : bytes -> bytes.
Variable taproot_tweak : bytes -> bytes -> bytes.
Hypothesis sha256_len : forall m, length (sha256 m) = 32%nat.
Hypothesis hash160_len : forall m, length (hash160 m) = 20%nat.
Hypothesis tweak_len : forall p e, length (taproot_tweak p e) = 32%nat.

Notation dep0 := (deposit_address_v0 sha256 taproot_tweak).
Notation dep1 := (deposit_address_v1 hash160).
Notation ver0 := (verify_deposit_script_v0 sha256 taproot_tweak).
Notation ver1 := (verify_deposit_script_v1 hash160).

(* ---- what is handed out is accepted *)
Theorem handed_out_v0_accepted k evm net a :
  dep0 k evm net = Ok a -> ver0 k evm (pay_to_addr a) = true.
Proof.
  unfold deposit_address_v0, verify_deposit_script_v0.
  destruct (length evm =? 20)%nat eqn:E; cbn [negb]; [|discriminate].
  destruct (key_valid k); cbn [negb]; [|discriminate].
  destruct k as [p|p ok].
  - intros [= <-]. cbn [pay_to_addr andb]. cbn [app length firstn skipn].
    rewrite sha256_len. cbn. rewrite beq_bytes_refl. reflexivity.
  - destruct ok; [|discriminate]. intros [= <-]. cbn [pay_to_addr app length firstn skipn].
    rewrite tweak_len. cbn. rewrite beq_bytes_refl. reflexivity.
Qed.

Theorem handed_out_v1_accepted k magic evm net a script :
  dep1 k magic evm net = Ok (a, script) -> ver1 k magic evm (pay_to_addr a) script = true.
Proof.
  unfold deposit_address_v1, verify_deposit_script_v1.
  destruct (length evm =? 20)%nat eqn:E; cbn [negb]; [|discriminate].
  destruct (length magic =? 4)%nat eqn:M; cbn [negb]; [|discriminate].
  destruct (key_valid k); cbn [negb]; [|discriminate].
  destruct k as [p|p ok]; [|discriminate].
  intros [= <- <-]. cbn [pay_to_addr app length firstn skipn andb].
  rewrite hash160_len, app_length. apply Nat.eqb_eq in E, M. rewrite E, M. cbn.
  rewrite !beq_bytes_refl. reflexivity.
Qed.

(* ---- version 1 exists only for ECDSA keys *)
Theorem v1_only_ecdsa p ok magic evm net t0 t1 :
  dep1 (KSchnorr p ok) magic evm net = Err /\ ver1 (KSchnorr p ok) magic evm t0 t1 = false.
Proof.
  unfold deposit_address_v1, verify_deposit_script_v1. split.
  - destruct (length evm =? 20)%nat, (length magic =? 4)%nat, (key_valid (KSchnorr p ok)); reflexivity.
  - rewrite andb_false_r. reflexivity.
Qed.

(* ---- and for no other key / EVM address (up to an exhibited collision) *)
Definition collision (f : bytes -> bytes) : Prop := exists x y, x <> y /\ f x = f y.

Lemma app_inj_length {A} (a a' b b' : list A) :
  length a = length a' -> a ++ b = a' ++ b' -> a = a' /\ b = b'.
Proof.
  revert a'. induction a as [|x a IH]; intros [|y a'] L H; cbn in *; try discriminate; [auto|].
  injection H as -> H. destruct (IH a' (eq_add_S _ _ L) H) as [-> ->]. auto.
Qed.
Lemma witness_script_inj p e p' e' :
  length e = 20%nat -> length e' = 20%nat ->
  v0_witness_script p e = v0_witness_script p' e' -> p = p' /\ e = e'.
Proof.
  unfold v0_witness_script, push. intros L L' H. rewrite L, L' in H. cbn [app] in H.
  injection H as H.
  assert (He : e = e' /\ 117 :: N.of_nat (length p) :: p ++ [172] = 117 :: N.of_nat (length p') :: p' ++ [172]).
  { apply app_inj_length; [congruence|exact H]. }
  destruct He as [-> H2]. injection H2 as Hl H2.
  apply app_inj_tail in H2. destruct H2 as [-> _]. auto.
Qed.

Theorem v0_binding k evm net a k' evm' :
  dep0 k evm net = Ok a -> ver0 k' evm' (pay_to_addr a) = true ->
  (k' = k /\ evm' = evm) \/ collision sha256 \/
  (exists p p' ok ok', k = KSchnorr p ok /\ k' = KSchnorr p' ok' /\ taproot_tweak p' evm' = taproot_tweak p evm).
Proof.
  unfold deposit_address_v0, verify_deposit_script_v0.
  destruct (length evm =? 20)%nat eqn:E; cbn [negb]; [|discriminate].
  destruct (key_valid k); cbn [negb]; [|discriminate].
  destruct (length evm' =? 20)%nat eqn:E'; cbn [andb]; [|discriminate].
  apply Nat.eqb_eq in E, E'.
  destruct k as [p|p ok].
  - intros [= <-]. cbn [pay_to_addr app length firstn skipn].
    destruct k' as [p'|p' ok']; cbn.
    + rewrite !andb_true_iff. intros [_ H]. apply beq_bytes_eq in H.
      destruct (list_eq_dec N.eq_dec (v0_witness_script p' evm') (v0_witness_script p evm)) as [Heq|Hne].
      * left. apply witness_script_inj in Heq; try assumption. destruct Heq as [-> ->]. auto.
      * right. left. exists (v0_witness_script p' evm'), (v0_witness_script p evm). auto.
    + rewrite !andb_true_iff. intros [[[_ H] _] _]. discriminate.
  - destruct ok; [|discriminate]. intros [= <-]. cbn [pay_to_addr app length firstn skipn].
    destruct k' as [p'|p' ok']; cbn.
    + rewrite !andb_true_iff. intros [[_ H] _]. discriminate.
    + rewrite !andb_true_iff. intros [[[_ _] Hok] H]. apply beq_bytes_eq in H.
      right. right. exists p, p', true, ok'. auto.
Qed.

Theorem v1_binding k magic evm net a script k' magic' evm' :
  dep1 k magic evm net = Ok (a, script) -> ver1 k' magic' evm' (pay_to_addr a) script = true ->
  exists p p', k = KSecp p /\ k' = KSecp p' /\ hash160 p' = hash160 p /\ magic' = magic /\ evm' = evm.
Proof.
  unfold deposit_address_v1, verify_deposit_script_v1.
  destruct (length evm =? 20)%nat eqn:E; cbn [negb]; [|discriminate].
  destruct (length magic =? 4)%nat eqn:M; cbn [negb]; [|discriminate].
  destruct (key_valid k); cbn [negb]; [|discriminate].
  destruct k as [p|p ok]; [|discriminate].
  intros [= <- <-]. cbn [pay_to_addr app length firstn skipn].
  destruct k' as [p'|p' ok']; [|rewrite andb_false_r; discriminate].
  rewrite !andb_true_iff. intros [[M' E'] [[[[[_ _] H1] _] _] H2]].
  apply beq_bytes_eq in H1, H2. apply Nat.eqb_eq in E, M, E', M'.
  exists p, p'. repeat split; auto.
  - apply app_inj_length in H2; [|congruence]. symmetry. apply H2.
  - apply app_inj_length in H2; [|congruence]. symmetry. apply H2.
Qed.

(* ---- decoded withdrawal addresses *)
Definition standard_script (s : bytes) : Prop :=
  (exists h, length h = 20%nat /\ s = [118; 169; 20] ++ h ++ [136; 172]) \/
  (exists h, length h = 20%nat /\ s = [169; 20] ++ h ++ [135]) \/
  (exists p, length p = 20%nat /\ s = [0; 20] ++ p) \/
  (exists p, length p = 32%nat /\ s = [0; 32] ++ p) \/
  (exists p, length p = 32%nat /\ s = [81; 32] ++ p).

Theorem decode_gives_standard_script hrps net s script :
  decode_btc_address sha256d hrps net s = Ok script ->
  standard_script script /\
  exists a, decode_address sha256d hrps net s = Ok a /\ is_for_net net a = true /\ script = pay_to_addr a.
Proof.
  unfold decode_btc_address. destruct (decode_address sha256d hrps net s) as [a| |] eqn:D; cbn; try discriminate.
  destruct (is_for_net net a) eqn:F; [|discriminate]. intros [= <-].
  split; [|exists a; auto].
  unfold decode_address in D.
  destruct (match last_index 49 s 0 None with Some one => _ | None => None end) as [one|].
  - destruct (decode_segwit s) as [[ver prog]|]; [|discriminate].
    destruct (negb _); [discriminate|].
    destruct (length prog =? 20)%nat eqn:L20.
    + injection D as <-. apply Nat.eqb_eq in L20. right. right. left. exists prog. auto.
    + destruct (length prog =? 32)%nat eqn:L32; [|discriminate]. apply Nat.eqb_eq in L32.
      destruct (ver =? 1); injection D as <-.
      * do 4 right. exists prog. auto.
      * do 3 right. left. exists prog. auto.
  - destruct (_ || _); [discriminate|].
    destruct (check_decode sha256d s) as [[payload id]|]; [|discriminate].
    destruct (length payload =? 20)%nat eqn:L; [|discriminate]. apply Nat.eqb_eq in L.
    destruct (id =? n_pkh net), (id =? n_sh net); cbn in D; try discriminate; injection D as <-.
    + left. exists payload. auto.
    + right. left. exists payload. auto.
Qed.

(* a pay-to-pubkey script is never produced *)
Theorem decode_never_p2pk hrps net s script key :
  decode_btc_address sha256d hrps net s = Ok script ->
  (length key = 33%nat \/ length key = 65%nat) -> script <> push key ++ [172].
Proof.
  intros H Hk Heq. apply decode_gives_standard_script in H. destruct H as [H _].
  unfold push in Heq. subst script.
  destruct H as [(h & L & E)|[(h & L & E)|[(p & L & E)|[(p & L & E)|(p & L & E)]]]];
    cbn in E; injection E as E1 E2; destruct Hk as [Hk|Hk]; rewrite Hk in E1; discriminate.
Qed.

(* the segwit human-readable part / the base58 version byte of an accepted address are the configured
   network's: addresses of a network with another prefix are rejected *)
Theorem decode_respects_network hrps net s script :
  decode_btc_address sha256d hrps net s = Ok script ->
  exists a, decode_address sha256d hrps net s = Ok a /\
    match a with
    | APubKeyHash _ id => id = n_pkh net
    | AScriptHash _ id => id = n_sh net
    | AWitnessPubKeyHash _ hrp | AWitnessScriptHash _ hrp | ATaproot _ hrp => hrp = n_hrp net
    end.
Proof.
  intros H. apply decode_gives_standard_script in H. destruct H as [_ (a & D & F & _)].
  exists a. split; [exact D|].
  destruct a; cbn in F; try (apply N.eqb_eq in F; exact F); apply beq_bytes_eq in F; exact F.
Qed.
End AddrProofs.
