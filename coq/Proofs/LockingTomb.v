(* C14: a tombstoned validator has no voting power, in every reachable state (together with
   tombstone_forever and the C13 characterisation of the recorded set: it never regains power or
   membership, whatever is locked to it later). *)
From stdpp Require Import gmap.
From Goat Require Import Base.Prelude Model.Locking Proofs.LockingDerived Proofs.LockingDerivedLink Proofs.LockingActive.
Local Open Scope Z_scope.

Definition zinv (s : lstate) : Prop :=
  forall a v, l_val s !! a = Some v -> v_status v = Tombstoned -> v_power v = 0%N.

Lemma zinv_upd s a v' s' :
  zinv s -> l_val s' = <[a := v']> (l_val s) -> (v_status v' = Tombstoned -> v_power v' = 0%N) -> zinv s'.
Proof.
  intros Z Ev Hc b w Eb St. rewrite Ev in Eb. destruct (decide (b = a)) as [->|Hne].
  - rewrite lookup_insert in Eb. injection Eb as Heq. subst w. exact (Hc St).
  - rewrite lookup_insert_ne in Eb by congruence. exact (Z b w Eb St).
Qed.
Lemma zinv_same s s' : l_val s' = l_val s -> zinv s -> zinv s'.
Proof. intros Ev Z b w. rewrite Ev. apply Z. Qed.
(* same status and power as the record it replaces *)
Lemma zinv_keep s a v v' s' :
  zinv s -> l_val s !! a = Some v -> l_val s' = <[a := v']> (l_val s) ->
  v_status v' = v_status v -> v_power v' = v_power v -> zinv s'.
Proof. intros Z E Ev St P. eapply zinv_upd; [exact Z|exact Ev|]. rewrite St, P. apply (Z a v E). Qed.

Ltac rap := unfold rank_add_pos; repeat match goal with |- context [if (0 <? ?p)%N then _ else _] => destruct (0 <? p)%N end; reflexivity.

Lemma z_fold {B} (f : lstate -> B -> res lstate) (l : list B) :
  (forall s b s', zinv s -> f s b = Ok s' -> zinv s') -> forall s s', zinv s -> fold_res f l s = Ok s' -> zinv s'.
Proof.
  intros Hf. induction l as [|b r IH]; intros s s' I; cbn [fold_res]; [intros [= <-]; exact I|].
  destruct (f s b) as [s1| |] eqn:E; cbn [rbind]; try discriminate. intros H. eapply IH; [|exact H]. eapply Hf; eauto.
Qed.
Lemma z_create s c d k s' : zinv s -> create_validator s c d k = Ok s' -> zinv s'.
Proof.
  intros I. unfold create_validator. destruct (negb _); [discriminate|].
  destruct (l_val s !! d) as [v|] eqn:E; [intros [= <-]; exact I|]. intros [= <-].
  destruct (bool_decide (d ∈ l_accounts s)); (eapply (zinv_upd s d); [exact I|reflexivity|reflexivity]).
Qed.
Lemma z_create_all reqs : forall s s', zinv s -> create_all s reqs = Ok s' -> zinv s'.
Proof.
  induction reqs as [|[[c d] k] r IH]; intros s s' I; cbn [create_all]; [intros [= <-]; exact I|].
  destruct (create_validator s c d k) as [s1| |] eqn:E; cbn [rbind]; try discriminate.
  intros H. eapply IH; [|exact H]. eapply z_create; eauto.
Qed.
Lemma z_lock_one s now a coins s' : zinv s -> lock_one s now a coins = Ok s' -> zinv s'.
Proof.
  intros I. unfold lock_one. destruct (l_val s !! a) as [v|] eqn:E; [|discriminate].
  destruct (v_status v) eqn:St.
  - destruct (lock_power _ _ _); cbn [rbind]; try discriminate. intros [= <-].
    eapply (zinv_upd s a); [exact I|rap|cbn; rewrite St; discriminate].
  - destruct (lock_power _ _ _); cbn [rbind]; try discriminate. intros [= <-].
    eapply (zinv_upd s a); [exact I|rap|cbn; rewrite St; discriminate].
  - intros [= <-]. eapply (zinv_keep s a v); [exact I|exact E|reflexivity|reflexivity|reflexivity].
  - destruct (_ && _).
    + destruct (lock_power _ _ _); cbn [rbind]; try discriminate. intros [= <-].
      eapply (zinv_upd s a); [exact I|rap|cbn; discriminate].
    + intros [= <-]. eapply (zinv_keep s a v); [exact I|exact E|reflexivity|reflexivity|reflexivity].
  - intros [= <-]. eapply (zinv_keep s a v); [exact I|exact E|reflexivity|reflexivity|reflexivity].
Qed.
Lemma z_lock_each now l : forall s s', zinv s -> lock_each s now l = Ok s' -> zinv s'.
Proof.
  induction l as [|[a cs] r IH]; intros s s' I; cbn [lock_each]; [intros [= <-]; exact I|].
  destruct (lock_one s now a _) as [s1| |] eqn:E; cbn [rbind]; try discriminate.
  intros H. eapply IH; [|exact H]. eapply z_lock_one; eauto.
Qed.
Lemma z_unlock_one s now id a rc t req s' : zinv s -> unlock_one s now id a rc t req = Ok s' -> zinv s'.
Proof.
  intros I. unfold unlock_one. destruct (l_val s !! a) as [v|] eqn:E; [|discriminate].
  cbn [l_tok rank_remove set_rank]. destruct (l_tok s !! t) as [tk|]; [|discriminate].
  destruct (_ && negb (fits64 _)); [discriminate|].
  destruct (_ || _) eqn:Ex.
  - intros [= <-]. eapply (zinv_upd s a); [exact I|reflexivity|reflexivity].
  - (* not exiting: the validator is not tombstoned *)
    assert (Nt : v_status v <> Tombstoned).
    { intros Ht. rewrite Ht in Ex. cbn in Ex. discriminate. }
    destruct (in_ranking_status _); intros [= <-]; (eapply (zinv_upd s a); [exact I|rap|cbn; intros Ht; congruence]).
Qed.
Lemma z_unlock_all now reqs : forall s s', zinv s -> unlock_all s now reqs = Ok s' -> zinv s'.
Proof.
  induction reqs as [|[[[[id a] rc] t] amt] r IH]; intros s s' I; cbn [unlock_all]; [intros [= <-]; exact I|].
  destruct (unlock_one s now id a rc t amt) as [s1| |] eqn:E; cbn [rbind]; try discriminate.
  intros H. eapply IH; [|exact H]. eapply z_unlock_one; eauto.
Qed.
(* the weight walk only touches ranked validators *)
Lemma z_weight_walk prev cur es : forall s s',
  zinv s -> (forall a amt, In (a, amt) es -> exists v, l_val s !! a = Some v /\ ranked v = true) ->
  weight_walk s prev cur es = Ok s' -> zinv s'.
Proof.
  induction es as [|[a amt] r IH]; intros s s' I Hes; cbn [weight_walk]; [intros [= <-]; exact I|].
  destruct (Hes a amt (or_introl eq_refl)) as (v & E & K). rewrite E.
  destruct (negb (fits64 _)); [destruct (prev <? cur)%N; discriminate|].
  intros H. eapply IH; [| |exact H].
  - eapply (zinv_upd s a); [exact I|rap|]. cbn. intros Ht. unfold ranked in K. rewrite Ht in K. discriminate.
  - intros b x Hin. destruct (Hes b x (or_intror Hin)) as (w & Ew & Kw).
    match goal with |- exists _, l_val ?st !! b = _ /\ _ => assert (Ev : l_val st = <[a := with_power v (if (prev <? cur)%N then add_power (v_power v) (if (prev <? cur)%N then power_of (cur - prev) amt else power_of (prev - cur) amt) else sub_power (v_power v) (if (prev <? cur)%N then power_of (cur - prev) amt else power_of (prev - cur) amt))]> (l_val s)) by rap end.
    rewrite Ev. destruct (decide (b = a)) as [->|Hne].
    + rewrite lookup_insert. eexists. split; [reflexivity|exact K].
    + rewrite lookup_insert_ne by congruence. eauto.
Qed.
Lemma z_update_weight s t w s' : dinv s -> zinv s -> update_weight s t w = Ok s' -> zinv s'.
Proof.
  intros D I. unfold update_weight. destruct (_ =? _)%N; cbn [rbind]; [intros [= <-]; eapply zinv_same; [|exact I]; reflexivity|].
  destruct (weight_walk _ _ _ _) as [s1| |] eqn:W; cbn [rbind]; try discriminate.
  intros [= <-]. eapply zinv_same; [|eapply z_weight_walk; [exact I| |exact W]]; [reflexivity|].
  intros a amt. apply (index_entries_ranked s t a amt (di_index s D)).
Qed.
Lemma z_update_threshold s t th s' : zinv s -> update_threshold s t th = Ok s' -> zinv s'.
Proof.
  intros I. unfold update_threshold. destruct (l_tok s !! t); [|discriminate].
  destruct (_ =? _); intros [= <-]; [exact I|]. eapply zinv_same; [|exact I]; reflexivity.
Qed.
Lemma z_update_tokens s ws ths s' : dinv s -> zinv s -> update_tokens s ws ths = Ok s' -> zinv s'.
Proof.
  intros D I. unfold update_tokens. destruct (fold_res _ ws s) as [s1| |] eqn:E; cbn [rbind]; try discriminate.
  intros H. eapply (z_fold (fun s '(t, th) => update_threshold s t th)); [| |exact H].
  - intros x [t th] y. apply z_update_threshold.
  - clear H. revert s D I E. induction ws as [|[t w] r IH]; intros s D I; cbn [fold_res]; [intros [= <-]; exact I|].
    destruct (update_weight s t w) as [s2| |] eqn:E2; cbn [rbind]; try discriminate.
    apply IH; [eapply update_weight_inv; eauto|eapply z_update_weight; eauto].
Qed.
Lemma z_claim s r s' : zinv s -> claim_one s r = Ok s' -> zinv s'.
Proof.
  intros I. destruct r as [[id a] rc]. unfold claim_one. destruct (l_val s !! a) as [v|] eqn:E; [|discriminate].
  intros [= <-]. eapply (zinv_keep s a v); [exact I|exact E|reflexivity|reflexivity|reflexivity].
Qed.
Lemma z_pool s h gas grants s' : zinv s -> update_reward_pool s h gas grants = Ok s' -> zinv s'.
Proof.
  intros I. unfold update_reward_pool. destruct gas as [|g [|]]; try discriminate.
  intros [= <-]. eapply zinv_same; [|exact I]; reflexivity.
Qed.
Lemma z_requests s now h q s' : dinv s -> zinv s -> process_requests s now h q = Ok s' -> zinv s'.
Proof.
  intros D I. unfold process_requests.
  destruct (update_reward_pool _ _ _ _) as [s1| |] eqn:E1; cbn [rbind]; try discriminate.
  destruct (update_tokens _ _ _) as [s2| |] eqn:E2; cbn [rbind]; try discriminate.
  destruct (create_all _ _) as [s3| |] eqn:E3; cbn [rbind]; try discriminate.
  destruct (lock_all _ _ _) as [s4| |] eqn:E4; cbn [rbind]; try discriminate.
  destruct (unlock_all _ _ _) as [s5| |] eqn:E5; cbn [rbind]; try discriminate.
  intros H. eapply (z_fold claim_one); [intros x r y; apply z_claim| |exact H].
  eapply z_unlock_all; [|exact E5]. unfold lock_all in E4. eapply z_lock_each; [|exact E4].
  eapply z_create_all; [|exact E3]. eapply z_update_tokens; [| |exact E2]; [eapply update_reward_pool_inv; eauto|eapply z_pool; eauto].
Qed.
Lemma z_distribute gas goat total votes : forall s remg remr s' g r,
  zinv s -> distribute s gas goat total remg remr votes = Ok (s', g, r) -> zinv s'.
Proof.
  induction votes as [|[a p] vs IH]; intros s remg remr s' g r I; cbn [distribute]; [intros [= <- _ _]; exact I|].
  destruct (l_val s !! a) as [v|] eqn:E; [|discriminate]. intros H. eapply IH; [|exact H].
  eapply (zinv_keep s a v); [exact I|exact E|reflexivity|reflexivity|reflexivity].
Qed.
Lemma z_distribute_reward s h votes s' : zinv s -> distribute_reward s h votes = Ok s' -> zinv s'.
Proof.
  intros I. unfold distribute_reward. destruct (h <? 2); [intros [= <-]; exact I|].
  destruct (_ =? 0); [discriminate|].
  destruct (distribute _ _ _ _ _ _ _) as [[[s1 g] r]| |] eqn:E; cbn [rbind]; try discriminate.
  intros [= <-]. eapply zinv_same; [|eapply z_distribute; eauto]; reflexivity.
Qed.
Lemma z_dequeue_mature s now : zinv s -> zinv (dequeue_mature s now).
Proof. intros I. unfold dequeue_mature. destruct (filter _ _); [exact I|]. eapply zinv_same; [|exact I]; reflexivity. Qed.
Lemma z_punish s a v frac (mk : validator -> gmap N Z -> validator) s' :
  zinv s -> l_val s !! a = Some v -> (forall h, v_power (mk v h) = 0%N) ->
  (let '(s2, h') := slash_holdings (rank_remove s (v_power v) a) a (v_hold v) frac in
   set_val s2 (<[a := mk v h']> (l_val s2))) = s' -> zinv s'.
Proof.
  intros I E K. unfold slash_holdings.
  destruct (slash_fold a frac (map_to_list (v_hold v)) (rank_remove s (v_power v) a, ∅)) as (E1 & _).
  cbn zeta in *. destruct (fold_left _ _ _) as [s2 h'] eqn:F. cbn [fst snd] in *. intros <-.
  eapply (zinv_upd s a); [exact I|cbn; rewrite E1; reflexivity|intros _; apply K].
Qed.
Lemma z_handle_vote s now a absent s' : zinv s -> handle_vote s now a absent = Ok s' -> zinv s'.
Proof.
  intros I. unfold handle_vote. destruct (l_val s !! a) as [v|] eqn:E; [|discriminate].
  destruct (negb (bool_decide (v_status v = Active))) eqn:Bd; [intros [= <-]; exact I|].
  set (missed := if absent then v_missed v + 1 else v_missed v).
  destruct (v_offset v + 1 >=? lp_window (l_params s)); cbn zeta.
  - destruct (missed >=? lp_max_missed (l_params s)).
    + intros H. eapply (z_punish s a v (lp_slash_down (l_params s)) (fun v h => with_jailed (with_power (with_status (with_hold (with_signing v 0 0) h) Downgrade) 0%N) (now + lp_jail_dur (l_params s))) s' I E); [reflexivity|].
      destruct (slash_holdings _ _ _ _) as [s2 h']. injection H as <-. reflexivity.
    + intros [= <-]. eapply (zinv_keep s a v (with_signing v 0 0)); [exact I|exact E|reflexivity|reflexivity|reflexivity].
  - destruct (missed >=? lp_max_missed (l_params s)).
    + intros H. eapply (z_punish s a v (lp_slash_down (l_params s)) (fun v h => with_jailed (with_power (with_status (with_hold (with_signing v (v_offset v + 1) missed) h) Downgrade) 0%N) (now + lp_jail_dur (l_params s))) s' I E); [reflexivity|].
      destruct (slash_holdings _ _ _ _) as [s2 h']. injection H as <-. reflexivity.
    + intros [= <-]. eapply (zinv_keep s a v (with_signing v (v_offset v + 1) missed)); [exact I|exact E|reflexivity|reflexivity|reflexivity].
Qed.
Lemma z_handle_evidence s now h lim e s' : zinv s -> handle_evidence s now h lim e = Ok s' -> zinv s'.
Proof.
  intros I. destruct e as [[[a et] eh] counted]. unfold handle_evidence.
  destruct (negb counted); [intros [= <-]; exact I|].
  destruct (evidence_expired _ _ _ _ _); [intros [= <-]; exact I|].
  destruct (l_val s !! a) as [v|] eqn:E; [|discriminate].
  destruct (bool_decide _); [intros [= <-]; exact I|].
  intros H. eapply (z_punish s a v (lp_slash_double (l_params s)) (fun v h => with_power (with_status (with_hold v h) Tombstoned) 0%N) s' I E); [reflexivity|].
  destruct (slash_holdings _ _ _ _) as [s2 h']. injection H as <-. reflexivity.
Qed.
Lemma z_begin s now h lim votes evs s' : zinv s -> begin_block s now h lim votes evs = Ok s' -> zinv s'.
Proof.
  intros I. unfold begin_block. destruct (distribute_reward _ _ _) as [s1| |] eqn:E1; cbn [rbind]; try discriminate.
  destruct (fold_res _ votes _) as [s3| |] eqn:E3; cbn [rbind]; try discriminate.
  intros H. eapply (z_fold (fun s e => handle_evidence s now h lim e)); [intros x e y; apply z_handle_evidence| |exact H].
  eapply (z_fold (fun s '(a, _, f) => handle_vote s now a f)); [| |exact E3].
  - intros x [[a p] f] y. apply z_handle_vote.
  - apply z_dequeue_mature. eapply z_distribute_reward; eauto.
Qed.
Lemma z_end_walk r : forall s last ups count s' last' ups', zinv s -> end_walk s last ups count r = Ok (s', last', ups') -> zinv s'.
Proof.
  induction r as [|[p a] r IH]; intros s last ups count s' last' ups' I; cbn [end_walk]; [intros [= <- _ _]; exact I|].
  destruct (count >=? _); [intros [= <- _ _]; exact I|].
  destruct (l_val s !! a) as [v|] eqn:E; [|discriminate].
  destruct (v_status v) eqn:St; try discriminate.
  - destruct (last !! a); [discriminate|]. intros H. eapply IH; [|exact H].
    eapply (zinv_upd s a); [exact I|reflexivity|cbn; discriminate].
  - destruct (_ =? _)%N; intros H; (eapply IH; [|exact H]); [exact I|]. eapply zinv_same; [|exact I]; reflexivity.
Qed.
Lemma z_end_remove l : forall s ups s' ups', zinv s -> end_remove s ups l = Ok (s', ups') -> zinv s'.
Proof.
  induction l as [|a l IH]; intros s ups s' ups' I; cbn [end_remove]; [intros [= <- _]; exact I|].
  destruct (l_val s !! a) as [v|] eqn:E; [|discriminate].
  intros H. eapply IH; [|exact H].
  destruct (bool_decide (v_status v = Active)) eqn:Bd.
  - eapply zinv_same with (s := set_val s (<[a := with_status v Pending]> (l_val s))); [reflexivity|].
    eapply (zinv_upd s a); [exact I|reflexivity|cbn; discriminate].
  - eapply zinv_same; [|exact I]; reflexivity.
Qed.

Theorem lk_step_zinv s o : dinv s -> zinv s -> zinv (fst (lk_step s o)).
Proof.
  intros D I. destruct o; cbn [lk_step]; unfold deliver.
  - destruct (begin_block _ _ _ _ _ _) as [x| |] eqn:E; cbn; try exact I. eapply z_begin; eauto.
  - destruct (process_requests _ _ _ _) as [x| |] eqn:E; cbn; try exact I. eapply z_requests; eauto.
  - destruct (end_block s) as [[x u]| |] eqn:E; cbn; try exact I.
    unfold end_block in E. destruct (end_walk _ _ _ _ _) as [[[s1 rest] u1]| |] eqn:W; cbn [rbind] in E; try discriminate.
    eapply z_end_remove; [|exact E]. eapply z_end_walk; eauto.
  - unfold dequeue_txs. destruct (l_q_rewards s), (l_q_unlocks s); cbn; try exact I; (eapply zinv_same; [|exact I]; reflexivity).
  - cbn. eapply zinv_same; [|exact I]; reflexivity.
Qed.

Theorem reachable_zinv p rem goat gas acc ops :
  0 <= lp_slash_down p <= one18 -> 0 <= lp_slash_double p <= one18 -> Forall wf_op ops ->
  zinv (lk_run (empty_lstate p rem goat gas acc) ops).
Proof.
  intros H1 H2 W. unfold lk_run.
  assert (G : forall s, dinv s -> slash_ok s -> zinv s -> zinv (fold_left (fun s o => fst (lk_step s o)) ops s)).
  { induction W as [|o r Ho Hr IH]; intros s D S Z; cbn [fold_left]; [exact Z|].
    destruct (lk_step_inv s o D S Ho) as [D' S']. apply IH; [assumption|assumption|]. apply lk_step_zinv; assumption. }
  apply G; [apply dinv_empty|split; assumption|]. intros a v E. cbn in E. rewrite lookup_empty in E. discriminate.
Qed.
