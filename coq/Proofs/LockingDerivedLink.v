(* Link between the pointwise specifications of Proofs/LockingDerived.v and the rebuild functions of
   Model/LockingGenesis.v; consequences for C13 (ranking well-formed) and C18 (reachable states). *)
From stdpp Require Import gmap sorting.
From Goat Require Import Base.Prelude Model.Locking Model.LockingGenesis Proofs.LockingDerived.
From Coq Require Import ZifyBool ZifyN ZifyNat.
Local Open Scope Z_scope.

Global Instance swap_key_inj : Inj (=) (=) swap_key.
Proof. intros [a b] [c d]. unfold swap_key. cbn. intros [= -> ->]. reflexivity. Qed.

Lemma rebuild_index_lookup vals t a :
  rebuild_index vals !! (t, a) = (vals !! a) ≫= (fun v => if ranked v then v_hold v !! t else None).
Proof.
  unfold rebuild_index. change (t, a) with (swap_key (a, t)). rewrite lookup_kmap by apply swap_key_inj.
  rewrite lookup_gmap_uncurry, lookup_omap. destruct (vals !! a) as [v|]; cbn; [|reflexivity].
  unfold hold_if_ranked, ranked. destruct (in_ranking_status (v_status v)); reflexivity.
Qed.

Lemma rebuild_rank_elem vals p a :
  (p, a) ∈ rebuild_rank vals <-> exists v, vals !! a = Some v /\ ranked v = true /\ v_power v = p /\ (0 < p)%N.
Proof.
  unfold rebuild_rank. rewrite elem_of_list_to_set, elem_of_list_omap. split.
  - intros ([b v] & Hin & Hf). apply elem_of_map_to_list in Hin. unfold rank_entry in Hf. cbn in Hf.
    destruct (in_ranking_status (v_status v)) eqn:K; cbn in Hf; [|discriminate].
    destruct (0 <? v_power v)%N eqn:P; [|discriminate]. injection Hf as <- <-.
    exists v. repeat split; auto. lia.
  - intros (v & E & K & <- & Pos). exists (a, v). split; [apply elem_of_map_to_list; exact E|].
    unfold rank_entry. cbn. unfold ranked in K. rewrite K. cbn.
    destruct (0 <? v_power v)%N eqn:P; [reflexivity|lia].
Qed.

Lemma rebuild_thr_lookup toks t :
  rebuild_thr toks !! t = (toks !! t) ≫= (fun tk => if t_thr tk =? 0 then None else Some (t_thr tk)).
Proof. unfold rebuild_thr. apply lookup_omap. Qed.

Theorem dinv_derived_ok s : dinv s -> derived_ok s.
Proof.
  intros [A B C D]. split; [|split].
  - apply set_eq. intros [p a]. rewrite rebuild_rank_elem. apply A.
  - apply map_eq. intros [t a]. rewrite rebuild_index_lookup. apply B.
  - apply map_eq. intros t. rewrite rebuild_thr_lookup. apply C.
Qed.

(* every state reachable from the empty state by well-formed operations has consistent derived collections *)
Theorem reachable_derived_ok p rem goat gas acc ops :
  0 <= lp_slash_down p <= one18 -> 0 <= lp_slash_double p <= one18 -> Forall wf_op ops ->
  derived_ok (lk_run (empty_lstate p rem goat gas acc) ops).
Proof. intros. apply dinv_derived_ok. apply reachable_dinv; assumption. Qed.

(* ---------------------------------------------------------------- C13: the ranking is well-formed *)
From Goat Require Import Proofs.LockingEndBlock.

Lemma in_rank_desc s p a : In (p, a) (rank_desc s) <-> (p, a) ∈ l_rank s.
Proof.
  unfold rank_desc. rewrite <- in_rev, <- elem_of_list_In, merge_sort_Permutation, elem_of_elements. reflexivity.
Qed.

Lemma rank_desc_nodup s : List.NoDup (rank_desc s).
Proof.
  unfold rank_desc. apply NoDup_ListNoDup. apply NoDup_ListNoDup. apply List.NoDup_rev.
  apply NoDup_ListNoDup. rewrite merge_sort_Permutation. apply NoDup_elements.
Qed.

Theorem rank_spec_rank_wf s : rank_spec s -> rank_wf s.
Proof.
  intros A. split.
  - intros p a Hin. apply in_rank_desc in Hin. apply A in Hin. destruct Hin as (v & E & K & P & Pos).
    exists v. repeat split; auto.
  - assert (ND := rank_desc_nodup s).
    assert (Hfun : forall x y, In x (rank_desc s) -> In y (rank_desc s) -> snd x = snd y -> x = y).
    { intros [p a] [q b] Hx Hy Heq. cbn in Heq. subst b. apply in_rank_desc in Hx, Hy.
      apply A in Hx, Hy. destruct Hx as (v & E & _ & <- & _), Hy as (w & E' & _ & <- & _). congruence. }
    revert ND Hfun. generalize (rank_desc s). intros l ND Hfun.
    induction l as [|x l IH]; cbn; [constructor|]. inversion ND; subst. constructor.
    + intros Hin. apply in_map_iff in Hin. destruct Hin as (y & Hy & Hin).
      assert (y = x) by (apply Hfun; [right; exact Hin|left; reflexivity|exact Hy]). subst y. tauto.
    + apply IH; [assumption|]. intros a b Ha Hb. apply Hfun; right; assumption.
Qed.

Theorem reachable_rank_wf p rem goat gas acc ops :
  0 <= lp_slash_down p <= one18 -> 0 <= lp_slash_double p <= one18 -> Forall wf_op ops ->
  rank_wf (lk_run (empty_lstate p rem goat gas acc) ops).
Proof. intros. apply rank_spec_rank_wf. apply di_rank. apply reachable_dinv; assumption. Qed.

(* ---------------------------------------------------------------- the recorded set after EndBlocker *)
Definition set_spec (s : lstate) : Prop :=
  forall a, l_set s !! a = (l_val s !! a) ≫= (fun v => match v_status v with Active => Some (v_power v) | _ => None end).
Definition active_in_set (s : lstate) : Prop :=
  forall a v, l_val s !! a = Some v -> v_status v = Active -> is_Some (l_set s !! a).

Lemma set_spec_set_ok s : set_spec s -> set_ok s.
Proof. intros H. unfold set_ok, rebuild_set. apply map_eq. intros a. rewrite lookup_omap. apply H. Qed.

(* state of the walk relative to the state s0 it started from *)
Record walk_inv (s0 s : lstate) (last : gmap N N) (visited : gset N) : Prop := mkWI {
  wi_vis : forall a, a ∈ visited -> exists v, l_val s !! a = Some v /\ v_status v = Active /\ l_set s !! a = Some (v_power v) /\ last !! a = None;
  wi_unv : forall a, a ∉ visited -> l_val s !! a = l_val s0 !! a /\ l_set s !! a = l_set s0 !! a /\ last !! a = l_set s0 !! a;
}.

Lemma end_walk_set r : forall s0 s last ups count visited s1 rest ups1,
  walk_inv s0 s last visited ->
  List.NoDup (map snd r) -> (forall p a, In (p, a) r -> a ∉ visited) ->
  (forall p a, In (p, a) r -> exists v, l_val s0 !! a = Some v /\ v_power v = p /\ (0 < p)%N) ->
  end_walk s last ups count r = Ok (s1, rest, ups1) ->
  exists visited', walk_inv s0 s1 rest visited'.
Proof.
  induction r as [|[p a] r IH]; intros s0 s last ups count visited s1 rest ups1 WI ND Hnv Hok; cbn [end_walk].
  - intros [= <- <- _]. eauto.
  - destruct (count >=? _); [intros [= <- <- _]; eauto|].
    inversion ND as [|? ? Hna ND']; subst.
    destruct (wi_unv _ _ _ _ WI a (Hnv p a (or_introl eq_refl))) as (Ev & Es & El).
    destruct (Hok p a (or_introl eq_refl)) as (v & E0 & Pv & Pos). rewrite Ev, E0.
    assert (Hnv' : forall q b, In (q, b) r -> b ∉ {[a]} ∪ visited).
    { intros q b Hin Hb. apply elem_of_union in Hb. destruct Hb as [Hb|Hb].
      - apply elem_of_singleton in Hb. subst b. apply Hna. apply in_map_iff. exists (q, a). auto.
      - eapply Hnv; [right; exact Hin|exact Hb]. }
    assert (Hok' : forall q b, In (q, b) r -> exists w, l_val s0 !! b = Some w /\ v_power w = q /\ (0 < q)%N)
      by (intros q b Hin; apply (Hok q b); right; exact Hin).
    destruct (v_status v) eqn:St; try discriminate.
    + (* Pending *)
      destruct (last !! a) eqn:La; [discriminate|].
      intros H. eapply (IH s0 _ _ _ _ ({[a]} ∪ visited)); [|exact ND'|exact Hnv'|exact Hok'|exact H].
      constructor.
      * intros b Hb. apply elem_of_union in Hb. destruct (decide (b = a)) as [->|Hne].
        -- eexists. cbn. rewrite !lookup_insert. split; [reflexivity|]. cbn. auto.
        -- destruct Hb as [Hb|Hb]; [apply elem_of_singleton in Hb; congruence|].
           destruct (wi_vis _ _ _ _ WI b Hb) as (w & Ew & Sw & Sset & Lw). exists w. cbn.
           rewrite !lookup_insert_ne by congruence. auto.
      * intros b Hb. assert (b <> a) by (intros ->; apply Hb; apply elem_of_union; left; apply elem_of_singleton; reflexivity).
        assert (b ∉ visited) by (intros Hv; apply Hb; apply elem_of_union; right; exact Hv).
        cbn. rewrite !lookup_insert_ne by congruence. apply (wi_unv _ _ _ _ WI b). assumption.
    + (* Active *)
      set (old := default 0%N (last !! a)).
      destruct (old =? v_power v)%N eqn:Eq; intros H;
        (eapply (IH s0 _ _ _ _ ({[a]} ∪ visited)); [|exact ND'|exact Hnv'|exact Hok'|exact H]); constructor.
      * intros b Hb. apply elem_of_union in Hb. destruct (decide (b = a)) as [->|Hne].
        -- exists v. rewrite Ev, E0, lookup_delete. repeat split; auto.
           rewrite Es, <- El. apply N.eqb_eq in Eq. subst old. destruct (last !! a) as [o|]; cbn in Eq; [congruence|lia].
        -- destruct Hb as [Hb|Hb]; [apply elem_of_singleton in Hb; congruence|].
           destruct (wi_vis _ _ _ _ WI b Hb) as (w & Ew & Sw & Sset & Lw). exists w.
           rewrite lookup_delete_ne by congruence. auto.
      * intros b Hb. assert (b <> a) by (intros ->; apply Hb; apply elem_of_union; left; apply elem_of_singleton; reflexivity).
        assert (b ∉ visited) by (intros Hv; apply Hb; apply elem_of_union; right; exact Hv).
        rewrite lookup_delete_ne by congruence. apply (wi_unv _ _ _ _ WI b). assumption.
      * intros b Hb. apply elem_of_union in Hb. destruct (decide (b = a)) as [->|Hne].
        -- exists v. cbn. rewrite Ev, E0, lookup_insert, lookup_delete. repeat split; auto.
        -- destruct Hb as [Hb|Hb]; [apply elem_of_singleton in Hb; congruence|].
           destruct (wi_vis _ _ _ _ WI b Hb) as (w & Ew & Sw & Sset & Lw). exists w. cbn.
           rewrite lookup_insert_ne, lookup_delete_ne by congruence. auto.
      * intros b Hb. assert (b <> a) by (intros ->; apply Hb; apply elem_of_union; left; apply elem_of_singleton; reflexivity).
        assert (b ∉ visited) by (intros Hv; apply Hb; apply elem_of_union; right; exact Hv).
        cbn. rewrite lookup_insert_ne, lookup_delete_ne by congruence. apply (wi_unv _ _ _ _ WI b). assumption.
Qed.

(* the removal loop: members of l are demoted and deleted from the set, everything else stays *)
Lemma end_remove_set l : forall s ups s' ups',
  end_remove s ups l = Ok (s', ups') ->
  (forall a, a ∈ l -> l_set s' !! a = None /\ exists v v', l_val s !! a = Some v /\ l_val s' !! a = Some v' /\ v_status v' <> Active /\ v_power v' = v_power v) /\
  (forall a, a ∉ l -> l_set s' !! a = l_set s !! a /\ l_val s' !! a = l_val s !! a).
Proof.
  induction l as [|a l IH]; intros s ups s' ups'; cbn [end_remove].
  - intros [= <- _]. split; [intros a H; inversion H|auto].
  - destruct (l_val s !! a) as [v|] eqn:E; [|discriminate]. intros H.
    set (s1 := if bool_decide (v_status v = Active) then set_val s (<[a := with_status v Pending]> (l_val s)) else s) in H.
    set (s2 := set_set s1 (delete a (l_set s1))) in H.
    destruct (IH _ _ _ _ H) as [In Out].
    assert (V2 : forall b, b <> a -> l_val s2 !! b = l_val s !! b).
    { intros b Hb. subst s2 s1. destruct (bool_decide _); cbn; [rewrite lookup_insert_ne by congruence|]; reflexivity. }
    assert (S2 : forall b, b <> a -> l_set s2 !! b = l_set s !! b).
    { intros b Hb. subst s2 s1. destruct (bool_decide _); cbn; rewrite lookup_delete_ne by congruence; reflexivity. }
    assert (Va : exists w, l_val s2 !! a = Some w /\ v_status w <> Active /\ v_power w = v_power v).
    { subst s2 s1. destruct (bool_decide (v_status v = Active)) eqn:Bd; cbn.
      - rewrite lookup_insert. eexists. split; [reflexivity|]. cbn. split; [discriminate|reflexivity].
      - apply bool_decide_eq_false_1 in Bd. exists v. auto. }
    assert (Sa : l_set s2 !! a = None) by (subst s2; cbn; apply lookup_delete).
    split.
    + intros b Hb. destruct (decide (b ∈ l)) as [Hl|Hl].
      * destruct (In b Hl) as (N & w & w' & Ew & Ew' & Sw & Pw). split; [exact N|].
        destruct (decide (b = a)) as [->|Hne].
        -- destruct Va as (x & Ex & Sx & Px). exists v, w'. rewrite Ex in Ew. injection Ew as <-. repeat split; auto. congruence.
        -- exists w, w'. rewrite V2 in Ew by exact Hne. auto.
      * inversion Hb; subst; [|tauto]. destruct (Out a Hl) as [O1 O2]. split; [rewrite O1; exact Sa|].
        destruct Va as (x & Ex & Sx & Px). exists v, x. rewrite O2. auto.
    + intros b Hb. assert (b <> a) by (intros ->; apply Hb; left). assert (b ∉ l) by (intros Hl; apply Hb; right; exact Hl).
      destruct (Out b H1) as [O1 O2]. rewrite O1, O2, S2, V2 by assumption. auto.
Qed.

Theorem end_block_set_spec s s' ups :
  rank_spec s -> active_in_set s -> end_block s = Ok (s', ups) -> set_spec s'.
Proof.
  intros A Act. unfold end_block.
  destruct (end_walk s (l_set s) [] 0 (rank_desc s)) as [[[s1 rest] u1]| |] eqn:W; cbn [rbind]; try discriminate.
  intros R.
  destruct (rank_spec_rank_wf s A) as [Hok ND].
  destruct (end_walk_set (rank_desc s) s s (l_set s) [] 0 ∅ s1 rest u1) as (vis & WI); auto.
  { constructor; [intros a H; apply elem_of_empty in H; destruct H|auto]. }
  { intros p a _ H. apply elem_of_empty in H. exact H. }
  { intros p a Hin. destruct (Hok p a Hin) as (v & E & P & Pos & _). eauto. }
  destruct (end_remove_set _ _ _ _ _ R) as [In Out].
  intros a. destruct (decide (a ∈ map fst (map_to_list rest))) as [Hin|Hout].
  - destruct (In a Hin) as (N & v & v' & E & E' & St & _). rewrite N, E'. cbn. destruct (v_status v'); try reflexivity. congruence.
  - destruct (Out a Hout) as [O1 O2]. rewrite O1, O2.
    assert (Hr : rest !! a = None).
    { destruct (rest !! a) as [q|] eqn:Er; [|reflexivity]. exfalso. apply Hout.
      apply elem_of_list_In, in_map_iff. exists (a, q). split; [reflexivity|]. apply elem_of_list_In, elem_of_map_to_list. exact Er. }
    destruct (decide (a ∈ vis)) as [Hv|Hv].
    + destruct (wi_vis _ _ _ _ WI a Hv) as (v & E & St & Sset & _). rewrite Sset, E. cbn. rewrite St. reflexivity.
    + destruct (wi_unv _ _ _ _ WI a Hv) as (Ev & Es & El). rewrite Es, Ev. rewrite Hr in El.
      rewrite <- El. destruct (l_val s !! a) as [v|] eqn:E; cbn; [|reflexivity].
      destruct (v_status v) eqn:St; try reflexivity.
      destruct (Act a v E St) as [q Hq]. congruence.
Qed.

(* ---------------------------------------------------------------- top-K: who is Active after EndBlocker *)
(* the walk visits exactly the first entries of the ranking list until max-validators is reached *)
Definition budget (s : lstate) (count : Z) : nat := Z.to_nat (lp_max_validators (l_params s) - count).

Lemma end_walk_params_keep r : forall s last ups count s1 rest ups1,
  end_walk s last ups count r = Ok (s1, rest, ups1) -> l_params s1 = l_params s.
Proof.
  induction r as [|[p a] r IH]; intros s last ups count s1 rest ups1; cbn [end_walk]; [intros [= <- _ _]; reflexivity|].
  destruct (count >=? _); [intros [= <- _ _]; reflexivity|].
  destruct (l_val s !! a) as [v|]; [|discriminate]. destruct (v_status v); try discriminate.
  - destruct (last !! a); [discriminate|]. intros H. rewrite (IH _ _ _ _ _ _ _ H). reflexivity.
  - destruct (_ =? _)%N; intros H; rewrite (IH _ _ _ _ _ _ _ H); reflexivity.
Qed.

Lemma end_walk_visits r : forall s0 s last ups count visited s1 rest ups1,
  walk_inv s0 s last visited -> l_params s = l_params s0 ->
  List.NoDup (map snd r) -> (forall p a, In (p, a) r -> a ∉ visited) ->
  (forall p a, In (p, a) r -> exists v, l_val s0 !! a = Some v /\ v_power v = p /\ (0 < p)%N) ->
  end_walk s last ups count r = Ok (s1, rest, ups1) ->
  walk_inv s0 s1 rest (list_to_set (map snd (firstn (budget s0 count) r)) ∪ visited).
Proof.
  induction r as [|[p a] r IH]; intros s0 s last ups count visited s1 rest ups1 WI Par ND Hnv Hok; cbn [end_walk].
  - intros [= <- <- _]. rewrite firstn_nil. cbn. assert (∅ ∪ visited = visited) as -> by set_solver. exact WI.
  - destruct (count >=? lp_max_validators (l_params s)) eqn:Full.
    + intros [= <- <- _]. unfold budget. rewrite <- Par. replace (Z.to_nat _) with 0%nat by lia. cbn.
      assert (∅ ∪ visited = visited) as -> by set_solver. exact WI.
    + assert (Hb : budget s0 count = S (budget s0 (count + 1))) by (unfold budget; rewrite <- Par; lia).
      rewrite Hb. cbn [firstn map snd list_to_set].
      inversion ND as [|? ? Hna ND']; subst.
      destruct (wi_unv _ _ _ _ WI a (Hnv p a (or_introl eq_refl))) as (Ev & Es & El).
      destruct (Hok p a (or_introl eq_refl)) as (v & E0 & Pv & Pos). rewrite Ev, E0.
      assert (Hnv' : forall q b, In (q, b) r -> b ∉ {[a]} ∪ visited).
      { intros q b Hin Hb'. apply elem_of_union in Hb'. destruct Hb' as [Hb'|Hb'].
        - apply elem_of_singleton in Hb'. subst b. apply Hna. apply in_map_iff. exists (q, a). auto.
        - eapply Hnv; [right; exact Hin|exact Hb']. }
      assert (Hok' : forall q b, In (q, b) r -> exists w, l_val s0 !! b = Some w /\ v_power w = q /\ (0 < q)%N)
        by (intros q b Hin; apply (Hok q b); right; exact Hin).
      assert (Assoc : forall X : gset N, {[a]} ∪ X ∪ visited = X ∪ ({[a]} ∪ visited)) by (intros X; set_solver).
      destruct (v_status v) eqn:St; try discriminate.
      * destruct (last !! a) eqn:La; [discriminate|]. intros H. rewrite Assoc.
        eapply IH; [| |exact ND'|exact Hnv'|exact Hok'|exact H]; [|exact Par].
        constructor.
        -- intros b Hb'. apply elem_of_union in Hb'. destruct (decide (b = a)) as [->|Hne].
           ++ eexists. cbn. rewrite !lookup_insert. split; [reflexivity|]. cbn. auto.
           ++ destruct Hb' as [Hb'|Hb']; [apply elem_of_singleton in Hb'; congruence|].
              destruct (wi_vis _ _ _ _ WI b Hb') as (w & Ew & Sw & Sset & Lw). exists w. cbn.
              rewrite !lookup_insert_ne by congruence. auto.
        -- intros b Hb'. assert (b <> a) by (intros ->; apply Hb'; apply elem_of_union; left; apply elem_of_singleton; reflexivity).
           assert (b ∉ visited) by (intros Hv; apply Hb'; apply elem_of_union; right; exact Hv).
           cbn. rewrite !lookup_insert_ne by congruence. apply (wi_unv _ _ _ _ WI b). assumption.
      * set (old := default 0%N (last !! a)).
        destruct (old =? v_power v)%N eqn:Eq; intros H; rewrite Assoc;
          (eapply IH; [| |exact ND'|exact Hnv'|exact Hok'|exact H]; [|exact Par]); constructor.
        -- intros b Hb'. apply elem_of_union in Hb'. destruct (decide (b = a)) as [->|Hne].
           ++ exists v. rewrite Ev, E0, lookup_delete. repeat split; auto.
              rewrite Es, <- El. apply N.eqb_eq in Eq. subst old. destruct (last !! a) as [o|]; cbn in Eq; [congruence|lia].
           ++ destruct Hb' as [Hb'|Hb']; [apply elem_of_singleton in Hb'; congruence|].
              destruct (wi_vis _ _ _ _ WI b Hb') as (w & Ew & Sw & Sset & Lw). exists w.
              rewrite lookup_delete_ne by congruence. auto.
        -- intros b Hb'. assert (b <> a) by (intros ->; apply Hb'; apply elem_of_union; left; apply elem_of_singleton; reflexivity).
           assert (b ∉ visited) by (intros Hv; apply Hb'; apply elem_of_union; right; exact Hv).
           rewrite lookup_delete_ne by congruence. apply (wi_unv _ _ _ _ WI b). assumption.
        -- intros b Hb'. apply elem_of_union in Hb'. destruct (decide (b = a)) as [->|Hne].
           ++ exists v. cbn. rewrite Ev, E0, lookup_insert, lookup_delete. repeat split; auto.
           ++ destruct Hb' as [Hb'|Hb']; [apply elem_of_singleton in Hb'; congruence|].
              destruct (wi_vis _ _ _ _ WI b Hb') as (w & Ew & Sw & Sset & Lw). exists w. cbn.
              rewrite lookup_insert_ne, lookup_delete_ne by congruence. auto.
        -- intros b Hb'. assert (b <> a) by (intros ->; apply Hb'; apply elem_of_union; left; apply elem_of_singleton; reflexivity).
           assert (b ∉ visited) by (intros Hv; apply Hb'; apply elem_of_union; right; exact Hv).
           cbn. rewrite lookup_insert_ne, lookup_delete_ne by congruence. apply (wi_unv _ _ _ _ WI b). assumption.
Qed.

(* after EndBlocker the Active validators are exactly the first max-validators entries of the ranking
   (highest power first): the validator set is the top-K *)
Theorem end_block_top_k s s' ups :
  rank_spec s -> active_in_set s -> end_block s = Ok (s', ups) ->
  forall a, (exists v, l_val s' !! a = Some v /\ v_status v = Active) <->
            In a (map snd (firstn (Z.to_nat (lp_max_validators (l_params s))) (rank_desc s))).
Proof.
  intros A Act. unfold end_block.
  destruct (end_walk s (l_set s) [] 0 (rank_desc s)) as [[[s1 rest] u1]| |] eqn:W; cbn [rbind]; try discriminate.
  intros R.
  destruct (rank_spec_rank_wf s A) as [Hok ND].
  assert (WI : walk_inv s s1 rest (list_to_set (map snd (firstn (budget s 0) (rank_desc s))) ∪ ∅)).
  { eapply end_walk_visits; [| |exact ND| | |exact W]; [constructor; [intros a H; apply elem_of_empty in H; destruct H|auto]|reflexivity| |].
    - intros p a _ H. apply elem_of_empty in H. exact H.
    - intros p a Hin. destruct (Hok p a Hin) as (v & E & P & Pos & _). eauto. }
  assert (Hb : budget s 0 = Z.to_nat (lp_max_validators (l_params s))) by (unfold budget; f_equal; lia).
  rewrite Hb in WI. set (top := map snd (firstn (Z.to_nat (lp_max_validators (l_params s))) (rank_desc s))) in *.
  destruct (end_remove_set _ _ _ _ _ R) as [In' Out].
  intros a.
  assert (Hvis : a ∈ (list_to_set top ∪ ∅ : gset N) <-> In a top).
  { rewrite elem_of_union, elem_of_list_to_set, elem_of_list_In. split; [intros [H|H]; [exact H|apply elem_of_empty in H; destruct H]|auto]. }
  destruct (decide (a ∈ map fst (map_to_list rest))) as [Hin|Hout].
  - (* queued for removal: not Active afterwards, and not visited *)
    destruct (In' a Hin) as (N & v & v' & E & E' & St & _).
    assert (Hr : is_Some (rest !! a)).
    { apply elem_of_list_In, in_map_iff in Hin. destruct Hin as ([b q] & Hb' & Hin). cbn in Hb'. subst b.
      apply elem_of_list_In, elem_of_map_to_list in Hin. eauto. }
    split.
    + intros (w & Ew & Sw). congruence.
    + intros Ht. apply Hvis in Ht. destruct (wi_vis _ _ _ _ WI a Ht) as (_ & _ & _ & _ & Hn). destruct Hr as [q Hq]. congruence.
  - destruct (Out a Hout) as [O1 O2]. rewrite O2.
    assert (Hr : rest !! a = None).
    { destruct (rest !! a) as [q|] eqn:Er; [|reflexivity]. exfalso. apply Hout.
      apply elem_of_list_In, in_map_iff. exists (a, q). split; [reflexivity|]. apply elem_of_list_In, elem_of_map_to_list. exact Er. }
    destruct (decide (a ∈ (list_to_set top ∪ ∅ : gset N))) as [Hv|Hv].
    + destruct (wi_vis _ _ _ _ WI a Hv) as (v & E & St & _). split; [intros _; apply Hvis; exact Hv|intros _; eauto].
    + destruct (wi_unv _ _ _ _ WI a Hv) as (Ev & Es & El). rewrite Ev. rewrite Hr in El. split.
      * intros (v & E & St). destruct (Act a v E St) as [q Hq]. congruence.
      * intros Ht. exfalso. apply Hv. apply Hvis. exact Ht.
Qed.

(* the ranking list is sorted: highest power first, ties by higher address first *)
Definition rank_le (x y : N * N) : Prop :=
  Is_true ((fst x <? fst y)%N || ((fst x =? fst y)%N && (snd x <=? snd y)%N)).
Global Instance rank_le_total : Total rank_le.
Proof.
  intros [p a] [q b]. unfold rank_le. cbn.
  destruct (p <? q)%N eqn:E1; [left; exact I|]. destruct (q <? p)%N eqn:E2; [right; exact I|].
  assert (p = q) by lia. subst q. rewrite !N.eqb_refl. cbn.
  destruct (a <=? b)%N eqn:E3; [left; exact I|]. right. destruct (b <=? a)%N eqn:E4; [exact I|lia].
Qed.
Theorem rank_desc_sorted s : Sorted (flip rank_le) (rank_desc s).
Proof.
  unfold rank_desc. rewrite rev_alt. apply (Sorted_reverse rank_le). apply (Sorted_merge_sort rank_le).
Qed.
