(* C16: the relayer group stays well-formed in every reachable state and the election step is total.
   Statuses of voter records: 1 pending, 2 on-boarding, 3 off-boarding, 4 activated. *)
From stdpp Require Import gmap sorting.
From Goat Require Import Base.Prelude Gen.Consts Model.Merkle Model.BtcParams Model.Bridge Proofs.BridgeSeq Proofs.BridgeFrames
  Proofs.BridgeRelayer.
From Coq Require Import ZifyBool ZifyNat ZifyN Permutation.
Local Open Scope N_scope.

Definition mem (a : N) (l : list N) : bool := existsb (N.eqb a) l.
Lemma mem_in a l : mem a l = true <-> In a l.
Proof.
  unfold mem. rewrite existsb_exists. split.
  - intros (x & Hx & E). apply N.eqb_eq in E. subst. exact Hx.
  - intros Hin. exists a. split; [exact Hin|apply N.eqb_refl].
Qed.
Lemma mem_false a l : mem a l = false <-> ~ In a l.
Proof. rewrite <- mem_in. destruct (mem a l); split; intros; try congruence; tauto. Qed.

Definition members (s : bstate) : list N := r_proposer s :: r_voters s.
(* members not queued for removal *)
Definition nfree (s : bstate) : nat := length (filter (fun a => negb (mem a (r_off s))) (members s)).

Definition status_of (s : bstate) (a : N) : option N := vt_status <$> (r_voter s !! a).

Record ginv (s : bstate) : Prop := mkG {
  g_nodup : List.NoDup (members s ++ r_on s);                                  (* proposer, voters, queued joiners: all distinct *)
  g_member : forall a, In a (members s) -> status_of s a = Some 4 \/ status_of s a = Some 3;
  g_on : forall a, In a (r_on s) -> status_of s a = Some 2;
  g_free : (1 <= nfree s)%nat;                                                  (* some member is not queued for removal *)
}.

(* ---------------------------------------------------------------- list facts *)
Lemma nodup_app_left {A} (a b : list A) : List.NoDup (a ++ b) -> List.NoDup a.
Proof. induction a as [|x a IH]; cbn; intros Hn; [constructor|]. inversion Hn; subst. constructor; [intros Hi; apply H1; apply in_or_app; left; exact Hi|apply IH; assumption]. Qed.
Lemma nodup_snoc {A} (l : list A) x : List.NoDup l -> ~ In x l -> List.NoDup (l ++ [x]).
Proof.
  induction l as [|y l IH]; cbn; intros Hn Hx; [constructor; [intros []|constructor]|]. inversion Hn; subst. constructor.
  - intros Hi. apply in_app_or in Hi. destruct Hi as [Hi|[->|[]]]; tauto.
  - apply IH; [assumption|tauto].
Qed.
Lemma filter_in_len (l off : list N) : List.NoDup l -> (length (filter (fun a => mem a off) l) <= length off)%nat.
Proof.
  intros ND. apply NoDup_incl_length; [apply NoDup_filter; exact ND|].
  intros x Hx. apply filter_In in Hx. apply mem_in. apply Hx.
Qed.
Lemma filter_split_len (l off : list N) :
  (length (filter (fun a => negb (mem a off)) l) + length (filter (fun a => mem a off) l) = length l)%nat.
Proof. induction l as [|x l IH]; cbn; [reflexivity|]. destruct (mem x off); cbn; lia. Qed.
Lemma nfree_ge_active s : List.NoDup (members s) -> (length (members s) - length (r_off s) <= nfree s)%nat.
Proof.
  intros ND. unfold nfree. pose proof (filter_split_len (members s) (r_off s)). pose proof (filter_in_len (members s) (r_off s) ND). lia.
Qed.
Lemma free_after_one (l off : list N) a : List.NoDup l ->
  (length (filter (fun x => negb (mem x off)) l) <= S (length (filter (fun x => negb (mem x (off ++ [a]))) l)))%nat.
Proof.
  induction l as [|x l IH]; intros ND; cbn; [lia|]. inversion ND as [|? ? Hn ND']; subst.
  assert (E : mem x (off ++ [a]) = mem x off || (x =? a)).
  { unfold mem. rewrite existsb_app. cbn. rewrite orb_false_r. reflexivity. }
  rewrite E. destruct (mem x off) eqn:M; cbn; [apply IH; exact ND'|].
  destruct (x =? a) eqn:Ea; cbn.
  - (* x = a is dropped once; a does not occur in the rest *)
    apply N.eqb_eq in Ea. subst x.
    assert (filter (fun x => negb (mem x (off ++ [a]))) l = filter (fun x => negb (mem x off)) l) as ->; [|lia].
    apply filter_ext_in. intros y Hy. unfold mem. rewrite existsb_app. cbn. rewrite orb_false_r.
    destruct (y =? a) eqn:Ey; [apply N.eqb_eq in Ey; subst; tauto|]. rewrite orb_false_r. reflexivity.
  - specialize (IH ND'). lia.
Qed.

Section Grp.
Variable H : bytes -> bytes.
Variable chain_id : bytes.

(* ---------------------------------------------------------------- add / remove requests *)
Lemma relayer_add_keeps s h r a :
  let s' := relayer_add s h r in
  r_proposer s' = r_proposer s /\ r_voters s' = r_voters s /\ r_on s' = r_on s /\ r_off s' = r_off s /\
  (is_Some (r_voter s !! a) -> r_voter s' !! a = r_voter s !! a).
Proof.
  destruct r as [[b str] kh]. unfold relayer_add. cbv zeta. destruct (r_voter s !! b) eqn:E; [auto 10|].
  cbn. repeat split; auto. intros [v Hv]. rewrite lookup_insert_ne; [reflexivity|]. intros ->. congruence.
Qed.

Lemma ginv_same_group s s' :
  r_proposer s' = r_proposer s -> r_voters s' = r_voters s -> r_on s' = r_on s -> r_off s' = r_off s ->
  (forall a, In a (members s ++ r_on s) -> status_of s' a = status_of s a) -> ginv s -> ginv s'.
Proof.
  intros Ep Ev Eo Ef St [A B C D].
  assert (Em : members s' = members s) by (unfold members; rewrite Ep, Ev; reflexivity).
  constructor.
  - rewrite Em, Eo. exact A.
  - intros a Ha. rewrite Em in Ha. rewrite St by (apply in_or_app; left; exact Ha). apply B. exact Ha.
  - intros a Ha. rewrite Eo in Ha. rewrite St by (apply in_or_app; right; exact Ha). apply C. exact Ha.
  - unfold nfree. rewrite Em, Ef. exact D.
Qed.

Lemma relayer_add_ginv s h r : ginv s -> ginv (relayer_add s h r).
Proof.
  intros G. destruct (relayer_add_keeps s h r 0) as (Ep & Ev & Eo & Ef & _).
  apply (ginv_same_group s); auto. intros a Ha. unfold status_of.
  destruct (relayer_add_keeps s h r a) as (_ & _ & _ & _ & Hk). rewrite Hk; [reflexivity|].
  apply in_app_or in Ha. destruct Ha as [Ha|Ha].
  - destruct (g_member s G a Ha) as [E|E]; unfold status_of in E; destruct (r_voter s !! a); [eauto|discriminate|eauto|discriminate].
  - pose proof (g_on s G a Ha) as E. unfold status_of in E. destruct (r_voter s !! a); [eauto|discriminate].
Qed.

Lemma relayer_removes_ginv l : forall s active,
  ginv s -> (active <= Z.of_nat (nfree s))%Z -> ginv (relayer_removes s active l).
Proof.
  induction l as [|a r IH]; intros s active G Hact; cbn [relayer_removes]; [exact G|].
  destruct (r_voter s !! a) as [vt|] eqn:Ea; [|apply IH; assumption].
  destruct (negb (vt_status vt =? 4)) eqn:St; [apply IH; assumption|].
  destruct (active - 1 <? 1)%Z eqn:Eb; [exact G|].
  apply negb_false_iff, N.eqb_eq in St.
  set (s1 := set_voters s (<[a := mkVoter (vt_key vt) 3 (vt_height vt)]> (r_voter s)) (r_on s) (r_off s ++ [a]) (r_accounts s) (r_book s)).
  assert (NDm : List.NoDup (members s)) by (apply (nodup_app_left _ _ (g_nodup s G))).
  assert (Hfree : (nfree s <= S (nfree s1))%nat).
  { unfold nfree, s1. cbn [r_off set_voters members r_proposer r_voters]. apply free_after_one. exact NDm. }
  apply IH.
  - destruct G as [A B C D]. constructor.
    + exact A.
    + intros b Hb. unfold status_of, s1. cbn [r_voter set_voters]. destruct (decide (b = a)) as [->|Hne].
      * rewrite lookup_insert. cbn. auto.
      * rewrite lookup_insert_ne by congruence. apply B. exact Hb.
    + intros b Hb. unfold status_of, s1. cbn [r_voter set_voters]. destruct (decide (b = a)) as [->|Hne].
      * exfalso. pose proof (C a Hb) as E. unfold status_of in E. rewrite Ea in E. cbn in E. congruence.
      * rewrite lookup_insert_ne by congruence. apply C. exact Hb.
    + lia.
  - lia.
Qed.

Theorem relayer_request_ginv s h adds rms : ginv s -> ginv (process_relayer_request s h adds rms).
Proof.
  intros G. unfold process_relayer_request.
  assert (G1 : ginv (fold_left (fun s r => relayer_add s h r) adds s)).
  { revert s G. induction adds as [|r l IH]; intros s G; cbn [fold_left]; [exact G|]. apply IH. apply relayer_add_ginv. exact G. }
  destruct rms as [|x rms]; [exact G1|].
  apply relayer_removes_ginv; [exact G1|].
  set (s1 := fold_left _ adds s) in *.
  assert (NDm : List.NoDup (members s1)) by (apply (nodup_app_left _ _ (g_nodup s1 G1))).
  pose proof (nfree_ge_active s1 NDm) as Hn. unfold members in Hn. cbn [length] in Hn. lia.
Qed.

(* ---------------------------------------------------------------- registration *)
Theorem new_voter_ginv s prop lok addr araw k kraw txp blsp s' :
  ginv s -> new_voter H chain_id s prop lok addr araw k kraw txp blsp = Ok s' -> ginv s'.
Proof.
  intros G Hn. destruct (new_voter_sound H chain_id _ _ _ _ _ _ _ _ _ _ Hn) as (_ & _ & vt & Evt & Est & _ & Hrest).
  cbv zeta in Hrest. destruct Hrest as (_ & _ & Ep & Ev & _ & vt' & Evt' & _ & Hcase).
  (* records other than addr are unchanged *)
  assert (Hoth : forall b, b <> addr -> r_voter s' !! b = r_voter s !! b).
  { intros b Hb. unfold new_voter, rbind in Hn. des Hn; inversion Hn; subst; cbn;
      match goal with Hv : verify_non_proposal _ _ = Ok _ |- _ => unfold verify_non_proposal in Hv; des Hv; inversion Hv; subst end;
      cbn; rewrite lookup_insert_ne by congruence; reflexivity. }
  assert (Hnm : ~ In addr (members s ++ r_on s)).
  { intros Hin. apply in_app_or in Hin. destruct Hin as [Hin|Hin].
    - destruct (g_member s G addr Hin) as [E|E]; unfold status_of in E; rewrite Evt in E; cbn in E; congruence.
    - pose proof (g_on s G addr Hin) as E. unfold status_of in E. rewrite Evt in E. cbn in E. congruence. }
  assert (Em : members s' = members s) by (unfold members; rewrite Ep, Ev; reflexivity).
  assert (Hst : forall b, In b (members s ++ r_on s) -> status_of s' b = status_of s b).
  { intros b Hb. unfold status_of. rewrite Hoth; [reflexivity|]. intros ->. tauto. }
  destruct G as [A B C D].
  destruct Hcase as [(S2 & Eon & Eoff)|(S3 & Eoff & Eon)]; constructor.
  - rewrite Em, Eon, app_assoc. apply nodup_snoc; [exact A|exact Hnm].
  - intros a Ha. rewrite Em in Ha. rewrite Hst by (apply in_or_app; left; exact Ha). apply B; exact Ha.
  - intros a Ha. rewrite Eon in Ha. apply in_app_or in Ha. destruct Ha as [Ha|[<-|[]]].
    + rewrite Hst by (apply in_or_app; right; exact Ha). apply C; exact Ha.
    + unfold status_of. rewrite Evt'. cbn. congruence.
  - unfold nfree. rewrite Em, Eoff. exact D.
  - rewrite Em, Eon. exact A.
  - intros a Ha. rewrite Em in Ha. rewrite Hst by (apply in_or_app; left; exact Ha). apply B; exact Ha.
  - intros a Ha. rewrite Eon in Ha. rewrite Hst by (apply in_or_app; right; exact Ha). apply C; exact Ha.
  - (* addr joins the removal queue but is not a member: the free members are the same *)
    unfold nfree. rewrite Em, Eoff.
    assert (filter (fun a => negb (mem a (r_off s ++ [addr]))) (members s) = filter (fun a => negb (mem a (r_off s))) (members s)) as ->; [|exact D].
    apply filter_ext_in. intros y Hy. unfold mem. rewrite existsb_app. cbn. rewrite orb_false_r.
    destruct (y =? addr) eqn:Ey; [apply N.eqb_eq in Ey; subst; exfalso; apply Hnm; apply in_or_app; left; exact Hy|].
    rewrite orb_false_r. reflexivity.
Qed.

(* ---------------------------------------------------------------- the election *)
Definition activate (m : gmap N voter) (a : N) : gmap N voter :=
  match m !! a with Some v => <[a := mkVoter (vt_key v) 4 (vt_height v)]> m | None => m end.

Lemma activate_lookup m a b :
  activate m a !! b = if decide (b = a) then (fun v => mkVoter (vt_key v) 4 (vt_height v)) <$> (m !! a) else m !! b.
Proof.
  unfold activate. destruct (m !! a) as [v|] eqn:Ea; destruct (decide (b = a)) as [->|Hne].
  - rewrite lookup_insert. reflexivity.
  - rewrite lookup_insert_ne by congruence. reflexivity.
  - exact Ea.
  - reflexivity.
Qed.
Lemma activate_fold on : forall m b,
  vt_status <$> (fold_left activate on m !! b) = if mem b on then (fun _ => 4) <$> (m !! b) else vt_status <$> (m !! b).
Proof.
  induction on as [|a on IH]; intros m b; cbn [fold_left]; [reflexivity|].
  rewrite IH, activate_lookup. unfold mem at 2. cbn [existsb]. fold (mem b on).
  destruct (decide (b = a)) as [->|Hne].
  - rewrite N.eqb_refl. cbn [orb]. destruct (m !! a); cbn; destruct (mem a on); reflexivity.
  - assert ((b =? a) = false) as -> by (apply N.eqb_neq; exact Hne). reflexivity.
Qed.
Lemma delete_fold off : forall (m : gmap N voter) b,
  fold_left (fun m a => delete a m) off m !! b = if mem b off then None else m !! b.
Proof.
  induction off as [|a off IH]; intros m b; cbn [fold_left mem existsb]; [reflexivity|].
  rewrite IH. fold (mem b off). destruct (mem b off); [rewrite orb_true_r; reflexivity|]. rewrite orb_false_r.
  destruct (b =? a) eqn:Eb; [apply N.eqb_eq in Eb; subst; apply lookup_delete|apply lookup_delete_ne; apply N.eqb_neq in Eb; congruence].
Qed.

Lemma swap_perm prop voters i : (i < length voters)%nat ->
  let '(p, vs) := swap_proposer prop voters i in Permutation (p :: vs) (prop :: voters).
Proof.
  intros Hi. unfold swap_proposer.
  destruct (nth_split voters prop Hi) as (l1 & l2 & El & Ll).
  assert (F : firstn i voters = l1) by (rewrite El at 1; rewrite <- Ll; rewrite firstn_app, firstn_all, Nat.sub_diag; cbn; apply app_nil_r).
  assert (S : skipn (S i) voters = l2).
  { rewrite El at 1. rewrite <- Ll. rewrite skipn_app, skipn_all2 by lia. cbn.
    replace (S (length l1) - length l1)%nat with 1%nat by lia. reflexivity. }
  rewrite F, S. rewrite El at 2. set (x := nth i voters prop).
  change (Permutation (x :: l1 ++ prop :: l2) (prop :: l1 ++ x :: l2)).
  apply perm_trans with (x :: prop :: l1 ++ l2).
  - apply perm_skip. symmetry. apply Permutation_middle.
  - apply perm_trans with (prop :: x :: l1 ++ l2); [apply perm_swap|]. apply perm_skip. apply Permutation_middle.
Qed.

Lemma nodup_filter_sub (l : list N) f : List.NoDup l -> List.NoDup (filter f l).
Proof. apply NoDup_filter. Qed.

(* the state after the election step, described by its group *)
Lemma election_group_ok (s : bstate) (P : N) (VS : list N) (vt' : gmap N voter) (s' : bstate) :
  r_proposer s' = P -> r_voters s' = VS -> r_on s' = [] -> r_off s' = [] -> r_voter s' = vt' ->
  List.NoDup (P :: VS) ->
  (forall a, In a (P :: VS) -> vt_status <$> (vt' !! a) = Some 4 \/ vt_status <$> (vt' !! a) = Some 3) ->
  ginv s'.
Proof.
  intros Ep Ev Eo Ef Et ND St. constructor.
  - unfold members. rewrite Ep, Ev, Eo, app_nil_r. exact ND.
  - intros a Ha. unfold members in Ha. rewrite Ep, Ev in Ha. unfold status_of. rewrite Et. apply St. exact Ha.
  - rewrite Eo. intros a [].
  - unfold nfree, members. rewrite Ep, Ev, Ef. cbn. lia.
Qed.

Theorem election_total s now : ginv s -> exists s', relayer_end_block H s now = Ok s' /\ ginv s'.
Proof.
  intros G. unfold relayer_end_block. cbv zeta.
  destruct (_ && _) eqn:Due; [exists s; auto|]. clear Due.
  destruct G as [A B C D].
  (* every queued joiner has a record *)
  assert (Hon : forallb (fun a => bool_decide (is_Some (r_voter s !! a))) (r_on s) = true).
  { apply forallb_forall. intros a Ha. apply bool_decide_eq_true. pose proof (C a Ha) as E. unfold status_of in E.
    destruct (r_voter s !! a); [eauto|discriminate]. }
  rewrite Hon. cbn [negb].
  set (vt1 := fold_left _ (r_on s) (r_voter s)).
  assert (Evt1 : vt1 = fold_left activate (r_on s) (r_voter s)) by reflexivity.
  set (voters1 := r_voters s ++ r_on s).
  set (vt2 := fold_left (fun m a => delete a m) (r_off s) vt1).
  set (removed := existsb (N.eqb (r_proposer s)) (r_off s)).
  set (new_voters := filter (fun a => negb (existsb (N.eqb a) (r_off s))) voters1).
  assert (ND1 : List.NoDup (r_proposer s :: voters1)).
  { unfold members in A. subst voters1. cbn in A. exact A. }
  assert (NDv : List.NoDup voters1) by (inversion ND1; assumption).
  assert (Pnv : ~ In (r_proposer s) voters1) by (inversion ND1; assumption).
  assert (NDn : List.NoDup new_voters) by (apply NoDup_filter; exact NDv).
  (* statuses after activation, for anything in the old group *)
  assert (St1 : forall a, In a (r_proposer s :: voters1) -> vt_status <$> (vt1 !! a) = Some 4 \/ vt_status <$> (vt1 !! a) = Some 3).
  { intros a Ha. rewrite Evt1, activate_fold. destruct (mem a (r_on s)) eqn:M.
    - apply mem_in in M. pose proof (C a M) as E. unfold status_of in E. destruct (r_voter s !! a); [left; reflexivity|discriminate].
    - apply mem_false in M. assert (Hm : In a (members s)).
      { unfold members. destruct Ha as [<-|Ha]; [left; reflexivity|]. right. unfold voters1 in Ha. apply in_app_or in Ha. tauto. }
      apply (B a Hm). }
  assert (St2 : forall a, In a (r_proposer s :: voters1) -> mem a (r_off s) = false ->
                vt_status <$> (vt2 !! a) = Some 4 \/ vt_status <$> (vt2 !! a) = Some 3).
  { intros a Ha M. unfold vt2. rewrite delete_fold, M. apply St1. exact Ha. }
  assert (Hnew : forall a, In a new_voters -> In a voters1 /\ mem a (r_off s) = false).
  { intros a Ha. unfold new_voters in Ha. apply filter_In in Ha. destruct Ha as [H1 H2]. split; [exact H1|]. apply negb_true_iff in H2. exact H2. }
  destruct (negb (length (r_off s) =? 0)%nat) eqn:Offb.
  - (* somebody leaves *)
    assert (Hreset : (negb (length (r_on s) =? 0)%nat || true) = true) by apply orb_true_r.
    rewrite Hreset. cbn [andb].
    destruct removed eqn:Rem.
    + (* the proposer leaves: some voter stays (g_free) *)
      assert (Hne : new_voters <> []).
      { intros E. unfold nfree, members in D. cbn [filter] in D. fold (mem (r_proposer s) (r_off s)) in D.
        assert (Rem' : mem (r_proposer s) (r_off s) = true) by exact Rem. rewrite Rem' in D. cbn [negb] in D.
        destruct (filter (fun a => negb (mem a (r_off s))) (r_voters s)) as [|x l] eqn:F; [cbn in D; lia|].
        assert (Hx : In x (filter (fun a => negb (mem a (r_off s))) (r_voters s))) by (rewrite F; left; reflexivity).
        apply filter_In in Hx. destruct Hx as [Hx1 Hx2].
        assert (In x new_voters). { unfold new_voters. apply filter_In. split; [unfold voters1; apply in_or_app; left; exact Hx1|exact Hx2]. }
        rewrite E in H0. destruct H0. }
      clearbody new_voters. destruct new_voters as [|p0 rest]; [congruence|]. cbn [length Nat.eqb andb hd tl].
      eexists. split; [reflexivity|].
      eapply (election_group_ok s p0 rest vt2); try reflexivity.
      * exact NDn.
      * intros a Ha. destruct (Hnew a Ha) as [H1 H2]. apply St2; [right; exact H1|exact H2].
    + (* the proposer stays *)
      cbn [andb].
      assert (Pfree : mem (r_proposer s) (r_off s) = false) by exact Rem.
      assert (NDg : List.NoDup (r_proposer s :: new_voters)).
      { constructor; [|exact NDn]. intros Hin. apply Hnew in Hin. tauto. }
      assert (Stg : forall a, In a (r_proposer s :: new_voters) -> vt_status <$> (vt2 !! a) = Some 4 \/ vt_status <$> (vt2 !! a) = Some 3).
      { intros a [<-|Ha]; [apply St2; [left; reflexivity|exact Pfree]|]. destruct (Hnew a Ha) as [H1 H2]. apply St2; [right; exact H1|exact H2]. }
      clearbody new_voters. destruct new_voters as [|v1 [|v2 rest]].
      * eexists. split; [reflexivity|]. eapply (election_group_ok s _ _ vt2); try reflexivity; [exact NDg|exact Stg].
      * pose proof (swap_perm (r_proposer s) [v1] 0) as Sw. cbn [length] in Sw. specialize (Sw ltac:(lia)).
        destruct (swap_proposer (r_proposer s) [v1] 0) as [p vs] eqn:Es.
        eexists. split; [reflexivity|]. eapply (election_group_ok s p vs vt2); try reflexivity.
        -- eapply Permutation_NoDup; [symmetry; exact Sw|exact NDg].
        -- intros a Ha. apply Stg. eapply Permutation_in; [exact Sw|exact Ha].
      * set (vs0 := v1 :: v2 :: rest) in *.
        set (i := N.to_nat (be_val (H (r_randao s ++ le64 (r_epoch s + 1))) mod N.of_nat (length vs0))).
        assert (Hi : (i < length vs0)%nat).
        { subst i. assert (N.of_nat (length vs0) <> 0) by (subst vs0; cbn; lia).
          pose proof (N.mod_upper_bound (be_val (H (r_randao s ++ le64 (r_epoch s + 1)))) (N.of_nat (length vs0)) H0). lia. }
        pose proof (swap_perm (r_proposer s) vs0 i Hi) as Sw.
        destruct (swap_proposer (r_proposer s) vs0 i) as [p vs] eqn:Es.
        eexists. split; [reflexivity|]. eapply (election_group_ok s p vs vt2); try reflexivity.
        -- eapply Permutation_NoDup; [symmetry; exact Sw|exact NDg].
        -- intros a Ha. apply Stg. eapply Permutation_in; [exact Sw|exact Ha].
  - (* nobody leaves: the removal queue is empty *)
    assert (Eoff : r_off s = []).
    { apply negb_false_iff, Nat.eqb_eq in Offb. destruct (r_off s); [reflexivity|discriminate]. }
    cbn [andb]. rewrite orb_false_r.
    assert (Memf : forall a, mem a (r_off s) = false) by (intros a; rewrite Eoff; reflexivity).
    assert (Evt2 : vt2 = vt1) by (unfold vt2; rewrite Eoff; reflexivity).
    destruct (negb (length (r_on s) =? 0)%nat) eqn:Onb.
    + (* joiners only *)
      assert (Stg : forall a, In a (r_proposer s :: voters1) -> vt_status <$> (vt2 !! a) = Some 4 \/ vt_status <$> (vt2 !! a) = Some 3)
        by (intros a Ha; apply St2; [exact Ha|apply Memf]).
      cbn [andb].
      clearbody voters1. destruct voters1 as [|v1 [|v2 rest]].
      * eexists. split; [reflexivity|]. eapply (election_group_ok s _ _ vt2); try reflexivity; [exact ND1|exact Stg].
      * pose proof (swap_perm (r_proposer s) [v1] 0) as Sw. cbn [length] in Sw. specialize (Sw ltac:(lia)).
        destruct (swap_proposer (r_proposer s) [v1] 0) as [p vs] eqn:Es.
        eexists. split; [reflexivity|]. eapply (election_group_ok s p vs vt2); try reflexivity.
        -- eapply Permutation_NoDup; [symmetry; exact Sw|exact ND1].
        -- intros a Ha. apply Stg. eapply Permutation_in; [exact Sw|exact Ha].
      * set (vs0 := v1 :: v2 :: rest) in *.
        set (i := N.to_nat (be_val (H (r_randao s ++ le64 (r_epoch s + 1))) mod N.of_nat (length vs0))).
        assert (Hi : (i < length vs0)%nat).
        { subst i. assert (N.of_nat (length vs0) <> 0) by (subst vs0; cbn; lia).
          pose proof (N.mod_upper_bound (be_val (H (r_randao s ++ le64 (r_epoch s + 1)))) (N.of_nat (length vs0)) H0). lia. }
        pose proof (swap_perm (r_proposer s) vs0 i Hi) as Sw.
        destruct (swap_proposer (r_proposer s) vs0 i) as [p vs] eqn:Es.
        eexists. split; [reflexivity|]. eapply (election_group_ok s p vs vt2); try reflexivity.
        -- eapply Permutation_NoDup; [symmetry; exact Sw|exact ND1].
        -- intros a Ha. apply Stg. eapply Permutation_in; [exact Sw|exact Ha].
    + (* nothing queued: only the proposer rotates *)
      assert (Eon : r_on s = []).
      { apply negb_false_iff, Nat.eqb_eq in Onb. destruct (r_on s); [reflexivity|discriminate]. }
      assert (Ev1 : voters1 = r_voters s) by (unfold voters1; rewrite Eon; apply app_nil_r).
      assert (Stg : forall a, In a (r_proposer s :: voters1) -> vt_status <$> (r_voter s !! a) = Some 4 \/ vt_status <$> (r_voter s !! a) = Some 3).
      { intros a Ha. apply (B a). unfold members. rewrite <- Ev1. exact Ha. }
      cbn [andb].
      clearbody voters1. destruct voters1 as [|v1 [|v2 rest]].
      * eexists. split; [reflexivity|]. eapply (election_group_ok s _ _ (r_voter s)); try reflexivity; [exact Eon|exact Eoff|exact ND1|exact Stg].
      * pose proof (swap_perm (r_proposer s) [v1] 0) as Sw. cbn [length] in Sw. specialize (Sw ltac:(lia)).
        destruct (swap_proposer (r_proposer s) [v1] 0) as [p vs] eqn:Es.
        eexists. split; [reflexivity|]. eapply (election_group_ok s p vs (r_voter s)); try reflexivity; [exact Eon|exact Eoff| |].
        -- eapply Permutation_NoDup; [symmetry; exact Sw|exact ND1].
        -- intros a Ha. apply Stg. eapply Permutation_in; [exact Sw|exact Ha].
      * set (vs0 := v1 :: v2 :: rest) in *.
        set (i := N.to_nat (be_val (H (r_randao s ++ le64 (r_epoch s + 1))) mod N.of_nat (length vs0))).
        assert (Hi : (i < length vs0)%nat).
        { subst i. assert (N.of_nat (length vs0) <> 0) by (subst vs0; cbn; lia).
          pose proof (N.mod_upper_bound (be_val (H (r_randao s ++ le64 (r_epoch s + 1)))) (N.of_nat (length vs0)) H0). lia. }
        pose proof (swap_perm (r_proposer s) vs0 i Hi) as Sw.
        destruct (swap_proposer (r_proposer s) vs0 i) as [p vs] eqn:Es.
        eexists. split; [reflexivity|]. eapply (election_group_ok s p vs (r_voter s)); try reflexivity; [exact Eon|exact Eoff| |].
        -- eapply Permutation_NoDup; [symmetry; exact Sw|exact ND1].
        -- intros a Ha. apply Stg. eapply Permutation_in; [exact Sw|exact Ha].
Qed.

Lemma ginv_grp s s' : grp s' = grp s -> ginv s -> ginv s'.
Proof.
  unfold grp. intros E G. injection E as E1 E2 E3 E4 E5 E6 E7.
  apply (ginv_same_group s); auto. intros a _. unfold status_of. rewrite E5. reflexivity.
Qed.

Theorem bk_step_ginv s o : ginv s -> ginv (fst (bk_step H chain_id s o)).
Proof.
  intros G. pose proof (grp_frame H chain_id s o) as Hf.
  destruct o; try (apply (ginv_grp s); [exact Hf|exact G]); clear Hf; cbn [bk_step].
  - cbn. apply relayer_request_ginv. exact G.
  - destruct (new_voter H chain_id s prop lengths_ok addr addr_raw k khash_raw txproof blsproof) as [s'| |] eqn:E; cbn; try exact G.
    eapply new_voter_ginv; eauto.
  - destruct (election_total s now G) as (s' & E & G'). rewrite E. cbn. exact G'.
Qed.

Theorem ginv_reachable ops : forall s, ginv s -> ginv (bk_run H chain_id s ops).
Proof.
  unfold bk_run. induction ops as [|o r IH]; intros s G; cbn [fold_left]; [exact G|].
  apply IH. apply bk_step_ginv. exact G.
Qed.

(* the end-of-block step of the relayer module never fails in a reachable state *)
Theorem end_block_never_fails ops s now : ginv s ->
  exists s', relayer_end_block H (bk_run H chain_id s ops) now = Ok s'.
Proof. intros G. destruct (election_total (bk_run H chain_id s ops) now (ginv_reachable ops s G)) as (s' & E & _). eauto. Qed.
End Grp.
