(* C02: the proposal sequence advances exactly once per accepted voted proposal and by nothing else. *)
From stdpp Require Import gmap sorting.
From Goat Require Import Base.Prelude Gen.Consts Model.Merkle Model.BtcParams Model.Bridge.
Local Open Scope N_scope.

(* destruct the conditions of a handler one after the other, pruning failing branches *)
Ltac des H :=
  repeat (match type of H with
          | context [match ?x with _ => _ end] =>
            match x with
            | context [match _ with _ => _ end] => fail 1
            | _ => destruct x eqn:?; try discriminate H
            end
          end).

Section Seq.
Variable H : bytes -> bytes.
Variable chain_id : bytes.

Definition sq (s : bstate) : N * N := (r_seq s, g_accepted_votes s).

Lemma verify_proposal_sq s p v m d s' seq :
  verify_proposal H chain_id s p v m d = Ok (s', seq) -> sq s' = sq s /\ seq = r_seq s.
Proof. unfold verify_proposal, rbind. intros Hv. des Hv. inversion Hv; subst. split; reflexivity. Qed.

Lemma verify_non_proposal_sq s p s' : verify_non_proposal s p = Ok s' -> sq s' = sq s.
Proof. unfold verify_non_proposal. intros Hv. des Hv. inversion Hv; reflexivity. Qed.

Lemma deposits_loop_sq ds : forall s hs acc s' rcs,
  deposits_loop H s hs ds acc = Ok (s', rcs) -> sq s' = sq s.
Proof.
  induction ds as [|d r IH]; intros s hs acc s' rcs Hl; cbn in Hl.
  - inversion Hl; reflexivity.
  - unfold rbind in Hl. des Hl. apply IH in Hl. exact Hl.
Qed.

Lemma process_loop_sq ids : forall s txid fee len idx outs vals s' vals',
  process_loop s txid fee len idx ids outs vals = Ok (s', vals') -> sq s' = sq s.
Proof.
  induction ids as [|i r IH]; intros s txid fee len idx outs vals s' vals' Hl; cbn in Hl.
  - inversion Hl; reflexivity.
  - des Hl. apply IH in Hl. exact Hl.
Qed.

Lemma replace_loop_sq ids : forall s txid fee len idx outs vals s' vals',
  replace_loop s txid fee len idx ids outs vals = Ok (s', vals') -> sq s' = sq s.
Proof.
  induction ids as [|i r IH]; intros s txid fee len idx outs vals s' vals' Hl; cbn in Hl.
  - inversion Hl; reflexivity.
  - des Hl. apply IH in Hl. exact Hl.
Qed.

Lemma finalize_loop_sq ids : forall s txid idx vals paid s' paid',
  finalize_loop s txid idx ids vals paid = Ok (s', paid') -> sq s' = sq s.
Proof.
  induction ids as [|i r IH]; intros s txid idx vals paid s' paid' Hl; cbn in Hl.
  - inversion Hl; reflexivity.
  - des Hl. apply IH in Hl. exact Hl.
Qed.

Lemma cancel_loop_sq ids : forall s s', cancel_loop s ids = Ok s' -> sq s' = sq s.
Proof.
  induction ids as [|i r IH]; intros s s' Hl; cbn in Hl.
  - inversion Hl; reflexivity.
  - des Hl. apply IH in Hl. exact Hl.
Qed.

Lemma fold_res_sq {B} (f : bstate -> B -> res bstate) (Hf : forall s b s', f s b = Ok s' -> sq s' = sq s) :
  forall l s s', fold_res f l s = Ok s' -> sq s' = sq s.
Proof.
  induction l as [|b r IH]; intros s s' Hl; cbn in Hl.
  - inversion Hl; reflexivity.
  - unfold rbind in Hl. destruct (f s b) eqn:E; try discriminate. apply IH in Hl. rewrite Hl. eapply Hf; eauto.
Qed.

Lemma fold_left_sq {B} (f : bstate -> B -> bstate) (Hf : forall s b, sq (f s b) = sq s) :
  forall l s, sq (fold_left f l s) = sq s.
Proof. induction l as [|b r IH]; intros s; cbn; [reflexivity|]. rewrite IH. apply Hf. Qed.

Lemma relayer_removes_sq l : forall s active, sq (relayer_removes s active l) = sq s.
Proof.
  induction l as [|a r IH]; intros s active; cbn; [reflexivity|].
  destruct (r_voter s !! a); [|apply IH]. destruct (negb _); [apply IH|].
  destruct (_ <? _)%Z; [reflexivity|]. rewrite IH. reflexivity.
Qed.

(* accepted voted proposal: +1 ; everything else: unchanged *)
Definition is_voted (o : bop) : bool :=
  match o with
  | BHashes _ _ _ _ | BPubkey _ _ _ | BProcess _ _ _ _ _ _ | BReplace _ _ _ _ _ _ | BConsolidation _ _ _ _ => true
  | _ => false
  end.

Lemma bump s1 s v : sq s1 = sq s -> sq (finish_vote H s1 (r_seq s) v) = (r_seq s + 1, g_accepted_votes s + 1).
Proof. unfold sq, finish_vote. cbn. intros E. inversion E. reflexivity. Qed.

Theorem bk_step_seq s o :
  let '(s', (cls, _)) := bk_step H chain_id s o in
  sq s' = if is_voted o && (cls =? 0) then (r_seq s + 1, g_accepted_votes s + 1) else sq s.
Proof.
  destruct o; cbn [bk_step is_voted andb].
  - (* hashes *)
    destruct (new_block_hashes H chain_id s prop v start hashes) as [s'| |] eqn:E; cbn; try reflexivity.
    unfold new_block_hashes, rbind in E. des E.
    match goal with Hv : verify_proposal _ _ _ _ _ _ _ = Ok (?s1, ?q) |- _ => apply verify_proposal_sq in Hv; destruct Hv as [Hs ->] end.
    destruct (fold_left _ hashes _) as [tip hs]. inversion E; subst. apply bump. cbn. exact Hs.
  - destruct (new_pubkey H chain_id s prop v k) as [s'| |] eqn:E; cbn; try reflexivity.
    unfold new_pubkey, rbind in E. des E.
    match goal with Hv : verify_proposal _ _ _ _ _ _ _ = Ok (?s1, ?q) |- _ => apply verify_proposal_sq in Hv; destruct Hv as [Hs ->] end.
    inversion E; subst. apply bump. cbn. exact Hs.
  - destruct (new_deposits H s prop headers ds) as [s'| |] eqn:E; cbn; try reflexivity.
    unfold new_deposits, rbind in E. des E.
    match goal with Hv : verify_non_proposal _ _ = Ok _ |- _ => apply verify_non_proposal_sq in Hv end.
    match goal with Hd : deposits_loop _ _ _ _ _ = Ok _ |- _ => apply deposits_loop_sq in Hd end.
    inversion E; subst. cbn. unfold sq in *. cbn in *. congruence.
  - destruct (process_withdrawal H chain_id s prop v tx parsed ids fee) as [s'| |] eqn:E; cbn; try reflexivity.
    unfold process_withdrawal, rbind in E. des E.
    match goal with Hv : verify_proposal _ _ _ _ _ _ _ = Ok (?s1, ?q) |- _ => apply verify_proposal_sq in Hv; destruct Hv as [Hs ->] end.
    match goal with Hd : process_loop _ _ _ _ _ _ _ _ = Ok _ |- _ => apply process_loop_sq in Hd end.
    inversion E; subst. apply bump. cbn. unfold sq in *. cbn in *. congruence.
  - destruct (replace_withdrawal H chain_id s prop v pid tx parsed fee) as [s'| |] eqn:E; cbn; try reflexivity.
    unfold replace_withdrawal, rbind in E. des E.
    match goal with Hv : verify_proposal _ _ _ _ _ _ _ = Ok (?s1, ?q) |- _ => apply verify_proposal_sq in Hv; destruct Hv as [Hs ->] end.
    match goal with Hd : replace_loop _ _ _ _ _ _ _ _ = Ok _ |- _ => apply replace_loop_sq in Hd end.
    inversion E; subst. apply bump. cbn. unfold sq in *. cbn in *. congruence.
  - destruct (finalize_withdrawal H s prop pid txid height txindex proof header) as [s'| |] eqn:E; cbn; try reflexivity.
    unfold finalize_withdrawal, rbind in E. des E.
    match goal with Hv : verify_non_proposal _ _ = Ok _ |- _ => apply verify_non_proposal_sq in Hv end.
    match goal with Hd : finalize_loop _ _ _ _ _ _ = Ok _ |- _ => apply finalize_loop_sq in Hd end.
    inversion E; subst. cbn. unfold sq in *. cbn in *. congruence.
  - destruct (approve_cancellation s prop ids) as [s'| |] eqn:E; cbn; try reflexivity.
    unfold approve_cancellation, rbind in E. des E.
    match goal with Hv : verify_non_proposal _ _ = Ok _ |- _ => apply verify_non_proposal_sq in Hv end.
    match goal with Hd : cancel_loop _ _ = Ok _ |- _ => apply cancel_loop_sq in Hd end.
    inversion E; subst. cbn. unfold sq in *. cbn in *. congruence.
  - destruct (new_consolidation H chain_id s prop v tx parsed) as [s'| |] eqn:E; cbn; try reflexivity.
    unfold new_consolidation, rbind in E. des E.
    match goal with Hv : verify_proposal _ _ _ _ _ _ _ = Ok (?s1, ?q) |- _ => apply verify_proposal_sq in Hv; destruct Hv as [Hs ->] end.
    inversion E; subst. apply bump. exact Hs.
  - destruct (process_bridge_request s q) as [s'| |] eqn:E; cbn; try reflexivity.
    unfold process_bridge_request, rbind in E.
    destruct (fold_res bridge_rbf _ _) as [s3| |] eqn:E3; try discriminate.
    destruct (fold_res bridge_cancel1 _ _) as [s4| |] eqn:E4; try discriminate.
    inversion E; subst. cbn.
    apply (fold_res_sq bridge_cancel1) in E4.
    2:{ intros s0 b s1 Hb. unfold bridge_cancel1 in Hb. des Hb; inversion Hb; reflexivity. }
    apply (fold_res_sq bridge_rbf) in E3.
    2:{ intros s0 [i p] s1 Hb. unfold bridge_rbf in Hb. des Hb; inversion Hb; reflexivity. }
    unfold sq in *. cbn in *. rewrite E4, E3. cbn.
    pose proof (fold_left_sq bridge_withdraw) as Hw. unfold sq in Hw. apply Hw.
    intros s0 [[[[i a] p] ad] sc]. reflexivity.
  - destruct (dequeue_btc s) as [[s' t]| |] eqn:E; cbn; try reflexivity.
    unfold dequeue_btc in E. des E;
      repeat (match type of E with (match ?x with _ => _ end) = _ => destruct x end; try discriminate E);
      inversion E; reflexivity.
  - unfold process_relayer_request.
    assert (Ha : forall l s0, sq (fold_left (fun s r => relayer_add s height r) l s0) = sq s0).
    { apply fold_left_sq. intros s0 [[a st] kh]. unfold relayer_add. destruct (r_voter s0 !! a); reflexivity. }
    destruct removes; [apply Ha|]. rewrite relayer_removes_sq. apply Ha.
  - destruct (new_voter H chain_id s prop lengths_ok addr addr_raw k khash_raw txproof blsproof) as [s'| |] eqn:E; cbn; try reflexivity.
    unfold new_voter, rbind in E. des E;
    match goal with Hv : verify_non_proposal _ _ = Ok _ |- _ => apply verify_non_proposal_sq in Hv end;
    inversion E; subst; cbn; unfold sq in *; cbn in *; congruence.
  - destruct (accept_proposer s now prop epoch) as [s'| |] eqn:E; cbn; try reflexivity.
    unfold accept_proposer in E. des E. inversion E; reflexivity.
  - destruct (relayer_end_block H s now) as [s'| |] eqn:E; cbn; try reflexivity.
    unfold relayer_end_block in E. des E; inversion E; reflexivity.
Qed.

(* ---------- histories ---------- *)
Fixpoint accepted_count (s : bstate) (ops : list bop) : N :=
  match ops with
  | [] => 0
  | o :: r =>
    let '(s', (cls, _)) := bk_step H chain_id s o in
    (if is_voted o && (cls =? 0) then 1 else 0) + accepted_count s' r
  end.

Theorem seq_counts ops : forall s,
  r_seq (bk_run H chain_id s ops) = r_seq s + accepted_count s ops /\
  g_accepted_votes (bk_run H chain_id s ops) = g_accepted_votes s + accepted_count s ops.
Proof.
  unfold bk_run. induction ops as [|o r IH]; intros s; cbn [fold_left accepted_count]; [split; lia|].
  pose proof (bk_step_seq s o) as Hs.
  destruct (bk_step H chain_id s o) as [s' [cls t]] eqn:E. cbn [fst].
  destruct (IH s') as [I1 I2]. rewrite I1, I2. unfold sq in Hs.
  destruct (is_voted o && (cls =? 0)); inversion Hs as [[Ha Hb]]; rewrite Ha, Hb; split; lia.
Qed.

Corollary seq_monotone ops s : r_seq s <= r_seq (bk_run H chain_id s ops).
Proof. destruct (seq_counts ops s) as [E _]. rewrite E. lia. Qed.

(* a failed / rejected operation leaves the whole state as it was *)
Theorem failure_is_identity s o : fst (snd (bk_step H chain_id s o)) <> 0 -> fst (bk_step H chain_id s o) = s.
Proof.
  destruct o; cbn [bk_step]; unfold deliver_b;
    try (match goal with |- context [match ?r with Ok _ => _ | Err => _ | Panic => _ end] => destruct r as [x| |] end; cbn; congruence).
  - destruct (dequeue_btc s) as [[s' t]| |]; cbn; congruence.
  - cbn. congruence.
Qed.

(* a voted operation is accepted only with a vote for the current sequence, epoch and proposer *)
Definition vote_of (o : bop) : option (N * option vote * bytes * bytes) :=
  match o with
  | BHashes p v st hs => Some (p, v, m_newblocks, repeat 0 8 ++ le64 st ++ concat hs)
  | BPubkey p v (Some k) => Some (p, v, m_newpubkey, encode_key k)
  | BProcess p v tx _ ids fee => Some (p, v, m_process, concat (map le64 ids) ++ H tx ++ le64 fee)
  | BReplace p v pid tx _ fee => Some (p, v, m_replace, le64 pid ++ le64 fee ++ H tx)
  | BConsolidation p v tx _ => Some (p, v, m_consolidation, H tx)
  | _ => None
  end.

Theorem accepted_needs_verified_vote s o :
  is_voted o = true -> fst (snd (bk_step H chain_id s o)) = 0 ->
  exists p v m d s1 q, vote_of o = Some (p, Some v, m, d) /\ verify_proposal H chain_id s p v m d = Ok (s1, q).
Proof.
  destruct o; cbn [is_voted]; try discriminate; intros _; cbn [bk_step vote_of].
  - destruct (new_block_hashes H chain_id s prop v start hashes) as [s'| |] eqn:E; cbn; try discriminate. intros _.
    unfold new_block_hashes, rbind in E. des E. eauto 10.
  - destruct (new_pubkey H chain_id s prop v k) as [s'| |] eqn:E; cbn; try discriminate. intros _.
    unfold new_pubkey, rbind in E. des E. eauto 10.
  - destruct (process_withdrawal H chain_id s prop v tx parsed ids fee) as [s'| |] eqn:E; cbn; try discriminate. intros _.
    unfold process_withdrawal, rbind in E. des E. eauto 10.
  - destruct (replace_withdrawal H chain_id s prop v pid tx parsed fee) as [s'| |] eqn:E; cbn; try discriminate. intros _.
    unfold replace_withdrawal, rbind in E. des E. eauto 10.
  - destruct (new_consolidation H chain_id s prop v tx parsed) as [s'| |] eqn:E; cbn; try discriminate. intros _.
    unfold new_consolidation, rbind in E. des E. eauto 10.
Qed.

Lemma verify_needs_seq s p v m d s1 q : verify_proposal H chain_id s p v m d = Ok (s1, q) ->
  vo_seq v = r_seq s /\ vo_epoch v = r_epoch s /\ p = r_proposer s.
Proof.
  unfold verify_proposal, rbind. intros Hv. des Hv.
  repeat match goal with Hb : negb (_ =? _) = false |- _ => apply negb_false_iff, N.eqb_eq in Hb end. auto.
Qed.

(* single use: once a vote for sequence q has been accepted, no later state accepts a vote for q *)
Theorem no_replay s o ops o2 :
  is_voted o = true -> fst (snd (bk_step H chain_id s o)) = 0 ->
  is_voted o2 = true ->
  let s2 := bk_run H chain_id (fst (bk_step H chain_id s o)) ops in
  (exists p v m d, vote_of o2 = Some (p, Some v, m, d) /\ vo_seq v = r_seq s) ->
  fst (snd (bk_step H chain_id s2 o2)) <> 0.
Proof.
  intros Hv Hok Hv2 s2 (p & v & m & d & Ho2 & Hseq) Hacc.
  destruct (accepted_needs_verified_vote s2 o2 Hv2 Hacc) as (p' & v' & m' & d' & s1 & q & Ho2' & Hver).
  rewrite Ho2 in Ho2'. inversion Ho2'; subst.
  apply verify_needs_seq in Hver. destruct Hver as (Hs & _ & _).
  pose proof (bk_step_seq s o) as Hst. destruct (bk_step H chain_id s o) as [s' [cls t]] eqn:E.
  cbn [fst snd] in *. subst cls. rewrite Hv in Hst. cbn in Hst. unfold sq in Hst. inversion Hst as [[Ha Hb]].
  pose proof (seq_monotone ops s') as Hm. fold s2 in Hm. lia.
Qed.

End Seq.
