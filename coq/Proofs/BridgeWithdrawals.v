(* C05: withdrawals move only along the allowed edges; paid and cancelled are terminal. *)
From stdpp Require Import gmap sorting.
From Goat Require Import Base.Prelude Gen.Consts Model.Merkle Model.BtcParams Model.Bridge Proofs.BridgeSeq Proofs.BridgeFrames.
Local Open Scope N_scope.

Definition wd_status (s : bstate) (id : N) : N := match b_wd s !! id with Some w => w_status w | None => 0 end.

(* 0 absent, 1 pending, 2 processing, 3 cancel requested, 4 cancelled, 5 paid *)
Definition edge (b a : N) : Prop :=
  b = a \/ (b = 0 /\ a = 1) \/ (b = 0 /\ a = 4) \/ (b = 1 /\ a = 3) \/ (b = 1 /\ a = 2) \/
  (b = 3 /\ a = 2) \/ (b = 2 /\ a = 5) \/ (b = 3 /\ a = 4).

Lemma terminal_paid a : edge 5 a -> a = 5.
Proof. unfold edge. intros H. repeat (destruct H as [H|H]); try (destruct H; lia); lia. Qed.
Lemma terminal_cancelled a : edge 4 a -> a = 4.
Proof. unfold edge. intros H. repeat (destruct H as [H|H]); try (destruct H; lia); lia. Qed.

Lemma status_insert s id w pid pr id' :
  wd_status (set_wd s (<[id := w]> (b_wd s)) pid pr) id' = if decide (id' = id) then w_status w else wd_status s id'.
Proof.
  unfold wd_status. cbn. destruct (decide (id' = id)) as [->|Hne].
  - rewrite lookup_insert. reflexivity.
  - rewrite lookup_insert_ne by congruence. reflexivity.
Qed.

Section Wd.
Variable H : bytes -> bytes.
Variable chain_id : bytes.

(* loops: each touched id makes exactly one of the loop's moves, everything else is untouched *)
Definition rel_loop (from1 from2 to : N) (b a : N) : Prop := a = b \/ ((b = from1 \/ b = from2) /\ a = to /\ a <> b).

Lemma rel_loop_trans f1 f2 t x y z : t <> f1 -> t <> f2 -> rel_loop f1 f2 t x y -> rel_loop f1 f2 t y z -> rel_loop f1 f2 t x z.
Proof.
  unfold rel_loop. intros H1 H2 [Ha|(A & B & C)] [Hb|(D & E & F)].
  - left. congruence.
  - right. subst. auto.
  - right. subst. auto.
  - exfalso. subst. destruct D; congruence.
Qed.

Lemma process_loop_status ids : forall s txid fee len idx outs vals s' vals',
  process_loop s txid fee len idx ids outs vals = Ok (s', vals') ->
  forall id, rel_loop 1 3 2 (wd_status s id) (wd_status s' id).
Proof.
  induction ids as [|i r IH]; intros s txid fee len idx outs vals s' vals' Hl id; cbn in Hl.
  - inversion Hl; subst. left; reflexivity.
  - destruct (b_wd s !! i) as [w|] eqn:Ew; [|discriminate Hl].
    destruct (negb ((w_status w =? 1) || (w_status w =? 3))) eqn:Es; [discriminate Hl|].
    des Hl. apply IH with (id := id) in Hl.
    eapply rel_loop_trans; [| |  |exact Hl]; try lia.
    rewrite status_insert. destruct (decide (id = i)) as [->|]; [|left; reflexivity].
    unfold wd_status. rewrite Ew. cbn. right. lia.
Qed.

(* a successful processing run never touches an id that is already processing *)
Lemma process_loop_untouched ids : forall s txid fee len idx outs vals s' vals' wid w,
  process_loop s txid fee len idx ids outs vals = Ok (s', vals') ->
  b_wd s !! wid = Some w -> w_status w = 2 -> b_wd s' !! wid = Some w.
Proof.
  induction ids as [|i r IH]; intros s txid fee len idx outs vals s' vals' wid w Hl Hw Hs; cbn in Hl.
  - inversion Hl; subst. exact Hw.
  - destruct (b_wd s !! i) as [wi|] eqn:Ew; [|discriminate Hl].
    destruct (negb ((w_status wi =? 1) || (w_status wi =? 3))) eqn:Es; [discriminate Hl|].
    des Hl. eapply IH; [exact Hl | | exact Hs]. cbn.
    destruct (decide (wid = i)) as [->|Hne]; [|rewrite lookup_insert_ne by congruence; exact Hw].
    exfalso. rewrite Ew in Hw. inversion Hw; subst. lia.
Qed.

(* the terms under which each withdrawal of a successful processing run became processing *)
Lemma process_loop_terms ids : forall s txid fee len idx outs vals s' vals',
  process_loop s txid fee len idx ids outs vals = Ok (s', vals') ->
  forall k wid, nth_error ids k = Some wid ->
  exists w0 w', b_wd s !! wid = Some w0 /\ (w_status w0 = 1 \/ w_status w0 = 3) /\
    b_wd s' !! wid = Some w' /\ w_status w' = 2 /\
    let out := nth (N.to_nat (idx + N.of_nat k)) outs (0, []) in
    w_receipt w' = Some (mkRcpt txid (idx + N.of_nat k) (fst out)) /\
    w_script w0 = Some (snd out) /\ fst out <= w_amount w0 /\ fee <= w_price w0 * len /\
    w_amount w' = w_amount w0 /\ w_script w' = w_script w0 /\ w_price w' = w_price w0.
Proof.
  induction ids as [|i r IH]; intros s txid fee len idx outs vals s' vals' Hl k wid Hk; [destruct k; discriminate Hk|].
  cbn in Hl.
  destruct (b_wd s !! i) as [wi|] eqn:Ew; [|discriminate Hl].
  destruct (negb ((w_status wi =? 1) || (w_status wi =? 3))) eqn:Es; [discriminate Hl|].
  destruct (negb (w_price wi * len <? fee)) eqn:Ep; [|discriminate Hl].
  destruct (w_script wi) as [sc|] eqn:Esc; [|discriminate Hl].
  destruct (negb (beq_bytes sc (snd (nth (N.to_nat idx) outs (0, []))))) eqn:Eb; [discriminate Hl|].
  destruct (w_amount wi <? fst (nth (N.to_nat idx) outs (0, []))) eqn:Ea; [discriminate Hl|].
  destruct k as [|k]; cbn in Hk.
  - inversion Hk; subst wid.
    pose proof (process_loop_untouched _ _ _ _ _ _ _ _ _ _ i _ Hl (lookup_insert _ _ _) eq_refl) as Hfin.
    exists wi. eexists. split; [exact Ew|]. split; [lia|]. split; [exact Hfin|]. cbn.
    replace (idx + 0) with idx by lia. apply negb_false_iff, beq_bytes_eq in Eb. subst sc.
    repeat split; auto; lia.
  - destruct (IH _ _ _ _ _ _ _ _ _ Hl k wid Hk) as (w0 & w' & A & B & C & D & E).
    cbn in A. assert (wid <> i) as Hne.
    { intros ->. rewrite lookup_insert in A. inversion A; subst. cbn in B. lia. }
    rewrite lookup_insert_ne in A by congruence.
    exists w0, w'. split; [exact A|]. split; [exact B|]. split; [exact C|]. split; [exact D|].
    replace (idx + N.of_nat (S k)) with (idx + 1 + N.of_nat k) by lia. exact E.
Qed.

Lemma replace_loop_status ids : forall s txid fee len idx outs vals s' vals',
  replace_loop s txid fee len idx ids outs vals = Ok (s', vals') ->
  forall id, wd_status s' id = wd_status s id.
Proof.
  induction ids as [|i r IH]; intros s txid fee len idx outs vals s' vals' Hl id; cbn in Hl.
  - inversion Hl; subst. reflexivity.
  - destruct (b_wd s !! i) as [w|] eqn:Ew; [|discriminate Hl].
    destruct (w_receipt w) eqn:Er; [|discriminate Hl].
    destruct (negb (w_status w =? 2)) eqn:Es; [discriminate Hl|].
    des Hl. apply IH with (id := id) in Hl. rewrite Hl.
    rewrite status_insert. destruct (decide (id = i)) as [->|]; [|reflexivity].
    unfold wd_status. rewrite Ew. cbn. lia.
Qed.

Lemma finalize_loop_status ids : forall s txid idx vals paid s' paid',
  finalize_loop s txid idx ids vals paid = Ok (s', paid') ->
  forall id, rel_loop 2 2 5 (wd_status s id) (wd_status s' id).
Proof.
  induction ids as [|i r IH]; intros s txid idx vals paid s' paid' Hl id; cbn in Hl.
  - inversion Hl; subst. left; reflexivity.
  - destruct (b_wd s !! i) as [w|] eqn:Ew; [|discriminate Hl].
    destruct (negb (w_status w =? 2)) eqn:Es; [discriminate Hl|].
    des Hl. apply IH with (id := id) in Hl.
    eapply rel_loop_trans; [| | |exact Hl]; try lia.
    rewrite status_insert. destruct (decide (id = i)) as [->|]; [|left; reflexivity].
    unfold wd_status. rewrite Ew. cbn. right. lia.
Qed.

Lemma cancel_loop_status ids : forall s s', cancel_loop s ids = Ok s' ->
  forall id, rel_loop 3 3 4 (wd_status s id) (wd_status s' id).
Proof.
  induction ids as [|i r IH]; intros s s' Hl id; cbn in Hl.
  - inversion Hl; subst. left; reflexivity.
  - destruct (b_wd s !! i) as [w|] eqn:Ew; [|discriminate Hl].
    destruct (negb (w_status w =? 3)) eqn:Es; [discriminate Hl|].
    apply IH with (id := id) in Hl.
    eapply rel_loop_trans; [| | |exact Hl]; try lia.
    rewrite status_insert. destruct (decide (id = i)) as [->|]; [|left; reflexivity].
    unfold wd_status. rewrite Ew. cbn. right. lia.
Qed.

Lemma rel_loop_edge f1 f2 t b a : rel_loop f1 f2 t b a ->
  (f1 = 1 /\ f2 = 3 /\ t = 2) \/ (f1 = 2 /\ f2 = 2 /\ t = 5) \/ (f1 = 3 /\ f2 = 3 /\ t = 4) -> edge b a.
Proof. unfold rel_loop, edge. intros [->|(A & -> & _)] C; [auto|]. lia. Qed.

Lemma rel_loop_edge_c1 b a : rel_loop 1 1 3 b a -> edge b a.
Proof. unfold rel_loop, edge. intros [->|(A & -> & _)]; [auto|]. destruct A; subst; auto 10. Qed.

Lemma status_same_wd s s' : b_wd s' = b_wd s -> forall id, wd_status s' id = wd_status s id.
Proof. intros E id. unfold wd_status. rewrite E. reflexivity. Qed.

(* bridge requests: withdraw ids must be fresh (they come from the bridge contract's counter) *)
Definition fresh_withdraws (s : bstate) (q : breqs) : Prop :=
  NoDup (map (fun '(id, _, _, _, _) => id) (br_withdraws q)) /\
  forall id, In id (map (fun '(id, _, _, _, _) => id) (br_withdraws q)) -> b_wd s !! id = None.

Lemma withdraw_fold_status l : forall s,
  NoDup (map (fun '(id, _, _, _, _) => id) l) ->
  (forall id, In id (map (fun '(id, _, _, _, _) => id) l) -> b_wd s !! id = None) ->
  forall id, edge (wd_status s id) (wd_status (fold_left bridge_withdraw l s) id).
Proof.
  induction l as [|[[[[i a] p] ad] sc] r IH]; intros s ND Hf id; cbn [fold_left map] in *; [left; reflexivity|].
  inversion ND as [|? ? Hnin ND']; subst.
  assert (Hstep : edge (wd_status s id) (wd_status (bridge_withdraw s (i, a, p, ad, sc)) id)).
  { unfold bridge_withdraw. rewrite status_insert. destruct (decide (id = i)) as [->|]; [|left; reflexivity].
    unfold wd_status at 1. rewrite (Hf i (or_introl eq_refl)). cbn. unfold edge. destruct sc; cbn; auto 10. }
  specialize (IH (bridge_withdraw s (i, a, p, ad, sc)) ND').
  assert (Hf' : forall id0, In id0 (map (fun '(id1, _, _, _, _) => id1) r) -> b_wd (bridge_withdraw s (i, a, p, ad, sc)) !! id0 = None).
  { intros id0 Hin. unfold bridge_withdraw. cbn. rewrite lookup_insert_ne; [apply Hf; right; exact Hin|]. intros ->. apply Hnin. exact Hin. }
  specialize (IH Hf' id).
  (* compose: the first step touches only i, the rest never touches i again *)
  destruct (decide (id = i)) as [->|Hne].
  - assert (wd_status (fold_left bridge_withdraw r (bridge_withdraw s (i, a, p, ad, sc))) i = wd_status (bridge_withdraw s (i, a, p, ad, sc)) i) as ->; [|exact Hstep].
    clear IH Hstep Hf'. generalize (bridge_withdraw s (i, a, p, ad, sc)). revert Hnin. clear.
    induction r as [|[[[[i' a'] p'] ad'] sc'] r IHr]; intros Hnin s0; cbn [fold_left map] in *; [reflexivity|].
    rewrite IHr by (intros Hx; apply Hnin; right; exact Hx). unfold bridge_withdraw. rewrite status_insert.
    destruct (decide (i = i')); [subst; exfalso; apply Hnin; left; reflexivity | reflexivity].
  - assert (wd_status (bridge_withdraw s (i, a, p, ad, sc)) id = wd_status s id) as E.
    { unfold bridge_withdraw. rewrite status_insert. destruct (decide (id = i)); [congruence | reflexivity]. }
    rewrite E in IH. exact IH.
Qed.

Lemma rbf_status l : forall s s', fold_res bridge_rbf l s = Ok s' -> forall id, wd_status s' id = wd_status s id.
Proof.
  induction l as [|[i p] r IH]; intros s s' Hl id; cbn [fold_res] in Hl.
  - inversion Hl; reflexivity.
  - unfold rbind in Hl. destruct (bridge_rbf s (i, p)) as [s1| |] eqn:E; try discriminate Hl.
    rewrite (IH _ _ Hl id). unfold bridge_rbf in E. destruct (b_wd s !! i) as [w|] eqn:Ew; [|discriminate E].
    destruct ((w_status w =? 1) || (w_status w =? 2)); inversion E; subst; [|reflexivity].
    rewrite status_insert. destruct (decide (id = i)) as [->|]; [|reflexivity]. unfold wd_status. rewrite Ew. reflexivity.
Qed.

Lemma cancel1_status l : forall s s', fold_res bridge_cancel1 l s = Ok s' ->
  forall id, rel_loop 1 1 3 (wd_status s id) (wd_status s' id).
Proof.
  induction l as [|i r IH]; intros s s' Hl id; cbn [fold_res] in Hl.
  - inversion Hl; left; reflexivity.
  - unfold rbind in Hl. destruct (bridge_cancel1 s i) as [s1| |] eqn:E; try discriminate Hl.
    eapply rel_loop_trans; [| | |exact (IH _ _ Hl id)]; try lia.
    unfold bridge_cancel1 in E. destruct (b_wd s !! i) as [w|] eqn:Ew; [|discriminate E].
    destruct (w_status w =? 1) eqn:Es; inversion E; subst; [|left; reflexivity].
    rewrite status_insert. destruct (decide (id = i)) as [->|]; [|left; reflexivity].
    unfold wd_status. rewrite Ew. cbn. right. lia.
Qed.

Definition fresh_op (s : bstate) (o : bop) : Prop :=
  match o with BBridgeReq q => fresh_withdraws s q | _ => True end.

(* C05_edges: every operation moves every id along an allowed edge (or leaves it) *)
(* one operation moves an id along at most two consecutive edges (a request list may create a
   withdrawal and register its cancellation request at once) *)
Definition path (b a : N) : Prop := exists m, edge b m /\ edge m a.
Lemma edge_path b a : edge b a -> path b a.
Proof. intros E. exists a. split; [exact E | left; reflexivity]. Qed.

Theorem bk_step_edges s o : fresh_op s o -> forall id, path (wd_status s id) (wd_status (fst (bk_step H chain_id s o)) id).
Proof.
  intros Hfresh id.
  assert (Hrefl : forall x, path x x) by (intros x; apply edge_path; left; reflexivity).
  pose proof (wdp_frame H chain_id s o) as Hf.
  destruct o as [? ? ? ?|? ? ?|? ? ?|prop v tx parsed ids fee|prop v pid tx parsed fee|prop pid txid height txindex proof header|prop ids|? ? ? ?|q| |? ? ?|? ? ? ? ? ? ? ?|? ? ?|?];
    try (unfold wdp in Hf; match type of Hf with (?a, _, _) = _ => assert (Hw : a = b_wd s) by congruence end;
         rewrite (status_same_wd _ _ Hw); apply Hrefl); clear Hf; cbn [bk_step].
  - (* process *)
    destruct (process_withdrawal H chain_id s prop v tx parsed ids fee) as [s'| |] eqn:E; cbn; try apply Hrefl.
    unfold process_withdrawal, rbind in E. des E.
    match goal with Hv : verify_proposal _ _ _ _ _ _ _ = Ok (?b, _) |- _ =>
      pose proof (wdp_verify_proposal H chain_id _ _ _ _ _ _ _ Hv) as Hw; unfold wdp in Hw; match type of Hw with (?a, _, _) = (?b, _, _) => assert (Hw1 : a = b) by congruence end end.
    match goal with Hd : process_loop _ _ _ _ _ _ _ _ = Ok _ |- _ => pose proof (process_loop_status _ _ _ _ _ _ _ _ _ _ Hd id) as Hp end.
    inversion E; subst. cbn. rewrite (status_same_wd _ _ Hw1) in Hp.
    match type of Hp with rel_loop _ _ _ _ (wd_status ?b2 id) =>
      match goal with |- path _ (wd_status ?g id) => change (wd_status g id) with (wd_status b2 id) end end.
    apply edge_path. eapply rel_loop_edge; eauto.
  - destruct (replace_withdrawal H chain_id s prop v pid tx parsed fee) as [s'| |] eqn:E; cbn; try apply Hrefl.
    unfold replace_withdrawal, rbind in E. des E.
    match goal with Hv : verify_proposal _ _ _ _ _ _ _ = Ok (?b, _) |- _ =>
      pose proof (wdp_verify_proposal H chain_id _ _ _ _ _ _ _ Hv) as Hw; unfold wdp in Hw; match type of Hw with (?a, _, _) = (?b, _, _) => assert (Hw1 : a = b) by congruence end end.
    match goal with Hd : replace_loop _ _ _ _ _ _ _ _ = Ok _ |- _ => pose proof (replace_loop_status _ _ _ _ _ _ _ _ _ _ Hd id) as Hp end.
    inversion E; subst. cbn. rewrite (status_same_wd _ _ Hw1) in Hp.
    match type of Hp with wd_status ?b2 id = _ =>
      match goal with |- path _ (wd_status ?g id) => change (wd_status g id) with (wd_status b2 id) end end. rewrite Hp. apply Hrefl.
  - destruct (finalize_withdrawal H s prop pid txid height txindex proof header) as [s'| |] eqn:E; cbn; try apply Hrefl.
    unfold finalize_withdrawal, rbind in E. des E.
    match goal with Hv : verify_non_proposal _ _ = Ok ?b |- _ =>
      pose proof (wdp_verify_non_proposal _ _ _ Hv) as Hw; unfold wdp in Hw; match type of Hw with (?a, _, _) = (?b, _, _) => assert (Hw1 : a = b) by congruence end end.
    match goal with Hd : finalize_loop _ _ _ _ _ _ = Ok _ |- _ => pose proof (finalize_loop_status _ _ _ _ _ _ _ _ Hd id) as Hp end.
    inversion E; subst. cbn. rewrite (status_same_wd _ _ Hw1) in Hp.
    apply edge_path. eapply rel_loop_edge; [exact Hp | auto].
  - destruct (approve_cancellation s prop ids) as [s'| |] eqn:E; cbn; try apply Hrefl.
    unfold approve_cancellation, rbind in E. des E.
    match goal with Hv : verify_non_proposal _ _ = Ok ?b |- _ =>
      pose proof (wdp_verify_non_proposal _ _ _ Hv) as Hw; unfold wdp in Hw; match type of Hw with (?a, _, _) = (?b, _, _) => assert (Hw1 : a = b) by congruence end end.
    match goal with Hd : cancel_loop _ _ = Ok _ |- _ => pose proof (cancel_loop_status _ _ _ Hd id) as Hp end.
    inversion E; subst. cbn. rewrite (status_same_wd _ _ Hw1) in Hp.
    apply edge_path. eapply rel_loop_edge; [exact Hp | auto].
  - destruct (process_bridge_request s q) as [s'| |] eqn:E; cbn; try apply Hrefl.
    unfold process_bridge_request, rbind in E.
    destruct (fold_res bridge_rbf _ _) as [s3| |] eqn:E3; try discriminate E.
    destruct (fold_res bridge_cancel1 _ _) as [s4| |] eqn:E4; try discriminate E.
    inversion E; subst. cbn.
    pose proof (cancel1_status _ _ _ E4 id) as H4. pose proof (rbf_status _ _ _ E3 id) as H3.
    destruct Hfresh as [ND Hfr]. pose proof (withdraw_fold_status _ s ND Hfr id) as H1.
    assert (forall x, wd_status (set_bparams x (apply_preqs (b_params x) (br_params q))) id = wd_status x id) as -> by reflexivity.
    rewrite H3 in H4. cbn in H4.
    set (s1 := fold_left bridge_withdraw (br_withdraws q) s) in *.
    assert (forall a b c d e f g h, wd_status (set_queue s1 a b c d e f g) h = wd_status s1 h) as E1 by reflexivity.
    rewrite E1 in H4.
    exists (wd_status s1 id). split; [exact H1|]. eapply rel_loop_edge_c1; exact H4.
Qed.

(* consequence: once paid or cancelled, always so *)
Theorem terminal_forever ops : forall s id,
  (forall s0 o, fresh_op s0 o) ->
  (wd_status s id = 5 \/ wd_status s id = 4) -> wd_status (bk_run H chain_id s ops) id = wd_status s id.
Proof.
  unfold bk_run. induction ops as [|o r IH]; intros s id Hfr Hs; cbn [fold_left]; [reflexivity|].
  pose proof (bk_step_edges s o (Hfr s o) id) as (m & He1 & He2).
  assert (wd_status (fst (bk_step H chain_id s o)) id = wd_status s id) as E.
  { destruct Hs as [Hs|Hs]; rewrite Hs in He1 |- *.
    - apply terminal_paid in He1. subst m. apply terminal_paid. exact He2.
    - apply terminal_cancelled in He1. subst m. apply terminal_cancelled. exact He2. }
  rewrite IH; auto. rewrite E. exact Hs.
Qed.

End Wd.
