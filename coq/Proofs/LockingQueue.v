(* C06 / C15 (locking side): hand-over of rewards and matured unlocks is FIFO, capped, consecutively numbered. *)
From stdpp Require Import gmap sorting.
From Goat Require Import Base.Prelude Gen.Consts Model.Locking.
From Coq Require Import ZifyBool ZifyNat ZifyN.

Definition ltx_nonce (t : ltx) : N := match t with TxReward n _ | TxUnlock n _ => n end.

Lemma lnumber_from_length {A} (f : N -> A -> ltx) l : forall n, length (Locking.number_from f n l) = length l.
Proof. induction l; intros; cbn; auto. Qed.

Lemma lnumber_from_nonces {A} (f : N -> A -> ltx) (Hf : forall n x, ltx_nonce (f n x) = n) l : forall n,
  map ltx_nonce (Locking.number_from f n l) = map (fun i => (n + N.of_nat i)%N) (seq 0 (length l)).
Proof.
  induction l as [|x r IH]; intros n; cbn [Locking.number_from map length seq]; [reflexivity|].
  rewrite Hf, IH, <- seq_shift, map_map. f_equal; [lia|]. apply map_ext. intros i. lia.
Qed.

Theorem dequeue_txs_spec s :
  let cap := N.to_nat c_MaxLockingTx in
  let rs := firstn cap (l_q_rewards s) in let us := firstn cap (l_q_unlocks s) in
  let s' := fst (dequeue_txs s) in let txs := snd (dequeue_txs s) in
  txs = Locking.number_from TxReward (l_nonce s) rs ++ Locking.number_from TxUnlock (l_nonce s + N.of_nat (length rs))%N us /\
  l_q_rewards s = rs ++ l_q_rewards s' /\ l_q_unlocks s = us ++ l_q_unlocks s' /\
  l_nonce s' = (l_nonce s + N.of_nat (length txs))%N /\
  (length rs <= cap /\ length us <= cap)%nat /\
  l_unlockq s' = l_unlockq s /\ l_val s' = l_val s.
Proof.
  cbv zeta. unfold dequeue_txs. remember (N.to_nat c_MaxLockingTx) as cap eqn:Ecap. clear Ecap.
  destruct (l_q_rewards s) as [|r0 rq] eqn:Er; destruct (l_q_unlocks s) as [|u0 uq] eqn:Eu;
    cbn [fst snd l_q_rewards l_q_unlocks l_nonce l_unlockq l_val Locking.set_queue];
    rewrite ?Er, ?Eu, ?firstn_nil; cbn [Locking.number_from app length];
    rewrite ?app_length, ?lnumber_from_length, ?firstn_skipn, ?firstn_length;
    rewrite ?skipn_nil; cbn [length]; repeat split; try reflexivity; try lia.
Qed.
