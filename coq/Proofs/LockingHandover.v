(* C06 / C12 over histories, locking module: the two hand-over queues (claimed rewards, matured unlocks) are
   first-in-first-out conveyors: every operation other than the hand-over step only appends to them (claims to the
   reward queue, BeginBlocker's matured unlocks to the unlock queue), the hand-over step removes a prefix which is
   exactly what it delivers.  Hence, for every history:  delivered ++ still queued = initially queued ++ appended. *)
From stdpp Require Import gmap sorting.
From Goat Require Import Base.Prelude Gen.Consts Model.Locking Proofs.LockingUnlock Proofs.LockingQueue Proofs.LockingDerived Proofs.LockingQueueHistory.
From Coq Require Import ZifyBool ZifyN ZifyNat.
Local Open Scope Z_scope.

Module RQ.
Definition qs (s : lstate) : list reward := l_q_rewards s.

Ltac rap := unfold rank_add_pos; repeat match goal with |- context [if (0 <? ?p)%N then _ else _] => destruct (0 <? p)%N end; reflexivity.

(* ---- operations that do not touch the two queues ---- *)
Lemma q_fold {B} (f : lstate -> B -> res lstate) (l : list B) :
  (forall s b s', f s b = Ok s' -> qs s' = qs s) -> forall s s', fold_res f l s = Ok s' -> qs s' = qs s.
Proof.
  intros Hf. induction l as [|b r IH]; intros s s'; cbn [fold_res]; [intros [= <-]; reflexivity|].
  destruct (f s b) as [s1| |] eqn:E; cbn [rbind]; try discriminate. intros H. rewrite (IH _ _ H). eapply Hf; eauto.
Qed.
Lemma q_create s c d k s' : create_validator s c d k = Ok s' -> qs s' = qs s.
Proof.
  unfold create_validator. destruct (negb _); [discriminate|]. destruct (l_val s !! d); [intros [= <-]; reflexivity|].
  intros [= <-]. destruct (bool_decide _); reflexivity.
Qed.
Lemma q_create_all reqs : forall s s', create_all s reqs = Ok s' -> qs s' = qs s.
Proof.
  induction reqs as [|[[c d] k] r IH]; intros s s'; cbn [create_all]; [intros [= <-]; reflexivity|].
  destruct (create_validator s c d k) as [s1| |] eqn:E; cbn [rbind]; try discriminate.
  intros H. rewrite (IH _ _ H). eapply q_create; eauto.
Qed.
Lemma q_lock_one s now a coins s' : lock_one s now a coins = Ok s' -> qs s' = qs s.
Proof.
  unfold lock_one. destruct (l_val s !! a) as [v|]; [|discriminate].
  destruct (v_status v).
  - destruct (lock_power _ _ _); cbn [rbind]; try discriminate. intros [= <-]. unfold qs. rap.
  - destruct (lock_power _ _ _); cbn [rbind]; try discriminate. intros [= <-]. unfold qs. rap.
  - intros [= <-]. reflexivity.
  - destruct (_ && _).
    + destruct (lock_power _ _ _); cbn [rbind]; try discriminate. intros [= <-]. unfold qs. rap.
    + intros [= <-]. reflexivity.
  - intros [= <-]. reflexivity.
Qed.
Lemma q_lock_each now l : forall s s', lock_each s now l = Ok s' -> qs s' = qs s.
Proof.
  induction l as [|[a cs] r IH]; intros s s'; cbn [lock_each]; [intros [= <-]; reflexivity|].
  destruct (lock_one s now a _) as [s1| |] eqn:E; cbn [rbind]; try discriminate.
  intros H. rewrite (IH _ _ H). eapply q_lock_one; eauto.
Qed.
Lemma q_weight_walk prev cur es : forall s s', weight_walk s prev cur es = Ok s' -> qs s' = qs s.
Proof.
  induction es as [|[a amt] r IH]; intros s s'; cbn [weight_walk]; [intros [= <-]; reflexivity|].
  destruct (l_val s !! a) as [v|]; [|discriminate].
  destruct (negb (fits64 _)); [destruct (prev <? cur)%N; discriminate|].
  intros H. rewrite (IH _ _ H). unfold qs. rap.
Qed.
Lemma q_update_weight s t w s' : update_weight s t w = Ok s' -> qs s' = qs s.
Proof.
  unfold update_weight. destruct (_ =? _)%N; cbn [rbind]; [intros [= <-]; reflexivity|].
  destruct (weight_walk _ _ _ _) as [s1| |] eqn:W; cbn [rbind]; try discriminate.
  intros [= <-]. change (qs (set_tok s1 _)) with (qs s1). eapply q_weight_walk; eauto.
Qed.
Lemma q_update_threshold s t th s' : update_threshold s t th = Ok s' -> qs s' = qs s.
Proof. unfold update_threshold. destruct (l_tok s !! t); [|discriminate]. destruct (_ =? _); intros [= <-]; reflexivity. Qed.
Lemma q_update_tokens s ws ths s' : update_tokens s ws ths = Ok s' -> qs s' = qs s.
Proof.
  unfold update_tokens. destruct (fold_res _ ws s) as [s1| |] eqn:E; cbn [rbind]; try discriminate.
  intros H. rewrite (q_fold (fun s '(t, th) => update_threshold s t th) ths) with (s := s1) (s' := s'); [| |exact H].
  - eapply (q_fold (fun s '(t, w) => update_weight s t w)); [|exact E]. intros x [t w] y. apply q_update_weight.
  - intros x [t th] y. apply q_update_threshold.
Qed.
Lemma q_pool s h gas grants s' : update_reward_pool s h gas grants = Ok s' -> qs s' = qs s.
Proof. unfold update_reward_pool. destruct gas as [|g [|]]; try discriminate. intros [= <-]. reflexivity. Qed.
Lemma q_distribute gas goat total votes : forall s remg remr s' g r,
  distribute s gas goat total remg remr votes = Ok (s', g, r) -> qs s' = qs s.
Proof.
  induction votes as [|[a p] vs IH]; intros s remg remr s' g r; cbn [distribute]; [intros [= <- _ _]; reflexivity|].
  destruct (l_val s !! a) as [v|]; [|discriminate]. intros H. rewrite (IH _ _ _ _ _ _ H). reflexivity.
Qed.
Lemma q_distribute_reward s h votes s' : distribute_reward s h votes = Ok s' -> qs s' = qs s.
Proof.
  unfold distribute_reward. destruct (h <? 2); [intros [= <-]; reflexivity|].
  destruct (_ =? 0); [discriminate|].
  destruct (distribute _ _ _ _ _ _ _) as [[[s1 g] r]| |] eqn:E; cbn [rbind]; try discriminate.
  intros [= <-]. change (qs (set_pool s1 _ _ _ _ _)) with (qs s1). eapply q_distribute; eauto.
Qed.
Lemma q_slash a frac l : forall acc, qs (fst (fold_left (slash_step a frac) l acc)) = qs (fst acc).
Proof. induction l as [|x l IH]; intros acc; cbn [fold_left]; [reflexivity|]. rewrite IH. reflexivity. Qed.
Lemma q_handle_vote s now a absent s' : handle_vote s now a absent = Ok s' -> qs s' = qs s.
Proof.
  unfold handle_vote. destruct (l_val s !! a) as [v|]; [|discriminate].
  destruct (negb _); [intros [= <-]; reflexivity|].
  destruct (_ >=? lp_window _); cbn zeta; destruct (_ >=? lp_max_missed _); try (intros [= <-]; reflexivity).
  all: unfold slash_holdings; match goal with |- context [fold_left ?f ?l ?acc] => pose proof (q_slash a (lp_slash_down (l_params s)) l acc) as P; destruct (fold_left f l acc) as [s2 h'] end;
       intros [= <-]; cbn in *; exact P.
Qed.
Lemma q_handle_evidence s now h lim e s' : handle_evidence s now h lim e = Ok s' -> qs s' = qs s.
Proof.
  destruct e as [[[a et] eh] counted]. unfold handle_evidence.
  destruct (negb counted); [intros [= <-]; reflexivity|].
  destruct (evidence_expired _ _ _ _ _); [intros [= <-]; reflexivity|].
  destruct (l_val s !! a) as [v|]; [|discriminate].
  destruct (bool_decide _); [intros [= <-]; reflexivity|].
  unfold slash_holdings; match goal with |- context [fold_left ?f ?l ?acc] => pose proof (q_slash a (lp_slash_double (l_params s)) l acc) as P; destruct (fold_left f l acc) as [s2 h'] end.
  intros [= <-]; cbn in *; exact P.
Qed.
Lemma q_end_walk r : forall s last ups count s' last' ups', end_walk s last ups count r = Ok (s', last', ups') -> qs s' = qs s.
Proof.
  induction r as [|[p a] r IH]; intros s last ups count s' last' ups'; cbn [end_walk]; [intros [= <- _ _]; reflexivity|].
  destruct (count >=? _); [intros [= <- _ _]; reflexivity|].
  destruct (l_val s !! a) as [v|]; [|discriminate]. destruct (v_status v); try discriminate.
  - destruct (last !! a); [discriminate|]. intros H. rewrite (IH _ _ _ _ _ _ _ H). reflexivity.
  - destruct (_ =? _)%N; intros H; rewrite (IH _ _ _ _ _ _ _ H); reflexivity.
Qed.
Lemma q_end_remove l : forall s ups s' ups', end_remove s ups l = Ok (s', ups') -> qs s' = qs s.
Proof.
  induction l as [|a l IH]; intros s ups s' ups'; cbn [end_remove]; [intros [= <- _]; reflexivity|].
  destruct (l_val s !! a) as [v|]; [|discriminate]. intros H. rewrite (IH _ _ _ _ H). destruct (bool_decide _); reflexivity.
Qed.
Lemma q_end_block s s' ups : end_block s = Ok (s', ups) -> qs s' = qs s.
Proof.
  unfold end_block. destruct (end_walk _ _ _ _ _) as [[[s1 rest] u1]| |] eqn:W; cbn [rbind]; try discriminate.
  intros H. rewrite (q_end_remove _ _ _ _ _ H). eapply q_end_walk; eauto.
Qed.

(* unlock requests leave the reward queue alone *)
Lemma q_unlock_one s now id a rc t req s' : unlock_one s now id a rc t req = Ok s' -> qs s' = qs s.
Proof.
  unfold unlock_one. destruct (l_val s !! a) as [v|]; [|discriminate]. cbn [l_tok rank_remove set_rank].
  destruct (l_tok s !! t) as [tk|]; [|discriminate]. cbv zeta.
  destruct (_ && negb (fits64 _)); [discriminate|].
  destruct (_ || _).
  - intros [= <-]. reflexivity.
  - destruct (in_ranking_status _); intros [= <-]; unfold qs; try rap; reflexivity.
Qed.
Lemma q_unlock_all now reqs : forall s s', unlock_all s now reqs = Ok s' -> qs s' = qs s.
Proof.
  induction reqs as [|[[[[id a] rc] t] amt] r IH]; intros s s'; cbn [unlock_all]; [intros [= <-]; reflexivity|].
  destruct (unlock_one s now id a rc t amt) as [s1| |] eqn:E; cbn [rbind]; try discriminate.
  intros H. rewrite (IH _ _ H). eapply q_unlock_one; eauto.
Qed.
(* a claim appends one entry *)
Lemma claim_appends s r s' : claim_one s r = Ok s' -> exists e, qs s' = qs s ++ [e].
Proof. destruct r as [[id a] rc]. unfold claim_one. destruct (l_val s !! a); [|discriminate]. intros [= <-]. eexists. reflexivity. Qed.
Lemma claims_append l : forall s s', fold_res claim_one l s = Ok s' -> exists a, qs s' = qs s ++ a.
Proof.
  induction l as [|r l IH]; intros s s'; cbn [fold_res]; [intros [= <-]; exists []; rewrite app_nil_r; reflexivity|].
  destruct (claim_one s r) as [s1| |] eqn:E; cbn [rbind]; try discriminate. intros H.
  destruct (claim_appends _ _ _ E) as (e & E1). destruct (IH _ _ H) as (a & E2).
  exists (e :: a). rewrite E2, E1, <- app_assoc. reflexivity.
Qed.

Theorem requests_append s now h q s' : process_requests s now h q = Ok s' -> exists a, l_q_rewards s' = l_q_rewards s ++ a.
Proof.
  unfold process_requests.
  destruct (update_reward_pool _ _ _ _) as [s1| |] eqn:E1; cbn [rbind]; try discriminate.
  destruct (update_tokens _ _ _) as [s2| |] eqn:E2; cbn [rbind]; try discriminate.
  destruct (create_all _ _) as [s3| |] eqn:E3; cbn [rbind]; try discriminate.
  destruct (lock_all _ _ _) as [s4| |] eqn:E4; cbn [rbind]; try discriminate.
  destruct (unlock_all _ _ _) as [s5| |] eqn:E5; cbn [rbind]; try discriminate.
  intros H. destruct (claims_append _ _ _ H) as (a & Ha). exists a. unfold qs in Ha. rewrite Ha.
  unfold lock_all in E4.
  pose proof (q_unlock_all _ _ _ _ E5) as Q5. pose proof (q_lock_each _ _ _ _ E4) as Q4. pose proof (q_create_all _ _ _ E3) as Q3.
  pose proof (q_update_tokens _ _ _ _ E2) as Q2. pose proof (q_pool _ _ _ _ _ E1) as Q1. unfold qs in *. congruence.
Qed.
Theorem begin_keeps s now h lim votes evs s' : begin_block s now h lim votes evs = Ok s' -> l_q_rewards s' = l_q_rewards s.
Proof.
  unfold begin_block. destruct (distribute_reward _ _ _) as [s1| |] eqn:E1; cbn [rbind]; try discriminate.
  destruct (fold_res _ votes _) as [s3| |] eqn:E3; cbn [rbind]; try discriminate.
  intros H.
  pose proof (q_fold (fun s e => handle_evidence s now h lim e) evs (fun x e y => q_handle_evidence x now h lim e y) _ _ H) as A.
  assert (B : qs s3 = qs (dequeue_mature s1 now)).
  { eapply (q_fold (fun s '(a, _, f) => handle_vote s now a f)); [|exact E3]. intros x [[a p] f] y. apply q_handle_vote. }
  pose proof (q_distribute_reward _ _ _ _ E1) as D.
  destruct (dequeue_mature_spec s1 now) as (_ & _ & _ & _ & _ & M). cbv zeta in M. unfold qs in *. congruence.
Qed.
Theorem end_keeps s s' ups : end_block s = Ok (s', ups) -> l_q_rewards s' = l_q_rewards s.
Proof. exact (q_end_block s s' ups). Qed.
End RQ.

(* ---------------------------------------------------------------- conservation over histories *)
Definition del_rw (txs : list ltx) : list reward := flat_map (fun t => match t with TxReward _ r => [r] | _ => [] end) txs.
Definition del_ul (txs : list ltx) : list unlock := flat_map (fun t => match t with TxUnlock _ u => [u] | _ => [] end) txs.
Lemma del_number_rw l : forall n, del_rw (Locking.number_from TxReward n l) = l /\ del_ul (Locking.number_from TxReward n l) = [].
Proof. induction l as [|x l IH]; intros n; cbn; [auto|]. destruct (IH (n + 1)%N) as (A & B). unfold del_rw, del_ul in *. cbn. rewrite A, B. auto. Qed.
Lemma del_number_ul l : forall n, del_rw (Locking.number_from TxUnlock n l) = [] /\ del_ul (Locking.number_from TxUnlock n l) = l.
Proof. induction l as [|x l IH]; intros n; cbn; [auto|]. destruct (IH (n + 1)%N) as (A & B). unfold del_rw, del_ul in *. cbn. rewrite A, B. auto. Qed.

(* the hand-over step removes from the front of both queues exactly what it delivers *)
Theorem dequeue_delivers_prefix s :
  l_q_rewards s = del_rw (snd (dequeue_txs s)) ++ l_q_rewards (fst (dequeue_txs s)) /\
  l_q_unlocks s = del_ul (snd (dequeue_txs s)) ++ l_q_unlocks (fst (dequeue_txs s)).
Proof.
  destruct (dequeue_txs_spec s) as (Ht & Hr & Hu & _). cbv zeta in *.
  set (rs := firstn (N.to_nat c_MaxLockingTx) (l_q_rewards s)) in *. set (us := firstn (N.to_nat c_MaxLockingTx) (l_q_unlocks s)) in *.
  rewrite Ht. unfold del_rw, del_ul. rewrite !flat_map_app.
  destruct (del_number_rw rs (l_nonce s)) as (A1 & A2). destruct (del_number_ul us (l_nonce s + N.of_nat (length rs))%N) as (B1 & B2).
  unfold del_rw, del_ul in *. rewrite A1, A2, B1, B2. cbn [app]. rewrite app_nil_r. split; assumption.
Qed.

(* every other operation only appends *)
Theorem step_appends s o : o <> KDequeue ->
  (exists a, l_q_rewards (fst (lk_step s o)) = l_q_rewards s ++ a) /\ (exists a, l_q_unlocks (fst (lk_step s o)) = l_q_unlocks s ++ a) /\
  snd (snd (lk_step s o)) = [].
Proof.
  intros Hno. pose proof (queue_evolution s o) as Q. cbv zeta in Q.
  destruct o; try contradiction; cbn [lk_step] in *; unfold deliver in *.
  - destruct (begin_block s now height limits votes evs) as [x| |] eqn:E; cbn [fst snd] in *.
    + split; [exists []; rewrite app_nil_r; eapply RQ.begin_keeps; eauto|]. split; [|reflexivity].
      destruct Q as [->|(Q1 & _)]; [exists []; rewrite app_nil_r; reflexivity|eexists; exact Q1].
    + repeat split; try (exists []; rewrite app_nil_r; reflexivity).
    + repeat split; try (exists []; rewrite app_nil_r; reflexivity).
  - destruct (process_requests s now height q) as [x| |] eqn:E; cbn [fst snd] in *.
    + split; [eapply RQ.requests_append; eauto|]. split; [|reflexivity]. destruct Q as [_ Q2]. exists []. rewrite app_nil_r. exact Q2.
    + repeat split; try (exists []; rewrite app_nil_r; reflexivity).
    + repeat split; try (exists []; rewrite app_nil_r; reflexivity).
  - destruct (end_block s) as [[x u]| |] eqn:E; cbn [fst snd] in *.
    + split; [exists []; rewrite app_nil_r; eapply RQ.end_keeps; eauto|]. split; [|reflexivity]. destruct Q as [_ Q2]. exists []. rewrite app_nil_r. exact Q2.
    + repeat split; try (exists []; rewrite app_nil_r; reflexivity).
    + repeat split; try (exists []; rewrite app_nil_r; reflexivity).
  - cbn. repeat split; try (exists []; rewrite app_nil_r; reflexivity).
Qed.

Lemma lkop_eq_dequeue o : o = KDequeue \/ o <> KDequeue.
Proof. destruct o; (left; reflexivity) || (right; discriminate). Qed.

Fixpoint lcollect (s : lstate) (ops : list lkop) : lstate * list ltx :=
  match ops with
  | [] => (s, [])
  | o :: r => let '(s1, (_, _, t)) := lk_step s o in let '(s2, ts) := lcollect s1 r in (s2, t ++ ts)
  end.

Theorem locking_handover_conservation ops : forall s,
  let '(s', txs) := lcollect s ops in
  (exists a, del_rw txs ++ l_q_rewards s' = l_q_rewards s ++ a) /\
  (exists a, del_ul txs ++ l_q_unlocks s' = l_q_unlocks s ++ a).
Proof.
  induction ops as [|o r IH]; intros s; cbn [lcollect].
  - cbn. split; exists []; rewrite app_nil_r; reflexivity.
  - destruct (lk_step s o) as [s1 [[c u] t]] eqn:Es. specialize (IH s1). destruct (lcollect s1 r) as [s2 ts].
    destruct IH as ((a1 & I1) & (a2 & I2)).
    assert (Hstep : (exists b, del_rw t ++ l_q_rewards s1 = l_q_rewards s ++ b) /\ (exists b, del_ul t ++ l_q_unlocks s1 = l_q_unlocks s ++ b)).
    { destruct (lkop_eq_dequeue o) as [->|Hno].
      - pose proof (dequeue_delivers_prefix s) as (D1 & D2). cbn [lk_step] in Es. destruct (dequeue_txs s) as [x tt]. inversion Es; subst. cbn [fst snd] in *.
        split; exists []; rewrite app_nil_r; symmetry; assumption.
      - destruct (step_appends s o Hno) as ((b1 & B1) & (b2 & B2) & Ht). rewrite Es in *. cbn [fst snd] in *. subst t. cbn. split; eexists; eassumption. }
    destruct Hstep as ((b1 & S1) & (b2 & S2)).
    unfold del_rw, del_ul in *. rewrite !flat_map_app. split.
    + exists (b1 ++ a1). rewrite <- app_assoc, I1, app_assoc, S1, <- app_assoc. reflexivity.
    + exists (b2 ++ a2). rewrite <- app_assoc, I2, app_assoc, S2, <- app_assoc. reflexivity.
Qed.
