(* C16: joining needs possession proofs; elections happen exactly when due; members change only at elections. *)
From stdpp Require Import gmap sorting.
From Goat Require Import Base.Prelude Gen.Consts Model.Merkle Model.BtcParams Model.Bridge Proofs.BridgeSeq Proofs.BridgeFrames.
From Coq Require Import ZifyBool ZifyNat ZifyN.
Local Open Scope N_scope.

Section Rel.
Variable H : bytes -> bytes.
Variable chain_id : bytes.

(* a voter record becomes on-/off-boarding only through a registration by the current proposer that
   carries both possession proofs over the sign-doc bound to this chain, the current epoch, the
   proposer, the registration height, the voter address and the registered key hash *)
Theorem new_voter_sound s prop lok addr araw k kraw txp blsp s' :
  new_voter H chain_id s prop lok addr araw k kraw txp blsp = Ok s' ->
  lok = true /\ prop = r_proposer s /\
  exists vt, r_voter s !! addr = Some vt /\ vt_status vt = 1 /\ vt_key vt = VKHash k /\
    let doc := vote_sign_doc H chain_id m_newvoter (default [] (r_book s !! prop)) 0 (r_epoch s)
                 (le64 (vt_height vt) ++ araw ++ kraw) in
    txp = Some (addr, doc) /\ blsp = Some (k, doc) /\
    (* the group itself is untouched: the new voter takes part in quorums only after an election *)
    r_proposer s' = r_proposer s /\ r_voters s' = r_voters s /\ r_epoch s' = r_epoch s /\
    exists vt', r_voter s' !! addr = Some vt' /\ vt_key vt' = VKKey k /\
      ((vt_status vt' = 2 /\ r_on s' = r_on s ++ [addr] /\ r_off s' = r_off s) \/
       (vt_status vt' = 3 /\ r_off s' = r_off s ++ [addr] /\ r_on s' = r_on s)).
Proof.
  unfold new_voter, rbind. intros Hn.
  destruct lok; [|discriminate Hn]. cbn [negb] in Hn.
  destruct (verify_non_proposal s prop) as [s1| |] eqn:Ev; try discriminate Hn.
  unfold verify_non_proposal in Ev. destruct (negb (prop =? r_proposer s)) eqn:Ep; [discriminate Ev|].
  inversion Ev; subst s1; clear Ev. apply negb_false_iff, N.eqb_eq in Ep. subst prop.
  cbn [r_voter set_accepted set_rel r_book r_epoch r_accounts r_on r_off] in Hn.
  destruct (r_voter s !! addr) as [vt|] eqn:Evt; [|discriminate Hn].
  destruct (negb (vt_status vt =? 1)) eqn:Es; [discriminate Hn|].
  destruct (negb (bool_decide (vt_key vt = VKHash k))) eqn:Ek; [discriminate Hn|].
  destruct txp as [[tsigner tmsg]|]; [|discriminate Hn].
  destruct (negb ((tsigner =? addr) && beq_bytes tmsg _)) eqn:Et; [discriminate Hn|].
  destruct blsp as [[bsigner bmsg]|]; [|discriminate Hn].
  destruct (negb ((bsigner =? k) && beq_bytes bmsg _)) eqn:Eb; [discriminate Hn|].
  apply negb_false_iff in Es, Ek, Et, Eb. apply N.eqb_eq in Es. apply bool_decide_eq_true in Ek.
  apply andb_true_iff in Et, Eb. destruct Et as [Et1 Et2], Eb as [Eb1 Eb2].
  apply N.eqb_eq in Et1, Eb1. apply beq_bytes_eq in Et2, Eb2. subst.
  split; [reflexivity|]. split; [reflexivity|]. exists vt. split; [reflexivity|]. split; [exact Es|]. split; [exact Ek|].
  cbv zeta. split; [reflexivity|]. split; [reflexivity|].
  destruct (bool_decide (addr ∈ r_accounts s)); inversion Hn; subst; cbn;
    (split; [reflexivity|]; split; [reflexivity|]; split; [reflexivity|]; eexists; rewrite lookup_insert; split; [reflexivity|]; split; [reflexivity|]); [right | left]; auto.
Qed.

(* elections: the epoch increments (by exactly one) exactly when the electing period has elapsed or
   the proposer failed to accept within a non-zero timeout; otherwise the state is unchanged *)
Definition election_due (s : bstate) (now : Z) : bool :=
  let dur := (now - r_last s)%Z in
  negb ((dur <? rp_period (r_params s))%Z
        && (r_accepted s || (rp_timeout (r_params s) =? 0)%Z || (dur <? rp_timeout (r_params s))%Z)).

Theorem end_block_election s now s' : relayer_end_block H s now = Ok s' ->
  if election_due s now then r_epoch s' = r_epoch s + 1 /\ r_last s' = now else s' = s.
Proof.
  unfold relayer_end_block, election_due. cbv zeta.
  destruct ((now - r_last s <? rp_period (r_params s))%Z
            && (r_accepted s || (rp_timeout (r_params s) =? 0)%Z || (now - r_last s <? rp_timeout (r_params s))%Z)) eqn:Ec;
    cbn [negb]; intros He; [inversion He; reflexivity|].
  des He; inversion He; subst; cbn; split; reflexivity.
Qed.

(* outside elections and registrations the membership never changes: every operation other than the
   end-of-block election, a voter registration and an add/remove request list leaves proposer, voters,
   epoch, voter records and both boarding queues untouched *)
Theorem membership_frame s o :
  match o with BRelayerReq _ _ _ | BNewVoter _ _ _ _ _ _ _ _ | BEnd _ => True
  | _ => grp (fst (bk_step H chain_id s o)) = grp s end.
Proof. exact (grp_frame H chain_id s o). Qed.

(* add/remove requests never touch the member list itself (only records and queues) *)
Lemma relayer_removes_members l : forall s active,
  r_proposer (relayer_removes s active l) = r_proposer s /\ r_voters (relayer_removes s active l) = r_voters s /\
  r_epoch (relayer_removes s active l) = r_epoch s.
Proof.
  induction l as [|a r IH]; intros s active; cbn; [auto|].
  destruct (r_voter s !! a); [|apply IH]. destruct (negb _); [apply IH|].
  destruct (_ <? _)%Z; [auto|]. destruct (IH (set_voters s (<[a:=mkVoter (vt_key v) 3 (vt_height v)]> (r_voter s)) (r_on s) (r_off s ++ [a]) (r_accounts s) (r_book s)) (active - 1)%Z) as (A & B & C).
  rewrite A, B, C. auto.
Qed.

Theorem relayer_request_members s h adds rms :
  let s' := process_relayer_request s h adds rms in
  r_proposer s' = r_proposer s /\ r_voters s' = r_voters s /\ r_epoch s' = r_epoch s.
Proof.
  cbv zeta. unfold process_relayer_request.
  assert (Ha : forall l s0, let s1 := fold_left (fun s r => relayer_add s h r) l s0 in
             r_proposer s1 = r_proposer s0 /\ r_voters s1 = r_voters s0 /\ r_epoch s1 = r_epoch s0).
  { induction l as [|[[a st] kh] l IH]; intros s0; cbn [fold_left]; [auto|].
    destruct (IH (relayer_add s0 h (a, st, kh))) as (A & B & C). cbv zeta. rewrite A, B, C.
    unfold relayer_add. destruct (r_voter s0 !! a); auto. }
  destruct rms; [apply Ha|].
  destruct (relayer_removes_members (n :: rms) (fold_left (fun s r => relayer_add s h r) adds s)
             (Z.of_nat (length (r_voters (fold_left (fun s r => relayer_add s h r) adds s))) + 1 -
              Z.of_nat (length (r_off (fold_left (fun s r => relayer_add s h r) adds s))))%Z) as (A & B & C).
  destruct (Ha adds s) as (A' & B' & C'). rewrite A, B, C. auto.
Qed.

(* the removal loop keeps at least one member that is not queued for removal: it stops as soon as the
   count of remaining active members would drop below one *)
Lemma relayer_removes_budget l : forall s active,
  (Z.of_nat (length (r_off (relayer_removes s active l))) - Z.of_nat (length (r_off s)) <= Z.max 0 (active - 1))%Z.
Proof.
  induction l as [|a r IH]; intros s active; cbn; [lia|].
  destruct (r_voter s !! a); [|apply IH]. destruct (negb _); [apply IH|].
  destruct (active - 1 <? 1)%Z eqn:E; [lia|].
  specialize (IH (set_voters s (<[a:=mkVoter (vt_key v) 3 (vt_height v)]> (r_voter s)) (r_on s) (r_off s ++ [a]) (r_accounts s) (r_book s)) (active - 1)%Z).
  cbn [r_off set_voters] in IH. rewrite app_length in IH. cbn [length] in IH. lia.
Qed.

Theorem removals_never_empty s h adds rms :
  let s' := process_relayer_request s h adds rms in
  (length (r_off s) <= length (r_voters s))%nat ->
  (length (r_off s') <= length (r_voters s'))%nat.
Proof.
  cbv zeta. intros Hle. destruct (relayer_request_members s h adds rms) as (_ & Hv & _). cbv zeta in Hv. rewrite Hv.
  unfold process_relayer_request.
  assert (Ha : forall l s0, r_off (fold_left (fun s r => relayer_add s h r) l s0) = r_off s0 /\
                            r_voters (fold_left (fun s r => relayer_add s h r) l s0) = r_voters s0).
  { induction l as [|[[a st] kh] l IH]; intros s0; cbn [fold_left]; [auto|].
    destruct (IH (relayer_add s0 h (a, st, kh))) as (A & B). rewrite A, B.
    unfold relayer_add. destruct (r_voter s0 !! a); auto. }
  destruct (Ha adds s) as (Ho & Hvv).
  destruct rms as [|x rms]; [rewrite Ho; exact Hle|].
  pose proof (relayer_removes_budget (x :: rms) (fold_left (fun s r => relayer_add s h r) adds s)
               (Z.of_nat (length (r_voters (fold_left (fun s r => relayer_add s h r) adds s))) + 1 -
                Z.of_nat (length (r_off (fold_left (fun s r => relayer_add s h r) adds s))))%Z) as Hb.
  rewrite ?Ho, ?Hvv in Hb |- *. lia.
Qed.

End Rel.
