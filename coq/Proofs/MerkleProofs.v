From Goat Require Import Base.Prelude Model.Merkle.
From Coq Require Import ZifyBool ZifyNat ZifyN.
Ltac Zify.zify_post_hook ::= Z.div_mod_to_equations.

(* ---------- chunking ---------- *)
Lemma chunks_spec n : forall l fuel, length l = (32 * n)%nat -> (n <= fuel)%nat ->
  length (chunks fuel 32 l) = n /\ Forall (fun c => length c = 32%nat) (chunks fuel 32 l)
  /\ concat (chunks fuel 32 l) = l.
Proof.
  induction n as [|n IH]; intros l fuel Hl Hf.
  - destruct l; [|cbn in Hl; lia]. destruct fuel; cbn; auto.
  - destruct fuel as [|f]; [lia|].
    destruct l as [|x l']; [cbn in Hl; lia|].
    cbn [chunks].
    assert (Hs : length (skipn 32 (x :: l')) = (32 * n)%nat) by (rewrite skipn_length; lia).
    destruct (IH (skipn 32 (x :: l')) f Hs ltac:(lia)) as (A & B & C).
    split; [cbn [length]; lia|]. split.
    + constructor; [rewrite firstn_length; lia | exact B].
    + cbn [concat]. rewrite C. apply firstn_skipn.
Qed.

Lemma concat_chunks_id (p : list bytes) fuel :
  Forall (fun c => length c = 32%nat) p -> (length p <= fuel)%nat ->
  chunks fuel 32 (concat p) = p.
Proof.
  revert fuel; induction p as [|c p IH]; intros fuel HF Hf.
  - destruct fuel; reflexivity.
  - inversion HF as [|? ? Hc HF']; subst. destruct fuel as [|f]; [cbn in Hf; lia|].
    cbn [concat chunks].
    destruct (c ++ concat p) eqn:E.
    + destruct c; [cbn in Hc; lia | discriminate].
    + rewrite <- E. rewrite firstn_app, skipn_app, Hc.
      replace (32 - 32)%nat with 0%nat by lia. rewrite firstn_O, skipn_O.
      rewrite firstn_all2 by lia. rewrite skipn_all2 by lia.
      rewrite app_nil_r. cbn [app]. f_equal. apply IH; [exact HF' | cbn in Hf; lia].
Qed.

Lemma concat_len32 (p : list bytes) :
  Forall (fun c => length c = 32%nat) p -> length (concat p) = (32 * length p)%nat.
Proof.
  induction p as [|c p IH]; intros HF; cbn [concat length]; [reflexivity|].
  inversion HF; subst. rewrite app_length, IH by assumption. lia.
Qed.

Section Proofs.
Variable H2 : bytes -> bytes.

Definition Collision : Prop := exists x y : bytes, x <> y /\ H2 x = H2 y.

Notation fold_path := (fold_path H2).
Notation step_up := (step_up H2).
Notation hash := (hash H2).

Lemma fold_path_snd path : forall cur idx,
  snd (fold_path cur path idx) = idx / 2 ^ N.of_nat (length path).
Proof.
  induction path as [|s r IH]; intros cur idx; cbn [Merkle.fold_path length].
  - cbn. rewrite N.div_1_r. reflexivity.
  - rewrite IH. rewrite Nat2N.inj_succ, N.pow_succ_r', N.div_div by lia. reflexivity.
Qed.

Lemma fold_path_app p q : forall cur idx,
  fold_path cur (p ++ q) idx =
  fold_path (fst (fold_path cur p idx)) q (snd (fold_path cur p idx)).
Proof.
  induction p as [|s r IH]; intros cur idx; cbn [Merkle.fold_path app]; [reflexivity|].
  apply IH.
Qed.

(* ---------- C04_spec ---------- *)
Lemma verify_spec txid root proof index :
  verify H2 txid root proof index = true <->
  length txid = 32%nat /\ length root = 32%nat /\ (length proof mod 32 = 0)%nat /\
  fst (fold_path txid (path_of proof) index) = root /\
  index < 2 ^ N.of_nat (length proof / 32).
Proof.
  unfold verify.
  destruct (N.of_nat (length txid) =? 32) eqn:E1; cbn [andb negb].
  2:{ split; [discriminate|]. intros (A & _). lia. }
  destruct (N.of_nat (length root) =? 32) eqn:E2; cbn [andb negb].
  2:{ split; [discriminate|]. intros (_ & A & _). lia. }
  destruct (N.of_nat (length proof) mod 32 =? 0) eqn:E3; cbn [andb negb].
  2:{ split; [discriminate|]. intros (_ & _ & A & _). lia. }
  assert (Hn : length proof = (32 * (length proof / 32))%nat) by lia.
  destruct (chunks_spec (length proof / 32) proof (length proof) Hn ltac:(lia)) as (HL & _ & _).
  fold (path_of proof) in HL.
  pose proof (fold_path_snd (path_of proof) txid index) as Hs.
  destruct (fold_path txid (path_of proof) index) as [cur idx] eqn:EF. cbn [fst snd] in *.
  rewrite HL in Hs.
  rewrite andb_true_iff, beq_bytes_eq, N.eqb_eq.
  assert (Hpow : 0 < 2 ^ N.of_nat (length proof / 32)) by (apply N.neq_0_lt_0, N.pow_nonzero; lia).
  split.
  - intros [Hz Hr]. subst idx. apply N.div_small_iff in Hz; [|lia].
    repeat split; try lia; auto.
  - intros (_ & _ & _ & Hr & Hi). split; [|exact Hr].
    subst idx. apply N.div_small; exact Hi.
Qed.

(* unfixed variant: characterisation WITHOUT the position bound (what the pre-repair code
   decided); used to show the missing bound is exactly the defect. *)
Lemma verify_unfixed_spec txid root proof index :
  verify_unfixed H2 txid root proof index = true <->
  length txid = 32%nat /\ length root = 32%nat /\ (length proof mod 32 = 0)%nat /\
  fst (fold_path txid (path_of proof) index) = root.
Proof.
  unfold verify_unfixed.
  destruct (N.of_nat (length txid) =? 32) eqn:E1; cbn [andb negb].
  2:{ split; [discriminate|]. intros (A & _). lia. }
  destruct (N.of_nat (length root) =? 32) eqn:E2; cbn [andb negb].
  2:{ split; [discriminate|]. intros (_ & A & _). lia. }
  destruct (N.of_nat (length proof) mod 32 =? 0) eqn:E3; cbn [andb negb].
  2:{ split; [discriminate|]. intros (_ & _ & A & _). lia. }
  destruct (fold_path txid (path_of proof) index) as [cur idx] eqn:EF. cbn [fst].
  rewrite beq_bytes_eq. split; [intros; repeat split; auto; lia | tauto].
Qed.

Hypothesis H2_len : forall x, length (H2 x) = 32%nat.

Lemma step_up_len c s i : length (step_up c s i) = 32%nat.
Proof. unfold Merkle.step_up. destruct (N.even i); apply H2_len. Qed.

Lemma fold_path_len path : forall cur idx, length cur = 32%nat ->
  length (fst (fold_path cur path idx)) = 32%nat.
Proof.
  induction path as [|s r IH]; intros cur idx Hc; cbn [Merkle.fold_path]; [exact Hc|].
  apply IH, step_up_len.
Qed.

(* ---------- trees ---------- *)
Lemma hash_len d : forall t, complete d t -> length (hash t) = 32%nat.
Proof.
  destruct d; intros [h|l r]; cbn; try tauto; intros; apply H2_len.
Qed.

Lemma subtree_complete k : forall d t idx, complete d t -> (k <= d)%nat ->
  complete (d - k) (subtree t k idx).
Proof.
  induction k as [|k IH]; intros d t idx Hc Hk; cbn [subtree].
  - replace (d - 0)%nat with d by lia. exact Hc.
  - destruct d as [|d]; [lia|]. destruct t as [h|l r]; cbn in Hc; [tauto|].
    destruct Hc as [Hl Hr]. cbn [Nat.sub].
    destruct (N.testbit idx (N.of_nat k)); apply IH; auto; lia.
Qed.

Lemma testbit_half idx k : N.testbit (idx / 2) (N.of_nat k) = N.testbit idx (N.of_nat (S k)).
Proof. rewrite <- N.div2_div, N.div2_spec, N.shiftr_spec' . f_equal. lia. Qed.

Lemma subtree_step k : forall d t idx, complete d t -> (S k <= d)%nat ->
  subtree t (S k) idx =
  match subtree t k (idx / 2) with
  | Node l r => if N.even idx then l else r
  | Leaf h => Leaf h
  end.
Proof.
  induction k as [|k IH]; intros d t idx Hc Hk.
  - destruct d as [|d]; [lia|]. destruct t as [h|l r]; cbn in Hc; [tauto|].
    cbn [subtree]. change (N.of_nat 0) with 0. rewrite N.bit0_odd, <- N.negb_even.
    destruct (N.even idx); reflexivity.
  - destruct d as [|d]; [lia|]. destruct t as [h|l r]; cbn in Hc; [tauto|].
    destruct Hc as [Hl Hr].
    change (subtree (Node l r) (S (S k)) idx) with
      (subtree (if N.testbit idx (N.of_nat (S k)) then r else l) (S k) idx).
    change (subtree (Node l r) (S k) (idx / 2)) with
      (subtree (if N.testbit (idx / 2) (N.of_nat k) then r else l) k (idx / 2)).
    rewrite testbit_half.
    destruct (N.testbit idx (N.of_nat (S k))); apply (IH d); auto; lia.
Qed.

Lemma app_eq_len (a b c e : bytes) : length a = length c -> a ++ b = c ++ e -> a = c /\ b = e.
Proof.
  revert c; induction a as [|x a IH]; intros [|y c] Hl E; cbn in *; try lia; auto.
  inversion E; subst. destruct (IH c ltac:(lia) H1) as [-> ->]. auto.
Qed.

Lemma bytes_eq_dec (a b : bytes) : {a = b} + {a <> b}.
Proof. apply list_eq_dec, N.eq_dec. Qed.

(* ---------- C04_binding ---------- *)
Lemma binding path : forall cur idx d t,
  complete d t -> (length path <= d)%nat ->
  Forall (fun c => length c = 32%nat) path -> length cur = 32%nat ->
  fst (fold_path cur path idx) = hash t ->
  hash (subtree t (length path) idx) = cur \/ Collision.
Proof.
  induction path as [|s r IH]; intros cur idx d t Hc Hk HF Hcur Hfold.
  - cbn in *. left. symmetry. exact Hfold.
  - inversion HF as [|? ? Hs HF']; subst. cbn [length] in *. cbn [Merkle.fold_path] in Hfold.
    destruct (IH (step_up cur s idx) (idx / 2) d t Hc ltac:(lia) HF' (step_up_len _ _ _) Hfold)
      as [Hh | Hcol]; [|right; exact Hcol].
    rewrite (subtree_step (length r) d t idx Hc Hk).
    pose proof (subtree_complete (length r) d t (idx / 2) Hc ltac:(lia)) as Hsc.
    destruct (subtree t (length r) (idx / 2)) as [h|l r0] eqn:Est.
    + destruct (d - length r)%nat eqn:Ed; [lia | cbn in Hsc; tauto].
    + destruct (d - length r)%nat as [|d'] eqn:Ed; [cbn in Hsc; tauto|].
      cbn in Hsc. destruct Hsc as [Hl Hr].
      cbn [Merkle.hash] in Hh. unfold Merkle.step_up in Hh.
      pose proof (hash_len d' l Hl) as Hll. pose proof (hash_len d' r0 Hr) as Hlr.
      destruct (N.even idx).
      * destruct (bytes_eq_dec (hash l ++ hash r0) (cur ++ s)) as [E|NE].
        -- left. apply app_eq_len in E; [tauto | congruence].
        -- right. exists (hash l ++ hash r0), (cur ++ s). auto.
      * destruct (bytes_eq_dec (hash l ++ hash r0) (s ++ cur)) as [E|NE].
        -- left. apply app_eq_len in E; [tauto | congruence].
        -- right. exists (hash l ++ hash r0), (s ++ cur). auto.
Qed.

Theorem verify_binding txid proof index d t :
  complete d t -> (length proof / 32 <= d)%nat ->
  verify H2 txid (hash t) proof index = true ->
  hash (subtree t (length proof / 32) index) = txid \/ Collision.
Proof.
  intros Hc Hk Hv. apply verify_spec in Hv. destruct Hv as (Ht & _ & Hm & Hf & _).
  assert (Hn : length proof = (32 * (length proof / 32))%nat) by lia.
  destruct (chunks_spec (length proof / 32) proof (length proof) Hn ltac:(lia)) as (HL & HF & _).
  fold (path_of proof) in HL, HF. rewrite <- HL.
  apply (binding (path_of proof) txid index d t); auto. exact (eq_ind _ (fun n => (n <= d)%nat) Hk _ (eq_sym HL)).
Qed.

(* full-depth corollary: a leaf is proven only at a position it occupies *)
Definition leaf_at (t : tree) (d : nat) (i : N) : bytes := hash (subtree t d i).

Corollary verify_full_depth txid proof index d t :
  complete d t -> (length proof / 32 = d)%nat ->
  verify H2 txid (hash t) proof index = true ->
  leaf_at t d index = txid \/ Collision.
Proof. intros Hc Hk Hv. unfold leaf_at. rewrite <- Hk. apply verify_binding with (d := d); auto; lia. Qed.

Corollary first_leaf_only_at_zero proof index d t :
  complete d t -> (length proof / 32 = d)%nat ->
  verify H2 (leaf_at t d 0) (hash t) proof index = true ->
  leaf_at t d index = leaf_at t d 0 \/ Collision.
Proof. apply verify_full_depth. Qed.

(* ---------- C04_complete ---------- *)
Lemma testbit_even_div i k : N.even (i / 2 ^ N.of_nat k) = negb (N.testbit i (N.of_nat k)).
Proof. rewrite N.testbit_odd, N.shiftr_div_pow2, <- N.negb_even, negb_involutive. reflexivity. Qed.

Lemma proof_of_length d : forall t i, complete d t -> length (proof_of H2 t d i) = d.
Proof.
  induction d as [|d IH]; intros t i Hc; cbn [proof_of]; [reflexivity|].
  destruct t as [h|l r]; cbn in Hc; [tauto|]. destruct Hc.
  destruct (N.testbit i (N.of_nat d)); rewrite app_length, IH; cbn; auto; lia.
Qed.

Lemma proof_of_len32 d : forall t i, complete d t ->
  Forall (fun c => length c = 32%nat) (proof_of H2 t d i).
Proof.
  induction d as [|d IH]; intros t i Hc; cbn [proof_of]; [constructor|].
  destruct t as [h|l r]; cbn in Hc; [tauto|]. destruct Hc as [Hl Hr].
  destruct (N.testbit i (N.of_nat d)); apply Forall_app; split; auto;
    constructor; auto; eapply hash_len; eauto.
Qed.

Lemma fold_proof_of d : forall t i, complete d t ->
  fst (fold_path (hash (subtree t d i)) (proof_of H2 t d i) i) = hash t.
Proof.
  induction d as [|d IH]; intros t i Hc; [reflexivity|].
  destruct t as [h|l r]; cbn in Hc; [tauto|]. destruct Hc as [Hl Hr].
  cbn [subtree proof_of].
  destruct (N.testbit i (N.of_nat d)) eqn:Eb; rewrite fold_path_app;
    cbn [Merkle.fold_path fst]; rewrite fold_path_snd, proof_of_length by assumption;
    unfold Merkle.step_up; rewrite testbit_even_div, Eb; cbn [negb];
    rewrite IH by assumption; reflexivity.
Qed.

Theorem genuine_proof_accepted d t i :
  complete d t -> i < 2 ^ N.of_nat d ->
  verify H2 (leaf_at t d i) (hash t) (concat (proof_of H2 t d i)) i = true.
Proof.
  intros Hc Hi. apply verify_spec.
  pose proof (proof_of_length d t i Hc) as HL.
  pose proof (proof_of_len32 d t i Hc) as HF.
  assert (Hcl : length (concat (proof_of H2 t d i)) = (32 * d)%nat).
  { rewrite (concat_len32 _ HF), HL. reflexivity. }
  unfold leaf_at. repeat split.
  - apply (hash_len (d - d)). apply subtree_complete; auto.
  - eapply hash_len; eauto.
  - rewrite Hcl. lia.
  - unfold path_of. rewrite concat_chunks_id; auto; [apply fold_proof_of; auto|].
    rewrite Hcl, HL. lia.
  - rewrite Hcl. replace (32 * d / 32)%nat with d by lia. exact Hi.
Qed.

End Proofs.
