From Goat Require Import Base.Prelude Gen.Consts Model.BtcParams.
From Coq Require Import ZifyBool ZifyNat ZifyN.
Ltac Zify.zify_post_hook ::= Z.div_mod_to_equations.

(* facts about the generated constants the proofs rely on; re-checked whenever Consts.v changes *)
Lemma consts_ok : 0 < c_MaxTaxBP /\ 546 < c_DustTxoutAmount.
Proof. unfold c_MaxTaxBP, c_DustTxoutAmount. lia. Qed.

Lemma apply_tax_safe p r : params_safe p -> params_safe (apply_tax p r).
Proof.
  destruct r as [rate cap]. unfold params_safe, apply_tax; cbn.
  intros (A & B & C). destruct (rate <? c_MaxTaxBP) eqn:E; repeat split; auto; lia.
Qed.
Lemma apply_conf_safe p n : params_safe p -> params_safe (apply_conf p n).
Proof.
  unfold params_safe, apply_conf. intros (A & B & C).
  destruct (n =? 0) eqn:E; cbn; repeat split; auto; lia.
Qed.
Lemma apply_min_safe p s : params_safe p -> params_safe (apply_min p s).
Proof.
  unfold params_safe, apply_min. intros (A & B & C).
  destruct (c_DustTxoutAmount <? s) eqn:E; cbn; repeat split; auto; lia.
Qed.

Lemma fold_safe {A} (f : bparams -> A -> bparams) (H : forall p a, params_safe p -> params_safe (f p a)) :
  forall l p, params_safe p -> params_safe (fold_left f l p).
Proof. induction l as [|a l IH]; cbn; intros p Hp; auto. Qed.

Lemma apply_preqs_safe p r : params_safe p -> params_safe (apply_preqs p r).
Proof.
  intros Hp. unfold apply_preqs.
  apply (fold_safe _ apply_min_safe), (fold_safe _ apply_conf_safe), (fold_safe _ apply_tax_safe), Hp.
Qed.

Theorem history_safe : forall (h : list preqs) p, params_safe p -> params_safe (fold_left apply_preqs h p).
Proof. exact (fold_safe _ apply_preqs_safe). Qed.

(* once updated by a request, the minimum is strictly above the dust limit *)
Lemma apply_min_strict p s : bp_min (apply_min p s) <> bp_min p -> c_DustTxoutAmount < bp_min (apply_min p s).
Proof. unfold apply_min. destruct (c_DustTxoutAmount <? s) eqn:E; cbn [bp_min]; [lia | congruence]. Qed.

Lemma tax_le p v : bp_rate p < c_MaxTaxBP -> tax_of p v <= v / c_MaxTaxBP * bp_rate p.
Proof.
  intros Hr. unfold tax_of.
  destruct ((0 <? bp_rate p) && (c_MaxTaxBP <? v)); [|apply N.le_0_l].
  remember (v / c_MaxTaxBP * bp_rate p) as t.
  destruct ((0 <? bp_cap p) && (bp_cap p <? t)) eqn:E; lia.
Qed.

Theorem safe_consequences p v : params_safe p -> bp_min p <= v ->
  tax_of p v < v /\ 0 < v - tax_of p v /\ 546 < v.
Proof.
  intros (A & B & C) Hv. pose proof consts_ok as [K1 K2].
  pose proof (tax_le p v A) as Ht.
  pose proof (N.mul_div_le v c_MaxTaxBP ltac:(lia)) as Hd.
  remember (v / c_MaxTaxBP) as q.
  assert (Hq : q * bp_rate p < v).
  { destruct (N.eq_dec q 0) as [E|E].
    - rewrite E. lia.
    - assert (q * bp_rate p < q * c_MaxTaxBP) by (apply N.mul_lt_mono_pos_l; lia). lia. }
  repeat split; lia.
Qed.

(* the uint64 computation in the code cannot wrap: the intermediate product is below the value *)
Lemma tax_no_wrap p v : bp_rate p < c_MaxTaxBP -> v < two64 -> v / c_MaxTaxBP * bp_rate p < two64.
Proof.
  intros A Hv. pose proof consts_ok as [K1 _].
  pose proof (N.mul_div_le v c_MaxTaxBP ltac:(lia)) as Hd.
  remember (v / c_MaxTaxBP) as q.
  assert (q * bp_rate p <= q * c_MaxTaxBP) by (apply N.mul_le_mono_l; lia). lia.
Qed.
