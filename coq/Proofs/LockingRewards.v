(* C12: reward conservation, emission schedule, distribution bound, claim-once. *)
From stdpp Require Import gmap sorting.
From Goat Require Import Base.Prelude Gen.Consts Model.Locking.
From Coq Require Import ZifyBool.
Local Open Scope Z_scope.

Definition total_rew (m : gmap N validator) : Z :=
  map_fold (fun _ v acc => v_reward v + v_gas v + acc) 0 m.

Lemma total_rew_insert_new m a v : m !! a = None ->
  total_rew (<[a := v]> m) = v_reward v + v_gas v + total_rew m.
Proof. intros H. unfold total_rew. rewrite map_fold_insert_L; auto. intros; lia. Qed.

Lemma total_rew_insert m a v v' : m !! a = Some v ->
  total_rew (<[a := v']> m) = total_rew m - (v_reward v + v_gas v) + (v_reward v' + v_gas v').
Proof.
  intros H. rewrite <- (insert_delete m a v H) at 2. rewrite <- (insert_delete_insert m a v').
  rewrite !total_rew_insert_new by apply lookup_delete. lia.
Qed.

Lemma insert_same_rew m a v v' : m !! a = Some v -> v_reward v' = v_reward v -> v_gas v' = v_gas v ->
  total_rew (<[a := v']> m) = total_rew m.
Proof. intros H E1 E2. rewrite (total_rew_insert m a v v' H), E1, E2. lia. Qed.

(* the reward ledger: c is the value present at genesis *)
Definition reward_ok (c : Z) (s : lstate) : Prop :=
  c + g_granted s + g_gas_in s = l_remain s + l_goat s + l_gasp s + total_rew (l_val s) + g_claimed s.

(* pointwise: existing validators keep their accrued rewards, new ones start at zero, none disappears *)
Definition rew_pt (m m' : gmap N validator) : Prop :=
  (forall a v', m' !! a = Some v' ->
     match m !! a with
     | Some v => v_reward v' = v_reward v /\ v_gas v' = v_gas v /\ (v_status v = Tombstoned -> v_status v' = Tombstoned)
     | None => v_reward v' = 0 /\ v_gas v' = 0
     end) /\
  (forall a v, m !! a = Some v -> is_Some (m' !! a)).

Lemma rew_pt_refl m : rew_pt m m.
Proof. split; [intros a v' H; rewrite H; auto | intros a v H; rewrite H; eauto]. Qed.

Lemma rew_pt_trans m1 m2 m3 : rew_pt m1 m2 -> rew_pt m2 m3 -> rew_pt m1 m3.
Proof.
  intros [A1 D1] [A2 D2]. split.
  - intros a v3 H3. specialize (A2 a v3 H3).
    destruct (m2 !! a) as [v2|] eqn:E2.
    + specialize (A1 a v2 E2). destruct (m1 !! a).
      * destruct A1 as (? & ? & ?), A2 as (? & ? & ?). repeat split; try congruence; auto.
      * destruct A1, A2 as (? & ? & ?). split; congruence.
    + destruct (m1 !! a) as [v1|] eqn:E1; [|exact A2].
      destruct (D1 a v1 E1) as [x Hx]. congruence.
  - intros a v1 H1. destruct (D1 a v1 H1) as [v2 H2]. eapply D2; eauto.
Qed.

Lemma rew_pt_insert m a v v' : m !! a = Some v -> v_reward v' = v_reward v -> v_gas v' = v_gas v ->
  (v_status v = Tombstoned -> v_status v' = Tombstoned) ->
  rew_pt m (<[a := v']> m).
Proof.
  intros Ev R1 R2 R3. split.
  - intros b w H. destruct (decide (b = a)) as [->|Hne].
    + rewrite lookup_insert in H. inversion H; subst. rewrite Ev. auto.
    + rewrite lookup_insert_ne in H by congruence. rewrite H. auto.
  - intros b w H. destruct (decide (b = a)) as [->|Hne].
    + rewrite lookup_insert. eauto.
    + rewrite lookup_insert_ne by congruence. rewrite H. eauto.
Qed.

Definition rew_same (s s' : lstate) : Prop :=
  total_rew (l_val s') = total_rew (l_val s) /\
  l_remain s' = l_remain s /\ l_goat s' = l_goat s /\ l_gasp s' = l_gasp s /\
  g_granted s' = g_granted s /\ g_gas_in s' = g_gas_in s /\ g_claimed s' = g_claimed s /\
  rew_pt (l_val s) (l_val s') /\ l_params s' = l_params s.

Lemma rew_same_ok c s s' : rew_same s s' -> reward_ok c s -> reward_ok c s'.
Proof. unfold reward_ok. intros (A & B & C & D & E & F & G & _ & _) H. rewrite A, B, C, D, E, F, G. exact H. Qed.
Lemma rew_same_refl s : rew_same s s.
Proof. repeat split; try apply rew_pt_refl. Qed.
Lemma rew_same_trans s1 s2 s3 : rew_same s1 s2 -> rew_same s2 s3 -> rew_same s1 s3.
Proof.
  unfold rew_same. intros (A & B & C & D & E & F & G & P & Q) (A' & B' & C' & D' & E' & F' & G' & P' & Q').
  repeat match goal with |- _ /\ _ => split end; try congruence. eapply rew_pt_trans; eauto.
Qed.

(* a state change that leaves the validator map itself alone *)
Lemma rew_same_noval s s' :
  l_val s' = l_val s -> l_remain s' = l_remain s -> l_goat s' = l_goat s -> l_gasp s' = l_gasp s ->
  g_granted s' = g_granted s -> g_gas_in s' = g_gas_in s -> g_claimed s' = g_claimed s ->
  l_params s' = l_params s -> rew_same s s'.
Proof. intros A ? ? ? ? ? ? ?. unfold rew_same. rewrite A. repeat match goal with |- _ /\ _ => split end; auto. apply rew_pt_refl. Qed.
Ltac noval := apply rew_same_noval; reflexivity.

(* updating one validator without touching its rewards, everything else projected identically *)
Lemma rew_same_upd s s' a v v' :
  l_val s !! a = Some v -> l_val s' = <[a := v']> (l_val s) ->
  v_reward v' = v_reward v -> v_gas v' = v_gas v -> (v_status v = Tombstoned -> v_status v' = Tombstoned) ->
  l_remain s' = l_remain s -> l_goat s' = l_goat s -> l_gasp s' = l_gasp s ->
  g_granted s' = g_granted s -> g_gas_in s' = g_gas_in s -> g_claimed s' = g_claimed s ->
  l_params s' = l_params s -> rew_same s s'.
Proof.
  intros Ev A R1 R2 R3 ? ? ? ? ? ? ?. unfold rew_same. rewrite A.
  repeat match goal with |- _ /\ _ => split end; auto.
  - eapply insert_same_rew; eauto.
  - eapply rew_pt_insert; eauto.
Qed.

Ltac tomb_side := first [ reflexivity | (intros Htomb; cbn; first [exact Htomb | congruence | (rewrite Htomb; reflexivity)]) ].
Ltac upd_same Ev := eapply rew_same_upd; [exact Ev | reflexivity | reflexivity | reflexivity | tomb_side | reflexivity ..].

Lemma create_validator_rs s c d k s' : create_validator s c d k = Ok s' -> rew_same s s'.
Proof.
  unfold create_validator. destruct (negb (c =? d)%N); [discriminate|].
  destruct (l_val s !! d) eqn:E; intros H; inversion H; subst; [apply rew_same_refl|].
  assert (P : rew_pt (l_val s) (<[d := mkVal k 0 ∅ 0 0 (if bool_decide (d ∈ l_accounts s) then Inactive else Pending) 0 0 0]> (l_val s))).
  { split.
    - intros b w Hb. destruct (decide (b = d)) as [->|Hne].
      + rewrite lookup_insert in Hb. inversion Hb; subst. rewrite E. cbn. auto.
      + rewrite lookup_insert_ne in Hb by congruence. rewrite Hb. auto.
    - intros b w Hb. destruct (decide (b = d)) as [->|Hne]; [congruence|]. rewrite lookup_insert_ne by congruence. rewrite Hb. eauto. }
  destruct (bool_decide (d ∈ l_accounts s)); unfold rew_same; cbn;
    (repeat match goal with |- _ /\ _ => split end; auto; rewrite total_rew_insert_new by assumption; cbn; lia).
Qed.

Lemma fold_res_rs {B} (f : lstate -> B -> res lstate) (Hf : forall s b s', f s b = Ok s' -> rew_same s s') :
  forall l s s', fold_res f l s = Ok s' -> rew_same s s'.
Proof.
  induction l as [|b r IH]; intros s s' H; cbn in H.
  - inversion H; apply rew_same_refl.
  - destruct (f s b) eqn:E; cbn in H; try discriminate.
    eapply rew_same_trans; [eapply Hf; eauto | eapply IH; eauto].
Qed.

Lemma create_all_rs reqs : forall s s', create_all s reqs = Ok s' -> rew_same s s'.
Proof.
  induction reqs as [|[[c d] k] r IH]; intros s s' H; cbn in H.
  - inversion H; apply rew_same_refl.
  - destruct (create_validator s c d k) eqn:E; cbn in H; try discriminate.
    eapply rew_same_trans; [eapply create_validator_rs; eauto | eapply IH; eauto].
Qed.

Lemma lock_one_rs s now a coins s' : lock_one s now a coins = Ok s' -> rew_same s s'.
Proof.
  unfold lock_one. destruct (l_val s !! a) as [v|] eqn:Ev; [|discriminate]. intros H.
  destruct (v_status v) eqn:Est.
  - destruct (lock_power _ coins (v_power v)) as [p'| |] eqn:Ep; cbn in H; try discriminate.
    inversion H; subst. unfold rank_add_pos. destruct (0 <? p')%N; upd_same Ev.
  - destruct (lock_power _ coins (v_power v)) as [p'| |] eqn:Ep; cbn in H; try discriminate.
    inversion H; subst. unfold rank_add_pos. destruct (0 <? p')%N; upd_same Ev.
  - inversion H; subst. upd_same Ev.
  - match type of H with (if ?c then _ else _) = _ => destruct c end.
    + destruct (lock_power _ _ (v_power v)) as [p'| |] eqn:Ep; cbn in H; try discriminate.
      inversion H; subst. unfold rank_add_pos. destruct (0 <? p')%N; upd_same Ev.
    + inversion H; subst. upd_same Ev.
  - inversion H; subst. upd_same Ev.
Qed.

Lemma lock_each_rs l : forall s now s', lock_each s now l = Ok s' -> rew_same s s'.
Proof.
  induction l as [|[a cs] r IH]; intros s now s' H; cbn in H.
  - inversion H; apply rew_same_refl.
  - destruct (lock_one s now a (nonzero_coins cs)) eqn:E; cbn in H; try discriminate.
    eapply rew_same_trans; [eapply lock_one_rs; eauto | eapply IH; eauto].
Qed.

Lemma unlock_one_rs s now id a rc t req s' : unlock_one s now id a rc t req = Ok s' -> rew_same s s'.
Proof.
  unfold unlock_one. destruct (l_val s !! a) as [v|] eqn:Ev; [|discriminate].
  cbn [l_tok rank_remove set_rank].
  destruct (l_tok s !! t) as [tk|] eqn:Et; [|discriminate]. intros H.
  match type of H with (if ?c then _ else _) = _ => destruct c; [discriminate|] end.
  match type of H with context [if ?c then _ else _] => destruct c eqn:Eexit end.
  - inversion H; subst. upd_same Ev.
  - destruct (in_ranking_status (v_status v)); inversion H; subst.
    + unfold rank_add_pos. match goal with |- context [if ?c then _ else _] => destruct c end; upd_same Ev.
    + upd_same Ev.
Qed.

Lemma unlock_all_rs reqs : forall s now s', unlock_all s now reqs = Ok s' -> rew_same s s'.
Proof.
  induction reqs as [|[[[[id a] rc] t] amt] r IH]; intros s now s' H; cbn in H.
  - inversion H; apply rew_same_refl.
  - destruct (unlock_one s now id a rc t amt) eqn:E; cbn in H; try discriminate.
    eapply rew_same_trans; [eapply unlock_one_rs; eauto | eapply IH; eauto].
Qed.

Lemma weight_walk_rs es : forall s prev cur s', weight_walk s prev cur es = Ok s' -> rew_same s s'.
Proof.
  induction es as [|[a amt] r IH]; intros s prev cur s' H; cbn in H.
  - inversion H; apply rew_same_refl.
  - destruct (l_val s !! a) as [v|] eqn:Ev; [|discriminate].
    match type of H with (if ?c then _ else _) = _ => destruct c; [destruct (prev <? cur)%N; discriminate|] end.
    eapply rew_same_trans; [|eapply IH; eauto].
    unfold rank_add_pos. match goal with |- context [if ?c then _ else _] => destruct c end; upd_same Ev.
Qed.

Lemma update_weight_rs s t w s' : update_weight s t w = Ok s' -> rew_same s s'.
Proof.
  unfold update_weight. intros H.
  destruct (t_weight (default (mkTok w 0) (l_tok s !! t)) =? w)%N.
  - cbn in H. inversion H; subst. noval.
  - destruct (weight_walk _ _ _ _) eqn:E; cbn in H; try discriminate. inversion H; subst.
    apply weight_walk_rs in E. eapply rew_same_trans; [exact E|]. noval.
Qed.

Lemma update_threshold_rs s t th s' : update_threshold s t th = Ok s' -> rew_same s s'.
Proof.
  unfold update_threshold. destruct (l_tok s !! t); [|discriminate].
  destruct (th =? t_thr t0); intros H; inversion H; subst; [apply rew_same_refl | noval].
Qed.

Lemma update_tokens_rs s ws ths s' : update_tokens s ws ths = Ok s' -> rew_same s s'.
Proof.
  unfold update_tokens. intros H.
  destruct (fold_res _ ws s) eqn:E; cbn in H; try discriminate.
  eapply rew_same_trans.
  - eapply (fold_res_rs (fun s '(t, w) => update_weight s t w)); [|exact E].
    intros ? [? ?] ? ?; eapply update_weight_rs; eauto.
  - eapply (fold_res_rs (fun s '(t, th) => update_threshold s t th)); [|exact H].
    intros ? [? ?] ? ?; eapply update_threshold_rs; eauto.
Qed.

Lemma dequeue_mature_rs s now : rew_same s (dequeue_mature s now).
Proof. unfold dequeue_mature. destruct (filter _ _); [apply rew_same_refl | noval]. Qed.

(* slashing leaves every reward component alone *)
Lemma slash_fold_frame {A} (pi : lstate -> A) a frac
  (Hpi : forall acc p, pi (fst (slash_step a frac acc p)) = pi (fst acc)) :
  forall l acc, pi (fst (fold_left (slash_step a frac) l acc)) = pi (fst acc).
Proof. induction l as [|p r IH]; intros acc; cbn [fold_left]; [reflexivity|]. rewrite IH. apply Hpi. Qed.

Lemma slash_holdings_frame {A} (pi : lstate -> A) s a h frac
  (Hpi : forall acc p, pi (fst (slash_step a frac acc p)) = pi (fst acc)) :
  pi (fst (slash_holdings s a h frac)) = pi s.
Proof. unfold slash_holdings. rewrite slash_fold_frame by exact Hpi. reflexivity. Qed.

Ltac slash_frame s2 Es :=
  repeat match goal with
  | |- context [?pi s2] =>
    match pi with
    | l_val => idtac | l_remain => idtac | l_goat => idtac | l_gasp => idtac
    | g_granted => idtac | g_gas_in => idtac | g_claimed => idtac
    end;
    let H := fresh in
    pose proof (slash_holdings_frame pi _ _ _ _ (fun acc p => eq_refl)) as H;
    rewrite Es in H; cbn [fst] in H; rewrite H; clear H
  end.

Lemma handle_vote_rs s now a absent s' : handle_vote s now a absent = Ok s' -> rew_same s s'.
Proof.
  unfold handle_vote. destruct (l_val s !! a) as [v|] eqn:Ev; [|discriminate].
  destruct (negb (bool_decide (v_status v = Active))) eqn:Eact; [intros H; inversion H; subst; apply rew_same_refl|].
  match goal with |- context [let '(_, _) := ?c in _] => destruct c as [off missed] end.
  destruct (_ >=? _).
  - destruct (slash_holdings _ a (v_hold v) _) as [s2 h2] eqn:Es.
    intros H; inversion H; subst.
    assert (Hv : l_val s2 = l_val s).
    { pose proof (slash_holdings_frame l_val (rank_remove s (v_power v) a) a (v_hold v) (lp_slash_down (l_params s)) (fun acc p => eq_refl)) as K.
      rewrite Es in K. exact K. }
    eapply rew_same_upd; [exact Ev | cbn; rewrite Hv; reflexivity | reflexivity | reflexivity | intros Htomb; exfalso; rewrite Htomb in Eact; discriminate | ..]; cbn;
      match goal with |- ?pi s2 = _ =>
        pose proof (slash_holdings_frame pi (rank_remove s (v_power v) a) a (v_hold v) (lp_slash_down (l_params s)) (fun acc p => eq_refl)) as K;
        rewrite Es in K; exact K end.
  - intros H; inversion H; subst. upd_same Ev.
Qed.

Lemma handle_evidence_rs s now h lim e s' : handle_evidence s now h lim e = Ok s' -> rew_same s s'.
Proof.
  destruct e as [[[a et] eh] counted]. unfold handle_evidence.
  destruct (negb counted); [intros H; inversion H; subst; apply rew_same_refl|].
  destruct (evidence_expired _ _ _ _ _); [intros H; inversion H; subst; apply rew_same_refl|].
  destruct (l_val s !! a) as [v|] eqn:Ev; [|discriminate].
  destruct (bool_decide (v_status v = Tombstoned)); [intros H; inversion H; subst; apply rew_same_refl|].
  destruct (slash_holdings _ a (v_hold v) _) as [s2 h2] eqn:Es.
  intros H; inversion H; subst.
  assert (Hv : l_val s2 = l_val s).
  { pose proof (slash_holdings_frame l_val (rank_remove s (v_power v) a) a (v_hold v) (lp_slash_double (l_params s)) (fun acc p => eq_refl)) as K.
    rewrite Es in K. exact K. }
  eapply rew_same_upd; [exact Ev | cbn; rewrite Hv; reflexivity | reflexivity | reflexivity | reflexivity | ..]; cbn;
    match goal with |- ?pi s2 = _ =>
      pose proof (slash_holdings_frame pi (rank_remove s (v_power v) a) a (v_hold v) (lp_slash_double (l_params s)) (fun acc p => eq_refl)) as K;
      rewrite Es in K; exact K end.
Qed.

Lemma end_walk_rs r : forall s last ups count s' last' ups',
  end_walk s last ups count r = Ok (s', last', ups') -> rew_same s s'.
Proof.
  induction r as [|[p a] r IH]; intros s last ups count s' last' ups' H; cbn in H.
  - inversion H; apply rew_same_refl.
  - destruct (count >=? _); [inversion H; apply rew_same_refl|].
    destruct (l_val s !! a) as [v|] eqn:Ev; [|discriminate].
    destruct (v_status v) eqn:Est; try discriminate.
    + destruct (last !! a); [discriminate|].
      eapply rew_same_trans; [|eapply IH; eauto]. upd_same Ev.
    + destruct (default 0%N (last !! a) =? v_power v)%N;
        (eapply rew_same_trans; [|eapply IH; eauto]); [apply rew_same_refl | noval].
Qed.

Lemma end_remove_rs l : forall s ups s' ups', end_remove s ups l = Ok (s', ups') -> rew_same s s'.
Proof.
  induction l as [|a r IH]; intros s ups s' ups' H; cbn in H.
  - inversion H; apply rew_same_refl.
  - destruct (l_val s !! a) as [v|] eqn:Ev; [|discriminate].
    eapply rew_same_trans; [|eapply IH; eauto].
    destruct (bool_decide (v_status v = Active)) eqn:Eact; [|noval].
    apply bool_decide_eq_true in Eact.
    eapply rew_same_upd; [exact Ev | reflexivity | reflexivity | reflexivity | intros Htomb; congruence | reflexivity ..].
Qed.

(* ---------- the operations that move rewards ---------- *)
Lemma claim_one_reward c s r s' : claim_one s r = Ok s' -> reward_ok c s -> reward_ok c s'.
Proof.
  destruct r as [[id a] rc]. unfold claim_one, reward_ok. destruct (l_val s !! a) as [v|] eqn:Ev; [|discriminate].
  intros H L; inversion H; subst. cbn. rewrite (total_rew_insert _ a v _ Ev). cbn. lia.
Qed.

(* C12_claim_once: a claim enqueues exactly the accrued pair and zeroes it *)
Lemma claim_one_spec s id a rc s' v : claim_one s (id, a, rc) = Ok s' -> l_val s !! a = Some v ->
  l_q_rewards s' = l_q_rewards s ++ [mkReward id rc (v_reward v) (v_gas v)] /\
  l_val s' !! a = Some (with_rewards v 0 0) /\
  forall b, b <> a -> l_val s' !! b = l_val s !! b.
Proof.
  unfold claim_one. intros H Ev. rewrite Ev in H. inversion H; subst. cbn.
  split; [reflexivity|]. split; [apply lookup_insert|]. intros b Hb. apply lookup_insert_ne. congruence.
Qed.

Lemma update_reward_pool_reward c s h gas grants s' :
  update_reward_pool s h gas grants = Ok s' -> reward_ok c s -> reward_ok c s'.
Proof.
  unfold update_reward_pool, reward_ok. destruct gas as [|g [|]]; try discriminate.
  intros H L; inversion H; subst. cbn.
  destruct (g >? 0); destruct (_ >? _); lia.
Qed.

(* C12_emission: what one execution block moves into distribution *)
Lemma update_reward_pool_spec s h g grants s' :
  update_reward_pool s h [g] grants = Ok s' ->
  let avail := l_remain s + sumZ grants in
  let r := Z.min avail (block_reward (l_params s) h) in
  l_goat s' = l_goat s + r /\ l_remain s' = avail - r /\
  l_gasp s' = l_gasp s + Z.max g 0.
Proof.
  unfold update_reward_pool. intros H; inversion H; subst; clear H. cbn.
  destruct (block_reward (l_params s) h >? l_remain s + sumZ grants) eqn:E; destruct (g >? 0) eqn:E2; lia.
Qed.

Lemma block_reward_spec p h : 0 < lp_halving p -> 0 <= h ->
  block_reward p h = lp_initial_reward p / 2 ^ (h / lp_halving p).
Proof.
  intros Hp Hh. unfold block_reward. destruct (h / lp_halving p >? 0) eqn:E; [reflexivity|].
  assert (h / lp_halving p = 0) as ->. { pose proof (Z.div_pos h (lp_halving p) Hh Hp). lia. }
  rewrite Z.pow_0_r, Z.div_1_r. reflexivity.
Qed.

Lemma distribute_sum votes : forall s gas goat total rg rr s' g r,
  distribute s gas goat total rg rr votes = Ok (s', g, r) ->
  g + r + total_rew (l_val s') = rg + rr + total_rew (l_val s) /\
  l_remain s' = l_remain s /\ g_granted s' = g_granted s /\ g_gas_in s' = g_gas_in s /\ g_claimed s' = g_claimed s.
Proof.
  induction votes as [|[a p] vs IH]; intros s gas goat total rg rr s' g r H; cbn in H.
  - inversion H; subst. repeat split; lia.
  - destruct (l_val s !! a) as [v|] eqn:Ev; [|discriminate].
    apply IH in H. cbn in H. rewrite (total_rew_insert _ a v _ Ev) in H. cbn in H.
    destruct H as (A & B & C & D & E). repeat split; auto; lia.
Qed.

Lemma distribute_reward_reward c s h votes s' : distribute_reward s h votes = Ok s' -> reward_ok c s -> reward_ok c s'.
Proof.
  unfold distribute_reward, reward_ok. destruct (h <? 2); [intros H; inversion H; subst; auto|].
  destruct (sumZ (map snd votes) =? 0); [discriminate|].
  destruct (distribute _ _ _ _ _ _ _) as [[[s1 g] r]| |] eqn:E; cbn; try discriminate.
  intros H L; inversion H; subst. apply distribute_sum in E. cbn. lia.
Qed.

(* C12_nonneg core: with truncated fractions the shares never exceed the pool *)
Lemma div_sum_le a b c : 0 < c -> a / c + b / c <= (a + b) / c.
Proof. intros Hc. pose proof (Z.div_mod a c ltac:(lia)). pose proof (Z.div_mod b c ltac:(lia)).
  pose proof (Z.mod_pos_bound a c Hc). pose proof (Z.mod_pos_bound b c Hc).
  apply Z.div_le_lower_bound; [lia|]. nia. Qed.

Definition shares_total (pool total : Z) (ps : list Z) : Z :=
  sumZ (map (fun p => share_of pool (power_fraction p total)) ps).

Lemma fractions_le total ps : 0 < total -> Forall (fun p => 0 <= p) ps ->
  sumZ (map (fun p => power_fraction p total) ps) <= sumZ ps * one18 / total.
Proof.
  intros Ht. induction 1 as [|p r Hp HF IH]; cbn [map sumZ fold_right].
  - rewrite Z.mul_0_l, Z.div_0_l by lia. lia.
  - unfold power_fraction at 1. fold (sumZ (map (fun p => power_fraction p total) r)).
    fold (sumZ r). etransitivity; [apply Z.add_le_mono_l, IH|].
    rewrite Z.mul_add_distr_r. apply div_sum_le. exact Ht.
Qed.

Lemma shares_le_pool pool total ps : 0 <= pool -> 0 < total -> Forall (fun p => 0 <= p) ps -> sumZ ps = total ->
  0 <= shares_total pool total ps <= pool.
Proof.
  intros Hpool Ht HF Hs.
  assert (H18 : 0 < one18) by (unfold one18; lia).
  assert (Hfr : sumZ (map (fun p => power_fraction p total) ps) <= one18).
  { etransitivity; [apply fractions_le; auto|]. rewrite Hs. rewrite Z.mul_comm, Z.div_mul by lia. lia. }
  assert (Hnn : Forall (fun p => 0 <= power_fraction p total) ps).
  { eapply Forall_impl; [|exact HF]. intros p Hp. cbn in Hp. cbn beta. unfold power_fraction. apply Z.div_pos; [unfold one18; lia | lia]. }
  clear Hs HF. unfold shares_total.
  assert (Hgen : forall fs, Forall (fun f => 0 <= f) fs ->
            0 <= sumZ (map (fun f => share_of pool f) fs) /\ sumZ (map (fun f => share_of pool f) fs) <= pool * sumZ fs / one18).
  { induction 1 as [|f r Hf HF IH]; cbn [map sumZ fold_right].
    - rewrite Z.mul_0_r, Z.div_0_l by lia. lia.
    - fold (sumZ (map (fun f => share_of pool f) r)). fold (sumZ r). destruct IH as [I1 I2].
      assert (0 <= share_of pool f) by (unfold share_of; apply Z.div_pos; nia).
      split; [lia|]. unfold share_of at 1.
      etransitivity; [apply Z.add_le_mono_l, I2|]. rewrite Z.mul_add_distr_l. apply div_sum_le. lia. }
  specialize (Hgen (map (fun p => power_fraction p total) ps)).
  rewrite map_map in Hgen. destruct Hgen as [G1 G2].
  { apply Forall_map. exact Hnn. }
  split; [exact G1|]. etransitivity; [exact G2|].
  apply Z.div_le_upper_bound; [lia|]. nia.
Qed.

(* ---------- block-level ---------- *)
Lemma fold_res_reward {B} c (f : lstate -> B -> res lstate) (Hf : forall s b s', f s b = Ok s' -> reward_ok c s -> reward_ok c s') :
  forall l s s', fold_res f l s = Ok s' -> reward_ok c s -> reward_ok c s'.
Proof.
  induction l as [|b r IH]; intros s s' H L; cbn in H.
  - inversion H; subst; auto.
  - destruct (f s b) eqn:E; cbn in H; try discriminate. eapply IH; eauto.
Qed.

Theorem begin_block_reward c s now h lim votes evs s' :
  begin_block s now h lim votes evs = Ok s' -> reward_ok c s -> reward_ok c s'.
Proof.
  unfold begin_block. intros H L.
  destruct (distribute_reward s h _) as [s1| |] eqn:E1; cbn in H; try discriminate.
  destruct (fold_res _ votes _) as [s3| |] eqn:E3; cbn in H; try discriminate.
  eapply rew_same_ok; [eapply (fold_res_rs (fun s e => handle_evidence s now h lim e)); [|exact H]|].
  { intros; eapply handle_evidence_rs; eauto. }
  eapply rew_same_ok; [eapply (fold_res_rs (fun s '(a, _, f) => handle_vote s now a f)); [|exact E3]|].
  { intros ? [[? ?] ?] ? ?; eapply handle_vote_rs; eauto. }
  eapply rew_same_ok; [apply dequeue_mature_rs|].
  eapply distribute_reward_reward; eauto.
Qed.

Theorem process_requests_reward c s now h q s' :
  process_requests s now h q = Ok s' -> reward_ok c s -> reward_ok c s'.
Proof.
  unfold process_requests. intros H L.
  destruct (update_reward_pool _ _ _ _) as [s1| |] eqn:E1; cbn in H; try discriminate.
  destruct (update_tokens _ _ _) as [s2| |] eqn:E2; cbn in H; try discriminate.
  destruct (create_all _ _) as [s3| |] eqn:E3; cbn in H; try discriminate.
  destruct (lock_all _ _ _) as [s4| |] eqn:E4; cbn in H; try discriminate.
  destruct (unlock_all _ _ _) as [s5| |] eqn:E5; cbn in H; try discriminate.
  eapply (fold_res_reward c claim_one); [intros; eapply claim_one_reward; eauto | exact H |].
  eapply rew_same_ok; [eapply unlock_all_rs; eauto|].
  eapply rew_same_ok; [eapply lock_each_rs; eauto|].
  eapply rew_same_ok; [eapply create_all_rs; eauto|].
  eapply rew_same_ok; [eapply update_tokens_rs; eauto|].
  eapply update_reward_pool_reward; eauto.
Qed.

Theorem end_block_reward c s s' ups : end_block s = Ok (s', ups) -> reward_ok c s -> reward_ok c s'.
Proof.
  unfold end_block. intros H L.
  destruct (end_walk _ _ _ _ _) as [[[s1 rest] u1]| |] eqn:E; cbn in H; try discriminate.
  eapply rew_same_ok; [eapply end_remove_rs; eauto|].
  eapply rew_same_ok; [eapply end_walk_rs; eauto|]. exact L.
Qed.

Lemma lk_step_reward c s o : reward_ok c s -> reward_ok c (fst (lk_step s o)).
Proof.
  intros L. destruct o as [now h lim votes evs|now h q| | |a]; cbn [lk_step].
  - destruct (begin_block s now h lim votes evs) eqn:E; cbn; auto. eapply begin_block_reward; eauto.
  - destruct (process_requests s now h q) eqn:E; cbn; auto. eapply process_requests_reward; eauto.
  - destruct (end_block s) as [[s' u]| |] eqn:E; cbn; auto. eapply end_block_reward; eauto.
  - unfold dequeue_txs. destruct (l_q_rewards s), (l_q_unlocks s); cbn; exact L.
  - cbn. exact L.
Qed.

Theorem lk_run_reward c ops : forall s, reward_ok c s -> reward_ok c (lk_run s ops).
Proof.
  unfold lk_run. induction ops as [|o r IH]; intros s L; cbn [fold_left]; auto.
  apply IH, lk_step_reward, L.
Qed.

Lemma empty_reward p rem goat gas acc : reward_ok (rem + goat + gas) (empty_lstate p rem goat gas acc).
Proof. unfold reward_ok. cbn. unfold total_rew. rewrite map_fold_empty. lia. Qed.

(* ---------- C12_nonneg: no pool or accrued reward is ever negative ---------- *)
Definition rew_nonneg (s : lstate) : Prop :=
  0 <= l_remain s /\ 0 <= l_goat s /\ 0 <= l_gasp s /\
  forall a v, l_val s !! a = Some v -> 0 <= v_reward v /\ 0 <= v_gas v.

Lemma rew_same_nonneg s s' : rew_same s s' -> rew_nonneg s -> rew_nonneg s'.
Proof.
  intros (_ & B & C & D & _ & _ & _ & [P _] & _) (R1 & R2 & R3 & R4).
  unfold rew_nonneg. rewrite B, C, D. split; [exact R1|]. split; [exact R2|]. split; [exact R3|].
  intros a v Hv. specialize (P a v Hv). destruct (l_val s !! a) as [w|] eqn:E.
  - destruct (R4 a w E). destruct P as (? & ? & _). lia.
  - lia.
Qed.

Lemma claim_one_nonneg s r s' : claim_one s r = Ok s' -> rew_nonneg s -> rew_nonneg s' /\ l_params s' = l_params s.
Proof.
  destruct r as [[id a] rc]. unfold claim_one. destruct (l_val s !! a) as [v|] eqn:Ev; [|discriminate].
  intros H (R1 & R2 & R3 & R4); inversion H; subst. split; [|reflexivity].
  unfold rew_nonneg; cbn. split; [exact R1|]. split; [exact R2|]. split; [exact R3|].
  intros b w Hb. destruct (decide (b = a)) as [->|Hne].
  - rewrite lookup_insert in Hb. inversion Hb; subst; cbn; lia.
  - rewrite lookup_insert_ne in Hb by congruence. apply (R4 b w Hb).
Qed.

Lemma block_reward_nonneg p h : 0 <= lp_initial_reward p -> 0 <= block_reward p h.
Proof.
  intros Hi. unfold block_reward. destruct (h / lp_halving p >? 0) eqn:E; [|exact Hi].
  apply Z.div_pos; [exact Hi|]. apply Z.pow_pos_nonneg; lia.
Qed.

Lemma sumZ_nonneg l : Forall (fun x => 0 <= x) l -> 0 <= sumZ l.
Proof. induction 1; cbn; [lia|]. fold (sumZ l). lia. Qed.

Lemma update_reward_pool_nonneg s h gas grants s' :
  update_reward_pool s h gas grants = Ok s' -> Forall (fun x => 0 <= x) grants ->
  0 <= lp_initial_reward (l_params s) -> rew_nonneg s -> rew_nonneg s' /\ l_params s' = l_params s.
Proof.
  unfold update_reward_pool. destruct gas as [|g [|]]; try discriminate.
  intros H HG Hi (R1 & R2 & R3 & R4); inversion H; subst; clear H. split; [|reflexivity].
  pose proof (sumZ_nonneg _ HG). pose proof (block_reward_nonneg (l_params s) h Hi).
  unfold rew_nonneg; cbn. split; [|split; [|split; [|intros a v Hv; apply (R4 a v Hv)]]];
    destruct (g >? 0) eqn:Eg; destruct (block_reward (l_params s) h >? l_remain s + sumZ grants) eqn:Er; lia.
Qed.

Lemma share_of_nonneg pool f : 0 <= pool -> 0 <= f -> 0 <= share_of pool f.
Proof. intros. unfold share_of. apply Z.div_pos; [nia | unfold one18; lia]. Qed.

Lemma power_fraction_nonneg p total : 0 <= p -> 0 < total -> 0 <= power_fraction p total.
Proof. intros. unfold power_fraction. apply Z.div_pos; [unfold one18; lia | lia]. Qed.

Lemma distribute_rem votes : forall s gas goat total rg rr s' g r,
  distribute s gas goat total rg rr votes = Ok (s', g, r) ->
  g = rg - shares_total gas total (map snd votes) /\ r = rr - shares_total goat total (map snd votes) /\
  l_params s' = l_params s /\ l_remain s' = l_remain s.
Proof.
  induction votes as [|[a p] vs IH]; intros s gas goat total rg rr s' g r H; cbn in H.
  - inversion H; subst. unfold shares_total; cbn. repeat split; lia.
  - destruct (l_val s !! a) as [v|] eqn:Ev; [|discriminate].
    apply IH in H. destruct H as (A & B & C & D). cbn in C, D. unfold shares_total in *. cbn [map snd sumZ fold_right].
    fold (sumZ (map (fun p0 => share_of gas (power_fraction p0 total)) (map snd vs))).
    fold (sumZ (map (fun p0 => share_of goat (power_fraction p0 total)) (map snd vs))).
    assert (Hz : forall pool f, (if pool =? 0 then 0 else share_of pool f) = share_of pool f).
    { intros pool f. destruct (pool =? 0) eqn:E; [|reflexivity]. apply Z.eqb_eq in E. subst. unfold share_of. rewrite Z.mul_0_l, Z.div_0_l; [reflexivity | unfold one18; lia]. }
    rewrite !Hz in A, B. repeat split; auto; lia.
Qed.

Lemma distribute_vals_nonneg votes : forall s gas goat total rg rr s' g r,
  distribute s gas goat total rg rr votes = Ok (s', g, r) ->
  0 <= gas -> 0 <= goat -> 0 < total -> Forall (fun x => 0 <= snd x) votes ->
  (forall a v, l_val s !! a = Some v -> 0 <= v_reward v /\ 0 <= v_gas v) ->
  (forall a v, l_val s' !! a = Some v -> 0 <= v_reward v /\ 0 <= v_gas v).
Proof.
  induction votes as [|[a p] vs IH]; intros s gas goat total rg rr s' g r H Hg Hr Ht HF R; cbn in H.
  - inversion H; subst. exact R.
  - destruct (l_val s !! a) as [v|] eqn:Ev; [|discriminate].
    inversion HF as [|? ? Hp HF']; subst. cbn in Hp.
    eapply IH; eauto. cbn. intros b w Hb.
    destruct (decide (b = a)) as [->|Hne].
    + rewrite lookup_insert in Hb. inversion Hb; subst. cbn. destruct (R a v Ev) as [Ra Rb].
      pose proof (power_fraction_nonneg p total Hp Ht) as Hf.
      pose proof (share_of_nonneg gas _ Hg Hf) as Hs1. pose proof (share_of_nonneg goat _ Hr Hf) as Hs2.
      destruct (gas =? 0); destruct (goat =? 0); lia.
    + rewrite lookup_insert_ne in Hb by congruence. apply (R b w Hb).
Qed.

Lemma sumZ_map_snd_nonneg (votes : list (N * Z)) : Forall (fun x => 0 <= snd x) votes -> Forall (fun p => 0 <= p) (map snd votes).
Proof. intros H. apply Forall_map. exact H. Qed.

Lemma distribute_reward_nonneg s h votes s' :
  distribute_reward s h votes = Ok s' -> Forall (fun x => 0 <= snd x) votes ->
  rew_nonneg s -> rew_nonneg s' /\ l_params s' = l_params s.
Proof.
  unfold distribute_reward. destruct (h <? 2); [intros H; inversion H; subst; auto|].
  destruct (sumZ (map snd votes) =? 0) eqn:Et; [discriminate|].
  destruct (distribute _ _ _ _ _ _ _) as [[[s1 g] r]| |] eqn:E; cbn; try discriminate.
  intros H HF (R1 & R2 & R3 & R4); inversion H; subst; clear H.
  pose proof (sumZ_map_snd_nonneg votes HF) as HF'.
  pose proof (sumZ_nonneg _ HF') as Hs.
  assert (Ht : 0 < sumZ (map snd votes)) by lia.
  pose proof (distribute_rem _ _ _ _ _ _ _ _ _ _ E) as (A & B & C & D).
  pose proof (shares_le_pool (l_gasp s) _ _ R3 Ht HF' eq_refl).
  pose proof (shares_le_pool (l_goat s) _ _ R2 Ht HF' eq_refl).
  split; [|exact C].
  unfold rew_nonneg; cbn. split; [lia|]. split; [lia|]. split; [lia|].
  intros a v Hv. apply (distribute_vals_nonneg _ _ _ _ _ _ _ _ _ _ E R3 R2 Ht HF R4 a v Hv).
Qed.

Definition wf_lkop (o : lkop) : Prop :=
  match o with
  | KBegin _ _ _ votes _ => Forall (fun x => 0 <= snd (fst x)) votes
  | KReq _ _ q => Forall (fun x => 0 <= x) (q_grants q)
  | _ => True
  end.

Lemma fold_res_rs_nonneg {B} (f : lstate -> B -> res lstate) (Hf : forall s b s', f s b = Ok s' -> rew_same s s') l s s' :
  fold_res f l s = Ok s' -> rew_nonneg s -> rew_nonneg s' /\ l_params s' = l_params s.
Proof.
  intros H R. pose proof (fold_res_rs f Hf l s s' H) as RS. split; [eapply rew_same_nonneg; eauto|].
  destruct RS as (_ & _ & _ & _ & _ & _ & _ & _ & Q). exact Q.
Qed.

Lemma rs_both s s' : rew_same s s' -> rew_nonneg s -> rew_nonneg s' /\ l_params s' = l_params s.
Proof. intros RS R. split; [eapply rew_same_nonneg; eauto|]. destruct RS as (_ & _ & _ & _ & _ & _ & _ & _ & Q). exact Q. Qed.

Lemma lk_step_nonneg s o : wf_lkop o -> 0 <= lp_initial_reward (l_params s) ->
  rew_nonneg s -> rew_nonneg (fst (lk_step s o)) /\ l_params (fst (lk_step s o)) = l_params s.
Proof.
  intros W Hi R. destruct o as [now h lim votes evs|now h q| | |a]; cbn [lk_step].
  - destruct (begin_block s now h lim votes evs) as [s'| |] eqn:E; cbn; auto.
    unfold begin_block in E.
    destruct (distribute_reward s h _) as [s1| |] eqn:E1; cbn in E; try discriminate.
    destruct (fold_res _ votes _) as [s3| |] eqn:E3; cbn in E; try discriminate.
    assert (HF : Forall (fun x : N * Z => 0 <= snd x) (map (fun '(a, p, _) => (a, p)) votes)).
    { apply Forall_map. eapply Forall_impl; [|exact W]. intros [[? ?] ?]; cbn; auto. }
    destruct (distribute_reward_nonneg _ _ _ _ E1 HF R) as [R1 P1].
    destruct (rs_both _ _ (dequeue_mature_rs s1 now) R1) as [R2 P2].
    destruct (fold_res_rs_nonneg (fun s '(a, _, f) => handle_vote s now a f)
               ltac:(intros ? [[? ?] ?] ? Hx; cbn beta in Hx; eapply handle_vote_rs; exact Hx) _ _ _ E3 R2) as [R3 P3].
    destruct (fold_res_rs_nonneg (fun s e => handle_evidence s now h lim e)
               ltac:(intros ? ? ? Hx; cbn beta in Hx; eapply handle_evidence_rs; exact Hx) _ _ _ E R3) as [R4 P4].
    split; [exact R4 | congruence].
  - destruct (process_requests s now h q) as [s'| |] eqn:E; cbn; auto.
    unfold process_requests in E.
    destruct (update_reward_pool _ _ _ _) as [s1| |] eqn:E1; cbn in E; try discriminate.
    destruct (update_tokens _ _ _) as [s2| |] eqn:E2; cbn in E; try discriminate.
    destruct (create_all _ _) as [s3| |] eqn:E3; cbn in E; try discriminate.
    destruct (lock_all _ _ _) as [s4| |] eqn:E4; cbn in E; try discriminate.
    destruct (unlock_all _ _ _) as [s5| |] eqn:E5; cbn in E; try discriminate.
    destruct (update_reward_pool_nonneg _ _ _ _ _ E1 W Hi R) as [R1 P1].
    destruct (rs_both _ _ (update_tokens_rs _ _ _ _ E2) R1) as [R2 P2].
    destruct (rs_both _ _ (create_all_rs _ _ _ E3) R2) as [R3 P3].
    destruct (rs_both _ _ (lock_each_rs _ _ _ _ E4) R3) as [R4 P4].
    destruct (rs_both _ _ (unlock_all_rs _ _ _ _ E5) R4) as [R5 P5].
    assert (K : forall l s0 s1, fold_res claim_one l s0 = Ok s1 -> rew_nonneg s0 -> rew_nonneg s1 /\ l_params s1 = l_params s0).
    { induction l as [|b r IH]; intros s0 s6 H R0; cbn in H.
      - inversion H; subst; auto.
      - destruct (claim_one s0 b) eqn:Ec; cbn in H; try discriminate.
        destruct (claim_one_nonneg _ _ _ Ec R0) as [Ra Pa]. destruct (IH _ _ H Ra) as [Rb Pb]. split; [exact Rb | congruence]. }
    destruct (K _ _ _ E R5) as [R6 P6]. split; [exact R6 | congruence].
  - destruct (end_block s) as [[s' u]| |] eqn:E; cbn; auto.
    unfold end_block in E.
    destruct (end_walk _ _ _ _ _) as [[[s1 rest] u1]| |] eqn:Ew; cbn in E; try discriminate.
    destruct (rs_both _ _ (end_walk_rs _ _ _ _ _ _ _ _ Ew) R) as [R1 P1].
    destruct (rs_both _ _ (end_remove_rs _ _ _ _ _ E) R1) as [R2 P2].
    split; [exact R2 | congruence].
  - unfold dequeue_txs. destruct (l_q_rewards s), (l_q_unlocks s); cbn; auto.
  - cbn. auto.
Qed.

Theorem lk_run_nonneg ops : forall s, Forall wf_lkop ops -> 0 <= lp_initial_reward (l_params s) ->
  rew_nonneg s -> rew_nonneg (lk_run s ops).
Proof.
  unfold lk_run. induction ops as [|o r IH]; intros s W Hi R; cbn [fold_left]; auto.
  inversion W; subst. destruct (lk_step_nonneg s o H1 Hi R) as [R' P'].
  apply IH; auto. rewrite P'. exact Hi.
Qed.
