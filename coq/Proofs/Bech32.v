(* C17, string layer: a bech32 / bech32m string produced by the encoder decodes back to the same
   human-readable part, data and checksum flavour (for every hrp, data and flavour). *)
From Goat Require Import Base.Prelude Model.Address.
From Coq Require Import ZifyBool ZifyN ZifyNat Btauto.
Local Open Scope N_scope.

(* ---------------------------------------------------------------- the checksum is linear over GF(2) *)
Definition gsel (b : N) (i : N) (g : N) : N := if N.testbit b i then g else 0.
Definition gmix (b : N) : N :=
  N.lxor (N.lxor (N.lxor (N.lxor (gsel b 0 996825010) (gsel b 1 642813549)) (gsel b 2 513874426)) (gsel b 3 1027748829)) (gsel b 4 705979059).
Definition lin (chk : N) : N := N.lxor (N.shiftl (N.land chk 33554431) 5) (gmix (N.shiftr chk 25)).

Lemma pm_step_lin chk v : pm_step chk v = N.lxor (lin chk) v.
Proof.
  unfold pm_step, lin, gmix, gsel. set (b := N.shiftr chk 25). set (c := N.shiftl (N.land chk 33554431) 5).
  destruct (N.testbit b 0), (N.testbit b 1), (N.testbit b 2), (N.testbit b 3), (N.testbit b 4);
    apply N.bits_inj; intros n; rewrite ?N.lxor_spec, ?N.bits_0; btauto.
Qed.

Lemma gsel_lxor b b' i g : gsel (N.lxor b b') i g = N.lxor (gsel b i g) (gsel b' i g).
Proof.
  unfold gsel. rewrite N.lxor_spec. destruct (N.testbit b i), (N.testbit b' i); cbn [xorb];
    rewrite ?N.lxor_nilpotent, ?N.lxor_0_r, ?N.lxor_0_l; reflexivity.
Qed.
Lemma gmix_lxor b b' : gmix (N.lxor b b') = N.lxor (gmix b) (gmix b').
Proof.
  unfold gmix. rewrite !gsel_lxor. apply N.bits_inj. intros n. rewrite !N.lxor_spec. btauto.
Qed.
Lemma lin_lxor c d : lin (N.lxor c d) = N.lxor (lin c) (lin d).
Proof.
  unfold lin. rewrite N.shiftr_lxor, gmix_lxor.
  assert (N.land (N.lxor c d) 33554431 = N.lxor (N.land c 33554431) (N.land d 33554431)) as ->.
  { apply N.bits_inj. intros n. rewrite !N.lxor_spec, !N.land_spec, !N.lxor_spec. btauto. }
  rewrite N.shiftl_lxor. apply N.bits_inj. intros n. rewrite !N.lxor_spec. btauto.
Qed.

(* running the checksum over symbols, relative to running it over zeros *)
Lemma fold_lin (l : list N) : forall c d,
  fold_left pm_step l (N.lxor c d) = N.lxor (fold_left pm_step l c) (fold_left (fun x _ => lin x) l d).
Proof.
  induction l as [|v l IH]; intros c d; cbn [fold_left]; [reflexivity|].
  rewrite !pm_step_lin, lin_lxor.
  replace (N.lxor (N.lxor (lin c) (lin d)) v) with (N.lxor (N.lxor (lin c) v) (lin d))
    by (apply N.bits_inj; intros n; rewrite !N.lxor_spec; btauto).
  apply IH.
Qed.

(* a value below 2^25 is just shifted *)
Lemma lin_small x : x < 2 ^ 25 -> lin x = N.shiftl x 5.
Proof.
  intros Hx. unfold lin.
  assert (N.shiftr x 25 = 0) as -> by (rewrite N.shiftr_div_pow2; apply N.div_small; exact Hx).
  assert (N.land x 33554431 = x) as ->.
  { change 33554431 with (N.ones 25). rewrite N.land_ones. apply N.mod_small. exact Hx. }
  unfold gmix, gsel. rewrite !N.bits_0. cbn. rewrite N.lxor_0_r. reflexivity.
Qed.

Lemma fold_split (l : list N) : forall c w,
  fold_left pm_step l (N.lxor c w) =
  N.lxor (fold_left (fun x _ => lin x) l c) (fold_left (fun w v => N.lxor (lin w) v) l w).
Proof.
  induction l as [|v l IH]; intros c w; cbn [fold_left]; [reflexivity|].
  rewrite pm_step_lin, lin_lxor.
  replace (N.lxor (N.lxor (lin c) (lin w)) v) with (N.lxor (lin c) (N.lxor (lin w) v))
    by (apply N.bits_inj; intros n; rewrite !N.lxor_spec; btauto).
  apply IH.
Qed.
Lemma fold_zeros (l : list N) : forall c, Forall (fun v => v = 0) l ->
  fold_left pm_step l c = fold_left (fun x _ => lin x) l c.
Proof.
  induction l as [|v l IH]; intros c Hz; cbn [fold_left]; [reflexivity|]. inversion Hz; subst.
  rewrite pm_step_lin, N.lxor_0_r. apply IH. assumption.
Qed.

(* bounds *)
Lemma lxor_lt a b n : a < 2 ^ n -> b < 2 ^ n -> N.lxor a b < 2 ^ n.
Proof.
  intros Ha Hb. destruct (N.eq_dec (N.lxor a b) 0) as [->|Hne]; [assert (2 ^ n <> 0) by (apply N.pow_nonzero; discriminate); lia|].
  apply N.log2_lt_pow2; [lia|].
  pose proof (N.log2_lxor a b) as Hl.
  assert (forall x, x < 2 ^ n -> x <> 0 -> N.log2 x < n) by (intros x Hx Hx0; apply N.log2_lt_pow2; lia).
  destruct (N.eq_dec a 0) as [->|Ha0]; [rewrite N.lxor_0_l in *; apply H; assumption|].
  destruct (N.eq_dec b 0) as [->|Hb0]; [rewrite N.lxor_0_r in *; apply H; assumption|].
  pose proof (H a Ha Ha0). pose proof (H b Hb Hb0). lia.
Qed.
Lemma gsel_lt b i g : g < 2 ^ 30 -> gsel b i g < 2 ^ 30.
Proof. intros Hg. unfold gsel. destruct (N.testbit b i); [exact Hg|reflexivity]. Qed.
Lemma lin_lt c : lin c < 2 ^ 30.
Proof.
  unfold lin, gmix. repeat apply lxor_lt; try (apply gsel_lt; reflexivity).
  rewrite N.shiftl_mul_pow2. change 33554431 with (N.ones 25). rewrite N.land_ones.
  pose proof (N.mod_upper_bound c (2 ^ 25) ltac:(discriminate)). change (2 ^ 30) with (2 ^ 25 * 2 ^ 5). nia.
Qed.
Lemma pm_step_lt c v : v < 2 ^ 30 -> pm_step c v < 2 ^ 30.
Proof. intros Hv. rewrite pm_step_lin. apply lxor_lt; [apply lin_lt|exact Hv]. Qed.

(* shifting in one 5-bit symbol *)
Lemma push_symbol w s : w < 2 ^ 25 -> s < 32 -> N.lxor (lin w) s = w * 32 + s.
Proof.
  intros Hw Hs. rewrite lin_small by exact Hw. rewrite N.shiftl_mul_pow2. change (2 ^ 5) with 32.
  symmetry. apply N.add_nocarry_lxor.
  apply N.bits_inj. intros n. rewrite N.land_spec, N.bits_0.
  destruct (N.lt_ge_cases n 5) as [Hn|Hn].
  - change 32 with (2 ^ 5). rewrite N.mul_pow2_bits_low by exact Hn. reflexivity.
  - assert (N.testbit s n = false) as ->; [|apply andb_false_r].
    destruct (N.eq_dec s 0) as [->|Hs0]; [apply N.bits_0|]. apply N.bits_above_log2.
    assert (N.log2 s < 5) by (apply N.log2_lt_pow2; [lia|exact Hs]). lia.
Qed.

Ltac Zify.zify_post_hook ::= Z.div_mod_to_equations.

(* the six checksum symbols of p, pushed one after the other, rebuild p *)
Lemma symbols_rebuild p : p < 2 ^ 30 ->
  fold_left (fun w v => N.lxor (lin w) v) (checksum_symbols p) 0 = p.
Proof.
  intros Hp. unfold checksum_symbols. cbn [map fold_left].
  change (5 * (5 - 0)) with 25. change (5 * (5 - 1)) with 20. change (5 * (5 - 2)) with 15.
  change (5 * (5 - 3)) with 10. change (5 * (5 - 4)) with 5. change (5 * (5 - 5)) with 0.
  rewrite !N.shiftr_div_pow2. change 31 with (N.ones 5). rewrite !N.land_ones.
  change (2 ^ 25) with 33554432 in *. change (2 ^ 20) with 1048576. change (2 ^ 15) with 32768.
  change (2 ^ 10) with 1024. change (2 ^ 5) with 32. change (2 ^ 0) with 1. change (2 ^ 30) with 1073741824 in Hp.
  set (s0 := (p / 33554432) mod 32). set (s1 := (p / 1048576) mod 32). set (s2 := (p / 32768) mod 32).
  set (s3 := (p / 1024) mod 32). set (s4 := (p / 32) mod 32). set (s5 := (p / 1) mod 32).
  assert (B : s0 < 32 /\ s1 < 32 /\ s2 < 32 /\ s3 < 32 /\ s4 < 32 /\ s5 < 32) by (subst s0 s1 s2 s3 s4 s5; repeat split; apply N.mod_upper_bound; discriminate).
  destruct B as (B0 & B1 & B2 & B3 & B4 & B5).
  rewrite (push_symbol 0 s0) by (cbn; lia). cbn [N.mul N.add].
  rewrite (push_symbol s0 s1) by (cbn; lia).
  rewrite (push_symbol (s0 * 32 + s1) s2) by (change (2 ^ 25) with 33554432; lia).
  rewrite (push_symbol ((s0 * 32 + s1) * 32 + s2) s3) by (change (2 ^ 25) with 33554432; lia).
  rewrite (push_symbol (((s0 * 32 + s1) * 32 + s2) * 32 + s3) s4) by (change (2 ^ 25) with 33554432; lia).
  rewrite (push_symbol ((((s0 * 32 + s1) * 32 + s2) * 32 + s3) * 32 + s4) s5) by (change (2 ^ 25) with 33554432; lia).
  subst s0 s1 s2 s3 s4 s5. lia.
Qed.

(* the checksum appended by the encoder makes the polymod equal to the flavour's constant *)
Theorem checksum_verifies (c0 K : N) : K < 2 ^ 30 ->
  let p := N.lxor (fold_left pm_step [0; 0; 0; 0; 0; 0] c0) K in
  fold_left pm_step (checksum_symbols p) c0 = K.
Proof.
  intros HK p.
  assert (Hz : fold_left pm_step [0; 0; 0; 0; 0; 0] c0 < 2 ^ 30) by (cbn [fold_left]; apply pm_step_lt; reflexivity).
  assert (Hp : p < 2 ^ 30) by (apply lxor_lt; assumption).
  rewrite <- (N.lxor_0_r c0) at 1. rewrite fold_split, symbols_rebuild by exact Hp.
  assert (fold_left (fun x _ => lin x) (checksum_symbols p) c0 = fold_left pm_step [0; 0; 0; 0; 0; 0] c0) as ->.
  { rewrite fold_zeros by (repeat constructor). reflexivity. }
  subst p. rewrite <- N.lxor_assoc, N.lxor_nilpotent. apply N.lxor_0_l.
Qed.

(* ---------------------------------------------------------------- the string layer *)
Definition sym_char (d : N) : N := nth (N.to_nat d) b32_charset 0.

Lemma small_cases (P : N -> Prop) :
  P 0 -> P 1 -> P 2 -> P 3 -> P 4 -> P 5 -> P 6 -> P 7 -> P 8 -> P 9 -> P 10 -> P 11 -> P 12 -> P 13 -> P 14 -> P 15 ->
  P 16 -> P 17 -> P 18 -> P 19 -> P 20 -> P 21 -> P 22 -> P 23 -> P 24 -> P 25 -> P 26 -> P 27 -> P 28 -> P 29 -> P 30 -> P 31 ->
  forall d, d < 32 -> P d.
Proof.
  intros. assert (d = 0 \/ d = 1 \/ d = 2 \/ d = 3 \/ d = 4 \/ d = 5 \/ d = 6 \/ d = 7 \/ d = 8 \/ d = 9 \/ d = 10 \/ d = 11 \/ d = 12 \/ d = 13 \/ d = 14 \/ d = 15 \/
          d = 16 \/ d = 17 \/ d = 18 \/ d = 19 \/ d = 20 \/ d = 21 \/ d = 22 \/ d = 23 \/ d = 24 \/ d = 25 \/ d = 26 \/ d = 27 \/ d = 28 \/ d = 29 \/ d = 30 \/ d = 31) as C by lia.
  repeat (destruct C as [->|C]; [assumption|]). subst. assumption.
Qed.

Lemma sym_char_props d : d < 32 ->
  index_of (sym_char d) b32_charset 0 = Some d /\ (33 <=? sym_char d) && (sym_char d <=? 126) = true /\
  is_upper (sym_char d) = false /\ (sym_char d =? 49) = false.
Proof. revert d. apply small_cases; vm_compute; auto. Qed.

Lemma last_index_app c a : forall b i acc, last_index c (a ++ b) i acc = last_index c b (i + length a)%nat (last_index c a i acc).
Proof.
  induction a as [|x a IH]; intros b i acc; cbn [app last_index length]; [rewrite Nat.add_0_r; reflexivity|].
  rewrite IH. f_equal. lia.
Qed.
Lemma last_index_absent c b : forall i acc, Forall (fun x => (x =? c) = false) b -> last_index c b i acc = acc.
Proof.
  induction b as [|x b IH]; intros i acc Hb; cbn [last_index]; [reflexivity|]. inversion Hb as [|? ? Hx Hb']; subst.
  rewrite Hx. apply IH. exact Hb'.
Qed.
Lemma map_opt_map {A B} (f : A -> option B) (g : B -> A) (l : list B) :
  Forall (fun x => f (g x) = Some x) l -> map_opt f (map g l) = Some l.
Proof.
  induction l as [|x l IH]; intros Hl; cbn [map map_opt]; [reflexivity|]. inversion Hl as [|? ? Hx Hl']; subst.
  rewrite Hx, (IH Hl'). reflexivity.
Qed.

Definition hrp_ok (hrp : bytes) : Prop :=
  hrp <> [] /\ Forall (fun c => (33 <=? c) && (c <=? 126) = true /\ is_upper c = false) hrp.
Definition ver_const (v : b32ver) : N := match v with V0 => bech32_const | VM => bech32m_const end.

Lemma to_lower_id_list l : Forall (fun c => is_upper c = false) l -> map to_lower l = l.
Proof.
  induction l as [|c l IH]; intros Hl; cbn [map]; [reflexivity|]. inversion Hl as [|? ? Hc Hl']; subst.
  rewrite (IH Hl'). unfold to_lower. rewrite Hc. reflexivity.
Qed.
Lemma checksum_symbols_small p : Forall (fun d => d < 32) (checksum_symbols p).
Proof.
  unfold checksum_symbols. apply List.Forall_forall. intros d Hd. apply in_map_iff in Hd. destruct Hd as (i & <- & _).
  change 31 with (N.ones 5). rewrite N.land_ones. apply N.mod_upper_bound. discriminate.
Qed.

Theorem bech32_round_trip hrp data v :
  hrp_ok hrp -> Forall (fun d => d < 32) data -> (length hrp + 1 + length data + 6 <= 90)%nat ->
  bech32_decode (bech32_encode hrp data v) = Some (hrp, data, v).
Proof.
  intros [Hne Hh] Hd Hlen.
  assert (Hup : Forall (fun c => is_upper c = false) hrp) by (eapply Forall_impl; [|exact Hh]; intros c [_ H]; exact H).
  unfold bech32_encode. rewrite (to_lower_id_list hrp Hup).
  set (p := N.lxor (polymod hrp (data ++ [0; 0; 0; 0; 0; 0])) (match v with V0 => bech32_const | VM => bech32m_const end)).
  set (syms := data ++ checksum_symbols p).
  assert (Hs : Forall (fun d => d < 32) syms) by (apply Forall_app; split; [exact Hd|apply checksum_symbols_small]).
  change (map (fun d => nth (N.to_nat d) b32_charset 0) syms) with (map sym_char syms).
  set (cs := map sym_char syms).
  assert (Lc : length cs = (length data + 6)%nat) by (subst cs syms; rewrite map_length, app_length; reflexivity).
  assert (Hcs : Forall (fun c => (33 <=? c) && (c <=? 126) = true /\ is_upper c = false /\ (c =? 49) = false) cs).
  { subst cs. apply List.Forall_forall. intros c Hc. apply in_map_iff in Hc. destruct Hc as (d & <- & Hin).
    rewrite List.Forall_forall in Hs. destruct (sym_char_props d (Hs d Hin)) as (_ & A & B & C). auto. }
  set (s := hrp ++ [49] ++ cs).
  assert (Ls : length s = (length hrp + 1 + length data + 6)%nat) by (subst s; rewrite !app_length, Lc; cbn; lia).
  assert (Hpos : (1 <= length hrp)%nat) by (destruct hrp; [congruence|cbn; lia]).
  unfold bech32_decode. fold s.
  (* length *)
  assert ((90 <? length s)%nat || (length s <? 8)%nat = false) as -> by (rewrite Ls; lia).
  (* character range *)
  assert (forallb (fun c => (33 <=? c) && (c <=? 126)) s = true) as ->.
  { apply forallb_forall. intros c Hc. subst s. apply in_app_or in Hc. destruct Hc as [Hc|Hc].
    - rewrite List.Forall_forall in Hh. apply (Hh c Hc).
    - cbn [app] in Hc. destruct Hc as [<-|Hc]; [reflexivity|]. rewrite List.Forall_forall in Hcs. apply (Hcs c Hc). }
  cbn [negb].
  (* no upper case at all *)
  assert (Hnu : existsb is_upper s = false).
  { apply not_true_is_false. intros E. apply existsb_exists in E. destruct E as (c & Hc & Hu).
    subst s. apply in_app_or in Hc. destruct Hc as [Hc|Hc].
    - rewrite List.Forall_forall in Hup. rewrite (Hup c Hc) in Hu. discriminate.
    - cbn [app] in Hc. destruct Hc as [<-|Hc]; [discriminate|]. rewrite List.Forall_forall in Hcs. destruct (Hcs c Hc) as (_ & B & _). rewrite B in Hu. discriminate. }
  rewrite Hnu, andb_false_r.
  assert (Hlow : map to_lower s = s).
  { apply to_lower_id_list. apply List.Forall_forall. intros c Hc. destruct (is_upper c) eqn:E; [|reflexivity].
    exfalso. assert (existsb is_upper s = true) by (apply existsb_exists; eauto). congruence. }
  rewrite Hlow.
  (* the separator is the last '1' *)
  assert (Hone : last_index 49 s 0 None = Some (length hrp)).
  { subst s. rewrite last_index_app. cbn [app]. cbn [last_index]. rewrite N.eqb_refl.
    rewrite last_index_absent; [f_equal; lia|]. eapply Forall_impl; [|exact Hcs]. intros c (_ & _ & C). exact C. }
  rewrite Hone.
  assert (((length hrp <? 1)%nat || (length s <? length hrp + 7)%nat) = false) as -> by (rewrite Ls; lia).
  assert (firstn (length hrp) s = hrp) as -> by (subst s; rewrite firstn_app, firstn_all, Nat.sub_diag; cbn; apply app_nil_r).
  assert (skipn (S (length hrp)) s = cs) as ->.
  { subst s. rewrite skipn_app, skipn_all2 by lia. replace (S (length hrp) - length hrp)%nat with 1%nat by lia. reflexivity. }
  (* symbols *)
  assert (map_opt (fun c => index_of c b32_charset 0) cs = Some syms) as ->.
  { subst cs. apply map_opt_map. eapply Forall_impl; [|exact Hs]. intros d Hdl. apply (sym_char_props d Hdl). }
  (* checksum *)
  assert (Hpoly : polymod hrp syms = ver_const v).
  { unfold polymod. subst syms. rewrite fold_left_app.
    pose proof (checksum_verifies (fold_left pm_step data (pm_hrp hrp)) (ver_const v)) as CV.
    assert (ver_const v < 2 ^ 30) by (destruct v; reflexivity). specialize (CV H). cbv zeta in CV.
    assert (p = N.lxor (fold_left pm_step [0; 0; 0; 0; 0; 0] (fold_left pm_step data (pm_hrp hrp))) (ver_const v)) as Ep.
    { subst p. unfold polymod. rewrite fold_left_app. destruct v; reflexivity. }
    rewrite Ep. exact CV. }
  rewrite Hpoly.
  assert (ver_of_polymod (ver_const v) = Some v) as -> by (destruct v; reflexivity).
  f_equal. f_equal. f_equal. subst syms. rewrite app_length. unfold checksum_symbols at 1. cbn [map length].
  replace (length data + 6 - 6)%nat with (length data) by lia. rewrite firstn_app, firstn_all, Nat.sub_diag. cbn. apply app_nil_r.
Qed.
