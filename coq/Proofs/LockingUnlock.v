(* C15: unlocks are queued for now + unlock/exit duration, released only when mature, in key order. *)
From stdpp Require Import gmap sorting.
From Goat Require Import Base.Prelude Gen.Consts Model.Locking.
From Coq Require Import ZifyBool.
Local Open Scope Z_scope.

Definition is_exiting (v : validator) (tk : token) (remaining : Z) : bool :=
  match v_status v with Inactive | Tombstoned => true | _ => false end || (remaining <? t_thr tk).

Lemma index_remove_all_lookup (idx : gmap (N * N) Z) a tokens t : t ∈ tokens -> index_remove_all idx a tokens !! (t, a) = None.
Proof.
  unfold index_remove_all. revert idx. induction tokens as [|x r IH]; intros idx Hin; [inversion Hin|].
  cbn [fold_left]. apply elem_of_cons in Hin. destruct Hin as [->|Hin]; [|apply IH; exact Hin].
  clear IH. revert idx. induction r as [|y r IHr]; intros idx; cbn [fold_left]; [apply lookup_delete|].
  destruct (decide (y = x)) as [->|Hne].
  - rewrite delete_idemp. apply IHr.
  - rewrite delete_commute. apply IHr.
Qed.

(* where and when one unlock request is queued, and what happens to an exiting validator *)
Theorem unlock_one_when s now id a rc t req s' v tk :
  unlock_one s now id a rc t req = Ok s' -> l_val s !! a = Some v -> l_tok s !! t = Some tk ->
  let have := amount_of (v_hold v) t in
  let amt := if have <? req then have else req in
  let exiting := is_exiting v tk (have - amt) in
  let when := now + (if exiting then lp_exit_dur (l_params s) else lp_unlock_dur (l_params s)) in
  l_unlockq s' = <[when := default [] (l_unlockq s !! when) ++ [mkUnlock id t rc amt]]> (l_unlockq s) /\
  l_q_unlocks s' = l_q_unlocks s /\ l_params s' = l_params s /\
  exists v', l_val s' !! a = Some v' /\
    (exiting = true ->
       v_power v' = 0%N /\ (v_power v, a) ∉ l_rank s' /\
       v_status v' = match v_status v with Active | Pending | Downgrade => Inactive | x => x end /\
       (forall t', is_Some (v_hold v !! t') -> l_index s' !! (t', a) = None)).
Proof.
  unfold unlock_one. intros Hu Ev Et. rewrite Ev in Hu. cbn [l_tok rank_remove set_rank] in Hu. rewrite Et in Hu.
  cbv zeta. fold (is_exiting v tk (amount_of (v_hold v) t - (if amount_of (v_hold v) t <? req then amount_of (v_hold v) t else req))) in *.
  set (amt := if amount_of (v_hold v) t <? req then amount_of (v_hold v) t else req) in *.
  match type of Hu with (if ?c then _ else _) = _ => destruct c; [discriminate Hu|] end.
  destruct (is_exiting v tk (amount_of (v_hold v) t - amt)) eqn:Eexit.
  - inversion Hu; subst; clear Hu. cbn. split; [reflexivity|]. split; [reflexivity|]. split; [reflexivity|].
    eexists. rewrite lookup_insert. split; [reflexivity|]. intros _. cbn. split; [reflexivity|]. split; [set_solver|]. split; [reflexivity|].
    intros t' [x Hx]. apply index_remove_all_lookup. apply elem_of_list_fmap. exists (t', x). split; [reflexivity|].
    apply elem_of_map_to_list. exact Hx.
  - destruct (in_ranking_status (v_status v)); inversion Hu; subst; clear Hu.
    + unfold rank_add_pos. match goal with |- context [if ?c then _ else _] => destruct c end; cbn;
        (split; [reflexivity|]; split; [reflexivity|]; split; [reflexivity|]; eexists; rewrite lookup_insert; split; [reflexivity|]; discriminate).
    + cbn. split; [reflexivity|]. split; [reflexivity|]. split; [reflexivity|]. eexists. rewrite lookup_insert. split; [reflexivity|]. discriminate.
Qed.

(* releasing matured unlocks: exactly the queue entries with key <= now leave the time-keyed queue, in
   ascending key order, appended behind what is already waiting for hand-over; nothing else moves *)
Theorem dequeue_mature_spec s now :
  let ks := filter (fun k => k <=? now) (keys_sorted (l_unlockq s)) in
  let s' := dequeue_mature s now in
  l_q_unlocks s' = l_q_unlocks s ++ flat_map (fun k => default [] (l_unlockq s !! k)) ks /\
  l_unlockq s' = fold_left (fun m k => delete k m) ks (l_unlockq s) /\
  Forall (fun k => k <= now) ks /\ l_val s' = l_val s /\ l_params s' = l_params s /\ l_q_rewards s' = l_q_rewards s.
Proof.
  cbv zeta. unfold dequeue_mature.
  assert (HF : Forall (fun k => k <= now) (filter (fun k => k <=? now) (keys_sorted (l_unlockq s)))).
  { apply Forall_forall. intros k Hk. apply filter_In in Hk. destruct Hk as [_ Hk]. lia. }
  destruct (filter (fun k => k <=? now) (keys_sorted (l_unlockq s))) as [|k0 ks] eqn:E.
  - cbn. rewrite app_nil_r. repeat split; auto.
  - cbn [l_q_unlocks l_unlockq l_val l_params l_q_rewards Locking.set_queue set_unlockq]. repeat split; auto.
Qed.

(* keys are released in ascending order *)
Lemma keys_sorted_sorted (m : gmap Z (list unlock)) : Sorted Z.le (keys_sorted m).
Proof. unfold keys_sorted. apply Sorted_merge_sort. intros x y. lia. Qed.
