(* Executable model of x/relayer and x/bitcoin (keeper/*.go, types/*.go): relayer group, voted and
   non-voted proposer messages, deposits, withdrawals, bridge requests, hand-over queue.
   Definitions only.

   Symbolic cryptography: a BLS signature is described by the list of vote-key ids that really
   signed and the bytes they signed ([sigdesc]); [None] = bytes that do not decode to a signature.
   Aggregate verification succeeds iff the collected key multiset equals the signer multiset and
   the signed bytes equal the sign-doc the code computes.  ECDSA/BLS possession proofs likewise.
   hash160 / taproot values of keys are data supplied with the key (computed by the real
   libraries in the harness).  SHA-256 is a parameter [H] (instantiated with the executable
   implementation for the correspondence run, left abstract in theorems). *)
From stdpp Require Import gmap sorting.
From Goat Require Import Base.Prelude Gen.Consts Model.Merkle Model.BtcParams.
Local Open Scope N_scope.

Section Bridge.
Variable H : bytes -> bytes.          (* SHA-256 *)
Definition H2 (b : bytes) : bytes := H (H b).

(* ------------------------------------------------------------------ relayer *)
Inductive vkey := VKHash (k : N) | VKKey (k : N).   (* registered hash of BLS key k / key k itself *)
Global Instance vkey_eq_dec : EqDecision vkey. Proof. solve_decision. Defined.

(* voter status: 1 pending, 2 on-boarding, 3 off-boarding, 4 activated *)
Record voter := mkVoter { vt_key : vkey; vt_status : N; vt_height : N }.

Record sigdesc := mkSig { sg_signers : list N; sg_msg : bytes }.

Record vote := mkVote { vo_seq : N; vo_epoch : N; vo_bitmap : bytes; vo_sig : option sigdesc; vo_sigraw : bytes }.

Record rparams := mkRP { rp_period : Z; rp_timeout : Z }.

Record btckey := mkKey { k_type : N; k_raw : bytes; k_h160 : bytes; k_taproot : bytes }.

(* ------------------------------------------------------------------ bitcoin *)
Record receipt := mkRcpt { rc_txid : bytes; rc_txout : N; rc_amount : N }.
(* withdrawal status: 1 pending, 2 processing, 3 canceling, 4 canceled, 5 paid *)
Record wd := mkWd { w_addr : N; w_script : option bytes; w_amount : N; w_price : N; w_status : N; w_receipt : option receipt }.
Record processing := mkProc { p_txids : list bytes; p_outputs : list (list N); p_ids : list N; p_fee : N }.
Record deprcpt := mkDep { d_evm : bytes; d_txid : bytes; d_txout : N; d_amount : N; d_tax : N }.

Record bstate := mkBS {
  (* relayer *)
  r_proposer : N; r_voters : list N; r_epoch : N; r_last : Z; r_accepted : bool;
  r_seq : N;
  r_voter : gmap N voter;
  r_on : list N; r_off : list N;
  r_pubkeys : gset (N * N);              (* (key type, big-endian value of the raw key) *)
  r_randao : bytes;
  r_params : rparams;
  r_accounts : gset N;
  r_book : gmap N bytes;                 (* address id -> bech32 string bytes (data, not state) *)
  (* bitcoin *)
  b_params : bparams;
  b_magic : bytes;
  b_pubkey : option btckey;
  b_tip : N; b_hashes : gmap N bytes;
  b_deposited : gmap (N * N) N;          (* (txid value, vout) -> amount *)
  b_nonce : N;
  b_wd : gmap N wd;
  b_pid : N; b_proc : gmap N processing;
  b_cursor : N; b_qdep : list deprcpt; b_qpaid : list (N * receipt); b_qrej : list N;
  (* ghosts *)
  g_accepted_votes : N;                  (* number of voted proposals accepted so far *)
  g_paid : list N; g_refund : list N;    (* ids ever told 'paid' / 'refund' to the execution layer queue *)
}.

Definition set_rel (s : bstate) prop voters epoch last acc :=
  mkBS prop voters epoch last acc (r_seq s) (r_voter s) (r_on s) (r_off s) (r_pubkeys s) (r_randao s) (r_params s) (r_accounts s) (r_book s)
       (b_params s) (b_magic s) (b_pubkey s) (b_tip s) (b_hashes s) (b_deposited s) (b_nonce s) (b_wd s) (b_pid s) (b_proc s)
       (b_cursor s) (b_qdep s) (b_qpaid s) (b_qrej s) (g_accepted_votes s) (g_paid s) (g_refund s).
Definition set_accepted (s : bstate) acc := set_rel s (r_proposer s) (r_voters s) (r_epoch s) (r_last s) acc.
Definition set_seq_randao (s : bstate) seq rd :=
  mkBS (r_proposer s) (r_voters s) (r_epoch s) (r_last s) (r_accepted s) seq (r_voter s) (r_on s) (r_off s) (r_pubkeys s) rd (r_params s) (r_accounts s) (r_book s)
       (b_params s) (b_magic s) (b_pubkey s) (b_tip s) (b_hashes s) (b_deposited s) (b_nonce s) (b_wd s) (b_pid s) (b_proc s)
       (b_cursor s) (b_qdep s) (b_qpaid s) (b_qrej s) (g_accepted_votes s + 1) (g_paid s) (g_refund s).
Definition set_voters (s : bstate) vt on off accs book :=
  mkBS (r_proposer s) (r_voters s) (r_epoch s) (r_last s) (r_accepted s) (r_seq s) vt on off (r_pubkeys s) (r_randao s) (r_params s) accs book
       (b_params s) (b_magic s) (b_pubkey s) (b_tip s) (b_hashes s) (b_deposited s) (b_nonce s) (b_wd s) (b_pid s) (b_proc s)
       (b_cursor s) (b_qdep s) (b_qpaid s) (b_qrej s) (g_accepted_votes s) (g_paid s) (g_refund s).
Definition set_pubkeys (s : bstate) pks cur :=
  mkBS (r_proposer s) (r_voters s) (r_epoch s) (r_last s) (r_accepted s) (r_seq s) (r_voter s) (r_on s) (r_off s) pks (r_randao s) (r_params s) (r_accounts s) (r_book s)
       (b_params s) (b_magic s) cur (b_tip s) (b_hashes s) (b_deposited s) (b_nonce s) (b_wd s) (b_pid s) (b_proc s)
       (b_cursor s) (b_qdep s) (b_qpaid s) (b_qrej s) (g_accepted_votes s) (g_paid s) (g_refund s).
Definition set_chain (s : bstate) tip hashes :=
  mkBS (r_proposer s) (r_voters s) (r_epoch s) (r_last s) (r_accepted s) (r_seq s) (r_voter s) (r_on s) (r_off s) (r_pubkeys s) (r_randao s) (r_params s) (r_accounts s) (r_book s)
       (b_params s) (b_magic s) (b_pubkey s) tip hashes (b_deposited s) (b_nonce s) (b_wd s) (b_pid s) (b_proc s)
       (b_cursor s) (b_qdep s) (b_qpaid s) (b_qrej s) (g_accepted_votes s) (g_paid s) (g_refund s).
Definition set_deposited (s : bstate) dep :=
  mkBS (r_proposer s) (r_voters s) (r_epoch s) (r_last s) (r_accepted s) (r_seq s) (r_voter s) (r_on s) (r_off s) (r_pubkeys s) (r_randao s) (r_params s) (r_accounts s) (r_book s)
       (b_params s) (b_magic s) (b_pubkey s) (b_tip s) (b_hashes s) dep (b_nonce s) (b_wd s) (b_pid s) (b_proc s)
       (b_cursor s) (b_qdep s) (b_qpaid s) (b_qrej s) (g_accepted_votes s) (g_paid s) (g_refund s).
Definition set_wd (s : bstate) w pid proc :=
  mkBS (r_proposer s) (r_voters s) (r_epoch s) (r_last s) (r_accepted s) (r_seq s) (r_voter s) (r_on s) (r_off s) (r_pubkeys s) (r_randao s) (r_params s) (r_accounts s) (r_book s)
       (b_params s) (b_magic s) (b_pubkey s) (b_tip s) (b_hashes s) (b_deposited s) (b_nonce s) w pid proc
       (b_cursor s) (b_qdep s) (b_qpaid s) (b_qrej s) (g_accepted_votes s) (g_paid s) (g_refund s).
Definition set_queue (s : bstate) nonce cur qd qp qr gp grf :=
  mkBS (r_proposer s) (r_voters s) (r_epoch s) (r_last s) (r_accepted s) (r_seq s) (r_voter s) (r_on s) (r_off s) (r_pubkeys s) (r_randao s) (r_params s) (r_accounts s) (r_book s)
       (b_params s) (b_magic s) (b_pubkey s) (b_tip s) (b_hashes s) (b_deposited s) nonce (b_wd s) (b_pid s) (b_proc s)
       cur qd qp qr (g_accepted_votes s) gp grf.
Definition set_bparams (s : bstate) p :=
  mkBS (r_proposer s) (r_voters s) (r_epoch s) (r_last s) (r_accepted s) (r_seq s) (r_voter s) (r_on s) (r_off s) (r_pubkeys s) (r_randao s) (r_params s) (r_accounts s) (r_book s)
       p (b_magic s) (b_pubkey s) (b_tip s) (b_hashes s) (b_deposited s) (b_nonce s) (b_wd s) (b_pid s) (b_proc s)
       (b_cursor s) (b_qdep s) (b_qpaid s) (b_qrej s) (g_accepted_votes s) (g_paid s) (g_refund s).

Variable chain_id : bytes.

(* ---- sign docs ---- *)
Definition vote_sign_doc (method : bytes) (proposer_str : bytes) (seq epoch : N) (data : bytes) : bytes :=
  H (chain_id ++ le64 seq ++ le64 epoch ++ method ++ proposer_str ++ data).

Definition bytes_of_string (s : string) : bytes := map N_of_ascii (list_ascii_of_string s).
Definition m_newpubkey := bytes_of_string "Bitcoin/NewPubkey".
Definition m_newblocks := bytes_of_string "Bitcoin/NewBlocks".
Definition m_process := bytes_of_string "Bitcoin/ProcessWithdrawal".
Definition m_replace := bytes_of_string "Bitcoin/ReplaceWithdrawal".
Definition m_consolidation := bytes_of_string "Bitcoin/NewConsolidation".
Definition m_newvoter := bytes_of_string "Relayer/NewVoter".

(* ---- bitmap (kelindar/bitmap over little-endian 64-bit words) ---- *)
Definition popcount_byte (b : N) : N :=
  N.b2n (N.testbit b 0) + N.b2n (N.testbit b 1) + N.b2n (N.testbit b 2) + N.b2n (N.testbit b 3) +
  N.b2n (N.testbit b 4) + N.b2n (N.testbit b 5) + N.b2n (N.testbit b 6) + N.b2n (N.testbit b 7).
Definition bitmap_count (bm : bytes) : N := sumN (map popcount_byte bm).
Definition bitmap_contains (bm : bytes) (i : N) : bool := N.testbit (nth (N.to_nat (i / 8)) bm 0) (i mod 8).

(* Relayer.Threshold(): ceil((1+n)*2/3) *)
Definition threshold (n : N) : N := (2 * (n + 1) + 2) / 3.

Fixpoint collect_keys (s : bstate) (bm : bytes) (i : N) (voters : list N) : res (list vkey) :=
  match voters with
  | [] => Ok []
  | a :: r =>
    if bitmap_contains bm i then
      match r_voter s !! a with
      | None => Err
      | Some vt => do ks <- collect_keys s bm (i + 1) r; Ok (vt_key vt :: ks)
      end
    else collect_keys s bm (i + 1) r
  end.

Definition sorted_N (l : list N) : list N := merge_sort N.le l.
Definition key_ids (ks : list vkey) : option (list N) :=
  fold_right (fun k acc => match k, acc with VKKey i, Some l => Some (i :: l) | _, _ => None end) (Some []) ks.

(* AggregateVerify(pubkeys, msg, sig) under the symbolic reading *)
Definition agg_verify (ks : list vkey) (msg : bytes) (sg : option sigdesc) : bool :=
  match sg, key_ids ks with
  | Some d, Some ids => bool_decide (sorted_N ids = sorted_N (sg_signers d)) && beq_bytes msg (sg_msg d)
  | _, _ => false
  end.

(* VerifyProposal: returns the sequence and the state (accepted flag possibly set) *)
Definition verify_proposal (s : bstate) (proposer : N) (v : vote) (method data : bytes) : res (bstate * N) :=
  if negb (proposer =? r_proposer s) then Err else
  if negb (vo_seq v =? r_seq s) then Err else
  if negb (vo_epoch v =? r_epoch s) then Err else
  if negb (N.of_nat (length (vo_bitmap v)) mod 8 =? 0) then Panic else      (* bitmap.FromBytes *)
  let cnt := bitmap_count (vo_bitmap v) in
  let n := N.of_nat (length (r_voters s)) in
  if (cnt + 1 <? threshold n) || (n <? cnt) then Err else
  match r_voter s !! r_proposer s with
  | None => Err
  | Some pv =>
    do ks <- collect_keys s (vo_bitmap v) 0 (r_voters s);
    if negb (N.of_nat (length ks) =? cnt) then Err else        (* every mark must denote a current voter (repair) *)
    let doc := vote_sign_doc method (default [] (r_book s !! r_proposer s)) (r_seq s) (r_epoch s) data in
    if negb (agg_verify (vt_key pv :: ks) doc (vo_sig v)) then Err else
    Ok (set_accepted s true, r_seq s)
  end.

Definition verify_non_proposal (s : bstate) (proposer : N) : res bstate :=
  if negb (proposer =? r_proposer s) then Err else Ok (set_accepted s true).

Definition vote_validate (v : vote) : bool :=
  (N.of_nat (length (vo_bitmap v)) <=? 32) && (N.of_nat (length (vo_sigraw v)) =? c_BlsSignatureLength).

(* bump sequence + randao after an accepted voted proposal *)
Definition finish_vote (s : bstate) (seq : N) (v : vote) : bstate :=
  set_seq_randao s (seq + 1) (H (r_randao s ++ vo_sigraw v)).

(* ------------------------------------------------------------------ keys and scripts *)
Definition key_validate (k : btckey) : bool :=
  match k_type k with
  | 0 => (N.of_nat (length (k_raw k)) =? 33) && ((hd 0 (k_raw k) =? 2) || (hd 0 (k_raw k) =? 3))
  | 1 => N.of_nat (length (k_raw k)) =? 32
  | _ => false
  end.
Definition key_id (k : btckey) : N * N := (k_type k, be_val (k_raw k)).

Definition script_v0_secp (k : btckey) (evm : bytes) : bytes :=
  [34; 0; 32] ++ [] .   (* placeholder, see deposit_script_v0 *)

(* redeem script: push20 evm, OP_DROP(0x75), push33 key, OP_CHECKSIG(0xac) *)
Definition redeem_v0 (k : btckey) (evm : bytes) : bytes := [20] ++ evm ++ [117; 33] ++ k_raw k ++ [172].
Definition p2wsh (prog : bytes) : bytes := [0; 32] ++ prog.
Definition p2wpkh (h : bytes) : bytes := [0; 20] ++ h.
Definition p2tr (x : bytes) : bytes := [81; 32] ++ x.
Definition opreturn_v1 (magic evm : bytes) : bytes := [106; 24] ++ magic ++ evm.

(* VerifyDespositScriptV0; [tweak] = ComputeTaprootOutputKey(key, evm) for schnorr keys (None = key does not parse) *)
Definition verify_script_v0 (k : btckey) (evm : bytes) (tweak : option bytes) (txout : bytes) : bool :=
  if negb (N.of_nat (length evm) =? 20) then false else
  match k_type k with
  | 0 => beq_bytes txout (p2wsh (H (redeem_v0 k evm)))
  | 1 => match tweak with
         | Some tw => (N.of_nat (length txout) =? 34) && beq_bytes txout (p2tr tw)
         | None => false
         end
  | _ => false
  end.

Definition verify_script_v1 (k : btckey) (magic evm : bytes) (txout0 txout1 : bytes) : bool :=
  if negb (N.of_nat (length magic) =? c_DepositMagicLen) then false else
  if negb (N.of_nat (length evm) =? 20) then false else
  match k_type k with
  | 0 => beq_bytes txout0 (p2wpkh (k_h160 k)) && (N.of_nat (length txout0) =? 22)
         && beq_bytes txout1 (opreturn_v1 magic evm)
  | _ => false
  end.

(* VerifySystemAddressScript *)
Definition verify_system_script (k : btckey) (script : bytes) : bool :=
  match k_type k with
  | 0 => (N.of_nat (length script) =? 22) && beq_bytes script (p2wpkh (k_h160 k))
  | 1 => (N.of_nat (length script) =? 34) && (negb (beq_bytes (k_taproot k) [])) && beq_bytes script (p2tr (k_taproot k))
  | _ => false
  end.

(* ------------------------------------------------------------------ deposits *)
Record deposit := mkDeposit {
  dp_version : N; dp_height : N; dp_txindex : N; dp_tx : bytes; dp_parsed : option (list (N * bytes));
  dp_vout : N; dp_proof : bytes; dp_evm : bytes; dp_key : option btckey; dp_tweak : option bytes;
}.

Definition header_root (h : bytes) : bytes := firstn 32 (skipn 36 h).

Definition find_header (headers : list (N * bytes)) (h : N) : bytes :=
  default [] (snd <$> find (fun '(h', _) => h' =? h) headers).

Definition verify_deposit (s : bstate) (headers : list (N * bytes)) (d : deposit) : res deprcpt :=
  match dp_key d with
  | None => Err                         (* EncodePublicKey(nil key) is not registered *)
  | Some k =>
    if negb (bool_decide (key_id k ∈ r_pubkeys s)) then Err else
    match b_hashes s !! dp_height d with
    | None => Err
    | Some bh =>
      if (dp_txindex d =? 0) && (b_tip s <? dp_height d + c_CoinbaseMaturity) then Err else
      let hdr := find_header headers (dp_height d) in
      if negb (N.of_nat (length hdr) =? c_RawBtcHeaderSize) then Err else
      if negb (beq_bytes bh (H2 hdr)) then Err else
      match dp_parsed d with
      | None => Err
      | Some outs =>
        if N.of_nat (length outs) <=? dp_vout d then Err else
        let txid := H2 (dp_tx d) in
        if bool_decide (is_Some (b_deposited s !! (be_val txid, dp_vout d))) then Err else
        let '(value, script) := nth (N.to_nat (dp_vout d)) outs (0, []) in
        if value <? bp_min (b_params s) then Err else
        let script_ok :=
          match dp_version d with
          | 0 => verify_script_v0 k (dp_evm d) (dp_tweak d) script
          | 1 => (dp_vout d =? 0) && (2 <=? N.of_nat (length outs))
                 && verify_script_v1 k (b_magic s) (dp_evm d) script (snd (nth 1 outs (0, [])))
          | _ => false
          end in
        if negb script_ok then Err else
        if negb (verify H2 txid (header_root hdr) (dp_proof d) (dp_txindex d)) then Err else
        let tax := tax_of (b_params s) value in
        Ok (mkDep (dp_evm d) txid (dp_vout d) (value - tax) tax)
      end
    end
  end.

Definition deposit_validate (d : deposit) : bool :=
  (N.of_nat (length (dp_evm d)) =? 20)
  && (c_MinDepositTxSize <=? N.of_nat (length (dp_tx d))) && (N.of_nat (length (dp_tx d)) <=? c_MaxAllowedBtcTxSize)
  && match dp_key d with Some k => key_validate k | None => false end.

Fixpoint headers_map_ok (seen : list N) (hs : list (N * bytes)) : bool :=
  match hs with
  | [] => true
  | (h, raw) :: r =>
    (N.of_nat (length raw) =? c_RawBtcHeaderSize) && negb (existsb (N.eqb h) seen) && headers_map_ok (h :: seen) r
  end.

Fixpoint deposits_loop (s : bstate) (headers : list (N * bytes)) (ds : list deposit) (acc : list deprcpt) : res (bstate * list deprcpt) :=
  match ds with
  | [] => Ok (s, acc)
  | d :: r =>
    if negb (deposit_validate d) then Err else
    do rc <- verify_deposit s headers d;
    let s' := set_deposited s (<[(be_val (d_txid rc), d_txout rc) := d_amount rc + d_tax rc]> (b_deposited s)) in
    deposits_loop s' headers r (acc ++ [rc])
  end.

Definition new_deposits (s : bstate) (proposer : N) (headers : list (N * bytes)) (ds : list deposit) : res bstate :=
  let nd := N.of_nat (length ds) in let nh := N.of_nat (length headers) in
  if (nd =? 0) || (16 <? nd) || (nh =? 0) || (nd <? nh) then Err else
  if negb (headers_map_ok [] headers) then Err else
  do s1 <- verify_non_proposal s proposer;
  do x <- deposits_loop s1 headers ds [];
  let '(s2, rcs) := x in
  Ok (set_queue s2 (b_nonce s2) (b_cursor s2) (b_qdep s2 ++ rcs) (b_qpaid s2) (b_qrej s2) (g_paid s2) (g_refund s2)).

(* ------------------------------------------------------------------ voted bitcoin messages *)
Definition new_block_hashes (s : bstate) (proposer : N) (v : option vote) (start : N) (hashes : list bytes) : res bstate :=
  match v with
  | None => Err
  | Some v =>
    if (start =? 0) || (16 <? N.of_nat (length hashes)) || negb (forallb (fun h => N.of_nat (length h) =? 32) hashes)
       || negb (vote_validate v) then Err else
    if negb (start =? b_tip s + 1) then Err else
    let data := repeat 0 8 ++ le64 start ++ concat hashes in
    do x <- verify_proposal s proposer v m_newblocks data;
    let '(s1, seq) := x in
    let '(tip, hs) := fold_left (fun '(t, m) h => (t + 1, <[t + 1 := h]> m)) hashes (b_tip s1, b_hashes s1) in
    Ok (finish_vote (set_chain s1 tip hs) seq v)
  end.

Definition encode_key (k : btckey) : bytes := k_type k :: k_raw k.

Definition new_pubkey (s : bstate) (proposer : N) (v : option vote) (k : option btckey) : res bstate :=
  match v with
  | None => Err
  | Some v =>
    match k with
    | None => Err
    | Some k =>
      if negb (key_validate k) || negb (vote_validate v) then Err else
      do x <- verify_proposal s proposer v m_newpubkey (encode_key k);
      let '(s1, seq) := x in
      if bool_decide (key_id k ∈ r_pubkeys s1) then Err else
      Ok (finish_vote (set_pubkeys s1 ({[ key_id k ]} ∪ r_pubkeys s1) (Some k)) seq v)
    end
  end.

Definition tx_size_ok (tx : bytes) : bool :=
  (c_MinBtcTxSize <=? N.of_nat (length tx)) && (N.of_nat (length tx) <=? c_MaxAllowedBtcTxSize).

(* the per-withdrawal checks shared by process and replace *)
Definition wd_output_ok (w : wd) (fee txlen : N) (out : N * bytes) : bool :=
  negb (w_price w * txlen <? fee)                                  (* fee/len > price, exact (values below 2^53) *)
  && match w_script w with Some sc => beq_bytes sc (snd out) | None => false end
  && (fst out <=? w_amount w).

Fixpoint process_loop (s : bstate) (txid : bytes) (fee txlen : N) (idx : N) (ids : list N) (outs : list (N * bytes)) (vals : list N)
  : res (bstate * list N) :=
  match ids with
  | [] => Ok (s, vals)
  | wid :: r =>
    match b_wd s !! wid with
    | None => Err
    | Some w =>
      if negb ((w_status w =? 1) || (w_status w =? 3)) then Err else
      let out := nth (N.to_nat idx) outs (0, []) in
      if negb (w_price w * txlen <? fee) then
        match w_script w with
        | None => Err
        | Some sc =>
          if negb (beq_bytes sc (snd out)) then Err else
          if w_amount w <? fst out then Err else
          let w' := mkWd (w_addr w) (w_script w) (w_amount w) (w_price w) 2 (Some (mkRcpt txid idx (fst out))) in
          process_loop (set_wd s (<[wid := w']> (b_wd s)) (b_pid s) (b_proc s)) txid fee txlen (idx + 1) r outs (vals ++ [fst out])
        end
      else Err
    end
  end.

Definition change_ok (s : bstate) (nids : nat) (outs : list (N * bytes)) : bool :=
  if (length outs =? nids)%nat then true
  else match b_pubkey s with
       | Some k => verify_system_script k (snd (nth nids outs (0, [])))
       | None => false
       end.

Definition process_withdrawal (s : bstate) (proposer : N) (v : option vote) (tx : bytes) (parsed : option (list (N * bytes)))
           (ids : list N) (fee : N) : res bstate :=
  match v with
  | None => Err
  | Some v =>
    if negb (tx_size_ok tx) || (fee =? 0) || (length ids =? 0)%nat || (32 <? length ids)%nat then Err else
    match parsed with
    | None => Err
    | Some outs =>
      let no := length outs in let ni := length ids in
      if negb ((no =? ni)%nat || (no =? ni + 1)%nat) then Err else
      let data := concat (map le64 ids) ++ H tx ++ le64 fee in
      do x <- verify_proposal s proposer v m_process data;
      let '(s1, seq) := x in
      let txid := H2 tx in
      do y <- process_loop s1 txid fee (N.of_nat (length tx)) 0 ids outs [];
      let '(s2, vals) := y in
      if negb (change_ok s2 ni outs) then Err else
      let s3 := set_wd s2 (b_wd s2) (b_pid s2 + 1) (<[b_pid s2 := mkProc [txid] [vals] ids fee]> (b_proc s2)) in
      Ok (finish_vote s3 seq v)
    end
  end.

Fixpoint replace_loop (s : bstate) (txid : bytes) (fee txlen : N) (idx : N) (ids : list N) (outs : list (N * bytes)) (vals : list N)
  : res (bstate * list N) :=
  match ids with
  | [] => Ok (s, vals)
  | wid :: r =>
    match b_wd s !! wid with
    | None => Err
    | Some w =>
      match w_receipt w with
      | None => Err
      | Some rc =>
        if negb (w_status w =? 2) then Err else
        let out := nth (N.to_nat idx) outs (0, []) in
        if w_price w * txlen <? fee then Err else
        match w_script w with
        | None => Err
        | Some sc =>
          if negb (beq_bytes sc (snd out)) then Err else
          if w_amount w <? fst out then Err else
          let w' := mkWd (w_addr w) (w_script w) (w_amount w) (w_price w) 2 (Some (mkRcpt txid (rc_txout rc) (fst out))) in
          replace_loop (set_wd s (<[wid := w']> (b_wd s)) (b_pid s) (b_proc s)) txid fee txlen (idx + 1) r outs (vals ++ [fst out])
        end
      end
    end
  end.

Definition replace_withdrawal (s : bstate) (proposer : N) (v : option vote) (pid : N) (tx : bytes) (parsed : option (list (N * bytes)))
           (fee : N) : res bstate :=
  match v with
  | None => Err
  | Some v =>
    if negb (tx_size_ok tx) || (fee =? 0) then Err else
    match parsed with
    | None => Err
    | Some outs =>
      let txid := H2 tx in
      match b_proc s !! pid with
      | None => Err
      | Some pr =>
        if fee <=? p_fee pr then Err else
        if existsb (beq_bytes txid) (p_txids pr) then Err else
        let no := length outs in let ni := length (p_ids pr) in
        if negb ((no =? ni)%nat || (no =? ni + 1)%nat) then Err else
        let data := le64 pid ++ le64 fee ++ H tx in
        do x <- verify_proposal s proposer v m_replace data;
        let '(s1, seq) := x in
        do y <- replace_loop s1 txid fee (N.of_nat (length tx)) 0 (p_ids pr) outs [];
        let '(s2, vals) := y in
        if negb (change_ok s2 ni outs) then Err else
        let pr' := mkProc (p_txids pr ++ [txid]) (p_outputs pr ++ [vals]) (p_ids pr) fee in
        Ok (finish_vote (set_wd s2 (b_wd s2) (b_pid s2) (<[pid := pr']> (b_proc s2))) seq v)
      end
    end
  end.

Fixpoint index_of_bytes (x : bytes) (l : list bytes) (i : nat) : option nat :=
  match l with [] => None | y :: r => if beq_bytes y x then Some i else index_of_bytes x r (S i) end.

Fixpoint finalize_loop (s : bstate) (txid : bytes) (idx : nat) (ids : list N) (vals : list N) (paid : list (N * receipt))
  : res (bstate * list (N * receipt)) :=
  match ids with
  | [] => Ok (s, paid)
  | wid :: r =>
    match b_wd s !! wid with
    | None => Err
    | Some w =>
      if negb (w_status w =? 2) then Err else
      match w_receipt w with
      | None => Err
      | Some rc =>
        let rc' := mkRcpt txid (rc_txout rc) (nth idx vals 0) in
        let w' := mkWd (w_addr w) (w_script w) (w_amount w) (w_price w) 5 (Some rc') in
        finalize_loop (set_wd s (<[wid := w']> (b_wd s)) (b_pid s) (b_proc s)) txid (S idx) r vals (paid ++ [(wid, rc')])
      end
    end
  end.

Definition finalize_withdrawal (s : bstate) (proposer : N) (pid : N) (txid : bytes) (height txindex : N) (proof header : bytes) : res bstate :=
  if negb (N.of_nat (length txid) =? 32) || (txindex =? 0) || (length proof =? 0)%nat
     || negb (N.of_nat (length header) =? c_RawBtcHeaderSize) then Err else
  do s1 <- verify_non_proposal s proposer;
  match b_proc s1 !! pid with
  | None => Err
  | Some pr =>
    if negb (length (p_txids pr) =? length (p_outputs pr))%nat then Err else
    match index_of_bytes txid (p_txids pr) 0 with
    | None => Err
    | Some i =>
      let vals := nth i (p_outputs pr) [] in
      if negb (length vals =? length (p_ids pr))%nat then Err else
      match b_hashes s1 !! height with
      | None => Err
      | Some bh =>
        if negb (beq_bytes bh (H2 header)) then Err else
        if negb (verify H2 txid (header_root header) proof txindex) then Err else
        do y <- finalize_loop s1 txid 0 (p_ids pr) vals [];
        let '(s2, paid) := y in
        let s3 := set_queue s2 (b_nonce s2) (b_cursor s2) (b_qdep s2) (b_qpaid s2 ++ paid) (b_qrej s2) (g_paid s2 ++ map fst paid) (g_refund s2) in
        Ok (set_wd s3 (b_wd s3) (b_pid s3) (delete pid (b_proc s3)))
      end
    end
  end.

Fixpoint cancel_loop (s : bstate) (ids : list N) : res bstate :=
  match ids with
  | [] => Ok s
  | wid :: r =>
    match b_wd s !! wid with
    | None => Err
    | Some w =>
      if negb (w_status w =? 3) then Err else
      let w' := mkWd (w_addr w) (w_script w) (w_amount w) (w_price w) 4 (w_receipt w) in
      cancel_loop (set_wd s (<[wid := w']> (b_wd s)) (b_pid s) (b_proc s)) r
    end
  end.

Definition approve_cancellation (s : bstate) (proposer : N) (ids : list N) : res bstate :=
  if (length ids =? 0)%nat || (32 <? length ids)%nat then Err else
  do s1 <- verify_non_proposal s proposer;
  do s2 <- cancel_loop s1 ids;
  Ok (set_queue s2 (b_nonce s2) (b_cursor s2) (b_qdep s2) (b_qpaid s2) (b_qrej s2 ++ ids) (g_paid s2) (g_refund s2 ++ ids)).

Definition new_consolidation (s : bstate) (proposer : N) (v : option vote) (tx : bytes) (parsed : option (list (N * bytes))) : res bstate :=
  if negb (tx_size_ok tx) then Err else
  match v with
  | None => Panic                          (* req.Vote.Validate() on a nil Vote *)
  | Some v =>
    if negb (vote_validate v) then Err else
    match parsed with
    | None => Err
    | Some outs =>
      if negb (length outs =? 1)%nat then Err else
      match b_pubkey s with
      | None => Err
      | Some k =>
        if negb (verify_system_script k (snd (nth 0 outs (0, [])))) then Err else
        do x <- verify_proposal s proposer v m_consolidation (H tx);
        let '(s1, seq) := x in
        Ok (finish_vote s1 seq v)
      end
    end
  end.

(* ------------------------------------------------------------------ bridge requests *)
(* withdraw: id, amount, price, address id, decoded script (None = address does not decode for the network) *)
Definition bridge_withdraw (s : bstate) (r : N * N * N * N * option bytes) : bstate :=
  let '(id, amt, price, addr, sc) := r in
  let st := match sc with Some _ => 1 | None => 4 end in
  let s1 := set_wd s (<[id := mkWd addr sc amt price st None]> (b_wd s)) (b_pid s) (b_proc s) in
  s1.

Definition bridge_rbf (s : bstate) (r : N * N) : res bstate :=
  let '(id, price) := r in
  match b_wd s !! id with
  | None => Err
  | Some w =>
    if (w_status w =? 1) || (w_status w =? 2) then
      Ok (set_wd s (<[id := mkWd (w_addr w) (w_script w) (w_amount w) price (w_status w) (w_receipt w)]> (b_wd s)) (b_pid s) (b_proc s))
    else Ok s
  end.

Definition bridge_cancel1 (s : bstate) (id : N) : res bstate :=
  match b_wd s !! id with
  | None => Err
  | Some w =>
    if w_status w =? 1 then
      Ok (set_wd s (<[id := mkWd (w_addr w) (w_script w) (w_amount w) (w_price w) 3 (w_receipt w)]> (b_wd s)) (b_pid s) (b_proc s))
    else Ok s
  end.

Record breqs := mkBR {
  br_withdraws : list (N * N * N * N * option bytes);
  br_rbfs : list (N * N); br_cancels : list N;
  br_params : preqs;
}.

Fixpoint fold_res {A B} (f : A -> B -> res A) (l : list B) (a : A) : res A :=
  match l with [] => Ok a | b :: r => do a' <- f a b; fold_res f r a' end.

Definition process_bridge_request (s : bstate) (q : breqs) : res bstate :=
  let s1 := fold_left bridge_withdraw (br_withdraws q) s in
  let rejected := map (fun '(id, _, _, _, _) => id) (filter (fun '(_, _, _, _, sc) => negb (bool_decide (is_Some sc))) (br_withdraws q)) in
  let s2 := set_queue s1 (b_nonce s1) (b_cursor s1) (b_qdep s1) (b_qpaid s1) (b_qrej s1 ++ rejected) (g_paid s1) (g_refund s1 ++ rejected) in
  do s3 <- fold_res bridge_rbf (br_rbfs q) s2;
  do s4 <- fold_res bridge_cancel1 (br_cancels q) s3;
  Ok (set_bparams s4 (apply_preqs (b_params s4) (br_params q))).

(* ------------------------------------------------------------------ hand-over *)
Inductive btx :=
| TxHash (nonce : N) (h : bytes)
| TxDeposit (nonce : N) (d : deprcpt)
| TxPaid (nonce : N) (id : N) (r : receipt)
| TxReject (nonce : N) (id : N).

Fixpoint number_from {A} (f : N -> A -> btx) (n : N) (l : list A) : list btx :=
  match l with [] => [] | x :: r => f n x :: number_from f (n + 1) r end.

Definition dequeue_btc (s : bstate) : res (bstate * list btx) :=
  let n0 := b_nonce s in
  let '(cur, t1, e) :=
    if b_cursor s <? b_tip s then
      match b_hashes s !! (b_cursor s + 1) with
      | Some h => (b_cursor s + 1, [TxHash n0 h], false)
      | None => (b_cursor s, [], true)
      end
    else (b_cursor s, [], false) in
  if e then Err else
  let n1 := n0 + N.of_nat (length t1) in
  let nd := N.to_nat c_MaxDeposit in
  let ds := firstn nd (b_qdep s) in
  let n2 := n1 + N.of_nat (length ds) in
  let nw := N.to_nat c_MaxWithdrawal in
  let ps := firstn nw (b_qpaid s) in
  let n3 := n2 + N.of_nat (length ps) in
  let rs := firstn (nw - length ps) (b_qrej s) in
  let txs := t1 ++ number_from TxDeposit n1 ds ++ number_from (fun n '(id, r) => TxPaid n id r) n2 ps
                ++ number_from TxReject n3 rs in
  match txs with
  | [] => Ok (s, [])
  | _ => Ok (set_queue s (n3 + N.of_nat (length rs)) cur (skipn nd (b_qdep s)) (skipn nw (b_qpaid s))
                       (skipn (nw - length ps) (b_qrej s)) (g_paid s) (g_refund s), txs)
  end.

(* ------------------------------------------------------------------ relayer membership *)
(* adds: (address id, bech32 bytes, registered key-hash id); removes: address id *)
Definition relayer_add (s : bstate) (height : N) (r : N * bytes * N) : bstate :=
  let '(a, str, kh) := r in
  match r_voter s !! a with
  | Some _ => s
  | None => set_voters s (<[a := mkVoter (VKHash kh) 1 height]> (r_voter s)) (r_on s) (r_off s) (r_accounts s) (<[a := str]> (r_book s))
  end.

Fixpoint relayer_removes (s : bstate) (active : Z) (l : list N) : bstate :=
  match l with
  | [] => s
  | a :: r =>
    match r_voter s !! a with
    | None => relayer_removes s active r
    | Some vt =>
      if negb (vt_status vt =? 4) then relayer_removes s active r else
      if (active - 1 <? 1)%Z then s else
      relayer_removes (set_voters s (<[a := mkVoter (vt_key vt) 3 (vt_height vt)]> (r_voter s)) (r_on s) (r_off s ++ [a]) (r_accounts s) (r_book s))
                      (active - 1)%Z r
    end
  end.

Definition process_relayer_request (s : bstate) (height : N) (adds : list (N * bytes * N)) (removes : list N) : bstate :=
  let s1 := fold_left (fun s r => relayer_add s height r) adds s in
  match removes with
  | [] => s1
  | _ => relayer_removes s1 (Z.of_nat (length (r_voters s1)) + 1 - Z.of_nat (length (r_off s1)))%Z removes
  end.

(* NewVoter: tx key -> address id [addr] (hash160 by the harness), bls key id [k], proofs as descriptors
   (signer key id, signed bytes); lengths_ok = the four length checks of Validate *)
Definition new_voter (s : bstate) (proposer : N) (lengths_ok : bool) (addr : N) (addr_raw : bytes) (k : N) (khash_raw : bytes)
           (txproof : option (N * bytes)) (blsproof : option (N * bytes)) : res bstate :=
  if negb lengths_ok then Err else
  do s1 <- verify_non_proposal s proposer;
  match r_voter s1 !! addr with
  | None => Err
  | Some vt =>
    if negb (vt_status vt =? 1) then Err else
    if negb (bool_decide (vt_key vt = VKHash k)) then Err else
    let doc := vote_sign_doc m_newvoter (default [] (r_book s1 !! proposer)) 0 (r_epoch s1)
                 (le64 (vt_height vt) ++ addr_raw ++ khash_raw) in
    match txproof with
    | Some (signer, msg) =>
      if negb ((signer =? addr) && beq_bytes msg doc) then Err else
      match blsproof with
      | Some (bsigner, bmsg) =>
        if negb ((bsigner =? k) && beq_bytes bmsg doc) then Err else
        let has := bool_decide (addr ∈ r_accounts s1) in
        if has then
          Ok (set_voters s1 (<[addr := mkVoter (VKKey k) 3 (vt_height vt)]> (r_voter s1)) (r_on s1) (r_off s1 ++ [addr]) (r_accounts s1) (r_book s1))
        else
          Ok (set_voters s1 (<[addr := mkVoter (VKKey k) 2 (vt_height vt)]> (r_voter s1)) (r_on s1 ++ [addr]) (r_off s1)
                         ({[ addr ]} ∪ r_accounts s1) (r_book s1))
      | None => Err
      end
    | None => Err
    end
  end.

Definition accept_proposer (s : bstate) (now : Z) (proposer : N) (epoch : N) : res bstate :=
  if negb (proposer =? r_proposer s) then Err else
  if r_accepted s then Err else
  if negb (epoch =? r_epoch s) then Err else
  if (now - r_last s >? rp_timeout (r_params s))%Z then Err else
  Ok (set_accepted s true).

(* EndBlocker *)
Definition swap_proposer (prop : N) (voters : list N) (i : nat) : N * list N :=
  (nth i voters prop, firstn i voters ++ [prop] ++ skipn (S i) voters).

Definition relayer_end_block (s : bstate) (now : Z) : res bstate :=
  let dur := (now - r_last s)%Z in
  if (dur <? rp_period (r_params s))%Z
     && (r_accepted s || (rp_timeout (r_params s) =? 0)%Z || (dur <? rp_timeout (r_params s))%Z) then Ok s else
  let onb := negb (length (r_on s) =? 0)%nat in
  let offb := negb (length (r_off s) =? 0)%nat in
  (* on-boarding: every queued voter must have a record *)
  if negb (forallb (fun a => bool_decide (is_Some (r_voter s !! a))) (r_on s)) then Err else
  let vt1 := fold_left (fun m a => match m !! a with Some v => <[a := mkVoter (vt_key v) 4 (vt_height v)]> m | None => m end) (r_on s) (r_voter s) in
  let voters1 := r_voters s ++ r_on s in
  let vt2 := fold_left (fun m a => delete a m) (r_off s) vt1 in
  let removed := existsb (N.eqb (r_proposer s)) (r_off s) in
  let new_voters := filter (fun a => negb (existsb (N.eqb a) (r_off s))) voters1 in
  if offb && removed && (length new_voters =? 0)%nat then Err else
  let '(prop1, voters2) :=
    if offb && removed then (hd 0 new_voters, tl new_voters) else (r_proposer s, if offb then new_voters else voters1) in
  let epoch := r_epoch s + 1 in
  let s1 := if onb || offb then set_voters s vt2 [] [] (r_accounts s) (r_book s) else s in
  if (onb || offb) && (offb && removed) then Ok (set_rel s1 prop1 voters2 epoch now false) else
  match voters2 with
  | [] => Ok (set_rel s1 prop1 voters2 epoch now true)
  | [_] => let '(p, vs) := swap_proposer prop1 voters2 0 in Ok (set_rel s1 p vs epoch now false)
  | _ =>
    let rnd := be_val (H (r_randao s ++ le64 epoch)) in
    let i := N.to_nat (rnd mod N.of_nat (length voters2)) in
    let '(p, vs) := swap_proposer prop1 voters2 i in
    Ok (set_rel s1 p vs epoch now false)
  end.

(* ------------------------------------------------------------------ step function *)
Inductive bop :=
| BHashes (prop : N) (v : option vote) (start : N) (hashes : list bytes)
| BPubkey (prop : N) (v : option vote) (k : option btckey)
| BDeposits (prop : N) (headers : list (N * bytes)) (ds : list deposit)
| BProcess (prop : N) (v : option vote) (tx : bytes) (parsed : option (list (N * bytes))) (ids : list N) (fee : N)
| BReplace (prop : N) (v : option vote) (pid : N) (tx : bytes) (parsed : option (list (N * bytes))) (fee : N)
| BFinalize (prop : N) (pid : N) (txid : bytes) (height txindex : N) (proof header : bytes)
| BCancel (prop : N) (ids : list N)
| BConsolidation (prop : N) (v : option vote) (tx : bytes) (parsed : option (list (N * bytes)))
| BBridgeReq (q : breqs)
| BDequeue
| BRelayerReq (height : N) (adds : list (N * bytes * N)) (removes : list N)
| BNewVoter (prop : N) (lengths_ok : bool) (addr : N) (addr_raw : bytes) (k : N) (khash_raw : bytes)
            (txproof blsproof : option (N * bytes))
| BAccept (now : Z) (prop : N) (epoch : N)
| BEnd (now : Z).

Definition deliver_b (s : bstate) (r : res bstate) : bstate * (N * list btx) :=
  match r with Ok s' => (s', (0, [])) | Err => (s, (1, [])) | Panic => (s, (2, [])) end.

Definition bk_step (s : bstate) (o : bop) : bstate * (N * list btx) :=
  match o with
  | BHashes p v st hs => deliver_b s (new_block_hashes s p v st hs)
  | BPubkey p v k => deliver_b s (new_pubkey s p v k)
  | BDeposits p hs ds => deliver_b s (new_deposits s p hs ds)
  | BProcess p v tx pr ids fee => deliver_b s (process_withdrawal s p v tx pr ids fee)
  | BReplace p v pid tx pr fee => deliver_b s (replace_withdrawal s p v pid tx pr fee)
  | BFinalize p pid txid h i proof hdr => deliver_b s (finalize_withdrawal s p pid txid h i proof hdr)
  | BCancel p ids => deliver_b s (approve_cancellation s p ids)
  | BConsolidation p v tx pr => deliver_b s (new_consolidation s p v tx pr)
  | BBridgeReq q => deliver_b s (process_bridge_request s q)
  | BDequeue => match dequeue_btc s with Ok (s', t) => (s', (0, t)) | _ => (s, (1, [])) end
  | BRelayerReq h adds rms => (process_relayer_request s h adds rms, (0, []))
  | BNewVoter p lok a araw k kraw tp bp => deliver_b s (new_voter s p lok a araw k kraw tp bp)
  | BAccept now p e => deliver_b s (accept_proposer s now p e)
  | BEnd now => deliver_b s (relayer_end_block s now)
  end.

Definition bk_run (s : bstate) (ops : list bop) : bstate := fold_left (fun s o => fst (bk_step s o)) ops s.

End Bridge.
