(* Export / import of the locking module state (x/locking/module/genesis.go) and the derived
   collections InitGenesis rebuilds: per-token locking index, power ranking, recorded validator
   set, threshold list.  Definitions only. *)
From stdpp Require Import gmap.
From Goat Require Import Base.Prelude Model.Locking.
Local Open Scope Z_scope.

(* ---- what InitGenesis rebuilds from the validators / tokens ---- *)
Definition rank_entry (a : N) (v : validator) : option (N * N) :=
  if in_ranking_status (v_status v) && (0 <? v_power v)%N then Some (v_power v, a) else None.
Definition rebuild_rank (vals : gmap N validator) : gset (N * N) :=
  list_to_set (omap (fun av => rank_entry (fst av) (snd av)) (map_to_list vals)).

(* (token, validator) -> amount for the holdings of ranked validators *)
Definition hold_if_ranked (v : validator) : option (gmap N Z) :=
  if in_ranking_status (v_status v) then Some (v_hold v) else None.
Definition swap_key (p : N * N) : N * N := (snd p, fst p).
Definition rebuild_index (vals : gmap N validator) : gmap (N * N) Z :=
  kmap swap_key (gmap_uncurry (omap hold_if_ranked vals)).

Definition rebuild_set (vals : gmap N validator) : gmap N N :=
  omap (fun v => match v_status v with Active => Some (v_power v) | _ => None end) vals.

Definition rebuild_thr (toks : gmap N token) : gmap N Z :=
  omap (fun tk => if t_thr tk =? 0 then None else Some (t_thr tk)) toks.

(* the derived collections agree with their sources *)
Definition derived_ok (s : lstate) : Prop :=
  l_rank s = rebuild_rank (l_val s) /\ l_index s = rebuild_index (l_val s) /\ l_thr s = rebuild_thr (l_tok s).
Definition derived_okb (s : lstate) : bool :=
  bool_decide (l_rank s = rebuild_rank (l_val s)) && bool_decide (l_index s = rebuild_index (l_val s))
  && bool_decide (l_thr s = rebuild_thr (l_tok s)).
(* at block boundaries (after EndBlocker) the recorded set is the active validators with their power *)
Definition set_ok (s : lstate) : Prop := l_set s = rebuild_set (l_val s).
Definition set_okb (s : lstate) : bool := bool_decide (l_set s = rebuild_set (l_val s)).

(* ---- genesis ---- *)
Record lgenesis := mkLG {
  lg_params : lparams;
  lg_validators : list (N * validator);       (* Validators.Iterate: ascending address *)
  lg_tokens : list (N * token);
  lg_slashed : list (N * Z);                  (* sdk.Coins: zero amounts dropped *)
  lg_nonce : N;
  lg_q_rewards : list reward;
  lg_q_unlocks : list unlock;
  lg_pool : Z * Z * Z;
  lg_unlockq : list (Z * list unlock);
}.

Definition lk_export (s : lstate) : lgenesis :=
  mkLG (l_params s) (map_to_list (l_val s)) (map_to_list (l_tok s))
       (map_to_list (base.filter (fun kv : N * Z => snd kv <> 0) (l_slashed s)))
       (l_nonce s) (l_q_rewards s) (l_q_unlocks s) (l_remain s, l_goat s, l_gasp s) (map_to_list (l_unlockq s)).

(* InitGenesis; accounts and ghosts are not part of the module's genesis: they are passed through *)
Definition lk_import (g : lgenesis) (accounts : gset N) (gl grl : gmap N Z) (gg gi gc : Z) : lstate :=
  let vals : gmap N validator := list_to_map (lg_validators g) in
  let toks : gmap N token := list_to_map (lg_tokens g) in
  let '(rem, goat, gas) := lg_pool g in
  mkLS (lg_params g) vals (rebuild_index vals) (rebuild_rank vals) (rebuild_set vals) toks (rebuild_thr toks)
       (list_to_map (lg_slashed g)) rem goat gas (list_to_map (lg_unlockq g)) (lg_q_rewards g) (lg_q_unlocks g)
       (lg_nonce g) accounts gl grl gg gi gc.

(* validators handed to CometBFT by InitGenesis, and the exported active set *)
Definition import_validators (g : lgenesis) : list (N * N) :=
  omap (fun av => match v_status (snd av) with Active => Some (fst av, v_power (snd av)) | _ => None end) (lg_validators g).
Definition active_validators (s : lstate) : list (N * N) := map_to_list (l_set s).
