(* Model of the parameter part of x/bitcoin/keeper/eth.go ProcessBridgeRequest and of the tax
   computation at the end of Keeper.VerifyDeposit.  Definitions only. *)
From Goat Require Import Base.Prelude Gen.Consts.

Record bparams := mkBP { bp_conf : N; bp_min : N; bp_rate : N; bp_cap : N }.

(* one execution-layer request list: DepositTax (rate,max), Confirmation, MinDeposit - the code
   processes the three lists in this order *)
Record preqs := mkPR { pr_tax : list (N * N); pr_conf : list N; pr_min : list N }.

Definition apply_tax (p : bparams) (r : N * N) : bparams :=
  let '(rate, cap) := r in
  mkBP (bp_conf p) (bp_min p) (if rate <? c_MaxTaxBP then rate else bp_rate p) cap.
Definition apply_conf (p : bparams) (n : N) : bparams :=
  if n =? 0 then p else mkBP n (bp_min p) (bp_rate p) (bp_cap p).
Definition apply_min (p : bparams) (s : N) : bparams :=
  if c_DustTxoutAmount <? s then mkBP (bp_conf p) s (bp_rate p) (bp_cap p) else p.

Definition apply_preqs (p : bparams) (r : preqs) : bparams :=
  fold_left apply_min (pr_min r) (fold_left apply_conf (pr_conf r) (fold_left apply_tax (pr_tax r) p)).

(* tax of a deposit of value v (uint64 arithmetic; no wrap can occur, see tax_le) *)
Definition tax_of (p : bparams) (v : N) : N :=
  if (0 <? bp_rate p) && (c_MaxTaxBP <? v) then
    let t := v / c_MaxTaxBP * bp_rate p in
    if (0 <? bp_cap p) && (bp_cap p <? t) then bp_cap p else t
  else 0.

Definition params_safe (p : bparams) : Prop :=
  bp_rate p < c_MaxTaxBP /\ c_DustTxoutAmount <= bp_min p /\ 1 <= bp_conf p.

(* Params.Validate of x/bitcoin/types/params.go (genesis validation), numeric part: the network name and the
   magic prefix length are held valid *)
Definition params_validate (p : bparams) : bool :=
  negb (bp_min p <? c_DustTxoutAmount) && negb (bp_conf p =? 0) &&
  (if 0 <? bp_rate p then negb ((bp_cap p =? 0) || (10000 <? bp_rate p)) && negb (100000000 <? bp_cap p)
   else bp_cap p =? 0).
