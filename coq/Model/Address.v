(* Bitcoin addresses and deposit scripts: x/bitcoin/types/address.go together with the parts of
   btcd it delegates to (bech32 / bech32m, base58check, DecodeAddress, PayToAddrScript).
   Strings are lists of byte values.  Definitions only.
   Parameters of the section: the double SHA-256 used by base58check, SHA-256 (P2WSH program),
   HASH160, and the taproot output-key tweak (elliptic-curve arithmetic is not modelled: it is an
   abstract function of (x-only key, tweak data); the correspondence run supplies its values). *)
From Goat Require Import Base.Prelude.
Local Open Scope N_scope.

(* ---------------------------------------------------------------- bech32 *)
Definition b32_charset : bytes :=
  [113;112;122;114;121;57;120;56;103;102;50;116;118;100;119;48;115;51;106;110;53;52;107;104;99;101;54;109;117;97;55;108].
Definition b32_gen : list N := [996825010; 642813549; 513874426; 1027748829; 705979059].
Definition bech32_const : N := 1.
Definition bech32m_const : N := 734539939.

Definition pm_step (chk v : N) : N :=
  let b := N.shiftr chk 25 in
  let c := N.lxor (N.shiftl (N.land chk 33554431) 5) v in
  let c := if N.testbit b 0 then N.lxor c 996825010 else c in
  let c := if N.testbit b 1 then N.lxor c 642813549 else c in
  let c := if N.testbit b 2 then N.lxor c 513874426 else c in
  let c := if N.testbit b 3 then N.lxor c 1027748829 else c in
  if N.testbit b 4 then N.lxor c 705979059 else c.

Definition pm_hrp (hrp : bytes) : N :=
  let c := fold_left pm_step (map (fun x => N.shiftr x 5) hrp) 1 in
  let c := pm_step c 0 in
  fold_left pm_step (map (fun x => N.land x 31) hrp) c.
Definition polymod (hrp : bytes) (values : list N) : N := fold_left pm_step values (pm_hrp hrp).

Definition is_lower (c : N) : bool := (97 <=? c) && (c <=? 122).
Definition is_upper (c : N) : bool := (65 <=? c) && (c <=? 90).
Definition to_lower (c : N) : N := if is_upper c then c + 32 else c.

Fixpoint index_of (c : N) (l : bytes) (i : N) : option N :=
  match l with
  | [] => None
  | x :: r => if x =? c then Some i else index_of c r (i + 1)
  end.
Fixpoint map_opt {A B} (f : A -> option B) (l : list A) : option (list B) :=
  match l with
  | [] => Some []
  | x :: r => match f x, map_opt f r with Some y, Some ys => Some (y :: ys) | _, _ => None end
  end.
(* position of the last occurrence of c *)
Fixpoint last_index (c : N) (l : bytes) (i : nat) (acc : option nat) : option nat :=
  match l with
  | [] => acc
  | x :: r => last_index c r (S i) (if x =? c then Some i else acc)
  end.

Inductive b32ver := V0 | VM.
Definition ver_of_polymod (p : N) : option b32ver :=
  if p =? bech32_const then Some V0 else if p =? bech32m_const then Some VM else None.

(* bech32.DecodeGeneric *)
Definition bech32_decode (s : bytes) : option (bytes * list N * b32ver) :=
  if (90 <? length s)%nat || (length s <? 8)%nat then None else
  if negb (forallb (fun c => (33 <=? c) && (c <=? 126)) s) then None else
  if existsb is_lower s && existsb is_upper s then None else
  let s := map to_lower s in
  match last_index 49 s 0 None with
  | None => None
  | Some one =>
    if (one <? 1)%nat || (length s <? one + 7)%nat then None else
    let hrp := firstn one s in
    match map_opt (fun c => index_of c b32_charset 0) (skipn (S one) s) with
    | None => None
    | Some decoded =>
      match ver_of_polymod (polymod hrp decoded) with
      | None => None
      | Some v => Some (hrp, firstn (length decoded - 6) decoded, v)
      end
    end
  end.

(* bech32.ConvertBits 5 -> 8 without padding; acc holds `nb` pending bits *)
Fixpoint conv58 (l : list N) (acc nb : N) : option bytes :=
  match l with
  | [] => if (0 <? nb) && ((4 <? nb) || negb (acc =? 0)) then None else Some []
  | v :: r =>
    let acc := N.lor (N.shiftl acc 5) v in
    let nb := nb + 5 in
    if 8 <=? nb then
      let out := N.shiftr acc (nb - 8) in
      match conv58 r (N.land acc (N.ones (nb - 8))) (nb - 8) with
      | Some o => Some (out :: o) | None => None end
    else conv58 r acc nb
  end.
(* 8 -> 5 with padding *)
Fixpoint conv85 (l : bytes) (acc nb : N) : list N :=
  match l with
  | [] => if 0 <? nb then [N.shiftl acc (5 - nb)] else []
  | v :: r =>
    let acc := N.lor (N.shiftl acc 8) v in
    let nb := nb + 8 in
    (* nb is in 8..12: one or two groups come out *)
    if 10 <=? nb then
      N.shiftr acc (nb - 5) :: N.land (N.shiftr acc (nb - 10)) 31 :: conv85 r (N.land acc (N.ones (nb - 10))) (nb - 10)
    else N.shiftr acc (nb - 5) :: conv85 r (N.land acc (N.ones (nb - 5))) (nb - 5)
  end.

Definition checksum_symbols (p : N) : list N :=
  map (fun i => N.land (N.shiftr p (5 * (5 - i))) 31) [0; 1; 2; 3; 4; 5].
Definition bech32_encode (hrp : bytes) (data : list N) (v : b32ver) : bytes :=
  let hrp := map to_lower hrp in
  let p := N.lxor (polymod hrp (data ++ [0; 0; 0; 0; 0; 0])) (match v with V0 => bech32_const | VM => bech32m_const end) in
  hrp ++ [49] ++ map (fun d => nth (N.to_nat d) b32_charset 0) (data ++ checksum_symbols p).

(* btcutil.decodeSegWitAddress *)
Definition decode_segwit (s : bytes) : option (N * bytes) :=
  match bech32_decode s with
  | None => None
  | Some (_, data, bv) =>
    match data with
    | [] => None
    | version :: rest =>
      if 16 <? version then None else
      match conv58 rest 0 0 with
      | None => None
      | Some prog =>
        if (length prog <? 2)%nat || (40 <? length prog)%nat then None else
        if (version =? 0) && negb ((length prog =? 20)%nat || (length prog =? 32)%nat) then None else
        if (version =? 0) && negb (match bv with V0 => true | VM => false end) then None else
        if (version =? 1) && negb (match bv with VM => true | V0 => false end) then None else
        Some (version, prog)
      end
    end
  end.

(* ---------------------------------------------------------------- base58check *)
Definition b58_alphabet : bytes :=
  [49;50;51;52;53;54;55;56;57;65;66;67;68;69;70;71;72;74;75;76;77;78;80;81;82;83;84;85;86;87;88;89;90;
   97;98;99;100;101;102;103;104;105;106;107;109;110;111;112;113;114;115;116;117;118;119;120;121;122].
Fixpoint be_bytes_of (fuel : nat) (v : N) (acc : bytes) : bytes :=
  match fuel with
  | O => acc
  | S f => if v =? 0 then acc else be_bytes_of f (v / 256) ((v mod 256) :: acc)
  end.
Fixpoint count_leading (c : N) (l : bytes) : nat :=
  match l with x :: r => if x =? c then S (count_leading c r) else O | [] => O end.
(* base58.Decode: empty result on any character outside the alphabet *)
Definition base58_decode (s : bytes) : bytes :=
  match map_opt (fun c => index_of c b58_alphabet 0) s with
  | None => []
  | Some digits =>
    let v := fold_left (fun a d => a * 58 + d) digits 0 in
    repeat 0 (count_leading 49 s) ++ be_bytes_of (length s) v []
  end.

Section Addr.
Variable sha256d : bytes -> bytes.
Variable sha256 : bytes -> bytes.
Variable hash160 : bytes -> bytes.
Variable taproot_tweak : bytes -> bytes -> bytes.   (* x-only internal key, tweak data -> x-only output key *)

(* base58.CheckDecode: (payload, version byte) *)
Definition check_decode (s : bytes) : option (bytes * N) :=
  let d := base58_decode s in
  if (length d <? 5)%nat then None else
  let body := firstn (length d - 4) d in
  if beq_bytes (firstn 4 (sha256d body)) (skipn (length d - 4) d) then
    Some (skipn 1 body, hd 0 d)
  else None.
Definition check_encode (payload : bytes) (version : N) : bytes :=
  let body := version :: payload in
  let full := body ++ firstn 4 (sha256d body) in
  let v := be_val full in
  let fix digits (fuel : nat) (v : N) (acc : bytes) :=
    match fuel with O => acc | S f => if v =? 0 then acc else digits f (v / 58) (nth (N.to_nat (v mod 58)) b58_alphabet 0 :: acc) end in
  repeat 49 (count_leading 0 full) ++ digits (2 * length full)%nat v [].

(* ---------------------------------------------------------------- addresses and scripts *)
Inductive addr :=
| APubKeyHash (h : bytes) (net_id : N)
| AScriptHash (h : bytes) (net_id : N)
| AWitnessPubKeyHash (prog : bytes) (hrp : bytes)
| AWitnessScriptHash (prog : bytes) (hrp : bytes)
| ATaproot (prog : bytes) (hrp : bytes).

Record netparams := mkNet { n_hrp : bytes; n_pkh : N; n_sh : N }.

Definition is_hex_char (c : N) : bool :=
  ((48 <=? c) && (c <=? 57)) || ((97 <=? c) && (c <=? 102)) || ((65 <=? c) && (c <=? 70)).

Definition in_list (x : bytes) (l : list bytes) : bool := existsb (beq_bytes x) l.

(* btcutil.DecodeAddress; serialized public keys (66 / 130 characters) are never accepted by the
   caller (p2pk is rejected, a malformed key is an error), so that branch is an error here *)
Definition decode_address (segwit_hrps : list bytes) (net : netparams) (s : bytes) : res addr :=
  let seg :=
    match last_index 49 s 0 None with
    | Some one =>
      if (1 <? one)%nat && in_list (map to_lower (firstn one s)) segwit_hrps then Some one else None
    | None => None
    end in
  match seg with
  | Some one =>
    match decode_segwit s with
    | None => Err
    | Some (ver, prog) =>
      if negb ((ver =? 0) || (ver =? 1)) then Err else
      let hrp := map to_lower (firstn one s) in
      if (length prog =? 20)%nat then Ok (AWitnessPubKeyHash prog hrp)
      else if (length prog =? 32)%nat then
        (if ver =? 1 then Ok (ATaproot prog hrp) else Ok (AWitnessScriptHash prog hrp))
      else Err
    end
  | None =>
    if (length s =? 130)%nat || (length s =? 66)%nat then Err else
    match check_decode s with
    | None => Err
    | Some (payload, id) =>
      if (length payload =? 20)%nat then
        let p := id =? n_pkh net in
        let q := id =? n_sh net in
        if p && q then Err
        else if p then Ok (APubKeyHash payload id)
        else if q then Ok (AScriptHash payload id)
        else Err
      else Err
    end
  end.

Definition is_for_net (net : netparams) (a : addr) : bool :=
  match a with
  | APubKeyHash _ id => id =? n_pkh net
  | AScriptHash _ id => id =? n_sh net
  | AWitnessPubKeyHash _ hrp | AWitnessScriptHash _ hrp | ATaproot _ hrp => beq_bytes hrp (n_hrp net)
  end.

(* txscript.PayToAddrScript *)
Definition pay_to_addr (a : addr) : bytes :=
  match a with
  | APubKeyHash h _ => [118; 169; 20] ++ h ++ [136; 172]
  | AScriptHash h _ => [169; 20] ++ h ++ [135]
  | AWitnessPubKeyHash p _ => [0; 20] ++ p
  | AWitnessScriptHash p _ => [0; 32] ++ p
  | ATaproot p _ => [81; 32] ++ p
  end.

Definition encode_address (a : addr) : bytes :=
  match a with
  | APubKeyHash h id | AScriptHash h id => check_encode h id
  | AWitnessPubKeyHash p hrp | AWitnessScriptHash p hrp => bech32_encode hrp (0 :: conv85 p 0 0) V0
  | ATaproot p hrp => bech32_encode hrp (1 :: conv85 p 0 0) VM
  end.

(* types.DecodeBtcAddress *)
Definition decode_btc_address (segwit_hrps : list bytes) (net : netparams) (s : bytes) : res bytes :=
  do a <- decode_address segwit_hrps net s;
  if is_for_net net a then Ok (pay_to_addr a) else Err.

(* ---------------------------------------------------------------- deposit addresses *)
(* parses: whether the x-only key is a point of the curve (schnorr.ParsePubKey); an elliptic-curve
   fact supplied with the key *)
Inductive rkey := KSecp (pub33 : bytes) | KSchnorr (xonly : bytes) (parses : bool).
(* PublicKey.Validate *)
Definition key_valid (k : rkey) : bool :=
  match k with
  | KSecp p => (length p =? 33)%nat && ((hd 0 p =? 2) || (hd 0 p =? 3))
  | KSchnorr p _ => (length p =? 32)%nat
  end.

(* ScriptBuilder.AddData for 2..75 bytes: a length byte followed by the data *)
Definition push (d : bytes) : bytes := N.of_nat (length d) :: d.
Definition v0_witness_script (pub evm : bytes) : bytes := push evm ++ [117] ++ push pub ++ [172].

Definition deposit_address_v0 (k : rkey) (evm : bytes) (net : netparams) : res addr :=
  if negb (length evm =? 20)%nat then Err else
  if negb (key_valid k) then Err else
  match k with
  | KSecp p => Ok (AWitnessScriptHash (sha256 (v0_witness_script p evm)) (n_hrp net))
  | KSchnorr p ok => if ok then Ok (ATaproot (taproot_tweak p evm) (n_hrp net)) else Err
  end.
Definition deposit_address_v1 (k : rkey) (magic evm : bytes) (net : netparams) : res (addr * bytes) :=
  if negb (length evm =? 20)%nat then Err else
  if negb (length magic =? 4)%nat then Err else
  if negb (key_valid k) then Err else
  match k with
  | KSecp p => Ok (AWitnessPubKeyHash (hash160 p) (n_hrp net), [106; 24] ++ magic ++ evm)
  | KSchnorr _ _ => Err
  end.

Definition verify_deposit_script_v0 (k : rkey) (evm txout : bytes) : bool :=
  (length evm =? 20)%nat &&
  match k with
  | KSecp p => (length txout =? 34)%nat && beq_bytes (firstn 2 txout) [0; 32] && beq_bytes (sha256 (v0_witness_script p evm)) (skipn 2 txout)
  | KSchnorr p ok => (length txout =? 34)%nat && beq_bytes (firstn 2 txout) [81; 32] && ok && beq_bytes (taproot_tweak p evm) (skipn 2 txout)
  end.
Definition verify_deposit_script_v1 (k : rkey) (magic evm txout0 txout1 : bytes) : bool :=
  (length magic =? 4)%nat && (length evm =? 20)%nat &&
  match k with
  | KSecp p =>
    (length txout0 =? 22)%nat && beq_bytes (firstn 2 txout0) [0; 20] && beq_bytes (hash160 p) (skipn 2 txout0) &&
    (length txout1 =? 26)%nat && beq_bytes (firstn 2 txout1) [106; 24] && beq_bytes (skipn 2 txout1) (magic ++ evm)
  | KSchnorr _ _ => false
  end.
End Addr.
