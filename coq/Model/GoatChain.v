(* Model of the execution-head state machine of x/goat over whole consensus blocks: the block message
   (msgServer.NewEthBlock), the end-of-block notification (Keeper.Finalized, called from EndBlock) and the
   fact that a failed FinalizeBlock commits nothing.  Definitions only. *)
From Goat Require Import Base.Prelude Model.GoatBlock.
Local Open Scope N_scope.

(* the recorded execution head (x/goat Block) *)
Record ehead := mkHead { h_hash : bytes; h_parent : bytes; h_number : N }.
(* committed state of the module: recorded head and beacon root *)
Record cstate := mkCS { c_head : ehead; c_beacon : bytes }.

(* one finalised consensus block *)
Record cblock := mkCB {
  b_hash : bytes; b_parent : bytes; b_number : N; b_blob : N; b_beacon : bytes;   (* the payload of its block message *)
  b_cons_hash : bytes;        (* hash of the consensus block being finalised *)
  b_proposer_ok : bool;       (* message proposer = this block's consensus proposer, fee recipient = that proposer *)
  b_rest_ok : bool;           (* due system transactions match; request lists decode and the three modules accept them *)
  b_np : eans; b_fc : eans;   (* the engine's answers to newPayload / forkchoiceUpdated at the end of the block *)
}.

Definition head_of (b : cblock) : ehead := mkHead (b_hash b) (b_parent b) (b_number b).

(* NewEthBlock's checks against the recorded head *)
Definition child_ok (s : cstate) (b : cblock) : bool :=
  beq_bytes (b_parent b) (h_hash (c_head s)) && (b_number b =? h_number (c_head s) + 1) && (b_blob b =? 0)
  && beq_bytes (b_beacon b) (c_beacon s) && b_proposer_ok b.
Definition msg_ok (s : cstate) (b : cblock) : bool := child_ok s b && b_rest_ok b.

(* state at the end of the block's transactions: a failed message is rolled back *)
Definition after_msg (s : cstate) (b : cblock) : cstate :=
  if msg_ok s b then mkCS (head_of b) (b_cons_hash b) else s.

(* what Finalized tells the engine: newPayload(head), forkchoiceUpdated(head, safe = finalized = parent) *)
Definition told (s : cstate) (b : cblock) : ehead := c_head (after_msg s b).

(* the committed state after the block: an error / INVALID answer fails FinalizeBlock, nothing is committed *)
Definition cstep (s : cstate) (b : cblock) : cstate :=
  if finalized_ok (b_np b) (b_fc b) then after_msg s b else s.
Definition crun (s : cstate) (bs : list cblock) : cstate := fold_left cstep bs s.

(* the same block, retried with other engine answers *)
Definition with_answers (b : cblock) (np fc : eans) : cblock :=
  mkCB (b_hash b) (b_parent b) (b_number b) (b_blob b) (b_beacon b) (b_cons_hash b) (b_proposer_ok b) (b_rest_ok b) np fc.

(* the heads recorded after each block of a history *)
Fixpoint heads (s : cstate) (bs : list cblock) : list ehead :=
  match bs with [] => [] | b :: r => c_head (cstep s b) :: heads (cstep s b) r end.
