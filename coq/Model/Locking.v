(* Executable model of x/locking (keeper/*.go): validators, multi-token holdings, power ranking,
   validator set, reward pool, unlock queue, hand-over queue.  Definitions only.

   Conventions: addresses and tokens are N (big-endian value of the 20 bytes), amounts are Z
   (math.Int), validator power is N with the uint64 wrap written explicitly, times/durations
   are Z nanoseconds.  Every entry point returns [res]: Err = Go error return, Panic = Go panic.
   Ghost fields (prefix g_) record history for the theorems; the code has no counterpart and they are
   never compared. *)
From stdpp Require Import gmap sorting.
From Goat Require Import Base.Prelude Gen.Consts.
Local Open Scope Z_scope.

Inductive vstatus := Pending | Active | Tombstoned | Downgrade | Inactive.
Definition status_code (s : vstatus) : N :=
  match s with Pending => 1 | Active => 2 | Tombstoned => 3 | Downgrade => 4 | Inactive => 5 end%N.
Global Instance vstatus_eq_dec : EqDecision vstatus.
Proof. solve_decision. Defined.

Definition in_ranking_status (s : vstatus) : bool :=
  match s with Pending | Active => true | _ => false end.

Record validator := mkVal {
  v_pubkey : N;                 (* opaque: compressed key as a number *)
  v_power : N;                  (* uint64 *)
  v_hold : gmap N Z;            (* token -> locked amount, only non-zero entries (sdk.Coins) *)
  v_reward : Z;
  v_gas : Z;
  v_status : vstatus;
  v_offset : Z;                 (* SigningInfo.Offset, int64 *)
  v_missed : Z;
  v_jailed : Z;                 (* JailedUntil, ns; meaningful in Downgrade *)
}.

Record token := mkTok { t_weight : N; t_thr : Z }.

Record lparams := mkLP {
  lp_unlock_dur : Z; lp_exit_dur : Z; lp_jail_dur : Z;
  lp_max_validators : Z;        (* int64 *)
  lp_window : Z; lp_max_missed : Z;
  lp_slash_double : Z;          (* LegacyDec as 18-digit integer *)
  lp_slash_down : Z;
  lp_halving : Z; lp_initial_reward : Z;
}.

Record unlock := mkUnlock { u_id : N; u_token : N; u_recipient : N; u_amount : Z }.
Record reward := mkReward { r_id : N; r_recipient : N; r_goat : Z; r_gas : Z }.

Record lstate := mkLS {
  l_params : lparams;
  l_val : gmap N validator;
  l_index : gmap (N * N) Z;          (* (token, validator) -> amount *)
  l_rank : gset (N * N);             (* (power, validator) *)
  l_set : gmap N N;                  (* last validator set: validator -> power *)
  l_tok : gmap N token;
  l_thr : gmap N Z;                  (* Threshold.List: only non-zero *)
  l_slashed : gmap N Z;
  l_remain : Z; l_goat : Z; l_gasp : Z;   (* reward pool *)
  l_unlockq : gmap Z (list unlock);  (* time -> unlocks *)
  l_q_rewards : list reward;
  l_q_unlocks : list unlock;
  l_nonce : N;
  l_accounts : gset N;               (* auth accounts that exist (address) *)
  (* ghosts *)
  g_locked : gmap N Z;               (* token -> total ever locked *)
  g_released : gmap N Z;             (* token -> total released through unlocks (queued or delivered) *)
  g_granted : Z; g_gas_in : Z; g_claimed : Z;
}.

(* ---- record update helpers ---- *)
Definition set_val (s : lstate) (x : gmap N validator) :=
  mkLS (l_params s) x (l_index s) (l_rank s) (l_set s) (l_tok s) (l_thr s) (l_slashed s) (l_remain s) (l_goat s) (l_gasp s)
       (l_unlockq s) (l_q_rewards s) (l_q_unlocks s) (l_nonce s) (l_accounts s) (g_locked s) (g_released s) (g_granted s) (g_gas_in s) (g_claimed s).
Definition set_index (s : lstate) x :=
  mkLS (l_params s) (l_val s) x (l_rank s) (l_set s) (l_tok s) (l_thr s) (l_slashed s) (l_remain s) (l_goat s) (l_gasp s)
       (l_unlockq s) (l_q_rewards s) (l_q_unlocks s) (l_nonce s) (l_accounts s) (g_locked s) (g_released s) (g_granted s) (g_gas_in s) (g_claimed s).
Definition set_rank (s : lstate) x :=
  mkLS (l_params s) (l_val s) (l_index s) x (l_set s) (l_tok s) (l_thr s) (l_slashed s) (l_remain s) (l_goat s) (l_gasp s)
       (l_unlockq s) (l_q_rewards s) (l_q_unlocks s) (l_nonce s) (l_accounts s) (g_locked s) (g_released s) (g_granted s) (g_gas_in s) (g_claimed s).
Definition set_set (s : lstate) x :=
  mkLS (l_params s) (l_val s) (l_index s) (l_rank s) x (l_tok s) (l_thr s) (l_slashed s) (l_remain s) (l_goat s) (l_gasp s)
       (l_unlockq s) (l_q_rewards s) (l_q_unlocks s) (l_nonce s) (l_accounts s) (g_locked s) (g_released s) (g_granted s) (g_gas_in s) (g_claimed s).
Definition set_tok (s : lstate) x :=
  mkLS (l_params s) (l_val s) (l_index s) (l_rank s) (l_set s) x (l_thr s) (l_slashed s) (l_remain s) (l_goat s) (l_gasp s)
       (l_unlockq s) (l_q_rewards s) (l_q_unlocks s) (l_nonce s) (l_accounts s) (g_locked s) (g_released s) (g_granted s) (g_gas_in s) (g_claimed s).
Definition set_thr (s : lstate) x :=
  mkLS (l_params s) (l_val s) (l_index s) (l_rank s) (l_set s) (l_tok s) x (l_slashed s) (l_remain s) (l_goat s) (l_gasp s)
       (l_unlockq s) (l_q_rewards s) (l_q_unlocks s) (l_nonce s) (l_accounts s) (g_locked s) (g_released s) (g_granted s) (g_gas_in s) (g_claimed s).
Definition set_slashed (s : lstate) x :=
  mkLS (l_params s) (l_val s) (l_index s) (l_rank s) (l_set s) (l_tok s) (l_thr s) x (l_remain s) (l_goat s) (l_gasp s)
       (l_unlockq s) (l_q_rewards s) (l_q_unlocks s) (l_nonce s) (l_accounts s) (g_locked s) (g_released s) (g_granted s) (g_gas_in s) (g_claimed s).
Definition set_pool (s : lstate) rem goat gas gr gi :=
  mkLS (l_params s) (l_val s) (l_index s) (l_rank s) (l_set s) (l_tok s) (l_thr s) (l_slashed s) rem goat gas
       (l_unlockq s) (l_q_rewards s) (l_q_unlocks s) (l_nonce s) (l_accounts s) (g_locked s) (g_released s) gr gi (g_claimed s).
Definition set_unlockq (s : lstate) x :=
  mkLS (l_params s) (l_val s) (l_index s) (l_rank s) (l_set s) (l_tok s) (l_thr s) (l_slashed s) (l_remain s) (l_goat s) (l_gasp s)
       x (l_q_rewards s) (l_q_unlocks s) (l_nonce s) (l_accounts s) (g_locked s) (g_released s) (g_granted s) (g_gas_in s) (g_claimed s).
Definition set_queue (s : lstate) qr qu nonce :=
  mkLS (l_params s) (l_val s) (l_index s) (l_rank s) (l_set s) (l_tok s) (l_thr s) (l_slashed s) (l_remain s) (l_goat s) (l_gasp s)
       (l_unlockq s) qr qu nonce (l_accounts s) (g_locked s) (g_released s) (g_granted s) (g_gas_in s) (g_claimed s).
Definition set_accounts (s : lstate) x :=
  mkLS (l_params s) (l_val s) (l_index s) (l_rank s) (l_set s) (l_tok s) (l_thr s) (l_slashed s) (l_remain s) (l_goat s) (l_gasp s)
       (l_unlockq s) (l_q_rewards s) (l_q_unlocks s) (l_nonce s) x (g_locked s) (g_released s) (g_granted s) (g_gas_in s) (g_claimed s).
Definition set_ghost_lr (s : lstate) gl grl :=
  mkLS (l_params s) (l_val s) (l_index s) (l_rank s) (l_set s) (l_tok s) (l_thr s) (l_slashed s) (l_remain s) (l_goat s) (l_gasp s)
       (l_unlockq s) (l_q_rewards s) (l_q_unlocks s) (l_nonce s) (l_accounts s) gl grl (g_granted s) (g_gas_in s) (g_claimed s).
Definition set_claimed (s : lstate) x :=
  mkLS (l_params s) (l_val s) (l_index s) (l_rank s) (l_set s) (l_tok s) (l_thr s) (l_slashed s) (l_remain s) (l_goat s) (l_gasp s)
       (l_unlockq s) (l_q_rewards s) (l_q_unlocks s) (l_nonce s) (l_accounts s) (g_locked s) (g_released s) (g_granted s) (g_gas_in s) x.

Definition with_power (v : validator) p := mkVal (v_pubkey v) p (v_hold v) (v_reward v) (v_gas v) (v_status v) (v_offset v) (v_missed v) (v_jailed v).
Definition with_hold (v : validator) h := mkVal (v_pubkey v) (v_power v) h (v_reward v) (v_gas v) (v_status v) (v_offset v) (v_missed v) (v_jailed v).
Definition with_status (v : validator) st := mkVal (v_pubkey v) (v_power v) (v_hold v) (v_reward v) (v_gas v) st (v_offset v) (v_missed v) (v_jailed v).
Definition with_rewards (v : validator) r g := mkVal (v_pubkey v) (v_power v) (v_hold v) r g (v_status v) (v_offset v) (v_missed v) (v_jailed v).
Definition with_signing (v : validator) o m := mkVal (v_pubkey v) (v_power v) (v_hold v) (v_reward v) (v_gas v) (v_status v) o m (v_jailed v).
Definition with_jailed (v : validator) j := mkVal (v_pubkey v) (v_power v) (v_hold v) (v_reward v) (v_gas v) (v_status v) (v_offset v) (v_missed v) j.

Definition one18 : Z := 1000000000000000000.

(* sdk.Coins semantics on gmap N Z: zero entries are absent *)
Definition amount_of (h : gmap N Z) (t : N) : Z := default 0 (h !! t).
Definition put_amount (h : gmap N Z) (t : N) (a : Z) : gmap N Z :=
  if a =? 0 then delete t h else <[t := a]> h.
Definition add_amount (h : gmap N Z) (t : N) (a : Z) : gmap N Z := put_amount h t (amount_of h t + a).

Definition zmap_add (m : gmap N Z) (k : N) (a : Z) : gmap N Z := <[k := default 0 (m !! k) + a]> m.

(* power contributed by [amt] of a token of weight [w]: weight*amt / 1e18, must fit uint64 *)
Definition power_of (w : N) (amt : Z) : Z := Z.of_N w * amt / one18.
Definition fits64 (p : Z) : bool := p <? Z.of_N two64.
Definition add_power (p : N) (d : Z) : N := wrap64 (p + Z.to_N d)%N.
Definition sub_power (p : N) (d : Z) : N := if (Z.of_N p >? d) then (p - Z.to_N d)%N else 0%N.

(* ranking maintenance *)
Definition rank_remove (s : lstate) (p a : N) := set_rank s (l_rank s ∖ {[ (p, a) ]}).
Definition rank_add (s : lstate) (p a : N) := set_rank s ({[ (p, a) ]} ∪ l_rank s).
Definition rank_add_pos (s : lstate) (p a : N) := if (0 <? p)%N then rank_add s p a else s.

(* ---------------- Create ---------------- *)
(* req: claimed address, address derived from the public key (by the harness / real crypto), compressed key *)
Definition create_validator (s : lstate) (claimed derived pubkey : N) : res lstate :=
  if negb (claimed =? derived)%N then Err else
  match l_val s !! derived with
  | Some _ => Ok s
  | None =>
    let has_acc := bool_decide (derived ∈ l_accounts s) in
    let s1 := if has_acc then s else set_accounts s ({[ derived ]} ∪ l_accounts s) in
    let v := mkVal pubkey 0 ∅ 0 0 (if has_acc then Inactive else Pending) 0 0 0 in
    Ok (set_val s1 (<[derived := v]> (l_val s1)))
  end.

Fixpoint create_all (s : lstate) (reqs : list (N * N * N)) : res lstate :=
  match reqs with
  | [] => Ok s
  | (c, d, k) :: r => do s' <- create_validator s c d k; create_all s' r
  end.

(* ---------------- Lock ---------------- *)
(* power gained by a list of (token, amount); Err when a token is unknown or a contribution exceeds uint64 *)
Fixpoint lock_power (s : lstate) (coins : list (N * Z)) (p : N) : res N :=
  match coins with
  | [] => Ok p
  | (t, amt) :: r =>
    match l_tok s !! t with
    | None => Err
    | Some tk =>
      if (0 <? t_weight tk)%N then
        let d := power_of (t_weight tk) amt in
        if fits64 d then lock_power s r (add_power p d) else Err
      else lock_power s r p
    end
  end.

Definition index_set_all (idx : gmap (N * N) Z) (a : N) (h : gmap N Z) (tokens : list N) : gmap (N * N) Z :=
  fold_left (fun m t => <[(t, a) := amount_of h t]> m) tokens idx.

Definition thresholds_met (s : lstate) (h : gmap N Z) : bool :=
  forallb (fun '(t, thr) => amount_of h t >=? thr) (map_to_list (l_thr s)).

(* aggregated coins for one validator: list of (token, amount) with amount > 0, tokens distinct *)
Definition lock_one (s : lstate) (now : Z) (a : N) (coins : list (N * Z)) : res lstate :=
  match l_val s !! a with
  | None => Err
  | Some v =>
    let h' := fold_left (fun h '(t, amt) => add_amount h t amt) coins (v_hold v) in
    let gl := fold_left (fun g '(t, amt) => zmap_add g t amt) coins (g_locked s) in
    let s := set_ghost_lr s gl (g_released s) in
    match v_status v with
    | Pending | Active =>
      let s1 := rank_remove s (v_power v) a in
      do p' <- lock_power s1 coins (v_power v);
      let idx := index_set_all (l_index s1) a h' (map fst coins) in
      let s2 := rank_add_pos (set_index s1 idx) p' a in
      Ok (set_val s2 (<[a := with_power (with_hold v h') p']> (l_val s2)))
    | Downgrade =>
      if (now >? v_jailed v) && thresholds_met s h' then
        let all := map_to_list h' in
        let idx := index_set_all (l_index s) a h' (map fst all) in
        do p' <- lock_power s all (v_power v);
        let s2 := rank_add_pos (set_index s idx) p' a in
        Ok (set_val s2 (<[a := with_power (with_status (with_hold v h') Pending) p']> (l_val s2)))
      else Ok (set_val s (<[a := with_hold v h']> (l_val s)))
    | Tombstoned | Inactive =>
      Ok (set_val s (<[a := with_hold v h']> (l_val s)))
    end
  end.

(* Lock(reqs): aggregate per validator in first-seen request order (after the repair of the
   map-order defect), sum per token, drop zero amounts, then lock each. *)
Fixpoint agg_add (l : list (N * Z)) (t : N) (amt : Z) : list (N * Z) :=
  match l with
  | [] => [(t, amt)]
  | (t', a') :: r => if (t' =? t)%N then (t', a' + amt) :: r else (t', a') :: agg_add r t amt
  end.
Fixpoint agg_reqs (acc : list (N * list (N * Z))) (reqs : list (N * N * Z)) : list (N * list (N * Z)) :=
  match reqs with
  | [] => acc
  | (a, t, amt) :: r =>
    let fix ins (l : list (N * list (N * Z))) :=
      match l with
      | [] => [(a, agg_add [] t amt)]
      | (a', cs) :: l' => if (a' =? a)%N then (a', agg_add cs t amt) :: l' else (a', cs) :: ins l'
      end in
    agg_reqs (ins acc) r
  end.
Definition nonzero_coins (cs : list (N * Z)) : list (N * Z) := filter (fun '(_, amt) => negb (amt =? 0)) cs.

Fixpoint lock_each (s : lstate) (now : Z) (l : list (N * list (N * Z))) : res lstate :=
  match l with
  | [] => Ok s
  | (a, cs) :: r => do s' <- lock_one s now a (nonzero_coins cs); lock_each s' now r
  end.
Definition lock_all (s : lstate) (now : Z) (reqs : list (N * N * Z)) : res lstate :=
  lock_each s now (agg_reqs [] reqs).

(* ---------------- Unlock ---------------- *)
Definition index_remove_all (idx : gmap (N * N) Z) (a : N) (tokens : list N) : gmap (N * N) Z :=
  fold_left (fun m t => delete (t, a) m) tokens idx.

Definition unlock_one (s : lstate) (now : Z) (id a recipient t : N) (req_amt : Z) : res lstate :=
  match l_val s !! a with
  | None => Err
  | Some v =>
    let s1 := rank_remove s (v_power v) a in
    match l_tok s1 !! t with
    | None => Err
    | Some tk =>
      let have := amount_of (v_hold v) t in
      let amt := if have <? req_amt then have else req_amt in
      let remaining := have - amt in
      let h' := put_amount (v_hold v) t remaining in
      let exiting := match v_status v with Inactive | Tombstoned => true | _ => false end || (remaining <? t_thr tk) in
      let reduce := negb (amt =? 0) && (0 <? t_weight tk)%N && negb exiting && in_ranking_status (v_status v) in
      let d := power_of (t_weight tk) amt in
      if reduce && negb (fits64 d) then Err else
      let p1 := if reduce then sub_power (v_power v) d else v_power v in
      let '(s2, v2, when) :=
        if exiting then
          let st' := match v_status v with Active | Pending | Downgrade => Inactive | x => x end in
          let idx := index_remove_all (l_index s1) a (map fst (map_to_list (v_hold v))) in
          (set_index s1 idx, with_status (with_power v 0%N) st', now + lp_exit_dur (l_params s))
        else
          let s' :=
            if in_ranking_status (v_status v) then
              let idx := if remaining =? 0 then delete (t, a) (l_index s1) else <[(t, a) := remaining]> (l_index s1) in
              rank_add_pos (set_index s1 idx) p1 a
            else s1 in
          (s', with_power v p1, now + lp_unlock_dur (l_params s)) in
      let s3 := set_val s2 (<[a := with_hold v2 h']> (l_val s2)) in
      let u := mkUnlock id t recipient amt in
      let q := default [] (l_unlockq s3 !! when) ++ [u] in
      let s4 := set_unlockq s3 (<[when := q]> (l_unlockq s3)) in
      Ok (set_ghost_lr s4 (g_locked s4) (zmap_add (g_released s4) t amt))
    end
  end.

Fixpoint unlock_all (s : lstate) (now : Z) (reqs : list (N * N * N * N * Z)) : res lstate :=
  match reqs with
  | [] => Ok s
  | (id, a, rc, t, amt) :: r => do s' <- unlock_one s now id a rc t amt; unlock_all s' now r
  end.

(* ---------------- UpdateTokens ---------------- *)
(* entries of the index for token t, in key order (validator ascending) *)
Definition index_entries (s : lstate) (t : N) : list (N * Z) :=
  map (fun '((_, a), amt) => (a, amt)) (filter (fun '((t', _), _) => (t' =? t)%N) (map_to_list (l_index s))).

Fixpoint weight_walk (s : lstate) (prev cur : N) (es : list (N * Z)) : res lstate :=
  match es with
  | [] => Ok s
  | (a, amt) :: r =>
    match l_val s !! a with
    | None => Err
    | Some v =>
      let s1 := rank_remove s (v_power v) a in
      let up := (prev <? cur)%N in
      let d := if up then power_of (cur - prev) amt else power_of (prev - cur) amt in
      if negb (fits64 d) then (if up then Err else Panic) else
      let p' := if up then add_power (v_power v) d else sub_power (v_power v) d in
      let s2 := rank_add_pos (set_val s1 (<[a := with_power v p']> (l_val s1))) p' a in
      weight_walk s2 prev cur r
    end
  end.

Definition update_weight (s : lstate) (t w : N) : res lstate :=
  let tk := default (mkTok w 0) (l_tok s !! t) in
  do s1 <- (if (t_weight tk =? w)%N then Ok s else weight_walk s (t_weight tk) w (index_entries s t));
  Ok (set_tok s1 (<[t := mkTok w (t_thr tk)]> (l_tok s1))).

Definition update_threshold (s : lstate) (t : N) (thr : Z) : res lstate :=
  match l_tok s !! t with
  | None => Err
  | Some tk =>
    if thr =? t_thr tk then Ok s else
    Ok (set_tok (set_thr s (put_amount (l_thr s) t thr)) (<[t := mkTok (t_weight tk) thr]> (l_tok s)))
  end.

Fixpoint fold_res {A B} (f : A -> B -> res A) (l : list B) (a : A) : res A :=
  match l with [] => Ok a | b :: r => do a' <- f a b; fold_res f r a' end.

Definition update_tokens (s : lstate) (ws : list (N * N)) (ths : list (N * Z)) : res lstate :=
  do s1 <- fold_res (fun s '(t, w) => update_weight s t w) ws s;
  fold_res (fun s '(t, th) => update_threshold s t th) ths s1.

(* ---------------- Claim ---------------- *)
Definition claim_one (s : lstate) (r : N * N * N) : res lstate :=
  let '(id, a, rc) := r in
  match l_val s !! a with
  | None => Err
  | Some v =>
    let s1 := set_queue s (l_q_rewards s ++ [mkReward id rc (v_reward v) (v_gas v)]) (l_q_unlocks s) (l_nonce s) in
    let s2 := set_val s1 (<[a := with_rewards v 0 0]> (l_val s1)) in
    Ok (set_claimed s2 (g_claimed s2 + v_reward v + v_gas v))
  end.

(* ---------------- reward pool ---------------- *)
Definition block_reward (p : lparams) (height : Z) : Z :=
  let halvings := height / lp_halving p in
  if halvings >? 0 then lp_initial_reward p / 2 ^ halvings else lp_initial_reward p.

Definition update_reward_pool (s : lstate) (height : Z) (gas : list Z) (grants : list Z) : res lstate :=
  match gas with
  | [g] =>
    let gasp := if g >? 0 then l_gasp s + g else l_gasp s in
    let gi := if g >? 0 then g_gas_in s + g else g_gas_in s in
    let remain := l_remain s + sumZ grants in
    let r0 := block_reward (l_params s) height in
    let r := if r0 >? remain then remain else r0 in
    Ok (set_pool s (remain - r) (l_goat s + r) gasp (g_granted s + sumZ grants) gi)
  | _ => Err
  end.

(* DistributeReward: votes = (validator, comet power) of the previous block *)
Definition share_of (pool frac : Z) : Z := pool * frac / one18.
Definition power_fraction (p total : Z) : Z := p * one18 / total.     (* QuoTruncate (after the repair) *)

Fixpoint distribute (s : lstate) (gas goat total : Z) (remg remr : Z) (votes : list (N * Z)) : res (lstate * Z * Z) :=
  match votes with
  | [] => Ok (s, remg, remr)
  | (a, p) :: r =>
    match l_val s !! a with
    | None => Err
    | Some v =>
      let f := power_fraction p total in
      let sg := if gas =? 0 then 0 else share_of gas f in
      let sr := if goat =? 0 then 0 else share_of goat f in
      let s' := set_val s (<[a := with_rewards v (v_reward v + sr) (v_gas v + sg)]> (l_val s)) in
      distribute s' gas goat total (remg - sg) (remr - sr) r
    end
  end.

Definition distribute_reward (s : lstate) (height : Z) (votes : list (N * Z)) : res lstate :=
  if height <? 2 then Ok s else
  let total := sumZ (map snd votes) in
  if total =? 0 then Err else
  do x <- distribute s (l_gasp s) (l_goat s) total (l_gasp s) (l_goat s) votes;
  let '(s', g, r) := x in
  Ok (set_pool s' (l_remain s') r g (g_granted s') (g_gas_in s')).

(* ---------------- mature unlocks ---------------- *)
Definition keys_sorted (m : gmap Z (list unlock)) : list Z :=
  merge_sort Z.le (map fst (map_to_list m)).
Definition dequeue_mature (s : lstate) (now : Z) : lstate :=
  let ks := filter (fun k => k <=? now) (keys_sorted (l_unlockq s)) in
  let vals := flat_map (fun k => default [] (l_unlockq s !! k)) ks in
  match ks with
  | [] => s
  | _ =>
    let q := fold_left (fun m k => delete k m) ks (l_unlockq s) in
    set_queue (set_unlockq s q) (l_q_rewards s) (l_q_unlocks s ++ vals) (l_nonce s)
  end.

(* ---------------- slashing ---------------- *)
Definition slash_amount (a frac : Z) : Z :=
  let x := a * frac / one18 in if x =? 0 then a else x.

Definition slash_step (a : N) (frac : Z) (acc : lstate * gmap N Z) (p : N * Z) : lstate * gmap N Z :=
  let sl := slash_amount (snd p) frac in
  let s1 := set_index (fst acc) (delete (fst p, a) (l_index (fst acc))) in
  (set_slashed s1 (zmap_add (l_slashed s1) (fst p) sl), put_amount (snd acc) (fst p) (snd p - sl)).

Definition slash_holdings (s : lstate) (a : N) (h : gmap N Z) (frac : Z) : lstate * gmap N Z :=
  fold_left (slash_step a frac) (map_to_list h) (s, ∅).

(* one vote info: flag = true means BlockIDFlagAbsent *)
Definition handle_vote (s : lstate) (now : Z) (a : N) (absent : bool) : res lstate :=
  match l_val s !! a with
  | None => Err
  | Some v =>
    if negb (bool_decide (v_status v = Active)) then Ok s else
    let missed := if absent then v_missed v + 1 else v_missed v in
    let down := missed >=? lp_max_missed (l_params s) in
    let off := v_offset v + 1 in
    let '(off, missed) := if off >=? lp_window (l_params s) then (0, 0) else (off, missed) in
    let v1 := with_signing v off missed in
    if down then
      let s1 := rank_remove s (v_power v) a in
      let '(s2, h') := slash_holdings s1 a (v_hold v) (lp_slash_down (l_params s)) in
      let v2 := with_jailed (with_power (with_status (with_hold v1 h') Downgrade) 0%N) (now + lp_jail_dur (l_params s)) in
      Ok (set_val s2 (<[a := v2]> (l_val s2)))
    else Ok (set_val s (<[a := v1]> (l_val s)))
  end.

(* evidence: (validator, evidence time, evidence height, counted kind?) ; limits = consensus params (None = no Evidence params) *)
Definition evidence_expired (now height : Z) (limits : option (Z * Z)) (etime eheight : Z) : bool :=
  match limits with
  | None => false
  | Some (max_dur, max_blocks) => ((now - etime) >? max_dur) && ((height - eheight) >? max_blocks)
  end.

Definition handle_evidence (s : lstate) (now height : Z) (limits : option (Z * Z)) (e : N * Z * Z * bool) : res lstate :=
  let '(a, etime, eheight, counted) := e in
  if negb counted then Ok s else
  if evidence_expired now height limits etime eheight then Ok s else
  match l_val s !! a with
  | None => Err
  | Some v =>
    if bool_decide (v_status v = Tombstoned) then Ok s else
    let s1 := rank_remove s (v_power v) a in
    let '(s2, h') := slash_holdings s1 a (v_hold v) (lp_slash_double (l_params s)) in
    let v2 := with_power (with_status (with_hold v h') Tombstoned) 0%N in
    Ok (set_val s2 (<[a := v2]> (l_val s2)))
  end.

(* BeginBlocker *)
Definition begin_block (s : lstate) (now height : Z) (limits : option (Z * Z))
           (votes : list (N * Z * bool)) (evs : list (N * Z * Z * bool)) : res lstate :=
  do s1 <- distribute_reward s height (map (fun '(a, p, _) => (a, p)) votes);
  let s2 := dequeue_mature s1 now in
  do s3 <- fold_res (fun s '(a, _, f) => handle_vote s now a f) votes s2;
  fold_res (fun s e => handle_evidence s now height limits e) evs s3.

(* ---------------- EndBlocker ---------------- *)
Definition rank_desc (s : lstate) : list (N * N) :=
  rev (merge_sort (fun x y => (fst x <? fst y)%N || ((fst x =? fst y)%N && (snd x <=? snd y)%N)) (elements (l_rank s))).

(* walk: returns state, remaining lastSet, updates (validator, power) *)
Fixpoint end_walk (s : lstate) (last : gmap N N) (ups : list (N * N)) (count : Z) (r : list (N * N))
  : res (lstate * gmap N N * list (N * N)) :=
  match r with
  | [] => Ok (s, last, ups)
  | (p, a) :: r' =>
    if count >=? lp_max_validators (l_params s) then Ok (s, last, ups) else
    match l_val s !! a with
    | None => Err
    | Some v =>
      match v_status v with
      | Active =>
        let old := default 0%N (last !! a) in
        let '(s', ups') := if (old =? v_power v)%N then (s, ups)
                           else (set_set s (<[a := v_power v]> (l_set s)), ups ++ [(a, v_power v)]) in
        end_walk s' (delete a last) ups' (count + 1) r'
      | Pending =>
        match last !! a with
        | Some _ => Err
        | None =>
          let v' := with_signing (with_status v Active) 0 0 in
          let s' := set_set (set_val s (<[a := v']> (l_val s))) (<[a := v_power v]> (l_set s)) in
          end_walk s' last (ups ++ [(a, v_power v)]) (count + 1) r'
        end
      | _ => Err
      end
    end
  end.

Fixpoint end_remove (s : lstate) (ups : list (N * N)) (rest : list N) : res (lstate * list (N * N)) :=
  match rest with
  | [] => Ok (s, ups)
  | a :: r =>
    match l_val s !! a with
    | None => Err
    | Some v =>
      let s1 := if bool_decide (v_status v = Active)
                then set_val s (<[a := with_status v Pending]> (l_val s)) else s in
      end_remove (set_set s1 (delete a (l_set s1))) (ups ++ [(a, 0%N)]) r
    end
  end.

Definition end_block (s : lstate) : res (lstate * list (N * N)) :=
  do x <- end_walk s (l_set s) [] 0 (rank_desc s);
  let '(s1, rest, ups) := x in
  end_remove s1 ups (map fst (map_to_list rest)).

(* ---------------- DequeueLockingModuleTx ---------------- *)
Inductive ltx := TxReward (nonce : N) (r : reward) | TxUnlock (nonce : N) (u : unlock).

Fixpoint number_from {A} (f : N -> A -> ltx) (n : N) (l : list A) : list ltx :=
  match l with [] => [] | x :: r => f n x :: number_from f (n + 1)%N r end.

Definition dequeue_txs (s : lstate) : lstate * list ltx :=
  match l_q_rewards s, l_q_unlocks s with
  | [], [] => (s, [])
  | _, _ =>
    let cap := N.to_nat c_MaxLockingTx in
    let rs := firstn cap (l_q_rewards s) in
    let us := firstn cap (l_q_unlocks s) in
    let n1 := (l_nonce s + N.of_nat (length rs))%N in
    let txs := number_from TxReward (l_nonce s) rs ++ number_from TxUnlock n1 us in
    (set_queue s (skipn cap (l_q_rewards s)) (skipn cap (l_q_unlocks s)) (n1 + N.of_nat (length us))%N, txs)
  end.

(* ---------------- ProcessLockingRequest ---------------- *)
Record lreqs := mkLR {
  q_gas : list Z; q_grants : list Z;
  q_weights : list (N * N); q_thresholds : list (N * Z);
  q_creates : list (N * N * N);
  q_locks : list (N * N * Z);
  q_unlocks : list (N * N * N * N * Z);
  q_claims : list (N * N * N);
}.

Definition process_requests (s : lstate) (now height : Z) (q : lreqs) : res lstate :=
  do s1 <- update_reward_pool s height (q_gas q) (q_grants q);
  do s2 <- update_tokens s1 (q_weights q) (q_thresholds q);
  do s3 <- create_all s2 (q_creates q);
  do s4 <- lock_all s3 now (q_locks q);
  do s5 <- unlock_all s4 now (q_unlocks q);
  fold_res claim_one (q_claims q) s5.

(* transaction wrapper: cosmos-sdk runTx writes the cache only on success *)
Definition deliver {A} (s : A) (r : res A) : A * N :=
  match r with Ok s' => (s', 0%N) | Err => (s, 1%N) | Panic => (s, 2%N) end.

(* ---------------- block-level step function (what the histories of the theorems range over) -------- *)
Inductive lkop :=
| KBegin (now height : Z) (limits : option (Z * Z)) (votes : list (N * Z * bool)) (evs : list (N * Z * Z * bool))
| KReq (now height : Z) (q : lreqs)
| KEnd
| KDequeue
| KAccount (a : N).          (* an auth account for [a] appears (e.g. a relayer voter registers) *)

(* output: result class, validator updates, dequeued system transactions *)
Definition lk_step (s : lstate) (o : lkop) : lstate * (N * list (N * N) * list ltx) :=
  match o with
  | KBegin now h lim votes evs =>
    let '(s', c) := deliver s (begin_block s now h lim votes evs) in (s', (c, [], []))
  | KReq now h q =>
    let '(s', c) := deliver s (process_requests s now h q) in (s', (c, [], []))
  | KEnd =>
    match end_block s with
    | Ok (s', u) => (s', (0%N, u, []))
    | Err => (s, (1%N, [], []))
    | Panic => (s, (2%N, [], []))
    end
  | KDequeue => let '(s', t) := dequeue_txs s in (s', (0%N, [], t))
  | KAccount a => (set_accounts s ({[ a ]} ∪ l_accounts s), (0%N, [], []))
  end.

Definition lk_run (s : lstate) (ops : list lkop) : lstate := fold_left (fun s o => fst (lk_step s o)) ops s.

Definition empty_lstate (p : lparams) (remain goat gas : Z) (accounts : gset N) : lstate :=
  mkLS p ∅ ∅ ∅ ∅ ∅ ∅ ∅ remain goat gas ∅ [] [] 0%N accounts ∅ ∅ 0 0 0.
