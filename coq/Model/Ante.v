(* Model of app/ante.go: GoatGuardHandler.AnteHandle followed by the cosmos-sdk signature / sequence
   decorators (abstracted to two booleans), and of the message-placement rule of ProcessProposalHandler. *)
From Goat Require Import Base.Prelude.
Local Open Scope N_scope.

Inductive mode := MCheck | MReCheck | MPrepare | MProcess | MFinalize.

(* one message: fully-qualified protobuf name, and whether its signer is the current relayer proposer *)
Record amsg := mkMsg { m_name : string; m_by_proposer : bool }.

Record atx := mkTx {
  a_memo_len : N;
  a_nsigners : N;           (* number of distinct signers of the whole tx *)
  a_timeout : N;            (* timeout height, 0 = none *)
  a_msgs : list amsg;
  a_sig_ok : bool;          (* valid signature over this chain/account/sequence (SigVerificationDecorator) *)
}.

Definition has_prefix (p s : string) : bool := String.prefix p s.
Definition eth_block_msg : string := "goat.goat.v1.MsgNewEthBlock".
Definition is_relayer_module_msg (n : string) : bool := has_prefix "goat.bitcoin." n || has_prefix "goat.relayer." n.

Definition relayer_tx_only (m : amsg) : bool := is_relayer_module_msg (m_name m) && m_by_proposer m.

Definition msg_ok (md : mode) (height : N) (t : atx) (m : amsg) : bool :=
  match md with
  | MCheck | MReCheck | MPrepare => relayer_tx_only m
  | MProcess | MFinalize =>
    if String.eqb (m_name m) eth_block_msg then a_timeout t =? height else relayer_tx_only m
  end.

Definition guard (md : mode) (height : N) (t : atx) : bool :=
  (a_memo_len t =? 0) && (a_nsigners t =? 1)
  && ((a_timeout t =? 0) || (height <=? a_timeout t))
  && forallb (msg_ok md height t) (a_msgs t).

Definition admitted (md : mode) (height : N) (t : atx) : bool := guard md height t && a_sig_ok t.

(* classification of every message type registered in the application *)
Inductive mclass := CBridge | CRelayer | CBlock | CNever.
Definition classify (n : string) : mclass :=
  if String.eqb n eth_block_msg then CBlock
  else if has_prefix "goat.bitcoin." n then CBridge
  else if has_prefix "goat.relayer." n then CRelayer
  else CNever.
