(* Model of x/bitcoin/types/proof.go: VerifyMerkelProof, parameterised by the node hash
   (DoubleSHA256Sum in the code).  Definitions only. *)
From Goat Require Import Base.Prelude.

Section Merkle.
Variable H2 : bytes -> bytes.

(* one step of the loop body: index&1 chooses the side, then index >>= 1 *)
Definition step_up (cur sib : bytes) (idx : N) : bytes :=
  if N.even idx then H2 (cur ++ sib) else H2 (sib ++ cur).

Fixpoint fold_path (cur : bytes) (path : list bytes) (idx : N) : bytes * N :=
  match path with
  | [] => (cur, idx)
  | s :: r => fold_path (step_up cur s idx) r (idx / 2)
  end.

Definition path_of (proof : bytes) : list bytes := chunks (length proof) 32 proof.

(* VerifyMerkelProof(txid, root, proof, index); index is a uint32 in the code *)
Definition verify (txid root proof : bytes) (index : N) : bool :=
  if negb ((N.of_nat (length txid) =? 32) && (N.of_nat (length root) =? 32)
           && (N.of_nat (length proof) mod 32 =? 0)) then false
  else
    let '(cur, idx) := fold_path txid (path_of proof) index in
    (idx =? 0) && beq_bytes cur root.

(* the same function WITHOUT the residual-index test: the code before the repair
   "fix: require residual index 0".  Kept for the refutation witness. *)
Definition verify_unfixed (txid root proof : bytes) (index : N) : bool :=
  if negb ((N.of_nat (length txid) =? 32) && (N.of_nat (length root) =? 32)
           && (N.of_nat (length proof) mod 32 =? 0)) then false
  else
    let '(cur, _) := fold_path txid (path_of proof) index in
    beq_bytes cur root.

(* Bitcoin-style complete Merkle trees *)
Inductive tree : Type := Leaf (h : bytes) | Node (l r : tree).

Fixpoint hash (t : tree) : bytes :=
  match t with Leaf h => h | Node l r => H2 (hash l ++ hash r) end.

Fixpoint complete (d : nat) (t : tree) : Prop :=
  match d, t with
  | O, Leaf h => length h = 32%nat
  | S d', Node l r => complete d' l /\ complete d' r
  | _, _ => False
  end.

(* subtree reached from the root by following the k low bits of idx, most significant first *)
Fixpoint subtree (t : tree) (k : nat) (idx : N) {struct k} : tree :=
  match k with
  | O => t
  | S k' =>
    match t with
    | Node l r => subtree (if N.testbit idx (N.of_nat k') then r else l) k' idx
    | Leaf _ => t
    end
  end.

(* the genuine inclusion path of position idx in a tree of depth d, leaf level first *)
Fixpoint proof_of (t : tree) (d : nat) (idx : N) {struct d} : list bytes :=
  match d with
  | O => []
  | S d' =>
    match t with
    | Node l r =>
      if N.testbit idx (N.of_nat d') then proof_of r d' idx ++ [hash l]
      else proof_of l d' idx ++ [hash r]
    | Leaf _ => []
    end
  end.

(* build the padded tree over a non-empty leaf list: Bitcoin duplicates the last node of
   an odd level *)
Fixpoint pair_up (l : list tree) : list tree :=
  match l with
  | a :: b :: r => Node a b :: pair_up r
  | [a] => [Node a a]
  | [] => []
  end.
Fixpoint build (fuel : nat) (l : list tree) : option tree :=
  match fuel with
  | O => None
  | S f => match l with [] => None | [t] => Some t | _ => build f (pair_up l) end
  end.
Definition root_of (leaves : list bytes) : option bytes :=
  option_map hash (build (S (length leaves)) (map Leaf leaves)).

End Merkle.
