(* Model of x/goat/keeper/abci.go (ProcessProposalHandler, verifyEthBlockProposal), tx.go (NewEthBlock),
   eth.go (VerifyDequeue), keeper.go (Finalized) at the level of the facts each check establishes. *)
From Goat Require Import Base.Prelude Gen.Consts.
Local Open Scope N_scope.

(* VerifyDequeue(extra, txs) against the system transactions due at this point *)
Definition verify_dequeue (due : list bytes) (extra : bytes) (txs : list bytes) : bool :=
  (N.of_nat (length extra) =? 33)
  && (N.of_nat (length due) <=? N.of_nat (length txs))
  && (hd 0 extra =? N.of_nat (length due))
  && (hd 0 extra <=? N.of_nat (length txs))
  && forallb (fun '(a, b) => beq_bytes a b) (combine due (firstn (length due) txs)).

(* facts about a proposed execution payload relative to the committed state and the block being proposed *)
Record pfacts := mkPF {
  f_proposer_is_cons : bool;     (* message proposer = this height's consensus proposer *)
  f_recipient_is_proposer : bool;
  f_timestamp_ok : bool;         (* payload timestamp <= verifier's clock *)
  f_parent_ok : bool;            (* parent hash = recorded head hash *)
  f_number_ok : bool;            (* number = recorded head number + 1 *)
  f_requests_decodable : bool;
  f_gas_requests : N;            (* number of gas-revenue requests *)
  f_beacon_ok : bool;            (* beacon root = recorded beacon root *)
  f_dequeue_ok : bool;           (* verify_dequeue due extra txs *)
  f_engine_valid : bool;         (* engine answered VALID to newPayload *)
  f_blob_gas_zero : bool;
  f_sub_requests_ok : bool;      (* locking / bridge / relayer request processing succeeds *)
}.

Definition verify_eth_block (f : pfacts) : bool :=
  f_proposer_is_cons f && f_recipient_is_proposer f && f_timestamp_ok f && f_parent_ok f && f_number_ok f
  && f_requests_decodable f && (f_gas_requests f =? 1) && f_beacon_ok f && f_dequeue_ok f && f_engine_valid f.

(* one transaction of a proposal: does it pass the ante chain + execution in process mode; which messages *)
Record ptx := mkPT { t_runs : bool; t_nmsgs : N; t_first_is_block : bool; t_has_block_msg : bool; t_payload_present : bool }.

Definition process (txs : list ptx) (f : pfacts) : bool :=
  match txs with
  | [] => false
  | t0 :: rest =>
    (N.of_nat (length txs) <=? c_maxTxLen)
    && forallb t_runs txs
    && (t_nmsgs t0 =? 1) && t_first_is_block t0 && t_payload_present t0 && verify_eth_block f
    && forallb (fun t => negb (t_has_block_msg t)) rest
  end.

(* the execution-block message when finalised: success iff ...; then head := payload, beacon := block hash *)
Definition new_eth_block_ok (f : pfacts) : bool :=
  f_proposer_is_cons f && f_recipient_is_proposer f && f_parent_ok f && f_number_ok f && f_blob_gas_zero f
  && f_beacon_ok f && f_dequeue_ok f && f_requests_decodable f && f_sub_requests_ok f.

(* engine answers *)
Inductive eans := AValid | AInvalid | ASyncing | AAccepted | AError.

(* Finalized (end of block): newPayload then forkchoiceUpdated; only an error or INVALID fails the block *)
Definition notify_ok (a : eans) : bool := match a with AError | AInvalid => false | _ => true end.
Definition finalized_ok (new_payload fork_choice : eans) : bool := notify_ok new_payload && notify_ok fork_choice.

(* proposing: forkchoice must be VALID with a payload id, getPayload must answer *)
Definition prepare_ok (fork_choice : eans) (has_payload_id : bool) (get_payload_err : bool) : bool :=
  match fork_choice with AValid => has_payload_id && negb get_payload_err | _ => false end.
(* checking: newPayload must be VALID *)
Definition check_ok (new_payload : eans) : bool := match new_payload with AValid => true | _ => false end.

(* head after a finalised block: moves iff the block message succeeded and the end-of-block notification did not fail *)
Definition commit_and_head (msg_ok : bool) (np fc : eans) : bool * bool :=   (* (block committed, head advanced) *)
  let committed := finalized_ok np fc in (committed, committed && msg_ok).
