#!/bin/bash
# try_seed.sh <PID> <name> [tier]: applies /verif/seeded/<PID>-<name>/patch.diff to /repo's working tree, runs the
# property's check, records the outcome in detect.log, and restores the tree.
# NOTE: never run this while /verif/harness, /verif/coq or /verif/bin are being edited: a harness that does not
# compile at that moment is reported as a broken correspondence and looks like a detection of the seeded change.
PID=$1; NAME=$2; TIER=${3:-quick}
D=/verif/seeded/$PID-$NAME
cd /repo && git diff --quiet || { echo "/repo working tree not clean"; exit 2; }
cp /verif/evidence/$PID.json /tmp/evidence-keep-$PID.json 2>/dev/null
git -C /repo apply $D/patch.diff || { echo "apply failed"; exit 2; }
/verif/bin/check $PID $TIER > /tmp/try-$PID-$NAME.log 2>&1; RC=$?
git -C /repo checkout -- .
{ echo "check: bin/check $PID $TIER  exit=$RC  ($(date -u +%FT%TZ))"; grep -E "^VIOLATION|^  #|^KNOWN|^\[" /tmp/try-$PID-$NAME.log | cut -c1-600; } > $D/detect.log
cp /verif/evidence/$PID.json $D/evidence-with-patch.json 2>/dev/null
cp /tmp/evidence-keep-$PID.json /verif/evidence/$PID.json 2>/dev/null
echo "$PID-$NAME exit=$RC $(grep -c '^VIOLATION' /tmp/try-$PID-$NAME.log) violation lines"
