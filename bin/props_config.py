# Per-property configuration of bin/check: which harness families to run at each tier, which
# monitor findings belong to the property, what is trusted / assumed.
def runs(quick, thorough):
    return {'quick': quick, 'thorough': thorough}

LOCKING_RULE = ('block histories (begin-block with votes/evidence from the tracked CometBFT set, one execution-layer request list '
  'with creates/locks/unlocks/claims/weights/thresholds/grants, end-block, hand-over, state dumps) over 2..7 validators x 1..4 tokens, '
  'amounts from 0/dust to 2^100, failing request lists included; distinct = distinct op-shape signatures of a history')
def locking(pid, nq=320, nt=6000, blocks=14):
    return runs([{'family': 'locking', 'n': nq, 'shards': 16, 'param': f'proj={pid},blocks={blocks}'}],
                [{'family': 'locking', 'n': nt, 'shards': 64, 'param': f'proj={pid},blocks={blocks+10}'}])

BRIDGE_RULE = ('histories over the real relayer + bitcoin keepers: voted messages (block hashes, new key, process / replace withdrawal, '
  'consolidation) with real BLS aggregate signatures in 15 vote variants (honest, too few, marks beyond the voter list, mark without signature, '
  'extra signer, wrong seq/epoch/method/payload/chain/proposer, odd / wide bitmaps, garbage signature), verbatim replays of accepted votes, deposits '
  '(v0/v1, both key types, aliased positions, truncated proofs, duplicates), withdrawals (request/RBF/cancel/process/replace/finalise/approve), '
  'parameter requests, hand-over, voter add/remove/registration with real possession proofs, proposer acceptance, elections; '
  'distinct = distinct op-shape signatures of a history')
def bridge(pid, nq=160, nt=4000, ops=45):
    return runs([{'family': 'bridge', 'n': nq, 'shards': 16, 'param': f'proj={pid},ops={ops}'}],
                [{'family': 'bridge', 'n': nt, 'shards': 64, 'param': f'proj={pid},ops={ops+25}'}])
SYMBOLIC = ['BLS/ECDSA verification is symbolic in the model: a signature is (signer key ids, signed bytes); agg_verify succeeds iff the collected key multiset equals the signer multiset and the bytes equal the sign-doc (idealised unforgeability, no rogue keys)',
            'SHA-256 is an abstract parameter H in every theorem; the correspondence run instantiates it with the executable Crypto/Sha256.v']

PROPS = {
 'C01': {'runs': bridge('C01'), 'monitor_props': ['C01'], 'rule': BRIDGE_RULE, 'assumptions': SYMBOLIC},
 'C02': {'runs': bridge('C02'), 'monitor_props': ['C02'], 'rule': BRIDGE_RULE, 'assumptions': SYMBOLIC,
         'partial': ''},
 'C07': {'runs': runs([{'family': 'replicas', 'bin': 'ah', 'n': 40, 'shards': 2}], [{'family': 'replicas', 'bin': 'ah', 'n': 800, 'shards': 8}]),
         'monitor_props': ['C07'],
         'rule': 'block histories of 7 blocks (validator creation, lock request lists over 1..4 validators with unknown validators / tokens making the block message fail part-way, unlocks up to everything held, gas revenue) executed on three instances of the real application behind ABCI: A proposes, B and C check and finalise the same proposal, C is stopped between FinalizeBlock and Commit at scripted blocks, reloads from disk and finalises again; compared: app hash, per-tx codes and gas, the set of validator updates, the engine calls of the finalisation; distinct = blocks executed',
         'assumptions': ['Go randomises map iteration per loop, so map-order dependence surfaces as a replica difference with probability growing with the number of runs (the proof obligation C07_sites_covered does not depend on that luck)',
                         'the nondeterminism-site list (Gen/Sites.v) is syntactic: map-typed locals / fields / parameters / results declared in the same package, go statements and errgroup.Go, select, time.Now/After/Since/Sleep, imported rand packages, sync.Pool'],
         'partial': 'the model-level statement is per site (order-insensitivity of the one remaining map-ordered loop, first-seen order of Lock); store flushing in sorted order is cosmos-sdk (trusted dependency) and is covered by the replica comparison only'},
 'C08': {'runs': runs([{'family': 'goatblock', 'bin': 'ah', 'n': 200, 'shards': 2}, {'family': 'goatblock', 'bin': 'ah', 'n': 40, 'shards': 1, 'race': True, 'tag': 'race', 'seed_off': 7}, {'family': 'faults', 'bin': 'ah', 'n': 50, 'shards': 1, 'tag': 'f'}],
                      [{'family': 'goatblock', 'bin': 'ah', 'n': 3000, 'shards': 8}, {'family': 'goatblock', 'bin': 'ah', 'n': 400, 'shards': 2, 'race': True, 'tag': 'race', 'seed_off': 7}, {'family': 'faults', 'bin': 'ah', 'n': 500, 'shards': 2, 'tag': 'f'}]),
         'monitor_props': ['C08'],
         'rule': 'on the real application behind ABCI: an honest proposal built by PrepareProposal on a well-behaved fake engine (mempool with admissible / foreign / stale transactions, due system transactions) and one mutation of it per case: payload fields (parent, number, beacon root, fee recipient, timestamp ahead, extra data, dropped / duplicated / reordered system transactions, request list shapes, blob gas) and structure (other proposer, foreign signer, second block message, block message not first, two messages in the first tx, 17 transactions, empty proposal); ProcessProposal verdict and the FinalizeBlock result of the block message are compared with the model; the same family under the Go race detector; distinct = distinct (mutation, verdict)',
         'assumptions': ['the payload facts (child of head, beacon root, ...) are computed by the harness from the proposal and the committed state and handed to the model as booleans; the model is the decision logic over them',
                         'the goroutine footprints (Gen/Footprint.v) are syntactic: selector reads/writes on the shared msg/payload inside each closure and inside the x/goat/types callees that receive the payload, assignments to captured variables']},
 'C09': {'runs': runs([{'family': 'faults', 'bin': 'ah', 'n': 60, 'shards': 1}, {'family': 'goatblock', 'bin': 'ah', 'n': 100, 'shards': 1, 'tag': '1'}, {'family': 'goatblock', 'bin': 'ah', 'n': 90, 'shards': 1, 'param': 'forced', 'tag': '2', 'seed_off': 3},
                       {'family': 'chain', 'bin': 'ah', 'n': 40, 'shards': 1, 'tag': '3'}, {'family': 'finalize', 'n': 120, 'shards': 1, 'tag': '4'}],
                      [{'family': 'faults', 'bin': 'ah', 'n': 600, 'shards': 4}, {'family': 'goatblock', 'bin': 'ah', 'n': 2000, 'shards': 8, 'tag': '1'}, {'family': 'goatblock', 'bin': 'ah', 'n': 1200, 'shards': 4, 'param': 'forced', 'tag': '2', 'seed_off': 3},
                       {'family': 'chain', 'bin': 'ah', 'n': 800, 'shards': 4, 'tag': '3'}, {'family': 'finalize', 'n': 3000, 'shards': 4, 'tag': '4'}]),
         'monitor_props': ['C09'],
         'rule': 'histories of 5..9 finalised consensus blocks on the real application (state on disk), every block finalised whatever ProcessProposal would say: honest payloads, payloads that are not a valid child (parent, number +-1, blob gas, beacon root), other consensus proposer / fee recipient, block messages failing on their request lists or system transactions, each with or without an engine fault {error, INVALID, SYNCING, ACCEPTED} at newPayload or forkchoiceUpdated of the end of the block; failed blocks discarded by reopening; after every block the committed head, beacon root and the arguments of both engine calls are compared with the chain-level model (family chain) ; engine fault kinds {error, INVALID, SYNCING, ACCEPTED, missing payload id, timeout} x call sites {forkchoice while proposing, getPayload, newPayload while checking, newPayload and forkchoice at end of block} on the real application (state on disk): committed or not, head before/after, reopen from disk and retry compared with a fault-free run; plus the proposal mutations of C08 for the head-step relation, and (state on disk) proposals that ProcessProposal rejected forced through FinalizeBlock without commit to observe the block message alone, then discarded by a restart; distinct = distinct (phase, fault kind)',
         'assumptions': ['the fake engine is the only execution layer; timeouts are the 1.2 s / 2 s context deadlines of the keeper', 'family finalize: Keeper.Finalized at keeper level against a scripted engine client returning each status and each client-side error class (plain, deadline exceeded, net time-out, cancelled, cut connection), classes the IPC transport of the application-level families cannot carry']},
 'C10': {'runs': runs([{'family': 'ante', 'bin': 'ah', 'n': 400, 'shards': 2}, {'family': 'goatblock', 'bin': 'ah', 'n': 150, 'shards': 1, 'tag': '1', 'seed_off': 9}],
                      [{'family': 'ante', 'bin': 'ah', 'n': 4000, 'shards': 8}, {'family': 'goatblock', 'bin': 'ah', 'n': 2000, 'shards': 8, 'tag': '1', 'seed_off': 9}]),
         'monitor_props': ['C10'],
         'rule': 'every message type in the application interface registry x {CheckTx, ReCheck, PrepareProposal, ProcessProposal, FinalizeBlock} x signer {relayer proposer, validator, other} x memo {empty, x} x timeout {0, h-1, h, h+1} x bad signature, plus all ordered pairs of message types in one tx, through the real app.New behind ABCI with a fake engine; distinct = distinct (variant, mode)',
         'assumptions': ['signature / sequence / pubkey decorators are cosmos-sdk (modelled as one boolean a_sig_ok); ReCheckTx does not re-verify signatures by design']},
 'C11': {
   'runs': locking('C11'),
   'monitor_props': ['C11'],
   'rule': LOCKING_RULE,
   'assumptions': ['amounts stay below the 256-bit limit of math.Int (the overflow panic is not modelled)',
                   'request amounts are non-negative (they are decoded from unsigned EVM words)'],
 },
 'C12': {
   'runs': locking('C12'),
   'monitor_props': ['C12'],
   'rule': LOCKING_RULE,
   'assumptions': ['grants and voting powers are non-negative (unsigned on the wire); InitialBlockReward >= 0 (Params.Validate)'],
 },
 'C13': {'runs': locking('C13', blocks=16), 'monitor_props': ['C13'], 'rule': LOCKING_RULE + '; max-validators 1..5; the REAL cometbft ValidatorSet.UpdateWithChangeSet is the acceptance oracle',
         'partial': 'C13_complete has no hypothesis beyond the block structure of histories (BeginBlocker, request lists at the same block time, EndBlocker) and the parameter ranges; top-K is a theorem too (C13_top_k, C13_ranking_sorted); what stays outside the theorems are the environment assumptions below',
         'assumptions': ['total voting power stays below MaxInt64/8 and validator power does not wrap uint64 (known finding C13 power-overflow)', 'at least one validator stays in the set (CometBFT refuses to empty the set; environment assumption)']},
 'C14': {
   'runs': locking('C14', blocks=18),
   'monitor_props': ['C14'],
   'rule': LOCKING_RULE + '; signing windows 3..8 with max-missed 1..window-1, evidence ages straddling both limits',
   'partial': '',
   'assumptions': ['slash fractions lie in (0,1) (Params.Validate)'],
 },
 'C03': {'runs': bridge('C03'), 'monitor_props': ['C03'], 'rule': BRIDGE_RULE, 'assumptions': SYMBOLIC + ['bitcoin transaction parsing is btcd (trusted dependency): the harness passes the strictly parsed outputs to the model', 'hash160 and the taproot tweak are data supplied by the harness (computed with the real libraries)']},
 'C05': {'runs': bridge('C05'), 'monitor_props': ['C05'], 'rule': BRIDGE_RULE, 'assumptions': SYMBOLIC + ['withdrawal ids in execution-layer requests are fresh (assigned by the bridge contract counter)', 'fee-rate test modelled exactly (fee > price*len); equals the float64 test for values below 2^53'],
         'partial': ''},
 'C06': {'runs': runs([{'family': 'bridge', 'n': 160, 'shards': 16, 'param': 'proj=C06,ops=45'}, {'family': 'locking', 'n': 160, 'shards': 16, 'param': 'proj=C15,blocks=14', 'tag': '1'},
                       {'family': 'goatblock', 'bin': 'ah', 'n': 120, 'shards': 1, 'tag': '2', 'seed_off': 5}],
                      [{'family': 'bridge', 'n': 4000, 'shards': 64, 'param': 'proj=C06,ops=70'}, {'family': 'locking', 'n': 3000, 'shards': 64, 'param': 'proj=C15,blocks=24', 'tag': '1'},
                       {'family': 'goatblock', 'bin': 'ah', 'n': 1500, 'shards': 6, 'tag': '2', 'seed_off': 5}]),
         'monitor_props': ['C06'], 'rule': BRIDGE_RULE + ' ; ' + LOCKING_RULE + ' ; application level: proposals whose leading system transactions are dropped, reordered, tampered, invented in front of or behind the due ones, announced too few / too many (goatblock family)',
         'partial': 'the payload-level clause (VerifyDequeue) is decided by the goatblock family against the facts-level model; unfinalised proposals consuming nothing and restarts are exercised by the C08/C09 checks'},
 'C16': {'runs': bridge('C16', ops=60), 'monitor_props': ['C16'], 'rule': BRIDGE_RULE, 'assumptions': SYMBOLIC,
         'partial': ''},
 'C15': {'runs': locking('C15', blocks=18), 'monitor_props': ['C15'], 'rule': LOCKING_RULE + '; unlock / exit durations 10..90 s with block-time jumps over them',
         'partial': 'C15_queue_evolution covers every operation of every history (the queues move only by the three allowed moves); the per-entry statement "released at a block time >= request time + duration" is its immediate consequence together with C15_delay_and_exit and is additionally checked end-to-end by the implementation-side monitor; it is not restated as a trace theorem with request-time ghosts',
         'assumptions': ['block times non-decreasing (CometBFT BFT time)', 'ExitingDuration >= UnlockDuration (Params.Validate)']},
 'C04': {
   'runs': runs([{'family': 'merkle', 'n': 3000, 'shards': 16}, {'family': 'bridge', 'n': 160, 'shards': 16, 'param': 'proj=C04,ops=45', 'tag': '1'}],
                [{'family': 'merkle', 'n': 60000, 'shards': 64}, {'family': 'bridge', 'n': 3000, 'shards': 64, 'param': 'proj=C04,ops=70', 'tag': '1'}]),
   'monitor_props': ['C04'],
   'rule': 'the two callers of the proof check (deposit verification, withdrawal finalisation) through the bridge family, including blocks with a single transaction (empty path) presented at another position and the last transaction of an odd-sized block (whose sibling is itself) ; random Bitcoin merkle trees (1..600 leaves, duplicate-last padding) x {genuine, aliased position i+k*2^d, 2^31, 2^32-1, shifted, truncated, inner node, extended, permuted, bit-flipped, wrong root, wrong sizes, ragged, coinbase under 2^d.., duplicated last leaf, empty path}; distinct = distinct (leaf,root,path,position) with a non-empty path',
   'assumptions': ['binding theorems conclude "... or an explicit hash collision is exhibited" (no idealised hash assumed)',
                   'the executable SHA-256 in Crypto/Sha256.v is validated against crypto/sha256 by this very comparison'],
   'trusted_base': ['Crypto/Sha256.v uses primitive Uint63 operations under vm_compute (correspondence only; no theorem unfolds it except the two closed Examples)'],
 },
 'C17': {'runs': runs([{'family': 'address', 'n': 2400, 'shards': 16}, {'family': 'bridge', 'n': 160, 'shards': 16, 'param': 'proj=C17,ops=45', 'tag': '1'}],
                      [{'family': 'address', 'n': 60000, 'shards': 64}, {'family': 'bridge', 'n': 3000, 'shards': 64, 'param': 'proj=C17,ops=70', 'tag': '1'}]),
         'monitor_props': ['C17'],
         'rule': BRIDGE_RULE + ' (projection: deposits as VerifyDeposit accepts them incl. version-1 transactions with three outputs and near-miss scripts, withdrawal address strings incl. white-space wrapped ones) ; deposit addresses: key type {ECDSA, Schnorr; valid, short, bad prefix, off-curve} x version {0,1} x network {4 configured} x EVM address / magic prefix lengths, through the builders AND Query/DepositAddress of a real keeper, then the script a wallet derives from the returned string is fed to the verifiers with the same and with another key / EVM address; verifiers on independently built genuine scripts with 8 mutations; withdrawal address strings of 12 kinds (p2pkh, p2sh, p2wpkh, p2wsh, p2tr, non-standard witness programs v0..16 x 8 lengths, wrong checksum flavour, p2pk hex, bad base58 lengths / versions, random bytes, leading zeros) from 5 source networks under 4 configured networks with 9 string mutations; distinct = distinct (kind, mutation, outcome)',
         'assumptions': ['SHA-256 / HASH160 / the taproot tweak are abstract functions with fixed output length in the theorems; "for no other" is concluded up to an exhibited collision', 'elliptic-curve facts (x-only key parses, tweaked output key, HASH160) are data supplied by the harness from the real libraries',
                         'observation outside the property: btcd decodes a witness-v1 address with a 20-byte program (non-standard) as P2WPKH; counted in the distribution, not a violation of the property as stated'],
         'partial': 'both string codecs are proved round trips for every payload (bech32 / bech32m with the checksum algebra and the 8<->5-bit regrouping; base58check with the positional-number lemmas), so handed-out and withdrawal addresses decode to the script they encode; the legacy statement is for strings that DecodeAddress does not first read as segwit (text before the last 1 being a configured prefix), which no P2PKH / P2SH string of the configured networks is; elliptic-curve facts and hash output lengths are hypotheses'},
 'C18': {'runs': runs([{'family': 'locking', 'n': 160, 'shards': 16, 'param': 'proj=C18,blocks=14'}, {'family': 'bridge', 'n': 120, 'shards': 16, 'param': 'proj=C18,ops=45', 'tag': '1'}, {'family': 'export', 'bin': 'ah', 'n': 16, 'shards': 1, 'tag': '2'}],
                      [{'family': 'locking', 'n': 3000, 'shards': 64, 'param': 'proj=C18,blocks=24'}, {'family': 'bridge', 'n': 2500, 'shards': 64, 'param': 'proj=C18,ops=70', 'tag': '1'}, {'family': 'export', 'bin': 'ah', 'n': 300, 'shards': 2, 'tag': '2'}]),
         'monitor_props': ['C18'],
         'rule': LOCKING_RULE + ' ; ' + BRIDGE_RULE + ' ; after every successful end-block (locking) / at random points and at the end (bridge) the real ExportGenesis output goes through JSON, GenesisState.Validate and the real InitGenesis of a fresh keeper set; compared: second export, every key/value of the module stores (primary and derived collections), validators returned to CometBFT vs ActiveValidators; application level: ExportAppStateAndValidators -> InitChain of a fresh application -> validators, second export',
         'assumptions': ['a collections.Sequence never written reads as 0 and InitGenesis writes the 0: treated as equal', 'zero-valued slashed totals read as zero whether present or absent: treated as equal',
                         'relayer boarding queues are compared as multisets: InitGenesis rebuilds them from the voter records in address order while the running chain keeps request order; no query exposes the queue and the property asks for the same invariants (observation recorded in DESIGN.md)'],
         'partial': 'Coq theorems cover the locking module (the one with derived collections and validator hand-over), for every reachable block-boundary state (C18_reachable_round_trip, invariants proved preserved by every operation); relayer and bitcoin round trips are decided by the differential run only'},
 'C19': {'runs': runs([{'family': 'fuzz', 'bin': 'ah', 'n': 160, 'shards': 1}, {'family': 'goatblock', 'bin': 'ah', 'n': 150, 'shards': 1, 'tag': '3', 'seed_off': 11}, {'family': 'bridge', 'n': 100, 'shards': 16, 'param': 'proj=C19,ops=45', 'tag': '1'}, {'family': 'locking', 'n': 100, 'shards': 16, 'param': 'proj=C19,blocks=12', 'tag': '2'}],
                      [{'family': 'fuzz', 'bin': 'ah', 'n': 4000, 'shards': 4}, {'family': 'goatblock', 'bin': 'ah', 'n': 2000, 'shards': 4, 'tag': '3', 'seed_off': 11}, {'family': 'bridge', 'n': 2500, 'shards': 64, 'param': 'proj=C19,ops=70', 'tag': '1'}, {'family': 'locking', 'n': 2500, 'shards': 64, 'param': 'proj=C19,blocks=24', 'tag': '2'}]),
         'monitor_props': ['C19'],
         'rule': 'on the real application behind ABCI, two replicas: every chain message type with one shape mutation found by reflection (nil sub-message, nil / empty / doubled repeated field, byte fields of length 0,1,7,9,31,33,63,79,81,255,70000, boundary integers, odd strings), raw transaction bytes truncated / bit-flipped / extended / random, arbitrary decodable execution-layer request lists (13 request kinds with boundary amounts, unknown validators / tokens / ids, junk addresses), shape-mutated block messages; through CheckTx, PrepareProposal, ProcessProposal, FinalizeBlock, Commit; a failed input must leave the four module stores equal to the replica that never saw it; plus keeper-level histories whose result classes (ok / error / recovered panic) are predicted by the model; distinct = distinct (kind, message type, outcome)',
         'assumptions': ['a proposal rejected by ProcessProposal is never finalised (honest majority): rejected proposals are not forced into FinalizeBlock', 'messages that cannot be serialised (nil element of a repeated field) are not inputs a node can receive'],
         'partial': 'crash-freedom of the Go process itself is an implementation-level fact established by the fuzz run (a crash is detected through current.json); the Coq theorems are the model-level statements that failures change nothing and where the modelled panics are'},
 'C20': {
   'runs': runs([{'family': 'params', 'n': 4000, 'shards': 8}, {'family': 'bridge', 'n': 120, 'shards': 16, 'param': 'proj=C20,ops=45', 'tag': '1'}],
                [{'family': 'params', 'n': 120000, 'shards': 32}, {'family': 'bridge', 'n': 3000, 'shards': 64, 'param': 'proj=C20,ops=70', 'tag': '1'}]),
   'monitor_props': ['C20'],
   'rule': 'random safe initial params x 1..6 request lists of DepositTax/Confirmation/MinDeposit with boundary-biased 64-bit values, then 12 probes of genesis validation (Params.Validate on boundary tuples) per case; distinct = distinct request histories ; ' + BRIDGE_RULE + ' (projection: parameters, deposits and the amounts / taxes of the dequeued deposit transactions)',
   'assumptions': ['initial parameters satisfy the bounds or at least genesis validation (C20_genesis_validation states what that gives: the rate may then be exactly 100 %, a gap of Params.Validate recorded as an observation)'],
 },
}
