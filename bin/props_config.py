# Per-property configuration of bin/check: which harness families to run at each tier, which
# monitor findings belong to the property, what is trusted / assumed.
def runs(quick, thorough):
    return {'quick': quick, 'thorough': thorough}

PROPS = {
 'C04': {
   'runs': runs([{'family': 'merkle', 'n': 3000, 'shards': 16}],
                [{'family': 'merkle', 'n': 60000, 'shards': 64}]),
   'monitor_props': ['C04'],
   'rule': 'random Bitcoin merkle trees (1..600 leaves, duplicate-last padding) x {genuine, aliased position i+k*2^d, 2^31, 2^32-1, shifted, truncated, inner node, extended, permuted, bit-flipped, wrong root, wrong sizes, ragged, coinbase under 2^d.., duplicated last leaf, empty path}; distinct = distinct (leaf,root,path,position) with a non-empty path',
   'assumptions': ['binding theorems conclude "... or an explicit hash collision is exhibited" (no idealised hash assumed)',
                   'the executable SHA-256 in Crypto/Sha256.v is validated against crypto/sha256 by this very comparison'],
   'trusted_base': ['Crypto/Sha256.v uses primitive Uint63 operations under vm_compute (correspondence only; no theorem unfolds it except the two closed Examples)'],
 },
 'C20': {
   'runs': runs([{'family': 'params', 'n': 4000, 'shards': 8}],
                [{'family': 'params', 'n': 120000, 'shards': 32}]),
   'monitor_props': ['C20'],
   'rule': 'random safe initial params x 1..6 request lists of DepositTax/Confirmation/MinDeposit with boundary-biased 64-bit values; distinct = distinct request histories',
   'assumptions': ['initial parameters satisfy the bounds (genesis validation is outside this property)'],
 },
}
