#!/usr/bin/env python3
# Writes /verif/seeded/<id>/meta.json for every seeded change and /verif/seeded/SUMMARY.md (table).
import glob, json, os, re
rows = []
for d in sorted(glob.glob('/verif/seeded/C*-*m[12]')):
    name = os.path.basename(d)
    pid = name.split('-')[0]
    readme = open(f'{d}/README.md').read() if os.path.exists(f'{d}/README.md') else ''
    patch = open(f'{d}/patch.diff').read()
    files = re.findall(r'^\+\+\+ b/(\S+)', patch, flags=re.M)
    title = next((l.strip('# ').strip() for l in readme.splitlines() if l.strip() and not l.lower().startswith('demo package')), '')
    m = re.search(r'(?is)(circumstances needed|what it needs|when it shows|trigger|what it takes to (?:show|manifest))[^\n]*\n(.*?)(\n#|\n\*\*|\n\n[A-Z][a-z]+ ?[a-z]*:|\Z)', readme)
    needs = (m.group(2).strip() if m else '')[:900] or readme[:600]
    confirm = open(f'{d}/confirm.log').read() if os.path.exists(f'{d}/confirm.log') else ''
    detect = open(f'{d}/detect.log').read() if os.path.exists(f'{d}/detect.log') else ''
    ok = all(x in confirm for x in ['apply: ok', 'suite-with-patch: pass', 'demo-with-patch: fails (expected)', 'demo-without-patch: passes (expected)'])
    det = 'exit=1' in detect
    vio = re.findall(r'^  # (.*)$', detect, flags=re.M)
    nofail = 'no-failing-input-found' in detect
    meta = {'property': pid, 'name': name, 'files_changed': files, 'summary': title,
            'needs_to_manifest': needs,
            'confirmed_in_scratch_worktree': {'ok': ok, 'log': confirm.strip().splitlines(),
                'procedure': 'bin/confirm_seed.sh: git worktree of /repo HEAD under /tmp, git apply patch.diff, go build ./..., full suite go test -vet=off -count=1 ./... (must pass), demo_test.go copied into its package (must fail), git checkout -- . (demo must pass); worktree removed'},
            'checked_against': {'command': f'bin/try_seed.sh {pid} {name.split("-")[1]}{" thorough" if "thorough tier:" in detect else ""}  (git -C /repo apply, bin/check {pid} {"thorough (not reported at the quick tier)" if "thorough tier:" in detect else "quick"}, git -C /repo checkout -- .)',
                                'detected': det, 'with_concrete_input': det and not nofail, 'reported': [v[:300] for v in vio[:4]], 'log': detect.strip().splitlines()[:12]}}
    json.dump(meta, open(f'{d}/meta.json', 'w'), indent=1)
    rows.append((name, pid, ', '.join(files), title[:110], 'yes' if ok else 'NO', (('yes' if 'thorough tier:' not in detect else 'at the thorough tier') + ('' if not nofail else ' (no concrete input)')) if det else 'NO', (vio[0][:140] if vio else '')))
with open('/verif/seeded/SUMMARY.md', 'w') as f:
    f.write('| change | files | what | confirmed | detected by `bin/check <id> quick` | first report |\n|---|---|---|---|---|---|\n')
    for r in rows:
        f.write(f'| {r[0]} | {r[2]} | {r[3]} | {r[4]} | {r[5]} | {r[6]} |\n')
print(len(rows), 'seeded changes;', sum(1 for r in rows if r[5].startswith('yes')), 'detected;', sum(1 for r in rows if r[4] == 'yes'), 'confirmed')
