#!/usr/bin/env python3
# Regenerates the generated tables of DESIGN.md (between <!-- BEGIN:x --> / <!-- END:x --> markers):
#   theorems : per property, the theorems of coq/Props/<id>.v and the harness families of the quick tier
#   seeds    : the seeded changes and what the registered check reported for each (from seeded/*/meta.json)
import glob, json, os, re, sys
sys.path.insert(0, '/verif/bin')
import props_config as pc

def theorems():
    out = ['| id | theorems in `Props/` | names (prefix `<id>_` dropped) | harness families run by the check (quick tier) |', '|---|---|---|---|']
    for pid in sorted(pc.PROPS):
        src = open(f'/verif/coq/Props/{pid}.v').read()
        names = re.findall(r'^(?:Theorem|Lemma|Corollary)\s+(\w+)', src, flags=re.M)
        short = [n[len(pid) + 1:] if n.startswith(pid + '_') else n for n in names]
        fams = []
        for r in pc.PROPS[pid]['runs']['quick']:
            f = r['family'] + (f" ({r['param']})" if r.get('param') else '') + (' under the race detector' if r.get('race') else '')
            fams.append(f)
        out.append(f"| {pid} | {len(names)} | {', '.join(short)} | {'; '.join(fams)} |")
    return '\n'.join(out)

def seeds():
    out = ['| change | files | what it breaks | needs | reported by `bin/check <id>` (quick tier unless said otherwise) |', '|---|---|---|---|---|']
    n = det = conc = thor = 0
    for m in sorted(glob.glob('/verif/seeded/C*/meta.json')):
        d = json.load(open(m))
        c = d['checked_against']
        n += 1; det += bool(c['detected']); conc += bool(c['with_concrete_input'])
        rep = (c['reported'][0] if c['reported'] else '')[:170].replace('|', '/')
        how = ('concrete input: ' if c['with_concrete_input'] else 'no-failing-input-found: ') if c['detected'] else 'NOT DETECTED'
        if 'thorough' in c['command']:
            how = 'thorough tier only; ' + how
            thor += 1
        needs = re.sub(r'\s+', ' ', d['needs_to_manifest'])[:150].replace('|', '/')
        out.append(f"| {d['name']} | {', '.join(d['files_changed'])} | {d['summary'][:100].replace('|','/')} | {needs} | {how}{rep} |")
    out.append('')
    out.append(f'{n} seeded changes, {det} reported by the check of their property ({det - thor} at the quick tier, {thor} only at the thorough tier), {conc} of them with a concrete failing input as replay; the others are reported as a broken correspondence (model and implementation differ on named cases) with `no-failing-input-found`.')
    return '\n'.join(out)

gen = {'theorems': theorems, 'seeds': seeds}
p = '/verif/DESIGN.md'
s = open(p).read()
for k, f in gen.items():
    b, e = f'<!-- BEGIN:{k} -->', f'<!-- END:{k} -->'
    if b in s and e in s:
        i, j = s.index(b) + len(b), s.index(e)
        s = s[:i] + '\n' + f() + '\n' + s[j:]
    else:
        print('marker missing:', k)
open(p, 'w').write(s)
print('tables regenerated')
