#!/usr/bin/env python3
# Regenerates MANIFEST.json from the table below (keeps it valid at all times).
import json
TB = "Trusted: Coq 8.16.1 kernel + vm_compute; hand-written Gallina model tied to the code by the differential run of every check (model evaluated inside Coq on the operations the real keepers executed); Gen/*.v regenerated from the Go source; Go harness generators and monitors; cosmos-sdk/cometbft/btcd/blst/go-ethereum as dependencies."
C = {}
def chk(pid, text, note, tech, ref=None):
    C[pid] = {"property_id": pid, "quick_cmd": f"bin/check {pid} quick", "thorough_cmd": f"bin/check {pid} thorough",
      "evidence_file": f"/verif/evidence/{pid}.json", "replay_cmd_template": f"bin/check {pid} --replay {{path}}", "engine": "coq-model",
      "level_claimed": {"category": "proof", "text": text, "design_ref": ref or f"DESIGN.md section 3 {pid}"},
      "level_note": note, "technique": tech}

chk('C04', "Coq theorems over ALL leaves, roots, paths and positions (any node hash): exact characterisation of acceptance (C04_spec), position binding up to an exhibited hash collision (C04_binding, C04_leaf_only_where_it_is, C04_coinbase_only_at_zero), completeness (C04_complete). Tied to x/bitcoin/types/proof.go by evaluating the Gallina function (with an executable SHA-256) inside Coq on the inputs the real VerifyMerkelProof was run on.",
  TB + " Collision alternative is explicit in the theorems, no hash idealisation.",
  "Coq proof (induction over the path / tree) + model-vs-code differential run evaluated by vm_compute")
chk('C20', "Coq theorems over ALL histories of parameter request lists and all 64-bit values: the safe range is invariant (C20_bounds, induction over the history) and implies tax<value, credited>0, value>546 for every admitted deposit (C20_consequences, C20_history_consequences), no uint64 wrap. Constants come from Gen/Consts.v regenerated from the Go source on every run; the update loops are tied to ProcessBridgeRequest by a differential run.",
  TB + " Assumes the initial (genesis) parameters are in range.",
  "Coq proof (invariant by induction over request history) + regenerated constants + model-vs-code differential run")
chk('C11', "Coq theorem C11_conservation: for EVERY history of block operations (begin-block with any votes/evidence, any execution-layer request list incl. failing ones, end-block, hand-over) and every token, ever-locked = held + slashed + released; C11_unlock_amount / C11_unlock_bounded: one unlock releases exactly min(requested, held). Proved by per-operation invariant preservation over an executable model of the whole x/locking keeper; the model is replayed against the real keeper on random histories and all projected state is compared.",
  TB + " Amounts assumed below the 256-bit math.Int limit and non-negative (unsigned on the wire).",
  "Coq proof (ledger invariant preserved by every operation, induction over histories) + model-vs-keeper differential histories + implementation-side ledger monitor")
chk('C12', "Coq theorems over every history: reward conservation (C12_conservation), emission min(remaining, initial/2^halvings) (C12_emission, C12_halving), shares = floor(pool*floor(p*1e18/total)/1e18) summing to at most the pool (C12_distribution, C12_distribution_bound), claim pays exactly the accrued pair once (C12_claim_once), no pool or accrued reward ever negative (C12_nonneg). The pre-repair rounding is refuted by a closed example (C12_unfixed_refuted).",
  TB + " Assumes grants and voting powers non-negative, InitialBlockReward >= 0.",
  "Coq proof (invariants by induction over histories; arithmetic lemmas on floor division) + differential histories + reward-ledger monitor")
chk('C14', "Coq theorems: exact effect of a vote record on an active validator incl. slash amounts and jail time (C14_downtime_step), non-active validators are not counted (C14_inactive_not_counted), stale evidence ignored (C14_stale_evidence_ignored), evidence slashes and tombstones (C14_evidence_tombstones), and for EVERY continuation a tombstoned validator stays tombstoned (C14_tombstone_forever, induction over histories). Zero power / non-membership of punished validators follows from the C13 invariants.",
  TB + " Slash fractions assumed in (0,1) (Params.Validate).",
  "Coq proof (step characterisations + permanence invariant over histories) + differential histories + tombstone/downtime monitors")

chk('C01', "Coq theorems for EVERY state, bitmap, signer set, action and payload: an accepted vote is for the current proposer/sequence/epoch, verifies (symbolic BLS) over the sign-doc of exactly this chain/sequence/epoch/action/proposer/payload under the proposer's key plus one key per marked bit of distinct-position current voters, reaches ceil(2(n+1)/3) (C01_quorum, C01_threshold_ceil), has no mark beyond the voter list (C01_marks_denote_voters, via a popcount = marked-positions lemma); every accepted voted operation passed that verification over its own payload (C01_effect_needs_quorum) and a non-accepted one returns the state unchanged (C01_no_quorum_no_effect). Tied to VerifyProposal and the five handlers by differential histories with real BLS keys.",
  TB + " BLS verification is symbolic (idealised); SHA-256 abstract in theorems.",
  "Coq proof (case analysis of the verification function, bitmap counting lemma by induction) + differential histories with real aggregate signatures + quorum monitor")
chk('C02', "Coq theorems over EVERY history of the 14 relayer/bridge operations: per-step sequence accounting (C02_step), final sequence = initial + number of accepted voted proposals (C02_seq_counts), acceptance only for the current sequence/epoch/proposer (C02_needs_current_context), hence no vote for an already consumed sequence is ever accepted again (C02_no_replay), and failed operations return the state unchanged (C02_failure_is_identity).",
  TB + " Rollback of failed transactions is cosmos-sdk behaviour, exercised by the harness through a cache-wrapped context.",
  "Coq proof (per-operation frame lemmas, induction over histories) + differential histories with verbatim replays of accepted votes + sequence monitor")

chk('C03', "Coq theorems: everything an accepted deposit guarantees - registered key, voted hash of the 80-byte header, coinbase maturity, strict parse, not credited before, minimum, script bound to key+EVM address (v0 P2WSH/taproot, v1 P2WPKH+OP_RETURN), SPV inclusion, amount+tax=value with the tax formula (C03_accept_sound, C03_tax_formula, C03_value_exact); the list of all credits along ANY history has no duplicates (C03_once); position binding of the SPV proof up to an exhibited collision (C03_position_binding, from C04).",
  TB + " btcd parsing trusted; hash160 / taproot tweak supplied by the harness; SHA-256 abstract.",
  "Coq proof (case analysis of verify_deposit; monotone 'deposited' invariant by induction over histories using generated frame theorems) + differential histories with btcd-built blocks + deposit monitor")
chk('C05', "Coq theorems: every operation moves every withdrawal id along allowed edges only (C05_edges, for fresh request ids), paid and cancelled are terminal for every continuation (C05_terminal_forever), and the exact terms under which a withdrawal becomes processing - pending or cancel-requested before, output pays exactly the decoded address script, value <= requested, fee <= max price x size, receipt names that output (C05_processing_terms). Exactly-one notice is checked by the monitor (partial).",
  TB + " Address decoding is btcd's (oracle supplied with the request); fee-rate modelled exactly.",
  "Coq proof (per-loop transition relations, generated frame theorems, induction over histories) + differential histories + edge / notice / terms monitors")
chk('C06', "Coq theorems: exact shape of one hand-over of the bridge module (one hash at most, <=8 deposits, <=8 paid+refund, FIFO, queue = taken ++ rest, consecutive nonces, nothing persisted when nothing is due: C06_bridge_handover, C06_nonces_consecutive) and of the locking module (C06_locking_handover); for EVERY history the voted heights are exactly lo..tip, the cursor stays inside, stored hashes never change (C06_hashes_append_only), hand-over never fails on such a chain (C06_handover_total). Payload-level acceptance and 'unfinalised rounds consume nothing' are exercised at application level.",
  TB, "Coq proof (queue arithmetic, chain invariant by induction over histories) + differential histories of both modules + FIFO / nonce / gap monitors")
chk('C13', "Coq theorem C13_refines: on every state with a well-formed ranking and recorded set the end-of-block logic never fails and its reported updates, applied as CometBFT applies them, turn the old recorded set into the new one; no zero-power addition, no removal of a non-member, no duplicate, members positive (C13_walk: at most max-validators changes in ranking order). PARTIAL: preservation of the well-formedness invariants by every operation is checked by model comparison + the real CometBFT ValidatorSet as oracle on every history, not yet by an inductive Coq proof.",
  TB + " Assumes no uint64 wrap / total power overflow (known finding) and a non-empty set.",
  "Coq proof (induction over the ranking walk) + differential histories with the real cometbft ValidatorSet.UpdateWithChangeSet as acceptance oracle + top-K monitor")
chk('C15', "Coq theorems: an unlock is queued at now + unlock duration, or now + exit duration when exiting, and an exiting validator leaves the candidate set at once (C15_delay_and_exit); only entries with key <= block time are released, in ascending key order, exactly once (C15_release_mature_only, C15_maturity_order); hand-over is FIFO with cap 16 (C15_handover_fifo). PARTIAL: the end-to-end delay over whole histories is checked by the implementation-side monitor.",
  TB + " Block times non-decreasing; ExitingDuration >= UnlockDuration.",
  "Coq proof (step characterisations) + differential histories + delay/once monitor")
chk('C16', "Coq theorems: joining needs both possession proofs over the sign-doc bound to chain/epoch/proposer/height/address/key hash and leaves the group untouched until an election (C16_join_needs_proofs); the epoch increments exactly when the election is due, by one (C16_election_iff); membership fields change only through request lists, registrations and elections (C16_membership_frame, C16_requests_only_queue); queued removals never exceed the voters (C16_removals_never_empty). PARTIAL: the full group invariant and totality of the election step are checked by the monitor and the model comparison.",
  TB + " ECDSA/BLS possession proofs symbolic.",
  "Coq proof (case analysis, generated frame theorems) + differential histories with real keys and proofs + group / election monitors")

import sys
props = [json.loads(l)['id'] for l in open('/verif/properties.jsonl')]
m = {"version": 1, "setup_cmd": "bin/setup",
     "hooks": {"guard": "verif", "enable": "go build -tags verif (the harness module is compiled against /repo with this tag; no hook file in /repo is needed so far)",
               "baseline_off_cmd": "cd /repo && go build ./... && go test -vet=off -count=1 ./...", "source_commits": [], "add_only": True},
     "engines": [{"name": "coq-model", "path": "/verif/coq", "serves_properties": sorted(C), "kind_free_text": "Coq 8.16.1 development: Gallina model, proofs, property theorems (Props/), correspondence runners (Cases/)"},
                 {"name": "kh", "path": "/verif/harness/kh", "serves_properties": sorted(C), "kind_free_text": "Go keeper-level harness driving the real keepers; emits observed behaviour as Coq terms; implementation-side monitors"}],
     "checks": [C[k] for k in sorted(C)],
     "not_applicable": [{"property_id": p, "reason": "check not built yet (build in progress; see DESIGN.md section 7 for the order)"} for p in props if p not in C],
     "notes": "All checks: bin/check <id> <tier>. See DESIGN.md."}
json.dump(m, open('/verif/MANIFEST.json', 'w'), indent=1)
print('checks:', sorted(C))
