#!/bin/bash
# confirm_seed.sh <mutation dir with patch.diff, demo_test.go, README.md> <property id> <name>
# Confirms in a scratch worktree of /repo's HEAD: patch applies, builds, full suite passes with it,
# demo fails with it and passes without it; then stores it under /verif/seeded/<id>-<name>/.
set -u
SRC=$1; PID=$2; NAME=$3
export GOFLAGS=-mod=mod GOPROXY=off GOSUMDB=off GOTOOLCHAIN=local
WT=/tmp/seedwt-$PID-$NAME
git -C /repo worktree remove --force $WT 2>/dev/null; rm -rf $WT
git -C /repo worktree add -q --detach $WT HEAD || exit 2
cd $WT
PKG=${4:-}
[ -z "$PKG" ] && PKG=$(tr '\n' ' ' < $SRC/README.md | grep -oiE '(cop(y|ied)|goes?|placed?|put)[^.]{0,60}(into|to|in) `?(x|app|pkg)[a-z/]*/?' | grep -oE '(x|app|pkg)(/[a-z]+)*/?' | head -1)
[ -z "$PKG" ] && PKG=$(grep -oE '(x|app|pkg)/[a-z/]+/' $SRC/README.md | head -1)
[ -z "$PKG" ] && PKG=$(grep -m1 '^package' $SRC/demo_test.go >/dev/null; echo "")
res() { echo "$1" ; }
OUT=/verif/seeded/$PID-$NAME; mkdir -p $OUT
{
echo "patch: $SRC/patch.diff  demo pkg: $PKG"
git apply $SRC/patch.diff && echo "apply: ok" || { echo "apply: FAILED"; }
go build ./... && echo "build: ok" || echo "build: FAILED"
if go test -vet=off -count=1 ./... > /tmp/seed-suite-$PID-$NAME.log 2>&1; then echo "suite-with-patch: pass"; else echo "suite-with-patch: FAIL"; tail -5 /tmp/seed-suite-$PID-$NAME.log; fi
cp $SRC/demo_test.go $WT/$PKG/zz_demo_test.go
if go test -vet=off -count=1 -run '.' ./$PKG > /tmp/seed-demo1-$PID-$NAME.log 2>&1; then echo "demo-with-patch: PASS (unexpected)"; else echo "demo-with-patch: fails (expected)"; fi
git checkout -q -- . 
if go test -vet=off -count=1 -run '.' ./$PKG > /tmp/seed-demo2-$PID-$NAME.log 2>&1; then echo "demo-without-patch: passes (expected)"; else echo "demo-without-patch: FAIL (unexpected)"; tail -5 /tmp/seed-demo2-$PID-$NAME.log; fi
} > $OUT/confirm.log 2>&1
cp $SRC/patch.diff $OUT/patch.diff; cp $SRC/demo_test.go $OUT/demo_test.go; cp $SRC/README.md $OUT/README.md
cd /; git -C /repo worktree remove --force $WT; rm -f /tmp/seed-*-$PID-$NAME.log
cat $OUT/confirm.log
