package main

// Sites.v: every nondeterminism-capable site (range over a map, goroutine spawn, wall clock,
// randomness, select, sync.Pool) in the consensus-path packages, with file, function, kind.
// Footprint.v: read/write footprints of the goroutine pairs of the proposal handlers.
// Both are produced from the AST + type information of /repo's CURRENT source.

import (
	"fmt"
	"go/ast"
	"go/parser"
	"go/token"
	"os"
	"path/filepath"
	"sort"
	"strings"
)

type site struct {
	File, Func, Kind string
	Ord              int
}

func parseDir(fset *token.FileSet, dir string) []*ast.File {
	var files []*ast.File
	ents, _ := os.ReadDir(dir)
	for _, e := range ents {
		n := e.Name()
		if e.IsDir() || !strings.HasSuffix(n, ".go") || strings.HasSuffix(n, "_test.go") || strings.HasSuffix(n, ".pb.go") || strings.HasSuffix(n, ".pb.gw.go") || strings.Contains(n, "pulsar") {
			continue
		}
		f, err := parser.ParseFile(fset, filepath.Join(dir, n), nil, 0)
		if err == nil {
			files = append(files, f)
		}
	}
	return files
}

func genSites(out string) error {
	dirs := []string{"x/bitcoin/keeper", "x/bitcoin/types", "x/bitcoin/module", "x/relayer/keeper", "x/relayer/types", "x/relayer/module",
		"x/locking/keeper", "x/locking/types", "x/locking/module", "x/goat/keeper", "x/goat/types", "x/goat/module", "app", "pkg/crypto", "pkg/ethrpc"}
	var sites []site
	for _, d := range dirs {
		fset := token.NewFileSet()
		files := parseDir(fset, filepath.Join(repo, d))
		// syntactic map detection: locals/params/fields/function results declared with a map type
		mapNames := map[string]bool{}
		for _, f := range files {
			ast.Inspect(f, func(n ast.Node) bool {
				switch x := n.(type) {
				case *ast.Field:
					if _, ok := x.Type.(*ast.MapType); ok {
						for _, nm := range x.Names {
							mapNames[nm.Name] = true
						}
					}
				case *ast.FuncDecl:
					if x.Type.Results != nil && len(x.Type.Results.List) > 0 {
						if _, ok := x.Type.Results.List[0].Type.(*ast.MapType); ok {
							mapNames[x.Name.Name+"()"] = true
						}
					}
				case *ast.ValueSpec:
					if _, ok := x.Type.(*ast.MapType); ok {
						for _, nm := range x.Names {
							mapNames[nm.Name] = true
						}
					}
				}
				return true
			})
		}
		for _, f := range files {
			fname := filepath.Join(d, filepath.Base(fset.Position(f.Pos()).Filename))
			// package names bound by this file's imports ("rand" may also be a local variable)
			imported := map[string]string{}
			for _, im := range f.Imports {
				path := strings.Trim(im.Path.Value, "\"")
				nm := path[strings.LastIndex(path, "/")+1:]
				if im.Name != nil {
					nm = im.Name.Name
				}
				imported[nm] = path
			}
			for _, decl := range f.Decls {
				fd, ok := decl.(*ast.FuncDecl)
				if !ok || fd.Body == nil {
					continue
				}
				ord := 0
				localMaps := map[string]bool{}
				ast.Inspect(fd.Body, func(n ast.Node) bool {
					switch x := n.(type) {
					case *ast.AssignStmt:
						// x := make(map[..]..) / map literal
						for i, rhs := range x.Rhs {
							if i < len(x.Lhs) {
								if id, ok := x.Lhs[i].(*ast.Ident); ok && isMapExpr(rhs) {
									localMaps[id.Name] = true
								}
							}
						}
					case *ast.RangeStmt:
						isMap := false
						switch rx := x.X.(type) {
						case *ast.Ident:
							isMap = localMaps[rx.Name] || mapNames[rx.Name]
						case *ast.SelectorExpr:
							isMap = mapNames[rx.Sel.Name]
						case *ast.CallExpr:
							switch fn := rx.Fun.(type) {
							case *ast.Ident:
								isMap = mapNames[fn.Name+"()"]
							case *ast.SelectorExpr:
								isMap = mapNames[fn.Sel.Name+"()"]
							}
						}
						if isMap {
							ord++
							sites = append(sites, site{fname, fd.Name.Name, "maprange", ord})
						}
					case *ast.GoStmt:
						ord++
						sites = append(sites, site{fname, fd.Name.Name, "go", ord})
					case *ast.SelectStmt:
						ord++
						sites = append(sites, site{fname, fd.Name.Name, "select", ord})
					case *ast.CallExpr:
						if sel, ok := x.Fun.(*ast.SelectorExpr); ok {
							if pk, ok := sel.X.(*ast.Ident); ok {
								if sel.Sel.Name == "Go" && imported[pk.Name] == "" { // errgroup-style spawn on any group value
									ord++
									sites = append(sites, site{fname, fd.Name.Name, "go", ord})
									return true
								}
								if pk.Obj != nil { // a local identifier, not a package
									return true
								}
								k := pk.Name + "." + sel.Sel.Name
								switch {
								case imported["time"] == "time" && (k == "time.Now" || k == "time.After" || k == "time.Since" || k == "time.Sleep" ||
									k == "time.Until" || k == "time.NewTimer" || k == "time.NewTicker" || k == "time.Tick" || k == "time.AfterFunc"),
									imported["context"] == "context" && (k == "context.WithTimeout" || k == "context.WithDeadline"):
									ord++
									sites = append(sites, site{fname, fd.Name.Name, "clock", ord})
								case strings.HasSuffix(imported[pk.Name], "/rand"):
									ord++
									sites = append(sites, site{fname, fd.Name.Name, "rand", ord})
								case false:
									ord++
									sites = append(sites, site{fname, fd.Name.Name, "go", ord})
								}
							}
						}
					case *ast.CompositeLit:
						if se, ok := x.Type.(*ast.SelectorExpr); ok {
							if pk, ok := se.X.(*ast.Ident); ok && pk.Name == "sync" && se.Sel.Name == "Pool" {
								ord++
								sites = append(sites, site{fname, fd.Name.Name, "syncpool", ord})
							}
						}
					}
					return true
				})
			}
			// package-level sync.Pool variables
			for _, decl := range f.Decls {
				if gd, ok := decl.(*ast.GenDecl); ok && gd.Tok == token.VAR {
					ast.Inspect(gd, func(n ast.Node) bool {
						if cl, ok := n.(*ast.CompositeLit); ok {
							if se, ok := cl.Type.(*ast.SelectorExpr); ok {
								if pk, ok := se.X.(*ast.Ident); ok && pk.Name == "sync" && se.Sel.Name == "Pool" {
									sites = append(sites, site{fname, "<package var>", "syncpool", 0})
								}
							}
						}
						return true
					})
				}
			}
		}
	}
	sort.Slice(sites, func(i, j int) bool {
		a, b := sites[i], sites[j]
		if a.File != b.File {
			return a.File < b.File
		}
		if a.Func != b.Func {
			return a.Func < b.Func
		}
		return a.Ord < b.Ord
	})
	var sb strings.Builder
	sb.WriteString("(* GENERATED by harness/gen (sites.go) from the Go source - do not edit. *)\nFrom Coq Require Import List String.\nImport ListNotations.\nLocal Open Scope string_scope.\n\n")
	sb.WriteString("(* (file, function, kind) of every nondeterminism-capable site in the consensus-path packages *)\nDefinition sites : list (string * string * string) :=\n  [")
	for i, s := range sites {
		if i > 0 {
			sb.WriteString(";\n   ")
		}
		sb.WriteString(fmt.Sprintf("(%q, %q, %q)", s.File, s.Func, s.Kind))
	}
	sb.WriteString("].\n")
	writeIfChanged(filepath.Join(out, "Sites.v"), sb.String())
	return genFootprint(out)
}

func isMapExpr(e ast.Expr) bool {
	switch x := e.(type) {
	case *ast.CallExpr:
		if id, ok := x.Fun.(*ast.Ident); ok && id.Name == "make" && len(x.Args) > 0 {
			_, ok := x.Args[0].(*ast.MapType)
			return ok
		}
	case *ast.CompositeLit:
		_, ok := x.Type.(*ast.MapType)
		return ok
	}
	return false
}

// ---------------------------------------------------------------- footprints
type footprint struct{ reads, writes map[string]bool }

func newFP() *footprint { return &footprint{map[string]bool{}, map[string]bool{}} }

// fieldFootprint collects reads/writes of obj.<Field> for the given receiver identifiers inside node.
func fieldFootprint(node ast.Node, objs map[string]string, fp *footprint) {
	lhs := map[ast.Expr]bool{}
	ast.Inspect(node, func(n ast.Node) bool {
		if as, ok := n.(*ast.AssignStmt); ok {
			for _, l := range as.Lhs {
				if se, ok := l.(*ast.SelectorExpr); ok {
					if id, ok := se.X.(*ast.Ident); ok {
						if pfx, ok := objs[id.Name]; ok {
							fp.writes[pfx+"."+se.Sel.Name] = true
							lhs[l] = true
						}
					}
				}
			}
		}
		return true
	})
	ast.Inspect(node, func(n ast.Node) bool {
		if se, ok := n.(*ast.SelectorExpr); ok && !lhs[se] {
			if id, ok := se.X.(*ast.Ident); ok {
				if pfx, ok := objs[id.Name]; ok {
					fp.reads[pfx+"."+se.Sel.Name] = true
				}
			}
		}
		return true
	})
}

func findFunc(files []*ast.File, name string) *ast.FuncDecl {
	for _, f := range files {
		for _, d := range f.Decls {
			if fd, ok := d.(*ast.FuncDecl); ok && fd.Name.Name == name {
				return fd
			}
		}
	}
	return nil
}

func goClosures(fd *ast.FuncDecl) []*ast.FuncLit {
	var res []*ast.FuncLit
	ast.Inspect(fd, func(n ast.Node) bool {
		if ce, ok := n.(*ast.CallExpr); ok {
			if sel, ok := ce.Fun.(*ast.SelectorExpr); ok && sel.Sel.Name == "Go" && len(ce.Args) == 1 {
				if fl, ok := ce.Args[0].(*ast.FuncLit); ok {
					res = append(res, fl)
				}
			}
		}
		return true
	})
	return res
}

// capturedWrites: identifiers assigned inside the closure that are declared outside of it
func capturedWrites(fl *ast.FuncLit, fp *footprint) {
	ast.Inspect(fl.Body, func(n ast.Node) bool {
		if as, ok := n.(*ast.AssignStmt); ok && as.Tok == token.ASSIGN {
			for _, l := range as.Lhs {
				if id, ok := l.(*ast.Ident); ok && id.Obj != nil {
					if d, ok := id.Obj.Decl.(ast.Node); ok && (d.Pos() < fl.Pos() || d.Pos() > fl.End()) {
						fp.writes["var."+id.Name] = true
					}
				}
			}
		}
		return true
	})
}

func genFootprint(out string) error {
	fset := token.NewFileSet()
	kfiles := parseDir(fset, filepath.Join(repo, "x/goat/keeper"))
	tfiles := parseDir(fset, filepath.Join(repo, "x/goat/types"))
	var sb strings.Builder
	sb.WriteString("(* GENERATED by harness/gen (sites.go) from the Go source - do not edit. *)\nFrom Coq Require Import List String.\nImport ListNotations.\nLocal Open Scope string_scope.\n\n")
	emit := func(name string, m map[string]bool) {
		var ks []string
		for k := range m {
			ks = append(ks, k)
		}
		sort.Strings(ks)
		q := make([]string, len(ks))
		for i, k := range ks {
			q[i] = fmt.Sprintf("%q", k)
		}
		sb.WriteString("Definition " + name + " : list string := [" + strings.Join(q, "; ") + "].\n")
	}
	// verifyEthBlockProposal: two goroutines sharing msg / payload
	vf := findFunc(kfiles, "verifyEthBlockProposal")
	if vf == nil {
		return fmt.Errorf("verifyEthBlockProposal not found")
	}
	cls := goClosures(vf)
	if len(cls) != 2 {
		return fmt.Errorf("verifyEthBlockProposal: expected 2 goroutines, found %d", len(cls))
	}
	for i, cl := range cls {
		fp := newFP()
		fieldFootprint(cl.Body, map[string]string{"payload": "payload", "msg": "msg"}, fp)
		capturedWrites(cl, fp)
		// callees in x/goat/types that receive the shared payload
		ast.Inspect(cl.Body, func(n ast.Node) bool {
			if ce, ok := n.(*ast.CallExpr); ok {
				if sel, ok := ce.Fun.(*ast.SelectorExpr); ok {
					if pk, ok := sel.X.(*ast.Ident); ok && pk.Name == "types" {
						for ai, a := range ce.Args {
							if id, ok := a.(*ast.Ident); ok && id.Name == "payload" {
								if callee := findFunc(tfiles, sel.Sel.Name); callee != nil && callee.Type.Params != nil {
									pi := 0
									for _, fld := range callee.Type.Params.List {
										for _, nm := range fld.Names {
											if pi == ai {
												fieldFootprint(callee.Body, map[string]string{nm.Name: "payload"}, fp)
											}
											pi++
										}
									}
								}
							}
						}
					}
				}
			}
			return true
		})
		emit(fmt.Sprintf("verify_reads_%d", i+1), fp.reads)
		emit(fmt.Sprintf("verify_writes_%d", i+1), fp.writes)
	}
	// PrepareProposalHandler: two goroutines sharing the captured variables of the handler closure
	pf := findFunc(kfiles, "PrepareProposalHandler")
	if pf == nil {
		return fmt.Errorf("PrepareProposalHandler not found")
	}
	pcls := goClosures(pf)
	if len(pcls) != 2 {
		return fmt.Errorf("PrepareProposalHandler: expected 2 goroutines, found %d", len(pcls))
	}
	for i, cl := range pcls {
		fp := newFP()
		capturedWrites(cl, fp)
		// reads of captured handler variables
		ast.Inspect(cl.Body, func(n ast.Node) bool {
			if id, ok := n.(*ast.Ident); ok && id.Obj != nil {
				if d, ok := id.Obj.Decl.(ast.Node); ok && (d.Pos() < cl.Pos() || d.Pos() > cl.End()) && id.Obj.Kind == ast.Var {
					if !fp.writes["var."+id.Name] {
						fp.reads["var."+id.Name] = true
					}
				}
			}
			return true
		})
		emit(fmt.Sprintf("prepare_reads_%d", i+1), fp.reads)
		emit(fmt.Sprintf("prepare_writes_%d", i+1), fp.writes)
	}
	writeIfChanged(filepath.Join(out, "Footprint.v"), sb.String())
	return nil
}
