package main

func genSites(out string) error { return nil }
