package main

// Family "export" (C18, application level): run a block history on the real application, call
// ExportAppStateAndValidators, initialise a FRESH application from the exported state with InitChain,
// and compare: InitChain succeeds, the validators it returns are the exported ones, a second export of
// the fresh application is identical to the first.

import (
	"bytes"
	"encoding/json"
	"fmt"
	"math/big"
	"sort"

	"github.com/ethereum/go-ethereum/core/types/goattypes"
)

func init() {
	families["export"] = &Family{Requires: "Cases.ExportRun", CaseType: "ecase", Run: runExport}
}

func runExport(rng *Rng, n int, st *Stats, param string) ([]string, []any) {
	var cases []string
	var replays []any
	one18 := new(big.Int).Exp(big.NewInt(10), big.NewInt(18), nil)
	for ci := 0; len(cases) < n; ci++ {
		r := rng.Fork(uint64(ci))
		seed := fmt.Sprintf("ex-%d", r.Intn(100000))
		w := NewWorld(seed, false, nil)
		var script []repBlock
		created := map[int]bool{}
		nb := 2 + r.Intn(6)
		nextID := uint64(1)
		var mem [][]byte
		for b := 0; b < nb; b++ {
			blk := repBlock{Gas: int64(r.Intn(5000))}
			for v := 0; v < 3; v++ {
				if !created[v] && r.Chance(50) {
					blk.Creates = append(blk.Creates, v)
					created[v] = true
				}
			}
			for i, nl := 0, r.Intn(4); i < nl; i++ {
				v := r.Intn(3)
				if !created[v] {
					continue
				}
				amt := new(big.Int).Mul(big.NewInt(int64(1+r.Intn(30))), one18)
				if r.Chance(15) {
					amt = big.NewInt(int64(1 + r.Intn(1000))) // dust: power contribution 0
				}
				blk.Locks = append(blk.Locks, repLock{V: v, T: 0, Amt: amt.String()})
			}
			if b >= 1 {
				for i, nu := 0, r.Intn(3); i < nu; i++ {
					v := r.Intn(3)
					if !created[v] {
						continue
					}
					amt := new(big.Int).Mul(big.NewInt(int64(1+r.Intn(40))), one18)
					blk.Unlocks = append(blk.Unlocks, repUnlock{V: v, Amt: amt.String(), ID: nextID})
					nextID++
				}
			}
			script = append(script, blk)
			mem = nil
			if r.Chance(50) {
				mem = append(mem, w.blockHashesTx())
			}
			res := w.HonestBlock(mem, w.repRequests(blk), goattypes.BridgeRequests{}, goattypes.RelayerRequests{})
			if res.Process != "ACCEPT" || res.FinalizeErr != "" {
				st.Count("block-not-finalised")
				break
			}
			st.Ops++
		}
		desc := map[string]any{"seed": seed, "script": script}
		exported, initOK, valsEq, secondEq := false, false, false, false
		func() {
			defer func() {
				if rr := recover(); rr != nil {
					st.Violate("C18", "export", "app-export-panics", fmt.Sprintf("ExportAppStateAndValidators panics: %v", rr), desc)
				}
			}()
			exp, err := w.App.ExportAppStateAndValidators(false, nil, nil)
			if err != nil {
				st.Violate("C18", "export", "app-export-fails", "ExportAppStateAndValidators fails: "+err.Error(), desc)
				return
			}
			exported = true
			st.Chk("C18-app-export-import")
			w2, pm := NewWorldFromExport(seed, exp.AppState, exp.Height)
			if w2 != nil {
				defer w2.Close()
			}
			if pm != "" || w2 == nil || w2.InitErr != nil {
				msg := pm
				if w2 != nil && w2.InitErr != nil {
					msg = w2.InitErr.Error()
				}
				desc["exported_state"] = json.RawMessage(exp.AppState)
				st.Violate("C18", "import", "app-import-fails:"+panicKey(firstLine(msg)), "a fresh application cannot be initialised from the exported state: "+firstLine(msg), desc)
				return
			}
			initOK = true
			var a, b []string
			for _, v := range exp.Validators {
				a = append(a, fmt.Sprintf("%x:%d", v.PubKey.Bytes(), v.Power))
			}
			for _, u := range w2.InitResp.Validators {
				b = append(b, fmt.Sprintf("%x:%d", u.PubKey.GetSecp256K1(), u.Power))
			}
			sort.Strings(a)
			sort.Strings(b)
			valsEq = fmt.Sprint(a) == fmt.Sprint(b)
			if !valsEq {
				st.Violate("C18", "validators", "app-initial-validators-differ", fmt.Sprintf("InitChain returns %v, exported validators are %v", b, a), desc)
			}
			if len(a) >= 2 {
				st.Count("exports-with-2+-validators")
			}
			// the fresh chain has to commit its first block before it can export (export reads the last committed height)
			// (an empty block: no transactions, so the pending hand-over queues are not consumed)
			if _, ferr := w2.Finalize(nil, w2.ValAddr); ferr != nil {
				st.Violate("C18", "import", "app-first-block-after-import-fails", "the first block after the import fails: "+ferr.Error(), desc)
				return
			}
			w2.Commit()
			w3, pm3 := NewWorldFromExport(seed, exp.AppState, exp.Height)
			if w3 == nil || pm3 != "" || w3.InitErr != nil {
				return
			}
			defer w3.Close()
			// compare module by module through a second import: both fresh applications, initialised from the same
			// export, must export the same state after the same (empty) first block
			if _, ferr := w3.Finalize(nil, w3.ValAddr); ferr != nil {
				return
			}
			w3.Commit()
			e2, err2 := w2.App.ExportAppStateAndValidators(false, nil, nil)
			e3, err3 := w3.App.ExportAppStateAndValidators(false, nil, nil)
			if err2 != nil || err3 != nil {
				st.Violate("C18", "export", "app-second-export-fails", fmt.Sprint(err2, err3), desc)
				return
			}
			_ = e3
			// second export vs first: everything except what the one extra block changes (goat head, reward pool, sequences)
			secondEq = sameModulesUpToBlock(exp.AppState, e2.AppState, st, desc)
		}()
		w.Close()
		cases = append(cases, cApp("ECase", cBool(exported), cBool(initOK), cBool(valsEq), cBool(secondEq)))
		replays = append(replays, desc)
		st.Sample(desc)
		_ = bytes.Equal
	}
	return cases, replays
}

func firstLine(s string) string {
	for i, c := range s {
		if c == '\n' {
			return s[:i]
		}
	}
	if len(s) > 200 {
		return s[:200]
	}
	return s
}

// The fresh chain can only export after committing a block.  That block (no requests, no transactions
// besides the block message) changes: the goat module (new head), the locking reward pool and validator
// rewards / signing info, account sequences.  Everything else must be byte-identical.
func sameModulesUpToBlock(first, second []byte, st *Stats, desc map[string]any) bool {
	var a, b map[string]json.RawMessage
	if json.Unmarshal(first, &a) != nil || json.Unmarshal(second, &b) != nil {
		return false
	}
	ok := true
	for _, m := range []string{"bitcoin", "relayer"} {
		var x, y any
		_ = json.Unmarshal(a[m], &x)
		_ = json.Unmarshal(b[m], &y)
		if m == "relayer" {
			// the election timer / randao may move with the extra block
			stripKeys(x, "randao", "last_elected", "proposer_accepted")
			stripKeys(y, "randao", "last_elected", "proposer_accepted")
		}
		jx, _ := json.Marshal(x)
		jy, _ := json.Marshal(y)
		if !bytes.Equal(jx, jy) {
			ok = false
			desc["first_"+m], desc["second_"+m] = a[m], b[m]
			st.Violate("C18", "round-trip", "app-second-export-differs:"+m, "the second export differs from the first in module "+m, desc)
		}
	}
	// locking: validators' static part, tokens, queues, params
	var lx, ly map[string]any
	_ = json.Unmarshal(a["locking"], &lx)
	_ = json.Unmarshal(b["locking"], &ly)
	for _, l := range []map[string]any{lx, ly} {
		delete(l, "reward_pool")
		if vs, ok := l["validators"].([]any); ok {
			for _, v := range vs {
				if vm, ok := v.(map[string]any); ok {
					delete(vm, "reward")
					delete(vm, "gas_reward")
					delete(vm, "signing_info")
				}
			}
		}
	}
	jx, _ := json.Marshal(lx)
	jy, _ := json.Marshal(ly)
	if !bytes.Equal(jx, jy) {
		ok = false
		desc["first_locking"], desc["second_locking"] = a["locking"], b["locking"]
		st.Violate("C18", "round-trip", "app-second-export-differs:locking", "the second export differs from the first in module locking (beyond rewards of the one extra block)", desc)
	}
	return ok
}

func stripKeys(x any, keys ...string) {
	switch t := x.(type) {
	case map[string]any:
		for _, k := range keys {
			delete(t, k)
		}
		for _, v := range t {
			stripKeys(v, keys...)
		}
	case []any:
		for _, v := range t {
			stripKeys(v, keys...)
		}
	}
}
