package main

// Family "fuzz" (C19): malformed transactions, proposals and execution-layer request lists against the
// real application behind ABCI.  Two replicas: A receives the input under test, B executes the same
// block without it (or, for a failing block message, an empty block); a rejected / failed input must
// leave the stores of the four chain modules exactly as B's.  Every ABCI call is guarded: a panic that
// escapes the application is recorded; a crash of the whole process (panic in a goroutine) is detected
// by bin/check through <out>/current.json, written before each risky call.

import (
	"bytes"
	"encoding/hex"
	"encoding/json"
	"fmt"
	"math/big"
	"os"
	"path/filepath"
	"reflect"
	"sort"
	"strings"

	"cosmossdk.io/math"
	abci "github.com/cometbft/cometbft/abci/types"
	storetypes "cosmossdk.io/store/types"
	sdk "github.com/cosmos/cosmos-sdk/types"
	"github.com/ethereum/go-ethereum/common"
	"github.com/ethereum/go-ethereum/core/types/goattypes"
	bitcointypes "github.com/goatnetwork/goat/x/bitcoin/types"
	goattypes2 "github.com/goatnetwork/goat/x/goat/types"
	lockingtypes "github.com/goatnetwork/goat/x/locking/types"
	relayertypes "github.com/goatnetwork/goat/x/relayer/types"
)

func init() {
	families["fuzz"] = &Family{Requires: "Cases.FuzzRun", CaseType: "zcase", Run: runFuzz}
}

var fuzzOutDir = "/verif/work/fuzz"

func markCurrent(desc map[string]any) {
	js, _ := json.Marshal(desc)
	_ = os.WriteFile(filepath.Join(fuzzOutDir, "current.json"), js, 0o644)
}
func clearCurrent() { _ = os.Remove(filepath.Join(fuzzOutDir, "current.json")) }

// module stores of the chain's own modules, as hex maps
func (w *World) moduleStores() map[string]map[string]string {
	res := map[string]map[string]string{}
	cms := w.App.CommitMultiStore()
	for _, name := range []string{bitcointypes.StoreKey, relayertypes.StoreKey, lockingtypes.StoreKey, goattypes2.StoreKey} {
		var key storetypes.StoreKey
		for _, k := range w.App.GetStoreKeys() {
			if k.Name() == name {
				key = k
			}
		}
		m := map[string]string{}
		if key != nil {
			it := cms.GetKVStore(key).Iterator(nil, nil)
			for ; it.Valid(); it.Next() {
				m[hex.EncodeToString(it.Key())] = hex.EncodeToString(it.Value())
			}
			it.Close()
		}
		res[name] = m
	}
	return res
}

func diffStores(a, b map[string]map[string]string) []string {
	var out []string
	for mod, ma := range a {
		mb := b[mod]
		for k, v := range ma {
			if mb[k] != v {
				out = append(out, fmt.Sprintf("%s/%s: %s vs %s", mod, k, v, mb[k]))
			}
		}
		for k, v := range mb {
			if _, ok := ma[k]; !ok {
				out = append(out, fmt.Sprintf("%s/%s: <absent> vs %s", mod, k, v))
			}
		}
	}
	sort.Strings(out)
	if len(out) > 12 {
		out = out[:12]
	}
	return out
}

// guardCall runs an ABCI call and reports a panic that escapes the application
// tryEncode reports whether building the transaction panicked (a message that cannot be serialised is not
// an input the node can receive)
func tryEncode(fn func()) (panicked bool) {
	defer func() {
		if r := recover(); r != nil {
			panicked = true
		}
	}()
	fn()
	return false
}

func guardCall(st *Stats, phase string, desc map[string]any, fn func()) (panicked bool) {
	defer func() {
		if r := recover(); r != nil {
			panicked = true
			msg := fmt.Sprint(r)
			if len(msg) > 300 {
				msg = msg[:300]
			}
			desc["panic"] = msg
			st.Violate("C19", "panic-escapes", "panic-escapes:"+phase+":"+fmt.Sprint(desc["kind"])+":"+fmt.Sprint(desc["mutation"]), "a panic escapes the application during "+phase+": "+msg, desc)
		}
	}()
	fn()
	return false
}

// ---------------------------------------------------------------- generic shape mutation of a proto message
func mutateMsg(r *Rng, m any) string {
	v := reflect.ValueOf(m)
	if v.Kind() != reflect.Ptr || v.IsNil() {
		return "none"
	}
	type site struct {
		f    reflect.Value
		name string
	}
	var sites []site
	var walk func(v reflect.Value, path string, depth int)
	walk = func(v reflect.Value, path string, depth int) {
		if depth > 4 {
			return
		}
		switch v.Kind() {
		case reflect.Ptr:
			if !v.IsNil() {
				walk(v.Elem(), path, depth+1)
			}
		case reflect.Struct:
			for i := 0; i < v.NumField(); i++ {
				f := v.Field(i)
				if !f.CanSet() {
					continue
				}
				nm := path + "." + v.Type().Field(i).Name
				if nm == ".Proposer" {
					continue // the signer must stay the relayer proposer to get past the ante chain
				}
				switch f.Kind() {
				case reflect.Ptr, reflect.Slice, reflect.Uint64, reflect.Uint32, reflect.Int64, reflect.Interface, reflect.String, reflect.Map:
					sites = append(sites, site{f, nm})
				}
				if f.Kind() == reflect.Ptr || f.Kind() == reflect.Struct {
					walk(f, nm, depth+1)
				}
				if f.Kind() == reflect.Slice && f.Type().Elem().Kind() == reflect.Ptr {
					for j := 0; j < f.Len() && j < 3; j++ {
						walk(f.Index(j), fmt.Sprintf("%s[%d]", nm, j), depth+1)
					}
				}
				if f.Kind() == reflect.Interface && !f.IsNil() {
					walk(f.Elem(), nm, depth+1)
				}
			}
		}
	}
	walk(v, "", 0)
	if len(sites) == 0 {
		return "none"
	}
	s := sites[r.Intn(len(sites))]
	f := s.f
	switch f.Kind() {
	case reflect.Ptr, reflect.Interface, reflect.Map:
		f.Set(reflect.Zero(f.Type()))
		return s.name + "=nil"
	case reflect.String:
		f.SetString([]string{"", "x", "goat1qqqq", strings.Repeat("z", 300)}[r.Intn(4)])
		return s.name + "=odd-string"
	case reflect.Uint64, reflect.Uint32:
		f.SetUint([]uint64{0, 1, 1<<32 - 1, 1 << 31, 1<<63 - 1}[r.Intn(5)] & (1<<uint(f.Type().Bits()) - 1))
		return s.name + "=boundary"
	case reflect.Int64:
		f.SetInt([]int64{0, -1, 1<<62 - 1, -1 << 62}[r.Intn(4)])
		return s.name + "=boundary"
	case reflect.Slice:
		if f.Type().Elem().Kind() == reflect.Uint8 {
			ln := []int{0, 1, 7, 9, 31, 33, 63, 79, 81, 255, 70000}[r.Intn(11)]
			f.SetBytes(r.Bytes(ln))
			return fmt.Sprintf("%s=bytes(%d)", s.name, ln)
		}
		switch r.Intn(3) {
		case 0:
			f.Set(reflect.Zero(f.Type()))
			return s.name + "=empty"
		case 1:
			if f.Type().Elem().Kind() == reflect.Ptr || f.Type().Elem().Kind() == reflect.Slice {
				f.Set(reflect.Append(f, reflect.Zero(f.Type().Elem())))
				return s.name + "+=nil-element"
			}
			fallthrough
		default:
			if f.Len() > 0 {
				f.Set(reflect.AppendSlice(f, f))
				return s.name + "=doubled"
			}
			f.Set(reflect.MakeSlice(f.Type(), 3, 3))
			return s.name + "=3-zero-elements"
		}
	}
	return "none"
}

// a richer instance than mkMsg's skeletons, so that mutations reach deep fields
func (w *World) richMsg(r *Rng, name string) sdk.Msg {
	s := w.RelAddr.String()
	btcKey := &relayertypes.PublicKey{Key: &relayertypes.PublicKey_Secp256K1{Secp256K1: w.RelPriv.PubKey().Bytes()}}
	switch name {
	case "goat.bitcoin.v1.MsgNewDeposits":
		tx := append([]byte{2, 0, 0, 0, 1}, make([]byte, 36)...)
		tx = append(tx, 0, 0xff, 0xff, 0xff, 0xff, 1)
		tx = append(tx, le64(100000)...)
		tx = append(tx, 34, 0, 32)
		tx = append(tx, make([]byte, 32)...)
		tx = append(tx, 0, 0, 0, 0)
		return &bitcointypes.MsgNewDeposits{Proposer: s, BlockHeaders: []*bitcointypes.BlockHeader{{Height: 100, Raw: make([]byte, 80)}},
			Deposits: []*bitcointypes.Deposit{{Version: uint32(r.Intn(2)), BlockNumber: 100, TxIndex: 1, NoWitnessTx: tx, OutputIndex: 0,
				IntermediateProof: make([]byte, 32), EvmAddress: make([]byte, 20), RelayerPubkey: btcKey}}}
	case "goat.bitcoin.v1.MsgNewPubkey":
		return &bitcointypes.MsgNewPubkey{Proposer: s, Pubkey: btcKey, Vote: w.Vote(bitcointypes.NewPubkeyMethodSigName, relayertypes.EncodePublicKey(btcKey))}
	case "goat.bitcoin.v1.MsgProcessWithdrawal":
		return &bitcointypes.MsgProcessWithdrawal{Proposer: s, Id: []uint64{1, 2}, NoWitnessTx: make([]byte, 120), TxFee: 100, Vote: w.Vote(bitcointypes.ProcessWithdrawalMethodSigName, nil)}
	case "goat.bitcoin.v1.MsgReplaceWithdrawal":
		return &bitcointypes.MsgReplaceWithdrawal{Proposer: s, Pid: 1, NewNoWitnessTx: make([]byte, 120), NewTxFee: 200, Vote: w.Vote(bitcointypes.ReplaceWithdrawalMethodSigName, nil)}
	case "goat.bitcoin.v1.MsgNewConsolidation":
		return &bitcointypes.MsgNewConsolidation{Proposer: s, NoWitnessTx: make([]byte, 100), Vote: w.Vote(bitcointypes.NewConsolidationMethodSigName, nil)}
	case "goat.relayer.v1.MsgNewVoterRequest":
		return &relayertypes.MsgNewVoterRequest{Proposer: s, VoterBlsKey: make([]byte, 96), VoterTxKey: make([]byte, 33), VoterTxKeyProof: make([]byte, 64), VoterBlsKeyProof: make([]byte, 48)}
	}
	return mkMsg(w, name, w.RelAddr)
}

var fuzzMsgTypes = []string{"goat.bitcoin.v1.MsgNewDeposits", "goat.bitcoin.v1.MsgNewBlockHashes", "goat.bitcoin.v1.MsgNewPubkey", "goat.bitcoin.v1.MsgProcessWithdrawal",
	"goat.bitcoin.v1.MsgReplaceWithdrawal", "goat.bitcoin.v1.MsgFinalizeWithdrawal", "goat.bitcoin.v1.MsgApproveCancellation", "goat.bitcoin.v1.MsgNewConsolidation",
	"goat.relayer.v1.MsgNewVoterRequest", "goat.relayer.v1.MsgAcceptProposerRequest"}

// arbitrary decodable request lists
func fuzzRequests(r *Rng, w *World) (goattypes.LockingRequests, goattypes.BridgeRequests, goattypes.RelayerRequests, string) {
	lr := goattypes.LockingRequests{Gas: []*goattypes.GasRequest{goattypes.NewGasRequest(uint64(w.Height), big.NewInt(int64(r.Intn(100000))))}}
	var br goattypes.BridgeRequests
	var rr goattypes.RelayerRequests
	big1 := func() *big.Int {
		switch r.Intn(5) {
		case 0:
			return big.NewInt(0)
		case 1:
			return big.NewInt(int64(r.Intn(1000)))
		case 2:
			return new(big.Int).Lsh(big.NewInt(1), uint(r.Intn(255)))
		case 3:
			return new(big.Int).Sub(new(big.Int).Lsh(big.NewInt(1), 256), big.NewInt(1))
		default:
			return new(big.Int).Mul(big.NewInt(int64(1+r.Intn(50))), new(big.Int).Exp(big.NewInt(10), big.NewInt(18), nil))
		}
	}
	addr := func() common.Address {
		switch r.Intn(4) {
		case 0:
			a, _ := valIdentity(w.ValPriv)
			return a
		case 1:
			a, _ := valIdentity(repKey(w, r.Intn(3)))
			return a
		case 2:
			return common.Address{}
		default:
			return common.BytesToAddress(r.Bytes(20))
		}
	}
	var kinds []string
	for i, n := 0, 1+r.Intn(4); i < n; i++ {
		switch r.Intn(14) {
		case 0:
			a, pk := valIdentity(repKey(w, r.Intn(3)))
			if r.Chance(20) {
				a = common.BytesToAddress(r.Bytes(20))
			}
			lr.Creates = append(lr.Creates, &goattypes.CreateRequest{Validator: a, Pubkey: pk})
			kinds = append(kinds, "create")
		case 1:
			lr.Locks = append(lr.Locks, &goattypes.LockRequest{Validator: addr(), Token: addr(), Amount: big1()})
			kinds = append(kinds, "lock")
		case 2:
			lr.Unlocks = append(lr.Unlocks, &goattypes.UnlockRequest{Id: uint64(r.Intn(5)), Validator: addr(), Recipient: addr(), Token: addr(), Amount: big1()})
			kinds = append(kinds, "unlock")
		case 3:
			lr.Claims = append(lr.Claims, &goattypes.ClaimRequest{Id: uint64(r.Intn(5)), Validator: addr(), Recipient: addr()})
			kinds = append(kinds, "claim")
		case 4:
			lr.UpdateWeights = append(lr.UpdateWeights, &goattypes.UpdateTokenWeightRequest{Token: addr(), Weight: r.U64() >> uint(r.Intn(64))})
			kinds = append(kinds, "weight")
		case 5:
			lr.UpdateThresholds = append(lr.UpdateThresholds, &goattypes.UpdateTokenThresholdRequest{Token: addr(), Threshold: big1()})
			kinds = append(kinds, "threshold")
		case 6:
			br.Withdraws = append(br.Withdraws, &goattypes.WithdrawalRequest{Id: uint64(r.Intn(6)), Amount: r.U64() >> uint(r.Intn(64)), TxPrice: r.U64() >> uint(r.Intn(64)),
				Address: []string{"bc1qw508d6qejxtdg4y5r3zarvary0c5xw7kv8f3t4", "", "x", strings.Repeat("1", 200), "tb1qw508d6qejxtdg4y5r3zarvary0c5xw7kxpjzsx", "bcrt1qw508d6qejxtdg4y5r3zarvary0c5xw7kygt080"}[r.Intn(6)]})
			kinds = append(kinds, "withdraw")
		case 7:
			br.ReplaceByFees = append(br.ReplaceByFees, &goattypes.ReplaceByFeeRequest{Id: uint64(r.Intn(6)), TxPrice: r.U64() >> uint(r.Intn(64))})
			kinds = append(kinds, "rbf")
		case 8:
			br.Cancel1s = append(br.Cancel1s, &goattypes.Cancel1Request{Id: uint64(r.Intn(6))})
			kinds = append(kinds, "cancel")
		case 9:
			br.DepositTax = append(br.DepositTax, &goattypes.DepositTaxRequest{Rate: uint64(r.Intn(12000)), Max: r.U64() >> uint(r.Intn(64))})
			kinds = append(kinds, "tax")
		case 10:
			br.Confirmation = append(br.Confirmation, &goattypes.ConfirmationNumberRequest{Number: uint64(r.Intn(4))})
			kinds = append(kinds, "confirmation")
		case 11:
			br.MinDeposit = append(br.MinDeposit, &goattypes.MinDepositRequest{Satoshi: r.U64() >> uint(r.Intn(64))})
			kinds = append(kinds, "min-deposit")
		case 12:
			var th, kh [32]byte
			copy(th[:], r.Bytes(32))
			copy(kh[:], r.Bytes(32))
			rr.Adds = append(rr.Adds, &goattypes.AddVoterRequest{Voter: addr(), Pubkey: kh})
			_ = th
			kinds = append(kinds, "add-voter")
		default:
			v := common.BytesToAddress(w.RelAddr)
			if r.Bool() {
				v = addr()
			}
			rr.Removes = append(rr.Removes, &goattypes.RemoveVoterRequest{Voter: v})
			kinds = append(kinds, "remove-voter")
		}
	}
	sort.Strings(kinds)
	return lr, br, rr, strings.Join(kinds, "+")
}

func runFuzz(rng *Rng, n int, st *Stats, param string) ([]string, []any) {
	var cases []string
	var replays []any
	seen := map[string]bool{}
	var A, B *World
	fresh := func() {
		if A != nil {
			A.Close()
			B.Close()
		}
		seed := fmt.Sprintf("fz-%d", rng.Intn(100000))
		A, B = NewWorld(seed, false, nil), NewWorld(seed, false, nil)
		// a first block with validators and a voted bitcoin hash so that there is state to damage
		blk := repBlock{Creates: []int{0, 1}, Locks: []repLock{{V: 0, T: 0, Amt: "5000000000000000000"}, {V: 1, T: 0, Amt: "7000000000000000000"}}, Gas: 100}
		// replica B follows A's proposals (the payload built by the fake engine is time dependent)
		A.EL.mu.Lock()
		A.EL.nextReqs = encodeRequests(goattypes.BridgeRequests{}, goattypes.RelayerRequests{}, A.repRequests(blk))
		A.EL.mu.Unlock()
		txs, _ := A.Prepare(nil)
		for _, w := range []*World{A, B} {
			if _, err := w.Finalize(txs, A.ValAddr); err != nil {
				panic("fuzz setup: " + err.Error())
			}
			w.Commit()
		}
		if d := diffStores(A.moduleStores(), B.moduleStores()); len(d) > 0 {
			panic("fuzz setup: replicas differ after the first block: " + strings.Join(d, "; "))
		}
	}
	fresh()
	defer func() { A.Close(); B.Close(); clearCurrent() }()
	sinceFresh := 0
	lastKind := ""
	var prevDesc map[string]any
	for ci := 0; len(cases) < n; ci++ {
		r := rng.Fork(uint64(ci))
		sinceFresh++
		if sinceFresh > 30 {
			fresh()
			sinceFresh = 1
		}
		st.Ops++
		if os.Getenv("AH_DEBUG") != "" {
			if d := diffStores(A.moduleStores(), B.moduleStores()); len(d) > 0 || A.Height != B.Height {
				fmt.Fprintln(os.Stderr, "DESYNC before case", ci, A.Height, B.Height, lastKind)
			}
		}
		desc := map[string]any{"case": ci, "height": A.Height}
		kind := []string{"msg", "msg", "msg", "rawtx", "requests", "requests", "proposal"}[r.Intn(7)]
		desc["kind"] = kind
		lastKind = fmt.Sprint(kind, " prev-desc=", prevDesc)
		prevDesc = desc
		failed, equal := true, true
		broken := false
		switch kind {
		case "msg", "rawtx":
			name := fuzzMsgTypes[r.Intn(len(fuzzMsgTypes))]
			m := A.richMsg(r, name)
			mut := "none"
			if kind == "msg" {
				mut = mutateMsg(r, m)
			}
			desc["msg_type"], desc["mutation"] = name, mut
			var raw []byte
			if tryEncode(func() { raw = A.BuildTx(A.RelPriv, TxOpt{}, m) }) {
				// the message cannot even be encoded (nil element in a repeated field): not an input the node can receive
				st.Count("unencodable")
				continue
			}
			if kind == "rawtx" {
				switch r.Intn(4) {
				case 0:
					raw = raw[:r.Intn(len(raw))]
					mut = "truncated"
				case 1:
					raw = append([]byte{}, raw...)
					raw[r.Intn(len(raw))] ^= byte(1 << uint(r.Intn(8)))
					mut = "bit-flip"
				case 2:
					raw = append(append([]byte{}, raw...), r.Bytes(1+r.Intn(20))...)
					mut = "trailing-bytes"
				default:
					raw = r.Bytes(r.Intn(200))
					mut = "random-bytes"
				}
				desc["mutation"] = mut
			}
			desc["tx"] = hex.EncodeToString(raw)
			markCurrent(desc)
			var chk *abci.ResponseCheckTx
			if guardCall(st, "CheckTx", desc, func() { chk, _ = A.App.CheckTx((&abciCheck{Tx: raw}).req()) }) {
				broken = true
				break
			}
			admitted := chk != nil && chk.Code == 0
			st.Count(fmt.Sprintf("checktx:%s:admitted=%v", kind, admitted))
			// the block: honest block message + the transaction under test
			lr := gasReq(A.Height, 9)
			for _, w := range []*World{A, B} {
				w.EL.mu.Lock()
				w.EL.nextReqs = encodeRequests(goattypes.BridgeRequests{}, goattypes.RelayerRequests{}, lr)
				w.EL.mu.Unlock()
			}
			var txs [][]byte
			if guardCall(st, "PrepareProposal", desc, func() { txs, _ = A.Prepare([][]byte{raw}) }) || len(txs) == 0 {
				broken = true
				break
			}
			full := append([][]byte{txs[0]}, raw) // the tx under test is forced into the block even when the proposer would drop it
			var verdict string
			if guardCall(st, "ProcessProposal", desc, func() { verdict = A.Process(full, A.ValAddr) }) {
				broken = true
				break
			}
			desc["process"] = verdict
			if verdict != "ACCEPT" {
				// rejected proposal: nothing is executed; fall back to the block without the transaction on both replicas
				full = [][]byte{txs[0]}
				st.Count("proposal-with-bad-tx-rejected")
			}
			var fa, fb *abci.ResponseFinalizeBlock
			var ea, eb error
			if guardCall(st, "FinalizeBlock", desc, func() { fa, ea = A.Finalize(full, A.ValAddr) }) {
				broken = true
				break
			}
			fb, eb = B.Finalize([][]byte{txs[0]}, A.ValAddr)
			if ea != nil || eb != nil {
				desc["finalize_err"] = fmt.Sprint(ea, eb)
				st.Violate("C19", "block-fails", "finalize-fails:"+kind, "FinalizeBlock fails on a block holding a malformed transaction: "+fmt.Sprint(ea), desc)
				broken = true
				break
			}
			A.Commit()
			B.Commit()
			failed = len(full) == 1 || fa.TxResults[1].Code != 0
			if len(full) == 2 {
				desc["code"] = fa.TxResults[1].Code
				st.Count(fmt.Sprintf("tx-result:%s:failed=%v", name, failed))
			}
			_ = fb
			if failed {
				d := diffStores(A.moduleStores(), B.moduleStores())
				equal = len(d) == 0
				st.Chk("C19-failed-tx-changes-nothing")
				if !equal {
					desc["diff"] = d
					st.Violate("C19", "state-unchanged", "failed-tx-changed-state:"+name, "a rejected / failed transaction changed module state", desc)
				}
			} else {
				// applied: replica B must apply it too to stay in step
				fresh()
				sinceFresh = 0
			}
		case "requests":
			lr, br, rr, kinds := fuzzRequests(r, A)
			desc["mutation"] = kinds
			desc["requests"] = map[string]any{"locking": lr, "bridge": br, "relayer": rr}
			markCurrent(desc)
			A.EL.mu.Lock()
			A.EL.nextReqs = encodeRequests(br, rr, lr)
			A.EL.mu.Unlock()
			var txs [][]byte
			if guardCall(st, "PrepareProposal", desc, func() { txs, _ = A.Prepare(nil) }) || len(txs) == 0 {
				broken = true
				break
			}
			var verdict string
			if guardCall(st, "ProcessProposal", desc, func() { verdict = A.Process(txs, A.ValAddr) }) {
				broken = true
				break
			}
			desc["process"] = verdict
			if verdict != "ACCEPT" {
				st.Count("requests:proposal-rejected")
				failed, equal = true, true
				break
			}
			var fa *abci.ResponseFinalizeBlock
			var ea error
			if guardCall(st, "FinalizeBlock", desc, func() { fa, ea = A.Finalize(txs, A.ValAddr) }) {
				broken = true
				break
			}
			if ea != nil {
				desc["finalize_err"] = ea.Error()
				st.Violate("C19", "block-fails", "finalize-fails:requests:"+panicKey(ea.Error()), "block processing fails on a decodable execution-layer request list: "+ea.Error(), desc)
				broken = true
				break
			}
			failed = fa.TxResults[0].Code != 0
			desc["code"] = fa.TxResults[0].Code
			st.Count(fmt.Sprintf("requests:block-msg-failed=%v", failed))
			if failed {
				// expected state: the same block without any transaction
				if _, eb := B.Finalize(nil, A.ValAddr); eb != nil {
					broken = true
					break
				}
				A.Commit()
				B.Commit()
				d := diffStores(A.moduleStores(), B.moduleStores())
				equal = len(d) == 0
				st.Chk("C19-failed-block-msg-changes-nothing")
				if !equal {
					desc["diff"] = d
					st.Violate("C19", "state-unchanged", "failed-block-msg-changed-state", "a failed execution-block message changed module state", desc)
				}
				// the ante handler has advanced the proposer's account sequence on A only: start over
				fresh()
				sinceFresh = 0
			} else {
				A.Commit()
				fresh()
				sinceFresh = 0
			}
		case "proposal":
			// shape-mutated block message inside an otherwise honest proposal
			A.EL.mu.Lock()
			A.EL.nextReqs = encodeRequests(goattypes.BridgeRequests{}, goattypes.RelayerRequests{}, gasReq(A.Height, 3))
			A.EL.mu.Unlock()
			txs, _ := A.Prepare(nil)
			if len(txs) == 0 {
				broken = true
				break
			}
			blk := A.decodeEthBlock(txs[0])
			mut := mutateMsg(r, blk)
			if blk.Payload != nil && r.Chance(25) {
				blk.Payload.BaseFeePerGas = math.Int{}
				mut = ".Payload.BaseFeePerGas=zero-value"
			}
			desc["mutation"] = mut
			var raw []byte
			if tryEncode(func() { raw = A.BuildTx(A.ValPriv, TxOpt{Timeout: uint64(A.Height)}, blk) }) {
				st.Count("unencodable")
				continue
			}
			desc["tx"] = hex.EncodeToString(raw)
			markCurrent(desc)
			var verdict string
			if guardCall(st, "ProcessProposal", desc, func() { verdict = A.Process([][]byte{raw}, A.ValAddr) }) {
				broken = true
				break
			}
			desc["process"] = verdict
			st.Count("proposal:" + verdict)
			if verdict != "ACCEPT" {
				// a rejected proposal is never finalised by honest validators: nothing is executed
				failed, equal = true, true
				break
			}
			var fa *abci.ResponseFinalizeBlock
			var ea error
			if guardCall(st, "FinalizeBlock", desc, func() { fa, ea = A.Finalize([][]byte{raw}, A.ValAddr) }) {
				broken = true
				break
			}
			if ea != nil {
				desc["finalize_err"] = ea.Error()
				st.Violate("C19", "block-fails", "finalize-fails:proposal:"+panicKey(ea.Error()), "block processing fails on a malformed block message: "+ea.Error(), desc)
				broken = true
				break
			}
			failed = fa.TxResults[0].Code != 0
			if failed {
				if _, eb := B.Finalize(nil, A.ValAddr); eb != nil {
					broken = true
					break
				}
				A.Commit()
				B.Commit()
				d := diffStores(A.moduleStores(), B.moduleStores())
				equal = len(d) == 0
				st.Chk("C19-failed-block-msg-changes-nothing")
				if !equal {
					desc["diff"] = d
					st.Violate("C19", "state-unchanged", "failed-block-msg-changed-state", "a failed execution-block message changed module state", desc)
				}
				// the ante handler has advanced the proposer's account sequence on A only: start over
				fresh()
				sinceFresh = 0
			} else {
				A.Commit()
				fresh()
				sinceFresh = 0
			}
		}
		clearCurrent()
		if broken {
			fresh()
			sinceFresh = 0
		}
		sig := fmt.Sprintf("%s:%v:%v", kind, desc["msg_type"], failed)
		if !seen[sig] {
			seen[sig] = true
			st.Distinct++
		}
		st.Sample(desc)
		cases = append(cases, cApp("ZCase", cBool(failed), cBool(equal)))
		replays = append(replays, desc)
		_ = bytes.Equal
	}
	return cases, replays
}

func panicKey(s string) string {
	out := make([]rune, 0, len(s))
	for _, c := range s {
		if c >= '0' && c <= '9' {
			continue
		}
		out = append(out, c)
	}
	r := string(out)
	if len(r) > 70 {
		r = r[:70]
	}
	return r
}
