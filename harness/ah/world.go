package main

// Application-level world: the real app.New behind ABCI, a scripted fake execution engine served
// over a unix-socket JSON-RPC endpoint, genesis construction, block driving.

import (
	"context"
	"crypto/sha256"
	"encoding/binary"
	"encoding/json"
	"fmt"
	"math/big"
	"net"
	"os"
	"path/filepath"
	"sync"
	"time"

	"cosmossdk.io/log"
	"cosmossdk.io/math"
	abci "github.com/cometbft/cometbft/abci/types"
	cmtsecp "github.com/cometbft/cometbft/crypto/secp256k1"
	cmtjson "github.com/cometbft/cometbft/libs/json"
	"github.com/cometbft/cometbft/privval"
	cmtproto "github.com/cometbft/cometbft/proto/tendermint/types"
	dbm "github.com/cosmos/cosmos-db"
	"github.com/cosmos/cosmos-sdk/baseapp"
	"github.com/cosmos/cosmos-sdk/client"
	clienttx "github.com/cosmos/cosmos-sdk/client/tx"
	codectypes "github.com/cosmos/cosmos-sdk/codec/types"
	"github.com/cosmos/cosmos-sdk/crypto/keys/secp256k1"
	sdk "github.com/cosmos/cosmos-sdk/types"
	sdkmempool "github.com/cosmos/cosmos-sdk/types/mempool"
	"github.com/cosmos/cosmos-sdk/types/tx/signing"
	xauthsigning "github.com/cosmos/cosmos-sdk/x/auth/signing"
	authtx "github.com/cosmos/cosmos-sdk/x/auth/tx"
	authtypes "github.com/cosmos/cosmos-sdk/x/auth/types"
	"github.com/ethereum/go-ethereum/beacon/engine"
	"github.com/ethereum/go-ethereum/common"
	"github.com/ethereum/go-ethereum/common/hexutil"
	ethtypes "github.com/ethereum/go-ethereum/core/types"
	"github.com/ethereum/go-ethereum/core/types/goattypes"
	"github.com/ethereum/go-ethereum/params"
	"github.com/ethereum/go-ethereum/rpc"
	goatapp "github.com/goatnetwork/goat/app"
	goatcrypto "github.com/goatnetwork/goat/pkg/crypto"
	bitcointypes "github.com/goatnetwork/goat/x/bitcoin/types"
	goattypes2 "github.com/goatnetwork/goat/x/goat/types"
	lockingtypes "github.com/goatnetwork/goat/x/locking/types"
	relayertypes "github.com/goatnetwork/goat/x/relayer/types"
	blst "github.com/supranational/blst/bindings/go"
)

const ChainID = "goat-verif-1"

// ---------------------------------------------------------------- fake execution engine
type elCall struct {
	Method string `json:"method"`
	Head   string `json:"head,omitempty"`
	Safe   string `json:"safe,omitempty"`
	Final  string `json:"final,omitempty"`
	Number uint64 `json:"number,omitempty"`
	Attrs  bool   `json:"attrs,omitempty"`
	Fault  string `json:"fault,omitempty"`
}

type fakeEL struct {
	mu        sync.Mutex
	payloads  map[engine.PayloadID]*engine.ExecutionPayloadEnvelope
	calls     []elCall
	nextReqs  [][]byte // requests the EL will put into the next built payload
	extraTxs  [][]byte // user transactions appended after the system txs
	faults    map[int]string // call ordinal (over the whole run) -> fault kind
	ncall     int
	tsSkew    int64
	mutate    func(p *engine.ExecutableData) // harness hook: corrupt the built payload
	lastAttrs *engine.PayloadAttributes
}

type engineAPI struct{ el *fakeEL }

func (e *fakeEL) fault(method string) string {
	e.ncall++
	f := e.faults[e.ncall]
	return f
}

func (a *engineAPI) GetChainConfig() (*params.ChainConfig, error) {
	return &params.ChainConfig{ChainID: big.NewInt(48815), Goat: &params.GoatConfig{}}, nil
}

func blockHashOf(d *engine.ExecutableData, reqs [][]byte) common.Hash {
	h := sha256.New()
	h.Write(d.ParentHash[:])
	h.Write(d.FeeRecipient[:])
	var b [8]byte
	binary.BigEndian.PutUint64(b[:], d.Number)
	h.Write(b[:])
	binary.BigEndian.PutUint64(b[:], d.Timestamp)
	h.Write(b[:])
	h.Write(d.ExtraData)
	for _, t := range d.Transactions {
		h.Write(t)
	}
	for _, r := range reqs {
		h.Write(r)
	}
	// the blob-gas header fields are part of a real block hash as well
	for _, p := range []*uint64{d.BlobGasUsed, d.ExcessBlobGas} {
		v := uint64(0)
		if p != nil {
			v = *p
		}
		binary.BigEndian.PutUint64(b[:], v)
		h.Write(b[:])
	}
	return common.BytesToHash(h.Sum(nil))
}

func (a *engineAPI) ForkchoiceUpdatedV3(update engine.ForkchoiceStateV1, attrs *engine.PayloadAttributes) (engine.ForkChoiceResponse, error) {
	e := a.el
	e.mu.Lock()
	defer e.mu.Unlock()
	f := e.fault("forkchoiceUpdatedV3")
	e.calls = append(e.calls, elCall{Method: "forkchoice", Head: update.HeadBlockHash.Hex(), Safe: update.SafeBlockHash.Hex(), Final: update.FinalizedBlockHash.Hex(), Attrs: attrs != nil, Fault: f})
	switch f {
	case "error":
		return engine.ForkChoiceResponse{}, fmt.Errorf("scripted engine error")
	case "invalid":
		return engine.ForkChoiceResponse{PayloadStatus: engine.PayloadStatusV1{Status: engine.INVALID}}, nil
	case "syncing":
		return engine.ForkChoiceResponse{PayloadStatus: engine.PayloadStatusV1{Status: engine.SYNCING}}, nil
	case "timeout":
		time.Sleep(1500 * time.Millisecond)
	case "slow": // a correct answer from a loaded execution client
		time.Sleep(800 * time.Millisecond)
	}
	resp := engine.ForkChoiceResponse{PayloadStatus: engine.PayloadStatusV1{Status: engine.VALID}}
	switch f { // a non-VALID status on an answer that nevertheless carries a payload id
	case "invalid-with-id":
		resp.PayloadStatus.Status = engine.INVALID
	case "syncing-with-id":
		resp.PayloadStatus.Status = engine.SYNCING
	}
	if attrs == nil {
		return resp, nil
	}
	e.lastAttrs = attrs
	if f == "nopayloadid" {
		return resp, nil
	}
	extra := make([]byte, params.GoatHeaderExtraLengthV0)
	extra[0] = byte(len(attrs.GoatTxs))
	txs := [][]byte{}
	for _, t := range attrs.GoatTxs {
		txs = append(txs, t)
	}
	txs = append(txs, e.extraTxs...)
	// parent number: the harness tracks it through the parent hash -> number map
	d := &engine.ExecutableData{
		ParentHash: update.HeadBlockHash, FeeRecipient: attrs.SuggestedFeeRecipient,
		StateRoot: common.BytesToHash([]byte("state")), ReceiptsRoot: common.BytesToHash([]byte("rcpt")),
		LogsBloom: make([]byte, 256), Random: attrs.Random, Number: numberOf[update.HeadBlockHash] + 1,
		GasLimit: 30000000, GasUsed: 21000, Timestamp: uint64(int64(attrs.Timestamp) + e.tsSkew), ExtraData: extra,
		BaseFeePerGas: big.NewInt(7), Transactions: txs, Withdrawals: []*ethtypes.Withdrawal{},
		BlobGasUsed: new(uint64), ExcessBlobGas: new(uint64),
	}
	// blocks after a period of blob use: no blob gas used, excess still decaying (deterministic in the parent)
	if update.HeadBlockHash[0]%3 == 0 {
		*d.ExcessBlobGas = 0x20000 * uint64(1+update.HeadBlockHash[1]%4)
	}
	reqs := e.nextReqs
	d.BlockHash = blockHashOf(d, reqs)
	if e.mutate != nil {
		e.mutate(d)
	}
	numberOf[d.BlockHash] = d.Number
	var id engine.PayloadID
	copy(id[:], d.BlockHash[:8])
	e.payloads[id] = &engine.ExecutionPayloadEnvelope{ExecutionPayload: d, BlockValue: big.NewInt(0), Requests: reqs}
	resp.PayloadID = &id
	return resp, nil
}

var numberOf = map[common.Hash]uint64{}

func (a *engineAPI) GetPayloadV4(id engine.PayloadID) (*engine.ExecutionPayloadEnvelope, error) {
	e := a.el
	e.mu.Lock()
	defer e.mu.Unlock()
	f := e.fault("getPayloadV4")
	e.calls = append(e.calls, elCall{Method: "getPayload", Fault: f})
	if f == "error" {
		return nil, fmt.Errorf("scripted engine error")
	}
	if f == "timeout" {
		time.Sleep(1500 * time.Millisecond)
	}
	p, ok := e.payloads[id]
	if !ok {
		return nil, fmt.Errorf("unknown payload")
	}
	return p, nil
}

func (a *engineAPI) NewPayloadV4(d engine.ExecutableData, versionedHashes []common.Hash, beaconRoot *common.Hash, requests []hexutil.Bytes) (engine.PayloadStatusV1, error) {
	e := a.el
	e.mu.Lock()
	defer e.mu.Unlock()
	f := e.fault("newPayloadV4")
	e.calls = append(e.calls, elCall{Method: "newPayload", Head: d.BlockHash.Hex(), Number: d.Number, Fault: f})
	switch f {
	case "error":
		return engine.PayloadStatusV1{}, fmt.Errorf("scripted engine error")
	case "invalid":
		return engine.PayloadStatusV1{Status: engine.INVALID}, nil
	case "syncing":
		return engine.PayloadStatusV1{Status: engine.SYNCING}, nil
	case "accepted":
		return engine.PayloadStatusV1{Status: engine.ACCEPTED}, nil
	case "slow": // a correct answer from a loaded execution client
		time.Sleep(800 * time.Millisecond)
	}
	// a well-behaved EL recomputes the block hash
	reqs := make([][]byte, len(requests))
	for i := range requests {
		reqs[i] = requests[i]
	}
	if n, known := numberOf[d.BlockHash]; d.Number == 0 && known && n == 0 {
		return engine.PayloadStatusV1{Status: engine.VALID}, nil // the genesis block: its hash is fixed by the harness
	}
	if blockHashOf(&d, reqs) != d.BlockHash {
		return engine.PayloadStatusV1{Status: engine.INVALID}, nil
	}
	return engine.PayloadStatusV1{Status: engine.VALID}, nil
}

func startEL(dir string) (*fakeEL, string, func()) {
	el := &fakeEL{payloads: map[engine.PayloadID]*engine.ExecutionPayloadEnvelope{}, faults: map[int]string{}}
	srv := rpc.NewServer()
	if err := srv.RegisterName("engine", &engineAPI{el}); err != nil {
		panic(err)
	}
	sock := filepath.Join(dir, "el.ipc")
	os.Remove(sock)
	l, err := net.Listen("unix", sock)
	if err != nil {
		panic(err)
	}
	go srv.ServeListener(l)
	return el, sock, func() { l.Close(); srv.Stop() }
}

// ---------------------------------------------------------------- world
type appOpts map[string]any

func (o appOpts) Get(k string) any { return o[k] }

type World struct {
	Dir     string
	EL      *fakeEL
	stopEL  func()
	App     *goatapp.App
	DB      dbm.DB
	ValPriv *secp256k1.PrivKey // consensus validator == block proposer
	ValAddr []byte
	RelPriv *secp256k1.PrivKey // relayer proposer (tx key)
	RelAddr sdk.AccAddress
	RelBls  *blst.SecretKey
	Other   *secp256k1.PrivKey // an account that is neither
	Height  int64
	Now     time.Time
	LastHash []byte
	TxCfg   client.TxConfig
	Head    common.Hash
	opts    appOpts
	onDisk  bool
	Extra   []*secp256k1.PrivKey // further validators
	// import of an exported state
	GenesisOverride []byte
	InitialHeight   int64
	InitErr         error
	InitResp        *abci.ResponseInitChain
}

func mustNoErr(err error) {
	if err != nil {
		panic(err)
	}
}

func genesisHead() goattypes2.ExecutionPayload {
	h := common.BytesToHash(sha256Sum([]byte("genesis-el-block")))
	numberOf[h] = 0
	return goattypes2.ExecutionPayload{
		ParentHash: make([]byte, 32), FeeRecipient: make([]byte, 20), StateRoot: make([]byte, 32), ReceiptsRoot: make([]byte, 32),
		LogsBloom: make([]byte, 256), PrevRandao: make([]byte, 32), BlockNumber: 0, GasLimit: 30000000, Timestamp: 1,
		ExtraData: make([]byte, params.GoatHeaderExtraLengthV0), BaseFeePerGas: math.NewInt(7), BlockHash: h[:], Transactions: [][]byte{}, BeaconRoot: make([]byte, 32),
	}
}

func sha256Sum(b []byte) []byte { h := sha256.Sum256(b); return h[:] }

type GenesisTweak func(gs map[string]json.RawMessage, app *goatapp.App, w *World)

func NewWorld(seed string, onDisk bool, tweak GenesisTweak) *World {
	return newWorld(seed, onDisk, tweak, nil, 0)
}

// NewWorldFromExport initialises a fresh application from an exported application state.
func NewWorldFromExport(seed string, appState []byte, initialHeight int64) (w *World, panicMsg string) {
	defer func() {
		if r := recover(); r != nil {
			panicMsg = fmt.Sprint(r)
		}
	}()
	return newWorld(seed, false, nil, appState, initialHeight), ""
}

func newWorld(seed string, onDisk bool, tweak GenesisTweak, override []byte, initialHeight int64) *World {
	dir, err := os.MkdirTemp("", "goatverif-ah-")
	mustNoErr(err)
	w := &World{Dir: dir, onDisk: onDisk, GenesisOverride: override, InitialHeight: initialHeight}
	w.EL, _, w.stopEL = startEL(dir)
	w.ValPriv = secp256k1.GenPrivKeyFromSecret([]byte("val-" + seed))
	w.ValAddr = w.ValPriv.PubKey().Address()
	w.RelPriv = secp256k1.GenPrivKeyFromSecret([]byte("rel-" + seed))
	w.RelAddr = sdk.AccAddress(w.RelPriv.PubKey().Address())
	w.Other = secp256k1.GenPrivKeyFromSecret([]byte("other-" + seed))
	ikm := sha256.Sum256([]byte("bls-" + seed))
	w.RelBls = blst.KeyGenV3(ikm[:])
	for i := 0; i < 3; i++ {
		w.Extra = append(w.Extra, secp256k1.GenPrivKeyFromSecret([]byte(fmt.Sprintf("val%d-%s", i, seed))))
	}
	// priv_validator_key.json for the node key provider
	pv := privval.FilePVKey{PrivKey: cmtsecp.PrivKey(w.ValPriv.Key), PubKey: cmtsecp.PrivKey(w.ValPriv.Key).PubKey(), Address: w.ValAddr}
	js, err := cmtjson.MarshalIndent(pv, "", " ")
	mustNoErr(err)
	mustNoErr(os.WriteFile(filepath.Join(dir, "priv_validator_key.json"), js, 0o600))
	w.opts = appOpts{"goat.geth": filepath.Join(dir, "el.ipc"), "priv_validator_key_file": "priv_validator_key.json", "home": dir}
	w.open()
	w.TxCfg = authtx.NewTxConfig(w.App.AppCodec(), authtx.DefaultSignModes)
	w.Now = time.Unix(1700000000, 0).UTC()
	w.initChain(tweak)
	return w
}

func (w *World) open() {
	if w.onDisk {
		db, err := dbm.NewGoLevelDB("app", w.Dir, nil)
		mustNoErr(err)
		w.DB = db
	} else if w.DB == nil {
		w.DB = dbm.NewMemDB()
	}
	lg := log.NewNopLogger()
	if os.Getenv("AH_LOG") != "" {
		lg = log.NewLogger(os.Stderr)
	}
	app, err := goatapp.New(lg, w.DB, nil, true, w.opts, baseapp.SetChainID(ChainID), baseapp.SetMempool(sdkmempool.NewSenderNonceMempool(sdkmempool.SenderNonceMaxTxOpt(64))))
	mustNoErr(err)
	w.App = app
}

// Reopen closes the application and loads it again from the on-disk database (a node restart).
func (w *World) Reopen() {
	mustNoErr(w.App.Close())
	if w.onDisk {
		w.DB.Close()
	}
	w.open()
}

func (w *World) Close() {
	w.App.Close()
	if w.onDisk {
		w.DB.Close()
	}
	w.stopEL()
	os.RemoveAll(w.Dir)
}

func (w *World) initChain(tweak GenesisTweak) {
	app := w.App
	cdc := app.AppCodec()
	gs := app.DefaultGenesis()
	// auth: accounts with pubkeys for the validator and the relayer proposer
	var accs []*codectypes.Any
	for i, k := range append([]*secp256k1.PrivKey{w.ValPriv, w.RelPriv, w.Other}, w.Extra...) {
		acc := authtypes.NewBaseAccount(sdk.AccAddress(k.PubKey().Address()), k.PubKey(), uint64(i), 0)
		a, err := codectypes.NewAnyWithValue(acc)
		mustNoErr(err)
		accs = append(accs, a)
	}
	ag := authtypes.DefaultGenesisState()
	ag.Accounts = accs
	gs[authtypes.ModuleName] = cdc.MustMarshalJSON(ag)
	// relayer
	blsPub := new(goatcrypto.PublicKey).From(w.RelBls).Compress()
	btcKey := &relayertypes.PublicKey{Key: &relayertypes.PublicKey_Secp256K1{Secp256K1: w.RelPriv.PubKey().Bytes()}}
	rg := relayertypes.GenesisState{Params: relayertypes.Params{ElectingPeriod: 10 * time.Minute, AcceptProposerTimeout: time.Minute},
		Relayer: &relayertypes.Relayer{Proposer: w.RelAddr.String(), LastElected: w.Now, ProposerAccepted: true},
		Voters:  []relayertypes.Voter{{Address: w.RelAddr, VoteKey: blsPub, Status: relayertypes.VOTER_STATUS_ACTIVATED}},
		Pubkeys: []*relayertypes.PublicKey{btcKey}, Randao: make([]byte, 32)}
	gs[relayertypes.ModuleName] = cdc.MustMarshalJSON(&rg)
	// bitcoin
	bg := bitcointypes.DefaultGenesis()
	bg.Pubkey = btcKey
	bg.BlockTip = 100
	bg.BlockHashes = [][]byte{sha256Sum([]byte("btc-100"))}
	bg.EthTxQueue.BlockNumber = 100
	gs[bitcointypes.ModuleName] = cdc.MustMarshalJSON(bg)
	// locking: one active validator
	lg := lockingtypes.GenesisState{Params: lockingtypes.DefaultParams(),
		Validators: []lockingtypes.Validator{{Pubkey: w.ValPriv.PubKey().Bytes(), Power: 10, Reward: math.ZeroInt(), GasReward: math.ZeroInt(),
			Status: lockingtypes.Active, Locking: sdk.NewCoins(sdk.NewCoin("btc", math.NewIntWithDecimal(10, 18)))}},
		Tokens:     []*lockingtypes.TokenGenesis{{Denom: "btc", Token: lockingtypes.Token{Weight: 1, Threshold: math.ZeroInt()}}},
		RewardPool: lockingtypes.RewardPool{Goat: math.ZeroInt(), Gas: math.ZeroInt(), Remain: math.NewIntWithDecimal(1000, 18)}}
	lg.Params.MaxValidators = 4
	gs[lockingtypes.ModuleName] = cdc.MustMarshalJSON(&lg)
	// goat
	head := genesisHead()
	w.Head = common.BytesToHash(head.BlockHash)
	gg := goattypes2.GenesisState{Params: goattypes2.DefaultParams(), EthBlock: head, BeaconRoot: make([]byte, 32)}
	gs[goattypes2.ModuleName] = cdc.MustMarshalJSON(&gg)
	if tweak != nil {
		tweak(gs, app, w)
	}
	state, err := json.Marshal(gs)
	mustNoErr(err)
	if w.GenesisOverride != nil {
		state = w.GenesisOverride
	}
	cp := &cmtproto.ConsensusParams{
		Block:     &cmtproto.BlockParams{MaxBytes: 1 << 22, MaxGas: -1},
		Evidence:  &cmtproto.EvidenceParams{MaxAgeNumBlocks: 100000, MaxAgeDuration: 48 * time.Hour, MaxBytes: 1 << 20},
		Validator: &cmtproto.ValidatorParams{PubKeyTypes: []string{"secp256k1"}},
		Abci:      &cmtproto.ABCIParams{},
	}
	ih := int64(1)
	if w.InitialHeight > 0 {
		ih = w.InitialHeight
	}
	resp, err := app.InitChain(&abci.RequestInitChain{ChainId: ChainID, InitialHeight: ih, Time: w.Now, ConsensusParams: cp, AppStateBytes: state})
	if w.GenesisOverride != nil {
		w.InitErr = err
		w.InitResp = resp
		if err != nil {
			return
		}
	} else {
		mustNoErr(err)
	}
	w.Height = ih
	w.LastHash = make([]byte, 32)
}

// ---------------------------------------------------------------- transactions
func (w *World) accountInfo(addr sdk.AccAddress, checkState bool) (num, seq uint64) {
	ctx := w.App.NewUncachedContext(false, cmtproto.Header{Height: w.App.LastBlockHeight()})
	if checkState {
		ctx = w.App.NewContextLegacy(true, cmtproto.Header{Height: w.App.LastBlockHeight()})
	}
	acc := w.App.AccountKeeper.GetAccount(ctx, addr)
	if acc == nil {
		return 0, 0
	}
	return acc.GetAccountNumber(), acc.GetSequence()
}

type TxOpt struct {
	Memo    string
	Timeout uint64
	SeqOff  int
	BadSig  bool
	CheckState bool // sequence as seen by the CheckTx state (pending txs included)
}

func (w *World) BuildTx(priv *secp256k1.PrivKey, opt TxOpt, msgs ...sdk.Msg) []byte {
	b := w.TxCfg.NewTxBuilder()
	mustNoErr(b.SetMsgs(msgs...))
	b.SetGasLimit(1e8)
	b.SetMemo(opt.Memo)
	b.SetTimeoutHeight(opt.Timeout)
	addr := sdk.AccAddress(priv.PubKey().Address())
	num, seq := w.accountInfo(addr, opt.CheckState)
	seq = uint64(int(seq) + opt.SeqOff)
	mode := signing.SignMode(w.TxCfg.SignModeHandler().DefaultMode())
	mustNoErr(b.SetSignatures(signing.SignatureV2{PubKey: priv.PubKey(), Data: &signing.SingleSignatureData{SignMode: mode}, Sequence: seq}))
	sd := xauthsigning.SignerData{Address: addr.String(), ChainID: ChainID, AccountNumber: num, Sequence: seq, PubKey: priv.PubKey()}
	sig, err := clienttx.SignWithPrivKey(context.Background(), mode, sd, b, priv, w.TxCfg, seq)
	mustNoErr(err)
	if opt.BadSig {
		if s, ok := sig.Data.(*signing.SingleSignatureData); ok && len(s.Signature) > 0 {
			s.Signature[5] ^= 0xff
		}
	}
	mustNoErr(b.SetSignatures(sig))
	raw, err := w.TxCfg.TxEncoder()(b.GetTx())
	mustNoErr(err)
	return raw
}

// relayer vote by the single voter (proposer alone is a full quorum when there are no other voters)
func (w *World) Vote(method string, data []byte) *relayertypes.Votes {
	ctx := w.App.NewUncachedContext(false, cmtproto.Header{Height: w.App.LastBlockHeight()})
	seq, _ := w.App.RelayerKeeper.Sequence.Peek(ctx)
	rel, _ := w.App.RelayerKeeper.Relayer.Get(ctx)
	doc := relayertypes.VoteSignDoc(method, ChainID, rel.Proposer, seq, rel.Epoch, data)
	return &relayertypes.Votes{Sequence: seq, Epoch: rel.Epoch, Signature: goatcrypto.Sign(w.RelBls, doc)}
}

// ---------------------------------------------------------------- blocks
type BlockResult struct {
	PrepareTxs   [][]byte
	PrepareErr   string
	Process      string // ACCEPT / REJECT / error
	FinalizeErr  string
	TxCodes      []uint32
	TxGas        []int64
	ValUpdates   []string
	AppHash      string
	Calls        []elCall
}

func (w *World) lastCommit() abci.CommitInfo {
	return abci.CommitInfo{Votes: []abci.VoteInfo{{Validator: abci.Validator{Address: w.ValAddr, Power: 10}, BlockIdFlag: cmtproto.BlockIDFlagCommit}}}
}

func (w *World) Prepare(mempool [][]byte) ([][]byte, string) {
	// a proposer that never returns from PrepareProposal is a halted node: report it as such instead of
	// hanging the harness
	done := make(chan struct{})
	defer close(done)
	go func(h int64, n int) {
		select {
		case <-done:
		case <-time.After(25 * time.Second):
			markCurrent(map[string]any{"kind": "hang", "mutation": "PrepareProposal-did-not-return-within-25s", "height": h, "mempool_txs": n})
			os.Exit(3)
		}
	}(w.Height, len(mempool))
	resp, err := w.App.PrepareProposal(&abci.RequestPrepareProposal{MaxTxBytes: 1 << 21, Txs: mempool, Height: w.Height, Time: w.Now,
		ProposerAddress: w.ValAddr, LocalLastCommit: abci.ExtendedCommitInfo{}})
	if err != nil {
		return nil, err.Error()
	}
	return resp.Txs, ""
}

func (w *World) blockHash() []byte {
	return sha256Sum([]byte(fmt.Sprintf("cmt-block-%d", w.Height)))
}

func (w *World) Process(txs [][]byte, proposer []byte) string {
	resp, err := w.App.ProcessProposal(&abci.RequestProcessProposal{Txs: txs, Height: w.Height, Time: w.Now, ProposerAddress: proposer,
		Hash: w.blockHash(), ProposedLastCommit: w.lastCommit()})
	if err != nil {
		return "error:" + err.Error()
	}
	return resp.Status.String()
}

func (w *World) Finalize(txs [][]byte, proposer []byte) (*abci.ResponseFinalizeBlock, error) {
	return w.App.FinalizeBlock(&abci.RequestFinalizeBlock{Txs: txs, Height: w.Height, Time: w.Now, ProposerAddress: proposer,
		Hash: w.blockHash(), DecidedLastCommit: w.lastCommit()})
}

func (w *World) Commit() {
	_, err := w.App.Commit()
	mustNoErr(err)
	w.Height++
	w.Now = w.Now.Add(3 * time.Second)
}

// HonestBlock runs one full honest round: prepare, process, finalize, commit.
func (w *World) HonestBlock(mempool [][]byte, reqs goattypes.LockingRequests, breqs goattypes.BridgeRequests, rreqs goattypes.RelayerRequests) *BlockResult {
	w.EL.mu.Lock()
	w.EL.nextReqs = encodeRequests(breqs, rreqs, reqs)
	c0 := len(w.EL.calls)
	w.EL.mu.Unlock()
	res := &BlockResult{}
	for _, m := range mempool { // the application-side mempool is filled by CheckTx
		_, _ = w.App.CheckTx(&abci.RequestCheckTx{Tx: m, Type: abci.CheckTxType_New})
	}
	txs, perr := w.Prepare(mempool)
	res.PrepareTxs, res.PrepareErr = txs, perr
	if len(txs) == 0 {
		return res
	}
	res.Process = w.Process(txs, w.ValAddr)
	if res.Process != "ACCEPT" {
		if os.Getenv("AH_DEBUG") != "" {
			for i, raw := range txs {
				if tx, err := w.TxCfg.TxDecoder()(raw); err == nil {
					if sv, ok := tx.(xauthsigning.SigVerifiableTx); ok {
						sigs, _ := sv.GetSignaturesV2()
						for _, sg := range sigs {
							_, cs := w.accountInfo(sdk.AccAddress(sg.PubKey.Address()), false)
							_, ks := w.accountInfo(sdk.AccAddress(sg.PubKey.Address()), true)
							fmt.Fprintf(os.Stderr, "DEBUG reject h=%d tx%d signer=%x txseq=%d committed=%d checkstate=%d mempool=%d\n", w.Height, i, sg.PubKey.Address(), sg.Sequence, cs, ks, len(mempool))
						}
					}
				}
			}
		}
		return res
	}
	fr, err := w.Finalize(txs, w.ValAddr)
	if err != nil {
		res.FinalizeErr = err.Error()
		return res
	}
	for _, r := range fr.TxResults {
		res.TxCodes = append(res.TxCodes, r.Code)
		res.TxGas = append(res.TxGas, r.GasUsed)
	}
	for _, u := range fr.ValidatorUpdates {
		res.ValUpdates = append(res.ValUpdates, fmt.Sprintf("%x:%d", u.PubKey.GetSecp256K1(), u.Power))
	}
	res.AppHash = fmt.Sprintf("%x", fr.AppHash)
	w.Commit()
	w.EL.mu.Lock()
	res.Calls = append([]elCall{}, w.EL.calls[c0:]...)
	w.EL.mu.Unlock()
	return res
}

func encodeRequests(b goattypes.BridgeRequests, r goattypes.RelayerRequests, l goattypes.LockingRequests) [][]byte {
	var out [][]byte
	out = append(out, l.Encode()...)
	out = append(out, b.Encode()...)
	out = append(out, r.Encode()...)
	return out
}

func gasReq(h int64, amt int64) goattypes.LockingRequests {
	return goattypes.LockingRequests{Gas: []*goattypes.GasRequest{goattypes.NewGasRequest(uint64(h), big.NewInt(amt))}}
}

func (w *World) HeadInfo() (hash string, number uint64, beacon string) {
	ctx := w.App.NewUncachedContext(false, cmtproto.Header{Height: w.App.LastBlockHeight()})
	b, _ := w.App.GoatKeeper.Block.Get(ctx)
	br, _ := w.App.GoatKeeper.BeaconRoot.Get(ctx)
	return fmt.Sprintf("%x", b.BlockHash), b.BlockNumber, fmt.Sprintf("%x", br)
}

func le64(xs ...uint64) []byte {
	out := make([]byte, 8*len(xs))
	for i, x := range xs {
		binary.LittleEndian.PutUint64(out[i*8:], x)
	}
	return out
}
