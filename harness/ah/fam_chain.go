package main

// Family "chain" (C09): histories of finalised consensus blocks on the real application (on-disk state).
// Every block is finalised whatever ProcessProposal would have said (a finalised block is not necessarily one
// this node accepted): honest payloads, payloads that are not a valid child of the recorded head, block
// messages that fail for other reasons, and engine faults at either end-of-block call.  A block whose
// FinalizeBlock fails is discarded by reopening the application.  After every block the committed head,
// the beacon root and what the engine was told are compared with the chain-level model inside Coq.

import (
	"fmt"

	cmtproto "github.com/cometbft/cometbft/proto/tendermint/types"
	sdk "github.com/cosmos/cosmos-sdk/types"
	"github.com/ethereum/go-ethereum/common"
	"github.com/ethereum/go-ethereum/core/types/goattypes"
	goattypes2 "github.com/goatnetwork/goat/x/goat/types"
)

func init() {
	families["chain"] = &Family{Requires: "Model.GoatBlock Model.GoatChain Cases.ChainRun", CaseType: "ccase", Run: runChain}
}

var chainMutNames = map[string]bool{"honest": true, "wrong-parent": true, "wrong-number": true, "number-minus": true, "wrong-recipient": true,
	"wrong-beacon": true, "blob-gas": true, "two-gas-requests": true, "no-gas-request": true, "undecodable-requests": true,
	"lock-unknown-validator": true, "systx-invented": true, "extra-count-off": true}

type chainHead struct {
	Hash, Parent []byte
	Number       uint64
	Beacon       []byte
}

func (w *World) chainHead() chainHead {
	ctx := w.App.NewUncachedContext(false, cmtproto.Header{Height: w.App.LastBlockHeight()})
	b, _ := w.App.GoatKeeper.Block.Get(ctx)
	br, _ := w.App.GoatKeeper.BeaconRoot.Get(ctx)
	return chainHead{b.BlockHash, b.ParentHash, b.BlockNumber, br}
}

func runChain(rng *Rng, n int, st *Stats, param string) ([]string, []any) {
	var cases []string
	var replays []any
	var muts []blockMut
	for _, m := range blockMuts {
		if chainMutNames[m.name] {
			muts = append(muts, m)
		}
	}
	kinds := []string{"error", "invalid", "syncing", "accepted"}
	ans := map[string]string{"error": "AError", "invalid": "AInvalid", "syncing": "ASyncing", "accepted": "AAccepted", "": "AValid"}
	seen := map[string]bool{}
	for ci := 0; len(cases) < n; ci++ {
		r := rng.Fork(uint64(ci))
		w := NewWorld(fmt.Sprintf("ch-%d", r.Intn(1000)), true, nil)
		w.HonestBlock(nil, gasReq(w.Height, 1), goattypes.BridgeRequests{}, goattypes.RelayerRequests{})
		h0 := w.chainHead()
		var blocks []string
		var recs []map[string]any
		nb := 5 + r.Intn(5)
		for b := 0; b < nb; b++ {
			w.EL.mu.Lock()
			w.EL.nextReqs = encodeRequests(goattypes.BridgeRequests{}, goattypes.RelayerRequests{}, gasReq(w.Height, int64(1+r.Intn(9))))
			w.EL.mu.Unlock()
			txs, perr := w.Prepare(nil)
			if len(txs) == 0 {
				st.Count("prepare-failed:" + perr)
				break
			}
			blk := w.decodeEthBlock(txs[0])
			if blk == nil || blk.Payload == nil {
				break
			}
			mut := muts[r.Intn(len(muts))]
			if r.Chance(45) {
				mut = muts[0] // honest: the head advances
			}
			facts := pfactsGo{true, true, true, true, true, true, 1, true, true, true, true, true}
			p := clonePayload(blk.Payload)
			mut.apply(w, p, &facts)
			if mut.name != "honest" {
				p.BlockHash = payloadHash(p)
			}
			proposer := w.ValAddr
			structural := ""
			if r.Chance(8) {
				structural = "other-consensus-proposer"
				proposer = w.Other.PubKey().Address()
				facts.propCons = false
			}
			first := txs[0]
			if mut.name != "honest" {
				first = w.BuildTx(w.ValPriv, TxOpt{Timeout: uint64(w.Height)}, &goattypes2.MsgNewEthBlock{Proposer: sdk.AccAddress(w.ValAddr).String(), Payload: p})
			}
			proposal := append([][]byte{first}, txs[1:]...)
			// engine answers at the end of the block
			np, fc := "", ""
			if r.Chance(35) {
				k := kinds[r.Intn(len(kinds))]
				if r.Bool() {
					np = k
				} else {
					fc = k
					if k == "accepted" {
						fc = "syncing" // forkchoiceUpdated has no ACCEPTED answer
					}
				}
			}
			w.EL.mu.Lock()
			if np != "" {
				w.EL.faults[w.EL.ncall+1] = np
			}
			if fc != "" {
				w.EL.faults[w.EL.ncall+2] = fc
			}
			cF := len(w.EL.calls)
			w.EL.mu.Unlock()
			consHash := w.blockHash()
			markCurrent(map[string]any{"kind": "chain-block", "mutation": mut.name, "structural": structural, "height": w.Height, "np": np, "fc": fc})
			fr, err := w.Finalize(proposal, proposer)
			clearCurrent()
			w.EL.mu.Lock()
			w.EL.faults = map[int]string{}
			calls := append([]elCall{}, w.EL.calls[cF:]...)
			w.EL.mu.Unlock()
			committed := err == nil
			code0 := uint32(999)
			if committed {
				if len(fr.TxResults) > 0 {
					code0 = fr.TxResults[0].Code
				}
				w.Commit()
			} else {
				w.Reopen() // nothing of a failed FinalizeBlock persists
			}
			after := w.chainHead()
			npC, fcC := "None", "None"
			for _, c := range calls {
				if c.Method == "newPayload" && npC == "None" {
					npC = fmt.Sprintf("(Some (%s, %d))", cB(common.HexToHash(c.Head).Bytes()), c.Number)
				}
				if c.Method == "forkchoice" && fcC == "None" {
					fcC = fmt.Sprintf("(Some (%s, %s, %s))", cB(common.HexToHash(c.Head).Bytes()), cB(common.HexToHash(c.Safe).Bytes()), cB(common.HexToHash(c.Final).Bytes()))
				}
			}
			cb := fmt.Sprintf("(mkCB %s %s %d %d %s %s %s %s %s %s)", cB(p.BlockHash), cB(p.ParentHash), p.BlockNumber, p.BlobGasUsed, cB(p.BeaconRoot), cB(consHash),
				cBool(facts.propCons && facts.recip), cBool(facts.dequeue && facts.reqDec && facts.sub), ans[np], ans[fc])
			obs := cTuple(cB(after.Hash), cB(after.Parent), fmt.Sprint(after.Number), cB(after.Beacon), npC, fcC)
			blocks = append(blocks, cTuple(cb, obs))
			recs = append(recs, map[string]any{"mutation": mut.name, "structural": structural, "np": np, "fc": fc, "committed": committed, "code0": code0,
				"head_after": fmt.Sprintf("%x", after.Hash), "number_after": after.Number, "engine_calls": calls})
			st.Ops++
			st.Count("chain:" + mut.name)
			st.Count(fmt.Sprintf("chain:committed=%v", committed))
			if np != "" || fc != "" {
				st.Count("chain:fault:" + np + "/" + fc)
			}
			key := mut.name + structural + np + "/" + fc
			if !seen[key] {
				seen[key] = true
				st.Distinct++
			}
		}
		w.Close()
		cases = append(cases, finalizeIDs(cTuple(cB(h0.Hash), cB(h0.Parent), fmt.Sprint(h0.Number), cB(h0.Beacon), cList(blocks))))
		replays = append(replays, map[string]any{"family": "chain", "case": ci, "blocks": recs})
		st.Sample(map[string]any{"case": ci, "blocks": firstNAny(recs, 3)})
	}
	return cases, replays
}

func firstNAny(l []map[string]any, n int) []map[string]any {
	if len(l) > n {
		return l[:n]
	}
	return l
}
