package main

// Family "replicas" (C07): the same block history is executed on three instances of the real
// application.  Replica A proposes; B and C check and finalise A's proposal; C additionally is
// stopped between FinalizeBlock and Commit at scripted blocks, reloads its state from disk and
// finalises the block again.  Application hash, per-transaction codes and gas, the SET of validator
// updates and the engine calls of the finalisation must coincide.  Go randomises map iteration per
// loop, so map-order dependence shows up as a difference between replicas.

import (
	"encoding/json"
	"fmt"
	"math/big"
	"os"
	"sort"
	"strings"

	"github.com/btcsuite/btcd/btcec/v2"
	"github.com/btcsuite/btcd/btcutil"
	"github.com/cosmos/cosmos-sdk/crypto/keys/secp256k1"
	"github.com/ethereum/go-ethereum/common"
	"github.com/ethereum/go-ethereum/core/types/goattypes"
)

func init() {
	families["replicas"] = &Family{Requires: "Cases.ReplicaRun", CaseType: "rcase", Run: runReplicas}
}

type repLock struct {
	V   int    `json:"v"` // index into Extra, 9 = genesis validator, -1 = unknown validator
	T   int    `json:"t"` // 0 = btc, 1 = unknown token
	Amt string `json:"amt"`
}
type repUnlock struct {
	V   int    `json:"v"`
	Amt string `json:"amt"`
	ID  uint64 `json:"id"`
}
type repBlock struct {
	Creates []int       `json:"creates,omitempty"`
	Locks   []repLock   `json:"locks,omitempty"`
	Unlocks []repUnlock `json:"unlocks,omitempty"`
	Gas     int64       `json:"gas"`
	Restart bool        `json:"restart,omitempty"`
}

type repObs struct {
	AppHash string   `json:"app_hash"`
	Codes   []uint32 `json:"codes"`
	Gas     []int64  `json:"gas"`
	Updates []string `json:"updates"` // sorted
	Calls   []string `json:"calls"`
	Err     string   `json:"err,omitempty"`
	rawUpd  []string
}

func valIdentity(k *secp256k1.PrivKey) (addr common.Address, pub64 [64]byte) {
	pub33 := k.PubKey().Bytes()
	p, err := btcec.ParsePubKey(pub33)
	mustNoErr(err)
	copy(pub64[:], p.SerializeUncompressed()[1:])
	addr = common.BytesToAddress(btcutil.Hash160(pub33))
	return
}

// validators of this family: keys without a genesis account (a validator whose account already
// exists is created Inactive)
func repKey(w *World, i int) *secp256k1.PrivKey {
	return secp256k1.GenPrivKeyFromSecret([]byte(fmt.Sprintf("repval-%d-%x", i, w.ValAddr)))
}

func (w *World) repRequests(b repBlock) goattypes.LockingRequests {
	q := goattypes.LockingRequests{Gas: []*goattypes.GasRequest{goattypes.NewGasRequest(uint64(w.Height), big.NewInt(b.Gas))}}
	who := func(v int) common.Address {
		switch {
		case v == 9:
			a, _ := valIdentity(w.ValPriv)
			return a
		case v >= 0 && v < 3:
			a, _ := valIdentity(repKey(w, v))
			return a
		}
		return common.BytesToAddress(sha256Sum([]byte(fmt.Sprintf("nobody-%d", v)))[:20])
	}
	for _, c := range b.Creates {
		a, pk := valIdentity(repKey(w, c))
		q.Creates = append(q.Creates, &goattypes.CreateRequest{Validator: a, Pubkey: pk})
	}
	tok := func(t int) common.Address {
		if t == 0 {
			return common.Address{}
		}
		return common.BytesToAddress([]byte("unknown-token"))
	}
	for _, l := range b.Locks {
		amt, _ := new(big.Int).SetString(l.Amt, 10)
		q.Locks = append(q.Locks, &goattypes.LockRequest{Validator: who(l.V), Token: tok(l.T), Amount: amt})
	}
	for _, u := range b.Unlocks {
		amt, _ := new(big.Int).SetString(u.Amt, 10)
		q.Unlocks = append(q.Unlocks, &goattypes.UnlockRequest{Id: u.ID, Validator: who(u.V), Recipient: common.BytesToAddress([]byte("recipient")), Token: common.Address{}, Amount: amt})
	}
	return q
}

func (w *World) finalizeObs(txs [][]byte, proposer []byte) *repObs {
	w.EL.mu.Lock()
	c0 := len(w.EL.calls)
	w.EL.mu.Unlock()
	o := &repObs{}
	fr, err := w.Finalize(txs, proposer)
	if err != nil {
		o.Err = err.Error()
		return o
	}
	o.AppHash = fmt.Sprintf("%x", fr.AppHash)
	for _, r := range fr.TxResults {
		o.Codes = append(o.Codes, r.Code)
		o.Gas = append(o.Gas, r.GasUsed)
	}
	for _, u := range fr.ValidatorUpdates {
		o.rawUpd = append(o.rawUpd, fmt.Sprintf("%x:%d", u.PubKey.GetSecp256K1(), u.Power))
	}
	o.Updates = append([]string{}, o.rawUpd...)
	sort.Strings(o.Updates)
	w.EL.mu.Lock()
	for _, c := range w.EL.calls[c0:] {
		o.Calls = append(o.Calls, fmt.Sprintf("%s head=%s safe=%s n=%d", c.Method, c.Head, c.Safe, c.Number))
	}
	w.EL.mu.Unlock()
	return o
}

func obsKey(o *repObs) string {
	js, _ := json.Marshal(o)
	return string(js)
}

func coqUpdates(us []string) string {
	parts := make([]string, len(us))
	for i, u := range us {
		kv := strings.SplitN(u, ":", 2)
		parts[i] = "(@P:" + kv[0] + "@, " + kv[1] + ")"
	}
	return "[" + strings.Join(parts, "; ") + "]"
}

func runReplicas(rng *Rng, n int, st *Stats, param string) ([]string, []any) {
	var cases []string
	var replays []any
	blocksPer := 7
	one18 := new(big.Int).Exp(big.NewInt(10), big.NewInt(18), nil)
	for ci := 0; len(cases) < n; ci++ {
		r := rng.Fork(uint64(ci))
		seed := fmt.Sprintf("rp-%d", r.Intn(100000))
		// ---- script
		var script []repBlock
		created := map[int]bool{}
		nextID := uint64(1)
		for b := 0; b < blocksPer; b++ {
			blk := repBlock{Gas: int64(r.Intn(5000))}
			for v := 0; v < 3; v++ {
				if !created[v] && r.Chance(60) {
					blk.Creates = append(blk.Creates, v)
					created[v] = true
				}
			}
			nl := r.Intn(5)
			for i := 0; i < nl; i++ {
				l := repLock{V: r.Intn(3), T: 0, Amt: new(big.Int).Mul(big.NewInt(int64(1+r.Intn(30))), one18).String()}
				if r.Chance(12) {
					l.V = 9
				}
				if !created[l.V] && !r.Chance(10) {
					continue
				}
				if r.Chance(7) {
					l.V = -1 - r.Intn(2) // unknown validator: the whole Lock call fails
				}
				if r.Chance(3) {
					l.T = 1 // unknown token: fails after partial work
				}
				blk.Locks = append(blk.Locks, l)
			}
			if b >= 2 {
				nu := r.Intn(3)
				for i := 0; i < nu; i++ {
					amt := new(big.Int).Mul(big.NewInt(int64(1+r.Intn(40))), one18)
					if r.Chance(40) {
						amt = new(big.Int).Mul(big.NewInt(1000), one18) // more than held: unlock everything -> leaves the set
					}
					uv := r.Intn(3)
					if !created[uv] && !r.Chance(5) {
						continue
					}
					blk.Unlocks = append(blk.Unlocks, repUnlock{V: uv, Amt: amt.String(), ID: nextID})
					nextID++
				}
			}
			blk.Restart = b > 0 && r.Chance(30) // before the first commit CometBFT would replay InitChain instead
			script = append(script, blk)
		}
		// ---- three replicas
		A := NewWorld(seed, false, nil)
		B := NewWorld(seed, false, nil)
		C := NewWorld(seed, true, nil)
		worlds := []*World{A, B, C}
		var blockCases []string
		diverged := false
		for bi, blk := range script {
			if diverged {
				break
			}
			st.Ops++
			A.EL.mu.Lock()
			A.EL.nextReqs = encodeRequests(goattypes.BridgeRequests{}, goattypes.RelayerRequests{}, A.repRequests(blk))
			A.EL.mu.Unlock()
			txs, perr := A.Prepare(nil)
			if perr != "" || len(txs) == 0 {
				st.Count("prepare-failed")
				break
			}
			okAll := true
			for wi, w := range worlds {
				if s := w.Process(txs, A.ValAddr); s != "ACCEPT" {
					st.Count("process-" + s)
					if wi > 0 {
						st.Violate("C07", "replica-verdict", "process-verdict", fmt.Sprintf("replica %d answers %s to the proposal replica A accepted", wi, s),
							map[string]any{"seed": seed, "script": script, "block": bi})
					}
					okAll = false
				}
				w.EL.mu.Lock()
				w.EL.faults = map[int]string{}
				w.EL.mu.Unlock()
			}
			if !okAll {
				break
			}
			obs := make([]*repObs, 3)
			obs[0] = A.finalizeObs(txs, A.ValAddr)
			if ci == 0 && bi == 1 {
				// replica B's execution client is loaded: every answer of this block is correct but takes 0.8 s
				B.EL.mu.Lock()
				for k := 1; k <= 4; k++ {
					B.EL.faults[B.EL.ncall+k] = "slow"
				}
				B.EL.mu.Unlock()
				st.Count("slow-engine-on-one-replica")
			}
			obs[1] = B.finalizeObs(txs, A.ValAddr)
			B.EL.mu.Lock()
			B.EL.faults = map[int]string{}
			B.EL.mu.Unlock()
			if blk.Restart {
				first := C.finalizeObs(txs, A.ValAddr)
				C.Reopen()
				obs[2] = C.finalizeObs(txs, A.ValAddr)
				st.Count("restart-between-finalize-and-commit")
				st.Chk("C07-reexecution-after-restart")
				if obsKey(first) != obsKey(obs[2]) {
					st.Violate("C07", "reexecution", "restart-reexecution", fmt.Sprintf("block %d: finalising again after a restart gives a different result: %s vs %s", bi, obsKey(first), obsKey(obs[2])),
						map[string]any{"seed": seed, "script": script, "block": bi, "first": first, "second": obs[2]})
				}
			} else {
				obs[2] = C.finalizeObs(txs, A.ValAddr)
			}
			st.Chk("C07-replicas-agree")
			for wi := 1; wi < 3; wi++ {
				if obsKey(obs[0]) != obsKey(obs[wi]) {
					key := "replica-divergence"
					switch {
					case fmt.Sprint(obs[0].Gas) != fmt.Sprint(obs[wi].Gas):
						key = "gas-divergence"
					case fmt.Sprint(obs[0].Codes) != fmt.Sprint(obs[wi].Codes):
						key = "code-divergence"
					case obs[0].AppHash != obs[wi].AppHash:
						key = "apphash-divergence"
					}
					st.Violate("C07", "replicas", key, fmt.Sprintf("block %d differs between replica A and replica %d: %s vs %s", bi, wi, obsKey(obs[0]), obsKey(obs[wi])),
						map[string]any{"seed": seed, "script": script, "block": bi, "A": obs[0], "other": obs[wi]})
					diverged = true
				}
			}
			if obs[0].Err != "" {
				st.Count("finalize-error: " + obs[0].Err); if os.Getenv("AH_DEBUG") != "" { js, _ := json.Marshal(script[:bi+1]); fmt.Fprintln(os.Stderr, "FINALIZE-ERR", seed, bi, string(js)) }
				break
			}
			for i, c := range obs[0].Codes {
				if c != 0 {
					st.Count(fmt.Sprintf("tx%d-failed", i))
				}
			}
			if len(obs[0].rawUpd) == 1 {
				st.Count("blocks-with-1-validator-update")
			}
			if len(obs[0].rawUpd) >= 2 {
				st.Count("blocks-with-2+-validator-updates")
			}
			nrem := 0
			for _, u := range obs[0].rawUpd {
				if strings.HasSuffix(u, ":0") {
					nrem++
				}
			}
			if nrem >= 2 {
				st.Count("blocks-with-2+-removals")
			}
			if fmt.Sprint(obs[0].rawUpd) != fmt.Sprint(obs[1].rawUpd) || fmt.Sprint(obs[0].rawUpd) != fmt.Sprint(obs[2].rawUpd) {
				st.Count("blocks-where-update-order-differs-between-replicas")
			}
			if len(blk.Locks) >= 2 {
				st.Count("blocks-with-2+-locks")
			}
			blockCases = append(blockCases, cTuple(coqUpdates(obs[0].rawUpd), coqUpdates(obs[1].rawUpd), coqUpdates(obs[2].rawUpd)))
			for _, w := range worlds {
				w.Commit()
			}
		}
		for _, w := range worlds {
			w.Close()
		}
		cases = append(cases, finalizeIDs("RCase "+cList(blockCases)))
		replays = append(replays, map[string]any{"seed": seed, "script": script})
		st.Sample(map[string]any{"seed": seed, "script": script})
	}
	return cases, replays
}
