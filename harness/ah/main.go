package main

import (
	abci "github.com/cometbft/cometbft/abci/types"
	"encoding/json"
	"flag"
	"fmt"
	"os"
	"path/filepath"
	"sort"

	"github.com/ethereum/go-ethereum/core/types/goattypes"
)

func main() {
	if len(os.Args) < 2 {
		fmt.Fprintln(os.Stderr, "usage: ah <family|smoke|registry> [-seed S] [-n N] [-out DIR] [-shards K] [-param P]")
		os.Exit(2)
	}
	switch os.Args[1] {
	case "smoke":
		w := NewWorld("smoke", false, nil)
		defer w.Close()
		for i := 0; i < 4; i++ {
			r := w.HonestBlock(nil, gasReq(w.Height, 1000), goattypes.BridgeRequests{}, goattypes.RelayerRequests{})
			r.PrepareTxs = nil
			js, _ := json.Marshal(r)
			fmt.Println(string(js))
		}
		return
	case "smoke2":
		w := NewWorld("smoke", false, nil)
		defer w.Close()
		w.HonestBlock(nil, gasReq(w.Height, 1000), goattypes.BridgeRequests{}, goattypes.RelayerRequests{})
		for i := 0; i < 3; i++ {
			q := gasReq(w.Height, 5)
			va, _ := valIdentity(w.ValPriv)
			q.Claims = append(q.Claims, &goattypes.ClaimRequest{Id: uint64(i), Validator: va, Recipient: va})
			btx := w.blockHashesTx()
			cr, cerr := w.App.CheckTx(&abci.RequestCheckTx{Tx: btx, Type: abci.CheckTxType_New})
			fmt.Printf("checktx %d %v %T count=%d gaswanted=%d\n", cr.GetCode(), cerr, w.App.Mempool(), w.App.Mempool().CountTx(), cr.GetGasWanted())
			r := w.HonestBlock([][]byte{btx}, q, goattypes.BridgeRequests{}, goattypes.RelayerRequests{})
			blk := w.decodeEthBlock(r.PrepareTxs[0])
			fmt.Println("height", w.Height-1, "ntx", len(r.PrepareTxs), "codes", r.TxCodes, "extra0", blk.Payload.ExtraData[0], "elTxs", len(blk.Payload.Transactions), r.Process, r.FinalizeErr)
		}
		return
	case "registry":
		out := "/verif/coq/Gen/Registry.v"
		if len(os.Args) > 2 {
			out = os.Args[2]
		}
		writeRegistry(out)
		return
	}
	famName := os.Args[1]
	fs := flag.NewFlagSet("ah", flag.ExitOnError)
	seed := fs.Uint64("seed", 1, "seed")
	n := fs.Int("n", 100, "number of cases")
	out := fs.String("out", "/verif/work/"+famName, "output dir")
	shards := fs.Int("shards", 1, "number of cases_k.v files")
	param := fs.String("param", "", "family-specific parameter")
	_ = fs.Parse(os.Args[2:])
	fam, ok := families[famName]
	if !ok {
		names := []string{}
		for k := range families {
			names = append(names, k)
		}
		sort.Strings(names)
		fmt.Fprintln(os.Stderr, "unknown family; have:", names)
		os.Exit(2)
	}
	st := &Stats{Family: famName, Seed: *seed, Dist: map[string]int{}, KnownChecks: map[string]int{}, Shards: *shards, Violations: []Violation{}, Samples: []any{}}
	fuzzOutDir = *out
	_ = os.MkdirAll(*out, 0o755)
	cases, replays := fam.Run(NewRng(*seed), *n, st, *param)
	st.Cases = len(cases)
	if err := writeCases(*out, fam, cases, replays, *shards); err != nil {
		fmt.Fprintln(os.Stderr, err)
		os.Exit(3)
	}
	js, _ := json.MarshalIndent(st, "", " ")
	if err := os.WriteFile(filepath.Join(*out, "stats.json"), js, 0o644); err != nil {
		fmt.Fprintln(os.Stderr, err)
		os.Exit(3)
	}
	fmt.Printf("family=%s cases=%d ops=%d violations=%d\n", famName, len(cases), st.Ops, len(st.Violations))
}
