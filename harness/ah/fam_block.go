package main

// Families "goatblock" (C08: honest proposals accepted; accepted proposals well-formed) and
// "faults" (C09: engine faults at every call of proposing / checking / finalising).

import (
	"bytes"
	"fmt"
	"math/big"
	"strings"
	"time"

	abci "github.com/cometbft/cometbft/abci/types"
	sdk "github.com/cosmos/cosmos-sdk/types"
	"github.com/ethereum/go-ethereum/beacon/engine"
	cmtproto "github.com/cometbft/cometbft/proto/tendermint/types"
	"github.com/ethereum/go-ethereum/common"
	"github.com/ethereum/go-ethereum/core/types/goattypes"
	bitcointypes "github.com/goatnetwork/goat/x/bitcoin/types"
	goattypes2 "github.com/goatnetwork/goat/x/goat/types"
)

func init() {
	families["goatblock"] = &Family{Requires: "Model.GoatBlock Cases.BlockRun", CaseType: "gcase", Run: runGoatBlock}
	families["faults"] = &Family{Requires: "Model.GoatBlock Cases.FaultRun", CaseType: "fcase", Run: runFaults}
}

func payloadHash(p *goattypes2.ExecutionPayload) []byte {
	d := goattypes2.PayloadToExecutableData(clonePayload(p))
	h := blockHashOf(d, p.Requests)
	numberOf[h] = p.BlockNumber
	return h.Bytes()
}

func clonePayload(p *goattypes2.ExecutionPayload) *goattypes2.ExecutionPayload {
	q := *p
	q.Transactions = append([][]byte{}, p.Transactions...)
	if q.Transactions == nil {
		q.Transactions = [][]byte{}
	}
	q.ExtraData = append([]byte{}, p.ExtraData...)
	q.Requests = append([][]byte{}, p.Requests...)
	return &q
}

// decodeEthBlock extracts the MsgNewEthBlock of the first proposal transaction.
func (w *World) decodeEthBlock(raw []byte) *goattypes2.MsgNewEthBlock {
	tx, err := w.TxCfg.TxDecoder()(raw)
	if err != nil {
		return nil
	}
	for _, m := range tx.GetMsgs() {
		if b, ok := m.(*goattypes2.MsgNewEthBlock); ok {
			return b
		}
	}
	return nil
}

func (w *World) blockHashesTx() []byte {
	msg := mkMsg(w, "goat.bitcoin.v1.MsgNewBlockHashes", w.RelAddr)
	return w.BuildTx(w.RelPriv, TxOpt{}, msg)
}

type blockMut struct {
	name string
	// facts (all true / gas=1 unless changed)
	apply func(w *World, p *goattypes2.ExecutionPayload, f *pfactsGo)
}

type pfactsGo struct {
	propCons, recip, ts, parent, number, reqDec bool
	gas                                          int
	beacon, dequeue, engine, blob, sub           bool
}

func (f pfactsGo) coq() string {
	return fmt.Sprintf("(mkPF %s %s %s %s %s %s %d %s %s %s %s %s)", cBool(f.propCons), cBool(f.recip), cBool(f.ts), cBool(f.parent), cBool(f.number),
		cBool(f.reqDec), f.gas, cBool(f.beacon), cBool(f.dequeue), cBool(f.engine), cBool(f.blob), cBool(f.sub))
}

var blockMuts = []blockMut{
	{"honest", func(w *World, p *goattypes2.ExecutionPayload, f *pfactsGo) {}},
	{"honest", func(w *World, p *goattypes2.ExecutionPayload, f *pfactsGo) {}},
	{"wrong-parent", func(w *World, p *goattypes2.ExecutionPayload, f *pfactsGo) { p.ParentHash = sha256Sum([]byte("x")); f.parent = false }},
	{"wrong-number", func(w *World, p *goattypes2.ExecutionPayload, f *pfactsGo) { p.BlockNumber += 1; f.number = false }},
	{"number-minus", func(w *World, p *goattypes2.ExecutionPayload, f *pfactsGo) { p.BlockNumber -= 1; f.number = false }},
	{"wrong-recipient", func(w *World, p *goattypes2.ExecutionPayload, f *pfactsGo) {
		p.FeeRecipient = w.Other.PubKey().Address()
		f.recip = false
	}},
	{"future-timestamp", func(w *World, p *goattypes2.ExecutionPayload, f *pfactsGo) {
		p.Timestamp = uint64(time.Now().Unix()) + 3600
		f.ts = false
	}},
	{"wrong-beacon", func(w *World, p *goattypes2.ExecutionPayload, f *pfactsGo) { p.BeaconRoot = sha256Sum([]byte("b")); f.beacon = false }},
	{"extra-count-off", func(w *World, p *goattypes2.ExecutionPayload, f *pfactsGo) { p.ExtraData[0]++; f.dequeue = false }},
	{"extra-short", func(w *World, p *goattypes2.ExecutionPayload, f *pfactsGo) { p.ExtraData = p.ExtraData[:32]; f.dequeue = false }},
	{"systx-tampered", func(w *World, p *goattypes2.ExecutionPayload, f *pfactsGo) {
		if p.ExtraData[0] > 0 && len(p.Transactions) > 0 {
			t := append([]byte{}, p.Transactions[0]...)
			t[len(t)-1] ^= 1
			p.Transactions[0] = t
			f.dequeue = false
		}
	}},
	{"systx-dropped", func(w *World, p *goattypes2.ExecutionPayload, f *pfactsGo) {
		if p.ExtraData[0] > 0 && len(p.Transactions) > 0 {
			p.Transactions = p.Transactions[1:]
			f.dequeue = false
		}
	}},
	{"systx-keep-first-only", func(w *World, p *goattypes2.ExecutionPayload, f *pfactsGo) {
		if p.ExtraData[0] > 1 && len(p.Transactions) > 1 {
			p.Transactions = p.Transactions[:1]
			f.dequeue = false
		}
	}},
	{"systx-drop-last", func(w *World, p *goattypes2.ExecutionPayload, f *pfactsGo) {
		if n := int(p.ExtraData[0]); n > 0 && len(p.Transactions) >= n {
			p.Transactions = append(append([][]byte{}, p.Transactions[:n-1]...), p.Transactions[n:]...)
			f.dequeue = false
		}
	}},
	{"systx-drop-last-and-announce-fewer", func(w *World, p *goattypes2.ExecutionPayload, f *pfactsGo) {
		if n := int(p.ExtraData[0]); n > 0 && len(p.Transactions) >= n {
			p.Transactions = append(append([][]byte{}, p.Transactions[:n-1]...), p.Transactions[n:]...)
			p.ExtraData = append([]byte{}, p.ExtraData...)
			p.ExtraData[0]--
			f.dequeue = false
		}
	}},
	{"systx-drop-first-and-announce-fewer", func(w *World, p *goattypes2.ExecutionPayload, f *pfactsGo) {
		if n := int(p.ExtraData[0]); n > 0 && len(p.Transactions) >= n {
			p.Transactions = p.Transactions[1:]
			p.ExtraData = append([]byte{}, p.ExtraData...)
			p.ExtraData[0]--
			f.dequeue = false
		}
	}},
	{"systx-invented", func(w *World, p *goattypes2.ExecutionPayload, f *pfactsGo) {
		p.Transactions = append([][]byte{{0x60, 0xc0}}, p.Transactions...)
		p.ExtraData[0]++
		f.dequeue = false
	}},
	{"systx-invented-after-the-due-ones", func(w *World, p *goattypes2.ExecutionPayload, f *pfactsGo) {
		// the due system transactions stay in front, byte for byte; one more is announced and inserted behind them
		n := int(p.ExtraData[0])
		if len(p.Transactions) >= n {
			txs := append([][]byte{}, p.Transactions[:n]...)
			txs = append(txs, []byte{0x60, 0xc1})
			p.Transactions = append(txs, p.Transactions[n:]...)
			p.ExtraData = append([]byte{}, p.ExtraData...)
			p.ExtraData[0]++
			f.dequeue = false
		}
	}},
	{"user-tx-appended", func(w *World, p *goattypes2.ExecutionPayload, f *pfactsGo) {
		p.Transactions = append(p.Transactions, []byte{0x02, 0x01}) // ordinary EL transactions after the system txs are fine
	}},
	{"blob-gas", func(w *World, p *goattypes2.ExecutionPayload, f *pfactsGo) { p.BlobGasUsed = 1; f.blob = false }},
	{"two-gas-requests", func(w *World, p *goattypes2.ExecutionPayload, f *pfactsGo) {
		l := goattypes.LockingRequests{Gas: []*goattypes.GasRequest{goattypes.NewGasRequest(1, big.NewInt(1)), goattypes.NewGasRequest(1, big.NewInt(2))}}
		p.Requests = l.Encode()
		f.gas = 2
		f.sub = false // the reward-pool update of the block message wants exactly one gas request as well
	}},
	{"no-gas-request", func(w *World, p *goattypes2.ExecutionPayload, f *pfactsGo) { p.Requests = nil; f.gas = 0; f.sub = false }},
	{"undecodable-requests", func(w *World, p *goattypes2.ExecutionPayload, f *pfactsGo) {
		p.Requests = [][]byte{{0x63, 0x01, 0x02}} // unknown request type (goat-geth accepts truncated bodies of known types)
		f.reqDec = false
		f.gas = 0
	}},
	{"lock-unknown-validator", func(w *World, p *goattypes2.ExecutionPayload, f *pfactsGo) {
		l := gasReq(1, 1)
		l.Locks = []*goattypes.LockRequest{{Validator: common.HexToAddress("0xdead"), Token: common.Address{}, Amount: big.NewInt(5)}}
		p.Requests = l.Encode()
		f.sub = false
	}},
	{"engine-invalid", func(w *World, p *goattypes2.ExecutionPayload, f *pfactsGo) { f.engine = false }},
}

func runGoatBlock(rng *Rng, n int, st *Stats, param string) ([]string, []any) {
	var cases []string
	var replays []any
	seen := map[string]bool{}
	forced := strings.Contains(param, "forced")
	var w *World
	fresh := func() {
		if w != nil {
			w.Close()
		}
		w = NewWorld(fmt.Sprintf("gb-%d", rng.Intn(1000)), forced, nil)
		if forced { // a restart needs one committed block
			w.HonestBlock(nil, gasReq(w.Height, 1), goattypes.BridgeRequests{}, goattypes.RelayerRequests{})
		}
	}
	fresh()
	defer func() { w.Close() }()
	for ci := 0; len(cases) < n; ci++ {
		r := rng.Fork(uint64(ci))
		if ci%25 == 24 {
			fresh()
		}
		// honest filler block, sometimes voting a bitcoin hash so that a system tx is due in the next payload
		var mem [][]byte
		if r.Chance(60) {
			mem = append(mem, w.blockHashesTx())
		}
		fillReq := gasReq(w.Height, int64(r.Intn(1000)))
		if r.Chance(55) { // a claim: the locking module has a transaction to hand over in the next payload as well
			va, _ := valIdentity(w.ValPriv)
			fillReq.Claims = append(fillReq.Claims, &goattypes.ClaimRequest{Id: uint64(ci), Validator: va, Recipient: common.BytesToAddress([]byte("claimer"))})
		}
		if r.Chance(10) { // a full mempool: 20 admissible relayer transactions
			mem = nil
			for i := 0; i < 20; i++ {
				mem = append(mem, w.BuildTx(w.RelPriv, TxOpt{SeqOff: i, CheckState: true}, mkMsg(w, "goat.bitcoin.v1.MsgNewDeposits", w.RelAddr)))
			}
			st.Count("honest-block-with-full-mempool")
		}
		markCurrent(map[string]any{"kind": "honest-block", "height": w.Height, "mempool": len(mem)})
		fill := w.HonestBlock(mem, fillReq, goattypes.BridgeRequests{}, goattypes.RelayerRequests{})
		clearCurrent()
		if len(fill.PrepareTxs) == 16 {
			st.Count("honest-proposal-at-the-16-tx-cap")
		}
		st.Chk("C08-honest")
		if fill.Process != "ACCEPT" || len(fill.TxCodes) == 0 || fill.TxCodes[0] != 0 || len(fill.PrepareTxs) > 16 {
			st.Violate("C08", "honest", "honest-rejected", fmt.Sprintf("an honest proposal was not accepted / its block message failed: process=%s codes=%v err=%s%s", fill.Process, fill.TxCodes, fill.PrepareErr, fill.FinalizeErr), map[string]any{"height": w.Height})
			// for block processing as a whole: every honest proposer's block is refused, the chain does not advance
			st.Violate("C19", "liveness", "honest-proposal-rejected", fmt.Sprintf("block processing halts: the honest proposal for height %d (%d transactions, mempool %d) is refused: process=%s codes=%v err=%s%s", w.Height, len(fill.PrepareTxs), len(mem), fill.Process, fill.TxCodes, fill.PrepareErr, fill.FinalizeErr),
				map[string]any{"height": w.Height, "mempool_txs": len(mem), "proposal_txs": len(fill.PrepareTxs)})
			fresh()
			continue
		}
		// the proposal under test
		mut := blockMuts[r.Intn(len(blockMuts))]
		mempool := [][]byte{}
		nmem := r.Intn(4)
		var extra []string // ptx descriptors of the mempool txs that made it into the proposal
		for i := 0; i < nmem; i++ {
			switch r.Intn(5) {
			case 3: // admissible when it was checked, expired at the proposed height: evicted, not proposed
				mempool = append(mempool, w.BuildTx(w.RelPriv, TxOpt{Timeout: uint64(w.Height - 1)}, mkMsg(w, "goat.bitcoin.v1.MsgNewBlockHashes", w.RelAddr)))
				st.Count("mempool:tx-expiring-at-the-proposed-height")
			case 4: // the relayer proposer broadcasts an execution-block message of its own: never admitted to the mempool
				mempool = append(mempool, w.BuildTx(w.RelPriv, TxOpt{Timeout: uint64(w.Height)}, &goattypes2.MsgNewEthBlock{Proposer: sdk.AccAddress(w.RelPriv.PubKey().Address()).String(), Payload: clonePayload(w.decodeEthBlock(fill.PrepareTxs[0]).Payload)}))
				st.Count("mempool:block-message-signed-by-the-relayer-proposer")
			case 0:
				if i == 0 {
					mempool = append(mempool, w.blockHashesTx())
				}
			case 1: // foreign signer: never admitted to the mempool
				mempool = append(mempool, w.BuildTx(w.Other, TxOpt{}, &bitcointypes.MsgNewDeposits{Proposer: sdk.AccAddress(w.Other.PubKey().Address()).String()}))
			case 2: // stale sequence
				mempool = append(mempool, w.BuildTx(w.RelPriv, TxOpt{SeqOff: -1}, mkMsg(w, "goat.bitcoin.v1.MsgNewBlockHashes", w.RelAddr)))
			}
		}
		for _, m := range mempool {
			w.App.CheckTx((&abciCheck{Tx: m}).req())
		}
		w.EL.mu.Lock()
		w.EL.nextReqs = encodeRequests(goattypes.BridgeRequests{}, goattypes.RelayerRequests{}, gasReq(w.Height, 7))
		c0 := w.EL.ncall
		w.EL.mu.Unlock()
		txs, perr := w.Prepare(mempool)
		if len(txs) == 0 {
			st.Violate("C08", "honest", "prepare-empty", "PrepareProposal produced no proposal on a well-behaved engine: "+perr, nil)
			fresh()
			continue
		}
		blk := w.decodeEthBlock(txs[0])
		if blk.Payload != nil && len(blk.Payload.ExtraData) > 0 {
			st.Count(fmt.Sprintf("payload-with-%d-system-txs", blk.Payload.ExtraData[0]))
		}
		// C08 (race clause): the payload is shared by the two goroutines of verifyEthBlockProposal; the
		// conversion used by one of them must leave it untouched (a decoded payload without transactions
		// has Transactions == nil)
		{
			st.Chk("C08-shared-payload-untouched")
			q := clonePayload(blk.Payload)
			q.Transactions = nil
			before, _ := q.Marshal()
			wasNil := q.Transactions == nil
			_ = goattypes2.PayloadToExecutableData(q)
			after, _ := q.Marshal()
			if !bytes.Equal(before, after) || wasNil != (q.Transactions == nil) {
				st.Violate("C08", "shared-payload", "payload-mutated-by-conversion",
					"PayloadToExecutableData wrote to the payload it converts (Transactions nil -> empty slice) while verifyEthBlockProposal's other goroutine reads payload.Transactions: data race on a proposal without transactions",
					map[string]any{"height": w.Height, "payload_transactions": "nil"})
			}
		}
		facts := pfactsGo{true, true, true, true, true, true, 1, true, true, true, true, true}
		if blk.Payload != nil && len(blk.Payload.ExtraData) > 0 && blk.Payload.ExtraData[0] >= 2 && r.Chance(55) {
			// both modules hand over a transaction in this payload: concentrate on the system-transaction mutations
			var sys []blockMut
			for _, m := range blockMuts {
				if strings.HasPrefix(m.name, "systx-") || strings.HasPrefix(m.name, "extra-") {
					sys = append(sys, m)
				}
			}
			mut = sys[r.Intn(len(sys))]
		}
		p := clonePayload(blk.Payload)
		mut.apply(w, p, &facts)
		if mut.name != "honest" {
			p.BlockHash = payloadHash(p)
		}
		// the real inputs of VerifyDequeue: what the two modules hand over on the committed state (read on a
		// throw-away cache context), the payload's extra data and transactions
		dqCoq := "None"
		{
			cctx, _ := w.App.NewUncachedContext(false, cmtproto.Header{Height: w.App.LastBlockHeight(), Time: w.Now}).CacheContext()
			if due, err := w.App.GoatKeeper.Dequeue(cctx); err == nil {
				dueC := make([]string, len(due))
				for i, t := range due {
					dueC[i] = cB(t)
				}
				txC := make([]string, len(p.Transactions))
				for i, t := range p.Transactions {
					txC[i] = cB(t)
				}
				dqCoq = "(Some " + cTuple(cList(dueC), cB(p.ExtraData), cList(txC)) + ")"
			}
		}
		proposer := w.ValAddr
		signer := w.ValPriv
		msgProposer := sdk.AccAddress(w.ValAddr).String()
		ptx0 := "(mkPT true 1 true true true)"
		rest := txs[1:]
		structural := ""
		switch r.Intn(16) {
		case 0:
			structural = "other-consensus-proposer"
			proposer = w.Other.PubKey().Address()
			facts.propCons = false
		case 1:
			structural = "block-msg-by-other-account"
			signer = w.Other
			msgProposer = sdk.AccAddress(w.Other.PubKey().Address()).String()
			facts.propCons, facts.recip = false, false
		case 2:
			structural = "nil-payload"
		case 3:
			structural = "block-msg-twice-in-first-tx"
		case 4:
			// the envelope of the block transaction: the ante chain must refuse it in process mode
			structural = []string{"block-tx-with-memo", "block-tx-without-timeout", "block-tx-future-timeout", "block-tx-wrong-sequence", "block-tx-bad-signature"}[r.Intn(5)]
		}
		var first []byte
		blockMsg := &goattypes2.MsgNewEthBlock{Proposer: msgProposer, Payload: p}
		if mut.name == "honest" && structural == "" {
			first = txs[0]
		} else if structural == "nil-payload" {
			first = w.BuildTx(signer, TxOpt{Timeout: uint64(w.Height)}, &goattypes2.MsgNewEthBlock{Proposer: msgProposer})
			ptx0 = "(mkPT true 1 true true false)"
		} else if structural == "block-msg-twice-in-first-tx" {
			first = w.BuildTx(signer, TxOpt{Timeout: uint64(w.Height)}, blockMsg, blockMsg)
			ptx0 = "(mkPT true 2 true true true)"
		} else if strings.HasPrefix(structural, "block-tx-") {
			opt := TxOpt{Timeout: uint64(w.Height)}
			switch structural {
			case "block-tx-with-memo":
				opt.Memo = "hello"
			case "block-tx-without-timeout":
				opt.Timeout = 0
			case "block-tx-future-timeout":
				opt.Timeout = uint64(w.Height) + 1 + uint64(r.Intn(3))
			case "block-tx-wrong-sequence":
				opt.SeqOff = 1 + r.Intn(2)
			case "block-tx-bad-signature":
				opt.BadSig = true
			}
			first = w.BuildTx(signer, opt, blockMsg)
			ptx0 = "(mkPT false 1 true true true)"
		} else {
			first = w.BuildTx(signer, TxOpt{Timeout: uint64(w.Height)}, blockMsg)
		}
		proposal := append([][]byte{first}, rest...)
		var ptxs []string
		ptxs = append(ptxs, ptx0)
		for range rest {
			ptxs = append(ptxs, "(mkPT true 1 false false true)")
			extra = append(extra, "relayer-tx")
		}
		switch r.Intn(14) {
		case 0:
			structural += "+block-msg-twice"
			proposal = append(proposal, first)
			ptxs = append(ptxs, "(mkPT false 1 true true true)") // second copy fails the sequence check
		case 1:
			structural += "+relayer-tx-first"
			t := w.blockHashesTx()
			proposal = append([][]byte{t}, proposal...)
			ptxs = append([]string{"(mkPT true 1 false false true)"}, ptxs...)
		case 2:
			structural += "+empty"
			proposal, ptxs = nil, nil
		case 3:
			// the same signed relayer transaction twice: the copy must fail the account-sequence check
			if len(proposal) > 0 && len(proposal) < 15 {
				structural += "+relayer-tx-replayed"
				if len(rest) == 0 {
					t := w.blockHashesTx()
					proposal = append(proposal, t)
					ptxs = append(ptxs, "(mkPT true 1 false false true)")
				}
				proposal = append(proposal, proposal[len(proposal)-1])
				ptxs = append(ptxs, "(mkPT false 1 false false true)")
			}
		}
		if !facts.engine {
			w.EL.mu.Lock()
			w.EL.faults[w.EL.ncall+1] = "invalid"
			w.EL.mu.Unlock()
		}
		_ = c0
		if strings.Contains(structural, "nil-payload") {
			dqCoq = "None"
		}
		markCurrent(map[string]any{"kind": "proposal", "mutation": mut.name, "structural": structural, "height": w.Height, "proposal_txs": len(proposal)})
		res := w.Process(proposal, proposer)
		clearCurrent()
		w.EL.mu.Lock()
		w.EL.faults = map[int]string{}
		w.EL.mu.Unlock()
		accepted := res == "ACCEPT"
		desc := map[string]any{"mutation": mut.name, "structural": structural, "mempool": len(mempool), "proposal_txs": len(proposal), "process": res, "height": w.Height}
		st.Ops++
		st.Count("mut:" + mut.name)
		if structural != "" {
			st.Count("structural:" + structural)
		}
		st.Count(fmt.Sprintf("accepted=%v", accepted))
		key := mut.name + structural
		if !seen[key] {
			seen[key] = true
			st.Distinct++
		}
		st.Chk("C08-accept-sound")
		honest := mut.name == "honest" && structural == ""
		if honest && !accepted {
			st.Violate("C08", "honest", "honest-rejected", "an honest proposal (with mempool txs) was rejected: "+res, desc)
		}
		if accepted && !(facts.propCons && facts.recip && facts.ts && facts.parent && facts.number && facts.reqDec && facts.gas == 1 && facts.beacon && facts.dequeue && facts.engine) {
			st.Violate("C08", "accept-sound", "malformed-accepted:"+mut.name+structural, "a malformed proposal was accepted ("+mut.name+" "+structural+")", desc)
		}
		if accepted && strings.Contains(structural, "block-msg-twice-in-first-tx") {
			st.Violate("C08", "accept-sound", "block-msg-not-alone-accepted", "a proposal whose first transaction carries the execution-block message twice was accepted", desc)
		}
		if accepted && strings.Contains(structural, "+relayer-tx-replayed") {
			st.Violate("C10", "process-admission", "replayed-tx-accepted", "a proposal carrying the same signed relayer transaction twice was accepted: the replay passed the account-sequence check", desc)
		}
		if accepted && strings.Contains(structural, "block-tx-") {
			st.Violate("C10", "process-admission", "inadmissible-block-tx-accepted:"+structural, "a proposal whose block transaction is inadmissible ("+structural+") was accepted in process mode", desc)
		}
		msgOK := "None"
		headBefore, numBefore, _ := w.HeadInfo()
		// C09: whatever ProcessProposal said, the block message itself must refuse a payload that is not a valid
		// child of the recorded head (a finalised block is not necessarily one this node accepted).  On an
		// on-disk world the rejected proposal is finalised without commit, observed, and discarded by a restart.
		if !accepted && forced && len(proposal) > 0 && structural == "" && facts.engine {
			st.Chk("C09-forced-finalize")
			markCurrent(map[string]any{"kind": "forced-finalize", "mutation": mut.name, "height": w.Height})
			fr, err := w.Finalize(proposal, proposer)
			clearCurrent()
			if err == nil && len(fr.TxResults) > 0 {
				ok := fr.TxResults[0].Code == 0
				hAfter, nAfter, _ := w.HeadInfo()
				desc["forced_code0"] = fr.TxResults[0].Code
				childOK := facts.parent && facts.number && facts.blob && facts.beacon && facts.propCons
				st.Count(fmt.Sprintf("forced-finalize:%s:msg-ok=%v", mut.name, ok))
				if ok && !childOK {
					desc["head"] = []any{headBefore, hAfter, numBefore, nAfter}
					st.Violate("C09", "head-step", "head-advanced-by-non-child:"+mut.name, "a finalised block message moved the execution head to a payload that is not a valid child of the recorded head ("+mut.name+")", desc)
				}
				if !ok && hAfter != headBefore {
					st.Violate("C09", "head-step", "head-moved-on-failure", "the execution head moved although the block message failed", desc)
				}
				msgOK = fmt.Sprintf("(Some %s)", cBool(ok))
			}
			w.Reopen() // discard the uncommitted block
		}
		if accepted {
			w.EL.mu.Lock()
			cF := len(w.EL.calls)
			w.EL.mu.Unlock()
			fr, err := w.Finalize(proposal, proposer)
			if err != nil {
				desc["finalize_err"] = err.Error()
				st.Violate("C19", "finalize", "finalize-fails", "FinalizeBlock failed on an accepted proposal: "+err.Error(), desc)
				fresh()
				continue
			}
			ok := fr.TxResults[0].Code == 0
			desc["code0"] = fr.TxResults[0].Code
			msgOK = fmt.Sprintf("(Some %s)", cBool(ok))
			if honest && !ok {
				st.Violate("C08", "honest", "honest-block-msg-fails", "the block message of an accepted honest proposal failed when finalised", desc)
			}
			w.Commit()
			headAfter, numAfter, beaconAfter := w.HeadInfo()
			// the engine is told exactly the recorded head, with its parent as safe and finalised block
			{
				st.Chk("C09-engine-notified-of-head")
				ctx := w.App.NewUncachedContext(false, cmtproto.Header{Height: w.App.LastBlockHeight()})
				hb, _ := w.App.GoatKeeper.Block.Get(ctx)
				w.EL.mu.Lock()
				fc := append([]elCall{}, w.EL.calls[cF:]...)
				w.EL.mu.Unlock()
				head, parent := common.BytesToHash(hb.BlockHash).Hex(), common.BytesToHash(hb.ParentHash).Hex()
				if len(fc) != 2 || fc[0].Method != "newPayload" || fc[0].Head != head || fc[0].Number != hb.BlockNumber ||
					fc[1].Method != "forkchoice" || fc[1].Head != head || fc[1].Safe != parent || fc[1].Final != parent || fc[1].Attrs {
					desc["engine_calls"] = fc
					desc["recorded_head"] = []string{head, parent}
					st.Violate("C09", "engine-notify", "engine-not-told-recorded-head", "at the end of a finalised block the engine was not told exactly the recorded head with its parent as safe and finalised block", desc)
				}
			}
			st.Chk("C09-head-step")
			if ok {
				wantHead := fmt.Sprintf("%x", p.BlockHash)
				wantBeacon := fmt.Sprintf("%x", sha256Sum([]byte(fmt.Sprintf("cmt-block-%d", w.Height-1))))
				if headAfter != wantHead || numAfter != numBefore+1 || beaconAfter != wantBeacon {
					desc["head"] = []any{headAfter, wantHead, numAfter, numBefore, beaconAfter, wantBeacon}
					st.Violate("C09", "head-step", "head-not-payload", "after a successful block message the recorded head / beacon root is not the payload / block hash", desc)
				}
			} else if headAfter != headBefore {
				st.Violate("C09", "head-step", "head-moved-on-failure", "the execution head moved although the block message failed", desc)
			}
		}
		st.Sample(desc)
		cases = append(cases, cTuple(cList(ptxs), facts.coq(), cBool(accepted), msgOK, dqCoq))
		replays = append(replays, desc)
	}
	return cases, replays
}

type abciCheck struct{ Tx []byte }

func (a *abciCheck) req() *abci.RequestCheckTx { return &abci.RequestCheckTx{Tx: a.Tx, Type: abci.CheckTxType_New} }

// ---------------------------------------------------------------- faults (C09)
func runFaults(rng *Rng, n int, st *Stats, param string) ([]string, []any) {
	var cases []string
	var replays []any
	kinds := []string{"error", "invalid", "syncing", "accepted", "nopayloadid", "timeout", "invalid-with-id", "syncing-with-id"}
	ans := map[string]string{"error": "AError", "invalid": "AInvalid", "syncing": "ASyncing", "accepted": "AAccepted", "": "AValid", "nopayloadid": "AValid", "timeout": "AError",
		"invalid-with-id": "AInvalid", "syncing-with-id": "ASyncing"}
	var w *World
	fresh := func() {
		if w != nil {
			w.Close()
		}
		w = NewWorld(fmt.Sprintf("ft-%d", rng.Intn(1000)), true, nil)
		w.HonestBlock(nil, gasReq(w.Height, 5), goattypes.BridgeRequests{}, goattypes.RelayerRequests{})
	}
	fresh()
	defer func() { w.Close() }()
	seen := map[string]bool{}
	for ci := 0; len(cases) < n; ci++ {
		r := rng.Fork(uint64(ci))
		phase := []string{"prepare-fc", "prepare-get", "process-np", "final-np", "final-fc"}[r.Intn(5)]
		kind := kinds[r.Intn(len(kinds))]
		if kind == "timeout" && !(strings.HasPrefix(phase, "prepare") && r.Chance(20)) {
			kind = "error"
		}
		if kind == "nopayloadid" && phase != "prepare-fc" {
			kind = "invalid"
		}
		if phase == "prepare-fc" && r.Chance(30) {
			kind = []string{"invalid-with-id", "syncing-with-id"}[r.Intn(2)]
		}
		if strings.HasSuffix(kind, "-with-id") && phase != "prepare-fc" {
			kind = strings.TrimSuffix(kind, "-with-id")
		}
		if kind == "accepted" && phase != "process-np" && phase != "final-np" {
			kind = "syncing"
		}
		desc := map[string]any{"phase": phase, "fault": kind, "height": w.Height}
		setFault := func(off int) {
			w.EL.mu.Lock()
			w.EL.faults[w.EL.ncall+off] = kind
			w.EL.nextReqs = encodeRequests(goattypes.BridgeRequests{}, goattypes.RelayerRequests{}, gasReq(w.Height, 3))
			w.EL.mu.Unlock()
		}
		clearFaults := func() {
			w.EL.mu.Lock()
			w.EL.faults = map[int]string{}
			w.EL.mu.Unlock()
		}
		headBefore, _, _ := w.HeadInfo()
		var coq string
		st.Ops++
		st.Count(phase + ":" + kind)
		if !seen[phase+kind] {
			seen[phase+kind] = true
			st.Distinct++
		}
		switch phase {
		case "prepare-fc", "prepare-get":
			off := 1
			if phase == "prepare-get" {
				off = 2
			}
			setFault(off)
			txs, _ := w.Prepare(nil)
			clearFaults()
			got := len(txs) > 0
			fc, pid, ge := "AValid", true, false
			if phase == "prepare-fc" {
				fc = ans[kind]
				if kind == "nopayloadid" {
					pid = false
				}
			} else if kind == "error" || kind == "timeout" {
				ge = true
			} else {
				// getPayload has no status; other kinds do not apply
				continue
			}
			coq = fmt.Sprintf("(FPrepare %s %s %s %s)", fc, cBool(pid), cBool(ge), cBool(got))
			st.Chk("C09-prepare-fault")
			if h, _, _ := w.HeadInfo(); h != headBefore {
				st.Violate("C09", "faults", "state-changed-while-proposing", "a fault while proposing changed committed state", desc)
			}
		case "process-np":
			w.EL.mu.Lock()
			w.EL.nextReqs = encodeRequests(goattypes.BridgeRequests{}, goattypes.RelayerRequests{}, gasReq(w.Height, 3))
			w.EL.mu.Unlock()
			txs, _ := w.Prepare(nil)
			if len(txs) == 0 {
				continue
			}
			setFault(1)
			res := w.Process(txs, w.ValAddr)
			clearFaults()
			coq = fmt.Sprintf("(FProcess %s %s)", ans[kind], cBool(res == "ACCEPT"))
		case "final-np", "final-fc":
			w.EL.mu.Lock()
			w.EL.nextReqs = encodeRequests(goattypes.BridgeRequests{}, goattypes.RelayerRequests{}, gasReq(w.Height, 3))
			w.EL.mu.Unlock()
			txs, _ := w.Prepare(nil)
			if len(txs) == 0 || w.Process(txs, w.ValAddr) != "ACCEPT" {
				continue
			}
			off := 1
			np, fcA := ans[kind], "AValid"
			if phase == "final-fc" {
				off = 2
				np, fcA = "AValid", ans[kind]
			}
			setFault(off)
			fr, err := w.Finalize(txs, w.ValAddr)
			clearFaults()
			committed := err == nil
			advanced := false
			if committed {
				w.Commit()
				h, _, _ := w.HeadInfo()
				advanced = h != headBefore
				st.Chk("C09-notify")
				_ = fr
			} else {
				// a real node crashes here and restarts from disk; the retry must behave like a fault-free run
				w.Reopen()
				h, _, _ := w.HeadInfo()
				st.Chk("C09-fault-commits-nothing")
				if h != headBefore {
					st.Violate("C09", "faults", "fault-persisted", "a failed FinalizeBlock left a changed execution head on disk", desc)
				}
				w.EL.mu.Lock()
				w.EL.nextReqs = encodeRequests(goattypes.BridgeRequests{}, goattypes.RelayerRequests{}, gasReq(w.Height, 3))
				w.EL.mu.Unlock()
				fr2, err2 := w.Finalize(txs, w.ValAddr)
				st.Chk("C09-retry")
				if err2 != nil || fr2.TxResults[0].Code != 0 {
					st.Violate("C09", "faults", "retry-differs", fmt.Sprintf("retrying the block after the fault cleared does not succeed: %v", err2), desc)
					fresh()
				} else {
					w.Commit()
				}
			}
			coq = fmt.Sprintf("(FFinal %s %s %s %s)", np, fcA, cBool(committed), cBool(advanced))
		}
		desc["case"] = coq
		st.Sample(desc)
		cases = append(cases, coq)
		replays = append(replays, desc)
		if ci%40 == 39 {
			fresh()
		}
	}
	return cases, replays
}

var _ = engine.VALID
