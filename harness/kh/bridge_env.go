package main

// Actors and builders for the "bridge" family: relayer voters with real BLS / secp256k1 keys, relayer
// bitcoin keys, bitcoin transactions / blocks / merkle proofs built with btcd, vote construction.

import (
	"bytes"
	"crypto/sha256"
	"encoding/binary"
	"fmt"
	"math/big"

	"github.com/btcsuite/btcd/btcec/v2"
	"github.com/btcsuite/btcd/btcec/v2/schnorr"
	"github.com/btcsuite/btcd/btcutil"
	"github.com/btcsuite/btcd/chaincfg"
	"github.com/btcsuite/btcd/chaincfg/chainhash"
	"github.com/btcsuite/btcd/txscript"
	"github.com/btcsuite/btcd/wire"
	"github.com/cosmos/cosmos-sdk/crypto/keys/secp256k1"
	sdk "github.com/cosmos/cosmos-sdk/types"
	ethcrypto "github.com/ethereum/go-ethereum/crypto"
	goatcrypto "github.com/goatnetwork/goat/pkg/crypto"
	relayertypes "github.com/goatnetwork/goat/x/relayer/types"
	blst "github.com/supranational/blst/bindings/go"
)

type brVoter struct {
	Idx     int // BLS key id in the model
	TxPriv  *secp256k1.PrivKey
	TxPub   []byte // 33 bytes
	Addr    []byte // 20 bytes = hash160(tx key)
	AddrStr string
	Bls     *blst.SecretKey
	BlsPub  []byte // 96 bytes
	BlsHash []byte // sha256(BlsPub)
}

func mkBrVoter(seed string, idx int) *brVoter {
	v := &brVoter{Idx: idx}
	v.TxPriv = secp256k1.GenPrivKeyFromSecret([]byte("tx-" + seed))
	v.TxPub = v.TxPriv.PubKey().Bytes()
	v.Addr = btcutil.Hash160(v.TxPub)
	v.AddrStr = sdk.AccAddress(v.Addr).String()
	ikm := sha256.Sum256([]byte("bls-" + seed))
	v.Bls = blst.KeyGenV3(ikm[:])
	v.BlsPub = new(goatcrypto.PublicKey).From(v.Bls).Compress()
	h := sha256.Sum256(v.BlsPub)
	v.BlsHash = h[:]
	return v
}

type brKey struct {
	Pub      *relayertypes.PublicKey
	Type     int // 0 secp, 1 schnorr
	Raw      []byte
	H160     []byte
	Taproot  []byte // ComputeTaprootKeyNoScript, schnorr only
	schnorrP *btcec.PublicKey
}

func mkBrKey(seed string, typ int) *brKey {
	priv, _ := btcec.PrivKeyFromBytes(sha256Sum([]byte("btckey-" + seed)))
	k := &brKey{Type: typ}
	if typ == 0 {
		k.Raw = priv.PubKey().SerializeCompressed()
		k.H160 = btcutil.Hash160(k.Raw)
		k.Pub = &relayertypes.PublicKey{Key: &relayertypes.PublicKey_Secp256K1{Secp256K1: k.Raw}}
	} else {
		k.Raw = schnorr.SerializePubKey(priv.PubKey())
		p, err := schnorr.ParsePubKey(k.Raw)
		if err != nil {
			panic(err)
		}
		k.schnorrP = p
		k.Taproot = schnorr.SerializePubKey(txscript.ComputeTaprootKeyNoScript(p))
		k.Pub = &relayertypes.PublicKey{Key: &relayertypes.PublicKey_Schnorr{Schnorr: k.Raw}}
	}
	return k
}

func (k *brKey) coq() string {
	return fmt.Sprintf("(mkKey %d %s %s %s)", k.Type, cB(k.Raw), cB(k.H160), cB(k.Taproot))
}
func (k *brKey) idCoq() string {
	return cTuple(fmt.Sprint(k.Type), new(big.Int).SetBytes(k.Raw).String())
}

func sha256Sum(b []byte) []byte { h := sha256.Sum256(b); return h[:] }

func le64b(xs ...uint64) []byte {
	out := make([]byte, 8*len(xs))
	for i, x := range xs {
		binary.LittleEndian.PutUint64(out[i*8:], x)
	}
	return out
}

// the harness's own reading of the sign-doc format (the property's "exactly that action and payload for
// the current chain, epoch and sequence")
func signDoc(method, chain, proposer string, seq, epoch uint64, data []byte) []byte {
	var b []byte
	b = append(b, chain...)
	b = append(b, le64b(seq, epoch)...)
	b = append(b, method...)
	b = append(b, proposer...)
	b = append(b, data...)
	return sha256Sum(b)
}

func blsSign(v *brVoter, msg []byte) []byte { return goatcrypto.Sign(v.Bls, msg) }

func ecdsaProof(v *brVoter, msg []byte) []byte {
	priv, err := ethcrypto.ToECDSA(v.TxPriv.Key)
	if err != nil {
		panic(err)
	}
	sig, err := ethcrypto.Sign(msg, priv)
	if err != nil {
		panic(err)
	}
	return sig[:64]
}

// ---------------- bitcoin side ----------------
var btcNet = &chaincfg.RegressionNetParams

type btcTx struct {
	Raw  []byte
	Txid []byte
	Outs []btcOut
}
type btcOut struct {
	Value  int64
	Script []byte
}

func mkTx(r *Rng, outs []btcOut, extraIn int) *btcTx {
	tx := wire.NewMsgTx(2)
	for i := 0; i <= extraIn; i++ {
		var h chainhash.Hash
		copy(h[:], r.Bytes(32))
		tx.AddTxIn(wire.NewTxIn(wire.NewOutPoint(&h, uint32(r.Intn(4))), nil, nil))
	}
	for _, o := range outs {
		tx.AddTxOut(wire.NewTxOut(o.Value, o.Script))
	}
	var buf bytes.Buffer
	if err := tx.SerializeNoWitness(&buf); err != nil {
		panic(err)
	}
	return &btcTx{Raw: buf.Bytes(), Txid: dsha(buf.Bytes()), Outs: outs}
}

// strict parse, the way the keeper does it (btcd is a trusted dependency)
func parseOuts(raw []byte) (string, bool) {
	tx, rd := new(wire.MsgTx), bytes.NewReader(raw)
	if err := tx.DeserializeNoWitness(rd); err != nil || rd.Len() > 0 {
		return "None", false
	}
	var os []string
	for _, o := range tx.TxOut {
		os = append(os, cTuple(cN(uint64(o.Value)), cB(o.PkScript)))
	}
	return "(Some " + cList(os) + ")", true
}

type btcBlock struct {
	Height uint64
	Header []byte
	Hash   []byte
	Txids  [][]byte
	levels [][][]byte
}

func mkBlock(r *Rng, height uint64, txids [][]byte) *btcBlock {
	b := &btcBlock{Height: height, Txids: txids}
	b.levels = buildTree(append([][]byte{}, txids...))
	root := b.levels[len(b.levels)-1][0]
	hdr := make([]byte, 80)
	copy(hdr, r.Bytes(36))
	copy(hdr[36:68], root)
	copy(hdr[68:], r.Bytes(12))
	b.Header = hdr
	b.Hash = dsha(hdr)
	return b
}

func (b *btcBlock) proof(idx int) []byte { return merkleProof(b.levels, idx) }

// independent script constructions
func scriptP2WSH(prog []byte) []byte  { return append([]byte{0x00, 0x20}, prog...) }
func scriptP2WPKH(h []byte) []byte    { return append([]byte{0x00, 0x14}, h...) }
func scriptP2TR(x []byte) []byte      { return append([]byte{0x51, 0x20}, x...) }
func scriptP2PKH(h []byte) []byte     { return append(append([]byte{0x76, 0xa9, 0x14}, h...), 0x88, 0xac) }
func scriptP2SH(h []byte) []byte      { return append(append([]byte{0xa9, 0x14}, h...), 0x87) }
func scriptOpReturn(d []byte) []byte  { return append([]byte{0x6a, byte(len(d))}, d...) }
func redeemV0(k *brKey, evm []byte) []byte {
	s := append([]byte{0x14}, evm...)
	s = append(s, 0x75, 0x21)
	s = append(s, k.Raw...)
	return append(s, 0xac)
}

// depositScripts returns the output script(s) a depositor must pay to, derived independently of the module.
func depositScriptV0(k *brKey, evm []byte) ([]byte, []byte) {
	if k.Type == 0 {
		return scriptP2WSH(sha256Sum(redeemV0(k, evm))), nil
	}
	tw := schnorr.SerializePubKey(txscript.ComputeTaprootOutputKey(k.schnorrP, evm))
	return scriptP2TR(tw), tw
}
