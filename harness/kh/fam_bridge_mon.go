package main

// Family "bridge", part 4: monitors, hand-over, relayer membership operations.

import (
	"fmt"
	"math/big"
	"strings"
	"time"

	"github.com/btcsuite/btcd/chaincfg"
	sdk "github.com/cosmos/cosmos-sdk/types"
	"github.com/ethereum/go-ethereum/common"
	"github.com/ethereum/go-ethereum/core/types/goattypes"
	bitcointypes "github.com/goatnetwork/goat/x/bitcoin/types"
	relayertypes "github.com/goatnetwork/goat/x/relayer/types"
)

var mainNetParams = chaincfg.MainNetParams

func (w *brWorld) decodeRef(addr string) ([]byte, error) {
	if sc, ok := w.addrScripts[addr]; ok && sc != nil {
		return sc, nil
	}
	return nil, fmt.Errorf("rejected")
}

// ---------------- C03 ----------------
func (w *brWorld) monitorDeposits(cls int, before *brDump, ds []*bitcointypes.Deposit, hdrs []*bitcointypes.BlockHeader, prop string) {
	if cls != 0 {
		return
	}
	w.st.Chk("C03-accept-sound")
	after := w.dump()
	tip, _ := w.e.Bitcoin.BlockTip.Peek(w.e.Ctx)
	bp, _ := w.e.Bitcoin.Params.Get(w.e.Ctx)
	if prop != before.rel.Proposer {
		w.violate("C03", "accept", "deposit-by-non-proposer", "deposits accepted from a sender that is not the relayer proposer")
	}
	newRc := after.bq.Deposits[len(before.bq.Deposits):]
	if len(newRc) != len(ds) {
		w.violate("C03", "accept", "receipt-count", "number of queued deposit receipts differs from the number of accepted deposits")
		return
	}
	hm := map[uint64][]byte{}
	for _, h := range hdrs {
		hm[h.Height] = h.Raw
	}
	for i, d := range ds {
		txid := dsha(d.NoWitnessTx)
		key := fmt.Sprintf("%x:%d", txid, d.OutputIndex)
		if w.credited[key] {
			w.violate("C03", "once", "credited-twice", "the same (txid, output) was credited twice: "+key)
		}
		w.credited[key] = true
		blk := w.blocks[d.BlockNumber]
		if blk == nil || d.BlockNumber > tip || string(dsha(hm[d.BlockNumber])) != string(blk.Hash) {
			w.violate("C03", "spv", "header-not-voted", "deposit accepted under a header whose hash is not the voted block hash")
			continue
		}
		lvl0 := blk.levels[0]
		if int(d.TxIndex) >= len(lvl0) || string(lvl0[d.TxIndex]) != string(txid) {
			w.violate("C03", "spv", "wrong-position", fmt.Sprintf("deposit accepted at position %d which the transaction does not occupy in the block", d.TxIndex))
		}
		if string(blk.Txids[0]) == string(txid) && tip < d.BlockNumber+100 {
			w.violate("C03", "maturity", "immature-coinbase", fmt.Sprintf("coinbase deposit of block %d credited with tip %d", d.BlockNumber, tip))
		}
		// script binding, independently derived
		pd, okTx := w.allTxOuts[string(txid)]
		if !okTx || int(d.OutputIndex) >= len(pd) {
			w.violate("C03", "script", "unknown-tx", "deposit credited for a transaction/output the harness never created")
			continue
		}
		{
			found := &pd[d.OutputIndex]
			var k *brKey
			for _, kk := range w.keys {
				if string(relayertypes.EncodePublicKey(kk.Pub)) == string(relayertypes.EncodePublicKey(d.RelayerPubkey)) {
					k = kk
				}
			}
			okScript := false
			if k != nil && len(d.EvmAddress) == 20 {
				if d.Version == 0 {
					sc, _ := depositScriptV0(k, d.EvmAddress)
					okScript = string(sc) == string(found.Script)
				} else if d.Version == 1 && k.Type == 0 && len(pd) >= 2 && d.OutputIndex == 0 {
					okScript = string(found.Script) == string(scriptP2WPKH(k.H160)) &&
						string(pd[1].Script) == string(scriptOpReturn(append(append([]byte{}, bp.DepositMagicPrefix...), d.EvmAddress...)))
				}
			}
			if !okScript {
				w.violate("C03", "script", "script-not-bound", "deposit credited although its output does not commit to that relayer key and EVM address")
			}
			val := uint64(found.Value)
			if val < before.bqParamsMin {
				w.violate("C03", "min", "below-minimum", "deposit below the minimum credited")
			}
			rc := newRc[i]
			tax := uint64(0)
			if bp.DepositTaxRate > 0 && val > 10000 {
				tax = val / 10000 * bp.DepositTaxRate
				if bp.MaxDepositTax > 0 && tax > bp.MaxDepositTax {
					tax = bp.MaxDepositTax
				}
			}
			if rc.Amount+rc.Tax != val || rc.Tax != tax || rc.Tax >= val || string(rc.Address) != string(d.EvmAddress) {
				w.violate("C03", "value", "value-not-exact", fmt.Sprintf("credited %d + tax %d for an output of %d (expected tax %d)", rc.Amount, rc.Tax, val, tax))
			}
			w.enqDeposits = append(w.enqDeposits, fmt.Sprintf("%x:%d:%d:%d", txid, rc.Txout, rc.Amount, rc.Tax))
		}
	}
}

// ---------------- C05 ----------------
var wdEdges = map[[2]int32]bool{{0, 1}: true, {0, 4}: true, {1, 3}: true, {1, 2}: true, {3, 2}: true, {2, 5}: true, {3, 4}: true}

func (w *brWorld) monitorWd(before *brDump, where string) {
	w.st.Chk("C05-edges")
	after := w.dump()
	for id, a := range after.wds {
		b := int32(0)
		if x, ok := before.wds[id]; ok {
			b = int32(x.Status)
		}
		if b != int32(a.Status) && !wdEdges[[2]int32{b, int32(a.Status)}] {
			w.violate("C05", "edges", fmt.Sprintf("edge-%d-%d", b, a.Status), fmt.Sprintf("withdrawal %d moved from status %d to %d during %s", id, b, a.Status, where))
		}
	}
	// notices: an id is queued as paid at most once, as refund at most once, never both
	for _, p := range after.bq.PaidWithdrawals[minInt(len(before.bq.PaidWithdrawals), len(after.bq.PaidWithdrawals)):] {
		w.paidSeen[p.Id]++
	}
	if len(after.bq.RejectedWithdrawals) > len(before.bq.RejectedWithdrawals) {
		for _, id := range after.bq.RejectedWithdrawals[len(before.bq.RejectedWithdrawals):] {
			w.refundSeen[id]++
		}
	}
	for id, n := range w.paidSeen {
		if n > 1 || w.refundSeen[id] > 0 {
			w.violate("C05", "outcome", "paid-and-refund", fmt.Sprintf("withdrawal %d was told paid %d times and refund %d times", id, n, w.refundSeen[id]))
		}
	}
	for id, n := range w.refundSeen {
		if n > 1 {
			w.violate("C05", "outcome", "refund-twice", fmt.Sprintf("withdrawal %d was told refund %d times", id, n))
		}
	}
}

func (w *brWorld) monitorProcess(before *brDump, ids []uint64, tx *btcTx, fee uint64) {
	w.st.Chk("C05-processing-terms")
	if len(tx.Outs) != len(ids) && len(tx.Outs) != len(ids)+1 {
		w.violate("C05", "terms", "extra-outputs", "processing transaction has more than one extra output")
		return
	}
	for i, id := range ids {
		wd := before.wds[id]
		ref, err := w.decodeRef(wd.Address)
		if err != nil || string(ref) != string(tx.Outs[i].Script) {
			w.violate("C05", "terms", "wrong-script", fmt.Sprintf("withdrawal %d processed by an output that does not pay the user's address", id))
		}
		if uint64(tx.Outs[i].Value) > wd.RequestAmount {
			w.violate("C05", "terms", "overpay", fmt.Sprintf("withdrawal %d processed with more than the requested amount", id))
		}
		if fee > wd.MaxTxPrice*uint64(len(tx.Raw)) {
			w.violate("C05", "terms", "fee-above-max", fmt.Sprintf("withdrawal %d processed at fee %d for %d bytes, above the user's max price %d", id, fee, len(tx.Raw), wd.MaxTxPrice))
		}
	}
	if len(tx.Outs) == len(ids)+1 {
		sc := scriptP2WPKH(w.curKey.H160)
		if w.curKey.Type == 1 {
			sc = scriptP2TR(w.curKey.Taproot)
		}
		if string(sc) != string(tx.Outs[len(ids)].Script) {
			w.violate("C05", "terms", "change-not-to-relayer", "extra output does not pay the current relayer key")
		}
	}
}

// ---------------- C06: hand-over ----------------
func (w *brWorld) dequeue() {
	var txsCoq []string
	var kinds []string
	nonceBefore, _ := w.e.Bitcoin.EthTxNonce.Peek(w.e.Ctx)
	cls, _ := w.e.Tx(func(c sdk.Context) error {
		txs, err := w.e.Bitcoin.DequeueBitcoinModuleTx(c)
		if err != nil {
			return err
		}
		for i, tx := range txs {
			raw, inner, err := decodeGoatTx(tx)
			if err != nil {
				w.violate("C06", "decode", "undecodable-system-tx", "system tx cannot be decoded: "+err.Error())
				continue
			}
			if raw.Nonce != nonceBefore+uint64(i) {
				w.violate("C06", "nonce", "nonce-gap", fmt.Sprintf("system tx %d carries nonce %d, expected %d", i, raw.Nonce, nonceBefore+uint64(i)))
			}
			sat := big.NewInt(1e10)
			switch t := inner.(type) {
			case *goattypes.NewBtcBlockTx:
				txsCoq = append(txsCoq, cTuple("0", fmt.Sprint(raw.Nonce), "0", "0", cB(t.Hash.Bytes()), "[]"))
				w.deqHashes = append(w.deqHashes, fmt.Sprintf("%x", t.Hash.Bytes()))
				kinds = append(kinds, "h")
			case *goattypes.DepositTx:
				amt := new(big.Int).Div(t.Amount, sat).Uint64()
				tax := new(big.Int).Div(t.Tax, sat).Uint64()
				txsCoq = append(txsCoq, cTuple("1", fmt.Sprint(raw.Nonce), fmt.Sprint(t.TxOut), fmt.Sprint(amt), cB(t.Txid.Bytes()), cB(append(t.Target.Bytes(), le64b(tax)...))))
				w.deqDeposits = append(w.deqDeposits, fmt.Sprintf("%x:%d:%d:%d", t.Txid.Bytes(), t.TxOut, amt, tax))
				kinds = append(kinds, "d")
			case *goattypes.PaidTx:
				amt := new(big.Int).Div(t.Amount, sat).Uint64()
				txsCoq = append(txsCoq, cTuple("2", fmt.Sprint(raw.Nonce), fmt.Sprint(t.Id.Uint64()), fmt.Sprint(amt), cB(t.Txid.Bytes()), cB(le64b(uint64(t.TxOut)))))
				w.deqPaid = append(w.deqPaid, fmt.Sprintf("%d:%x:%d", t.Id.Uint64(), t.Txid.Bytes(), amt))
				kinds = append(kinds, "p")
			case *goattypes.Cancel2Tx:
				txsCoq = append(txsCoq, cTuple("3", fmt.Sprint(raw.Nonce), fmt.Sprint(t.Id.Uint64()), "0", "[]", "[]"))
				w.deqRej = append(w.deqRej, fmt.Sprint(t.Id.Uint64()))
				kinds = append(kinds, "r")
			}
		}
		return nil
	})
	w.addOp("BDequeue", cls, txsCoq, lkOpRec{Kind: "dequeue", Out: strings.Join(kinds, "")})
	w.sig.WriteString("q" + strings.Join(kinds, ""))
	w.st.Chk("C06-fifo")
	nonceAfter, _ := w.e.Bitcoin.EthTxNonce.Peek(w.e.Ctx)
	if cls == 0 && nonceAfter != nonceBefore+uint64(len(txsCoq)) {
		w.violate("C06", "nonce", "nonce-not-consecutive", fmt.Sprintf("nonce went %d -> %d for %d system txs", nonceBefore, nonceAfter, len(txsCoq)))
	}
	cnt := map[string]int{}
	for _, k := range kinds {
		cnt[k]++
	}
	if cnt["h"] > 1 || cnt["d"] > 8 || cnt["p"]+cnt["r"] > 8 {
		w.violate("C06", "caps", "cap-exceeded", fmt.Sprintf("per-block cap exceeded: %v", cnt))
	}
	chk := func(name string, enq, deq []string) {
		if len(deq) > len(enq) {
			w.violate("C06", "fifo", "invented-"+name, fmt.Sprintf("%s: %d handed over but only %d ever queued", name, len(deq), len(enq)))
			return
		}
		for i := range deq {
			if deq[i] != enq[i] {
				w.violate("C06", "fifo", "order-"+name, fmt.Sprintf("%s handed over out of order / altered at position %d: %s vs queued %s", name, i, deq[i], enq[i]))
				return
			}
		}
	}
	hs := make([]string, len(w.enqHashes))
	for i, h := range w.enqHashes {
		hs[i] = h[strings.Index(h, ":")+1:]
	}
	seenDep := map[string]bool{}
	for _, dk := range w.deqDeposits {
		k := dk[:strings.Index(dk, ":")+1] + strings.Split(dk, ":")[1]
		if seenDep[k] {
			w.violate("C06", "fifo", "deposit-handed-over-twice", "the same deposit (txid:vout) was handed over twice: "+k)
		}
		seenDep[k] = true
	}
	chk("block-hash", hs, w.deqHashes)
	chk("deposit", w.enqDeposits, w.deqDeposits)
	chk("paid", w.enqPaid, w.deqPaid)
	chk("refund", w.enqRej, w.deqRej)
}

// ---------------- C16 ----------------
func (w *brWorld) monitorGroup(d *brDump, where string) {
	w.st.Chk("C16-group")
	seen := map[string]bool{}
	members := append([]string{d.rel.Proposer}, d.rel.Voters...)
	for i, m := range members {
		if seen[m] {
			w.violate("C16", "group", "duplicate-member", "relayer group lists a member twice ("+where+")")
		}
		seen[m] = true
		vr, ok := d.vrec[m]
		if !ok || (vr.Status != relayertypes.VOTER_STATUS_ACTIVATED && vr.Status != relayertypes.VOTER_STATUS_OFF_BOARDING) {
			w.violate("C16", "group", "member-without-record", fmt.Sprintf("member %d has no activated/off-boarding voter record (%s)", i, where))
		}
	}
	offMembers := 0
	for _, a := range d.queue.OffBoarding {
		if seen[a] {
			offMembers++
		}
	}
	if offMembers >= len(members) {
		w.violate("C16", "group", "removal-would-empty", "queued removals would empty the relayer group ("+where+")")
	}
	for _, a := range d.queue.OnBoarding {
		if seen[a] {
			w.violate("C16", "group", "onboarding-member", "an on-boarding entry is already a member ("+where+")")
		}
	}
}

func (w *brWorld) relayerOp() {
	r := w.r
	k := w.e.Relayer
	switch x := r.Intn(100); {
	case x < 30: // add / remove requests from the execution layer
		var req goattypes.RelayerRequests
		var aC, rC []string
		for i, n := 0, r.Intn(3); i < n; i++ {
			v := w.voters[r.Intn(len(w.voters))]
			hash := v.BlsHash
			kid := v.Idx
			if r.Chance(10) {
				hash = r.Bytes(32)
				kid = 1000 + r.Intn(1000)
			}
			req.Adds = append(req.Adds, &goattypes.AddVoterRequest{Voter: common.BytesToAddress(v.Addr), Pubkey: common.BytesToHash(hash)})
			aC = append(aC, cTuple(cAddr20(v.Addr), cB([]byte(v.AddrStr)), fmt.Sprint(kid)))
			if kid >= 1000 {
				w.fakeHash[string(hash)] = kid
			}
		}
		for i, n := 0, r.Intn(4); i < n; i++ {
			v := w.voters[r.Intn(len(w.voters))]
			req.Removes = append(req.Removes, &goattypes.RemoveVoterRequest{Voter: common.BytesToAddress(v.Addr)})
			rC = append(rC, cAddr20(v.Addr))
		}
		if sd := r.Side(23); sd.Chance(14) {
			// a list asking to remove every current member (the last one must stay), as can happen again in the next block
			rel := w.relayer()
			for _, a := range append([]string{rel.Proposer}, rel.Voters...) {
				if v, ok := w.byAddr[a]; ok {
					req.Removes = append(req.Removes, &goattypes.RemoveVoterRequest{Voter: common.BytesToAddress(v.Addr)})
					rC = append(rC, cAddr20(v.Addr))
				}
			}
			w.st.Count("relayerreq:remove-every-member")
		}
		cls, _ := w.e.Tx(func(c sdk.Context) error { return k.ProcessRelayerRequest(c, req) })
		w.addOp(fmt.Sprintf("(BRelayerReq %d %s %s)", w.height, cList(aC), cList(rC)), cls, nil, lkOpRec{Kind: "relayerreq", Args: map[string]any{"adds": len(req.Adds), "removes": len(req.Removes)}})
		w.sig.WriteString(fmt.Sprintf("M%d%d", len(req.Adds), len(req.Removes)))
		if cls != 0 {
			w.violate("C16", "total", "relayer-request-fails", "ProcessRelayerRequest failed")
		}
	case x < 55: // voter registration by the proposer
		var pend []*brVoter
		for _, v := range w.voters {
			if vr, err := k.Voters.Get(w.e.Ctx, v.AddrStr); err == nil && vr.Status == relayertypes.VOTER_STATUS_PENDING {
				pend = append(pend, v)
			}
		}
		v := w.voters[r.Intn(len(w.voters))]
		if len(pend) > 0 && r.Chance(85) {
			v = pend[r.Intn(len(pend))]
		}
		rel := w.relayer()
		prop, propCoq := w.proposerField()
		vr, errRec := k.Voters.Get(w.e.Ctx, v.AddrStr)
		height := uint64(0)
		regHash := v.BlsHash
		if errRec == nil {
			height = vr.Height
			regHash = vr.VoteKey
		}
		blsKey, blsSigner := v, v
		docHash := regHash
		docEpoch, docChain, docProp, docHeight := rel.Epoch, ChainID, prop, height
		txSigner := v
		variant := "honest"
		switch y := r.Intn(100); {
		case y < 60:
		case y < 66:
			variant = "other-bls-key"
			blsKey = w.voters[(v.Idx+1)%len(w.voters)]
			blsSigner = blsKey
			if r.Bool() {
				// both proofs made over the hash of the submitted key: self-consistent, but not the registered key
				variant = "other-bls-key-self-consistent"
				docHash = blsKey.BlsHash
			}

		case y < 72:
			variant = "bls-proof-by-other"
			blsSigner = w.voters[(v.Idx+1)%len(w.voters)]
		case y < 78:
			variant = "tx-proof-by-other"
			txSigner = w.voters[(v.Idx+2)%len(w.voters)]
		case y < 84:
			variant = "wrong-epoch"
			docEpoch++
		case y < 88:
			variant = "wrong-chain"
			docChain = "other-chain"
		case y < 92:
			variant = "wrong-height"
			docHeight++
		default:
			variant = "wrong-proposer-in-doc"
			docProp = w.voters[(v.Idx+3)%len(w.voters)].AddrStr
		}
		if sd := r.Side(19); variant == "honest" && sd.Chance(18) {
			variant = "other-bls-key-self-consistent"
			blsKey = w.voters[(v.Idx+1+sd.Intn(3))%len(w.voters)]
			blsSigner = blsKey
			docHash = blsKey.BlsHash
		}
		doc := signDoc("Relayer/NewVoter", docChain, docProp, 0, docEpoch, append(append(le64b(docHeight), v.Addr...), docHash...))
		txProof := ecdsaProof(txSigner, doc)
		blsProof := blsSign(blsSigner, doc)
		lengthsOK := true
		if r.Chance(3) {
			blsProof = blsProof[:40]
			lengthsOK = false
		}
		msg := &relayertypes.MsgNewVoterRequest{Proposer: prop, VoterBlsKey: blsKey.BlsPub, VoterTxKey: v.TxPub, VoterTxKeyProof: txProof, VoterBlsKeyProof: blsProof}
		before := w.dump()
		cls, _ := w.e.Tx(func(c sdk.Context) error { _, err := w.msgSrvR().NewVoter(c, msg); return err })
		w.addOp(fmt.Sprintf("(BNewVoter %s %s %s %s %d %s (Some (%s, %s)) (Some (%d, %s)))", propCoq, cBool(lengthsOK), cAddr20(v.Addr), cB(v.Addr), blsKey.Idx, cB(regHash),
			cAddr20(txSigner.Addr), cB(doc), blsSigner.Idx, cB(doc)), cls, nil, lkOpRec{Kind: "newvoter", Args: map[string]any{"variant": variant, "voter": v.Idx}})
		w.sig.WriteString(fmt.Sprintf("V%s%d", variant[:2], cls))
		w.st.Chk("C16-join-needs-proofs")
		if cls == 0 {
			okDoc := string(doc) == string(signDoc("Relayer/NewVoter", ChainID, rel.Proposer, 0, rel.Epoch, append(append(le64b(height), v.Addr...), regHash...)))
			proofsOK := okDoc && txSigner == v && blsSigner == blsKey && string(blsKey.BlsHash) == string(regHash) && lengthsOK
			if !proofsOK || prop != rel.Proposer || errRec != nil || before.vrec[v.AddrStr].Status != relayertypes.VOTER_STATUS_PENDING {
				w.violate("C16", "join", "join-without-proofs", "voter registration accepted without valid possession proofs bound to this chain/epoch/registration ("+variant+")")
			}
			// takes part in quorums only from the next election
			for _, m := range append([]string{w.relayer().Proposer}, w.relayer().Voters...) {
				if m == v.AddrStr {
					w.violate("C16", "join", "member-before-election", "a newly registered voter is a member before any election")
				}
			}
		}
	case x < 70: // accept proposer
		rel := w.relayer()
		prop, propCoq := w.proposerField()
		ep := rel.Epoch
		if r.Chance(10) {
			ep++
		} else if ep > 0 && r.Chance(25) {
			// an acceptance made for an earlier term of the same proposer, delivered now
			ep = uint64(r.Intn(int(ep)))
			if r.Bool() {
				ep = rel.Epoch - 1
			}
			w.st.Count("accept:stale-epoch")
		}
		msg := &relayertypes.MsgAcceptProposerRequest{Proposer: prop, Epoch: ep}
		cls, _ := w.e.Tx(func(c sdk.Context) error { _, err := w.msgSrvR().AcceptProposer(c, msg); return err })
		w.addOp(fmt.Sprintf("(BAccept (%d)%%Z %s %d)", w.now.Unix()-timeBase, propCoq, ep), cls, nil, lkOpRec{Kind: "accept"})
		w.sig.WriteString(fmt.Sprintf("A%d", cls))
	default: // end blocker, usually after some time
		p, _ := k.Params.Get(w.e.Ctx)
		switch r.Intn(5) {
		case 0:
			w.now = w.now.Add(p.ElectingPeriod)
		case 1:
			w.now = w.now.Add(p.AcceptProposerTimeout)
		case 2:
			w.now = w.now.Add(time.Duration(r.Intn(int(p.ElectingPeriod/time.Second)+5)) * time.Second)
		case 3:
			w.now = w.now.Add(time.Second)
		}
		w.e.Ctx = w.e.Ctx.WithBlockTime(w.now)
		rel := w.relayer()
		cls, _ := w.e.Tx(func(c sdk.Context) error { return k.EndBlocker(c) })
		w.addOp(fmt.Sprintf("(BEnd (%d)%%Z)", w.now.Unix()-timeBase), cls, nil, lkOpRec{Kind: "endblock", Args: map[string]any{"time": w.now.Unix()}})
		w.sig.WriteString(fmt.Sprintf("E%d", cls))
		w.st.Chk("C16-endblock")
		if cls != 0 {
			w.violate("C16", "total", "end-block-fails", "relayer EndBlocker failed")
		} else {
			after := w.relayer()
			dur := w.now.Sub(rel.LastElected)
			due := dur >= p.ElectingPeriod || (!rel.ProposerAccepted && p.AcceptProposerTimeout != 0 && dur >= p.AcceptProposerTimeout)
			if due != (after.Epoch == rel.Epoch+1) || (!due && after.Epoch != rel.Epoch) {
				w.violate("C16", "election", "election-timing", fmt.Sprintf("election due=%v but epoch went %d -> %d", due, rel.Epoch, after.Epoch))
			}
			if after.Epoch == rel.Epoch+1 {
				// a (new or confirmed) proposer of a group with voters must accept again; a lone proposer is accepted
				if want := len(after.Voters) == 0 && after.Proposer == rel.Proposer; after.ProposerAccepted != want {
					w.violate("C16", "election", "accept-flag-after-election", fmt.Sprintf("after an election with %d voters the proposer-accepted flag is %v", len(after.Voters), after.ProposerAccepted))
				}
			}
			w.monitorGroup(w.dump(), "after end-block")
		}
	}
}
