package main

// kharness: keeper-level correspondence harness.  `kharness <family> -seed S -n N -out DIR [-shards K]`
// runs the family's generator against the real code compiled from /repo's working tree, writes
// DIR/cases_<k>.v (the observed behaviour as Coq terms, to be compared with the Gallina model by
// vm_compute) and DIR/stats.json (counts, distribution, samples, implementation-side monitor findings).

import (
	"encoding/hex"
	"encoding/json"
	"fmt"
	"math/big"
	"os"
	"path/filepath"
	"regexp"
	"sort"
	"strings"
)

// ---------- deterministic PRNG (splitmix64): every random choice derives from the seed ----------
type Rng struct{ s uint64 }

func NewRng(seed uint64) *Rng { return &Rng{s: seed*0x9E3779B97F4A7C15 + 0x1234567} }
func (r *Rng) U64() uint64 {
	r.s += 0x9E3779B97F4A7C15
	z := r.s
	z = (z ^ (z >> 30)) * 0xBF58476D1CE4E5B9
	z = (z ^ (z >> 27)) * 0x94D049BB133111EB
	return z ^ (z >> 31)
}
func (r *Rng) Intn(n int) int {
	if n <= 0 {
		return 0
	}
	return int(r.U64() % uint64(n))
}
func (r *Rng) Bool() bool        { return r.U64()&1 == 1 }
func (r *Rng) Chance(p int) bool { return r.Intn(100) < p }
func (r *Rng) Bytes(n int) []byte {
	b := make([]byte, n)
	for i := range b {
		b[i] = byte(r.U64())
	}
	return b
}
func (r *Rng) Pick(xs []uint64) uint64 { return xs[r.Intn(len(xs))] }
func (r *Rng) Fork(tag uint64) *Rng    { return NewRng(r.U64() ^ tag*0xD6E8FEB86659FD93) }

// Side derives an independent stream WITHOUT consuming from r: decisions added to a generator later draw from a side
// stream so that the histories the main stream produces stay what they were.
func (r *Rng) Side(tag uint64) *Rng { return NewRng(r.s ^ (tag+1)*0xA24BAED4963EE407) }

// ---------- Coq term printing ----------
func cB(b []byte) string { return `(hx "` + hex.EncodeToString(b) + `")` }
func cN(u uint64) string { return fmt.Sprintf("%d", u) }
func cNbig(b *big.Int) string {
	return b.String()
}
func cZ(b *big.Int) string {
	if b.Sign() < 0 {
		return "(" + b.String() + ")%Z"
	}
	return b.String() + "%Z"
}
func cBool(b bool) string {
	if b {
		return "true"
	}
	return "false"
}
func cList(xs []string) string { return "[" + strings.Join(xs, "; ") + "]" }
func cNs(xs []uint64) string {
	s := make([]string, len(xs))
	for i, x := range xs {
		s[i] = cN(x)
	}
	return cList(s)
}
func cApp(c string, args ...string) string {
	if len(args) == 0 {
		return c
	}
	return "(" + c + " " + strings.Join(args, " ") + ")"
}
func cTuple(args ...string) string { return "(" + strings.Join(args, ", ") + ")" }
func cOpt(s *string) string {
	if s == nil {
		return "None"
	}
	return "(Some " + *s + ")"
}

// finalizeIDs replaces the @A:hex@ placeholders of one case by order-preserving small ids (rank among
// all address-like values of the case) and the @P:hex@ placeholders by arbitrary distinct small ids.
// Large literals are what makes Coq slow to read a case file; the model only ever compares and
// orders these values.
var placeholderRe = regexp.MustCompile(`@([AP]):([0-9a-f]+)@`)

func finalizeIDs(s string) string {
	as, ps := map[string]bool{}, map[string]bool{}
	for _, m := range placeholderRe.FindAllStringSubmatch(s, -1) {
		if m[1] == "A" {
			as[m[2]] = true
		} else {
			ps[m[2]] = true
		}
	}
	rank := func(set map[string]bool) map[string]int {
		keys := make([]string, 0, len(set))
		for k := range set {
			keys = append(keys, k)
		}
		sort.Strings(keys)
		res := map[string]int{}
		for i, k := range keys {
			res[k] = i + 1
		}
		return res
	}
	ar, pr := rank(as), rank(ps)
	return placeholderRe.ReplaceAllStringFunc(s, func(x string) string {
		m := placeholderRe.FindStringSubmatch(x)
		if m[1] == "A" {
			return fmt.Sprintf("%d%%N", ar[m[2]])
		}
		return fmt.Sprintf("%d%%N", pr[m[2]])
	})
}

// ---------- stats ----------
type Stats struct {
	Family      string           `json:"family"`
	Seed        uint64           `json:"seed"`
	Cases       int              `json:"cases"`
	Ops         int              `json:"ops"`
	Distinct    int              `json:"distinct_nontrivial"`
	Dist        map[string]int   `json:"distribution"`
	Samples     []any            `json:"samples"`
	Violations  []Violation      `json:"violations"`
	Shards      int              `json:"shards"`
	CaseIndex   []map[string]any `json:"-"`
	Notes       []string         `json:"notes,omitempty"`
	KnownChecks map[string]int   `json:"monitor_checks"`
}

type Violation struct {
	Property string `json:"property"`
	Monitor  string `json:"monitor"`
	What     string `json:"what"`
	Key      string `json:"key"` // stable identifier of the failing input class (for known_findings)
	Replay   any    `json:"replay"`
}

func (s *Stats) Count(k string) { s.Dist[k]++ }
func (s *Stats) Chk(k string)   { s.KnownChecks[k]++ }
func (s *Stats) Violate(prop, monitor, key, what string, replay any) {
	n := 0
	for _, v := range s.Violations {
		if v.Property == prop && v.Key == key {
			n++
		}
	}
	s.Dist["violation:"+prop+":"+key]++
	if n < 2 && len(s.Violations) < 60 {
		s.Violations = append(s.Violations, Violation{prop, monitor, what, key, replay})
	}
}
func (s *Stats) Sample(x any) {
	if len(s.Samples) < 6 {
		s.Samples = append(s.Samples, x)
	}
}

// a family produces a list of Coq case terms (strings) plus the replay description of each case
type Family struct {
	Requires string // Coq module holding `mismatches`
	CaseType string
	Run      func(rng *Rng, n int, st *Stats, param string) (cases []string, replays []any)
}

var families = map[string]*Family{}

func writeCases(dir string, fam *Family, cases []string, replays []any, shards int) error {
	if shards < 1 {
		shards = 1
	}
	if err := os.MkdirAll(dir, 0o755); err != nil {
		return err
	}
	per := (len(cases) + shards - 1) / shards
	if per == 0 {
		per = 1
	}
	idx := 0
	for k := 0; k < shards; k++ {
		lo, hi := k*per, (k+1)*per
		if lo > len(cases) {
			lo = len(cases)
		}
		if hi > len(cases) {
			hi = len(cases)
		}
		var sb strings.Builder
		sb.WriteString("From Goat Require Import Base.Prelude " + fam.Requires + ".\nLocal Open Scope N_scope.\n")
		// split into small definitions: Coq's parser and type checker are much faster on many
		// short lists than on one huge literal
		names := []string{}
		const chunk = 40
		for c := lo; c < hi; c += chunk {
			e := c + chunk
			if e > hi {
				e = hi
			}
			nm := fmt.Sprintf("cs%d", c)
			names = append(names, nm)
			sb.WriteString("Definition " + nm + " : list " + fam.CaseType + " :=\n [ " + strings.Join(cases[c:e], ";\n   ") + " ].\n")
		}
		sb.WriteString("Definition all_cases : list " + fam.CaseType + " := " + func() string {
			if len(names) == 0 {
				return "[]"
			}
			return strings.Join(names, " ++ ")
		}() + ".\n")
		sb.WriteString(fmt.Sprintf("Definition M := Eval vm_compute in (mismatches %d all_cases).\nPrint M.\n", lo))
		if err := os.WriteFile(filepath.Join(dir, fmt.Sprintf("cases_%d.v", k)), []byte(sb.String()), 0o644); err != nil {
			return err
		}
		idx += hi - lo
	}
	rp, _ := json.Marshal(replays)
	return os.WriteFile(filepath.Join(dir, "replays.json"), rp, 0o644)
}

