package main

// Family "address" (C17): deposit address builders / script verifiers and withdrawal address
// decoding of x/bitcoin/types/address.go, against the Gallina model of the same functions plus the
// parts of btcd they delegate to (bech32(m), base58check, DecodeAddress, PayToAddrScript).

import (
	"bytes"
	"encoding/hex"
	"fmt"
	"sort"
	"strings"

	"github.com/btcsuite/btcd/btcec/v2"
	"github.com/btcsuite/btcd/btcec/v2/schnorr"
	"github.com/btcsuite/btcd/btcutil"
	"github.com/btcsuite/btcd/btcutil/base58"
	"github.com/btcsuite/btcd/btcutil/bech32"
	"github.com/btcsuite/btcd/chaincfg"
	"github.com/btcsuite/btcd/txscript"
	goatcrypto "github.com/goatnetwork/goat/pkg/crypto"
	bitcoinkeeper "github.com/goatnetwork/goat/x/bitcoin/keeper"
	bitcointypes "github.com/goatnetwork/goat/x/bitcoin/types"
	relayertypes "github.com/goatnetwork/goat/x/relayer/types"
)

func init() {
	families["address"] = &Family{Requires: "Cases.AddressRun", CaseType: "acase", Run: runAddress}
}

func netNames() []string {
	var ns []string
	for k := range bitcointypes.BitcoinNetworks {
		ns = append(ns, k)
	}
	sort.Strings(ns)
	return ns
}

type akey struct {
	pk     *relayertypes.PublicKey
	coq    string
	raw    []byte
	secp   bool
	valid  bool // passes PublicKey.Validate and (schnorr) parses
	parses bool
}

func genKey(r *Rng) akey {
	priv, _ := btcec.PrivKeyFromBytes(r.Bytes(32))
	if r.Chance(55) {
		raw := priv.PubKey().SerializeCompressed()
		valid := true
		switch {
		case r.Chance(6):
			raw = raw[:20+r.Intn(12)] // short key (2..75 bytes: a plain push)
			valid = false
		case r.Chance(4):
			raw = append([]byte{}, raw...)
			raw[0] = 4
			valid = false
		}
		return akey{pk: &relayertypes.PublicKey{Key: &relayertypes.PublicKey_Secp256K1{Secp256K1: raw}}, coq: cApp("KSecp", cB(raw)), raw: raw, secp: true, valid: valid, parses: true}
	}
	raw := schnorr.SerializePubKey(priv.PubKey())
	parses := true
	valid := true
	switch {
	case r.Chance(6):
		// an x coordinate that is not on the curve
		for {
			raw = r.Bytes(32)
			if _, err := schnorr.ParsePubKey(raw); err != nil {
				break
			}
		}
		parses = false
	case r.Chance(4):
		raw = raw[:31]
		valid, parses = false, false
	}
	return akey{pk: &relayertypes.PublicKey{Key: &relayertypes.PublicKey_Schnorr{Schnorr: raw}}, coq: cApp("KSchnorr", cB(raw), cBool(parses)), raw: raw, valid: valid && parses, parses: parses}
}

func (k akey) tweak(evm []byte) []byte {
	if k.secp || !k.parses {
		return nil
	}
	p, err := schnorr.ParsePubKey(k.raw)
	if err != nil {
		return nil
	}
	return schnorr.SerializePubKey(txscript.ComputeTaprootOutputKey(p, evm))
}
func (k akey) h160() []byte {
	if !k.secp {
		return nil
	}
	return goatcrypto.Hash160Sum(k.raw)
}

func cStr(s string) string { return cB([]byte(s)) }

func mutateString(r *Rng, s string) (string, string) {
	if len(s) == 0 {
		return "1", "nonempty"
	}
	b := []byte(s)
	switch r.Intn(9) {
	case 0:
		i := r.Intn(len(b))
		b[i] = "qpzry9x8gf2tvdw0s3jn54khce6mua7lABCDEFGHJKLMNPQRSTUVWXYZ123456789"[r.Intn(66-1)]
		return string(b), "char-replaced"
	case 1:
		return strings.ToUpper(s), "upper"
	case 2:
		i := r.Intn(len(b))
		if b[i] >= 'a' && b[i] <= 'z' {
			b[i] -= 32
		} else if b[i] >= 'A' && b[i] <= 'Z' {
			b[i] += 32
		}
		return string(b), "case-flipped-char"
	case 3:
		return s[:len(s)-1-r.Intn(minInt(3, len(s)-1)+0)], "truncated"
	case 4:
		return s + string("qpzry9x8"[r.Intn(8)]), "extended"
	case 5:
		i := r.Intn(len(b))
		b[i] = byte(r.Intn(256))
		return string(b), "byte-replaced"
	case 6:
		i, j := r.Intn(len(b)), r.Intn(len(b))
		b[i], b[j] = b[j], b[i]
		return string(b), "swapped"
	case 7:
		return "1" + s, "leading-1"
	default:
		return " " + s, "leading-space"
	}
}

func runAddress(rng *Rng, n int, st *Stats, param string) ([]string, []any) {
	var cases []string
	var replays []any
	names := netNames()
	allNets := []*chaincfg.Params{&chaincfg.MainNetParams, &chaincfg.TestNet3Params, &chaincfg.SigNetParams, &chaincfg.RegressionNetParams, &chaincfg.SimNetParams}
	seen := map[string]bool{}
	var qe *Env
	add := func(c string, rp map[string]any, sig string) {
		cases = append(cases, c)
		replays = append(replays, rp)
		st.Ops++
		if !seen[sig] {
			seen[sig] = true
			st.Distinct++
		}
	}
	for ci := 0; len(cases) < n; ci++ {
		r := rng.Fork(uint64(ci))
		ni := r.Intn(len(names))
		net := bitcointypes.BitcoinNetworks[names[ni]]
		switch r.Intn(10) {
		case 0, 1, 2: // ---- hand out a deposit address, then check it the way a wallet + the node would
			k := genKey(r)
			evm := r.Bytes(20)
			if r.Chance(5) {
				evm = r.Bytes(19 + 2*r.Intn(2))
			}
			magic := []byte("GTV" + string(rune('0'+r.Intn(10))))
			if r.Chance(5) {
				magic = r.Bytes(3 + 2*r.Intn(2))
			}
			ver := uint64(r.Intn(2))
			var obs *string
			rp := map[string]any{"kind": "deposit-address", "net": names[ni], "key": hex.EncodeToString(k.raw), "secp": k.secp, "evm": hex.EncodeToString(evm), "magic": hex.EncodeToString(magic), "version": ver}
			var addr btcutil.Address
			var opret []byte
			var err error
			if ver == 0 {
				addr, err = bitcointypes.DepositAddressV0(k.pk, evm, net)
			} else {
				addr, opret, err = bitcointypes.DepositAddressV1(k.pk, magic, evm, net)
			}
			st.Count(fmt.Sprintf("deposit-address:v%d:secp=%v:ok=%v", ver, k.secp, err == nil))
			// the same request through the node's query service, with the key / network / magic prefix in the keeper's state
			if qe == nil || ci%50 == 0 {
				qe = NewEnv()
			}
			if len(magic) == 4 || ver == 0 {
				prm := bitcointypes.DefaultParams()
				prm.NetworkName = names[ni]
				if len(magic) == 4 {
					prm.DepositMagicPrefix = magic
				}
				mustNoErr(qe.Bitcoin.Params.Set(qe.Ctx, prm))
				mustNoErr(qe.Bitcoin.Pubkey.Set(qe.Ctx, *k.pk))
				resp, qerr := bitcoinkeeper.NewQueryServerImpl(qe.Bitcoin).DepositAddress(qe.Ctx, &bitcointypes.QueryDepositAddress{EvmAddress: "0x" + hex.EncodeToString(evm), Version: uint32(ver)})
				st.Chk("C17-query-service-agrees")
				if (qerr == nil) != (err == nil) || (qerr == nil && (resp.Address != addr.EncodeAddress() || !bytes.Equal(resp.OpReturnScript, opret) || resp.NetworkName != names[ni])) {
					st.Violate("C17", "query", "query-differs-from-builder", fmt.Sprintf("Query/DepositAddress does not hand out what the builder computes (query err=%v, builder err=%v)", qerr, err), rp)
				}
			}
			if err == nil {
				s := cTuple(cStr(addr.EncodeAddress()), cB(opret))
				obs = &s
				rp["address"] = addr.EncodeAddress()
				// what a wallet pays to: the script of the decoded address string
				dec, derr := btcutil.DecodeAddress(addr.EncodeAddress(), net)
				if derr != nil {
					st.Violate("C17", "round-trip", "handed-out-address-undecodable", "a handed-out deposit address does not decode: "+derr.Error(), rp)
				} else {
					script, _ := txscript.PayToAddrScript(dec)
					st.Chk("C17-handed-out-accepted")
					var verr error
					if ver == 0 {
						verr = bitcointypes.VerifyDespositScriptV0(k.pk, evm, script)
					} else {
						verr = bitcointypes.VerifyDespositScriptV1(k.pk, magic, evm, script, opret)
					}
					if verr != nil {
						st.Violate("C17", "round-trip", fmt.Sprintf("handed-out-address-rejected:v%d:secp=%v", ver, k.secp), "deposit verification rejects the address/script the node handed out for the same key and EVM address: "+verr.Error(), rp)
					}
					// ... and for no other key / EVM address
					st.Chk("C17-no-other")
					k2 := genKey(r)
					for !k2.valid || k2.secp != k.secp {
						k2 = genKey(r)
					}
					evm2 := append([]byte{}, evm...)
					evm2[r.Intn(20)] ^= byte(1 << uint(r.Intn(8)))
					var e1, e2 error
					if ver == 0 {
						e1 = bitcointypes.VerifyDespositScriptV0(k2.pk, evm, script)
						e2 = bitcointypes.VerifyDespositScriptV0(k.pk, evm2, script)
					} else {
						e1 = bitcointypes.VerifyDespositScriptV1(k2.pk, magic, evm, script, opret)
						e2 = bitcointypes.VerifyDespositScriptV1(k.pk, magic, evm2, script, opret)
					}
					if e1 == nil || e2 == nil {
						st.Violate("C17", "binding", fmt.Sprintf("accepted-for-other:v%d:secp=%v", ver, k.secp), "a handed-out deposit script is accepted for another key or another EVM address", rp)
					}
					// the deposit address must also be a system address only in version 1
				}
			} else if k.valid && len(evm) == 20 && (ver == 0 || (len(magic) == 4 && k.secp)) {
				st.Violate("C17", "round-trip", "no-address-for-supported-combination", "no deposit address for a supported key type / version: "+err.Error(), rp)
			}
			add(cApp("ADeposit", cN(uint64(ni)), k.coq, cB(magic), cB(evm), cN(ver), cB(k.h160()), cB(k.tweak(evm)), cOpt(obs)), rp, fmt.Sprintf("dep:%d:%v:%v", ver, k.secp, err == nil))
		case 3, 4: // ---- verifier on mutated scripts
			k := genKey(r)
			for !k.parses && r.Chance(50) {
				k = genKey(r)
			}
			evm := r.Bytes(20)
			if r.Chance(4) {
				evm = r.Bytes(21)
			}
			magic := []byte("GTV1")
			ver := r.Intn(2)
			// genuine scripts built independently of the code under test
			var t0, t1 []byte
			if k.secp {
				ws, _ := txscript.NewScriptBuilder().AddData(evm).AddOp(txscript.OP_DROP).AddData(k.raw).AddOp(txscript.OP_CHECKSIG).Script()
				if ver == 0 {
					t0 = append([]byte{0, 32}, goatcrypto.SHA256Sum(ws)...)
				} else {
					t0 = append([]byte{0, 20}, k.h160()...)
					t1 = append(append([]byte{0x6a, 24}, magic...), evm...)
				}
			} else {
				t0 = append([]byte{0x51, 32}, k.tweak(evm)...)
				if len(t0) != 34 {
					t0 = append([]byte{0x51, 32}, r.Bytes(32)...)
				}
				t1 = append(append([]byte{0x6a, 24}, magic...), evm...)
				if ver == 1 && k.parses && r.Side(29).Chance(50) {
					// the relayer's own (key-path) taproot address with a well-formed data output: version 1 is for ECDSA keys only
					if p, err := schnorr.ParsePubKey(k.raw); err == nil {
						t0 = append([]byte{0x51, 32}, schnorr.SerializePubKey(txscript.ComputeTaprootKeyNoScript(p))...)
						st.Count("verify:v1:schnorr-key-with-its-key-path-address")
					}
				}
			}
			mut := "genuine"
			if r.Chance(65) {
				switch r.Intn(8) {
				case 0:
					t0 = append([]byte{}, t0...)
					t0[2+r.Intn(len(t0)-2)] ^= 1
					mut = "program-bit"
				case 1:
					t0 = append([]byte{}, t0...)
					t0[0] ^= 0x51
					mut = "version-op"
				case 2:
					t0 = t0[:len(t0)-1]
					mut = "short"
				case 3:
					t0 = append(append([]byte{}, t0...), 0)
					mut = "long"
				case 4:
					if len(t1) > 3 {
						t1 = append([]byte{}, t1...)
						t1[2+r.Intn(len(t1)-2)] ^= 0x80
						mut = "opreturn-bit"
					}
				case 5:
					if len(t1) > 3 {
						t1 = append([]byte{}, t1...)
						t1[1] = 23
						t1 = t1[:25]
						mut = "opreturn-short"
					}
				case 6:
					t0 = append([]byte{}, t0...)
					t0[1] ^= 0x34 // 20 <-> 32
					mut = "push-len"
				case 7:
					t0 = r.Bytes(34)
					mut = "random"
				}
			}
			var err error
			rp := map[string]any{"kind": "verify", "version": ver, "key": hex.EncodeToString(k.raw), "secp": k.secp, "evm": hex.EncodeToString(evm), "txout0": hex.EncodeToString(t0), "txout1": hex.EncodeToString(t1), "mutation": mut}
			if ver == 0 {
				err = bitcointypes.VerifyDespositScriptV0(k.pk, evm, t0)
				add(cApp("AVerify0", k.coq, cB(evm), cB(t0), cB(k.tweak(evm)), cBool(err == nil)), rp, fmt.Sprintf("v0:%v:%s:%v", k.secp, mut, err == nil))
			} else {
				err = bitcointypes.VerifyDespositScriptV1(k.pk, magic, evm, t0, t1)
				add(cApp("AVerify1", k.coq, cB(magic), cB(evm), cB(t0), cB(t1), cB(k.h160()), cBool(err == nil)), rp, fmt.Sprintf("v1:%v:%s:%v", k.secp, mut, err == nil))
			}
			st.Count(fmt.Sprintf("verify:v%d:%s:accepted=%v", ver, mut, err == nil))
			t1Mut := mut == "opreturn-bit" || mut == "opreturn-short" // the data output plays no role in version 0
			if err == nil && ver == 1 && !k.secp {
				st.Violate("C17", "binding", "v1-accepted-for-a-schnorr-key", "version 1 deposit verification accepts a Schnorr relayer key (version 1 exists only for ECDSA keys)", rp)
			}
			if err == nil && mut != "genuine" && !(t1Mut && ver == 0) {
				st.Violate("C17", "binding", "mutated-script-accepted:"+mut, "deposit verification accepts a mutated script", rp)
			}
		default: // ---- withdrawal address decoding
			src := allNets[r.Intn(len(allNets))]
			if r.Chance(55) {
				src = net
			}
			kind := r.Intn(12)
			var s string
			var want []byte // the script the address encodes, computed independently; nil = must be rejected
			standard := true
			kname := ""
			switch kind {
			case 0:
				h := r.Bytes(20)
				s = base58.CheckEncode(h, src.PubKeyHashAddrID)
				want = append(append([]byte{0x76, 0xa9, 20}, h...), 0x88, 0xac)
				kname = "p2pkh"
			case 1:
				h := r.Bytes(20)
				s = base58.CheckEncode(h, src.ScriptHashAddrID)
				want = append(append([]byte{0xa9, 20}, h...), 0x87)
				kname = "p2sh"
			case 2, 3, 4, 5, 6:
				ver := byte(0)
				ln := 20
				kname = "p2wpkh"
				switch kind {
				case 3:
					ln, kname = 32, "p2wsh"
				case 4:
					ver, ln, kname = 1, 32, "p2tr"
				case 5: // non-standard witness programs
					ver = []byte{0, 1, 1, 1, 2, 16, byte(r.Intn(17))}[r.Intn(7)]
					ln = []int{2, 19, 20, 21, 32, 33, 40, 41}[r.Intn(8)]
					kname = fmt.Sprintf("witness-v%d-len%d", ver, ln)
					standard = (ver == 0 && (ln == 20 || ln == 32)) || (ver == 1 && ln == 32)
				case 6: // right program, wrong checksum flavour
					ver = byte(r.Intn(2))
					ln = 32
					kname = fmt.Sprintf("wrong-checksum-flavour-v%d", ver)
					standard = false
				}
				prog := r.Bytes(ln)
				conv, _ := bech32.ConvertBits(prog, 8, 5, true)
				data := append([]byte{ver}, conv...)
				useM := ver != 0
				if kind == 6 {
					useM = !useM
				}
				if useM {
					s, _ = bech32.EncodeM(src.Bech32HRPSegwit, data)
				} else {
					s, _ = bech32.Encode(src.Bech32HRPSegwit, data)
				}
				if standard {
					op := byte(0)
					if ver == 1 {
						op = 0x51
					}
					want = append([]byte{op, byte(ln)}, prog...)
				}
			case 7:
				priv, _ := btcec.PrivKeyFromBytes(r.Bytes(32))
				if r.Bool() {
					s = hex.EncodeToString(priv.PubKey().SerializeCompressed())
				} else {
					s = hex.EncodeToString(priv.PubKey().SerializeUncompressed())
				}
				kname, standard = "p2pk-hex", false
			case 8:
				s = base58.CheckEncode(r.Bytes(19+2*r.Intn(2)), src.PubKeyHashAddrID)
				kname, standard = "base58-bad-length", false
			case 9:
				s = base58.CheckEncode(r.Bytes(20), byte(r.Intn(256)))
				kname, standard = "base58-random-version", false
				want = nil
			case 10:
				s = string(r.Bytes(r.Intn(70)))
				kname, standard = "random-bytes", false
			default:
				h := make([]byte, 20) // leading zero bytes: leading '1' characters
				copy(h[1+r.Intn(3):], r.Bytes(20))
				s = base58.CheckEncode(h, src.PubKeyHashAddrID)
				want = append(append([]byte{0x76, 0xa9, 20}, h...), 0x88, 0xac)
				kname = "p2pkh-leading-zeros"
			}
			mut := ""
			if r.Chance(30) {
				s, mut = mutateString(r, s)
				want = nil
				standard = false
			}
			// is the source network distinguishable from the configured one for this kind?
			foreign := false
			if src != net {
				switch {
				case kname == "p2pkh" || kname == "p2pkh-leading-zeros":
					foreign = src.PubKeyHashAddrID != net.PubKeyHashAddrID
				case kname == "p2sh":
					foreign = src.ScriptHashAddrID != net.ScriptHashAddrID
				case kname == "p2wpkh" || kname == "p2wsh" || kname == "p2tr" || strings.HasPrefix(kname, "witness-v") || strings.HasPrefix(kname, "wrong-checksum-flavour"):
					foreign = src.Bech32HRPSegwit != net.Bech32HRPSegwit
				}
				// for the other kinds (random version bytes, malformed strings, ...) "the source network" says
				// nothing about the string: a random version byte may well be the configured network's
			}
			script, err := bitcointypes.DecodeBtcAddress(s, net)
			rp := map[string]any{"kind": "decode", "net": names[ni], "source_net": src.Name, "address": s, "address_hex": hex.EncodeToString([]byte(s)), "address_kind": kname, "mutation": mut}
			st.Count(fmt.Sprintf("decode:%s:%s:foreign=%v:ok=%v", kname, map[bool]string{true: "mutated", false: "intact"}[mut != ""], foreign, err == nil))
			if mut == "" {
				st.Chk("C17-decode-oracle")
				switch {
				case standard && !foreign && want != nil:
					if err != nil || !bytes.Equal(script, want) {
						st.Violate("C17", "decode", "standard-address-wrong-script:"+kname, fmt.Sprintf("a standard %s address of the configured network does not decode to the script it encodes (err=%v got=%x want=%x)", kname, err, script, want), rp)
					}
				case foreign && err == nil:
					st.Violate("C17", "decode", "foreign-network-accepted:"+kname, "an address of another network is accepted", rp)
				case kname == "p2pk-hex" && err == nil:
					st.Violate("C17", "decode", "p2pk-accepted", "a pay-to-pubkey address is accepted", rp)
				case !standard && err == nil && strings.HasPrefix(kname, "witness-v"):
					// outside the property's letter (non-standard witness program), reported as an observation
					st.Count("observation:non-standard-witness-program-accepted:" + kname)
				}
			}
			var obs *string
			if err == nil {
				x := cB(script)
				obs = &x
			}
			add(cApp("ADecode", cN(uint64(ni)), cStr(s), cOpt(obs)), rp, fmt.Sprintf("dec:%s:%s:%v:%v", kname, mut, foreign, err == nil))
		}
	}
	return cases, replays
}

func mustNoErr(err error) {
	if err != nil {
		panic(err)
	}
}
