package main

// Family "merkle": differential test of x/bitcoin/types.VerifyMerkelProof against the Gallina
// model Merkle.verify (instantiated with the executable double-SHA256), plus an independent
// reference predicate (the property's own statement) as implementation-side monitor.

import (
	"bytes"
	"crypto/sha256"
	"encoding/hex"
	"fmt"

	bitcointypes "github.com/goatnetwork/goat/x/bitcoin/types"
)

func dsha(b []byte) []byte {
	a := sha256.Sum256(b)
	c := sha256.Sum256(a[:])
	return c[:]
}

// buildTree returns all levels of the Bitcoin merkle tree (level 0 = leaves, padded by
// duplicating the last node on odd levels).
func buildTree(leaves [][]byte) [][][]byte {
	levels := [][][]byte{leaves}
	cur := leaves
	for len(cur) > 1 {
		if len(cur)%2 == 1 {
			cur = append(append([][]byte{}, cur...), cur[len(cur)-1])
			levels[len(levels)-1] = cur
		}
		next := make([][]byte, 0, len(cur)/2)
		for i := 0; i < len(cur); i += 2 {
			next = append(next, dsha(append(append([]byte{}, cur[i]...), cur[i+1]...)))
		}
		levels = append(levels, next)
		cur = next
	}
	return levels
}

func merkleProof(levels [][][]byte, idx int) []byte {
	var p []byte
	for l := 0; l < len(levels)-1; l++ {
		p = append(p, levels[l][idx^1]...)
		idx >>= 1
	}
	return p
}

// refVerify is the property statement evaluated directly.
func refVerify(txid, root, proof []byte, index uint32) bool {
	if len(txid) != 32 || len(root) != 32 || len(proof)%32 != 0 {
		return false
	}
	k := len(proof) / 32
	cur := txid
	idx := uint64(index)
	for i := 0; i < k; i++ {
		sib := proof[i*32 : (i+1)*32]
		if idx&1 == 0 {
			cur = dsha(append(append([]byte{}, cur...), sib...))
		} else {
			cur = dsha(append(append([]byte{}, sib...), cur...))
		}
		idx >>= 1
	}
	if k < 32 && uint64(index) >= (uint64(1)<<uint(k)) {
		return false
	}
	return bytes.Equal(cur, root)
}

type merkleCase struct {
	Kind  string `json:"kind"`
	Txid  string `json:"txid"`
	Root  string `json:"root"`
	Proof string `json:"proof"`
	Index uint32 `json:"index"`
	Impl  bool   `json:"impl"`
	Ref   bool   `json:"ref"`
}

func init() {
	families["merkle"] = &Family{Requires: "Cases.MerkleRun", CaseType: "mcase", Run: runMerkle}
}

func runMerkle(rng *Rng, n int, st *Stats, param string) ([]string, []any) {
	var cases []string
	var replays []any
	seen := map[string]bool{}
	add := func(kind string, txid, root, proof []byte, index uint32) {
		impl := bitcointypes.VerifyMerkelProof(txid, root, proof, index)
		ref := refVerify(txid, root, proof, index)
		mc := merkleCase{kind, hex.EncodeToString(txid), hex.EncodeToString(root), hex.EncodeToString(proof), index, impl, ref}
		st.Count(kind)
		st.Count(fmt.Sprintf("impl=%v", impl))
		st.Ops++
		key := mc.Txid + mc.Root + mc.Proof + fmt.Sprint(index)
		if !seen[key] && len(proof) > 0 {
			seen[key] = true
			st.Distinct++
		}
		st.Chk("ref_predicate")
		if impl != ref {
			cls := "accepts-out-of-range-position"
			if !impl {
				cls = "rejects-valid"
			} else if uint64(index) < (uint64(1) << uint(minInt(len(proof)/32, 32))) {
				cls = "accepts-wrong-fold"
			}
			st.Violate("C04", "ref_predicate", cls,
				fmt.Sprintf("VerifyMerkelProof=%v but the property's predicate says %v (kind %s, index %d, path nodes %d)", impl, ref, kind, index, len(proof)/32), mc)
		}
		st.Sample(mc)
		cases = append(cases, cTuple(cB(txid), cB(root), cB(proof), cN(uint64(index)), cBool(impl)))
		replays = append(replays, mc)
	}

	for len(cases) < n {
		r := rng.Fork(uint64(len(cases)))
		// tree size: mostly small, sometimes larger
		var nl int
		switch r.Intn(10) {
		case 0:
			nl = 1
		case 1, 2, 3:
			nl = 2 + r.Intn(7)
		case 4, 5, 6, 7:
			nl = 2 + r.Intn(60)
		default:
			nl = 2 + r.Intn(600)
		}
		leaves := make([][]byte, nl)
		for i := range leaves {
			leaves[i] = dsha(r.Bytes(40))
		}
		levels := buildTree(append([][]byte{}, leaves...))
		root := levels[len(levels)-1][0]
		depth := len(levels) - 1
		pos := r.Intn(nl)
		if r.Chance(30) {
			pos = 0
		}
		if r.Chance(10) {
			pos = nl - 1
		}
		txid := leaves[pos]
		proof := merkleProof(levels, pos)
		add("genuine", txid, root, proof, uint32(pos))
		switch r.Intn(14) {
		case 0:
			add("alias+2^d", txid, root, proof, uint32(uint64(pos)+uint64(1+r.Intn(5))<<uint(depth)))
		case 1:
			add("alias-2^31", txid, root, proof, uint32(pos)|1<<31)
		case 2:
			add("index-max", txid, root, proof, 0xFFFFFFFF)
		case 3:
			add("shifted", txid, root, proof, uint32(pos+1))
		case 4:
			if depth > 0 {
				add("truncated", txid, root, proof[:len(proof)-32], uint32(pos))
				// inner node proven with truncated path at its own position: legitimately accepted by the function
				add("inner-node", levels[1][pos>>1], root, proof[32:], uint32(pos>>1))
			}
		case 5:
			add("extended", txid, root, append(append([]byte{}, proof...), r.Bytes(32)...), uint32(pos))
		case 6:
			if depth > 1 {
				p := append([]byte{}, proof...)
				copy(p[0:32], proof[32:64])
				copy(p[32:64], proof[0:32])
				add("permuted", txid, root, p, uint32(pos))
			}
		case 7:
			if len(proof) > 0 {
				p := append([]byte{}, proof...)
				p[r.Intn(len(p))] ^= 1 << uint(r.Intn(8))
				add("bitflip-path", txid, root, p, uint32(pos))
			}
			t := append([]byte{}, txid...)
			t[r.Intn(32)] ^= 1 << uint(r.Intn(8))
			add("bitflip-leaf", t, root, proof, uint32(pos))
		case 8:
			add("wrong-root", txid, dsha(r.Bytes(8)), proof, uint32(pos))
		case 9:
			add("short-txid", txid[:31], root, proof, uint32(pos))
			add("long-root", txid, append(append([]byte{}, root...), 0), proof, uint32(pos))
		case 10:
			if len(proof) > 0 {
				add("ragged", txid, root, proof[:len(proof)-1-r.Intn(31)], uint32(pos))
			}
			// the genuine path followed by 1..31 stray bytes: not a whole number of nodes
			add("ragged-extended", txid, root, append(append([]byte{}, proof...), r.Side(3).Bytes(1+r.Side(4).Intn(31))...), uint32(pos))
		case 11:
			// leaf 0 (the coinbase) presented under other positions
			p0 := merkleProof(levels, 0)
			for _, k := range []uint{uint(depth), uint(depth) + 1, 31} {
				if k < 32 {
					add("coinbase-alias", leaves[0], root, p0, uint32(1)<<k)
				}
			}
		case 12:
			// duplicated last leaf of an odd level: genuinely present at pos+1
			if nl%2 == 1 && nl > 1 {
				add("dup-last", leaves[nl-1], root, merkleProof(levels, nl), uint32(nl))
			}
		case 13:
			add("empty-proof-root-eq", txid, txid, nil, uint32(r.Intn(3)))
		}
	}
	return cases, replays
}

func minInt(a, b int) int {
	if a < b {
		return a
	}
	return b
}
