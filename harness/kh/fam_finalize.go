package main

// Family "finalize" (C09): Keeper.Finalized at keeper level against a scripted engine CLIENT.  The application-level
// faults family talks to its engine over the real IPC JSON-RPC transport, where every server-side failure reaches
// the keeper as the same plain RPC error; the classes a client produces itself (deadline exceeded, a network
// time-out, cancellation, a cut connection) can only be presented here.  Same case type and model function as the
// faults family (FFinal: answers of newPayload and forkchoiceUpdated -> does the block commit).
import (
	"context"
	"fmt"
	"io"
	"net"

	"cosmossdk.io/math"
	"github.com/ethereum/go-ethereum/beacon/engine"
	"github.com/ethereum/go-ethereum/params"
	goattypes "github.com/goatnetwork/goat/x/goat/types"
)

func init() {
	families["finalize"] = &Family{Requires: "Model.GoatBlock Cases.FaultRun", CaseType: "fcase", Run: runFinalize}
}

type timeoutErr struct{}

func (timeoutErr) Error() string   { return "i/o timeout" }
func (timeoutErr) Timeout() bool   { return true }
func (timeoutErr) Temporary() bool { return true }

func runFinalize(rng *Rng, n int, st *Stats, param string) ([]string, []any) {
	var cases []string
	var replays []any
	e := NewEnv()
	h := sha256Sum([]byte("finalize-family-block"))
	blk := goattypes.ExecutionPayload{
		ParentHash: make([]byte, 32), FeeRecipient: make([]byte, 20), StateRoot: make([]byte, 32), ReceiptsRoot: make([]byte, 32),
		LogsBloom: make([]byte, 256), PrevRandao: make([]byte, 32), BlockNumber: 1, GasLimit: 30000000, Timestamp: 1,
		ExtraData: make([]byte, params.GoatHeaderExtraLengthV0), BaseFeePerGas: math.NewInt(7), BlockHash: h, Transactions: [][]byte{}, BeaconRoot: make([]byte, 32),
	}
	if err := e.Goat.Block.Set(e.Ctx, blk); err != nil {
		panic(err)
	}
	errClasses := []struct {
		name string
		err  error
	}{
		{"plain", fmt.Errorf("scripted engine error")},
		{"deadline-exceeded", fmt.Errorf("scripted engine error: %w", context.DeadlineExceeded)},
		{"net-timeout", &net.OpError{Op: "read", Net: "tcp", Err: timeoutErr{}}},
		{"canceled", fmt.Errorf("scripted engine error: %w", context.Canceled)},
		{"cut-connection", io.ErrUnexpectedEOF},
	}
	statuses := []struct{ coq, status string }{{"AValid", engine.VALID}, {"AInvalid", engine.INVALID}, {"ASyncing", engine.SYNCING}, {"AAccepted", engine.ACCEPTED}}
	for ci := 0; len(cases) < n; ci++ {
		r := rng.Fork(uint64(ci))
		*e.Engine = fakeEngine{}
		np, fc := "AValid", "AValid"
		desc := map[string]any{}
		set := func(call string) string {
			if r.Chance(55) {
				c := errClasses[r.Intn(len(errClasses))]
				if call == "np" {
					e.Engine.npErr = c.err
				} else {
					e.Engine.fcErr = c.err
				}
				desc[call] = "error:" + c.name
				st.Count(call + ":error:" + c.name)
				return "AError"
			}
			s := statuses[r.Intn(len(statuses))]
			if call == "fc" && s.coq == "AAccepted" {
				s = statuses[2]
			}
			if call == "np" {
				e.Engine.npStatus = s.status
			} else {
				e.Engine.fcStatus = s.status
			}
			desc[call] = s.status
			st.Count(call + ":" + s.status)
			return s.coq
		}
		switch r.Intn(3) {
		case 0:
			np = set("np")
		case 1:
			fc = set("fc")
		default:
			np, fc = set("np"), set("fc")
		}
		err := e.Goat.Finalized(e.Ctx)
		committed := err == nil
		st.Ops++
		st.Chk("C09-finalized-client-fault")
		// keeper level: the head was recorded by the block message; committing the block is what makes it advance
		coq := fmt.Sprintf("(FFinal %s %s %s %s)", np, fc, cBool(committed), cBool(committed))
		desc["case"] = coq
		desc["finalized_error"] = fmt.Sprint(err)
		if committed && (np == "AError" || fc == "AError" || np == "AInvalid" || fc == "AInvalid") {
			st.Violate("C09", "faults", "engine-fault-commits:"+fmt.Sprint(desc["np"])+"/"+fmt.Sprint(desc["fc"]),
				fmt.Sprintf("Keeper.Finalized returned no error although the engine client answered newPayload=%v forkchoiceUpdated=%v: the block commits without the engine having taken the head", desc["np"], desc["fc"]), desc)
		}
		st.Sample(desc)
		cases = append(cases, coq)
		replays = append(replays, desc)
	}
	*e.Engine = fakeEngine{}
	return cases, replays
}
